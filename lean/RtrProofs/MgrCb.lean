/-
  Helper lemmas for C15, part 2: the pieces of rtr_mgr_cb (stop loop with nested RTR_SHUTDOWN
  callbacks, closing of less preferable groups, start of the best inactive group).
-/
import RtrModel.Mgr
import RtrProofs.MgrSort

namespace Rtr.Mgr

/-! ### modG / setStatus -/

theorem mem_modG {gs : List Group} {p : Nat} {f : Group → Group} {g' : Group} (h : g' ∈ modG gs p f) :
    (g' ∈ gs ∧ g'.pref ≠ p) ∨ (∃ g ∈ gs, g.pref = p ∧ g' = f g) := by
  unfold modG at h
  obtain ⟨g, hg, rfl⟩ := List.mem_map.mp h
  by_cases hp : g.pref = p
  · right; exact ⟨g, hg, hp, by rw [if_pos hp]⟩
  · left; rw [if_neg hp]; exact ⟨hg, hp⟩

theorem mem_modG_of_ne {gs : List Group} {p : Nat} {f : Group → Group} {g : Group} (hg : g ∈ gs)
    (hp : g.pref ≠ p) : g ∈ modG gs p f := by
  unfold modG
  exact List.mem_map.mpr ⟨g, hg, by rw [if_neg hp]⟩

theorem mem_modG_of_eq {gs : List Group} {p : Nat} {f : Group → Group} {g : Group} (hg : g ∈ gs)
    (hp : g.pref = p) : f g ∈ modG gs p f := by
  unfold modG
  exact List.mem_map.mpr ⟨g, hg, by rw [if_pos hp]⟩

theorem prefs_modG {gs : List Group} {p : Nat} {f : Group → Group} (hf : ∀ g, g.pref = p → (f g).pref = g.pref) :
    prefs (modG gs p f) = prefs gs := by
  unfold prefs modG
  rw [List.map_map]
  apply List.map_congr_left
  intro g _
  simp only [Function.comp]
  split
  · rename_i h; exact hf g h
  · rfl

theorem prefs_setStatus (gs : List Group) (p : Nat) (st : Status) : prefs (setStatus gs p st) = prefs gs :=
  prefs_modG (fun _ _ => rfl)

theorem mem_setStatus {gs : List Group} {p : Nat} {st : Status} {g' : Group} (h : g' ∈ setStatus gs p st) :
    (g' ∈ gs ∧ g'.pref ≠ p) ∨ (∃ g ∈ gs, g.pref = p ∧ g' = { g with status := st }) :=
  mem_modG h

/-! ### the stop loop -/

theorem stopGo_log {pref : Nat} {st : Status} {done rest : List Sock} {e : Ev}
    (h : e ∈ (stopGo pref st done rest).2.2) :
    (∃ j, e = Ev.stop pref j ∧ done.length ≤ j ∧ j < done.length + rest.length) ∨
    (∃ x, e = Ev.status pref .closed x) ∨ (∃ x, e = Ev.status pref st x) := by
  induction rest generalizing st done with
  | nil => simp [stopGo] at h
  | cons s t ih =>
    simp only [stopGo] at h
    rcases List.mem_cons.mp h with rfl | h
    · left; exact ⟨done.length, rfl, Nat.le_refl _, by simp⟩
    · rcases List.mem_append.mp h with h | h
      · split at h
        · cases h
        · simp only [List.mem_singleton] at h
          subst h
          split
          · right; left; exact ⟨_, rfl⟩
          · right; right; exact ⟨_, rfl⟩
      · rcases ih h with ⟨j, rfl, h1, h2⟩ | ⟨x, rfl⟩ | ⟨x, rfl⟩
        · left
          refine ⟨j, rfl, ?_, ?_⟩ <;> simp only [List.length_append, List.length_cons, List.length_nil] at * <;> omega
        · right; left; exact ⟨x, rfl⟩
        · split
          · right; right; exact ⟨x, rfl⟩
          · split
            · right; left; exact ⟨x, rfl⟩
            · right; right; exact ⟨x, rfl⟩

theorem stopGo_stops {pref : Nat} {st : Status} {done rest : List Sock} {j : Nat} (hj : j < rest.length) :
    Ev.stop pref (done.length + j) ∈ (stopGo pref st done rest).2.2 := by
  induction rest generalizing st done j with
  | nil => cases hj
  | cons s t ih =>
    simp only [stopGo]
    cases j with
    | zero => exact List.mem_cons_self
    | succ k =>
      apply List.mem_cons_of_mem
      apply List.mem_append_right
      have := @ih (if s.state = SockState.shutdown then (st, ([] : List Ev)) else
        (if (done ++ { s with state := SockState.shutdown } :: t).all (fun x => x.state == SockState.shutdown) = true
          then Status.closed else st,
         [Ev.status pref (if (done ++ { s with state := SockState.shutdown } :: t).all
            (fun x => x.state == SockState.shutdown) = true then Status.closed else st)
            (some (pref, done.length))])).1 (done ++ [s.stopped]) k (by simpa using hj)
      simp only [List.length_append, List.length_cons, List.length_nil] at this
      have e : done.length + (k + 1) = done.length + 0 + 1 + k := by omega
      rw [e]
      exact this

theorem Sock.stopped_thread (s : Sock) : s.stopped.thread = false := by
  unfold Sock.stopped
  split
  · rfl
  · rename_i h; simpa using h

theorem stopGo_threads {pref : Nat} {st : Status} {done rest : List Sock} {s : Sock}
    (h : s ∈ (stopGo pref st done rest).2.1) : s ∈ done ∨ s.thread = false := by
  induction rest generalizing st done with
  | nil => left; simpa [stopGo] using h
  | cons x t ih =>
    simp only [stopGo] at h
    rcases ih h with h | h
    · rcases List.mem_append.mp h with h | h
      · left; exact h
      · right
        simp only [List.mem_singleton] at h
        subst h
        exact Sock.stopped_thread x
    · right; exact h

theorem stopGo_status (pref : Nat) (st : Status) (done rest : List Sock) :
    (stopGo pref st done rest).1 = .closed ∨ (stopGo pref st done rest).1 = st := by
  induction rest generalizing st done with
  | nil => right; rfl
  | cons x t ih =>
    simp only [stopGo]
    split
    · exact ih ..
    · split
      · left
        rcases ih (st := Status.closed) (done := done ++ [x.stopped]) with h | h <;> exact h
      · exact ih ..

theorem stopAll_pref (g : Group) : g.stopAll.1.pref = g.pref := rfl

theorem stopAll_status (g : Group) : g.stopAll.1.status = .closed ∨ g.stopAll.1.status = g.status :=
  stopGo_status ..

theorem stopAll_threads (g : Group) : ∀ s ∈ g.stopAll.1.socks, s.thread = false := by
  intro s hs
  rcases stopGo_threads (show s ∈ (stopGo g.pref g.status [] g.socks).2.1 from hs) with h | h
  · cases h
  · exact h

theorem stopAll_log {g : Group} {e : Ev} (h : e ∈ g.stopAll.2) :
    (∃ j, e = Ev.stop g.pref j ∧ j < g.socks.length) ∨ (∃ x, e = Ev.status g.pref .closed x) ∨
    (∃ x, e = Ev.status g.pref g.status x) := by
  rcases stopGo_log (show e ∈ (stopGo g.pref g.status [] g.socks).2.2 from h) with ⟨j, rfl, _, h2⟩ | h | h
  · left; exact ⟨j, rfl, by simpa using h2⟩
  · right; left; exact h
  · right; right; exact h

theorem stopAll_stops {g : Group} {j : Nat} (hj : j < g.socks.length) : Ev.stop g.pref j ∈ g.stopAll.2 := by
  have h := @stopGo_stops g.pref g.status [] g.socks j hj
  simp only [List.length_nil, Nat.zero_add] at h
  exact h

/-! ### rtr_mgr_start_sockets -/

theorem startSocks_log {pref : Nat} {i : Nat} {l : List Sock} {e : Ev} (h : e ∈ (startSocks pref i l).2.1) :
    ∃ j ok, e = Ev.start pref j ok := by
  induction l generalizing i with
  | nil => simp [startSocks] at h
  | cons s t ih =>
    unfold startSocks at h
    split at h
    · simp only [List.mem_singleton] at h; exact ⟨_, _, h⟩
    · rcases List.mem_cons.mp h with rfl | h
      · exact ⟨_, _, rfl⟩
      · exact ih h

/-- when no socket has a thread every `rtr_start` succeeds: all sockets get a thread, all calls are
    logged as successful -/
theorem startSocks_ok {pref : Nat} {i : Nat} {l : List Sock} (h : ∀ s ∈ l, s.thread = false) :
    (startSocks pref i l).2.2 = true ∧ (∀ s ∈ (startSocks pref i l).1, s.thread = true) ∧
    (∀ j, j < l.length → Ev.start pref (i + j) true ∈ (startSocks pref i l).2.1) := by
  induction l generalizing i with
  | nil =>
    refine ⟨rfl, ?_, ?_⟩
    · intro s hs; simp [startSocks] at hs
    · intro j hj; exact absurd hj (Nat.not_lt_zero _)
  | cons s t ih =>
    have hs := h s List.mem_cons_self
    have ht := @ih (i + 1) (fun x hx => h x (List.mem_cons_of_mem _ hx))
    unfold startSocks
    rw [if_neg (by simp [hs])]
    refine ⟨ht.1, ?_, ?_⟩
    · intro x hx
      rcases List.mem_cons.mp hx with rfl | hx
      · rfl
      · exact ht.2.1 x hx
    · intro j hj
      cases j with
      | zero => exact List.mem_cons_self
      | succ k =>
        apply List.mem_cons_of_mem
        have := ht.2.2 k (by simpa using hj)
        have e : i + (k + 1) = i + 1 + k := by omega
        rw [e]; exact this

theorem startSockets_pref (g : Group) : g.startSockets.1.pref = g.pref := rfl

theorem startSockets_status (g : Group) :
    g.startSockets.1.status = .connecting ∨ g.startSockets.1.status = g.status := by
  unfold Group.startSockets
  simp only
  split
  · left; rfl
  · right; rfl

theorem startSockets_log {g : Group} {e : Ev} (h : e ∈ g.startSockets.2.1) : ∃ j ok, e = Ev.start g.pref j ok :=
  startSocks_log h

/-! ### rtr_mgr_close_less_preferable_groups -/

theorem closeOne_pref (p : Nat) (sock : Option (Nat × Nat)) (g : Group) : (closeOne p sock g).1.pref = g.pref := by
  unfold closeOne
  split <;> rfl

theorem closeOne_of_le {p : Nat} {sock : Option (Nat × Nat)} {g : Group} (h : g.pref ≤ p) :
    closeOne p sock g = (g, []) := by
  unfold closeOne
  rw [if_neg]
  intro hc; omega

theorem closeOne_closed {p : Nat} {sock : Option (Nat × Nat)} {g : Group} (h : p < g.pref) :
    (closeOne p sock g).1.status = .closed := by
  unfold closeOne
  split
  · rfl
  · rename_i hc
    simp only
    by_cases hcl : g.status = .closed
    · exact hcl
    · exact absurd ⟨hcl, by omega, h⟩ hc

/-- what a visited group looks like afterwards -/
theorem closeOne_result (p : Nat) (sock : Option (Nat × Nat)) (g : Group) :
    (closeOne p sock g).1 = g ∨
    ((closeOne p sock g).1.status = .closed ∧ p < g.pref ∧ g.status ≠ .closed ∧
      ∀ s ∈ (closeOne p sock g).1.socks, s.thread = false) := by
  unfold closeOne
  split
  · rename_i hc
    right
    exact ⟨rfl, hc.2.2, hc.1, stopAll_threads g⟩
  · left; rfl

theorem closeOne_log {p : Nat} {sock : Option (Nat × Nat)} {g : Group} {e : Ev} (h : e ∈ (closeOne p sock g).2) :
    p < g.pref ∧ g.status ≠ .closed ∧
    ((∃ j, e = Ev.stop g.pref j ∧ j < g.socks.length) ∨ (∃ x, e = Ev.status g.pref .closed x) ∨
     (∃ x, e = Ev.status g.pref g.status x)) := by
  unfold closeOne at h
  split at h
  · rename_i hc
    refine ⟨hc.2.2, hc.1, ?_⟩
    rcases List.mem_append.mp h with h | h
    · exact stopAll_log h
    · simp only [List.mem_singleton] at h
      right; left; exact ⟨_, h⟩
  · cases h

theorem closeOne_emits {p : Nat} {sock : Option (Nat × Nat)} {g : Group} (hp : p < g.pref) (hs : g.status ≠ .closed) :
    Ev.status g.pref .closed sock ∈ (closeOne p sock g).2 ∧
    ∀ j, j < g.socks.length → Ev.stop g.pref j ∈ (closeOne p sock g).2 := by
  unfold closeOne
  rw [if_pos ⟨hs, by omega, hp⟩]
  refine ⟨List.mem_append_right _ (List.mem_singleton.mpr rfl), ?_⟩
  intro j hj
  exact List.mem_append_left _ (stopAll_stops hj)

theorem closeLess_prefs (p : Nat) (sock : Option (Nat × Nat)) (gs : List Group) :
    prefs (closeLess p sock gs).1 = prefs gs := by
  induction gs with
  | nil => rfl
  | cons g t ih =>
    unfold prefs at *
    simp only [closeLess, List.map_cons, closeOne_pref, ih]

theorem closeLess_mem {p : Nat} {sock : Option (Nat × Nat)} {gs : List Group} {g' : Group}
    (h : g' ∈ (closeLess p sock gs).1) : ∃ g ∈ gs, g' = (closeOne p sock g).1 := by
  induction gs with
  | nil => cases h
  | cons g t ih =>
    simp only [closeLess] at h
    rcases List.mem_cons.mp h with rfl | h
    · exact ⟨g, List.mem_cons_self, rfl⟩
    · obtain ⟨x, hx, hx'⟩ := ih h
      exact ⟨x, List.mem_cons_of_mem _ hx, hx'⟩

theorem closeLess_mem_of {p : Nat} {sock : Option (Nat × Nat)} {gs : List Group} {g : Group}
    (h : g ∈ gs) : (closeOne p sock g).1 ∈ (closeLess p sock gs).1 := by
  induction gs with
  | nil => cases h
  | cons x t ih =>
    simp only [closeLess]
    rcases List.mem_cons.mp h with rfl | h
    · exact List.mem_cons_self
    · exact List.mem_cons_of_mem _ (ih h)

theorem closeLess_log {p : Nat} {sock : Option (Nat × Nat)} {gs : List Group} {e : Ev}
    (h : e ∈ (closeLess p sock gs).2) : ∃ g ∈ gs, e ∈ (closeOne p sock g).2 := by
  induction gs with
  | nil => cases h
  | cons g t ih =>
    simp only [closeLess] at h
    rcases List.mem_append.mp h with h | h
    · exact ⟨g, List.mem_cons_self, h⟩
    · obtain ⟨x, hx, hx'⟩ := ih h
      exact ⟨x, List.mem_cons_of_mem _ hx, hx'⟩

theorem closeLess_log_of {p : Nat} {sock : Option (Nat × Nat)} {gs : List Group} {g : Group} {e : Ev}
    (hg : g ∈ gs) (h : e ∈ (closeOne p sock g).2) : e ∈ (closeLess p sock gs).2 := by
  induction gs with
  | nil => cases hg
  | cons x t ih =>
    simp only [closeLess]
    rcases List.mem_cons.mp hg with rfl | hg
    · exact List.mem_append_left _ h
    · exact List.mem_append_right _ (ih hg)

/-! ### get_best_inactive_rtr_mgr_group + rtr_mgr_start_sockets -/

theorem startBest_prefs (p : Nat) (gs : List Group) : prefs (startBest p gs).1 = prefs gs := by
  induction gs with
  | nil => rfl
  | cons c t ih =>
    unfold prefs at *
    unfold startBest
    split
    · simp only [List.map_cons, startSockets_pref]
    · simp only [List.map_cons, ih]

theorem startBest_none {p : Nat} {gs : List Group} (h : ∀ c ∈ gs, ¬ (c.pref ≠ p ∧ c.status = .closed)) :
    startBest p gs = (gs, []) := by
  induction gs with
  | nil => rfl
  | cons c t ih =>
    unfold startBest
    rw [if_neg (h c List.mem_cons_self), ih (fun x hx => h x (List.mem_cons_of_mem _ hx))]

theorem startBest_mem {p : Nat} {gs : List Group} {g' : Group} (h : g' ∈ (startBest p gs).1) :
    g' ∈ gs ∨ ∃ q ∈ gs, q.pref ≠ p ∧ q.status = .closed ∧ g' = q.startSockets.1 := by
  induction gs with
  | nil => cases h
  | cons c t ih =>
    unfold startBest at h
    split at h
    · rename_i hc
      rcases List.mem_cons.mp h with rfl | h
      · right; exact ⟨c, List.mem_cons_self, hc.1, hc.2, rfl⟩
      · left; exact List.mem_cons_of_mem _ h
    · rcases List.mem_cons.mp h with rfl | h
      · left; exact List.mem_cons_self
      · rcases ih h with h | ⟨q, hq, h1, h2, h3⟩
        · left; exact List.mem_cons_of_mem _ h
        · right; exact ⟨q, List.mem_cons_of_mem _ hq, h1, h2, h3⟩

theorem startBest_log {p : Nat} {gs : List Group} {e : Ev} (h : e ∈ (startBest p gs).2) :
    ∃ q ∈ gs, q.pref ≠ p ∧ q.status = .closed ∧ ∃ j ok, e = Ev.start q.pref j ok := by
  induction gs with
  | nil => cases h
  | cons c t ih =>
    unfold startBest at h
    split at h
    · rename_i hc
      exact ⟨c, List.mem_cons_self, hc.1, hc.2, startSockets_log h⟩
    · obtain ⟨q, hq, h'⟩ := ih h
      exact ⟨q, List.mem_cons_of_mem _ hq, h'⟩

/-- in a sorted list the group that gets started is the most preferable CLOSED group other than
    `p`; every other group is left alone -/
theorem startBest_spec {p : Nat} {gs : List Group} (hs : Sorted gs) {q : Group} (hq : q ∈ gs)
    (hq1 : q.pref ≠ p) (hq2 : q.status = .closed)
    (hmin : ∀ c ∈ gs, c.pref ≠ p → c.status = .closed → q.pref ≤ c.pref) :
    (startBest p gs).2 = q.startSockets.2.1 ∧ q.startSockets.1 ∈ (startBest p gs).1 ∧
    (∀ c ∈ gs, c ≠ q → c ∈ (startBest p gs).1) ∧
    (∀ g' ∈ (startBest p gs).1, g' = q.startSockets.1 ∨ (g' ∈ gs ∧ g' ≠ q)) := by
  induction gs with
  | nil => cases hq
  | cons c t ih =>
    have hc := List.pairwise_cons.mp hs
    unfold startBest
    split
    · rename_i hel
      have hqc : q = c := by
        rcases List.mem_cons.mp hq with h | h
        · exact h
        · have h1 := hc.1 q h
          have h2 := hmin c List.mem_cons_self hel.1 hel.2
          omega
      subst hqc
      refine ⟨rfl, List.mem_cons_self, ?_, ?_⟩
      · intro x hx hne
        rcases List.mem_cons.mp hx with rfl | hx
        · exact absurd rfl hne
        · exact List.mem_cons_of_mem _ hx
      · intro g' hg'
        rcases List.mem_cons.mp hg' with rfl | hg'
        · left; rfl
        · right
          refine ⟨List.mem_cons_of_mem _ hg', ?_⟩
          intro he
          have := hc.1 g' hg'
          rw [he] at this; omega
    · rename_i hnel
      have hqt : q ∈ t := by
        rcases List.mem_cons.mp hq with h | h
        · subst h; exact absurd ⟨hq1, hq2⟩ hnel
        · exact h
      have hcq : c ≠ q := by
        intro he; subst he; exact hnel ⟨hq1, hq2⟩
      have := ih hc.2 hqt (fun x hx => hmin x (List.mem_cons_of_mem _ hx))
      refine ⟨this.1, List.mem_cons_of_mem _ this.2.1, ?_, ?_⟩
      · intro x hx hne
        rcases List.mem_cons.mp hx with rfl | hx
        · exact List.mem_cons_self
        · exact List.mem_cons_of_mem _ (this.2.2.1 x hx hne)
      · intro g' hg'
        rcases List.mem_cons.mp hg' with rfl | hg'
        · right; exact ⟨List.mem_cons_self, hcq⟩
        · rcases this.2.2.2 g' hg' with h | h
          · left; exact h
          · right; exact ⟨List.mem_cons_of_mem _ h.1, h.2⟩

/-! ### start of the first group, rtr_mgr_stop -/

theorem startFirstIfClosed_prefs (gs : List Group) : prefs (startFirstIfClosed gs).1 = prefs gs := by
  cases gs with
  | nil => rfl
  | cons b t =>
    simp only [startFirstIfClosed, prefs]
    split <;> simp [startSockets_pref]

theorem startFirstIfClosed_mem {gs : List Group} {g' : Group} (h : g' ∈ (startFirstIfClosed gs).1) :
    g' ∈ gs ∨ ∃ q ∈ gs, q.status = .closed ∧ g' = q.startSockets.1 := by
  cases gs with
  | nil => cases h
  | cons b t =>
    simp only [startFirstIfClosed] at h
    split at h
    · rename_i hb
      rcases List.mem_cons.mp h with rfl | h
      · right; exact ⟨b, List.mem_cons_self, hb, rfl⟩
      · left; exact List.mem_cons_of_mem _ h
    · left; exact h

theorem startFirstIfClosed_log {gs : List Group} {e : Ev} (h : e ∈ (startFirstIfClosed gs).2) :
    ∃ q j ok, e = Ev.start q j ok := by
  cases gs with
  | nil => cases h
  | cons b t =>
    simp only [startFirstIfClosed] at h
    split at h
    · obtain ⟨j, ok, rfl⟩ := startSockets_log h
      exact ⟨_, _, _, rfl⟩
    · cases h

theorem stop_prefs (gs : List Group) : prefs (stop gs).1 = prefs gs := by
  induction gs with
  | nil => rfl
  | cons g t ih =>
    unfold prefs at *
    simp only [stop, List.map_cons, stopAll_pref, ih]

theorem stop_mem {gs : List Group} {g' : Group} (h : g' ∈ (stop gs).1) : ∃ g ∈ gs, g' = g.stopAll.1 := by
  induction gs with
  | nil => cases h
  | cons g t ih =>
    simp only [stop] at h
    rcases List.mem_cons.mp h with rfl | h
    · exact ⟨g, List.mem_cons_self, rfl⟩
    · obtain ⟨x, hx, hx'⟩ := ih h
      exact ⟨x, List.mem_cons_of_mem _ hx, hx'⟩

end Rtr.Mgr
