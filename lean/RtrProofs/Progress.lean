/-
  Progress: one iteration of the state machine (`fsmStep`, model of the `while (1)` loop of
  rtr_fsm_start) lets the clock advance, or consumes something of the scripted environment (tape
  bytes / tape events, a scripted send outcome, a scripted open outcome), or moves strictly down a
  finite rank of socket states.  Used by RtrProps/C08.lean.
-/
import RtrProofs.TimeMono

namespace Rtr.P

/-! ## size of the scripted environment -/

/-- one tape event counts 1, every byte it still holds counts 1 -/
def evSize : TapeEv → Nat
  | .rx b => b.length + 1
  | _ => 1

def tapeSize : List TapeEv → Nat
  | [] => 0
  | ev :: rest => evSize ev + tapeSize rest

/-- what is left of the script: tape bytes + tape events + send outcomes + open outcomes -/
def envSize (n : Net) : Nat := tapeSize n.tape + n.sendQ.length + n.openQ.length

/-- the script did not grow (and the run is still of the same kind: threaded or not) -/
def EnvLe (n n' : Net) : Prop := envSize n' ≤ envSize n ∧ n'.threaded = n.threaded

/-- rank of the socket states: an iteration that neither lets time pass nor consumes anything of the
    script moves strictly down -/
def rank : SState → Nat
  | .shutdown => 0
  | .closed => 0
  | .established => 1
  | .sync => 1
  | .reset => 2
  | .connecting => 3
  | .fastReconnect => 4
  | .errNoData => 4
  | .errNoIncr => 4
  | .errFatal => 4
  | .errTransport => 4

def maxRank : Nat := 4

theorem rank_le (s : SState) : rank s ≤ maxRank := by cases s <;> decide

/-! ## the transport calls -/

theorem trRecvGo_spec (n0 : Net) (len : Nat) (timeout : Int) :
    ∀ (tape : List TapeEv) (now : Int),
      (trRecvGo n0 len timeout tape now).2.2.1.sendQ = n0.sendQ ∧
      (trRecvGo n0 len timeout tape now).2.2.1.openQ = n0.openQ ∧
      (trRecvGo n0 len timeout tape now).2.2.1.threaded = n0.threaded ∧
      tapeSize (trRecvGo n0 len timeout tape now).2.2.1.tape ≤ tapeSize tape ∧
      (0 < len → tape ≠ [] → tapeSize (trRecvGo n0 len timeout tape now).2.2.1.tape < tapeSize tape) := by
  intro tape
  induction tape with
  | nil => intro now; exact ⟨rfl, rfl, rfl, Nat.le_refl _, fun _ h => absurd rfl h⟩
  | cons ev rest ih =>
    intro now
    cases ev with
    | dt d =>
      simp only [trRecvGo]
      obtain ⟨h1, h2, h3, h4, _⟩ := ih (now + d)
      refine ⟨h1, h2, h3, ?_, fun _ _ => ?_⟩ <;> simp only [tapeSize, evSize] <;> omega
    | rx b =>
      simp only [trRecvGo, Net.emit]
      refine ⟨trivial, trivial, trivial, ?_⟩
      have hd : (b.drop (min b.length len)).length = b.length - min b.length len := List.length_drop
      by_cases hl : (b.drop (min b.length len)).isEmpty = true
      · rw [if_pos hl]
        simp only [tapeSize, evSize]
        exact ⟨by omega, fun _ _ => by omega⟩
      · rw [if_neg hl]
        have hne : (b.drop (min b.length len)).length ≠ 0 := fun h0 => hl (by
          rw [List.isEmpty_iff_length_eq_zero]; exact h0)
        simp only [tapeSize, evSize, hd]
        refine ⟨by omega, fun hlen _ => ?_⟩
        have : 0 < min b.length len := by
          rw [hd] at hne
          omega
        omega
    | err => exact ⟨rfl, rfl, rfl, by simp only [trRecvGo, Net.emit, tapeSize, evSize]; omega,
        fun _ _ => by simp only [trRecvGo, Net.emit, tapeSize, evSize]; omega⟩
    | intr => exact ⟨rfl, rfl, rfl, by simp only [trRecvGo, Net.emit, tapeSize, evSize]; omega,
        fun _ _ => by simp only [trRecvGo, Net.emit, tapeSize, evSize]; omega⟩
    | closed => exact ⟨rfl, rfl, rfl, by simp only [trRecvGo, Net.emit, tapeSize, evSize]; omega,
        fun _ _ => by simp only [trRecvGo, Net.emit, tapeSize, evSize]; omega⟩
    | block => exact ⟨rfl, rfl, rfl, by simp only [trRecvGo, Net.emit, tapeSize, evSize]; omega,
        fun _ _ => by simp only [trRecvGo, Net.emit, tapeSize, evSize]; omega⟩

/-- one `tr_recv`: the script does not grow; it shrinks unless the tape is exhausted -/
theorem trRecv_env (n : Net) (len : Nat) (timeout : Int) :
    EnvLe n (trRecv n len timeout).2.2.1 ∧
    (0 < len → n.tape ≠ [] → envSize (trRecv n len timeout).2.2.1 < envSize n) := by
  obtain ⟨h1, h2, h3, h4, h5⟩ := trRecvGo_spec n len timeout n.tape n.now
  unfold trRecv EnvLe envSize
  rw [h1, h2]
  exact ⟨⟨by omega, h3⟩, fun hl ht => by have := h5 hl ht; omega⟩

/-- `tr_recv` on the exhausted tape: an error, and — in a threaded run — the stop request -/
theorem trRecv_eof (n : Net) (len : Nat) (timeout : Int) (h : n.tape = []) :
    (trRecv n len timeout).1 = -1 ∧ (trRecv n len timeout).2.2.2 = n.threaded ∧
    (trRecv n len timeout).2.2.1.now = n.now := by
  unfold trRecv
  rw [h]
  exact ⟨rfl, rfl, rfl⟩

theorem trSend_env (n : Net) (bytes : List Nat) :
    EnvLe n (trSend n bytes).2 ∧ (n.sendQ ≠ [] → envSize (trSend n bytes).2 < envSize n) := by
  unfold trSend EnvLe envSize
  simp only
  split <;> rename_i h <;> simp only [Net.emit, h, List.length_cons, ne_eq, not_false_eq_true,
    not_true_eq_false, and_true, forall_const, List.length_nil, false_implies, List.cons_ne_nil] <;> omega

/-- `tr_send` with no scripted outcome left sends everything -/
theorem trSend_nil (n : Net) (bytes : List Nat) (h : n.sendQ = []) : (trSend n bytes).1 = bytes.length := by
  unfold trSend
  rw [h]

theorem foldl_emit_env : ∀ (ls : List String) (n : Net),
    envSize (ls.foldl (fun n l => n.emit l) n) = envSize n ∧ (ls.foldl (fun n l => n.emit l) n).threaded = n.threaded ∧
    (ls.foldl (fun n l => n.emit l) n).now = n.now := by
  intro ls
  induction ls with
  | nil => intro n; exact ⟨rfl, rfl, rfl⟩
  | cons l ls ih => intro n; exact ih (n.emit l)

theorem trOpen_env (st : St) :
    EnvLe st.n (trOpen st).2.n ∧ (st.n.openQ ≠ [] → envSize (trOpen st).2.n < envSize st.n) ∧
    (st.n.openQ = [] → (trOpen st).1 = 0) := by
  unfold trOpen
  cases h : st.n.openQ with
  | nil =>
    obtain ⟨e1, e2, _⟩ := foldl_emit_env (dumpLines "T" st.t) { st.n with openQ := [] }
    refine ⟨⟨?_, ?_⟩, fun hh => absurd rfl hh, fun _ => rfl⟩
    · show envSize (List.foldl (fun (n : Net) l => n.emit l) { st.n with openQ := [] } (dumpLines "T" st.t)) ≤ envSize st.n
      rw [e1]; unfold envSize; rw [h]; exact Nat.le_refl _
    · show (List.foldl (fun (n : Net) l => n.emit l) { st.n with openQ := [] } (dumpLines "T" st.t)).threaded = st.n.threaded
      rw [e2]
  | cons x q =>
    obtain ⟨e1, e2, _⟩ := foldl_emit_env (dumpLines "T" st.t) { st.n with openQ := q }
    have lt : envSize (List.foldl (fun (n : Net) l => n.emit l) { st.n with openQ := q } (dumpLines "T" st.t)) < envSize st.n := by
      rw [e1]; unfold envSize; rw [h]; simp only [List.length_cons]; omega
    refine ⟨⟨Nat.le_of_lt lt, ?_⟩, fun _ => lt, fun hh => nomatch hh⟩
    show (List.foldl (fun (n : Net) l => n.emit l) { st.n with openQ := q } (dumpLines "T" st.t)).threaded = st.n.threaded
    rw [e2]

theorem envLe_runRel : RunRel EnvLe :=
  { refl := fun _ => ⟨Nat.le_refl _, rfl⟩
    trans := fun h1 h2 => ⟨Nat.le_trans h2.1 h1.1, h2.2.trans h1.2⟩
    emit := fun _ _ => ⟨Nat.le_refl _, rfl⟩
    send := fun n b => (trSend_env n b).1
    recv := fun n len t => (trRecv_env n len t).1
    opn := fun st => (trOpen_env st).1
    sleep := fun _ _ => ⟨Nat.le_refl _, rfl⟩ }

theorem EnvLe.lt_of_lt {a b c : Net} (h1 : envSize b < envSize a) (h2 : EnvLe b c) : envSize c < envSize a :=
  Nat.lt_of_le_of_lt h2.1 h1

/-! ## receiving: the script shrinks, or it is exhausted -/

theorem recvAll_strict (n : Net) (len : Nat) (t : Int) (hl : 0 < len) (ht : n.tape ≠ []) :
    envSize (recvAll n len t).2.2.1 < envSize n := by
  unfold recvAll
  simp only [recvAllLoop, List.length_nil]
  rw [if_pos hl]
  have h := (trRecv_env n (len - 0) (n.now + t - n.now)).2 (by omega) ht
  generalize trRecv n (len - 0) (n.now + t - n.now) = r at h
  obtain ⟨rc, got, n', stop⟩ := r
  simp only at h ⊢
  split
  · exact h
  · exact EnvLe.lt_of_lt h (recvAllLoop_rel envLe_runRel.toRecvRel _ _ _ _ _)

theorem recvAll_eof (n : Net) (len : Nat) (t : Int) (hl : 0 < len) (ht : n.tape = []) :
    (recvAll n len t).1 = -1 ∧ (recvAll n len t).2.2.2 = n.threaded ∧ (recvAll n len t).2.2.1.now = n.now := by
  unfold recvAll
  simp only [recvAllLoop, List.length_nil]
  rw [if_pos hl]
  obtain ⟨h1, h2, h3⟩ := trRecv_eof n (len - 0) (n.now + t - n.now) ht
  generalize trRecv n (len - 0) (n.now + t - n.now) = r at h1 h2 h3
  obtain ⟨rc, got, n', stop⟩ := r
  simp only at h1 h2 h3 ⊢
  subst h1
  simp only [Int.reduceNeg, Int.reduceLT, if_true]
  exact ⟨trivial, h2, h3⟩

/-- `rtr_receive_pdu` with input left on the tape consumes some of it -/
theorem receivePdu_strict (c : Conn) (n : Net) (own : Nat) (t : Int) (hs : c.state ≠ .shutdown) (ht : n.tape ≠ []) :
    envSize (receivePdu c n own t).2.2 < envSize n := by
  rw [receivePdu_eq, if_neg hs]
  have h := recvAll_strict n 8 t (by decide) ht
  generalize recvAll n 8 t = r at h
  obtain ⟨rc, hdr, n1, stop⟩ := r
  simp only at h ⊢
  split
  · exact EnvLe.lt_of_lt h (recvTransportError_rel envLe_runRel.toEmitRel _ _ _ _)
  · exact EnvLe.lt_of_lt h (recvStage2_rel envLe_runRel.toRecvRel _ _ _ _)

/-- `rtr_receive_pdu` on the exhausted tape of a threaded run: the stop request is observed, the
    socket is in state SHUTDOWN, the call fails -/
theorem receivePdu_eof (c : Conn) (n : Net) (own : Nat) (t : Int) (hs : c.state ≠ .shutdown) (ht : n.tape = [])
    (hth : n.threaded = true) :
    (receivePdu c n own t).1 = .rc (-1) ∧ (receivePdu c n own t).2.1.state = .shutdown := by
  rw [receivePdu_eq, if_neg hs]
  obtain ⟨h1, h2, _⟩ := recvAll_eof n 8 t (by decide) ht
  generalize recvAll n 8 t = r at h1 h2
  obtain ⟨rc, hdr, n1, stop⟩ := r
  simp only at h1 h2 ⊢
  subst h1
  rw [h2, hth]
  simp [applyStop, recvTransportError, changeState]

/-! ## sending: a scripted outcome is consumed, or everything is sent -/

theorem sendAllLoop_nil (fuel : Nat) (n : Net) (total : Nat) : sendAllLoop fuel n [] total = ((total : Int), n) := by
  cases fuel <;> simp [sendAllLoop]

theorem sendPdu_progress (c : Conn) (n : Net) (bytes : List Nat) (hs : c.state ≠ .shutdown) (hb : bytes ≠ []) :
    envSize (sendPdu c n bytes).2 < envSize n ∨ (sendPdu c n bytes).1 = true := by
  unfold sendPdu
  rw [if_neg hs]
  unfold sendAll
  simp only [sendAllLoop]
  have he : bytes.isEmpty = false := by cases bytes with | nil => exact absurd rfl hb | cons _ _ => rfl
  simp only [he, Bool.false_eq_true, if_false]
  by_cases hq : n.sendQ = []
  · right
    have h := trSend_nil n bytes hq
    generalize trSend n bytes = r at h
    obtain ⟨rc, n'⟩ := r
    simp only at h ⊢
    subst h
    have hl : 0 < bytes.length := by cases bytes with | nil => exact absurd rfl hb | cons _ _ => simp
    have : ¬ ((bytes.length : Int) < 0) := by omega
    simp only [this, if_false, Int.toNat_natCast, List.drop_length, sendAllLoop_nil, Nat.zero_add]
    simp only [decide_eq_true_eq]
    omega
  · left
    have h := (trSend_env n bytes).2 hq
    generalize trSend n bytes = r at h
    obtain ⟨rc, n'⟩ := r
    simp only at h ⊢
    split
    · exact h
    · exact EnvLe.lt_of_lt h (sendAllLoop_rel envLe_runRel.toEmitRel _ _ _ _)

theorem serialQueryBytes_ne (v s sn : Nat) : serialQueryBytes v s sn ≠ [] := by simp [serialQueryBytes]
theorem resetQueryBytes_ne (v : Nat) : resetQueryBytes v ≠ [] := by simp [resetQueryBytes]

theorem sendSerialQuery_progress (st : St) (hs : st.c.state ≠ .shutdown) :
    envSize (sendSerialQuery st).2.n < envSize st.n ∨
    ((sendSerialQuery st).1 = true ∧ (sendSerialQuery st).2.c = st.c ∧ (sendSerialQuery st).2.tm = st.tm) := by
  unfold sendSerialQuery
  have h := sendPdu_progress st.c st.n (serialQueryBytes st.c.version st.ss.session st.ss.serial) hs (serialQueryBytes_ne _ _ _)
  generalize sendPdu st.c st.n (serialQueryBytes st.c.version st.ss.session st.ss.serial) = r at h
  obtain ⟨ok, n⟩ := r
  cases ok with
  | true => exact Or.inr ⟨rfl, rfl, rfl⟩
  | false =>
    rcases h with h | h
    · exact Or.inl (EnvLe.lt_of_lt h (changeState_rel envLe_runRel.toEmitRel _ _ _ _))
    · exact absurd h (by simp)

theorem sendResetQuery_progress (st : St) (hs : st.c.state ≠ .shutdown) :
    envSize (sendResetQuery st).2.n < envSize st.n ∨
    ((sendResetQuery st).1 = true ∧ (sendResetQuery st).2.c = st.c ∧ (sendResetQuery st).2.tm = st.tm) := by
  unfold sendResetQuery
  have h := sendPdu_progress st.c st.n (resetQueryBytes st.c.version) hs (resetQueryBytes_ne _)
  generalize sendPdu st.c st.n (resetQueryBytes st.c.version) = r at h
  obtain ⟨ok, n⟩ := r
  cases ok with
  | true => exact Or.inr ⟨rfl, rfl, rfl⟩
  | false =>
    rcases h with h | h
    · exact Or.inl (EnvLe.lt_of_lt h (changeState_rel envLe_runRel.toEmitRel _ _ _ _))
    · exact absurd h (by simp)

/-! ## rtr_sync, rtr_wait_for_sync: the script shrinks, or the stop request ends the run -/

theorem syncFirst_progress (fuel : Nat) (st : St) (hs : st.c.state ≠ .shutdown) (hth : st.n.threaded = true) :
    envSize (syncFirst (fuel + 1) st).2.n < envSize st.n ∨
    ((syncFirst (fuel + 1) st).1 = none ∧ (syncFirst (fuel + 1) st).2.c.state = .shutdown ∧
      (syncFirst (fuel + 1) st).2.tm = st.tm) := by
  by_cases ht : st.n.tape = []
  · right
    obtain ⟨h1, h2⟩ := receivePdu_eof st.c st.n st.t.own Gen.RTR_RECV_TIMEOUT hs ht hth
    unfold syncFirst
    generalize receivePdu st.c st.n st.t.own Gen.RTR_RECV_TIMEOUT = res at h1 h2
    obtain ⟨rr, c, n⟩ := res
    simp only at h1 h2
    subst h1
    simp [h2]
  · left
    exact EnvLe.lt_of_lt (receivePdu_strict st.c st.n st.t.own _ hs ht) (syncFirst_succ_rel envLe_runRel.toRecvRel fuel st)

theorem syncG_progress (fuel : Nat) (st : St) (hs : st.c.state ≠ .shutdown) (hth : st.n.threaded = true) :
    envSize (syncG (fuel + 1) st).2.1.n < envSize st.n ∨
    ((syncG (fuel + 1) st).1 = false ∧ (syncG (fuel + 1) st).2.1.c.state = .shutdown ∧
      (syncG (fuel + 1) st).2.1.tm = st.tm) := by
  rcases syncFirst_progress fuel st hs hth with h | ⟨h1, h2, h3⟩
  · exact Or.inl (EnvLe.lt_of_lt h (syncG_after_first_rel envLe_runRel.toRecvRel (fuel + 1) st))
  · right
    unfold syncG
    generalize syncFirst (fuel + 1) st = sf at h1 h2 h3
    obtain ⟨r, st1⟩ := sf
    simp only at h1 h2 h3
    subst h1
    exact ⟨rfl, h2, h3⟩

/-- the timeout of the `rtr_receive_pdu` call in `rtr_wait_for_sync` -/
def waitTimeout (st : St) : Int :=
  if st.ss.lastUpdate + ↑st.tm.refresh - st.n.now < 0 then 0 else st.ss.lastUpdate + ↑st.tm.refresh - st.n.now

theorem waitForSync_eq (st : St) :
    waitForSync st =
      match receivePdu st.c st.n st.t.own (waitTimeout st) with
      | (.ok raw, c, n) => (typeOf raw = 0, { st with c := c, n := n })
      | (.rc code, c, n) => (code = -2, { st with c := c, n := n }) := by
  unfold waitForSync waitTimeout
  rfl

theorem waitForSync_progress (st : St) (hs : st.c.state ≠ .shutdown) (hth : st.n.threaded = true) :
    envSize (waitForSync st).2.n < envSize st.n ∨
    ((waitForSync st).1 = false ∧ (waitForSync st).2.c.state = .shutdown ∧ (waitForSync st).2.tm = st.tm) := by
  rw [waitForSync_eq]
  by_cases ht : st.n.tape = []
  · right
    obtain ⟨h1, h2⟩ := receivePdu_eof st.c st.n st.t.own (waitTimeout st) hs ht hth
    generalize receivePdu st.c st.n st.t.own (waitTimeout st) = res at h1 h2
    obtain ⟨rr, c, n⟩ := res
    simp only at h1 h2
    subst h1
    simp [h2]
  · left
    have h := receivePdu_strict st.c st.n st.t.own (waitTimeout st) hs ht
    generalize receivePdu st.c st.n st.t.own (waitTimeout st) = res at h
    obtain ⟨rr, c, n⟩ := res
    cases rr <;> exact h

/-! ## one iteration -/

/-- progress of one iteration: time advanced, or the script shrank, or the state moved down the rank
    (and then it is not CLOSED and the intervals are unchanged) -/
def Prog (st st' : St) : Prop :=
  st.n.now < st'.n.now ∨ envSize st'.n < envSize st.n ∨
  (rank st'.c.state < rank st.c.state ∧ st'.c.state ≠ .closed ∧ st'.tm = st.tm)

theorem change_state_eq (st : St) (s : SState) (h : st.c.state ≠ .shutdown) : (st.change s).c.state = s := by
  rcases change_state st s with h1 | ⟨_, h2⟩
  · exact h1
  · exact absurd h2 h

theorem change_tm (st : St) (s : SState) : (st.change s).tm = st.tm := (change_frame st s).2.2.1

theorem stepConnecting_prog (st : St) (hs : st.c.state = .connecting) : Prog st (stepConnecting st) := by
  unfold stepConnecting
  have p := purgeOutdated_spec (clearReceived st)
  have e : (purgeOutdated (clearReceived st)).n = st.n := p.2.2.1
  have ec : (purgeOutdated (clearReceived st)).c.state = .connecting := by rw [p.1]; exact hs
  have etm : (purgeOutdated (clearReceived st)).tm = st.tm := p.2.1
  generalize purgeOutdated (clearReceived st) = st1 at e ec etm
  have o := trOpen_env st1
  have f := trOpen_frame st1
  generalize trOpen st1 = ro at o f
  obtain ⟨rc, st2⟩ := ro
  simp only at o f ⊢
  rw [e] at o
  have hs2 : st2.c.state ≠ .shutdown := by rw [f.2.2.2, ec]; decide
  have el := envLe_runRel.toEmitRel
  by_cases hq : st.n.openQ = []
  · have hrc := o.2.2 hq
    subst hrc
    have hne : ¬ ((0 : Int) = -1) := by decide
    rw [if_neg hne]
    split
    · refine Or.inr (Or.inr ⟨?_, ?_, ?_⟩)
      · rw [change_state_eq _ _ hs2, hs]; decide
      · rw [change_state_eq _ _ hs2]; decide
      · rw [change_tm, f.2.2.1, etm]
    · rcases sendSerialQuery_progress st2 hs2 with h | ⟨h1, h2, h3⟩
      · refine Or.inr (Or.inl ?_)
        generalize sendSerialQuery st2 = rs at h
        obtain ⟨ok, st3⟩ := rs
        simp only at h ⊢
        have h' : envSize st3.n < envSize st.n := Nat.lt_of_lt_of_le h o.1.1
        split <;> exact EnvLe.lt_of_lt h' (change_rel el _ _)
      · generalize sendSerialQuery st2 = rs at h1 h2 h3
        obtain ⟨ok, st3⟩ := rs
        simp only at h1 h2 h3 ⊢
        subst h1
        simp only [if_true]
        have hs3 : st3.c.state ≠ .shutdown := by rw [h2]; exact hs2
        refine Or.inr (Or.inr ⟨?_, ?_, ?_⟩)
        · rw [change_state_eq _ _ hs3, hs]; decide
        · rw [change_state_eq _ _ hs3]; decide
        · rw [change_tm, h3, f.2.2.1, etm]
  · refine Or.inr (Or.inl ?_)
    have h := o.2.1 hq
    split
    · exact EnvLe.lt_of_lt h (change_rel el _ _)
    · split
      · exact EnvLe.lt_of_lt h (change_rel el _ _)
      · have s := sendSerialQuery_rel el st2
        generalize sendSerialQuery st2 = rs at s
        obtain ⟨ok, st3⟩ := rs
        simp only at s ⊢
        split <;> exact EnvLe.lt_of_lt h (el.trans s (change_rel el _ _))

theorem stepReset_prog (st : St) (hs : st.c.state = .reset) : Prog st (stepReset st) := by
  unfold stepReset
  have hs0 : st.c.state ≠ .shutdown := by rw [hs]; decide
  have el := envLe_runRel.toEmitRel
  rcases sendResetQuery_progress st hs0 with h | ⟨h1, h2, h3⟩
  · refine Or.inr (Or.inl ?_)
    generalize sendResetQuery st = rs at h
    obtain ⟨ok, st3⟩ := rs
    simp only at h ⊢
    split
    · exact EnvLe.lt_of_lt h (change_rel el _ _)
    · exact h
  · generalize sendResetQuery st = rs at h1 h2 h3
    obtain ⟨ok, st3⟩ := rs
    simp only at h1 h2 h3 ⊢
    subst h1
    simp only [if_true]
    have hs3 : st3.c.state ≠ .shutdown := by rw [h2]; exact hs0
    refine Or.inr (Or.inr ⟨?_, ?_, ?_⟩)
    · rw [change_state_eq _ _ hs3, hs]; decide
    · rw [change_state_eq _ _ hs3]; decide
    · rw [change_tm, h3]

theorem stepSync_prog (fuel : Nat) (st : St) (hs : st.c.state = .sync) (hth : st.n.threaded = true) :
    Prog st (stepSync (fuel + 1) st) := by
  unfold stepSync
  have hs0 : st.c.state ≠ .shutdown := by rw [hs]; decide
  rcases syncG_progress fuel st hs0 hth with h | ⟨h1, h2, h3⟩
  · refine Or.inr (Or.inl ?_)
    split
    · exact EnvLe.lt_of_lt h (change_rel envLe_runRel.toEmitRel _ _)
    · exact h
  · rw [h1]
    simp only [Bool.false_eq_true, if_false]
    exact Or.inr (Or.inr ⟨by rw [h2, hs]; decide, by rw [h2]; decide, h3⟩)

theorem stepEstablished_prog (st : St) (hs : st.c.state = .established) (hth : st.n.threaded = true) :
    Prog st (stepEstablished st) := by
  unfold stepEstablished
  have hs0 : st.c.state ≠ .shutdown := by rw [hs]; decide
  have el := envLe_runRel.toEmitRel
  rcases waitForSync_progress st hs0 hth with h | ⟨h1, h2, h3⟩
  · refine Or.inr (Or.inl ?_)
    generalize waitForSync st = rw at h
    obtain ⟨ok, st2⟩ := rw
    simp only at h ⊢
    split
    · have s := sendSerialQuery_rel el st2
      generalize sendSerialQuery st2 = rs at s
      obtain ⟨ok2, st3⟩ := rs
      simp only at s ⊢
      split
      · exact EnvLe.lt_of_lt h (el.trans s (change_rel el _ _))
      · exact EnvLe.lt_of_lt h s
    · exact h
  · generalize waitForSync st = rw at h1 h2 h3
    obtain ⟨ok, st2⟩ := rw
    simp only at h1 h2 h3 ⊢
    subst h1
    simp only [Bool.false_eq_true, if_false]
    exact Or.inr (Or.inr ⟨by rw [h2, hs]; decide, by rw [h2]; decide, h3⟩)

theorem stepFastReconnect_prog (st : St) (hs : st.c.state = .fastReconnect) :
    Prog st ((trClose st).change .connecting) := by
  have hs0 : (trClose st).c.state ≠ .shutdown := by show st.c.state ≠ .shutdown; rw [hs]; decide
  refine Or.inr (Or.inr ⟨?_, ?_, ?_⟩)
  · rw [change_state_eq _ _ hs0, hs]; decide
  · rw [change_state_eq _ _ hs0]; decide
  · rw [change_tm]; rfl

/-- the error states that wait: the clock advances by exactly the retry interval -/
theorem stepErrClose_now (st : St) : (stepErrClose st).n.now = st.n.now + st.tm.retry := by
  unfold stepErrClose
  rw [doSleep_now, change_now, change_tm]
  rfl

theorem stepErrNoData_now (st : St) : (stepErrNoData st).n.now = st.n.now + st.tm.retry := by
  unfold stepErrNoData
  rw [purgeOutdated_now, doSleep_now, change_now, change_tm]
  rfl

theorem stepErrNoIncr_prog (st : St) (hs : st.c.state = .errNoIncr) : Prog st (stepErrNoIncr st) := by
  unfold stepErrNoIncr
  have p := purgeOutdated_spec ((requestReset st).change .reset)
  have hs0 : (requestReset st).c.state ≠ .shutdown := by show st.c.state ≠ .shutdown; rw [hs]; decide
  refine Or.inr (Or.inr ⟨?_, ?_, ?_⟩)
  · rw [p.1, change_state_eq _ _ hs0, hs]; decide
  · rw [p.1, change_state_eq _ _ hs0]; decide
  · rw [p.2.1, change_tm]; rfl

/-- **progress of one iteration of the state machine** (threaded run, retry interval ≥ 1, the
    receive loops may run at least once) -/
theorem fsmStep_progress (fuel : Nat) (st st' : St) (h : fsmStep fuel st = some st') (hf : 0 < fuel)
    (hr : 1 ≤ st.tm.retry) (hth : st.n.threaded = true) (hc : st.c.state ≠ .closed) : Prog st st' := by
  obtain ⟨f, rfl⟩ : ∃ f, fuel = f + 1 := ⟨fuel - 1, by omega⟩
  rw [fsmStep_eq] at h
  cases hs : st.c.state <;> rw [hs] at h <;> simp only [Option.some.injEq] at h
  · subst h; exact stepConnecting_prog st hs
  · subst h; exact stepEstablished_prog st hs hth
  · subst h; exact stepReset_prog st hs
  · subst h; exact stepSync_prog f st hs hth
  · subst h; exact stepFastReconnect_prog st hs
  · subst h; exact Or.inl (by rw [stepErrNoData_now]; omega)
  · subst h; exact stepErrNoIncr_prog st hs
  · subst h; exact Or.inl (by rw [stepErrClose_now]; omega)
  · subst h; exact Or.inl (by rw [stepErrClose_now]; omega)
  · cases h
  · exact absurd hs hc

/-- one iteration never sets the clock back, never lets the script grow, keeps the kind of run -/
theorem fsmStep_mono (fuel : Nat) (st st' : St) (h : fsmStep fuel st = some st') :
    st.n.now ≤ st'.n.now ∧ envSize st'.n ≤ envSize st.n ∧ st'.n.threaded = st.n.threaded :=
  ⟨fsmStep_now_le h, (fsmStep_rel envLe_runRel fuel st st' h).1, (fsmStep_rel envLe_runRel fuel st st' h).2⟩

/-! ## run segments without time and without consumption -/

/-- `ZeroSeg fuel k st st'`: `k` consecutive iterations lead from `st` to `st'`, and in none of them the
    clock advanced or the script shrank -/
inductive ZeroSeg (fuel : Nat) : Nat → St → St → Prop
  | nil (st : St) : ZeroSeg fuel 0 st st
  | cons {k : Nat} {st st1 st2 : St} : fsmStep fuel st = some st1 → st1.n.now = st.n.now →
      envSize st1.n = envSize st.n → ZeroSeg fuel k st1 st2 → ZeroSeg fuel (k + 1) st st2

theorem zeroSeg_rank {fuel k : Nat} {st st' : St} (seg : ZeroSeg fuel k st st') (hf : 0 < fuel) :
    1 ≤ st.tm.retry → st.n.threaded = true → st.c.state ≠ .closed → k + rank st'.c.state ≤ rank st.c.state := by
  induction seg with
  | nil st => intro _ _ _; omega
  | cons h hn he _ ih =>
    intro hr hth hc
    have m := fsmStep_mono fuel _ _ h
    rcases fsmStep_progress fuel _ _ h hf hr hth hc with p | p | ⟨p1, p2, p3⟩
    · omega
    · omega
    · have := ih (by rw [p3]; exact hr) (by rw [m.2.2]; exact hth) p2
      omega

/-! ## what the error states do -/

theorem changeState_script (c : Conn) (n : Net) (own : Nat) (s : SState) :
    (changeState c n own s).2.tape = n.tape ∧ (changeState c n own s).2.sendQ = n.sendQ ∧
    (changeState c n own s).2.openQ = n.openQ := by
  unfold changeState
  split
  · exact ⟨rfl, rfl, rfl⟩
  · split <;> exact ⟨rfl, rfl, rfl⟩

theorem change_script (st : St) (s : SState) :
    (st.change s).n.tape = st.n.tape ∧ (st.change s).n.sendQ = st.n.sendQ ∧ (st.change s).n.openQ = st.n.openQ := by
  unfold St.change
  exact changeState_script _ _ _ _

/-- RTR_ERROR_TRANSPORT / RTR_ERROR_FATAL: close the transport, go to CONNECTING, sleep `retry` seconds -/
theorem stepErrClose_spec (st : St) (hs : st.c.state ≠ .shutdown) (hc : st.c.state ≠ .connecting) :
    (stepErrClose st).c.state = .connecting ∧ (stepErrClose st).tm = st.tm ∧ (stepErrClose st).ss = st.ss ∧
    (stepErrClose st).t = st.t ∧
    (stepErrClose st).n = { st.n with
      now := st.n.now + st.tm.retry,
      trace := s!"Z {st.tm.retry}" :: s!"S {SState.connecting.name} {st.n.now} {st.t.own}" :: "C" :: st.n.trace } := by
  unfold stepErrClose doSleep St.change changeState trClose Net.emit
  simp only [hs, hc, if_false]
  exact ⟨trivial, trivial, trivial, trivial, trivial⟩

/-- RTR_FAST_RECONNECT: close the transport, go to CONNECTING — no sleep -/
theorem stepFastReconnect_spec (st : St) (hs : st.c.state ≠ .shutdown) (hc : st.c.state ≠ .connecting) :
    ((trClose st).change .connecting).c.state = .connecting ∧ ((trClose st).change .connecting).tm = st.tm ∧
    ((trClose st).change .connecting).ss = st.ss ∧ ((trClose st).change .connecting).t = st.t ∧
    ((trClose st).change .connecting).n = { st.n with
      trace := s!"S {SState.connecting.name} {st.n.now} {st.t.own}" :: "C" :: st.n.trace } := by
  unfold St.change changeState trClose Net.emit
  simp only [hs, hc, if_false]
  exact ⟨trivial, trivial, trivial, trivial, trivial⟩

/-- RTR_ERROR_NO_DATA_AVAIL / RTR_ERROR_NO_INCR_UPDATE_AVAIL: a new session is requested (the next
    query is a Reset Query), the state is RESET -/
theorem requestReset_spec (st : St) (hs : st.c.state ≠ .shutdown) :
    (purgeOutdated ((requestReset st).change .reset)).c.state = .reset ∧
    (purgeOutdated ((requestReset st).change .reset)).ss.reqSession = true ∧
    (purgeOutdated ((requestReset st).change .reset)).ss.serial = 0 ∧
    (purgeOutdated ((requestReset st).change .reset)).tm = st.tm := by
  have p := purgeOutdated_spec ((requestReset st).change .reset)
  have hs0 : (requestReset st).c.state ≠ .shutdown := hs
  refine ⟨by rw [p.1, change_state_eq _ _ hs0], ?_, ?_, by rw [p.2.1, change_tm]; rfl⟩
  · rcases p.2.2.2 with ⟨e, _⟩ | ⟨_, _, _, h, _, _⟩
    · rw [e, (change_frame _ _).1]; rfl
    · exact h
  · rcases p.2.2.2 with ⟨e, _⟩ | ⟨_, _, _, _, _, h⟩
    · rw [e, (change_frame _ _).1]; rfl
    · exact h

theorem stepErrNoData_spec (st : St) (hs : st.c.state ≠ .shutdown) :
    (stepErrNoData st).c.state = .reset ∧ (stepErrNoData st).ss.reqSession = true ∧ (stepErrNoData st).ss.serial = 0 ∧
    (stepErrNoData st).tm = st.tm := by
  unfold stepErrNoData
  have p := purgeOutdated_spec (doSleep ((requestReset st).change .reset) ((requestReset st).change .reset).tm.retry)
  have hs0 : (requestReset st).c.state ≠ .shutdown := hs
  have ess : (doSleep ((requestReset st).change .reset) ((requestReset st).change .reset).tm.retry).ss =
      { st.ss with reqSession := true, serial := 0 } := by
    show ((requestReset st).change .reset).ss = _
    rw [(change_frame _ _).1]; rfl
  refine ⟨?_, ?_, ?_, ?_⟩
  · rw [p.1]; exact change_state_eq _ _ hs0
  · rcases p.2.2.2 with ⟨e, _⟩ | ⟨_, _, _, h, _, _⟩
    · rw [e, ess]
    · exact h
  · rcases p.2.2.2 with ⟨e, _⟩ | ⟨_, _, _, _, _, h⟩
    · rw [e, ess]
    · exact h
  · rw [p.2.1]; show ((requestReset st).change .reset).tm = _; rw [change_tm]; rfl

/-- CONNECTING with a failing `tr_open`: ERROR_TRANSPORT; one open outcome of the script is consumed,
    nothing else changes in the environment but the trace -/
theorem stepConnecting_open_fails (st : St) (q : List Int) (hs : st.c.state = .connecting) (hq : st.n.openQ = -1 :: q) :
    (stepConnecting st).c.state = .errTransport ∧ (stepConnecting st).n.now = st.n.now ∧
    (stepConnecting st).tm = st.tm ∧ (stepConnecting st).n.openQ = q ∧ (stepConnecting st).n.tape = st.n.tape ∧
    (stepConnecting st).n.sendQ = st.n.sendQ := by
  unfold stepConnecting
  have p := purgeOutdated_spec (clearReceived st)
  have e : (purgeOutdated (clearReceived st)).n = st.n := p.2.2.1
  have ec : (purgeOutdated (clearReceived st)).c.state = .connecting := by rw [p.1]; exact hs
  have etm : (purgeOutdated (clearReceived st)).tm = st.tm := p.2.1
  generalize purgeOutdated (clearReceived st) = st1 at e ec etm
  have hq1 : st1.n.openQ = -1 :: q := by rw [e]; exact hq
  have f := trOpen_frame st1
  have hn := trOpen_now st1
  have ho : (trOpen st1).1 = -1 ∧ (trOpen st1).2.n.openQ = q ∧ (trOpen st1).2.n.tape = st1.n.tape ∧
      (trOpen st1).2.n.sendQ = st1.n.sendQ := by
    unfold trOpen
    rw [hq1]
    exact ⟨rfl, rfl, rfl, rfl⟩
  generalize trOpen st1 = ro at f hn ho
  obtain ⟨rc, st2⟩ := ro
  simp only at f hn ho ⊢
  obtain ⟨h1, h2, h3, h4⟩ := ho
  subst h1
  simp only [if_true]
  have hs2 : st2.c.state ≠ .shutdown := by rw [f.2.2.2, ec]; decide
  have cs := change_script st2 .errTransport
  exact ⟨change_state_eq _ _ hs2, by rw [change_now, hn, e], by rw [change_tm, f.2.2.1, etm], by rw [cs.2.2, h2],
    by rw [cs.1, h3, e], by rw [cs.2.1, h4, e]⟩

end Rtr.P
