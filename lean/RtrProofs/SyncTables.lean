/-
  SyncTables: the table part of the End of Data branch of rtr_sync_receive_and_store_pdus
  (`applyTables`) is atomic: success applies every buffered PDU in order; failure either restores the
  tables (the forward undo succeeded at every step) or purges this socket's records.
-/
import RtrModel.Rtr
import RtrProofs.Undo

namespace Rtr.P

/-! ## list-sets -/

section ListSet
variable {α : Type} [DecidableEq α]

/-- announce (`true`) / withdraw (`false`) on a duplicate-free list -/
def lsApply (t : List α) (f : Bool) (r : α) : List α × PfxRc :=
  if f then (if r ∈ t then (t, .duplicate) else (r :: t, .success))
  else (if r ∈ t then (t.erase r, .success) else (t, .notFound))

def memF (t : List α) : α → Bool := fun r => decide (r ∈ t)

def SameSet (a b : List α) : Prop := ∀ x, x ∈ a ↔ x ∈ b

theorem lsApply_success (t : List α) (f : Bool) (r : α) (hn : t.Nodup) (t' : List α)
    (h : lsApply t f r = (t', .success)) :
    t'.Nodup ∧ Undo.apply1 (memF t) f r = some (memF t') := by
  unfold lsApply at h
  cases f
  · -- withdraw
    simp only [Bool.false_eq_true, if_false] at h
    split at h
    · rename_i hin
      simp only [Prod.mk.injEq, and_true] at h
      subst h
      refine ⟨hn.sublist List.erase_sublist, ?_⟩
      unfold Undo.apply1 memF
      simp only [hin, decide_true, Bool.true_eq_false, if_false, Option.some.injEq]
      funext x
      by_cases e : x = r
      · subst e; simp [List.Nodup.mem_erase_iff hn]
      · simp [e, List.mem_erase_of_ne e]
    · simp at h
  · simp only [if_true] at h
    split at h
    · simp at h
    · rename_i hin
      simp only [Prod.mk.injEq, and_true] at h
      subst h
      refine ⟨List.nodup_cons.2 ⟨hin, hn⟩, ?_⟩
      unfold Undo.apply1 memF
      simp only [hin, decide_false, Bool.false_eq_true, if_false, Option.some.injEq]
      funext x
      by_cases e : x = r
      · subst e; simp
      · simp [e]

theorem lsApply_fail (t : List α) (f : Bool) (r : α) (t' : List α) (rc : PfxRc)
    (h : lsApply t f r = (t', rc)) (hrc : rc ≠ .success) : t' = t ∧ Undo.apply1 (memF t) f r = none := by
  unfold lsApply at h
  cases f
  · simp only [Bool.false_eq_true, if_false] at h
    split at h
    · simp only [Prod.mk.injEq] at h; exact absurd h.2.symm hrc
    · rename_i hin
      simp only [Prod.mk.injEq] at h
      refine ⟨h.1.symm, ?_⟩
      unfold Undo.apply1 memF; simp [hin]
  · simp only [if_true] at h
    split at h
    · rename_i hin
      simp only [Prod.mk.injEq] at h
      refine ⟨h.1.symm, ?_⟩
      unfold Undo.apply1 memF; simp [hin]
    · simp only [Prod.mk.injEq] at h; exact absurd h.2.symm hrc

/-- apply all operations in order; `none` as soon as one fails -/
def lsApplyAll (t : List α) : List (Bool × α) → Option (List α)
  | [] => some t
  | (f, r) :: ops => match lsApply t f r with
    | (t', .success) => lsApplyAll t' ops
    | _ => none

/-- undo all operations in forward order; `none` as soon as one inverse fails -/
def lsUndoAll (t : List α) : List (Bool × α) → Option (List α)
  | [] => some t
  | (f, r) :: ops => match lsApply t (!f) r with
    | (t', .success) => lsUndoAll t' ops
    | _ => none

theorem lsApplyAll_abs : ∀ (ops : List (Bool × α)) (t t' : List α), t.Nodup → lsApplyAll t ops = some t' →
    t'.Nodup ∧ Undo.applyAll (memF t) ops = some (memF t') := by
  intro ops
  induction ops with
  | nil => intro t t' hn h; simp [lsApplyAll] at h; subst h; exact ⟨hn, rfl⟩
  | cons op ops ih =>
    intro t t' hn h
    obtain ⟨f, r⟩ := op
    simp only [lsApplyAll] at h
    split at h
    · rename_i t1 heq
      obtain ⟨n1, a1⟩ := lsApply_success t f r hn t1 heq
      obtain ⟨n2, a2⟩ := ih t1 t' n1 h
      exact ⟨n2, by simp [Undo.applyAll, a1, a2]⟩
    · cases h

theorem lsUndoAll_abs : ∀ (ops : List (Bool × α)) (t t' : List α), t.Nodup → lsUndoAll t ops = some t' →
    t'.Nodup ∧ Undo.undoAll (memF t) ops = some (memF t') := by
  intro ops
  induction ops with
  | nil => intro t t' hn h; simp [lsUndoAll] at h; subst h; exact ⟨hn, rfl⟩
  | cons op ops ih =>
    intro t t' hn h
    obtain ⟨f, r⟩ := op
    simp only [lsUndoAll] at h
    split at h
    · rename_i t1 heq
      obtain ⟨n1, a1⟩ := lsApply_success t (!f) r hn t1 heq
      obtain ⟨n2, a2⟩ := ih t1 t' n1 h
      exact ⟨n2, by simp [Undo.undoAll, Undo.undo1, a1, a2]⟩
    · cases h

/-- **forward undo restores**: after a successfully applied list of announcements/withdrawals,
    if undoing them in forward order succeeds at every step, the set is what it was -/
theorem ls_forward_undo (ops : List (Bool × α)) (t t' t'' : List α) (hn : t.Nodup)
    (ha : lsApplyAll t ops = some t') (hu : lsUndoAll t' ops = some t'') : t''.Nodup ∧ SameSet t'' t := by
  obtain ⟨n1, a1⟩ := lsApplyAll_abs ops t t' hn ha
  obtain ⟨n2, a2⟩ := lsUndoAll_abs ops t' t'' n1 hu
  have := Undo.forward_undo ops (memF t) (memF t') (memF t'') a1 a2
  refine ⟨n2, fun x => ?_⟩
  have e := congrFun this x
  simp only [memF, decide_eq_decide] at e
  exact e

/-- a step only touches the record it names -/
theorem lsApply_other (t : List α) (f : Bool) (r : α) (t' : List α) (rc : PfxRc) (h : lsApply t f r = (t', rc))
    (x : α) (hx : x ≠ r) : x ∈ t' ↔ x ∈ t := by
  unfold lsApply at h
  cases f <;> simp only [Bool.false_eq_true, if_false, if_true] at h <;> split at h <;>
    simp only [Prod.mk.injEq] at h <;> obtain ⟨h1, _⟩ := h <;> subst h1
  · exact List.mem_erase_of_ne hx
  · rfl
  · rfl
  · simp [hx]

end ListSet

theorem ptAdd_eq (t : List Rec) (r : Rec) : ptAdd t r = lsApply t true r := by simp [ptAdd, lsApply]
theorem ptRemove_eq (t : List Rec) (r : Rec) : ptRemove t r = lsApply t false r := by simp [ptRemove, lsApply]
theorem ktAdd_eq (t : List KeyRec) (r : KeyRec) : ktAdd t r = lsApply t true r := by simp [ktAdd, lsApply]
theorem ktRemove_eq (t : List KeyRec) (r : KeyRec) : ktRemove t r = lsApply t false r := by simp [ktRemove, lsApply]

/-! ## the update/undo functions of the model on the update tables -/

@[simp] theorem upd_setUpd (t : Tbl) (u : Upd) : (t.setUpd u).upd = u := by
  unfold Tbl.setUpd Tbl.upd; cases t.shadow <;> simp

theorem setUpd_shadow (t : Tbl) (u : Upd) : (t.setUpd u).shadow.isSome = t.shadow.isSome := by
  unfold Tbl.setUpd; cases t.shadow <;> simp

theorem setUpd_live_some (t : Tbl) (u : Upd) (h : t.shadow.isSome) : (t.setUpd u).pt = t.pt ∧ (t.setUpd u).kt = t.kt := by
  unfold Tbl.setUpd; cases hs : t.shadow <;> simp_all

theorem setUpd_live_none (t : Tbl) (u : Upd) (h : t.shadow = none) : (t.setUpd u).pt = u.pt ∧ (t.setUpd u).kt = u.kt := by
  unfold Tbl.setUpd; simp [h]

/-- the announce/withdraw operation a Prefix PDU stands for -/
def pfxOp (raw : List Nat) : Bool × Rec := (flagsOf raw = 1, pfxRecOf raw)
def keyOp (raw : List Nat) : Bool × KeyRec := (flagsOf raw = 1, keyRecOf raw)

/-- a Prefix PDU the client accepts for application: lengths within the address size, flags 0/1 -/
def pfxOK (raw : List Nat) : Prop :=
  ¬ ((pfxRecOf raw).len > (if (pfxRecOf raw).v6 then 128 else 32) ∨ (pfxRecOf raw).maxLen > (if (pfxRecOf raw).v6 then 128 else 32)) ∧
  ¬ (flagsOf raw ≠ 0 ∧ flagsOf raw ≠ 1)
def keyOK (raw : List Nat) : Prop := ¬ (flagsOf raw ≠ 0 ∧ flagsOf raw ≠ 1)

instance (raw : List Nat) : Decidable (pfxOK raw) := by unfold pfxOK; exact inferInstance
instance (raw : List Nat) : Decidable (keyOK raw) := by unfold keyOK; exact inferInstance

/-- the table effect of `rtr_update_pfx_table` -/
def updPfxT (t : Tbl) (raw : List Nat) : Bool × Tbl :=
  if pfxOK raw then
    match lsApply t.upd.pt (pfxOp raw).1 (pfxOp raw).2 with
    | (pt', .success) => (true, t.setUpd { t.upd with pt := pt' })
    | _ => (false, t)
  else (false, t)

def updKeyT (t : Tbl) (raw : List Nat) : Bool × Tbl :=
  if keyOK raw then
    match lsApply t.upd.kt (keyOp raw).1 (keyOp raw).2 with
    | (kt', .success) => (true, t.setUpd { t.upd with kt := kt' })
    | _ => (false, t)
  else (false, t)

theorem flags01 (raw : List Nat) (h : ¬ (flagsOf raw ≠ 0 ∧ flagsOf raw ≠ 1)) : flagsOf raw = 1 ∨ flagsOf raw = 0 := by
  by_cases e : flagsOf raw = 1
  · exact Or.inl e
  · by_cases e0 : flagsOf raw = 0
    · exact Or.inr e0
    · exact absurd ⟨e0, e⟩ h

theorem updatePfx_tbl (c : Conn) (n : Net) (t : Tbl) (raw : List Nat) :
    ((updatePfx c n t raw).1, (updatePfx c n t raw).2.2.2) = updPfxT t raw := by
  unfold updatePfx updPfxT pfxOp
  simp only
  by_cases h1 : (pfxRecOf raw).len > (if (pfxRecOf raw).v6 = true then 128 else 32) ∨
      (pfxRecOf raw).maxLen > (if (pfxRecOf raw).v6 = true then 128 else 32)
  · have hk : ¬ pfxOK raw := fun hk => hk.1 h1
    rw [if_pos h1, if_neg hk]
  · rw [if_neg h1]
    by_cases h2 : flagsOf raw ≠ 0 ∧ flagsOf raw ≠ 1
    · have hk : ¬ pfxOK raw := fun hk => hk.2 h2
      rw [if_pos h2, if_neg hk]
    · have hk : pfxOK raw := ⟨h1, h2⟩
      rw [if_neg h2, if_pos hk]
      have key : (if flagsOf raw = 1 then ptAdd t.upd.pt (pfxRecOf raw) else ptRemove t.upd.pt (pfxRecOf raw)) =
          lsApply t.upd.pt (decide (flagsOf raw = 1)) (pfxRecOf raw) := by
        rcases flags01 raw h2 with e | e
        · simp [e, ptAdd_eq]
        · simp [e, ptRemove_eq]
      rw [key]
      generalize lsApply t.upd.pt (decide (flagsOf raw = 1)) (pfxRecOf raw) = res
      obtain ⟨pt', rc⟩ := res
      cases rc <;> rfl

theorem updateKey_tbl (c : Conn) (n : Net) (t : Tbl) (raw : List Nat) :
    ((updateKey c n t raw).1, (updateKey c n t raw).2.2.2) = updKeyT t raw := by
  unfold updateKey updKeyT keyOp
  simp only
  by_cases h2 : flagsOf raw ≠ 0 ∧ flagsOf raw ≠ 1
  · have hk : ¬ keyOK raw := fun hk => hk h2
    rw [if_pos h2, if_neg hk]
  · have hk : keyOK raw := h2
    rw [if_neg h2, if_pos hk]
    have key : (if flagsOf raw = 1 then ktAdd t.upd.kt (keyRecOf raw) else ktRemove t.upd.kt (keyRecOf raw)) =
        lsApply t.upd.kt (decide (flagsOf raw = 1)) (keyRecOf raw) := by
      rcases flags01 raw h2 with e | e
      · simp [e, ktAdd_eq]
      · simp [e, ktRemove_eq]
    rw [key]
    generalize lsApply t.upd.kt (decide (flagsOf raw = 1)) (keyRecOf raw) = res
    obtain ⟨kt', rc⟩ := res
    cases rc <;> rfl

/-- the table effect of the two undo functions -/
def undoPfxT (t : Tbl) (raw : List Nat) : Bool × Tbl :=
  match lsApply t.upd.pt (!(pfxOp raw).1) (pfxOp raw).2 with
  | (pt', .success) => (true, t.setUpd { t.upd with pt := pt' })
  | _ => (false, t)

def undoKeyT (t : Tbl) (raw : List Nat) : Bool × Tbl :=
  match lsApply t.upd.kt (!(keyOp raw).1) (keyOp raw).2 with
  | (kt', .success) => (true, t.setUpd { t.upd with kt := kt' })
  | _ => (false, t)

theorem undoPfx_tbl (t : Tbl) (raw : List Nat) (hf : flagsOf raw = 1 ∨ flagsOf raw = 0) : undoPfx t raw = undoPfxT t raw := by
  unfold undoPfx undoPfxT pfxOp
  simp only
  have key : (if flagsOf raw = 1 then ptRemove t.upd.pt (pfxRecOf raw) else ptAdd t.upd.pt (pfxRecOf raw)) =
      lsApply t.upd.pt (!decide (flagsOf raw = 1)) (pfxRecOf raw) := by
    rcases hf with e | e
    · simp [e, ptRemove_eq]
    · simp [e, ptAdd_eq]
  rw [key]
  generalize lsApply t.upd.pt (!decide (flagsOf raw = 1)) (pfxRecOf raw) = res
  obtain ⟨pt', rc⟩ := res
  cases rc <;> rfl

theorem undoKey_tbl (t : Tbl) (raw : List Nat) (hf : flagsOf raw = 1 ∨ flagsOf raw = 0) : undoKey t raw = undoKeyT t raw := by
  unfold undoKey undoKeyT keyOp
  simp only
  have key : (if flagsOf raw = 1 then ktRemove t.upd.kt (keyRecOf raw) else ktAdd t.upd.kt (keyRecOf raw)) =
      lsApply t.upd.kt (!decide (flagsOf raw = 1)) (keyRecOf raw) := by
    rcases hf with e | e
    · simp [e, ktRemove_eq]
    · simp [e, ktAdd_eq]
  rw [key]
  generalize lsApply t.upd.kt (!decide (flagsOf raw = 1)) (keyRecOf raw) = res
  obtain ⟨kt', rc⟩ := res
  cases rc <;> rfl

end Rtr.P

namespace Rtr.P

/-! ## the same operations on the update tables alone -/

def updPfxU (u : Upd) (raw : List Nat) : Bool × Upd :=
  if pfxOK raw then
    match lsApply u.pt (pfxOp raw).1 (pfxOp raw).2 with
    | (pt', .success) => (true, { u with pt := pt' })
    | _ => (false, u)
  else (false, u)

def updKeyU (u : Upd) (raw : List Nat) : Bool × Upd :=
  if keyOK raw then
    match lsApply u.kt (keyOp raw).1 (keyOp raw).2 with
    | (kt', .success) => (true, { u with kt := kt' })
    | _ => (false, u)
  else (false, u)

def undoPfxU (u : Upd) (raw : List Nat) : Bool × Upd :=
  match lsApply u.pt (!(pfxOp raw).1) (pfxOp raw).2 with
  | (pt', .success) => (true, { u with pt := pt' })
  | _ => (false, u)

def undoKeyU (u : Upd) (raw : List Nat) : Bool × Upd :=
  match lsApply u.kt (!(keyOp raw).1) (keyOp raw).2 with
  | (kt', .success) => (true, { u with kt := kt' })
  | _ => (false, u)

theorem setUpd_upd (t : Tbl) : t.setUpd t.upd = t := by
  obtain ⟨pt, kt, sh⟩ := t
  cases sh <;> simp [Tbl.setUpd, Tbl.upd]

theorem setUpd_setUpd (t : Tbl) (u u' : Upd) : (t.setUpd u).setUpd u' = t.setUpd u' := by
  obtain ⟨pt, kt, sh⟩ := t
  cases sh <;> simp [Tbl.setUpd]

theorem updPfxT_lift (t : Tbl) (raw : List Nat) :
    updPfxT t raw = ((updPfxU t.upd raw).1, t.setUpd (updPfxU t.upd raw).2) := by
  unfold updPfxT updPfxU
  split
  · generalize lsApply t.upd.pt (pfxOp raw).1 (pfxOp raw).2 = res
    obtain ⟨pt', rc⟩ := res
    cases rc <;> simp [setUpd_upd]
  · simp [setUpd_upd]

theorem updKeyT_lift (t : Tbl) (raw : List Nat) :
    updKeyT t raw = ((updKeyU t.upd raw).1, t.setUpd (updKeyU t.upd raw).2) := by
  unfold updKeyT updKeyU
  split
  · generalize lsApply t.upd.kt (keyOp raw).1 (keyOp raw).2 = res
    obtain ⟨kt', rc⟩ := res
    cases rc <;> simp [setUpd_upd]
  · simp [setUpd_upd]

theorem undoPfxT_lift (t : Tbl) (raw : List Nat) :
    undoPfxT t raw = ((undoPfxU t.upd raw).1, t.setUpd (undoPfxU t.upd raw).2) := by
  unfold undoPfxT undoPfxU
  generalize lsApply t.upd.pt (!(pfxOp raw).1) (pfxOp raw).2 = res
  obtain ⟨pt', rc⟩ := res
  cases rc <;> simp [setUpd_upd]

theorem undoKeyT_lift (t : Tbl) (raw : List Nat) :
    undoKeyT t raw = ((undoKeyU t.upd raw).1, t.setUpd (undoKeyU t.upd raw).2) := by
  unfold undoKeyT undoKeyU
  generalize lsApply t.upd.kt (!(keyOp raw).1) (keyOp raw).2 = res
  obtain ⟨kt', rc⟩ := res
  cases rc <;> simp [setUpd_upd]

def undoAllPfxU (u : Upd) : List (List Nat) → Bool × Upd
  | [] => (true, u)
  | p :: ps => match undoPfxU u p with | (ok, u') => if ok then undoAllPfxU u' ps else (false, u')

def undoAllKeyU (u : Upd) : List (List Nat) → Bool × Upd
  | [] => (true, u)
  | p :: ps => match undoKeyU u p with | (ok, u') => if ok then undoAllKeyU u' ps else (false, u')

def applyPfxU (u : Upd) : List (List Nat) → List (List Nat) → Bool × Upd × List (List Nat)
  | [], done => (true, u, done)
  | p :: ps, done =>
    match updPfxU u p with
    | (ok, u') => if ok then applyPfxU u' ps (done ++ [p]) else (false, u', done)

def applyKeyU (u : Upd) : List (List Nat) → List (List Nat) → Bool × Upd × List (List Nat)
  | [], done => (true, u, done)
  | p :: ps, done =>
    match updKeyU u p with
    | (ok, u') => if ok then applyKeyU u' ps (done ++ [p]) else (false, u', done)

/-- every PDU in the list has flags 0 or 1 -/
def Flags01 (ps : List (List Nat)) : Prop := ∀ p ∈ ps, flagsOf p = 1 ∨ flagsOf p = 0

theorem undoAllPfx_lift : ∀ (ps : List (List Nat)) (t : Tbl), Flags01 ps →
    undoAllPfx t ps = ((undoAllPfxU t.upd ps).1, t.setUpd (undoAllPfxU t.upd ps).2) := by
  intro ps
  induction ps with
  | nil => intro t _; simp [undoAllPfx, undoAllPfxU, setUpd_upd]
  | cons p ps ih =>
    intro t hf
    have hp := hf p (by simp)
    have hps : Flags01 ps := fun q hq => hf q (List.mem_cons_of_mem _ hq)
    simp only [undoAllPfx, undoAllPfxU]
    rw [undoPfx_tbl t p hp, undoPfxT_lift]
    cases h : (undoPfxU t.upd p).1
    · simp [h]
    · simp only [h, if_true]
      rw [ih _ hps]
      simp [setUpd_setUpd]

theorem undoAllKey_lift : ∀ (ps : List (List Nat)) (t : Tbl), Flags01 ps →
    undoAllKey t ps = ((undoAllKeyU t.upd ps).1, t.setUpd (undoAllKeyU t.upd ps).2) := by
  intro ps
  induction ps with
  | nil => intro t _; simp [undoAllKey, undoAllKeyU, setUpd_upd]
  | cons p ps ih =>
    intro t hf
    have hp := hf p (by simp)
    have hps : Flags01 ps := fun q hq => hf q (List.mem_cons_of_mem _ hq)
    simp only [undoAllKey, undoAllKeyU]
    rw [undoKey_tbl t p hp, undoKeyT_lift]
    cases h : (undoKeyU t.upd p).1
    · simp [h]
    · simp only [h, if_true]
      rw [ih _ hps]
      simp [setUpd_setUpd]

/-- table part and flag of `applyPfx`, in terms of the update tables -/
theorem applyPfx_lift : ∀ (ps : List (List Nat)) (c : Conn) (n : Net) (t : Tbl) (done : List (List Nat)),
    (applyPfx c n t ps done).1 = (applyPfxU t.upd ps done).1 ∧
    (applyPfx c n t ps done).2.2.2.1 = t.setUpd (applyPfxU t.upd ps done).2.1 ∧
    (applyPfx c n t ps done).2.2.2.2 = (applyPfxU t.upd ps done).2.2 := by
  intro ps
  induction ps with
  | nil => intro c n t done; simp [applyPfx, applyPfxU, setUpd_upd]
  | cons p ps ih =>
    intro c n t done
    have e := updatePfx_tbl c n t p
    rw [updPfxT_lift] at e
    simp only [Prod.mk.injEq] at e
    simp only [applyPfx, applyPfxU]
    cases h : (updPfxU t.upd p).1
    · have h1 : (updatePfx c n t p).1 = false := by rw [e.1, h]
      simp [h1, h, e.2]
    · have h1 : (updatePfx c n t p).1 = true := by rw [e.1, h]
      simp only [h1, h, if_true]
      have := ih (updatePfx c n t p).2.1 (updatePfx c n t p).2.2.1 (updatePfx c n t p).2.2.2 (done ++ [p])
      rw [e.2] at this
      simp only [upd_setUpd, setUpd_setUpd] at this
      rw [e.2]
      exact this

theorem applyKey_lift : ∀ (ps : List (List Nat)) (c : Conn) (n : Net) (t : Tbl) (done : List (List Nat)),
    (applyKey c n t ps done).1 = (applyKeyU t.upd ps done).1 ∧
    (applyKey c n t ps done).2.2.2.1 = t.setUpd (applyKeyU t.upd ps done).2.1 ∧
    (applyKey c n t ps done).2.2.2.2 = (applyKeyU t.upd ps done).2.2 := by
  intro ps
  induction ps with
  | nil => intro c n t done; simp [applyKey, applyKeyU, setUpd_upd]
  | cons p ps ih =>
    intro c n t done
    have e := updateKey_tbl c n t p
    rw [updKeyT_lift] at e
    simp only [Prod.mk.injEq] at e
    simp only [applyKey, applyKeyU]
    cases h : (updKeyU t.upd p).1
    · have h1 : (updateKey c n t p).1 = false := by rw [e.1, h]
      simp [h1, h, e.2]
    · have h1 : (updateKey c n t p).1 = true := by rw [e.1, h]
      simp only [h1, h, if_true]
      have := ih (updateKey c n t p).2.1 (updateKey c n t p).2.2.1 (updateKey c n t p).2.2.2 (done ++ [p])
      rw [e.2] at this
      simp only [upd_setUpd, setUpd_setUpd] at this
      rw [e.2]
      exact this

end Rtr.P

namespace Rtr.P

/-! ## the whole table part, on the update tables alone -/

structure URes where
  ok : Bool
  undone : Bool
  u : Upd

def applyTablesU (u0 : Upd) (v4 v6 keys : List (List Nat)) : URes :=
  match applyPfxU u0 v4 [] with
  | (ok4, u, done4) =>
  if !ok4 then
    match undoAllPfxU u done4 with | (un, u) => ⟨false, un, u⟩
  else
    match applyPfxU u v6 [] with
    | (ok6, u, done6) =>
    if !ok6 then
      match undoAllPfxU u v4 with
      | (un4, u) =>
        match (if un4 then undoAllPfxU u done6 else (false, u)) with
        | (un6, u) => ⟨false, un4 && un6, u⟩
    else
      match applyKeyU u keys [] with
      | (okk, u, donek) =>
      if !okk then
        match undoAllPfxU u v4 with
        | (un4, u) =>
          match (if un4 then undoAllPfxU u v6 else (false, u)) with
          | (un6, u) =>
            match (if un4 && un6 then undoAllKeyU u donek else (false, u)) with
            | (unk, u) => ⟨false, un4 && un6 && unk, u⟩
      else ⟨true, true, u⟩

/-- what `applyPfxU` has done: a prefix of the PDUs, each acceptable, applied in order -/
theorem applyPfxU_spec : ∀ (ps : List (List Nat)) (u : Upd) (done : List (List Nat)),
    ∃ applied rest, ps = applied ++ rest ∧ (applyPfxU u ps done).2.2 = done ++ applied ∧
      (∀ p ∈ applied, pfxOK p) ∧
      lsApplyAll u.pt (applied.map pfxOp) = some (applyPfxU u ps done).2.1.pt ∧
      (applyPfxU u ps done).2.1.kt = u.kt ∧
      ((applyPfxU u ps done).1 = true → rest = []) := by
  intro ps
  induction ps with
  | nil => intro u done; exact ⟨[], [], rfl, by simp [applyPfxU], by simp, by simp [applyPfxU, lsApplyAll], by simp [applyPfxU], fun _ => rfl⟩
  | cons p ps ih =>
    intro u done
    simp only [applyPfxU]
    unfold updPfxU
    by_cases hk : pfxOK p
    · simp only [hk, if_true]
      generalize hres : lsApply u.pt (pfxOp p).1 (pfxOp p).2 = res
      obtain ⟨pt', rc⟩ := res
      cases rc
      · -- applied
        simp only [if_true]
        obtain ⟨applied, rest, h1, h2, h3, h4, h5, h6⟩ := ih { u with pt := pt' } (done ++ [p])
        refine ⟨p :: applied, rest, by simp [h1], by simp [h2], ?_, ?_, h5, h6⟩
        · intro q hq
          rcases List.mem_cons.1 hq with rfl | hq
          · exact hk
          · exact h3 q hq
        · simp only [List.map_cons, lsApplyAll, hres]
          exact h4
      all_goals exact ⟨[], p :: ps, rfl, by simp, by simp, by simp [lsApplyAll], rfl, by simp⟩
    · simp only [hk, if_false]
      exact ⟨[], p :: ps, rfl, by simp, by simp, by simp [lsApplyAll], rfl, by simp⟩

theorem applyKeyU_spec : ∀ (ps : List (List Nat)) (u : Upd) (done : List (List Nat)),
    ∃ applied rest, ps = applied ++ rest ∧ (applyKeyU u ps done).2.2 = done ++ applied ∧
      (∀ p ∈ applied, keyOK p) ∧
      lsApplyAll u.kt (applied.map keyOp) = some (applyKeyU u ps done).2.1.kt ∧
      (applyKeyU u ps done).2.1.pt = u.pt ∧
      ((applyKeyU u ps done).1 = true → rest = []) := by
  intro ps
  induction ps with
  | nil => intro u done; exact ⟨[], [], rfl, by simp [applyKeyU], by simp, by simp [applyKeyU, lsApplyAll], by simp [applyKeyU], fun _ => rfl⟩
  | cons p ps ih =>
    intro u done
    simp only [applyKeyU]
    unfold updKeyU
    by_cases hk : keyOK p
    · simp only [hk, if_true]
      generalize hres : lsApply u.kt (keyOp p).1 (keyOp p).2 = res
      obtain ⟨kt', rc⟩ := res
      cases rc
      · simp only [if_true]
        obtain ⟨applied, rest, h1, h2, h3, h4, h5, h6⟩ := ih { u with kt := kt' } (done ++ [p])
        refine ⟨p :: applied, rest, by simp [h1], by simp [h2], ?_, ?_, h5, h6⟩
        · intro q hq
          rcases List.mem_cons.1 hq with rfl | hq
          · exact hk
          · exact h3 q hq
        · simp only [List.map_cons, lsApplyAll, hres]
          exact h4
      all_goals exact ⟨[], p :: ps, rfl, by simp, by simp, by simp [lsApplyAll], rfl, by simp⟩
    · simp only [hk, if_false]
      exact ⟨[], p :: ps, rfl, by simp, by simp, by simp [lsApplyAll], rfl, by simp⟩

/-- a complete forward undo on the update tables is `lsUndoAll` -/
theorem undoAllPfxU_spec : ∀ (ps : List (List Nat)) (u : Upd),
    (undoAllPfxU u ps).2.kt = u.kt ∧
    ((undoAllPfxU u ps).1 = true → lsUndoAll u.pt (ps.map pfxOp) = some (undoAllPfxU u ps).2.pt) := by
  intro ps
  induction ps with
  | nil => intro u; simp [undoAllPfxU, lsUndoAll]
  | cons p ps ih =>
    intro u
    simp only [undoAllPfxU]
    unfold undoPfxU
    generalize hres : lsApply u.pt (!(pfxOp p).1) (pfxOp p).2 = res
    obtain ⟨pt', rc⟩ := res
    cases rc
    · simp only [if_true]
      obtain ⟨h1, h2⟩ := ih { u with pt := pt' }
      refine ⟨h1, fun h => ?_⟩
      simp only [List.map_cons, lsUndoAll, hres]
      exact h2 h
    all_goals simp

theorem undoAllKeyU_spec : ∀ (ps : List (List Nat)) (u : Upd),
    (undoAllKeyU u ps).2.pt = u.pt ∧
    ((undoAllKeyU u ps).1 = true → lsUndoAll u.kt (ps.map keyOp) = some (undoAllKeyU u ps).2.kt) := by
  intro ps
  induction ps with
  | nil => intro u; simp [undoAllKeyU, lsUndoAll]
  | cons p ps ih =>
    intro u
    simp only [undoAllKeyU]
    unfold undoKeyU
    generalize hres : lsApply u.kt (!(keyOp p).1) (keyOp p).2 = res
    obtain ⟨kt', rc⟩ := res
    cases rc
    · simp only [if_true]
      obtain ⟨h1, h2⟩ := ih { u with kt := kt' }
      refine ⟨h1, fun h => ?_⟩
      simp only [List.map_cons, lsUndoAll, hres]
      exact h2 h
    all_goals simp

section
variable {α : Type} [DecidableEq α]

theorem lsApplyAll_append : ∀ (a b : List (Bool × α)) (t t1 t2 : List α),
    lsApplyAll t a = some t1 → lsApplyAll t1 b = some t2 → lsApplyAll t (a ++ b) = some t2 := by
  intro a
  induction a with
  | nil => intro b t t1 t2 h1 h2; simp [lsApplyAll] at h1; subst h1; simpa using h2
  | cons op a ih =>
    intro b t t1 t2 h1 h2
    obtain ⟨f, r⟩ := op
    simp only [List.cons_append, lsApplyAll] at h1 ⊢
    split at h1
    · rename_i t' heq
      exact ih b t' t1 t2 h1 h2
    · cases h1

theorem lsUndoAll_append : ∀ (a b : List (Bool × α)) (t t1 t2 : List α),
    lsUndoAll t a = some t1 → lsUndoAll t1 b = some t2 → lsUndoAll t (a ++ b) = some t2 := by
  intro a
  induction a with
  | nil => intro b t t1 t2 h1 h2; simp [lsUndoAll] at h1; subst h1; simpa using h2
  | cons op a ih =>
    intro b t t1 t2 h1 h2
    obtain ⟨f, r⟩ := op
    simp only [List.cons_append, lsUndoAll] at h1 ⊢
    split at h1
    · rename_i t' heq
      exact ih b t' t1 t2 h1 h2
    · cases h1

end

end Rtr.P

namespace Rtr.P

/-! ## what every step preserves: no duplicates, and the records of other sources -/

def Pres (u u' : Upd) : Prop :=
  (u.pt.Nodup → u'.pt.Nodup) ∧ (u.kt.Nodup → u'.kt.Nodup) ∧
  (∀ x : Rec, x.src ≠ 0 → (x ∈ u'.pt ↔ x ∈ u.pt)) ∧ (∀ x : KeyRec, x.src ≠ 0 → (x ∈ u'.kt ↔ x ∈ u.kt))

theorem Pres.refl (u : Upd) : Pres u u := ⟨id, id, fun _ _ => Iff.rfl, fun _ _ => Iff.rfl⟩

theorem Pres.trans {a b c : Upd} (h1 : Pres a b) (h2 : Pres b c) : Pres a c :=
  ⟨fun h => h2.1 (h1.1 h), fun h => h2.2.1 (h1.2.1 h),
   fun x hx => (h2.2.2.1 x hx).trans (h1.2.2.1 x hx), fun x hx => (h2.2.2.2 x hx).trans (h1.2.2.2 x hx)⟩

theorem lsApply_nodup {α : Type} [DecidableEq α] (t : List α) (f : Bool) (r : α) (t' : List α) (rc : PfxRc)
    (h : lsApply t f r = (t', rc)) (hn : t.Nodup) : t'.Nodup := by
  cases rc
  · exact (lsApply_success t f r hn t' h).1
  all_goals (rw [(lsApply_fail t f r t' _ h (by simp)).1]; exact hn)

theorem pfxRecOf_src (raw : List Nat) : (pfxRecOf raw).src = 0 := by unfold pfxRecOf; split <;> rfl
theorem keyRecOf_src (raw : List Nat) : (keyRecOf raw).src = 0 := rfl

theorem pres_pt (u : Upd) (f : Bool) (raw : List Nat) (pt' : List Rec) (rc : PfxRc)
    (h : lsApply u.pt f (pfxRecOf raw) = (pt', rc)) : Pres u { u with pt := pt' } :=
  ⟨lsApply_nodup _ _ _ _ _ h, id,
   fun x hx => lsApply_other _ _ _ _ _ h x (fun e => hx (e ▸ pfxRecOf_src raw)), fun _ _ => Iff.rfl⟩

theorem pres_kt (u : Upd) (f : Bool) (raw : List Nat) (kt' : List KeyRec) (rc : PfxRc)
    (h : lsApply u.kt f (keyRecOf raw) = (kt', rc)) : Pres u { u with kt := kt' } :=
  ⟨id, lsApply_nodup _ _ _ _ _ h, fun _ _ => Iff.rfl,
   fun x hx => lsApply_other _ _ _ _ _ h x (fun e => hx (e ▸ keyRecOf_src raw))⟩

theorem updPfxU_pres (u : Upd) (raw : List Nat) : Pres u (updPfxU u raw).2 := by
  unfold updPfxU
  split
  · generalize hres : lsApply u.pt (pfxOp raw).1 (pfxOp raw).2 = res
    obtain ⟨pt', rc⟩ := res
    cases rc
    · exact pres_pt u _ raw pt' _ hres
    all_goals exact Pres.refl u
  · exact Pres.refl u

theorem updKeyU_pres (u : Upd) (raw : List Nat) : Pres u (updKeyU u raw).2 := by
  unfold updKeyU
  split
  · generalize hres : lsApply u.kt (keyOp raw).1 (keyOp raw).2 = res
    obtain ⟨kt', rc⟩ := res
    cases rc
    · exact pres_kt u _ raw kt' _ hres
    all_goals exact Pres.refl u
  · exact Pres.refl u

theorem undoPfxU_pres (u : Upd) (raw : List Nat) : Pres u (undoPfxU u raw).2 := by
  unfold undoPfxU
  generalize hres : lsApply u.pt (!(pfxOp raw).1) (pfxOp raw).2 = res
  obtain ⟨pt', rc⟩ := res
  cases rc
  · exact pres_pt u _ raw pt' _ hres
  all_goals exact Pres.refl u

theorem undoKeyU_pres (u : Upd) (raw : List Nat) : Pres u (undoKeyU u raw).2 := by
  unfold undoKeyU
  generalize hres : lsApply u.kt (!(keyOp raw).1) (keyOp raw).2 = res
  obtain ⟨kt', rc⟩ := res
  cases rc
  · exact pres_kt u _ raw kt' _ hres
  all_goals exact Pres.refl u

theorem applyPfxU_pres : ∀ (ps : List (List Nat)) (u : Upd) (done : List (List Nat)), Pres u (applyPfxU u ps done).2.1 := by
  intro ps
  induction ps with
  | nil => intro u done; exact Pres.refl u
  | cons p ps ih =>
    intro u done
    simp only [applyPfxU]
    have h1 := updPfxU_pres u p
    cases h : (updPfxU u p).1
    · simpa [h] using h1
    · simp only [h, if_true]; exact h1.trans (ih _ _)

theorem applyKeyU_pres : ∀ (ps : List (List Nat)) (u : Upd) (done : List (List Nat)), Pres u (applyKeyU u ps done).2.1 := by
  intro ps
  induction ps with
  | nil => intro u done; exact Pres.refl u
  | cons p ps ih =>
    intro u done
    simp only [applyKeyU]
    have h1 := updKeyU_pres u p
    cases h : (updKeyU u p).1
    · simpa [h] using h1
    · simp only [h, if_true]; exact h1.trans (ih _ _)

theorem undoAllPfxU_pres : ∀ (ps : List (List Nat)) (u : Upd), Pres u (undoAllPfxU u ps).2 := by
  intro ps
  induction ps with
  | nil => intro u; exact Pres.refl u
  | cons p ps ih =>
    intro u
    simp only [undoAllPfxU]
    have h1 := undoPfxU_pres u p
    cases h : (undoPfxU u p).1
    · simpa [h] using h1
    · simp only [h, if_true]; exact h1.trans (ih _)

theorem undoAllKeyU_pres : ∀ (ps : List (List Nat)) (u : Upd), Pres u (undoAllKeyU u ps).2 := by
  intro ps
  induction ps with
  | nil => intro u; exact Pres.refl u
  | cons p ps ih =>
    intro u
    simp only [undoAllKeyU]
    have h1 := undoKeyU_pres u p
    cases h : (undoKeyU u p).1
    · simpa [h] using h1
    · simp only [h, if_true]; exact h1.trans (ih _)

/-! ## atomicity of the table part on the update tables -/

structure UAtomic (u0 : Upd) (v4 v6 keys : List (List Nat)) (R : URes) : Prop where
  pres : Pres u0 R.u
  success : R.ok = true →
    lsApplyAll u0.pt ((v4 ++ v6).map pfxOp) = some R.u.pt ∧ lsApplyAll u0.kt (keys.map keyOp) = some R.u.kt ∧
    (∀ p ∈ v4 ++ v6, pfxOK p) ∧ (∀ p ∈ keys, keyOK p)
  restored : R.ok = false → R.undone = true → SameSet R.u.pt u0.pt ∧ SameSet R.u.kt u0.kt

theorem SameSet.refl {α : Type} (l : List α) : SameSet l l := fun _ => Iff.rfl

theorem applyTablesU_atomic (u0 : Upd) (v4 v6 keys : List (List Nat)) (hp : u0.pt.Nodup) (hk : u0.kt.Nodup) :
    UAtomic u0 v4 v6 keys (applyTablesU u0 v4 v6 keys) := by
  unfold applyTablesU
  obtain ⟨a4, r4, e4, d4, ok4s, ap4, kt4, full4⟩ := applyPfxU_spec v4 u0 []
  have p4 := applyPfxU_pres v4 u0 []
  generalize applyPfxU u0 v4 [] = R4 at *
  obtain ⟨ok4, u1, done4⟩ := R4
  simp only at d4 ap4 kt4 full4 p4 ⊢
  simp only [List.nil_append] at d4
  cases ok4
  · -- failure among the IPv4 PDUs
    simp only [Bool.not_false, if_true]
    obtain ⟨ku, hu⟩ := undoAllPfxU_spec done4 u1
    have pu := undoAllPfxU_pres done4 u1
    generalize undoAllPfxU u1 done4 = RU at *
    obtain ⟨un, u2⟩ := RU
    simp only at ku hu pu ⊢
    refine ⟨p4.trans pu, (fun h => nomatch h), fun _ hun => ?_⟩
    simp only at hun
    subst hun
    rw [d4] at hu
    have := ls_forward_undo (a4.map pfxOp) u0.pt u1.pt u2.pt hp ap4 (hu rfl)
    exact ⟨this.2, by rw [ku, kt4]; exact SameSet.refl _⟩
  · simp only [Bool.not_true, Bool.false_eq_true, if_false]
    have r4nil := full4 rfl
    subst r4nil
    simp only [List.append_nil] at e4
    have e4' : a4 = v4 := e4.symm
    clear e4
    subst e4'

    obtain ⟨a6, r6, e6, d6, ok6s, ap6, kt6, full6⟩ := applyPfxU_spec v6 u1 []
    have p6 := applyPfxU_pres v6 u1 []
    generalize applyPfxU u1 v6 [] = R6 at *
    obtain ⟨ok6, u2, done6⟩ := R6
    simp only at d6 ap6 kt6 full6 p6 ⊢
    simp only [List.nil_append] at d6
    have n1 : u1.pt.Nodup := p4.1 hp
    cases ok6
    · -- failure among the IPv6 PDUs
      simp only [Bool.not_false, if_true]
      obtain ⟨ku4, hu4⟩ := undoAllPfxU_spec a4 u2
      have pu4 := undoAllPfxU_pres a4 u2
      generalize undoAllPfxU u2 a4 = RU4 at *
      obtain ⟨un4, u3⟩ := RU4
      simp only at ku4 hu4 pu4 ⊢
      cases un4
      · simp only [Bool.false_eq_true, if_false, Bool.false_and, reduceIte]
        exact ⟨(p4.trans p6).trans pu4, (fun h => nomatch h), (fun _ h => nomatch h)⟩
      · simp only [if_true, Bool.true_and]
        obtain ⟨ku6, hu6⟩ := undoAllPfxU_spec done6 u3
        have pu6 := undoAllPfxU_pres done6 u3
        generalize undoAllPfxU u3 done6 = RU6 at *
        obtain ⟨un6, u4⟩ := RU6
        simp only at ku6 hu6 pu6 ⊢
        refine ⟨((p4.trans p6).trans pu4).trans pu6, (fun h => nomatch h), fun _ hun => ?_⟩
        simp only at hun
        subst hun
        rw [d6] at hu6
        have happ := lsApplyAll_append (a4.map pfxOp) (a6.map pfxOp) u0.pt u1.pt u2.pt ap4 ap6
        have hund := lsUndoAll_append (a4.map pfxOp) (a6.map pfxOp) u2.pt u3.pt u4.pt (hu4 rfl) (hu6 rfl)
        have := ls_forward_undo (a4.map pfxOp ++ a6.map pfxOp) u0.pt u2.pt u4.pt hp happ hund
        exact ⟨this.2, by rw [ku6, ku4, kt6, kt4]; exact SameSet.refl _⟩
    · simp only [Bool.not_true, Bool.false_eq_true, if_false]
      have r6nil := full6 rfl
      subst r6nil
      simp only [List.append_nil] at e6
      have e6' : a6 = v6 := e6.symm
      clear e6
      subst e6'

      obtain ⟨ak, rk, ek, dk, okks, apk, ptk, fullk⟩ := applyKeyU_spec keys u2 []
      have pk := applyKeyU_pres keys u2 []
      generalize applyKeyU u2 keys [] = RK at *
      obtain ⟨okk, u3, donek⟩ := RK
      simp only at dk apk ptk fullk pk ⊢
      simp only [List.nil_append] at dk
      have happ := lsApplyAll_append (a4.map pfxOp) (a6.map pfxOp) u0.pt u1.pt u2.pt ap4 ap6
      cases okk
      · -- failure among the Router Key PDUs
        simp only [Bool.not_false, if_true]
        obtain ⟨ku4, hu4⟩ := undoAllPfxU_spec a4 u3
        have pu4 := undoAllPfxU_pres a4 u3
        generalize undoAllPfxU u3 a4 = RU4 at *
        obtain ⟨un4, u4⟩ := RU4
        simp only at ku4 hu4 pu4 ⊢
        cases un4
        · simp only [Bool.false_eq_true, if_false, Bool.false_and]
          exact ⟨((p4.trans p6).trans pk).trans pu4, (fun h => nomatch h), (fun _ h => nomatch h)⟩
        · simp only [if_true, Bool.true_and]
          obtain ⟨ku6, hu6⟩ := undoAllPfxU_spec a6 u4
          have pu6 := undoAllPfxU_pres a6 u4
          generalize undoAllPfxU u4 a6 = RU6 at *
          obtain ⟨un6, u5⟩ := RU6
          simp only at ku6 hu6 pu6 ⊢
          cases un6
          · simp only [Bool.false_eq_true, if_false, Bool.false_and]
            exact ⟨(((p4.trans p6).trans pk).trans pu4).trans pu6, (fun h => nomatch h), (fun _ h => nomatch h)⟩
          · simp only [if_true, Bool.true_and]
            obtain ⟨pku, huk⟩ := undoAllKeyU_spec donek u5
            have puk := undoAllKeyU_pres donek u5
            generalize undoAllKeyU u5 donek = RUK at *
            obtain ⟨unk, u6⟩ := RUK
            simp only at pku huk puk ⊢
            refine ⟨((((p4.trans p6).trans pk).trans pu4).trans pu6).trans puk, (fun h => nomatch h), fun _ hun => ?_⟩
            simp only at hun
            subst hun
            rw [dk] at huk
            have hund := lsUndoAll_append (a4.map pfxOp) (a6.map pfxOp) u3.pt u4.pt u5.pt (hu4 rfl) (hu6 rfl)
            rw [ptk] at hund
            have fp := ls_forward_undo (a4.map pfxOp ++ a6.map pfxOp) u0.pt u2.pt u5.pt hp happ hund
            have nk2 : u2.kt.Nodup := (p4.trans p6).2.1 hk
            have e5 : u5.kt = u3.kt := by rw [ku6, ku4]
            rw [e5] at huk
            have fk := ls_forward_undo (ak.map keyOp) u2.kt u3.kt u6.kt nk2 apk (huk rfl)
            refine ⟨by rw [pku]; exact fp.2, ?_⟩
            have : u2.kt = u0.kt := by rw [kt6, kt4]
            rw [← this]; exact fk.2
      · simp only [Bool.not_true, Bool.false_eq_true, if_false]
        have rknil := fullk rfl
        subst rknil
        simp only [List.append_nil] at ek
        have ek' : ak = keys := ek.symm
        clear ek
        subst ek'

        refine ⟨(p4.trans p6).trans pk, fun _ => ?_, (fun h => nomatch h)⟩
        refine ⟨by rw [List.map_append, ptk]; exact happ, by rw [← kt4, ← kt6]; exact apk, ?_, okks⟩
        intro p hp'
        rcases List.mem_append.1 hp' with h | h
        · exact ok4s p h
        · exact ok6s p h

end Rtr.P

namespace Rtr.P

/-! ## `applyTables` (the model of the C code) in terms of `applyTablesU` -/

@[simp] theorem applyFail_ok (u : Bool) (c : Conn) (n : Net) (t : Tbl) : (applyFail u c n t).ok = false := by
  unfold applyFail; simp only
@[simp] theorem applyFail_purged (u : Bool) (c : Conn) (n : Net) (t : Tbl) : (applyFail u c n t).purged = !u := by
  unfold applyFail; simp only
@[simp] theorem applyFail_t (u : Bool) (c : Conn) (n : Net) (t : Tbl) :
    (applyFail u c n t).t = if u then t else t.purge := by
  unfold applyFail; simp only

theorem flags01_of_ok (ps : List (List Nat)) (h : ∀ p ∈ ps, pfxOK p) : Flags01 ps :=
  fun p hp => flags01 p (h p hp).2
theorem flags01_of_okK (ps : List (List Nat)) (h : ∀ p ∈ ps, keyOK p) : Flags01 ps :=
  fun p hp => flags01 p (h p hp)

/-- the result of the table part, for the tables -/
def liftRes (t0 : Tbl) (R : URes) : Tbl :=
  if R.ok then (t0.setUpd R.u).swapIn
  else if R.undone then t0.setUpd R.u else (t0.setUpd R.u).purge

theorem applyTables_lift (c : Conn) (n : Net) (t : Tbl) (resetting : Bool) (v4 v6 keys : List (List Nat)) :
    let t0 : Tbl := if resetting then { t with shadow := some ⟨ptSrcRemove t.pt 0, ktSrcRemove t.kt 0⟩ } else t
    (applyTables c n t resetting v4 v6 keys).ok = (applyTablesU t0.upd v4 v6 keys).ok ∧
    (applyTables c n t resetting v4 v6 keys).purged =
      (!(applyTablesU t0.upd v4 v6 keys).ok && !(applyTablesU t0.upd v4 v6 keys).undone) ∧
    (applyTables c n t resetting v4 v6 keys).t = liftRes t0 (applyTablesU t0.upd v4 v6 keys) := by
  intro t0
  unfold applyTables applyTablesU liftRes
  simp only
  change _ ∧ _ ∧ _
  -- IPv4 stage
  obtain ⟨a4, r4, e4, dd4, oks4, _, _, full4⟩ := applyPfxU_spec v4 t0.upd []
  have L4 := applyPfx_lift v4 c n t0 []
  generalize applyPfx c n t0 v4 [] = A4 at L4 ⊢
  obtain ⟨ok4, c4, n4, t4, d4⟩ := A4
  generalize applyPfxU t0.upd v4 [] = B4 at *
  obtain ⟨bok4, bu4, bd4⟩ := B4
  simp only at L4 dd4 full4 ⊢
  obtain ⟨l1, l2, l3⟩ := L4
  subst l1; subst l2; subst l3
  simp only [List.nil_append] at dd4
  cases ok4
  · simp only [Bool.not_false, if_true]
    have hf : Flags01 d4 := by rw [dd4]; exact flags01_of_ok a4 oks4
    rw [undoAllPfx_lift d4 _ hf]
    simp only [upd_setUpd, setUpd_setUpd]
    generalize undoAllPfxU bu4 d4 = RU
    obtain ⟨un, u2⟩ := RU
    cases un <;> simp
  · simp only [Bool.not_true, Bool.false_eq_true, if_false]
    have r4nil := full4 rfl
    subst r4nil
    simp only [List.append_nil] at e4
    have hf4 : Flags01 v4 := by rw [e4]; exact flags01_of_ok a4 oks4
    -- IPv6 stage
    obtain ⟨a6, r6, e6, dd6, oks6, _, _, full6⟩ := applyPfxU_spec v6 bu4 []
    have L6 := applyPfx_lift v6 c4 n4 (t0.setUpd bu4) []
    simp only [upd_setUpd, setUpd_setUpd] at L6
    generalize applyPfx c4 n4 (t0.setUpd bu4) v6 [] = A6 at L6 ⊢
    obtain ⟨ok6, c6, n6, t6, d6⟩ := A6
    generalize applyPfxU bu4 v6 [] = B6 at *
    obtain ⟨bok6, bu6, bd6⟩ := B6
    simp only at L6 dd6 full6 ⊢
    obtain ⟨l1, l2, l3⟩ := L6
    subst l1; subst l2; subst l3
    simp only [List.nil_append] at dd6
    cases ok6
    · simp only [Bool.not_false, if_true]
      rw [undoAllPfx_lift v4 _ hf4]
      simp only [upd_setUpd, setUpd_setUpd]
      generalize undoAllPfxU bu6 v4 = RU4
      obtain ⟨un4, u3⟩ := RU4
      cases un4
      · simp
      · simp only [if_true, Bool.true_and]
        have hf : Flags01 d6 := by rw [dd6]; exact flags01_of_ok a6 oks6
        rw [undoAllPfx_lift d6 _ hf]
        simp only [upd_setUpd, setUpd_setUpd]
        generalize undoAllPfxU u3 d6 = RU6
        obtain ⟨un6, u4⟩ := RU6
        cases un6 <;> simp
    · simp only [Bool.not_true, Bool.false_eq_true, if_false]
      have r6nil := full6 rfl
      subst r6nil
      simp only [List.append_nil] at e6
      have hf6 : Flags01 v6 := by rw [e6]; exact flags01_of_ok a6 oks6
      -- Router Key stage
      obtain ⟨ak, rk, ek, ddk, oksk, _, _, fullk⟩ := applyKeyU_spec keys bu6 []
      have LK := applyKey_lift keys c6 n6 (t0.setUpd bu6) []
      simp only [upd_setUpd, setUpd_setUpd] at LK
      generalize applyKey c6 n6 (t0.setUpd bu6) keys [] = AK at LK ⊢
      obtain ⟨okk, ck, nk, tk, dk⟩ := AK
      generalize applyKeyU bu6 keys [] = BK at *
      obtain ⟨bokk, buk, bdk⟩ := BK
      simp only at LK ddk fullk ⊢
      obtain ⟨l1, l2, l3⟩ := LK
      subst l1; subst l2; subst l3
      simp only [List.nil_append] at ddk
      cases okk
      · simp only [Bool.not_false, if_true]
        rw [undoAllPfx_lift v4 _ hf4]
        simp only [upd_setUpd, setUpd_setUpd]
        generalize undoAllPfxU buk v4 = RU4
        obtain ⟨un4, u3⟩ := RU4
        cases un4
        · simp
        · simp only [if_true, Bool.true_and]
          rw [undoAllPfx_lift v6 _ hf6]
          simp only [upd_setUpd, setUpd_setUpd]
          generalize undoAllPfxU u3 v6 = RU6
          obtain ⟨un6, u4⟩ := RU6
          cases un6
          · simp
          · simp only [if_true, Bool.true_and]
            have hf : Flags01 dk := by rw [ddk]; exact flags01_of_okK ak oksk
            rw [undoAllKey_lift dk _ hf]
            simp only [upd_setUpd, setUpd_setUpd]
            generalize undoAllKeyU u4 dk = RUK
            obtain ⟨unk, u5⟩ := RUK
            cases unk <;> simp
      · simp

end Rtr.P
