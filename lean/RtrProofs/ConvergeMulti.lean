/-
  ConvergeMulti: convergence over more than one exchange.  The iterations of the state machine that
  the single-exchange theorems of RtrProofs/Converge.lean do not cover — the wait in ESTABLISHED
  (Serial Notify, refresh timer), and the three answers by which a cache refuses a query (Cache
  Reset, Error Report "no data available", Cache Response of another session) — and their
  composition with the good exchange that follows.  Final statements: RtrProps/C08c.lean.
-/
import RtrProofs.Converge

namespace Rtr.P

/-! ## more frames -/

def CvmOpenSame (n n' : Net) : Prop := n'.openQ = n.openQ

theorem cvmOpenSame_emitRel : EmitRel CvmOpenSame :=
  { refl := fun _ => rfl
    trans := fun h1 h2 => by unfold CvmOpenSame at *; rw [h2, h1]
    emit := fun _ _ => rfl
    send := fun n b => by
      unfold CvmOpenSame trSend
      simp only
      split <;> rfl }

theorem cvm_changeState (c : Conn) (n : Net) (own : Nat) (s : SState) (h1 : c.state ≠ s) (h2 : c.state ≠ .shutdown) :
    changeState c n own s = ({ c with state := s }, n.emit s!"S {s.name} {n.now} {own}") := by
  unfold changeState
  rw [if_neg h1, if_neg h2]

theorem CvRun.append {fuel k1 : Nat} {a b : St} (r1 : CvRun fuel k1 a b) :
    ∀ {k2 : Nat} {c : St}, CvRun fuel k2 b c → CvRun fuel (k1 + k2) a c := by
  induction r1 with
  | nil st => intro k2 c r2; rw [Nat.zero_add]; exact r2
  | @cons k _ _ _ h _ ih =>
    intro k2 c r2
    have := CvRun.cons h (ih r2)
    rw [show k + 1 + k2 = k + k2 + 1 from by omega]
    exact this

/-- the state in which the next exchange starts, as seen from the state `st` in which the refused
    one started: socket state `s`, same version, session part, intervals, tables, clock, open
    script; the tape holds `rest`; the send script lost what was sent -/
structure CvmNext (st st1 : St) (s : SState) (rest : List Nat) : Prop where
  state : st1.c.state = s
  ver : st1.c.version = st.c.version
  rcv : st1.c.hasReceived = true
  ss : st1.ss = st.ss
  tm : st1.tm = st.tm
  t : st1.t = st.t
  tape : CvTape st1.n rest
  now : st1.n.now = st.n.now
  openQ : st1.n.openQ = st.n.openQ
  send : NoFail st.n.sendQ → NoFail st1.n.sendQ

/-! ## the first PDU of an exchange -/

/-- the first loop of `rtr_sync` hands a complete PDU that is not a Serial Notify to `rtr_sync` -/
theorem cvm_syncFirst (fuel : Nat) (st : St) (raw rest : List Nat) (hf : 0 < fuel) (hs : st.c.state ≠ .shutdown)
    (ht : CvTape st.n (raw ++ rest)) (hlen : raw.length = lenOf raw) (hcs : checkSize raw = true)
    (hmax : lenOf raw ≤ Gen.RTR_MAX_PDU_LEN) (hv : verOf raw = (downgraded st.c raw).version ∨ typeOf raw = 10)
    (h0 : typeOf raw ≠ 0) :
    ∃ n1, syncFirst fuel st = (some raw, { st with c := downgraded st.c raw, n := n1 }) ∧ CvTape n1 rest ∧ CvRecvd st.n n1 := by
  obtain ⟨f, rfl⟩ : ∃ f, fuel = f + 1 := ⟨fuel - 1, by omega⟩
  obtain ⟨n1, r1, t1, s1⟩ := cv_receivePdu_complete st.c st.n st.t.own Gen.RTR_RECV_TIMEOUT raw rest hs ht hlen hcs hmax hv
  refine ⟨n1, ?_, t1, s1⟩
  rw [syncFirst, r1]
  simp only
  rw [if_neg h0]

theorem cvm_fsmStep_sync_fail (fuel : Nat) (st st1 : St) (hs : st.c.state = .sync) (e : syncG fuel st = (false, st1, none)) :
    fsmStep fuel st = some st1 := by
  rw [fsmStep_eq, hs]
  simp only
  unfold stepSync
  rw [e]
  simp only [Bool.false_eq_true, if_false]

/-! ### Cache Reset -/

/-- Cache Reset PDU -/
def cvmCacheReset (ver : Nat) : List Nat := [ver, 8, 0, 0, 0, 0, 0, 8]

theorem cvm_cacheReset_wire (ver : Nat) : CvWire ver (cvmCacheReset ver) ∧ typeOf (cvmCacheReset ver) = 8 := by
  refine ⟨⟨rfl, ?_, ?_, ?_⟩, rfl⟩
  · simp [cvmCacheReset, lenOf, be32]
  · simp [cvmCacheReset, checkSize, typeOf, lenOf, be32, Gen.sizeof_pdu_header]
  · simp [cvmCacheReset, lenOf, be32, Gen.RTR_MAX_PDU_LEN]

/-- **SYNC, the cache answers Cache Reset**: ERROR_NO_INCR_UPDATE_AVAIL; nothing else changes -/
theorem cvm_step_cacheReset (fuel : Nat) (st : St) (rest : List Nat) (hf : 0 < fuel) (hs : st.c.state = .sync)
    (ht : CvTape st.n (cvmCacheReset st.c.version ++ rest)) :
    ∃ st1, fsmStep fuel st = some st1 ∧ CvmNext st st1 .errNoIncr rest := by
  have hs0 : st.c.state ≠ .shutdown := by rw [hs]; decide
  obtain ⟨w, ty⟩ := cvm_cacheReset_wire st.c.version
  have hd : downgraded st.c (cvmCacheReset st.c.version) = { st.c with hasReceived := true } :=
    cv_downgraded_same st.c _ w.ver
  obtain ⟨n1, e1, t1, s1⟩ := cvm_syncFirst fuel st (cvmCacheReset st.c.version) rest hf hs0 ht w.len w.size w.max
    (Or.inl (by rw [hd]; exact w.ver)) (by rw [ty]; decide)
  rw [hd] at e1
  have hcs := cvm_changeState ({ st.c with hasReceived := true } : Conn) n1 st.t.own .errNoIncr
    (by show st.c.state ≠ _; rw [hs]; decide) (by show st.c.state ≠ _; rw [hs]; decide)
  have e : syncG fuel st = (false, { st with
      c := { st.c with hasReceived := true, state := .errNoIncr },
      n := n1.emit s!"S {SState.errNoIncr.name} {n1.now} {st.t.own}" }, none) := by
    unfold syncG
    rw [e1]
    simp only [ty]
    rw [hcs]
  refine ⟨_, cvm_fsmStep_sync_fail fuel st _ hs e, ⟨rfl, rfl, rfl, rfl, rfl, rfl, ⟨t1.ff, t1.eq⟩, s1.now, s1.openQ, ?_⟩⟩
  intro hq
  show NoFail n1.sendQ
  rw [s1.sendQ]; exact hq

/-! ### Error Report "no data available" -/

theorem cvm_downgraded_err (c : Conn) (raw : List Nat) (h : typeOf raw = 10) :
    downgraded c raw = { c with hasReceived := true } := by
  unfold downgraded
  by_cases hr : c.hasReceived = true
  · obtain ⟨s, v, r⟩ := c
    simp only at hr
    subst hr
    rfl
  · have h' : c.hasReceived = false := by simpa using hr
    have hd : ¬ (c.version = 1 ∧ verOf raw = 0 ∧ typeOf raw ≠ 10) := fun x => x.2.2 h
    simp only [h', Bool.not_false, if_true]
    rw [if_neg hd]

/-- **SYNC, the cache answers with an Error Report "No Data Available" (code 2)**, of any version,
    with any encapsulated PDU and text: ERROR_NO_DATA_AVAIL -/
theorem cvm_step_noData (fuel : Nat) (st : St) (ver : Nat) (enc text rest : List Nat) (hf : 0 < fuel)
    (hs : st.c.state = .sync) (hsz : enc.length + text.length + 16 ≤ Gen.RTR_MAX_PDU_LEN)
    (ht : CvTape st.n (errorPduBytes ver enc 2 text ++ rest)) :
    ∃ st1, fsmStep fuel st = some st1 ∧ CvmNext st st1 .errNoData rest := by
  have hs0 : st.c.state ≠ .shutdown := by rw [hs]; decide
  obtain ⟨ty, hcode, _, _, _, _, hlen, hsize⟩ := errorPdu_fields ver enc 2 text hsz
  have hl : lenOf (errorPduBytes ver enc 2 text) = (errorPduBytes ver enc 2 text).length :=
    (errorPdu_wf ver enc 2 text hsz).2.2.1
  have hd := cvm_downgraded_err st.c (errorPduBytes ver enc 2 text) ty
  obtain ⟨n1, e1, t1, s1⟩ := cvm_syncFirst fuel st (errorPduBytes ver enc 2 text) rest hf hs0 ht hl.symm hsize
    (by rw [hl, hlen]; omega) (Or.inr ty) (by rw [ty]; decide)
  rw [hd] at e1
  have hcs := cvm_changeState ({ st.c with hasReceived := true } : Conn) n1 st.t.own .errNoData
    (by show st.c.state ≠ _; rw [hs]; decide) (by show st.c.state ≠ _; rw [hs]; decide)
  have he : handleErrorPdu ({ st.c with hasReceived := true } : Conn) n1 st.t.own (errorPduBytes ver enc 2 text) =
      changeState ({ st.c with hasReceived := true } : Conn) n1 st.t.own .errNoData := by
    unfold handleErrorPdu
    simp only
    rw [if_pos (hcode (by decide))]
  have e : syncG fuel st = (false, { st with
      c := { st.c with hasReceived := true, state := .errNoData },
      n := n1.emit s!"S {SState.errNoData.name} {n1.now} {st.t.own}" }, none) := by
    unfold syncG
    rw [e1]
    simp only [ty]
    rw [he, hcs]
  refine ⟨_, cvm_fsmStep_sync_fail fuel st _ hs e, ⟨rfl, rfl, rfl, rfl, rfl, rfl, ⟨t1.ff, t1.eq⟩, s1.now, s1.openQ, ?_⟩⟩
  intro hq
  show NoFail n1.sendQ
  rw [s1.sendQ]; exact hq

/-! ### Cache Response of another session -/

/-- **SYNC after a Serial Query, the Cache Response carries another session id**: an Error Report
    (Corrupt Data, "Wrong session_id …") is sent, the state is ERROR_FATAL; session part and tables
    are as before (in particular the next query is again the Serial Query with the old session) -/
theorem cvm_step_wrongSession (fuel : Nat) (st : St) (sess' : Nat) (rest : List Nat) (hf : 0 < fuel)
    (hs : st.c.state = .sync) (hr : st.ss.reqSession = false) (hne : st.ss.session ≠ sess') (hs16 : sess' < 65536)
    (ht : CvTape st.n (cvCacheResponse st.c.version sess' ++ rest)) :
    ∃ st1, fsmStep fuel st = some st1 ∧ CvmNext st st1 .errFatal rest := by
  have hs0 : st.c.state ≠ .shutdown := by rw [hs]; decide
  obtain ⟨w, ty⟩ := cv_cacheResponse_wire st.c.version sess'
  have hsess := cv_cacheResponse_session st.c.version sess' hs16
  have hd : downgraded st.c (cvCacheResponse st.c.version sess') = { st.c with hasReceived := true } :=
    cv_downgraded_same st.c _ w.ver
  obtain ⟨n1, e1, t1, s1⟩ := cvm_syncFirst fuel st (cvCacheResponse st.c.version sess') rest hf hs0 ht w.len w.size w.max
    (Or.inl (by rw [hd]; exact w.ver)) (by rw [ty]; decide)
  rw [hd] at e1
  -- the Error Report and the state change
  have r1 := sendErrorFromHost_rel cvNet0_emitRel ({ st.c with hasReceived := true } : Conn) n1 [] 0 0 txtWrongSession
  have r2 := sendErrorFromHost_rel cvmOpenSame_emitRel ({ st.c with hasReceived := true } : Conn) n1 [] 0 0 txtWrongSession
  generalize hse : sendErrorFromHost ({ st.c with hasReceived := true } : Conn) n1 [] 0 0 txtWrongSession = se at r1 r2
  obtain ⟨x, n2⟩ := se
  simp only at r1 r2
  have hcs := cvm_changeState ({ st.c with hasReceived := true } : Conn) n2 st.t.own .errFatal
    (by show st.c.state ≠ _; rw [hs]; decide) (by show st.c.state ≠ _; rw [hs]; decide)
  have hh : handleCacheResponse ({ st.c with hasReceived := true } : Conn) st.ss n1 st.t.own (cvCacheResponse st.c.version sess') =
      (false, { st.c with hasReceived := true, state := .errFatal }, st.ss,
        n2.emit s!"S {SState.errFatal.name} {n2.now} {st.t.own}") := by
    unfold handleCacheResponse
    simp only
    rw [if_neg (by rw [hr]; decide), hsess, if_pos hne, hse]
    simp only
    rw [hcs]
  have e : syncG fuel st = (false, { st with
      c := { st.c with hasReceived := true, state := .errFatal },
      n := n2.emit s!"S {SState.errFatal.name} {n2.now} {st.t.own}" }, none) := by
    unfold syncG
    rw [e1]
    simp only [ty]
    rw [hh]
    simp only [Bool.not_false, if_true]
  refine ⟨_, cvm_fsmStep_sync_fail fuel st _ hs e, ⟨rfl, rfl, rfl, rfl, rfl, rfl, ?_, ?_, ?_, ?_⟩⟩
  · exact ⟨by show FaultFree n2.tape; rw [r1.tape]; exact t1.ff, by show tapeBytes n2.tape = rest; rw [r1.tape]; exact t1.eq⟩
  · show n2.now = st.n.now
    rw [r1.now, s1.now]; simp
  · show n2.openQ = st.n.openQ
    rw [r2, s1.openQ]
  · intro hq
    show NoFail n2.sendQ
    exact r1.noFail (by rw [s1.sendQ]; exact hq)

end Rtr.P
