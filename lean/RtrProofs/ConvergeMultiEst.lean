/-
  ConvergeMultiEst: the wait in ESTABLISHED (`rtr_wait_for_sync`, model `waitForSync`): a Serial
  Notify, or the expiry of the refresh timer, makes the socket send a Serial Query and go to SYNC;
  with the good incremental answer on the tape the next iteration ends ESTABLISHED with the updated
  data.  Final statement: RtrProps/C08c.lean `established_polls_and_updates`.
-/
import RtrProofs.ConvergeMulti

namespace Rtr.P

/-- Serial Notify PDU -/
def cvmSerialNotify (ver sess sn : Nat) : List Nat := [ver, 0] ++ toBE16 sess ++ ([0, 0, 0, 12] ++ toBE32 sn)

theorem cvm_serialNotify_wire (ver sess sn : Nat) :
    CvWire ver (cvmSerialNotify ver sess sn) ∧ typeOf (cvmSerialNotify ver sess sn) = 0 := by
  refine ⟨⟨rfl, ?_, ?_, ?_⟩, rfl⟩
  · simp [cvmSerialNotify, toBE16, toBE32, lenOf, be32]
  · simp [cvmSerialNotify, toBE16, toBE32, checkSize, typeOf, lenOf, be32, Gen.sizeof_pdu_serial_notify]
  · simp [cvmSerialNotify, toBE16, toBE32, lenOf, be32, Gen.RTR_MAX_PDU_LEN]

/-- the moment the wait of `rtr_wait_for_sync` ends when nothing arrives: one refresh interval after
    the last synchronisation, at once if that moment has passed -/
def cvmDeadline (st : St) : Int := max st.n.now (st.ss.lastUpdate + st.tm.refresh)

/-- `tr_recv_all` when the next event of the script is a timeout -/
theorem cvm_recvAll_block (n : Net) (len : Nat) (t : Int) (rest : List TapeEv) (hl : 0 < len) (h : n.tape = .block :: rest) :
    ∃ n', recvAll n len t = (-2, [], n', false) ∧ n'.tape = rest ∧ n'.now = (if t > 0 then n.now + t else n.now) ∧
      n'.sendQ = n.sendQ ∧ n'.openQ = n.openQ ∧ n'.threaded = n.threaded := by
  have htr : trRecv n (len - ([] : List Nat).length) (n.now + t - n.now) =
      (-2, [], ({ n with tape := rest, now := if n.now + t - n.now > 0 then n.now + (n.now + t - n.now) else n.now }).emit
        s!"R {len - ([] : List Nat).length} {n.now + t - n.now} -> -2", false) := by
    unfold trRecv
    rw [h]
    rfl
  refine ⟨({ n with tape := rest, now := if n.now + t - n.now > 0 then n.now + (n.now + t - n.now) else n.now }).emit
        s!"R {len - ([] : List Nat).length} {n.now + t - n.now} -> -2", ?_, rfl, ?_, rfl, rfl, rfl⟩
  · unfold recvAll
    rw [recvAllLoop]
    have h0 : ([] : List Nat).length < len := hl
    rw [if_pos h0, htr]
    simp only
    rw [if_pos (by decide)]
  · show (if n.now + t - n.now > 0 then n.now + (n.now + t - n.now) else n.now) = _
    have e : n.now + t - n.now = t := by omega
    rw [e]

/-- `rtr_receive_pdu` when the next event of the script is a timeout: TR_WOULDBLOCK is handed to the
    caller, no state change; the clock has advanced by the timeout -/
theorem cvm_receivePdu_block (c : Conn) (n : Net) (own : Nat) (t : Int) (rest : List TapeEv) (hs : c.state ≠ .shutdown)
    (h : n.tape = .block :: rest) :
    ∃ n', receivePdu c n own t = (.rc (-2), c, n') ∧ n'.tape = rest ∧ n'.now = (if t > 0 then n.now + t else n.now) ∧
      n'.sendQ = n.sendQ ∧ n'.openQ = n.openQ ∧ n'.threaded = n.threaded := by
  obtain ⟨n', r, h1, h2, h3, h4, h5⟩ := cvm_recvAll_block n 8 t rest (by decide) h
  refine ⟨n', ?_, h1, h2, h3, h4, h5⟩
  rw [receivePdu_eq, if_neg hs, r]
  simp only
  rw [if_pos (by decide)]
  unfold recvTransportError applyStop
  simp

/-- the socket in SYNC after the wait, as seen from the ESTABLISHED state `st`: the Serial Query has
    been sent at time `w`; session part, intervals, tables, version unchanged; the tape holds `rest` -/
structure CvmPolled (st st1 : St) (w : Int) (rest : List Nat) : Prop where
  state : st1.c.state = .sync
  ver : st1.c.version = st.c.version
  ss : st1.ss = st.ss
  tm : st1.tm = st.tm
  t : st1.t = st.t
  tape : CvTape st1.n rest
  now : st1.n.now = w
  send : NoFail st.n.sendQ → NoFail st1.n.sendQ

/-- what ESTABLISHED does once `rtr_wait_for_sync` has returned success in state `st2` -/
theorem cvm_after_wait (st st2 : St) (hw : waitForSync st = (true, st2)) (hs2 : st2.c.state = .established)
    (hq : NoFail st2.n.sendQ) :
    stepEstablished st = ({ st2 with n := (sendSerialQuery st2).2.n } : St).change .sync ∧
    CvNet 0 st2.n (sendSerialQuery st2).2.n := by
  have hs0 : st2.c.state ≠ .shutdown := by rw [hs2]; decide
  obtain ⟨e1, n1⟩ := cv_sendSerialQuery_ok st2 hs0 hq
  refine ⟨?_, n1⟩
  unfold stepEstablished
  rw [hw]
  simp only [if_true]
  rw [e1]
  simp only [if_true]

theorem cvm_polled_of (st st2 : St) (w : Int) (rest : List Nat) (hs : st.c.state = .established)
    (hw : waitForSync st = (true, st2)) (hc : st2.c.state = st.c.state) (hv : st2.c.version = st.c.version)
    (hss : st2.ss = st.ss) (htm : st2.tm = st.tm) (ht : st2.t = st.t) (htape : CvTape st2.n rest) (hnow : st2.n.now = w)
    (hsend : st2.n.sendQ = st.n.sendQ) (hq : NoFail st.n.sendQ) (fuel : Nat) :
    ∃ st1, fsmStep fuel st = some st1 ∧ CvmPolled st st1 w rest := by
  have hs2 : st2.c.state = .established := by rw [hc, hs]
  obtain ⟨e, n1⟩ := cvm_after_wait st st2 hw hs2 (by rw [hsend]; exact hq)
  have hs0 : ({ st2 with n := (sendSerialQuery st2).2.n } : St).c.state ≠ .shutdown := by
    show st2.c.state ≠ _; rw [hs2]; decide
  have cf := change_frame ({ st2 with n := (sendSerialQuery st2).2.n } : St) .sync
  have cn := change_rel cvNet0_emitRel ({ st2 with n := (sendSerialQuery st2).2.n } : St) .sync
  refine ⟨stepEstablished st, by rw [fsmStep_eq, hs], ?_⟩
  rw [e]
  refine ⟨change_state_eq _ _ hs0, by rw [cf.2.2.2.1]; exact hv, by rw [cf.1]; exact hss, by rw [cf.2.2.1]; exact htm,
    by rw [cf.2.1]; exact ht, cn.cvTape (n1.cvTape htape), ?_, fun _ => cn.noFail (n1.noFail (by rw [hsend]; exact hq))⟩
  rw [cf.2.2.2.2]
  show (sendSerialQuery st2).2.n.now = w
  rw [n1.now, hnow]; simp

/-- **(i) a Serial Notify arrives**: Serial Query, SYNC, no time passes.  (The model — like the C
    code in `rtr_wait_for_sync` — looks only at the PDU type, not at the session or serial of the
    notification.) -/
theorem cvm_established_notify (fuel : Nat) (st : St) (sess sn : Nat) (rest : List Nat) (hs : st.c.state = .established)
    (hq : NoFail st.n.sendQ) (ht : CvTape st.n (cvmSerialNotify st.c.version sess sn ++ rest)) :
    ∃ st1, fsmStep fuel st = some st1 ∧ CvmPolled st st1 st.n.now rest := by
  have hs0 : st.c.state ≠ .shutdown := by rw [hs]; decide
  obtain ⟨w, ty⟩ := cvm_serialNotify_wire st.c.version sess sn
  have hd : downgraded st.c (cvmSerialNotify st.c.version sess sn) = { st.c with hasReceived := true } :=
    cv_downgraded_same st.c _ w.ver
  obtain ⟨n1, r1, t1, s1⟩ := cv_receivePdu_complete st.c st.n st.t.own (waitTimeout st) _ rest hs0 ht w.len w.size w.max
    (Or.inl (by rw [hd]; exact w.ver))
  rw [hd] at r1
  have hw : waitForSync st = (true, { st with c := { st.c with hasReceived := true }, n := n1 }) := by
    rw [waitForSync_eq, r1]
    simp [ty]
  exact cvm_polled_of st _ st.n.now rest hs hw rfl rfl rfl rfl rfl t1 s1.now s1.sendQ hq fuel

/-- **(ii) the refresh timer expires** (the next event of the script is a timeout of the transport):
    Serial Query, SYNC, at the deadline `max now (last_update + refresh_interval)` -/
theorem cvm_established_timeout (fuel : Nat) (st : St) (tp : List TapeEv) (rest : List Nat) (hs : st.c.state = .established)
    (hq : NoFail st.n.sendQ) (htp : st.n.tape = .block :: tp) (hff : FaultFree tp) (hb : tapeBytes tp = rest) :
    ∃ st1, fsmStep fuel st = some st1 ∧ CvmPolled st st1 (cvmDeadline st) rest := by
  have hs0 : st.c.state ≠ .shutdown := by rw [hs]; decide
  obtain ⟨n1, r1, h1, h2, h3, _, _⟩ := cvm_receivePdu_block st.c st.n st.t.own (waitTimeout st) tp hs0 htp
  have hw : waitForSync st = (true, { st with c := st.c, n := n1 }) := by
    rw [waitForSync_eq, r1]
    simp
  refine cvm_polled_of st _ (cvmDeadline st) rest hs hw rfl rfl rfl rfl rfl ⟨by rw [h1]; exact hff, by rw [h1]; exact hb⟩ ?_ h3 hq fuel
  show n1.now = cvmDeadline st
  rw [h2]
  unfold waitTimeout cvmDeadline
  split <;> split <;> omega

/-- the state after the update, as seen from the ESTABLISHED state `st` -/
structure CvmUpdated (st st' : St) (ver serial : Nat) (iv : CvIvals) (items : List CvItem) (w : Int) (rest : List Nat) : Prop where
  state : st'.c.state = .established
  version : st'.c.version = ver
  tblok : TblOK st'.t
  ss : st'.ss = { session := st.ss.session, serial := serial, reqSession := false, lastUpdate := w, isResetting := false }
  tm : st'.tm = applyEodIntervals st.tm (cvEndOfData ver st.ss.session serial iv)
  now : st'.n.now = w
  tape : CvTape st'.n rest
  send : NoFail st.n.sendQ → NoFail st'.n.sendQ
  pt : ∀ x, x ∈ st'.t.pt ↔ ((true, x) ∈ cvPfxOps items ∨ (x ∈ st.t.pt ∧ (false, x) ∉ cvPfxOps items))
  kt : ∀ x, x ∈ st'.t.kt ↔ ((true, x) ∈ cvKeyOps items ∨ (x ∈ st.t.kt ∧ (false, x) ∉ cvKeyOps items))

/-- SYNC with the Serial Query sent → ESTABLISHED on the good incremental answer -/
theorem cvm_polled_update (fuel : Nat) (st st1 : St) (w : Int) (serial : Nat) (iv : CvIvals) (items : List CvItem)
    (rest : List Nat) (p : CvmPolled st st1 w (cvAnswer st.c.version st.ss.session serial iv items ++ rest))
    (hr : st.ss.reqSession = false) (hres : st.ss.isResetting = false) (hv : st.c.version ≤ 1)
    (ht : TblOK st.t) (hsess : st.ss.session < 65536) (hserial : serial < 4294967296) (hok : ∀ i ∈ items, i.OK)
    (hnp : ((cvPfxOps items).map Prod.snd).Nodup) (hnk : ((cvKeyOps items).map Prod.snd).Nodup)
    (hcp : ∀ op ∈ cvPfxOps items, (op.1 = true ↔ op.2 ∉ st.t.pt))
    (hck : ∀ op ∈ cvKeyOps items, (op.1 = true ↔ op.2 ∉ st.t.kt))
    (hfuel : items.length < fuel) :
    ∃ st', fsmStep fuel st1 = some st' ∧ CvmUpdated st st' st.c.version serial iv items w rest := by
  have hs1 : st1.c.state ≠ .shutdown := by rw [p.state]; decide
  obtain ⟨pt', kt', n', g, t', s', e, np, nk, mp, mk⟩ := cv_sync_serial fuel st1 st.c.version st.ss.session serial iv items rest
    hfuel hs1 (Or.inl p.ver.symm) hv (by rw [p.t]; exact ht) (by rw [p.ss]; exact hr) (by rw [p.ss]; exact hres)
    (by rw [p.ss]) hsess hok hnp hnk (by rw [p.t]; exact hcp) (by rw [p.t]; exact hck) p.tape
  have a : CvAtSync fuel st.c.version 0 0 st1 st1 := ⟨.nil _, p.state, CvMid.refl _, Or.inl p.ver.symm⟩
  obtain ⟨st', hrun, hdone, htbl⟩ := cv_finish fuel st.c.version 0 0 st1 st1 a st.ss.session serial iv pt' kt' n' (some g) rest
    hserial np nk t' s' e
  have hstep : fsmStep fuel st1 = some st' := by
    cases hrun with
    | cons h r => cases r; exact h
  refine ⟨st', hstep, ⟨hdone.state, hdone.version, hdone.tblok, ?_, ?_, ?_, hdone.tape, fun hq => hdone.send (p.send hq), ?_, ?_⟩⟩
  · rw [hdone.ss, p.now]; simp
  · rw [hdone.tm, p.tm]
  · rw [hdone.now, p.now]; simp
  · intro x; rw [htbl]; show x ∈ pt' ↔ _; rw [mp x, p.t]
  · intro x; rw [htbl]; show x ∈ kt' ↔ _; rw [mk x, p.t]

end Rtr.P
