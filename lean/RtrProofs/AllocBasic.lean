/-
  AllocBasic: the allocator oracle.  Counters over traces (requests, refusals, net live blocks),
  the three cases of a request (never refuses / refuses now / refuses later), lists of releases
  and absorbed requests.
-/
import RtrModel.Alloc

namespace Rtr
namespace Alloc

/-- number of refused requests in a trace -/
def refusals (t : List Ev) : Nat := (t.filter Ev.refused).length

/-- no release through libc `free` -/
def NoLibc (t : List Ev) : Prop := ∀ e ∈ t, ∀ b n, e ≠ .libcFree b n

@[simp] theorem net_nil : net [] = 0 := rfl
@[simp] theorem reqs_nil : reqs [] = 0 := rfl
@[simp] theorem refusals_nil : refusals [] = 0 := rfl

theorem net_append (s t : List Ev) : net (s ++ t) = net s + net t := by
  induction s with
  | nil => simp [net]
  | cons e s ih => simp only [List.cons_append, net, ih]; omega

@[simp] theorem net_snoc (s : List Ev) (e : Ev) : net (s ++ [e]) = net s + e.delta := by
  rw [net_append]; simp [net]

@[simp] theorem reqs_snoc (s : List Ev) (e : Ev) : reqs (s ++ [e]) = reqs s + (if e.isReq then 1 else 0) := by
  unfold reqs
  rw [List.filter_append, List.length_append]
  by_cases h : e.isReq <;> simp [h]

@[simp] theorem refusals_snoc (s : List Ev) (e : Ev) :
    refusals (s ++ [e]) = refusals s + (if e.refused then 1 else 0) := by
  unfold refusals
  rw [List.filter_append, List.length_append]
  by_cases h : e.refused <;> simp [h]

theorem noLibc_snoc {s : List Ev} {e : Ev} (h : NoLibc s) (he : ∀ b n, e ≠ .libcFree b n) : NoLibc (s ++ [e]) := by
  intro x hx
  rcases List.mem_append.mp hx with hx | hx
  · exact h x hx
  · simp at hx; subst hx; exact he

/-- the budget after `n` granted requests -/
def A.after (a : A) (n : Nat) : Option Nat := a.budget.map (· - n)

/-- the refusal falls among the next `n` requests -/
def A.hits (a : A) (n : Nat) : Prop := ∃ k, a.budget = some k ∧ k < n

instance (a : A) (n : Nat) : Decidable (a.hits n) := by
  unfold A.hits
  cases h : a.budget with
  | none => exact isFalse (by simp)
  | some k =>
    by_cases hk : k < n
    · exact isTrue ⟨k, rfl, hk⟩
    · exact isFalse (by rintro ⟨k', e, h'⟩; cases e; exact hk h')

theorem hits_zero (a : A) : ¬ a.hits 0 := by rintro ⟨k, _, h⟩; omega

theorem not_hits_none {a : A} (h : a.budget = none) (n : Nat) : ¬ a.hits n := by
  rintro ⟨k, e, _⟩; rw [h] at e; cases e

theorem after_zero (a : A) : a.after 0 = a.budget := by
  unfold A.after; cases a.budget <;> simp

/-! ### one request -/

theorem malloc_none {a : A} (h : a.budget = none) (b : Blk) (n : Nat) :
    a.malloc b n = (true, ⟨none, a.trace ++ [.malloc b n true]⟩) := by
  simp [A.malloc, A.take, h]

theorem malloc_zero {a : A} (h : a.budget = some 0) (b : Blk) (n : Nat) :
    a.malloc b n = (false, ⟨none, a.trace ++ [.malloc b n false]⟩) := by
  simp [A.malloc, A.take, h]

theorem malloc_succ {a : A} {k : Nat} (h : a.budget = some (k + 1)) (b : Blk) (n : Nat) :
    a.malloc b n = (true, ⟨some k, a.trace ++ [.malloc b n true]⟩) := by
  simp [A.malloc, A.take, h]

theorem realloc_none {a : A} (h : a.budget = none) (b : Blk) (o n : Nat) :
    a.realloc b o n = (true, ⟨none, a.trace ++ [.realloc b o n true]⟩) := by
  simp [A.realloc, A.take, h]

theorem realloc_zero {a : A} (h : a.budget = some 0) (b : Blk) (o n : Nat) :
    a.realloc b o n = (false, ⟨none, a.trace ++ [.realloc b o n false]⟩) := by
  simp [A.realloc, A.take, h]

theorem realloc_succ {a : A} {k : Nat} (h : a.budget = some (k + 1)) (b : Blk) (o n : Nat) :
    a.realloc b o n = (true, ⟨some k, a.trace ++ [.realloc b o n true]⟩) := by
  simp [A.realloc, A.take, h]

@[simp] theorem free_budget (a : A) (b : Blk) (n : Nat) : (a.free b n).budget = a.budget := rfl
@[simp] theorem free_trace (a : A) (b : Blk) (n : Nat) : (a.free b n).trace = a.trace ++ [.free b n] := rfl

@[simp] theorem freeIf_budget (a : A) (b : Blk) (n : Nat) : (a.freeIf b n).budget = a.budget := by
  unfold A.freeIf; split <;> rfl

theorem freeIf_net (a : A) (b : Blk) (n : Nat) :
    net (a.freeIf b n).trace = net a.trace - (if n = 0 then 0 else 1) := by
  unfold A.freeIf; split <;> simp [Ev.delta]; omega

@[simp] theorem freeIf_reqs (a : A) (b : Blk) (n : Nat) : reqs (a.freeIf b n).trace = reqs a.trace := by
  unfold A.freeIf; split <;> simp [Ev.isReq]

@[simp] theorem freeIf_refusals (a : A) (b : Blk) (n : Nat) : refusals (a.freeIf b n).trace = refusals a.trace := by
  unfold A.freeIf; split <;> simp [Ev.refused]

theorem freeIf_noLibc {a : A} (h : NoLibc a.trace) (b : Blk) (n : Nat) : NoLibc (a.freeIf b n).trace := by
  unfold A.freeIf; split
  · exact h
  · exact noLibc_snoc h (by intro _ _ e; cases e)

/-- what one request does to the oracle: the summary used everywhere below.
    `d` = the change of the number of live blocks when the request is granted -/
structure ReqOK (a : A) (q : Bool × A) (d : Int) : Prop where
  pass : ¬ a.hits 1 → q.1 = true ∧ q.2.budget = a.after 1 ∧ refusals q.2.trace = refusals a.trace ∧
          net q.2.trace = net a.trace + d
  hit : a.hits 1 → q.1 = false ∧ q.2.budget = none ∧ refusals q.2.trace = refusals a.trace + 1 ∧
          net q.2.trace = net a.trace
  reqs : Alloc.reqs q.2.trace = Alloc.reqs a.trace + 1
  nolibc : NoLibc a.trace → NoLibc q.2.trace

theorem hits_one_iff (a : A) : a.hits 1 ↔ a.budget = some 0 := by
  constructor
  · rintro ⟨k, e, h⟩; have : k = 0 := by omega
    subst this; exact e
  · intro h; exact ⟨0, h, by omega⟩

theorem malloc_ok (a : A) (b : Blk) (n : Nat) : ReqOK a (a.malloc b n) 1 := by
  cases hb : a.budget with
  | none =>
    rw [malloc_none hb]
    refine ⟨fun _ => ⟨rfl, by simp [A.after, hb], by simp [Ev.refused], by simp [Ev.delta]⟩,
      fun h => absurd h (not_hits_none hb 1), by simp [Ev.isReq], fun h => noLibc_snoc h (by intro _ _ e; cases e)⟩
  | some k =>
    cases k with
    | zero =>
      rw [malloc_zero hb]
      refine ⟨fun h => absurd ((hits_one_iff a).2 hb) h, fun _ => ⟨rfl, rfl, by simp [Ev.refused], by simp [Ev.delta]⟩,
        by simp [Ev.isReq], fun h => noLibc_snoc h (by intro _ _ e; cases e)⟩
    | succ k =>
      rw [malloc_succ hb]
      refine ⟨fun _ => ⟨rfl, by simp [A.after, hb], by simp [Ev.refused], by simp [Ev.delta]⟩, ?_,
        by simp [Ev.isReq], fun h => noLibc_snoc h (by intro _ _ e; cases e)⟩
      intro h; rw [hits_one_iff, hb] at h; cases h

theorem realloc_ok (a : A) (b : Blk) (o n : Nat) : ReqOK a (a.realloc b o n) (if o = 0 then 1 else 0) := by
  have hd : ∀ ok, (Ev.realloc b o n ok).delta = if o = 0 then (if ok then 1 else 0) else 0 := by
    intro ok; cases o <;> cases ok <;> simp [Ev.delta]
  cases hb : a.budget with
  | none =>
    rw [realloc_none hb]
    refine ⟨fun _ => ⟨rfl, by simp [A.after, hb], by simp [Ev.refused], by simp [hd]⟩,
      fun h => absurd h (not_hits_none hb 1), by simp [Ev.isReq], fun h => noLibc_snoc h (by intro _ _ e; cases e)⟩
  | some k =>
    cases k with
    | zero =>
      rw [realloc_zero hb]
      refine ⟨fun h => absurd ((hits_one_iff a).2 hb) h, fun _ => ⟨rfl, rfl, by simp [Ev.refused], by simp [hd]⟩,
        by simp [Ev.isReq], fun h => noLibc_snoc h (by intro _ _ e; cases e)⟩
    | succ k =>
      rw [realloc_succ hb]
      refine ⟨fun _ => ⟨rfl, by simp [A.after, hb], by simp [Ev.refused], by simp [hd]⟩, ?_,
        by simp [Ev.isReq], fun h => noLibc_snoc h (by intro _ _ e; cases e)⟩
      intro h; rw [hits_one_iff, hb] at h; cases h

/-! ### budget arithmetic -/

theorem after_after (a a' : A) (m n : Nat) (h : a'.budget = a.after m) : a'.after n = a.after (m + n) := by
  unfold A.after at *
  rw [h]
  cases a.budget <;> simp; omega

theorem hits_after {a a' : A} {m : Nat} (h : a'.budget = a.after m) (hm : ¬ a.hits m) (n : Nat) :
    a'.hits n ↔ a.hits (m + n) := by
  unfold A.hits A.after at *
  rw [h]
  cases hb : a.budget with
  | none => simp
  | some k =>
    have : ¬ k < m := fun hk => hm ⟨k, hb, hk⟩
    simp; omega

theorem hits_mono {a : A} {m n : Nat} (h : a.hits m) (hmn : m ≤ n) : a.hits n := by
  obtain ⟨k, e, hk⟩ := h; exact ⟨k, e, by omega⟩

theorem not_hits_of_none {a : A} (h : a.budget = none) (n : Nat) : ¬ a.hits n := not_hits_none h n

theorem after_none {a : A} (h : a.budget = none) (n : Nat) : a.after n = none := by simp [A.after, h]

/-! ### lists of releases and absorbed shrinking requests -/

def Act.isShrink : Act → Bool
  | .shrink .. => true
  | _ => false

/-- number of (absorbed) requests among the actions -/
def shrinks (l : List Act) : Nat := (l.filter Act.isShrink).length
/-- number of releases among the actions -/
def frees (l : List Act) : Nat := (l.filter fun x => !x.isShrink).length

@[simp] theorem shrinks_nil : shrinks [] = 0 := rfl
@[simp] theorem frees_nil : frees [] = 0 := rfl
theorem shrinks_append (s t : List Act) : shrinks (s ++ t) = shrinks s + shrinks t := by
  simp [shrinks, List.filter_append]
theorem frees_append (s t : List Act) : frees (s ++ t) = frees s + frees t := by
  simp [frees, List.filter_append]
@[simp] theorem shrinks_cons_free (b : Blk) (n : Nat) (l : List Act) : shrinks (.free b n :: l) = shrinks l := by
  simp [shrinks, Act.isShrink]
@[simp] theorem frees_cons_free (b : Blk) (n : Nat) (l : List Act) : frees (.free b n :: l) = frees l + 1 := by
  simp [frees, Act.isShrink]
@[simp] theorem shrinks_cons_shrink (b : Blk) (n : Nat) (l : List Act) : shrinks (.shrink b n :: l) = shrinks l + 1 := by
  simp [shrinks, List.filter_cons, Act.isShrink]
@[simp] theorem frees_cons_shrink (b : Blk) (n : Nat) (l : List Act) : frees (.shrink b n :: l) = frees l := by
  simp [frees, Act.isShrink]

theorem run_nil (a : A) : a.run [] = a := rfl
theorem run_cons (a : A) (x : Act) (l : List Act) : a.run (x :: l) = (a.act x).run l := rfl
theorem run_append (a : A) (s t : List Act) : a.run (s ++ t) = (a.run s).run t := by
  simp [A.run, List.foldl_append]

/-- running a list of releases and absorbed requests: budget, counters, net -/
structure RunOK (a a' : A) (l : List Act) : Prop where
  pass : ¬ a.hits (shrinks l) → a'.budget = a.after (shrinks l) ∧ refusals a'.trace = refusals a.trace
  hit : a.hits (shrinks l) → a'.budget = none ∧ refusals a'.trace = refusals a.trace + 1
  reqs : Alloc.reqs a'.trace = Alloc.reqs a.trace + shrinks l
  net : Alloc.net a'.trace = Alloc.net a.trace - frees l
  nolibc : NoLibc a.trace → NoLibc a'.trace

theorem run_ok (l : List Act) : ∀ a : A, RunOK a (a.run l) l := by
  induction l with
  | nil =>
    intro a
    exact ⟨fun _ => ⟨by simp [run_nil, after_zero], rfl⟩, fun h => absurd h (hits_zero a), by simp [run_nil],
      by simp [run_nil], fun h => h⟩
  | cons x l ih =>
    intro a
    rw [run_cons]
    cases x with
    | free b n =>
      have r := ih (a.free b n)
      have e : a.act (.free b n) = a.free b n := rfl
      rw [e]
      have hh : ∀ m, (a.free b n).hits m ↔ a.hits m := fun m => Iff.rfl
      have ha : ∀ m, (a.free b n).after m = a.after m := fun m => rfl
      refine ⟨fun h => ?_, fun h => ?_, ?_, ?_, fun h => ?_⟩
      · simp only [shrinks_cons_free] at h ⊢
        obtain ⟨h1, h2⟩ := r.pass (fun x => h ((hh _).1 x))
        exact ⟨by rw [h1, ha], by rw [h2]; simp [Ev.refused]⟩
      · simp only [shrinks_cons_free] at h ⊢
        obtain ⟨h1, h2⟩ := r.hit ((hh _).2 h)
        exact ⟨h1, by rw [h2]; simp [Ev.refused]⟩
      · rw [r.reqs]; simp [Ev.isReq]
      · rw [r.net]; simp [Ev.delta]; omega
      · exact r.nolibc (noLibc_snoc h (by intro _ _ e; cases e))
    | shrink b n =>
      have q := realloc_ok a b (n + 1) n
      have r := ih (a.realloc b (n + 1) n).2
      have hs : shrinks (.shrink b n :: l) = shrinks l + 1 := shrinks_cons_shrink b n l
      have hf : frees (.shrink b n :: l) = frees l := frees_cons_shrink b n l
      have e : a.act (.shrink b n) = (a.realloc b (n + 1) n).2 := rfl
      rw [e]
      by_cases h1 : a.hits 1
      · obtain ⟨_, hb, hr, hn⟩ := q.hit h1
        have nh : ¬ (a.realloc b (n + 1) n).2.hits (shrinks l) := not_hits_none hb _
        obtain ⟨p1, p2⟩ := r.pass nh
        refine ⟨fun h => ?_, fun _ => ⟨?_, by rw [p2, hr]⟩, ?_, ?_, fun h => r.nolibc (q.nolibc h)⟩
        · rw [hs] at h; exact absurd (hits_mono h1 (by omega)) h
        · rw [p1]; exact after_none hb _
        · rw [r.reqs, q.reqs, hs]; omega
        · rw [r.net, hn, hf]
      · obtain ⟨_, hb, hr, hn⟩ := q.pass h1
        have hh := hits_after hb h1 (shrinks l)
        refine ⟨fun h => ?_, fun h => ?_, ?_, ?_, fun h => r.nolibc (q.nolibc h)⟩
        · rw [hs] at h ⊢
          have nh : ¬ (a.realloc b (n + 1) n).2.hits (shrinks l) := by
            rw [hh]; rw [Nat.add_comm]; exact h
          obtain ⟨p1, p2⟩ := r.pass nh
          exact ⟨by rw [p1, after_after a _ 1 _ hb, Nat.add_comm], by rw [p2, hr]⟩
        · rw [hs] at h
          have yh : (a.realloc b (n + 1) n).2.hits (shrinks l) := by
            rw [hh]; rw [Nat.add_comm]; exact h
          obtain ⟨p1, p2⟩ := r.hit yh
          exact ⟨p1, by rw [p2, hr]⟩
        · rw [r.reqs, q.reqs, hs]; omega
        · rw [r.net, hn, hf]; simp

end Alloc
end Rtr
