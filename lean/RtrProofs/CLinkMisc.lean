/-
  CLinkMisc: small link theorems (translated C text = model) for the integer hash of the router-key table, the
  byte-order helpers and the interval-mode accessors.
-/
import RtrProofs.CLink
import RtrModel.Hashlin
import RtrModel.Intervals
import RtrModel.PduConv
import RtrProofs.CLinkIntervals
namespace Rtr.CLink
open Rtr Rtr.Gen

/-- `tommy_inthash_u32` as translated from tommyhash.h is the model's `inthashU32` -/
theorem tommy_inthash_u32_eq (k : BitVec 32) :
    C.tommy_inthash_u32 k = some (inthashU32 (UInt32.ofBitVec k)).toBitVec := by
  simp only [C.tommy_inthash_u32, inthashU32, Option.some.injEq]
  simp [UInt32.toBitVec_sub, UInt32.toBitVec_xor, UInt32.toBitVec_shiftLeft, UInt32.toBitVec_shiftRight]

theorem lrtr_convert_long_eq (tbo v : BitVec 32) :
    C.lrtr_convert_long tbo v = if tbo = 0#32 ∨ tbo = 1#32 then some (C.bswap32 v) else none := by
  unfold C.lrtr_convert_long
  by_cases h0 : tbo = 0#32
  · simp [h0]
  · by_cases h1 : tbo = 1#32
    · simp [h1]
    · simp [h0, h1]

theorem lrtr_convert_short_eq (tbo : BitVec 32) (v : BitVec 16) :
    C.lrtr_convert_short tbo v = if tbo = 0#32 ∨ tbo = 1#32 then some (C.bswap16 v) else none := by
  unfold C.lrtr_convert_short
  by_cases h0 : tbo = 0#32
  · simp [h0]
  · by_cases h1 : tbo = 1#32
    · simp [h1]
    · simp [h0, h1]

end Rtr.CLink

namespace Rtr.CLink
open Rtr Rtr.Gen Rtr.Intervals

theorem rtr_get_interval_mode_eq (s : C.S_rtr_socket) : C.rtr_get_interval_mode s = some (s.iv_mode, s) := by
  simp [C.rtr_get_interval_mode]

/-- `rtr_set_interval_mode` as translated: only the four declared modes are stored, nothing else changes -/
theorem rtr_set_interval_mode_eq (s : C.S_rtr_socket) (opt : BitVec 32) :
    C.rtr_set_interval_mode s opt =
      some { s with iv_mode := if opt = 0#32 ∨ opt = 1#32 ∨ opt = 2#32 ∨ opt = 3#32 then opt else s.iv_mode } := by
  unfold C.rtr_set_interval_mode
  by_cases h0 : opt = 0#32
  · simp [h0]
  · by_cases h1 : opt = 1#32
    · simp [h1]
    · by_cases h2 : opt = 2#32
      · simp [h2]
      · by_cases h3 : opt = 3#32
        · simp [h3]
        · simp [h0, h1, h2, h3]

theorem rtr_set_interval_mode_model (s : C.S_rtr_socket) (opt : BitVec 32) :
    ∃ s', C.rtr_set_interval_mode s opt = some s' ∧ sockOf s' = setIntervalMode (sockOf s) opt.toInt := by
  refine ⟨_, rtr_set_interval_mode_eq s opt, ?_⟩
  unfold setIntervalMode sockOf
  simp only [RTR_INTERVAL_MODE_IGNORE_ANY, RTR_INTERVAL_MODE_ACCEPT_ANY, RTR_INTERVAL_MODE_DEFAULT_MIN_MAX, RTR_INTERVAL_MODE_IGNORE_ON_FAILURE]
  have e0 : opt.toInt = 0 ↔ opt = 0#32 := int32_toInt_eq_iff opt 0 ⟨by decide, by decide⟩
  have e1 : opt.toInt = 1 ↔ opt = 1#32 := int32_toInt_eq_iff opt 1 ⟨by decide, by decide⟩
  have e2 : opt.toInt = 2 ↔ opt = 2#32 := int32_toInt_eq_iff opt 2 ⟨by decide, by decide⟩
  have e3 : opt.toInt = 3 ↔ opt = 3#32 := int32_toInt_eq_iff opt 3 ⟨by decide, by decide⟩
  simp only [e0, e1, e2, e3]
  split <;> simp_all

end Rtr.CLink
