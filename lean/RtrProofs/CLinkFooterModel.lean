/-
  CLinkFooterModel: the word-swap specification of CLinkFooter (to which the translated C text of
  `rtr_pdu_convert_footer_byte_order` is proved equal) IS the hand-written, statement-by-statement list model
  `Rtr.Conv.convFooter` (RtrModel/PduConv.lean) that tools/pduconvcheck.py runs against the compiled function and that the
  C14 theorems about byte-order conversion are stated over.  So for the body conversion the chain is
      C text → (translator) → generated Lean = word swaps (CLinkFooter) = Conv.convFooter (here),
  each `=` a theorem: `footer_C_eq_model` (fixed-layout types) and `footer_C_eq_model_ipv6`.
  The Error Report (a word whose position is read from the PDU): `footer_C_eq_model_error_to_network`, `footer_C_eq_model_error_to_host`.
-/
import RtrProofs.CLinkFooter
import RtrModel.PduConv
namespace Rtr.CLink.Footer
open Rtr Rtr.Gen Rtr.CLink

theorem revAt4_getD (buf : List Nat) (off x : Nat) (h : off + 4 ≤ buf.length) :
    (Conv.revAt buf off 4).getD x 0 = if off ≤ x ∧ x < off + 4 then buf.getD (off + (3 - (x - off))) 0 else buf.getD x 0 := by
  unfold Conv.revAt
  rw [if_pos h]
  simp only [List.getD_eq_getElem?_getD]
  by_cases h1 : x < off
  · rw [if_neg (by omega), List.append_assoc, List.getElem?_append_left (by simp; omega)]
    simp [List.getElem?_take, h1]
  · by_cases h2 : x < off + 4
    · rw [if_pos (by omega), List.append_assoc, List.getElem?_append_right (by simp; omega),
        List.getElem?_append_left (by simp; omega)]
      have hl : ((List.drop off buf).take 4).length = 4 := by simp; omega
      rw [List.getElem?_reverse (by simp; omega)]
      simp only [List.length_take, List.length_drop]
      rw [List.getElem?_take]
      have : min off buf.length = off := by omega
      have e4 : min 4 (buf.length - off) = 4 := by omega
      simp only [this, e4]
      rw [if_pos (by omega), List.getElem?_drop]
    · rw [if_neg (by omega), List.append_assoc, List.getElem?_append_right (by simp; omega),
        List.getElem?_append_right (by simp; omega)]
      simp only [List.length_take, List.length_reverse, List.length_drop]
      rw [List.getElem?_drop]
      congr 2
      omega

/-- byte `x` of memory after the word at `a` was swapped -/
theorem swapAt_apply (m : Mem) (a x : Nat) :
    swapAt m a x = if a ≤ x ∧ x < a + 4 then m (a + (3 - (x - a))) else m x := by
  unfold swapAt
  by_cases h : a ≤ x ∧ x < a + 4
  · rw [if_pos h]
    have e : C.bswap32 (C.load32 m a) = m a ++ m (a + 1) ++ m (a + 2) ++ m (a + 3) := by
      unfold C.load32; exact bswap32_append _ _ _ _
    rw [e]
    obtain ⟨j, rfl⟩ : ∃ j, x = a + j := ⟨x - a, by omega⟩
    have hj : j = 0 ∨ j = 1 ∨ j = 2 ∨ j = 3 := by omega
    unfold C.store32
    rcases hj with r | r | r | r <;> subst r
    · simp; rw [BitVec.extractLsb'_append_eq_of_add_le (by decide)]; simp
    · simp; rw [BitVec.extractLsb'_append_eq_of_le (by decide), BitVec.extractLsb'_append_eq_of_add_le (by decide)]; simp
    · simp; rw [BitVec.extractLsb'_append_eq_of_le (by decide), BitVec.extractLsb'_append_eq_of_le (by decide),
        BitVec.extractLsb'_append_eq_of_add_le (by decide)]; simp
    · simp; rw [BitVec.extractLsb'_append_eq_of_le (by decide), BitVec.extractLsb'_append_eq_of_le (by decide),
        BitVec.extractLsb'_append_eq_of_le (by decide)]; simp
  · rw [if_neg h]
    exact store32_other _ _ _ _ (by omega)

/-- the list model's field reversal is the memory model's word swap -/
theorem memOfList_revAt4 (buf : List Nat) (off : Nat) (h : off + 4 ≤ buf.length) :
    C.memOfList (Conv.revAt buf off 4) = swapAt (C.memOfList buf) off := by
  funext x
  rw [swapAt_apply]
  unfold C.memOfList
  rw [revAt4_getD buf off x h]
  split <;> rfl


theorem revAt_length (buf : List Nat) (off k : Nat) : (Conv.revAt buf off k).length = buf.length := by
  unfold Conv.revAt
  split
  · simp; omega
  · rfl

theorem memOfList_byte (raw : List Nat) (hb : Bytes raw) (i k : Nat) (hk : k < 256) :
    (C.memOfList raw i = BitVec.ofNat 8 k) ↔ raw.getD i 0 = k := by
  unfold C.memOfList
  have := getD_lt_of_bytes hb i
  rw [← BitVec.toNat_inj, BitVec.toNat_ofNat, BitVec.toNat_ofNat]
  omega

/-- **generated = hand-written model** for the body conversion, fixed-layout types and IPv6 Prefix: the statement-by-statement list model
    `Conv.convFooter` (which `pduconvcheck` runs against the compiled function) is the word-swap specification that the translated C
    text was proved equal to -/
theorem convFooter_eq_swapWords (dir : Conv.Dir) (raw : List Nat) (hb : Bytes raw) (h10 : P.typeOf raw ≠ 10)
    (hn : need (C.memOfList raw 1) (C.memOfList raw 0) ≤ raw.length) :
    C.memOfList (Conv.convFooter dir raw) = swapWords (C.memOfList raw) 0 (words (C.memOfList raw 1) (C.memOfList raw 0)) := by
  have ty (k : Nat) (hk : k < 256) : (C.memOfList raw 1 = BitVec.ofNat 8 k) ↔ P.typeOf raw = k := memOfList_byte raw hb 1 k hk
  have vr : (C.memOfList raw 0 = 1#8) ↔ P.verOf raw = 1 := memOfList_byte raw hb 0 1 (by decide)
  have k1 : Gen.offsetof_pdu_serial_query_sn = 8 := rfl
  have k2 : Gen.offsetof_pdu_serial_notify_sn = 8 := rfl
  have k3 : Gen.offsetof_pdu_end_of_data_v1_expire_interval = 20 := rfl
  have k4 : Gen.offsetof_pdu_end_of_data_v1_refresh_interval = 12 := rfl
  have k5 : Gen.offsetof_pdu_end_of_data_v1_retry_interval = 16 := rfl
  have k6 : Gen.offsetof_pdu_end_of_data_v1_sn = 8 := rfl
  have k7 : Gen.offsetof_pdu_end_of_data_v0_sn = 8 := rfl
  have k8 : Gen.offsetof_pdu_ipv4_prefix = 12 := rfl
  have k9 : Gen.offsetof_pdu_ipv4_asn = 16 := rfl
  have k10 : Gen.offsetof_pdu_ipv6_prefix = 12 := rfl
  have k11 : Gen.offsetof_pdu_ipv6_asn = 28 := rfl
  have k12 : Gen.offsetof_pdu_router_key_asn = 28 := rfl
  unfold Conv.convFooter
  simp only [k1, k2, k3, k4, k5, k6, k7, k8, k9, k10, k11, k12]
  split
  · rename_i h
    have t := (ty 1 (by decide)).2 h
    simp only [t, need, words] at hn ⊢
    simp at hn ⊢
    rw [memOfList_revAt4 _ _ (by omega)]
    simp [swapWords]
  · rename_i h
    exact absurd h h10
  · rename_i h
    have t := (ty 0 (by decide)).2 h
    simp only [t, need, words] at hn ⊢
    simp at hn ⊢
    rw [memOfList_revAt4 _ _ (by omega)]
    simp [swapWords]
  · rename_i h
    have t := (ty 7 (by decide)).2 h
    simp only [t, need, words] at hn ⊢
    by_cases hv : P.verOf raw = 1
    · have v := vr.2 hv
      simp only [v] at hn ⊢
      simp [hv] at hn ⊢
      rw [memOfList_revAt4 _ _ (by simp [revAt_length]; omega), memOfList_revAt4 _ _ (by simp [revAt_length]; omega),
        memOfList_revAt4 _ _ (by simp [revAt_length]; omega), memOfList_revAt4 _ _ (by omega)]
      simp [swapWords]
    · have v : ¬ C.memOfList raw 0 = 1#8 := fun q => hv (vr.1 q)
      simp only [v] at hn ⊢
      simp [hv] at hn ⊢
      rw [memOfList_revAt4 _ _ (by omega)]
      simp [swapWords]
  · rename_i h
    have t := (ty 4 (by decide)).2 h
    simp only [t, need, words] at hn ⊢
    simp at hn ⊢
    rw [memOfList_revAt4 _ _ (by simp [revAt_length]; omega), memOfList_revAt4 _ _ (by omega)]
    simp [swapWords]
  · rename_i h
    have t := (ty 6 (by decide)).2 h
    simp only [t, need, words] at hn ⊢
    simp at hn ⊢
    rw [memOfList_revAt4 _ _ (by simp [revAt_length]; omega), memOfList_revAt4 _ _ (by simp [revAt_length]; omega),
      memOfList_revAt4 _ _ (by simp [revAt_length]; omega), memOfList_revAt4 _ _ (by simp [revAt_length]; omega),
      memOfList_revAt4 _ _ (by omega)]
    simp [swapWords]
  · rename_i h
    have t := (ty 9 (by decide)).2 h
    simp only [t, need, words] at hn ⊢
    simp at hn ⊢
    rw [memOfList_revAt4 _ _ (by omega)]
    simp [swapWords]
  · rename_i n1 n10 n0 n7 n4 n6 n9
    have f (k : Nat) (hk : k < 256) (hne : ¬ P.typeOf raw = k) : ¬ C.memOfList raw 1 = BitVec.ofNat 8 k := fun q => hne ((ty k hk).1 q)
    have a0 := f 0 (by decide) n0; have a1 := f 1 (by decide) n1; have a4 := f 4 (by decide) n4
    have a6 := f 6 (by decide) n6; have a7 := f 7 (by decide) n7; have a9 := f 9 (by decide) n9

    simp [words, a0, a1, a4, a6, a7, a9, swapWords]

/-- the direction argument of the C function -/
def dirCode : Conv.Dir → BitVec 32
  | .toNetwork => 0#32
  | .toHost => 1#32

/-- **C text = hand-written model** (fixed-layout types): on a buffer that holds the fields of its type, the translated
    `rtr_pdu_convert_footer_byte_order` returns exactly the bytes of `Conv.convFooter` -/
theorem footer_C_eq_model (dir : Conv.Dir) (raw : List Nat) (hb : Bytes raw) (h2 : 2 ≤ raw.length)
    (h6 : P.typeOf raw ≠ 6) (h10 : P.typeOf raw ≠ 10) (hn : need (C.memOfList raw 1) (C.memOfList raw 0) ≤ raw.length) :
    C.rtr_pdu_convert_footer_byte_order (C.memOfList raw) raw.length 0 (dirCode dir) = some (C.memOfList (Conv.convFooter dir raw)) := by
  have a6 : C.memOfList raw (0 + 1) ≠ 6#8 := fun q => h6 ((memOfList_byte raw hb 1 6 (by decide)).1 (by simpa using q))
  have a10 : C.memOfList raw (0 + 1) ≠ 10#8 := fun q => h10 ((memOfList_byte raw hb 1 10 (by decide)).1 (by simpa using q))
  have hd : dirCode dir = 0#32 ∨ dirCode dir = 1#32 := by cases dir <;> simp [dirCode]
  rw [footer_fixed (C.memOfList raw) raw.length 0 (dirCode dir) hd (by omega) a6 a10]
  simp only [Nat.zero_add]
  rw [if_pos hn, convFooter_eq_swapWords dir raw hb h10 hn]

/-- IPv6 Prefix: the same, for every address below the stack pages (the C function converts through a local copy) -/
theorem footer_C_eq_model_ipv6 (dir : Conv.Dir) (raw : List Nat) (hb : Bytes raw) (h6 : P.typeOf raw = 6)
    (hn : 32 ≤ raw.length) (hs : raw.length ≤ C.STACK) :
    ∃ m', C.rtr_pdu_convert_footer_byte_order (C.memOfList raw) raw.length 0 (dirCode dir) = some m' ∧
      ∀ x, x < C.STACK → m' x = C.memOfList (Conv.convFooter dir raw) x := by
  have t : C.memOfList raw (0 + 1) = 6#8 := by simpa using (memOfList_byte raw hb 1 6 (by decide)).2 h6
  have hd : dirCode dir = 0#32 ∨ dirCode dir = 1#32 := by cases dir <;> simp [dirCode]
  have h := footer_ipv6 (C.memOfList raw) raw.length 0 (dirCode dir) hd (by omega) hs t
  rw [if_pos (by omega)] at h
  obtain ⟨m', e, hx⟩ := h
  refine ⟨m', e, fun x hlt => ?_⟩
  have t1 : C.memOfList raw 1 = 6#8 := by simpa using t
  have hn' : need (C.memOfList raw 1) (C.memOfList raw 0) ≤ raw.length := by simp [need, t1]; omega
  rw [hx x hlt, convFooter_eq_swapWords dir raw hb (by omega) hn']
  simp [words, t1]

end Rtr.CLink.Footer

namespace Rtr.CLink.Footer
open Rtr Rtr.Gen Rtr.CLink

/-! ## the Error Report -/

theorem load32_memOfList_toNat (raw : List Nat) (hb : Bytes raw) (a : Nat) :
    (C.load32 (C.memOfList raw) a).toNat = Conv.le32 raw a := by
  rw [load32_toNat]
  simp only [memOfList_toNat hb]
  unfold Conv.le32
  omega

theorem revAt_bytes (buf : List Nat) (hb : Bytes buf) (off k : Nat) : Bytes (Conv.revAt buf off k) := by
  unfold Conv.revAt
  split
  · intro x hx
    simp only [List.mem_append, List.mem_reverse] at hx
    rcases hx with (hx | hx) | hx
    · exact hb x (List.mem_of_mem_take hx)
    · exact hb x (List.mem_of_mem_drop (List.mem_of_mem_take hx))
    · exact hb x (List.mem_of_mem_drop hx)
  · exact hb

/-- **C text = hand-written model**, Error Report to network byte order -/
theorem footer_C_eq_model_error_to_network (raw : List Nat) (hb : Bytes raw) (h10 : P.typeOf raw = 10)
    (hn : 12 ≤ raw.length ∧ 12 + Conv.le32 raw 8 + 4 ≤ raw.length) :
    C.rtr_pdu_convert_footer_byte_order (C.memOfList raw) raw.length 0 0#32 = some (C.memOfList (Conv.convFooter .toNetwork raw)) := by
  have t : C.memOfList raw (0 + 1) = 10#8 := by simpa using (memOfList_byte raw hb 1 10 (by decide)).2 h10
  rw [footer_error_to_network (C.memOfList raw) raw.length 0 (by omega) t]
  simp only [Nat.zero_add]
  rw [load32_memOfList_toNat raw hb 8, if_pos hn]
  unfold Conv.convFooter
  have k1 : Gen.offsetof_pdu_error_len_enc_pdu = 8 := rfl
  have k2 : Gen.offsetof_pdu_error_rest = 12 := rfl
  simp only [h10, k1, k2]
  rw [memOfList_revAt4 _ _ (by rw [revAt_length]; omega), memOfList_revAt4 _ _ (by omega)]

/-- **C text = hand-written model**, Error Report to host byte order (the length is converted first and then locates the text-length word) -/
theorem footer_C_eq_model_error_to_host (raw : List Nat) (hb : Bytes raw) (h10 : P.typeOf raw = 10)
    (hn : 12 ≤ raw.length ∧ 12 + Conv.le32 (Conv.revAt raw 8 4) 8 + 4 ≤ raw.length) :
    C.rtr_pdu_convert_footer_byte_order (C.memOfList raw) raw.length 0 1#32 = some (C.memOfList (Conv.convFooter .toHost raw)) := by
  have t : C.memOfList raw (0 + 1) = 10#8 := by simpa using (memOfList_byte raw hb 1 10 (by decide)).2 h10
  have e : (C.bswap32 (C.load32 (C.memOfList raw) 8)).toNat = Conv.le32 (Conv.revAt raw 8 4) 8 := by
    rw [← load32_memOfList_toNat _ (revAt_bytes raw hb 8 4) 8, memOfList_revAt4 raw 8 (by omega)]
    unfold swapAt
    rw [load32_store32]
  rw [footer_error_to_host (C.memOfList raw) raw.length 0 (by omega) t]
  simp only [Nat.zero_add]
  rw [e, if_pos hn]
  unfold Conv.convFooter
  have k1 : Gen.offsetof_pdu_error_len_enc_pdu = 8 := rfl
  have k2 : Gen.offsetof_pdu_error_rest = 12 := rfl
  simp only [h10, k1, k2]
  rw [memOfList_revAt4 _ _ (by rw [revAt_length]; omega), memOfList_revAt4 _ _ (by omega)]

end Rtr.CLink.Footer

namespace Rtr.CLink.Footer
open Rtr Rtr.Gen Rtr.CLink
/-- the hypotheses of `footer_C_eq_model` are satisfiable: a 20-byte IPv4 Prefix PDU -/
example : let raw := [1, 4, 0, 0, 0, 0, 0, 20, 1, 24, 24, 0, 10, 0, 0, 0, 0, 0, 253, 233]
    Bytes raw ∧ 2 ≤ raw.length ∧ P.typeOf raw ≠ 6 ∧ P.typeOf raw ≠ 10 ∧ need (C.memOfList raw 1) (C.memOfList raw 0) ≤ raw.length := by
  refine ⟨?_, by decide, by decide, by decide, by decide⟩
  intro x hx
  simp only [List.mem_cons, List.not_mem_nil, or_false] at hx
  omega
end Rtr.CLink.Footer
