/-
  SpkiRefine: the router-key table (hash table + list) refines a finite set of
  (asn, ski, spki, src) records; effect of every operation of ht-spkitable.c on contents,
  return code and callback log.
-/
import RtrModel.Spki
import RtrProofs.HashlinOps

namespace Rtr
namespace SpkiTable

/-- representation invariant of `struct spki_table`: the hash table satisfies its own invariant,
    the list has no repetition, and hash table and list hold the same entries (every entry once,
    filed under the hash of its AS number) -/
structure SInv (T : SpkiTable) : Prop where
  ht : T.ht.Inv
  nodup : T.list.Nodup
  same : ∀ x : HNode SpkiRec, T.ht.mult x = if x.key = spkiHash x.data then T.list.count x.data else 0

/-! ### notify -/

@[simp] theorem notify_ht (T : SpkiTable) (a : Bool) (r : SpkiRec) : (T.notify a r).ht = T.ht := by
  unfold notify; split <;> rfl
@[simp] theorem notify_list (T : SpkiTable) (a : Bool) (r : SpkiRec) : (T.notify a r).list = T.list := by
  unfold notify; split <;> rfl
@[simp] theorem notify_hasCb (T : SpkiTable) (a : Bool) (r : SpkiRec) : (T.notify a r).hasCb = T.hasCb := by
  unfold notify; split <;> rfl
theorem notify_log (T : SpkiTable) (a : Bool) (r : SpkiRec) :
    (T.notify a r).log = T.log ++ (if T.hasCb then [(a, r)] else []) := by
  unfold notify; split <;> simp_all

theorem sinv_of_eq {T T' : SpkiTable} (iv : SInv T) (h1 : T'.ht = T.ht) (h2 : T'.list = T.list) : SInv T' :=
  ⟨h1 ▸ iv.ht, h2 ▸ iv.nodup, by rw [h1, h2]; exact iv.same⟩

theorem sinv_notify {T : SpkiTable} (iv : SInv T) (a : Bool) (r : SpkiRec) : SInv (T.notify a r) :=
  sinv_of_eq iv (notify_ht T a r) (notify_list T a r)

theorem sinv_init (cb : Bool) : SInv (init cb) := by
  refine ⟨Hashlin.init_inv, List.nodup_nil, fun x => ?_⟩
  have : ¬ 0 < (Hashlin.init : Hashlin SpkiRec).mult x := by
    rw [← Hashlin.mem_iff_mult_pos]; exact Hashlin.init_not_mem x
  show (Hashlin.init : Hashlin SpkiRec).mult x = _
  simp [init]; omega

/-! ### hash table and list hold the same entries -/

theorem mem_node {T : SpkiTable} (iv : SInv T) (x : HNode SpkiRec) :
    T.ht.Mem x ↔ x.key = spkiHash x.data ∧ x.data ∈ T.list := by
  rw [Hashlin.mem_iff_mult_pos, iv.same x]
  split
  · rw [List.count_pos_iff]; simp [*]
  · simp [*]

theorem search_iff {T : SpkiTable} (iv : SInv T) (r : SpkiRec) :
    (T.ht.search (cmp r) (spkiHash r)).isSome = true ↔ r ∈ T.list := by
  rw [Hashlin.search_isSome_iff iv.ht.toWf]
  constructor
  · rintro ⟨x, hm, _, hc⟩
    have := (mem_node iv x).mp hm
    simp [cmp] at hc
    rw [← hc]; exact this.2
  · intro hr
    exact ⟨⟨spkiHash r, r⟩, (mem_node iv _).mpr ⟨rfl, hr⟩, rfl, by simp [cmp]⟩

/-! ### add -/

theorem add_dup {T : SpkiTable} (iv : SInv T) (r : SpkiRec) (hr : r ∈ T.list) : T.add r = (T, .duplicate) := by
  have := (search_iff iv r).mpr hr
  simp [add, this]

theorem add_new {T : SpkiTable} (iv : SInv T) (r : SpkiRec) (hr : r ∉ T.list) :
    T.add r = (({ T with ht := T.ht.insert r (spkiHash r), list := T.list ++ [r] } : SpkiTable).notify true r,
      .success) := by
  have : ¬ (T.ht.search (cmp r) (spkiHash r)).isSome = true := fun h => hr ((search_iff iv r).mp h)
  simp [add, this]

theorem sinv_insert {T : SpkiTable} (iv : SInv T) (r : SpkiRec) (hr : r ∉ T.list) :
    SInv { T with ht := T.ht.insert r (spkiHash r), list := T.list ++ [r] } := by
  obtain ⟨i1, m1⟩ := Hashlin.insert_spec T.ht iv.ht r (spkiHash r)
  refine ⟨i1, ?_, fun x => ?_⟩
  · show (T.list ++ [r]).Nodup
    rw [List.nodup_append]
    refine ⟨iv.nodup, by simp, ?_⟩
    intro a ha b hb
    simp at hb; subst hb
    intro e; subst e; exact hr ha
  · show (T.ht.insert r (spkiHash r)).mult x = if x.key = spkiHash x.data then (T.list ++ [r]).count x.data else 0
    rw [m1 x, iv.same x, List.count_append, List.count_singleton]
    cases x with
    | mk k d =>
      by_cases hk : k = spkiHash d
      · by_cases hd : d = r
        · subst hd; subst hk; simp
        · have h1 : ¬ (r == d) = true := by simp; exact fun e => hd e.symm
          have h2 : (⟨k, d⟩ : HNode SpkiRec) ≠ ⟨spkiHash r, r⟩ := by
            intro e; injection e with _ e2; exact hd e2
          simp [hk, h1, hd]
      · have h2 : (⟨k, d⟩ : HNode SpkiRec) ≠ ⟨spkiHash r, r⟩ := by
          intro e; injection e with e1 e2; subst e2; exact hk e1
        simp [hk, h2]

/-- `spki_table_add_entry` on a record not yet stored -/
theorem add_new_spec {T : SpkiTable} (iv : SInv T) (r : SpkiRec) (hr : r ∉ T.list) :
    (T.add r).2 = .success ∧ SInv (T.add r).1 ∧ (T.add r).1.list = T.list ++ [r] ∧
    (T.add r).1.hasCb = T.hasCb ∧
    (T.add r).1.log = T.log ++ (if T.hasCb then [(true, r)] else []) := by
  rw [add_new iv r hr]
  refine ⟨rfl, sinv_notify (sinv_insert iv r hr) _ _, by simp, by simp, ?_⟩
  rw [notify_log]

/-! ### remove -/

theorem remove_absent {T : SpkiTable} (iv : SInv T) (r : SpkiRec) (hr : r ∉ T.list) :
    T.remove r = (T, .notFound) := by
  have : ¬ (T.ht.search (cmp r) (spkiHash r)).isSome = true := fun h => hr ((search_iff iv r).mp h)
  have : (T.ht.search (cmp r) (spkiHash r)).isNone = true := by
    cases h : T.ht.search (cmp r) (spkiHash r) <;> simp_all
  simp [remove, this]

theorem sinv_erase {T : SpkiTable} (iv : SInv T) (r : SpkiRec) (ht' : Hashlin SpkiRec) (hi : ht'.Inv)
    (hm : ∀ x, ht'.mult x = T.ht.mult x - if x = ⟨spkiHash r, r⟩ then 1 else 0) :
    SInv { T with ht := ht', list := T.list.erase r } := by
  refine ⟨hi, iv.nodup.erase r, fun x => ?_⟩
  show ht'.mult x = if x.key = spkiHash x.data then (T.list.erase r).count x.data else 0
  rw [hm x, iv.same x, List.count_erase]
  cases x with
  | mk k d =>
    by_cases hk : k = spkiHash d
    · by_cases hd : d = r
      · subst hd; subst hk; simp
      · have h1 : ¬ (r == d) = true := by simp; exact fun e => hd e.symm
        have h2 : (⟨k, d⟩ : HNode SpkiRec) ≠ ⟨spkiHash r, r⟩ := by
          intro e; injection e with _ e2; exact hd e2
        simp [hk, h1, hd]
    · have h2 : (⟨k, d⟩ : HNode SpkiRec) ≠ ⟨spkiHash r, r⟩ := by
        intro e; injection e with e1 e2; subst e2; exact hk e1
      simp [hk, h2]

/-- `spki_table_remove_entry` on a stored record -/
theorem remove_present_spec {T : SpkiTable} (iv : SInv T) (r : SpkiRec) (hr : r ∈ T.list) :
    (T.remove r).2 = .success ∧ SInv (T.remove r).1 ∧ (T.remove r).1.list = T.list.erase r ∧
    (T.remove r).1.hasCb = T.hasCb ∧
    (T.remove r).1.log = T.log ++ (if T.hasCb then [(false, r)] else []) := by
  have hs := (search_iff iv r).mpr hr
  obtain ⟨d, h2, hc, _, hi, hm⟩ := Hashlin.remove_some iv.ht (cmp r) (spkiHash r) hs
  have hd : d = r := by simpa [cmp] using hc
  subst hd
  have hnone : ¬ (T.ht.search (cmp d) (spkiHash d)).isNone = true := by
    cases h : T.ht.search (cmp d) (spkiHash d) <;> simp_all
  have e : T.remove d = (({ T with ht := (T.ht.remove (cmp d) (spkiHash d)).1, list := T.list.erase d } : SpkiTable).notify false d,
      .success) := by
    unfold remove
    simp only [hnone]
    rcases hrm : T.ht.remove (cmp d) (spkiHash d) with ⟨ht', o⟩
    rw [hrm] at h2
    simp only at h2
    subst h2
    rfl
  rw [e]
  refine ⟨rfl, sinv_notify (sinv_erase iv d _ hi hm) _ _, by simp, by simp, ?_⟩
  rw [notify_log]

/-- the hash table's `count` is the length of the list -/
theorem ht_count_eq_length (T : SpkiTable) (iv : SInv T) : T.ht.count = T.list.length := by
  suffices ∀ n (T : SpkiTable), SInv T → T.list.length = n → T.ht.count = n from this _ T iv rfl
  intro n
  induction n with
  | zero =>
    intro T iv hl
    have hnil : T.list = [] := List.eq_nil_of_length_eq_zero hl
    have hempty : ∀ i, i < T.ht.valid → T.ht.bucket i = [] := by
      intro i hi
      cases hb : T.ht.bucket i with
      | nil => rfl
      | cons a l =>
        have : T.ht.Mem a := ⟨i, hi, by rw [hb]; simp⟩
        have := (mem_node iv a).mp this
        rw [hnil] at this; simp at this
    rw [iv.ht.count_eq]
    generalize T.ht.valid = v at hempty
    induction v with
    | zero => rfl
    | succ v ih =>
      simp only [sumB]
      rw [ih (fun i hi => hempty i (by omega)), hempty v (by omega)]; rfl
  | succ n ih =>
    intro T iv hl
    cases hlist : T.list with
    | nil => rw [hlist] at hl; simp at hl
    | cons e rest =>
      have hin : e ∈ T.list := by rw [hlist]; simp
      have hmem : T.ht.Mem (spkiNode e) := (mem_node iv _).mpr ⟨rfl, hin⟩
      obtain ⟨hi, hm⟩ := Hashlin.removeExisting_spec iv.ht (spkiNode e) hmem
      obtain ⟨_, hc⟩ := Hashlin.removeExisting_count iv.ht (spkiNode e) hmem
      have iv1 := sinv_erase iv e _ hi hm
      have := ih _ iv1 (by
        show (T.list.erase e).length = n
        rw [List.length_erase_of_mem hin]; omega)
      have e1 : ({ T with ht := T.ht.removeExisting (spkiNode e), list := T.list.erase e } : SpkiTable).ht.count =
          (T.ht.removeExisting (spkiNode e)).count := rfl
      rw [e1] at this
      omega

/-! ### remove by source -/

/-- the loop of `spki_table_src_remove` over a repetition-free list `L` of stored entries -/
theorem srcRemoveLoop_spec (src : Nat) (L : List SpkiRec) (T : SpkiTable) (iv : SInv T) (hL : L.Nodup)
    (hsub : ∀ e, e ∈ L → e ∈ T.list) :
    SInv (srcRemoveLoop src L T) ∧
    (∀ x, x ∈ (srcRemoveLoop src L T).list ↔ x ∈ T.list ∧ ¬ (x ∈ L ∧ x.src = src)) ∧
    (srcRemoveLoop src L T).hasCb = T.hasCb ∧
    (srcRemoveLoop src L T).log =
      T.log ++ (if T.hasCb then (L.filter fun e => e.src == src).map (fun e => (false, e)) else []) := by
  induction L generalizing T with
  | nil => simp [srcRemoveLoop, iv]
  | cons e rest ih =>
    obtain ⟨he, hrest⟩ := List.nodup_cons.mp hL
    by_cases hs : e.src = src
    · have hin : e ∈ T.list := hsub e (by simp)
      have hmem : T.ht.Mem (spkiNode e) := (mem_node iv _).mpr ⟨rfl, hin⟩
      obtain ⟨hi, hm⟩ := Hashlin.removeExisting_spec iv.ht (spkiNode e) hmem
      let T1 : SpkiTable := { T with list := T.list.erase e, ht := T.ht.removeExisting (spkiNode e) }
      have iv1 : SInv (T1.notify false e) := sinv_notify (sinv_erase iv e _ hi hm) _ _
      have e1 : srcRemoveLoop src (e :: rest) T = srcRemoveLoop src rest (T1.notify false e) := by
        simp [srcRemoveLoop, hs, T1]
      rw [e1]
      have hsub1 : ∀ x, x ∈ rest → x ∈ (T1.notify false e).list := by
        intro x hx
        rw [notify_list]
        show x ∈ T.list.erase e
        have hne : x ≠ e := fun h => he (h ▸ hx)
        rw [List.mem_erase_of_ne hne]; exact hsub x (by simp [hx])
      obtain ⟨a, b, c, d⟩ := ih (T1.notify false e) iv1 hrest hsub1
      refine ⟨a, ?_, by rw [c]; simp [T1], ?_⟩
      · intro x
        rw [b x, notify_list]
        show x ∈ T.list.erase e ∧ _ ↔ _
        rw [iv.nodup.mem_erase_iff]
        constructor
        · rintro ⟨⟨hne, hx⟩, hn⟩
          refine ⟨hx, ?_⟩
          rintro ⟨hxl, hxs⟩
          rcases List.mem_cons.mp hxl with h | h
          · exact hne h
          · exact hn ⟨h, hxs⟩
        · rintro ⟨hx, hn⟩
          refine ⟨⟨?_, hx⟩, fun ⟨h1, h2⟩ => hn ⟨by simp [h1], h2⟩⟩
          intro h; subst h; exact hn ⟨by simp, hs⟩
      · rw [d, notify_log, notify_hasCb]
        show T.log ++ _ ++ _ = _
        cases T.hasCb <;> simp [hs]
    · have e1 : srcRemoveLoop src (e :: rest) T = srcRemoveLoop src rest T := by
        simp [srcRemoveLoop, hs]
      rw [e1]
      obtain ⟨a, b, c, d⟩ := ih T iv hrest (fun x hx => hsub x (by simp [hx]))
      refine ⟨a, ?_, c, ?_⟩
      · intro x
        rw [b x]
        constructor
        · rintro ⟨hx, hn⟩
          refine ⟨hx, ?_⟩
          rintro ⟨hxl, hxs⟩
          rcases List.mem_cons.mp hxl with h | h
          · subst h; exact hs hxs
          · exact hn ⟨h, hxs⟩
        · rintro ⟨hx, hn⟩
          exact ⟨hx, fun ⟨h1, h2⟩ => hn ⟨by simp [h1], h2⟩⟩
      · rw [d]
        have : (e.src == src) = false := by simpa using hs
        simp [this]

/-- `spki_table_src_remove` -/
theorem srcRemove_spec {T : SpkiTable} (iv : SInv T) (src : Nat) :
    (T.srcRemove src).2 = .success ∧ SInv (T.srcRemove src).1 ∧
    (∀ x, x ∈ (T.srcRemove src).1.list ↔ x ∈ T.list ∧ x.src ≠ src) ∧
    (T.srcRemove src).1.hasCb = T.hasCb ∧
    (T.srcRemove src).1.log =
      T.log ++ (if T.hasCb then (T.list.filter fun e => e.src == src).map (fun e => (false, e)) else []) := by
  obtain ⟨a, b, c, d⟩ := srcRemoveLoop_spec src T.list T iv iv.nodup (fun _ h => h)
  refine ⟨rfl, a, ?_, c, d⟩
  intro x
  show x ∈ (srcRemoveLoop src T.list T).list ↔ _
  rw [b x]
  constructor
  · rintro ⟨hx, hn⟩; exact ⟨hx, fun h => hn ⟨hx, h⟩⟩
  · rintro ⟨hx, hn⟩; exact ⟨hx, fun h => hn h.2⟩

/-! ### lookups -/

theorem sumB_single {β : Type} (f : List β → Nat) (b : Nat → List β) (n j : Nat) (hj : j < n)
    (hz : ∀ i, i < n → i ≠ j → f (b i) = 0) : sumB f b n = f (b j) := by
  induction n with
  | zero => omega
  | succ n ih =>
    simp only [sumB]
    by_cases hjn : j = n
    · subst hjn
      have : sumB f b j = 0 := by
        clear ih
        have : ∀ m, m ≤ j → sumB f b m = 0 := by
          intro m hm
          induction m with
          | zero => rfl
          | succ m ihm =>
            simp only [sumB]
            rw [ihm (by omega), hz m (by omega) (by omega)]
        exact this j (Nat.le_refl _)
      omega
    · rw [ih (by omega) (fun i hi hne => hz i (by omega) hne), hz n (by omega) (fun h => hjn h.symm)]
      omega

/-- the multiplicity of a node is its multiplicity in the bucket of its key -/
theorem mult_eq_count_bucket {h : Hashlin SpkiRec} (w : h.Wf) (x : HNode SpkiRec) :
    h.mult x = (h.bucketOf x.key).count x := by
  unfold Hashlin.mult Hashlin.bucketOf
  rw [Hashlin.bucketPos_eq_index w.num]
  apply sumB_single _ _ _ _ (Hashlin.index_lt_valid w.num x.key)
  intro i hi hne
  rw [List.count_eq_zero]
  intro hx
  exact hne (w.filed i hi x hx).symm

theorem count_map_data (l : List (HNode SpkiRec)) (hl : ∀ n, n ∈ l → n = spkiNode n.data) (x : SpkiRec) :
    (l.map (·.data)).count x = l.count (spkiNode x) := by
  induction l with
  | nil => rfl
  | cons a l ih =>
    rw [List.map_cons, List.count_cons, List.count_cons, ih (fun n hn => hl n (by simp [hn]))]
    have ha := hl a (by simp)
    congr 1
    by_cases hx : a.data = x
    · subst hx; rw [← ha]; simp
    · have : a ≠ spkiNode x := by
        intro e; rw [e] at hx; exact hx rfl
      simp [hx, this]

/-- `spki_table_get_all` returns exactly the stored keys with that AS number and SKI, each once -/
theorem getAll_count {T : SpkiTable} (iv : SInv T) (asn ski : Nat) (x : SpkiRec) :
    (T.getAll asn ski).count x = if x.asn = asn ∧ x.ski = ski then T.list.count x else 0 := by
  have w := iv.ht.toWf
  unfold getAll
  have hnodes : ∀ n, n ∈ (T.ht.bucketOf (inthash asn)).filter (fun n => n.data.asn == asn && n.data.ski == ski) →
      n = spkiNode n.data := by
    intro n hn
    have hn1 := (List.mem_filter.mp hn).1
    have hmem : T.ht.Mem n := by
      refine ⟨_, ?_, hn1⟩
      rw [Hashlin.bucketPos_eq_index w.num]; exact Hashlin.index_lt_valid w.num _
    have := ((mem_node iv n).mp hmem).1
    cases n; simp_all [spkiNode]
  rw [count_map_data _ hnodes]
  by_cases hp : x.asn = asn ∧ x.ski = ski
  · have hp' : (fun n : HNode SpkiRec => n.data.asn == asn && n.data.ski == ski) (spkiNode x) = true := by
      simp [spkiNode, hp.1, hp.2]
    rw [List.count_filter (p := fun n : HNode SpkiRec => n.data.asn == asn && n.data.ski == ski) hp', if_pos hp]
    have h1 := mult_eq_count_bucket w (spkiNode x)
    have h2 := iv.same (spkiNode x)
    have hk : (spkiNode x).key = inthash asn := by simp [spkiNode, spkiHash, hp.1]
    rw [hk] at h1
    rw [← h1, h2]
    simp [spkiNode]
  · rw [if_neg hp, List.count_eq_zero]
    intro hx
    have := (List.mem_filter.mp hx).2
    simp [spkiNode] at this
    exact hp this

/-- `spki_table_search_by_ski` returns exactly the stored keys with that SKI, each once -/
theorem searchBySki_count (T : SpkiTable) (ski : Nat) (x : SpkiRec) :
    (T.searchBySki ski).count x = if x.ski = ski then T.list.count x else 0 := by
  unfold searchBySki
  by_cases hp : x.ski = ski
  · rw [if_pos hp, List.count_filter (by simp [hp])]
  · rw [if_neg hp, List.count_eq_zero]
    intro hx
    have := (List.mem_filter.mp hx).2
    simp at this; exact hp this

/-! ### copy, swap -/

/-- the loop of `spki_table_copy_except_socket` over a repetition-free source list -/
theorem copyLoop_spec (src : Nat) (L : List SpkiRec) (D : SpkiTable) (iv : SInv D) (hL : L.Nodup) :
    SInv (copyLoop src L D).1 ∧ (copyLoop src L D).1.hasCb = D.hasCb ∧
    (D.hasCb = false → (copyLoop src L D).1.log = D.log) ∧
    (∀ x, x ∈ D.list → x ∈ (copyLoop src L D).1.list) ∧
    (∀ x, x ∈ (copyLoop src L D).1.list → x ∈ D.list ∨ (x ∈ L ∧ x.src ≠ src)) ∧
    (((copyLoop src L D).2 = .success ∧ (∀ x, x ∈ L → x.src ≠ src → x ∉ D.list) ∧
        (copyLoop src L D).1.list = D.list ++ L.filter (fun e => e.src != src)) ∨
     ((copyLoop src L D).2 = .error ∧ ∃ x, x ∈ L ∧ x.src ≠ src ∧ x ∈ D.list)) := by
  induction L generalizing D with
  | nil =>
    rw [show copyLoop src [] D = (D, .success) from rfl]
    exact ⟨iv, rfl, fun _ => rfl, fun _ h => h, fun _ h => Or.inl h, Or.inl ⟨rfl, by simp, by simp⟩⟩
  | cons e rest ih =>
    obtain ⟨he, hrest⟩ := List.nodup_cons.mp hL
    by_cases hs : e.src = src
    · have e1 : copyLoop src (e :: rest) D = copyLoop src rest D := by
        simp [copyLoop, hs]
      rw [e1]
      obtain ⟨a, b, c, d, f, g⟩ := ih D iv hrest
      refine ⟨a, b, c, d, ?_, ?_⟩
      · intro x hx
        rcases f x hx with h | h
        · exact Or.inl h
        · exact Or.inr ⟨by simp [h.1], h.2⟩
      · rcases g with ⟨g1, g2, g3⟩ | ⟨g1, x, hx, hxs, hxd⟩
        · refine Or.inl ⟨g1, ?_, ?_⟩
          · intro x hx hxs
            rcases List.mem_cons.mp hx with h | h
            · subst h; exact absurd hs hxs
            · exact g2 x h hxs
          · rw [g3]
            have : (e.src != src) = false := by simp [hs]
            simp [this]
        · exact Or.inr ⟨g1, x, by simp [hx], hxs, hxd⟩
    · have hsb : (e.src != src) = true := by simpa using hs
      by_cases hin : e ∈ D.list
      · have e1 : copyLoop src (e :: rest) D = (D, .error) := by
          simp only [copyLoop, hsb, if_true, add_dup iv e hin]
        rw [e1]
        exact ⟨iv, rfl, fun _ => rfl, fun _ h => h, fun _ h => Or.inl h,
          Or.inr ⟨rfl, e, by simp, hs, hin⟩⟩
      · obtain ⟨a1, a2, a3, a4, a5⟩ := add_new_spec iv e hin
        have e1 : copyLoop src (e :: rest) D = copyLoop src rest (D.add e).1 := by
          simp only [copyLoop, hsb, if_true]
          rcases hadd : D.add e with ⟨D', rc⟩
          rw [hadd] at a1
          simp only at a1
          subst a1
          rfl
        rw [e1]
        obtain ⟨a, b, c, d, f, g⟩ := ih (D.add e).1 a2 hrest
        refine ⟨a, by rw [b, a4], ?_, ?_, ?_, ?_⟩
        · intro hcb
          rw [c (by rw [a4]; exact hcb), a5, hcb]; simp
        · intro x hx
          exact d x (by rw [a3]; simp [hx])
        · intro x hx
          rcases f x hx with h | h
          · rw [a3] at h
            rcases List.mem_append.mp h with h | h
            · exact Or.inl h
            · simp at h; subst h; exact Or.inr ⟨by simp, hs⟩
          · exact Or.inr ⟨by simp [h.1], h.2⟩
        · rcases g with ⟨g1, g2, g3⟩ | ⟨g1, x, hx, hxs, hxd⟩
          · refine Or.inl ⟨g1, ?_, ?_⟩
            · intro x hx hxs
              rcases List.mem_cons.mp hx with h | h
              · subst h; exact hin
              · intro hxd
                exact g2 x h hxs (by rw [a3]; simp [hxd])
            · rw [g3, a3]
              simp [hsb]
          · refine Or.inr ⟨g1, x, by simp [hx], hxs, ?_⟩
            rw [a3] at hxd
            rcases List.mem_append.mp hxd with h | h
            · exact h
            · simp at h; subst h; exact absurd hx he

theorem sinv_swap {A B : SpkiTable} (ia : SInv A) (ib : SInv B) :
    SInv (swap A B).1 ∧ SInv (swap A B).2 :=
  ⟨⟨ib.ht, ib.nodup, ib.same⟩, ⟨ia.ht, ia.nodup, ia.same⟩⟩

/-! ### notify_diff -/

/-- first loop of `spki_table_notify_diff` over a repetition-free list `L` (the list of `new`) -/
theorem diffLoop_spec (src : Nat) (L : List SpkiRec) (N O : SpkiTable) (io : SInv O) (hL : L.Nodup)
    (hcb : O.hasCb = false) :
    SInv (diffLoop src L (N, O)).2 ∧ (diffLoop src L (N, O)).2.hasCb = false ∧
    (diffLoop src L (N, O)).2.log = O.log ∧
    (∀ x, x ∈ (diffLoop src L (N, O)).2.list ↔ x ∈ O.list ∧ ¬ (x ∈ L ∧ x.src = src)) ∧
    (diffLoop src L (N, O)).1.ht = N.ht ∧ (diffLoop src L (N, O)).1.list = N.list ∧
    (diffLoop src L (N, O)).1.hasCb = N.hasCb ∧
    (diffLoop src L (N, O)).1.log = N.log ++
      (if N.hasCb then (L.filter fun e => e.src == src && decide (e ∉ O.list)).map (fun e => (true, e)) else []) := by
  induction L generalizing N O with
  | nil => simp [diffLoop, io, hcb]
  | cons e rest ih =>
    obtain ⟨he, hrest⟩ := List.nodup_cons.mp hL
    by_cases hs : e.src = src
    · have hsb : (e.src == src) = true := by simpa using hs
      by_cases hin : e ∈ O.list
      · obtain ⟨r1, r2, r3, r4, r5⟩ := remove_present_spec io e hin
        have e1 : diffLoop src (e :: rest) (N, O) = diffLoop src rest (N, (O.remove e).1) := by
          simp only [diffLoop, hsb, if_true]
          rcases hrm : O.remove e with ⟨O', rc⟩
          rw [hrm] at r1
          simp only at r1
          subst r1
          rfl
        rw [e1]
        have hcb' : (O.remove e).1.hasCb = false := by rw [r4, hcb]
        obtain ⟨a, b, c, d, f, g, h, k⟩ := ih N (O.remove e).1 r2 hrest hcb'
        refine ⟨a, b, by rw [c, r5, hcb]; simp, ?_, f, g, h, ?_⟩
        · intro x
          rw [d x, r3, io.nodup.mem_erase_iff]
          constructor
          · rintro ⟨⟨hne, hx⟩, hn⟩
            refine ⟨hx, ?_⟩
            rintro ⟨hxl, hxs⟩
            rcases List.mem_cons.mp hxl with h' | h'
            · exact hne h'
            · exact hn ⟨h', hxs⟩
          · rintro ⟨hx, hn⟩
            refine ⟨⟨?_, hx⟩, fun ⟨h1, h2⟩ => hn ⟨by simp [h1], h2⟩⟩
            intro h'; subst h'; exact hn ⟨by simp, hs⟩
        · rw [k]
          congr 1
          cases N.hasCb
          · rfl
          · simp only [if_true]
            congr 1
            have hdec : (e.src == src && decide (e ∉ O.list)) = false := by simp [hin]
            rw [List.filter_cons, hdec]
            simp only [Bool.false_eq_true, if_false]
            apply List.filter_congr
            intro x hx
            have hne : x ≠ e := fun h' => he (h' ▸ hx)
            rw [r3]
            simp [io.nodup.mem_erase_iff, hne]
      · have hrm := remove_absent io e hin
        have e1 : diffLoop src (e :: rest) (N, O) = diffLoop src rest (N.notify true e, O) := by
          simp only [diffLoop, hsb, if_true, hrm]
          rfl
        rw [e1]
        obtain ⟨a, b, c, d, f, g, h, k⟩ := ih (N.notify true e) O io hrest hcb
        refine ⟨a, b, c, ?_, by rw [f]; simp, by rw [g]; simp, by rw [h]; simp, ?_⟩
        · intro x
          rw [d x]
          constructor
          · rintro ⟨hx, hn⟩
            refine ⟨hx, ?_⟩
            rintro ⟨hxl, hxs⟩
            rcases List.mem_cons.mp hxl with h' | h'
            · subst h'; exact hin hx
            · exact hn ⟨h', hxs⟩
          · rintro ⟨hx, hn⟩
            exact ⟨hx, fun ⟨h1, h2⟩ => hn ⟨by simp [h1], h2⟩⟩
        · rw [k, notify_log, notify_hasCb]
          have hdec : (e.src == src && decide (e ∉ O.list)) = true := by simp [hs, hin]
          rw [List.filter_cons, hdec]
          cases N.hasCb <;> simp
    · have hsb : (e.src == src) = false := by simpa using hs
      have e1 : diffLoop src (e :: rest) (N, O) = diffLoop src rest (N, O) := by
        simp [diffLoop, hsb]
      rw [e1]
      obtain ⟨a, b, c, d, f, g, h, k⟩ := ih N O io hrest hcb
      refine ⟨a, b, c, ?_, f, g, h, ?_⟩
      · intro x
        rw [d x]
        constructor
        · rintro ⟨hx, hn⟩
          refine ⟨hx, ?_⟩
          rintro ⟨hxl, hxs⟩
          rcases List.mem_cons.mp hxl with h' | h'
          · subst h'; exact hs hxs
          · exact hn ⟨h', hxs⟩
        · rintro ⟨hx, hn⟩
          exact ⟨hx, fun ⟨h1, h2⟩ => hn ⟨by simp [h1], h2⟩⟩
      · rw [k]
        have hdec : (e.src == src && decide (e ∉ O.list)) = false := by simp [hsb]
        rw [List.filter_cons, hdec]
        simp

theorem foldl_notify_spec (N : SpkiTable) (l : List SpkiRec) (a : Bool) :
    (l.foldl (fun N e => N.notify a e) N).ht = N.ht ∧ (l.foldl (fun N e => N.notify a e) N).list = N.list ∧
    (l.foldl (fun N e => N.notify a e) N).hasCb = N.hasCb ∧
    (l.foldl (fun N e => N.notify a e) N).log = N.log ++ (if N.hasCb then l.map (fun e => (a, e)) else []) := by
  induction l generalizing N with
  | nil => simp
  | cons e l ih =>
    obtain ⟨h1, h2, h3, h4⟩ := ih (N.notify a e)
    simp only [List.foldl_cons]
    refine ⟨by rw [h1]; simp, by rw [h2]; simp, by rw [h3]; simp, ?_⟩
    rw [h4, notify_log, notify_hasCb]
    cases N.hasCb <;> simp

/-- `spki_table_notify_diff(new, old, socket)` -/
theorem notifyDiff_spec (N O : SpkiTable) (inn : SInv N) (io : SInv O) (src : Nat) :
    SInv (notifyDiff N O src).1 ∧ SInv (notifyDiff N O src).2 ∧
    (notifyDiff N O src).1.list = N.list ∧ (notifyDiff N O src).1.ht = N.ht ∧
    (notifyDiff N O src).1.hasCb = N.hasCb ∧ (notifyDiff N O src).2.hasCb = O.hasCb ∧
    (∀ x, x ∈ (notifyDiff N O src).2.list ↔ x ∈ O.list ∧ ¬ (x ∈ N.list ∧ x.src = src)) ∧
    ∃ RL : List SpkiRec, RL.Nodup ∧ (∀ x, x ∈ RL ↔ x ∈ O.list ∧ x.src = src ∧ x ∉ N.list) ∧
      (notifyDiff N O src).1.log = N.log ++
        (if N.hasCb then
          (N.list.filter fun e => e.src == src && decide (e ∉ O.list)).map (fun e => (true, e)) ++
          RL.map (fun e => (false, e)) else []) := by
  let O0 : SpkiTable := { O with hasCb := false }
  have io0 : SInv O0 := ⟨io.ht, io.nodup, io.same⟩
  obtain ⟨a, b, c, d, f, g, h, k⟩ := diffLoop_spec src N.list N O0 io0 inn.nodup rfl
  rcases hdl : diffLoop src N.list (N, O0) with ⟨N1, O1⟩
  rw [hdl] at a b c d f g h k
  simp only at a b c d f g h k
  have e : notifyDiff N O src =
      ((O1.list.filter fun e => e.src == src).foldl (fun N e => N.notify false e) N1, { O1 with hasCb := O.hasCb }) := by
    simp only [notifyDiff]
    rw [show ({ O with hasCb := false } : SpkiTable) = O0 from rfl, hdl]
  obtain ⟨p1, p2, p3, p4⟩ := foldl_notify_spec N1 (O1.list.filter fun e => e.src == src) false
  rw [e]
  refine ⟨sinv_of_eq inn (by rw [p1, f]) (by rw [p2, g]), ⟨a.ht, a.nodup, a.same⟩, by rw [p2, g], by rw [p1, f],
    by rw [p3, h], rfl, ?_, O1.list.filter (fun e => e.src == src), a.nodup.sublist List.filter_sublist |> id, ?_, ?_⟩
  · intro x
    exact d x
  · intro x
    rw [List.mem_filter, d x]
    show (x ∈ O.list ∧ _) ∧ _ ↔ _
    constructor
    · rintro ⟨⟨hx, hn⟩, hs⟩
      have hs' : x.src = src := by simpa using hs
      exact ⟨hx, hs', fun hxn => hn ⟨hxn, hs'⟩⟩
    · rintro ⟨hx, hs, hn⟩
      exact ⟨⟨hx, fun h' => hn h'.1⟩, by simpa using hs⟩
  · rw [p4, h, k]
    show N.log ++ _ ++ _ = _
    cases N.hasCb <;> simp [O0]

end SpkiTable
end Rtr
