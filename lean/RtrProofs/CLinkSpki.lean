/-
  CLinkSpki: the comparison and copy helpers of the router-key table (ht-spkitable.c), as translated from the current
  source, are what the model assumes: `key_entry_cmp` is 0 exactly for entries equal in AS number, SKI, SPKI and source.
-/
import RtrProofs.CLink
import RtrModel.Spki
namespace Rtr.CLink
open Rtr Rtr.Gen

/-- big-endian number of a byte string -/
def beNat : List (BitVec 8) → Nat
  | [] => 0
  | l => l.foldl (fun acc b => acc * 256 + b.toNat) 0

theorem foldl_be_inj : ∀ (a b : List (BitVec 8)) (x y : Nat), a.length = b.length →
    a.foldl (fun acc c => acc * 256 + c.toNat) x = b.foldl (fun acc c => acc * 256 + c.toNat) y → x = y ∧ a = b := by
  intro a
  induction a with
  | nil => intro b x y hl h; cases b with
    | nil => exact ⟨by simpa using h, rfl⟩
    | cons _ _ => simp at hl
  | cons c a ih => intro b x y hl h; cases b with
    | nil => simp at hl
    | cons d b =>
      simp only [List.foldl_cons] at h
      have hl' : a.length = b.length := by simpa using hl
      have ⟨h1, h2⟩ := ih b _ _ hl' h
      have hc := c.isLt
      have hd := d.isLt
      have e1 : x = y := by omega
      have e2 : c.toNat = d.toNat := by omega
      exact ⟨e1, by rw [h2, BitVec.eq_of_toNat_eq e2]⟩

/-- byte strings of equal length are equal iff their big-endian numbers are -/
theorem beNat_inj (a b : List (BitVec 8)) (hl : a.length = b.length) : beNat a = beNat b ↔ a = b := by
  constructor
  · intro h
    have : a.foldl (fun acc c => acc * 256 + c.toNat) 0 = b.foldl (fun acc c => acc * 256 + c.toNat) 0 := by
      cases a <;> cases b <;> simp_all [beNat]
    exact (foldl_be_inj a b 0 0 hl this).2
  · intro h; rw [h]

/-- the model's record of a `struct key_entry` -/
def recOf (e : C.S_key_entry) : SpkiRec := { asn := e.asn.toNat, ski := beNat e.ski, spki := beNat e.spki, src := e.socket }

/-- `key_entry_cmp` as translated: 0 exactly when AS number, SKI, SPKI and source all agree -/
theorem key_entry_cmp_eq (a b : C.S_key_entry) :
    C.key_entry_cmp a b =
      some (if a.asn = b.asn ∧ a.ski = b.ski ∧ a.spki = b.spki ∧ a.socket = b.socket then 0#32 else 1#32) := by
  unfold C.key_entry_cmp
  by_cases h1 : a.asn = b.asn <;> by_cases h2 : a.ski = b.ski <;> by_cases h3 : a.spki = b.spki <;>
    by_cases h4 : a.socket = b.socket <;> simp [h1, h2, h3, h4]

/-- … which is the model's comparison (`SpkiTable.cmp`, record equality) for entries whose byte strings have
    the declared lengths -/
theorem key_entry_cmp_model (a b : C.S_key_entry) (hs : a.ski.length = b.ski.length) (hp : a.spki.length = b.spki.length) :
    C.key_entry_cmp a b = some (if SpkiTable.cmp (recOf a) (recOf b) then 0#32 else 1#32) := by
  rw [key_entry_cmp_eq]
  have : (a.asn = b.asn ∧ a.ski = b.ski ∧ a.spki = b.spki ∧ a.socket = b.socket) ↔ SpkiTable.cmp (recOf a) (recOf b) = true := by
    unfold SpkiTable.cmp recOf
    simp only [beq_iff_eq, SpkiRec.mk.injEq]
    rw [beNat_inj _ _ hs.symm, beNat_inj _ _ hp.symm, BitVec.toNat_inj]
    constructor
    · rintro ⟨h1, h2, h3, h4⟩; exact ⟨h1.symm, h2.symm, h3.symm, h4.symm⟩
    · rintro ⟨h1, h2, h3, h4⟩; exact ⟨h1.symm, h2.symm, h3.symm, h4.symm⟩
  by_cases h : SpkiTable.cmp (recOf a) (recOf b) = true
  · simp [h, this.mpr h]
  · have h' : ¬ (a.asn = b.asn ∧ a.ski = b.ski ∧ a.spki = b.spki ∧ a.socket = b.socket) := fun x => h (this.mp x)
    simp [h, h']

/-- the two copy helpers move exactly the four fields and nothing else -/
theorem key_entry_to_spki_record_eq (k : C.S_key_entry) (r : C.S_spki_record) :
    C.key_entry_to_spki_record k r = some (k, { r with asn := k.asn, socket := k.socket, ski := k.ski, spki := k.spki }) := by
  simp [C.key_entry_to_spki_record]

theorem spki_record_to_key_entry_eq (r : C.S_spki_record) (k : C.S_key_entry) :
    C.spki_record_to_key_entry r k = some (r, { k with asn := r.asn, socket := r.socket, ski := r.ski, spki := r.spki }) := by
  simp [C.spki_record_to_key_entry]

end Rtr.CLink
