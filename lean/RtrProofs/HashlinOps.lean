/-
  HashlinOps: `hashlin_grow_step`, `hashlin_shrink_step`, `tommy_hashlin_insert`,
  `tommy_hashlin_remove`, `tommy_hashlin_remove_existing` preserve the invariant and change the
  stored nodes by exactly the inserted / removed node; `tommy_hashlin_search` and the bucket walk
  find exactly the stored nodes with that key.
-/
import RtrProofs.HashlinInv

namespace Rtr
namespace Hashlin
variable {α : Type}

/-- a step function that keeps the invariant, the count and every additive measure of the nodes -/
def Keeps (h h' : Hashlin α) : Prop :=
  Wf h' ∧ h'.count = h.count ∧
  ∀ f : List (HNode α) → Nat, Additive f → sumB f h'.bucket h'.valid = sumB f h.bucket h.valid

theorem Keeps.refl {h : Hashlin α} (w : Wf h) : Keeps h h := ⟨w, rfl, fun _ _ => rfl⟩

theorem resizing_of_wf {h : Hashlin α} (w : Wf h) (hst : h.state ≠ .stable) :
    Resizing h ∧ 0 < h.split ∧ h.split < h.lowMax := by
  rcases w.shape with ⟨hs, _, _⟩ | ⟨_, hb, hm, hs0, hs1⟩
  · exact absurd hs hst
  · exact ⟨⟨hb, w.max_eq, w.mask_eq, w.lowmask_eq, hm, by omega, w.filed⟩, hs0, hs1⟩

/-- `hashlin_grow_step` -/
theorem growStep_keeps (h : Hashlin α) (w : Wf h) : Keeps h (growStep h) := by
  cases hst : h.state with
  | grow =>
    have e : growStep h = growLoop (2 * h.count) (2 * h.count) h := by
      simp [growStep, growSetup, hst]
    rw [e]
    obtain ⟨r, h0, h1⟩ := resizing_of_wf w (by simp [hst])
    exact growLoop_spec _ _ h r hst h1 (Or.inl h0)
  | stable =>
    by_cases hc : h.count > h.bucketMax / 2
    · rcases w.shape with ⟨_, hl, hs⟩ | ⟨hne, _⟩
      · let h1 : Hashlin α :=
          { h with lowMax := h.bucketMax, lowMask := h.bucketMask, bucketBit := h.bucketBit + 1,
                   bucketMax := 1 <<< (h.bucketBit + 1), bucketMask := (1 <<< (h.bucketBit + 1)) - 1,
                   split := 0, state := .grow }
        have e : growStep h = growLoop (2 * h.count) (2 * h.count) h1 := by
          simp [growStep, growSetup, hst, hc, h1]
        rw [e]
        have hme := w.max_eq
        have r : Resizing h1 := by
          refine ⟨by have := w.bit_ge; show hashlinBit < h.bucketBit + 1; omega,
            by show 1 <<< (h.bucketBit + 1) = 2 ^ (h.bucketBit + 1); rw [Nat.one_shiftLeft],
            rfl, w.mask_eq,
            by show 1 <<< (h.bucketBit + 1) = 2 * h.bucketMax; rw [Nat.one_shiftLeft, Nat.pow_succ, hme]; omega,
            Nat.zero_le _, ?_⟩
          intro i hi n hn
          have hi' : i < h.valid := by
            have : i < h.bucketMax + 0 := hi
            simp only [valid]; omega
          have := w.filed i hi' n hn
          simp only [index, hl, hs, Nat.not_lt_zero, if_false] at this
          show (if n.key % h.bucketMax < 0 then _ else n.key % h.bucketMax) = i
          simpa using this
        have hpos : 0 < h.bucketMax := by rw [hme]; exact two_pow_pos' _
        obtain ⟨w', c, s⟩ := growLoop_spec (2 * h.count) (2 * h.count) h1 r rfl
          (by show 0 < h.bucketMax; exact hpos)
          (Or.inr ⟨by omega, by show 0 + h.bucketMax < 2 * h.count; omega⟩)
        refine ⟨w', c, fun f hf => ?_⟩
        rw [s f hf]
        show sumB f h.bucket (h.bucketMax + 0) = sumB f h.bucket (h.lowMax + h.split)
        rw [hl, hs]
      · exact absurd hst hne
    · have e : growStep h = h := by
        simp [growStep, growSetup, hst, hc]
      rw [e]; exact Keeps.refl w
  | shrink =>
    by_cases hc : h.count > h.bucketMax / 2
    · have e : growStep h = growLoop (2 * h.count) (2 * h.count) { h with state := .grow } := by
        simp [growStep, growSetup, hst, hc]
      rw [e]
      obtain ⟨r, h0, h1⟩ := resizing_of_wf w (by simp [hst])
      have r' : Resizing { h with state := .grow } :=
        ⟨r.bit_gt, r.max_eq, r.mask_eq, r.lowmask_eq, r.max_low, r.split_le, r.filed⟩
      exact growLoop_spec _ _ _ r' rfl h1 (Or.inl h0)
    · have e : growStep h = h := by
        simp [growStep, growSetup, hst, hc]
      rw [e]; exact Keeps.refl w

theorem shrinkStep_noop (h : Hashlin α) (hc : ¬ (h.count < h.bucketMax / 8 ∧ h.bucketBit > hashlinBit))
    (hst : h.state ≠ .shrink) : shrinkStep h = h := by
  have e : shrinkSetup h = h := by
    unfold shrinkSetup
    by_cases h1 : h.count < h.bucketMax / 8
    · have h2 : ¬ h.bucketBit > hashlinBit := fun h2 => hc ⟨h1, h2⟩
      simp [h1, h2]
    · simp [h1]
  simp [shrinkStep, e, hst]

/-- `hashlin_shrink_step` -/
theorem shrinkStep_keeps (h : Hashlin α) (w : Wf h) : Keeps h (shrinkStep h) := by
  cases hst : h.state with
  | shrink =>
    have e : shrinkStep h = shrinkLoop h.split (8 * h.count) h := by
      simp [shrinkStep, shrinkSetup, hst]
    rw [e]
    obtain ⟨r, h0, h1⟩ := resizing_of_wf w (by simp [hst])
    exact shrinkLoop_spec _ _ h r hst h0 (Or.inl h1)
  | stable =>
    by_cases hc : h.count < h.bucketMax / 8 ∧ h.bucketBit > hashlinBit
    · rcases w.shape with ⟨_, hl, hs⟩ | ⟨hne, _⟩
      · let h1 : Hashlin α :=
          { h with lowMax := h.bucketMax / 2, lowMask := h.bucketMask / 2, split := h.bucketMax / 2,
                   state := .shrink }
        have e : shrinkStep h = shrinkLoop (h.bucketMax / 2) (8 * h.count) h1 := by
          simp [shrinkStep, shrinkSetup, hst, hc.1, hc.2, h1]
        rw [e]
        have hme := w.max_eq
        have hbit : h.bucketBit = (h.bucketBit - 1) + 1 := by have := hc.2; unfold hashlinBit at this; omega
        have hhalf : h.bucketMax = 2 * 2 ^ (h.bucketBit - 1) := by
          rw [hme]; conv => lhs; rw [hbit, Nat.pow_succ]
          omega
        have hpos : 0 < 2 ^ (h.bucketBit - 1) := two_pow_pos' _
        have hdiv : h.bucketMax / 2 = 2 ^ (h.bucketBit - 1) := by omega
        have r : Resizing h1 := by
          refine ⟨hc.2, hme, w.mask_eq, ?_, ?_, Nat.le_refl _, ?_⟩
          · show h.bucketMask / 2 = h.bucketMax / 2 - 1
            rw [w.mask_eq]; omega
          · show h.bucketMax = 2 * (h.bucketMax / 2)
            omega
          · intro i hi n hn
            have hi' : i < h.valid := by
              have : i < h.bucketMax / 2 + h.bucketMax / 2 := hi
              simp only [valid]; omega
            have hfi := w.filed i hi' n hn
            simp only [index, hl, hs, Nat.not_lt_zero, if_false] at hfi
            show (if n.key % (h.bucketMax / 2) < h.bucketMax / 2 then n.key % (2 * (h.bucketMax / 2))
              else n.key % (h.bucketMax / 2)) = i
            have hlt : n.key % (h.bucketMax / 2) < h.bucketMax / 2 := Nat.mod_lt _ (by omega)
            simp only [hlt, if_true]
            rw [show 2 * (h.bucketMax / 2) = h.bucketMax by omega]
            exact hfi
        obtain ⟨w', c, s⟩ := shrinkLoop_spec (h.bucketMax / 2) (8 * h.count) h1 r rfl
          (by show 0 < h.bucketMax / 2; omega)
          (Or.inr ⟨by omega, by show h.bucketMax / 2 + h.bucketMax / 2 > 8 * h.count; omega⟩)
        refine ⟨w', c, fun f hf => ?_⟩
        rw [s f hf]
        show sumB f h.bucket (h.bucketMax / 2 + h.bucketMax / 2) = sumB f h.bucket (h.lowMax + h.split)
        rw [hl, hs, show h.bucketMax / 2 + h.bucketMax / 2 = h.bucketMax + 0 by omega]
      · exact absurd hst hne
    · have e : shrinkStep h = h := shrinkStep_noop h hc (by simp [hst])
      rw [e]; exact Keeps.refl w
  | grow =>
    by_cases hc : h.count < h.bucketMax / 8 ∧ h.bucketBit > hashlinBit
    · have e : shrinkStep h = shrinkLoop h.split (8 * h.count) { h with state := .shrink } := by
        simp [shrinkStep, shrinkSetup, hst, hc.1, hc.2]
      rw [e]
      obtain ⟨r, h0, h1⟩ := resizing_of_wf w (by simp [hst])
      have r' : Resizing { h with state := .shrink } :=
        ⟨r.bit_gt, r.max_eq, r.mask_eq, r.lowmask_eq, r.max_low, r.split_le, r.filed⟩
      exact shrinkLoop_spec _ _ _ r' rfl h0 (Or.inl h1)
    · have e : shrinkStep h = h := shrinkStep_noop h hc (by simp [hst])
      rw [e]; exact Keeps.refl w

/-! ### multiplicity of a node, membership -/

/-- how often node `x` is stored in the valid buckets -/
def mult [DecidableEq α] (h : Hashlin α) (x : HNode α) : Nat := sumB (List.count x) h.bucket h.valid

/-- node `x` is stored in the table -/
def Mem (h : Hashlin α) (x : HNode α) : Prop := ∃ i, i < h.valid ∧ x ∈ h.bucket i

theorem mem_iff_mult_pos [DecidableEq α] (h : Hashlin α) (x : HNode α) : h.Mem x ↔ 0 < h.mult x :=
  (sumB_count_pos x h.bucket h.valid).symm

/-- a stored node sits in the bucket of its key -/
theorem mem_iff_in_bucket {h : Hashlin α} (w : Wf h) (x : HNode α) : h.Mem x ↔ x ∈ h.bucketOf x.key := by
  unfold bucketOf
  rw [bucketPos_eq_index w.num]
  constructor
  · rintro ⟨i, hi, hx⟩
    rw [w.filed i hi x hx]; exact hx
  · intro hx
    exact ⟨_, index_lt_valid w.num x.key, hx⟩

/-- bucket update at the position of a key: effect on an additive measure -/
theorem sumB_upd_pos {h : Hashlin α} (w : Wf h) (key : Nat) (v : List (HNode α)) (f : List (HNode α) → Nat) :
    sumB f (upd h.bucket (h.bucketPos key) v) h.valid + f (h.bucket (h.bucketPos key)) =
      sumB f h.bucket h.valid + f v := by
  apply sumB_upd_lt
  rw [bucketPos_eq_index w.num]; exact index_lt_valid w.num key

/-- replacing the bucket of `key` by a list whose nodes are all indexed there keeps `Wf` -/
theorem wf_upd_bucket {h : Hashlin α} (w : Wf h) (key : Nat) (v : List (HNode α)) (c : Nat)
    (hv : ∀ n, n ∈ v → h.index n.key = h.bucketPos key) :
    Wf { h with bucket := upd h.bucket (h.bucketPos key) v, count := c } := by
  refine ⟨w.bit_ge, w.max_eq, w.mask_eq, w.lowmask_eq, w.shape, ?_⟩
  intro i hi n hn
  have hi' : i < h.valid := hi
  show h.index n.key = i
  by_cases hip : i = h.bucketPos key
  · subst hip
    have hn' : n ∈ v := by simpa [upd_same] using hn
    exact hv n hn'
  · have hn' : n ∈ h.bucket i := by
      have : n ∈ upd h.bucket (h.bucketPos key) v i := hn
      rwa [upd_other _ _ hip] at this
    exact w.filed i hi' n hn'

/-- `tommy_hashlin_insert` -/
theorem insert_spec [DecidableEq α] (h : Hashlin α) (iv : Inv h) (d : α) (key : Nat) :
    Inv (h.insert d key) ∧ ∀ x, (h.insert d key).mult x = h.mult x + if x = ⟨key, d⟩ then 1 else 0 := by
  let h0 : Hashlin α :=
    { h with bucket := upd h.bucket (h.bucketPos key) (h.bucket (h.bucketPos key) ++ [⟨key, d⟩]),
             count := h.count + 1 }
  have w := iv.toWf
  have hp := bucketPos_eq_index w.num key
  have hlt := index_lt_valid w.num key
  have w0 : Wf h0 := by
    apply wf_upd_bucket w
    intro n hn
    rcases List.mem_append.mp hn with hn | hn
    · rw [hp]; exact w.filed _ hlt n (by rw [← hp]; exact hn)
    · simp at hn; subst hn; exact hp.symm
  have hsum : ∀ f : List (HNode α) → Nat, Additive f →
      sumB f h0.bucket h0.valid = sumB f h.bucket h.valid + f [⟨key, d⟩] := by
    intro f hf
    have := sumB_upd_pos w key (h.bucket (h.bucketPos key) ++ [⟨key, d⟩]) f
    rw [hf.append] at this
    show sumB f (upd h.bucket (h.bucketPos key) _) h.valid = _
    omega
  obtain ⟨w1, c1, s1⟩ := growStep_keeps h0 w0
  have e : h.insert d key = growStep h0 := rfl
  rw [e]
  refine ⟨⟨w1, ?_⟩, fun x => ?_⟩
  · rw [c1, s1 _ additive_length, hsum _ additive_length]
    show h.count + 1 = _
    rw [iv.count_eq]; rfl
  · unfold mult
    rw [s1 _ (additive_count x), hsum _ (additive_count x)]
    congr 1
    by_cases hx : x = ⟨key, d⟩
    · subst hx; simp
    · have : (⟨key, d⟩ : HNode α) ≠ x := fun e => hx e.symm
      simp [hx, this]

/-- `tommy_hashlin_search`: finds a node exactly if one with that key satisfying `cmp` is stored -/
theorem search_isSome_iff {h : Hashlin α} (w : Wf h) (cmp : α → Bool) (key : Nat) :
    (h.search cmp key).isSome ↔ ∃ x, h.Mem x ∧ x.key = key ∧ cmp x.data = true := by
  unfold search
  rw [Option.isSome_map, List.find?_isSome]
  constructor
  · rintro ⟨x, hx, hp⟩
    simp only [Bool.and_eq_true, beq_iff_eq] at hp
    refine ⟨x, ?_, hp.1, hp.2⟩
    rw [mem_iff_in_bucket w, hp.1]; exact hx
  · rintro ⟨x, hm, hk, hc⟩
    refine ⟨x, ?_, by simp [hk, hc]⟩
    rw [mem_iff_in_bucket w, hk] at hm; exact hm

/-- what `tommy_hashlin_search` returns is the data of a stored node with that key -/
theorem search_some {h : Hashlin α} (w : Wf h) (cmp : α → Bool) (key : Nat) (d : α)
    (hs : h.search cmp key = some d) : h.Mem ⟨key, d⟩ ∧ cmp d = true := by
  unfold search at hs
  rw [Option.map_eq_some_iff] at hs
  obtain ⟨x, hx, rfl⟩ := hs
  have hp := List.find?_some hx
  have hm := List.mem_of_find?_eq_some hx
  simp only [Bool.and_eq_true, beq_iff_eq] at hp
  obtain ⟨hk, hc⟩ := hp
  refine ⟨?_, hc⟩
  have : (⟨key, x.data⟩ : HNode α) = x := by cases x; simp_all
  rw [this, mem_iff_in_bucket w, hk]; exact hm

/-- `tommy_hashlin_remove` when nothing matches -/
theorem remove_none {h : Hashlin α} (cmp : α → Bool) (key : Nat)
    (hs : (h.search cmp key).isSome = false) : h.remove cmp key = (h, none) := by
  unfold search at hs
  rw [Option.isSome_map] at hs
  have : (h.bucket (h.bucketPos key)).find? (fun n => n.key == key && cmp n.data) = none := by
    cases hf : (h.bucket (h.bucketPos key)).find? (fun n => n.key == key && cmp n.data) with
    | none => rfl
    | some a => simp [bucketOf, hf] at hs
  simp [remove, this]

/-- `tommy_hashlin_remove` when a node matches: exactly one stored node with that key on which
    `cmp` holds disappears -/
theorem remove_some [DecidableEq α] {h : Hashlin α} (iv : Inv h) (cmp : α → Bool) (key : Nat)
    (hs : (h.search cmp key).isSome = true) :
    ∃ d, (h.remove cmp key).2 = some d ∧ cmp d = true ∧ h.Mem ⟨key, d⟩ ∧ Inv (h.remove cmp key).1 ∧
      ∀ x, (h.remove cmp key).1.mult x = h.mult x - if x = ⟨key, d⟩ then 1 else 0 := by
  have w := iv.toWf
  let p := fun (n : HNode α) => n.key == key && cmp n.data
  have hp := bucketPos_eq_index w.num key
  have hlt := index_lt_valid w.num key
  cases hf : (h.bucket (h.bucketPos key)).find? p with
  | none =>
    exfalso
    unfold search bucketOf at hs
    simp only [p] at hf
    rw [hf] at hs; simp at hs
  | some n =>
    have hpn := List.find?_some hf
    have hmn := List.mem_of_find?_eq_some hf
    simp only [p, Bool.and_eq_true, beq_iff_eq] at hpn
    obtain ⟨hk, hc⟩ := hpn
    have hn : n = ⟨key, n.data⟩ := by cases n; simp_all
    let h0 : Hashlin α :=
      { h with bucket := upd h.bucket (h.bucketPos key) ((h.bucket (h.bucketPos key)).eraseP p),
               count := h.count - 1 }
    have e : h.remove cmp key = (shrinkStep h0, some n.data) := by
      simp only [remove]
      simp only [p] at hf
      rw [hf]
    have w0 : Wf h0 := by
      apply wf_upd_bucket w
      intro m hm
      have : m ∈ h.bucket (h.bucketPos key) := List.mem_of_mem_eraseP hm
      rw [hp]; exact w.filed _ hlt m (by rw [← hp]; exact this)
    have hsum : ∀ f : List (HNode α) → Nat, Additive f →
        sumB f h0.bucket h0.valid + f [n] = sumB f h.bucket h.valid := by
      intro f hf'
      have h1 := sumB_upd_pos w key ((h.bucket (h.bucketPos key)).eraseP p) f
      have h2 := hf'.eraseP p _ n hf
      show sumB f (upd h.bucket (h.bucketPos key) _) h.valid + f [n] = _
      omega
    obtain ⟨w1, c1, s1⟩ := shrinkStep_keeps h0 w0
    have hmem : h.Mem ⟨key, n.data⟩ := by
      rw [← hn]; exact ⟨_, by rw [hp]; exact hlt, hmn⟩
    refine ⟨n.data, by rw [e], hc, hmem, ?_, ?_⟩
    · rw [e]
      refine ⟨w1, ?_⟩
      rw [c1, s1 _ additive_length]
      have := hsum _ additive_length
      show h.count - 1 = _
      rw [iv.count_eq]; simp at this; omega
    · intro x
      rw [e]
      unfold mult
      rw [s1 _ (additive_count x)]
      have := hsum _ (additive_count x)
      rw [← hn]
      by_cases hx : x = n
      · subst hx; simp at this ⊢; omega
      · have hne : n ≠ x := fun e => hx e.symm
        simp [hx, hne] at this ⊢; omega

/-- `tommy_hashlin_remove_existing` of a stored node -/
theorem removeExisting_spec [DecidableEq α] {h : Hashlin α} (iv : Inv h) (n : HNode α) (hm : h.Mem n) :
    Inv (h.removeExisting n) ∧ ∀ x, (h.removeExisting n).mult x = h.mult x - if x = n then 1 else 0 := by
  have w := iv.toWf
  have hp := bucketPos_eq_index w.num n.key
  have hlt := index_lt_valid w.num n.key
  have hin : n ∈ h.bucket (h.bucketPos n.key) := (mem_iff_in_bucket w n).mp hm
  let h0 : Hashlin α :=
    { h with bucket := upd h.bucket (h.bucketPos n.key) ((h.bucket (h.bucketPos n.key)).erase n),
             count := h.count - 1 }
  have e : h.removeExisting n = shrinkStep h0 := rfl
  have w0 : Wf h0 := by
    apply wf_upd_bucket w
    intro m hm'
    have : m ∈ h.bucket (h.bucketPos n.key) := List.mem_of_mem_erase hm'
    rw [hp]; exact w.filed _ hlt m (by rw [← hp]; exact this)
  have hfind : (h.bucket (h.bucketPos n.key)).find? (fun x => n == x) = some n := by
    have hsome : ((h.bucket (h.bucketPos n.key)).find? (fun x => n == x)).isSome := by
      rw [List.find?_isSome]; exact ⟨n, hin, by simp⟩
    cases hf : (h.bucket (h.bucketPos n.key)).find? (fun x => n == x) with
    | none => rw [hf] at hsome; simp at hsome
    | some a =>
      have := List.find?_some hf
      simp at this; rw [this]
  have hsum : ∀ f : List (HNode α) → Nat, Additive f →
      sumB f h0.bucket h0.valid + f [n] = sumB f h.bucket h.valid := by
    intro f hf'
    have h1 := sumB_upd_pos w n.key ((h.bucket (h.bucketPos n.key)).erase n) f
    have h2 := hf'.eraseP (fun x => n == x) _ n hfind
    rw [← List.erase_eq_eraseP] at h2
    show sumB f (upd h.bucket (h.bucketPos n.key) _) h.valid + f [n] = _
    omega
  obtain ⟨w1, c1, s1⟩ := shrinkStep_keeps h0 w0
  rw [e]
  refine ⟨⟨w1, ?_⟩, fun x => ?_⟩
  · rw [c1, s1 _ additive_length]
    have := hsum _ additive_length
    show h.count - 1 = _
    rw [iv.count_eq]; simp at this; omega
  · unfold mult
    rw [s1 _ (additive_count x)]
    have := hsum _ (additive_count x)
    by_cases hx : x = n
    · subst hx; simp at this ⊢; omega
    · have hne : n ≠ x := fun e => hx e.symm
      simp [hx, hne] at this ⊢; omega

theorem sumB_length_pos_of_mem {β : Type} (x : β) (b : Nat → List β) (n i : Nat) (hi : i < n) (hx : x ∈ b i) :
    0 < sumB List.length b n := by
  induction n with
  | zero => omega
  | succ n ih =>
    simp only [sumB]
    by_cases hin : i = n
    · subst hin
      have : 0 < (b i).length := List.length_pos_of_mem hx
      omega
    · have := ih (by omega)
      omega

/-- `--hashlin->count` in `tommy_hashlin_remove_existing` does not wrap: a node is stored -/
theorem removeExisting_count [DecidableEq α] {h : Hashlin α} (iv : Inv h) (n : HNode α) (hm : h.Mem n) :
    0 < h.count ∧ (h.removeExisting n).count + 1 = h.count := by
  have w := iv.toWf
  obtain ⟨i, hi, hx⟩ := hm
  have hpos : 0 < h.count := by rw [iv.count_eq]; exact sumB_length_pos_of_mem n _ _ i hi hx
  have hp := bucketPos_eq_index w.num n.key
  have hlt := index_lt_valid w.num n.key
  let h0 : Hashlin α :=
    { h with bucket := upd h.bucket (h.bucketPos n.key) ((h.bucket (h.bucketPos n.key)).erase n),
             count := h.count - 1 }
  have w0 : Wf h0 := by
    apply wf_upd_bucket w
    intro m hm'
    have : m ∈ h.bucket (h.bucketPos n.key) := List.mem_of_mem_erase hm'
    rw [hp]; exact w.filed _ hlt m (by rw [← hp]; exact this)
  obtain ⟨_, c1, _⟩ := shrinkStep_keeps h0 w0
  have e : h.removeExisting n = shrinkStep h0 := rfl
  refine ⟨hpos, ?_⟩
  rw [e, c1]
  show h.count - 1 + 1 = h.count
  omega

/-- the initial table satisfies the invariant and is empty -/
theorem init_inv : Inv (init : Hashlin α) := by
  refine ⟨⟨Nat.le_refl _, by simp [init, stable, hashlinBit], rfl, rfl, Or.inl ⟨rfl, rfl, rfl⟩, ?_⟩, ?_⟩
  · intro i _ n hn
    simp [init, stable] at hn
  · show 0 = sumB List.length (fun _ => []) _
    generalize (init : Hashlin α).valid = v
    induction v with
    | zero => rfl
    | succ v ih => simp [sumB, ← ih]

theorem init_not_mem (x : HNode α) : ¬ (init : Hashlin α).Mem x := by
  rintro ⟨i, _, hx⟩
  simp [init, stable] at hx

end Hashlin
end Rtr
