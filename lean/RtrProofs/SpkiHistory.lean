/-
  SpkiHistory: operation histories over two router-key tables (the table of a socket and the
  shadow table of rtr_sync), their set semantics, and the refinement step by step.
-/
import RtrProofs.SpkiRefine

namespace Rtr

/-- the public operations of ht-spkitable.c on a pair of tables; the Boolean selects the table
    (`false` = first, `true` = second); binary operations act on the selected table and the other -/
inductive SpkiOp where
  | add (t : Bool) (r : SpkiRec)
  | remove (t : Bool) (r : SpkiRec)
  | srcRemove (t : Bool) (src : Nat)
  /-- `spki_table_copy_except_socket(table t, the other table, src)` -/
  | copyExcept (t : Bool) (src : Nat)
  | swap
  /-- `spki_table_notify_diff(new = table t, old = the other table, src)` -/
  | notifyDiff (t : Bool) (src : Nat)
  /-- `spki_table_free` followed by `spki_table_init` -/
  | free (t : Bool)

/-- replace table `t` -/
def setT (S : Bool → SpkiTable) (t : Bool) (T : SpkiTable) : Bool → SpkiTable :=
  fun u => if u = t then T else S u

/-- one operation on the concrete pair: new pair and return code (`success` for `void` functions) -/
def stepOp (S : Bool → SpkiTable) : SpkiOp → (Bool → SpkiTable) × SpkiRc
  | .add t r => (setT S t ((S t).add r).1, ((S t).add r).2)
  | .remove t r => (setT S t ((S t).remove r).1, ((S t).remove r).2)
  | .srcRemove t s => (setT S t ((S t).srcRemove s).1, ((S t).srcRemove s).2)
  | .copyExcept t s =>
    (setT S (!t) (SpkiTable.copyExcept (S t) (S (!t)) s).1, (SpkiTable.copyExcept (S t) (S (!t)) s).2)
  | .swap =>
    (fun u => if u then (SpkiTable.swap (S false) (S true)).2 else (SpkiTable.swap (S false) (S true)).1, .success)
  | .notifyDiff t s =>
    (setT (setT S t (SpkiTable.notifyDiff (S t) (S (!t)) s).1) (!t) (SpkiTable.notifyDiff (S t) (S (!t)) s).2,
     .success)
  | .free t => (setT S t (S t).free, .success)

/-- a whole history: final pair and the list of return codes -/
def runOps : (Bool → SpkiTable) → List SpkiOp → (Bool → SpkiTable) × List SpkiRc
  | S, [] => (S, [])
  | S, op :: ops => ((runOps (stepOp S op).1 ops).1, (stepOp S op).2 :: (runOps (stepOp S op).1 ops).2)

/-- the abstract state: two mathematical sets of records -/
abbrev ASets := Bool → SpkiRec → Prop

/-- abstraction function: the records of each table -/
def absT (S : Bool → SpkiTable) : ASets := fun t x => x ∈ (S t).list

/-- set semantics of one operation: `specStep A op rc A'`.  Everything is deterministic except a
    failing copy (the target then holds its old records and some of the copied ones). -/
def specStep (A : ASets) (op : SpkiOp) (rc : SpkiRc) (A' : ASets) : Prop :=
  match op with
  | .add t r =>
    (A t r ∧ rc = .duplicate ∧ ∀ u x, A' u x ↔ A u x) ∨
    (¬ A t r ∧ rc = .success ∧ ∀ u x, A' u x ↔ (A u x ∨ (u = t ∧ x = r)))
  | .remove t r =>
    (¬ A t r ∧ rc = .notFound ∧ ∀ u x, A' u x ↔ A u x) ∨
    (A t r ∧ rc = .success ∧ ∀ u x, A' u x ↔ (A u x ∧ ¬ (u = t ∧ x = r)))
  | .srcRemove t s => rc = .success ∧ ∀ u x, A' u x ↔ (A u x ∧ ¬ (u = t ∧ x.src = s))
  | .copyExcept t s =>
    ((∀ x, A t x → x.src ≠ s → ¬ A (!t) x) ∧ rc = .success ∧
      ∀ u x, A' u x ↔ (A u x ∨ (u = !t ∧ A t x ∧ x.src ≠ s))) ∨
    ((∃ x, A t x ∧ x.src ≠ s ∧ A (!t) x) ∧ rc = .error ∧ (∀ u x, A u x → A' u x) ∧
      ∀ u x, A' u x → (A u x ∨ (u = !t ∧ A t x ∧ x.src ≠ s)))
  | .swap => rc = .success ∧ ∀ u x, A' u x ↔ A (!u) x
  | .notifyDiff t s => rc = .success ∧ ∀ u x, A' u x ↔ (A u x ∧ ¬ (u = !t ∧ x.src = s ∧ A t x))
  | .free t => rc = .success ∧ ∀ u x, A' u x ↔ (A u x ∧ u ≠ t)

/-- set semantics of a history -/
inductive SpecRun : ASets → List SpkiOp → List SpkiRc → ASets → Prop
  | nil (A A' : ASets) : (∀ u x, A' u x ↔ A u x) → SpecRun A [] [] A'
  | cons (A A1 A2 : ASets) (op : SpkiOp) (rc : SpkiRc) (ops : List SpkiOp) (rcs : List SpkiRc) :
      specStep A op rc A1 → SpecRun A1 ops rcs A2 → SpecRun A (op :: ops) (rc :: rcs) A2

theorem setT_same (S : Bool → SpkiTable) (t : Bool) (T : SpkiTable) : setT S t T t = T := by simp [setT]
theorem setT_other (S : Bool → SpkiTable) {t u : Bool} (T : SpkiTable) (h : u ≠ t) : setT S t T u = S u := by
  simp [setT, h]

theorem bool_ne_not (t : Bool) : (!t) ≠ t := by cases t <;> simp
theorem bool_eq_not_of_ne {u t : Bool} (h : u ≠ t) : u = !t := by cases u <;> cases t <;> simp_all

theorem sinv_free (T : SpkiTable) : SpkiTable.SInv T.free := by
  have := SpkiTable.sinv_init T.hasCb
  exact ⟨this.ht, this.nodup, this.same⟩

/-- one step refines its set semantics and keeps both representation invariants -/
theorem step_refines (S : Bool → SpkiTable) (iv : ∀ t, SpkiTable.SInv (S t)) (op : SpkiOp) :
    specStep (absT S) op (stepOp S op).2 (absT (stepOp S op).1) ∧ ∀ t, SpkiTable.SInv ((stepOp S op).1 t) := by
  cases op with
  | add t r =>
    by_cases hr : r ∈ (S t).list
    · have e := SpkiTable.add_dup (iv t) r hr
      simp only [stepOp, e]
      refine ⟨Or.inl ⟨hr, rfl, fun u x => ?_⟩, fun u => ?_⟩
      · by_cases hu : u = t
        · subst hu; simp [absT, setT_same]
        · simp [absT, setT_other _ _ hu]
      · by_cases hu : u = t
        · subst hu; rw [setT_same]; exact iv u
        · rw [setT_other _ _ hu]; exact iv u
    · obtain ⟨h1, h2, h3, _, _⟩ := SpkiTable.add_new_spec (iv t) r hr
      simp only [stepOp]
      refine ⟨Or.inr ⟨hr, h1, fun u x => ?_⟩, fun u => ?_⟩
      · by_cases hu : u = t
        · subst hu; simp [absT, setT_same, h3]
        · simp [absT, setT_other _ _ hu, hu]
      · by_cases hu : u = t
        · subst hu; rw [setT_same]; exact h2
        · rw [setT_other _ _ hu]; exact iv u
  | remove t r =>
    by_cases hr : r ∈ (S t).list
    · obtain ⟨h1, h2, h3, _, _⟩ := SpkiTable.remove_present_spec (iv t) r hr
      simp only [stepOp]
      refine ⟨Or.inr ⟨hr, h1, fun u x => ?_⟩, fun u => ?_⟩
      · by_cases hu : u = t
        · subst hu
          simp only [absT, setT_same, h3, (iv u).nodup.mem_erase_iff]
          constructor
          · rintro ⟨a, b⟩; exact ⟨b, fun h => a h.2⟩
          · rintro ⟨a, b⟩; exact ⟨fun h => b ⟨trivial, h⟩, a⟩
        · simp [absT, setT_other _ _ hu, hu]
      · by_cases hu : u = t
        · subst hu; rw [setT_same]; exact h2
        · rw [setT_other _ _ hu]; exact iv u
    · have e := SpkiTable.remove_absent (iv t) r hr
      simp only [stepOp, e]
      refine ⟨Or.inl ⟨hr, rfl, fun u x => ?_⟩, fun u => ?_⟩
      · by_cases hu : u = t
        · subst hu; simp [absT, setT_same]
        · simp [absT, setT_other _ _ hu]
      · by_cases hu : u = t
        · subst hu; rw [setT_same]; exact iv u
        · rw [setT_other _ _ hu]; exact iv u
  | srcRemove t s =>
    obtain ⟨h1, h2, h3, _, _⟩ := SpkiTable.srcRemove_spec (iv t) s
    simp only [stepOp]
    refine ⟨⟨h1, fun u x => ?_⟩, fun u => ?_⟩
    · by_cases hu : u = t
      · subst hu
        simp only [absT, setT_same, h3 x]
        constructor
        · rintro ⟨a, b⟩; exact ⟨a, fun h => b h.2⟩
        · rintro ⟨a, b⟩; exact ⟨a, fun h => b ⟨trivial, h⟩⟩
      · simp [absT, setT_other _ _ hu, hu]
    · by_cases hu : u = t
      · subst hu; rw [setT_same]; exact h2
      · rw [setT_other _ _ hu]; exact iv u
  | copyExcept t s =>
    obtain ⟨a, _, _, d, f, g⟩ := SpkiTable.copyLoop_spec s (S t).list (S (!t)) (iv (!t)) (iv t).nodup
    simp only [stepOp, SpkiTable.copyExcept]
    refine ⟨?_, fun u => ?_⟩
    · rcases g with ⟨g1, g2, g3⟩ | ⟨g1, x, hx, hxs, hxd⟩
      · refine Or.inl ⟨fun x hx hs => g2 x hx hs, g1, fun u x => ?_⟩
        by_cases hu : u = !t
        · subst hu
          simp only [absT, setT_same, g3, List.mem_append, List.mem_filter]
          constructor
          · rintro (h | ⟨h1, h2⟩)
            · exact Or.inl h
            · exact Or.inr ⟨trivial, h1, by simpa using h2⟩
          · rintro (h | ⟨_, h1, h2⟩)
            · exact Or.inl h
            · exact Or.inr ⟨h1, by simpa using h2⟩
        · simp [absT, setT_other _ _ hu, hu]
      · refine Or.inr ⟨⟨x, hx, hxs, hxd⟩, g1, fun u y hy => ?_, fun u y hy => ?_⟩
        · by_cases hu : u = !t
          · subst hu; simp only [absT, setT_same]; exact d y hy
          · simpa [absT, setT_other _ _ hu] using hy
        · by_cases hu : u = !t
          · subst hu
            simp only [absT, setT_same] at hy
            rcases f y hy with h | h
            · exact Or.inl h
            · exact Or.inr ⟨rfl, h.1, h.2⟩
          · left; simpa [absT, setT_other _ _ hu] using hy
    · by_cases hu : u = !t
      · subst hu; rw [setT_same]; exact a
      · rw [setT_other _ _ hu]; exact iv u
  | swap =>
    obtain ⟨h1, h2⟩ := SpkiTable.sinv_swap (iv false) (iv true)
    simp only [stepOp]
    refine ⟨⟨rfl, fun u x => ?_⟩, fun u => ?_⟩
    · cases u <;> simp [absT, SpkiTable.swap]
    · cases u
      · simpa using h1
      · simpa using h2
  | notifyDiff t s =>
    obtain ⟨h1, h2, h3, _, _, _, h7, _⟩ := SpkiTable.notifyDiff_spec (S t) (S (!t)) (iv t) (iv (!t)) s
    simp only [stepOp]
    have hne := bool_ne_not t
    refine ⟨⟨rfl, fun u x => ?_⟩, fun u => ?_⟩
    · by_cases hu : u = !t
      · subst hu
        simp only [absT, setT_same, h7 x]
        constructor
        · rintro ⟨a, b⟩; exact ⟨a, fun h => b ⟨h.2.2, h.2.1⟩⟩
        · rintro ⟨a, b⟩; exact ⟨a, fun h => b ⟨trivial, h.2, h.1⟩⟩
      · have hut : u = t := by cases u <;> cases t <;> simp_all
        subst hut
        simp only [absT, setT_other _ _ hu, setT_same, h3]
        constructor
        · intro a; exact ⟨a, fun h => hu h.1⟩
        · intro a; exact a.1
    · by_cases hu : u = !t
      · subst hu; rw [setT_same]; exact h2
      · have hut : u = t := by cases u <;> cases t <;> simp_all
        subst hut
        rw [setT_other _ _ hu, setT_same]; exact h1
  | free t =>
    simp only [stepOp]
    refine ⟨⟨rfl, fun u x => ?_⟩, fun u => ?_⟩
    · by_cases hu : u = t
      · subst hu; simp [absT, setT_same, SpkiTable.free]
      · simp [absT, setT_other _ _ hu, hu]
    · by_cases hu : u = t
      · subst hu; rw [setT_same]; exact sinv_free _
      · rw [setT_other _ _ hu]; exact iv u

/-- every history refines its set semantics, return codes included -/
theorem runOps_refines (S : Bool → SpkiTable) (iv : ∀ t, SpkiTable.SInv (S t)) (ops : List SpkiOp) :
    SpecRun (absT S) ops (runOps S ops).2 (absT (runOps S ops).1) ∧ ∀ t, SpkiTable.SInv ((runOps S ops).1 t) := by
  induction ops generalizing S with
  | nil => exact ⟨SpecRun.nil _ _ (fun _ _ => Iff.rfl), iv⟩
  | cons op ops ih =>
    obtain ⟨h1, h2⟩ := step_refines S iv op
    obtain ⟨h3, h4⟩ := ih (stepOp S op).1 h2
    exact ⟨SpecRun.cons _ _ _ _ _ _ _ h1 h3, h4⟩

end Rtr
