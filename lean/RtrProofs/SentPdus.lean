/-
  SentPdus: the PDUs the client builds (Serial Query, Reset Query, Error Report) are well formed,
  and `tr_send_all` hands exactly the bytes of the PDU to the transport however the transport
  splits the writes.
-/
import RtrModel.Rtr

namespace Rtr.P

/-! ## big-endian fields -/

theorem getD_append_right' (a b : List Nat) (i : Nat) : (a ++ b).getD (a.length + i) 0 = b.getD i 0 := by
  simp [List.getD_eq_getElem?_getD, List.getElem?_append_right]

theorem getD_append_left' (a b : List Nat) (i : Nat) (h : i < a.length) : (a ++ b).getD i 0 = a.getD i 0 := by
  simp [List.getD_eq_getElem?_getD, List.getElem?_append_left h]

theorem be32_toBE32 (n : Nat) (h : n < 4294967296) (c : List Nat) : be32 (toBE32 n ++ c) 0 = n := by
  simp only [be32, toBE32, List.cons_append, List.nil_append, List.getD_cons_zero, List.getD_cons_succ]
  omega

theorem be16_toBE16 (n : Nat) (h : n < 65536) (c : List Nat) : be16 (toBE16 n ++ c) 0 = n := by
  simp only [be16, toBE16, List.cons_append, List.nil_append, List.getD_cons_zero, List.getD_cons_succ]
  omega

theorem be32_shift (a b : List Nat) (off : Nat) : be32 (a ++ b) (a.length + off) = be32 b off := by
  unfold be32
  rw [getD_append_right', show a.length + off + 1 = a.length + (off + 1) from by omega, getD_append_right',
    show a.length + off + 2 = a.length + (off + 2) from by omega, getD_append_right',
    show a.length + off + 3 = a.length + (off + 3) from by omega, getD_append_right']

theorem be16_shift (a b : List Nat) (off : Nat) : be16 (a ++ b) (a.length + off) = be16 b off := by
  unfold be16
  rw [getD_append_right', show a.length + off + 1 = a.length + (off + 1) from by omega, getD_append_right']

theorem be32_shift0 (a b : List Nat) : be32 (a ++ b) a.length = be32 b 0 := be32_shift a b 0
theorem be16_shift0 (a b : List Nat) : be16 (a ++ b) a.length = be16 b 0 := be16_shift a b 0

theorem toBE32_length (n : Nat) : (toBE32 n).length = 4 := rfl
theorem toBE16_length (n : Nat) : (toBE16 n).length = 2 := rfl

/-! ## well-formed PDUs -/

/-- a complete PDU of protocol version `ver`: at least a header, the version byte, the length field
    equals the number of bytes, not larger than the client's own maximum -/
def WellFormedPdu (ver : Nat) (b : List Nat) : Prop :=
  b.length ≥ 8 ∧ b.getD 0 0 = ver % 256 ∧ be32 b 4 = b.length ∧ b.length ≤ Gen.RTR_MAX_PDU_LEN

theorem serialQuery_wf (ver sess sn : Nat) : WellFormedPdu ver (serialQueryBytes ver sess sn) := by
  refine ⟨by simp [serialQueryBytes, toBE16, toBE32], by simp [serialQueryBytes], ?_,
    by simp [serialQueryBytes, toBE16, toBE32, Gen.RTR_MAX_PDU_LEN]⟩
  simp [serialQueryBytes, toBE16, toBE32, be32]

/-- the fields of a Serial Query: type 1, the session id, length 12, the serial number -/
theorem serialQuery_fields (ver sess sn : Nat) (hs : sess < 65536) (hn : sn < 4294967296) :
    typeOf (serialQueryBytes ver sess sn) = 1 ∧ be16 (serialQueryBytes ver sess sn) 2 = sess ∧
    (serialQueryBytes ver sess sn).length = 12 ∧ be32 (serialQueryBytes ver sess sn) 8 = sn ∧
    (ver < 256 → verOf (serialQueryBytes ver sess sn) = ver) ∧
    checkSize (serialQueryBytes ver sess sn) = true := by
  refine ⟨rfl, ?_, rfl, ?_, ?_, ?_⟩
  · simp only [serialQueryBytes, toBE16, toBE32, be16, List.cons_append, List.nil_append, List.getD_cons_zero,
      List.getD_cons_succ]
    omega
  · simp only [serialQueryBytes, toBE16, toBE32, be32, List.cons_append, List.nil_append, List.getD_cons_zero,
      List.getD_cons_succ]
    omega
  · intro hv
    simp only [serialQueryBytes, verOf, List.cons_append, List.getD_cons_zero]
    omega
  · have ht : typeOf (serialQueryBytes ver sess sn) = 1 := rfl
    have hl : lenOf (serialQueryBytes ver sess sn) = 12 := by
      simp [lenOf, serialQueryBytes, toBE16, toBE32, be32]
    unfold checkSize
    simp only [ht, hl]
    rfl

theorem resetQuery_wf (ver : Nat) : WellFormedPdu ver (resetQueryBytes ver) := by
  refine ⟨by simp [resetQueryBytes, toBE32], by simp [resetQueryBytes], ?_,
    by simp [resetQueryBytes, toBE32, Gen.RTR_MAX_PDU_LEN]⟩
  simp [resetQueryBytes, toBE32, be32]

theorem resetQuery_fields (ver : Nat) :
    typeOf (resetQueryBytes ver) = 2 ∧ be16 (resetQueryBytes ver) 2 = 0 ∧ (resetQueryBytes ver).length = 8 ∧
    (ver < 256 → verOf (resetQueryBytes ver) = ver) ∧ checkSize (resetQueryBytes ver) = true := by
  refine ⟨rfl, by simp [resetQueryBytes, toBE32, be16], rfl, ?_, ?_⟩
  · intro hv
    simp only [resetQueryBytes, verOf, List.cons_append, List.getD_cons_zero]
    omega
  · have ht : typeOf (resetQueryBytes ver) = 2 := rfl
    have hl : lenOf (resetQueryBytes ver) = 8 := by simp [lenOf, resetQueryBytes, toBE32, be32]
    unfold checkSize
    simp only [ht, hl]
    rfl

/-! ## Error Reports -/

theorem errorPdu_length (ver : Nat) (enc : List Nat) (code : Nat) (text : List Nat) :
    (errorPduBytes ver enc code text).length = 16 + enc.length + text.length := by
  simp only [errorPduBytes, List.length_append, List.length_cons, List.length_nil, toBE16_length, toBE32_length]
  omega

/-- the Error Report as header ++ encapsulated-length field ++ enc ++ text-length field ++ text -/
theorem errorPdu_split (ver : Nat) (enc : List Nat) (code : Nat) (text : List Nat) :
    errorPduBytes ver enc code text =
      ([ver % 256, 10] ++ toBE16 code ++ toBE32 (16 + enc.length + text.length)) ++
        (toBE32 enc.length ++ (enc ++ (toBE32 text.length ++ text))) := by
  simp only [errorPduBytes, List.append_assoc]

theorem errorPdu_wf (ver : Nat) (enc : List Nat) (code : Nat) (text : List Nat)
    (h : enc.length + text.length + 16 ≤ Gen.RTR_MAX_PDU_LEN) :
    WellFormedPdu ver (errorPduBytes ver enc code text) := by
  have hl := errorPdu_length ver enc code text
  have hm : Gen.RTR_MAX_PDU_LEN = 3248 := rfl
  refine ⟨by omega, ?_, ?_, by omega⟩
  · simp [errorPduBytes]
  · rw [hl]
    have : errorPduBytes ver enc code text =
        ([ver % 256, 10] ++ toBE16 code) ++ (toBE32 (16 + enc.length + text.length) ++
          (toBE32 enc.length ++ enc ++ toBE32 text.length ++ text)) := by
      simp only [errorPduBytes, List.append_assoc]
    rw [this]
    have h4 : ([ver % 256, 10] ++ toBE16 code).length = 4 := rfl
    have := be32_shift0 ([ver % 256, 10] ++ toBE16 code)
      (toBE32 (16 + enc.length + text.length) ++ (toBE32 enc.length ++ enc ++ toBE32 text.length ++ text))
    rw [h4] at this
    rw [this]
    exact be32_toBE32 _ (by omega) _

/-- **The fields of an Error Report**: type 10, the error code, the encapsulated-length field (offset
    8) is `enc.length`, the bytes [12, 12 + enc.length) are `enc`, the text-length field follows and
    is `text.length`, the text follows, and 16 + enc.length + text.length is the total length: the
    text length is consistent with the PDU length. -/
theorem errorPdu_fields (ver : Nat) (enc : List Nat) (code : Nat) (text : List Nat)
    (h : enc.length + text.length + 16 ≤ Gen.RTR_MAX_PDU_LEN) :
    typeOf (errorPduBytes ver enc code text) = 10 ∧
    (code < 65536 → be16 (errorPduBytes ver enc code text) 2 = code) ∧
    be32 (errorPduBytes ver enc code text) 8 = enc.length ∧
    ((errorPduBytes ver enc code text).drop 12).take enc.length = enc ∧
    be32 (errorPduBytes ver enc code text) (12 + enc.length) = text.length ∧
    (errorPduBytes ver enc code text).drop (16 + enc.length) = text ∧
    (errorPduBytes ver enc code text).length = 16 + enc.length + text.length ∧
    checkSize (errorPduBytes ver enc code text) = true := by
  have hm : Gen.RTR_MAX_PDU_LEN = 3248 := rfl
  have hsplit := errorPdu_split ver enc code text
  have h8 : ([ver % 256, 10] ++ toBE16 code ++ toBE32 (16 + enc.length + text.length)).length = 8 := rfl
  have hA : be32 (errorPduBytes ver enc code text) 8 = enc.length := by
    rw [hsplit]
    have := be32_shift0 ([ver % 256, 10] ++ toBE16 code ++ toBE32 (16 + enc.length + text.length))
      (toBE32 enc.length ++ (enc ++ (toBE32 text.length ++ text)))
    rw [h8] at this
    rw [this]
    exact be32_toBE32 _ (by omega) _
  have hsplit2 : errorPduBytes ver enc code text =
      ([ver % 256, 10] ++ toBE16 code ++ toBE32 (16 + enc.length + text.length) ++ toBE32 enc.length ++ enc) ++
        (toBE32 text.length ++ text) := by
    simp only [errorPduBytes, List.append_assoc]
  have h12 : ([ver % 256, 10] ++ toBE16 code ++ toBE32 (16 + enc.length + text.length) ++ toBE32 enc.length ++
      enc).length = 12 + enc.length := by
    simp only [List.length_append, List.length_cons, List.length_nil, toBE16_length, toBE32_length]
  have hB : be32 (errorPduBytes ver enc code text) (12 + enc.length) = text.length := by
    rw [hsplit2]
    have := be32_shift0 ([ver % 256, 10] ++ toBE16 code ++ toBE32 (16 + enc.length + text.length) ++
      toBE32 enc.length ++ enc) (toBE32 text.length ++ text)
    rw [h12] at this
    rw [this]
    exact be32_toBE32 _ (by omega) _
  have hL := errorPdu_length ver enc code text
  have hLen : lenOf (errorPduBytes ver enc code text) = 16 + enc.length + text.length := by
    have := (errorPdu_wf ver enc code text h).2.2.1
    unfold lenOf; rw [this, hL]
  refine ⟨by simp [errorPduBytes, typeOf], ?_, hA, ?_, hB, ?_, hL, ?_⟩
  · intro hc
    have : errorPduBytes ver enc code text = [ver % 256, 10] ++ (toBE16 code ++
        (toBE32 (16 + enc.length + text.length) ++ toBE32 enc.length ++ enc ++ toBE32 text.length ++ text)) := by
      simp only [errorPduBytes, List.append_assoc]
    rw [this]
    have h2 : ([ver % 256, 10] : List Nat).length = 2 := rfl
    have := be16_shift0 [ver % 256, 10] (toBE16 code ++
      (toBE32 (16 + enc.length + text.length) ++ toBE32 enc.length ++ enc ++ toBE32 text.length ++ text))
    rw [h2] at this
    rw [this]
    exact be16_toBE16 _ hc _
  · have : errorPduBytes ver enc code text =
        ([ver % 256, 10] ++ toBE16 code ++ toBE32 (16 + enc.length + text.length) ++ toBE32 enc.length) ++
          (enc ++ (toBE32 text.length ++ text)) := by
      simp only [errorPduBytes, List.append_assoc]
    rw [this]
    have h12' : ([ver % 256, 10] ++ toBE16 code ++ toBE32 (16 + enc.length + text.length) ++
        toBE32 enc.length).length = 12 := rfl
    rw [List.drop_left' h12', List.take_left' rfl]
  · have : errorPduBytes ver enc code text =
        ([ver % 256, 10] ++ toBE16 code ++ toBE32 (16 + enc.length + text.length) ++ toBE32 enc.length ++ enc ++
          toBE32 text.length) ++ text := by
      simp only [errorPduBytes, List.append_assoc]
    rw [this]
    apply List.drop_left'
    simp only [List.length_append, List.length_cons, List.length_nil, toBE16_length, toBE32_length]
    omega
  · unfold checkSize
    have ht : typeOf (errorPduBytes ver enc code text) = 10 := by simp [errorPduBytes, typeOf]
    simp only [ht, hLen, hA, hB, Gen.sizeof_pdu_error]
    have a : ¬ (16 + enc.length + text.length < 4 + 12) := by omega
    have b : ¬ (16 + enc.length + text.length < 4 + 12 + enc.length) := by omega
    simp only [a, b, if_false]
    simp

/-- `rtr_send_error_pdu` never answers an Error Report: if the offending PDU (or the at least
    2-byte prefix of it that is echoed) has type 10, nothing is sent and the environment is
    unchanged -/
theorem no_reply_to_error (c : Conn) (n : Net) (enc : List Nat) (code : Nat) (text : List Nat)
    (h2 : 2 ≤ enc.length) (h10 : enc.getD 1 0 = 10) : sendErrorPdu c n enc code text = (true, n) := by
  unfold sendErrorPdu
  rw [if_pos ⟨h2, h10⟩]

/-- otherwise what is handed to `tr_send_all` is exactly `errorPduBytes` of the socket's version -/
theorem sendErrorPdu_sends (c : Conn) (n : Net) (enc : List Nat) (code : Nat) (text : List Nat)
    (h : ¬ (2 ≤ enc.length ∧ enc.getD 1 0 = 10)) :
    sendErrorPdu c n enc code text = sendPdu c n (errorPduBytes c.version enc code text) := by
  unfold sendErrorPdu
  rw [if_neg h]

/-! ## `tr_send_all`: partial writes -/

/-- one `tr_send` call as the transport saw it: the length offered and what was accepted, or a failure -/
inductive SendCall where
  | ok (len m : Nat) (chunk : List Nat)
  | fail (len : Nat) (block : Bool)

/-- the trace line of the call (the format of the harness) -/
def SendCall.line : SendCall → String
  | .ok len m chunk => s!"W {len} -> {m} {hex chunk}"
  | .fail len false => s!"W {len} -> -1"
  | .fail len true => s!"W {len} -> -2"

def SendCall.rc : SendCall → Int
  | .ok _ m _ => m
  | .fail _ false => -1
  | .fail _ true => -2

def SendCall.isOk : SendCall → Bool
  | .ok .. => true
  | .fail .. => false

def SendCall.bytes : SendCall → List Nat
  | .ok _ _ chunk => chunk
  | .fail .. => []

/-- the bytes the transport accepted, in order -/
def accepted (cs : List SendCall) : List Nat := (cs.map SendCall.bytes).flatten

/-- the call `trSend` makes for send script `q` and buffer `bytes` -/
def sendCall (q : List SendEv) (bytes : List Nat) : SendCall :=
  match q with
  | .err :: _ => .fail bytes.length false
  | .block :: _ => .fail bytes.length true
  | .part k :: _ =>
    .ok bytes.length (if min k bytes.length = 0 then 1 else min k bytes.length)
      (bytes.take (if min k bytes.length = 0 then 1 else min k bytes.length))
  | .all :: _ => .ok bytes.length bytes.length bytes
  | [] => .ok bytes.length bytes.length bytes

theorem trSend_call (n : Net) (bytes : List Nat) :
    trSend n bytes = ((sendCall n.sendQ bytes).rc,
      { n with sendQ := n.sendQ.tail, trace := (sendCall n.sendQ bytes).line :: n.trace }) := by
  unfold trSend sendCall
  cases n with
  | mk tape sendQ openQ now trace threaded =>
    cases sendQ with
    | nil => rfl
    | cons e q => cases e <;> rfl

/-- the calls of the loop of `tr_send_all` (ghost) -/
def sendCalls : Nat → List SendEv → List Nat → List SendCall
  | 0, _, _ => []
  | fuel + 1, q, rest =>
    if rest.isEmpty then []
    else
      match sendCall q rest with
      | .fail len b => [.fail len b]
      | .ok len m chunk => .ok len m chunk :: sendCalls fuel q.tail (rest.drop m)

/-- the result code of the loop: the code of a failing call, else the running total -/
def callsRc : List SendCall → Nat → Int
  | [], total => total
  | .fail _ false :: _, _ => -1
  | .fail _ true :: _, _ => -2
  | .ok _ m _ :: cs, total => callsRc cs (total + m)

/-- **`tr_send_all` and its ghost**: the result code is that of the calls; the trace gains exactly the
    lines of the calls (most recent first); the send script loses one entry per call; nothing
    else changes. -/
theorem sendAllLoop_calls : ∀ (fuel : Nat) (n : Net) (rest : List Nat) (total : Nat),
    sendAllLoop fuel n rest total =
      (callsRc (sendCalls fuel n.sendQ rest) total,
       { n with sendQ := n.sendQ.drop (sendCalls fuel n.sendQ rest).length,
                trace := ((sendCalls fuel n.sendQ rest).map SendCall.line).reverse ++ n.trace }) := by
  intro fuel
  induction fuel with
  | zero => intro n rest total; simp [sendAllLoop, sendCalls, callsRc]
  | succ fuel ih =>
    intro n rest total
    unfold sendAllLoop sendCalls
    by_cases he : rest.isEmpty = true
    · simp [he, callsRc]
    · rw [if_neg he, if_neg he, trSend_call]
      simp only
      cases hc : sendCall n.sendQ rest with
      | fail len b =>
        cases b <;> simp [SendCall.rc, callsRc]
      | ok len m chunk =>
        have hm : ¬ ((m : Int) < 0) := by omega
        simp only [SendCall.rc, hm, if_false, Int.toNat_natCast, ih, callsRc, List.length_cons, List.map_cons,
          List.reverse_cons, List.append_assoc, List.cons_append, List.nil_append]
        cases hq : n.sendQ with
        | nil => simp
        | cons e q => simp

/-- every entry of the send script is a (partial or complete) success -/
def SendEv.isFail : SendEv → Bool
  | .err => true
  | .block => true
  | _ => false

def NoFail (q : List SendEv) : Prop := ∀ e ∈ q, e.isFail = false

instance (q : List SendEv) : Decidable (NoFail q) := by unfold NoFail; infer_instance

theorem sendCall_ok_of_noFail (q : List SendEv) (rest : List Nat) (hq : NoFail q) (hr : rest ≠ []) :
    ∃ m, sendCall q rest = .ok rest.length m (rest.take m) ∧ 1 ≤ m ∧ m ≤ rest.length := by
  have hl : 0 < rest.length := List.length_pos_iff.2 hr
  unfold sendCall
  cases q with
  | nil => exact ⟨rest.length, by simp, hl, Nat.le_refl _⟩
  | cons e q =>
    have := hq e List.mem_cons_self
    cases e with
    | err => cases this
    | block => cases this
    | all => exact ⟨rest.length, by simp, hl, Nat.le_refl _⟩
    | part k =>
      refine ⟨if min k rest.length = 0 then 1 else min k rest.length, rfl, ?_, ?_⟩
      · split <;> omega
      · split <;> omega

/-- what the transport accepted is always a prefix of the buffer -/
theorem accepted_prefix : ∀ (fuel : Nat) (q : List SendEv) (rest : List Nat),
    accepted (sendCalls fuel q rest) <+: rest := by
  intro fuel
  induction fuel with
  | zero => intro q rest; simp [sendCalls, accepted]
  | succ fuel ih =>
    intro q rest
    unfold sendCalls
    by_cases he : rest.isEmpty = true
    · simp [he, accepted]
    · rw [if_neg he]
      cases hc : sendCall q rest with
      | fail len b => simp [accepted, SendCall.bytes]
      | ok len m chunk =>
        simp only [accepted, List.map_cons, List.flatten_cons, SendCall.bytes]
        have hchunk : chunk = rest.take m := by
          unfold sendCall at hc
          cases q with
          | nil => simp only [SendCall.ok.injEq] at hc; rw [← hc.2.2, ← hc.2.1]; simp
          | cons e q =>
            cases e with
            | err => cases hc
            | block => cases hc
            | all => simp only [SendCall.ok.injEq] at hc; rw [← hc.2.2, ← hc.2.1]; simp
            | part k => simp only [SendCall.ok.injEq] at hc; rw [← hc.2.2, ← hc.2.1]
        have := ih q.tail (rest.drop m)
        unfold accepted at this
        obtain ⟨t, ht⟩ := this
        refine ⟨t, ?_⟩
        rw [hchunk, List.append_assoc, ht, List.take_append_drop]

/-- **no failures: everything is sent, whatever the split** -/
theorem sendCalls_all : ∀ (fuel : Nat) (q : List SendEv) (rest : List Nat) (total : Nat), NoFail q →
    rest.length < fuel →
    accepted (sendCalls fuel q rest) = rest ∧ callsRc (sendCalls fuel q rest) total = (total + rest.length : Nat) ∧
    (∀ c ∈ sendCalls fuel q rest, c.isOk = true) := by
  intro fuel
  induction fuel with
  | zero => intro q rest total _ h; omega
  | succ fuel ih =>
    intro q rest total hq hf
    unfold sendCalls
    by_cases he : rest.isEmpty = true
    · have : rest = [] := List.isEmpty_iff.1 he
      subst this
      simp [accepted, callsRc]
    · rw [if_neg he]
      have hr : rest ≠ [] := fun h => he (by rw [h]; rfl)
      obtain ⟨m, hc, h1, h2⟩ := sendCall_ok_of_noFail q rest hq hr
      rw [hc]
      simp only
      have hq' : NoFail q.tail := fun e he => hq e (List.mem_of_mem_tail he)
      obtain ⟨a1, a2, a3⟩ := ih q.tail (rest.drop m) (total + m) hq' (by rw [List.length_drop]; omega)
      refine ⟨?_, ?_, ?_⟩
      · simp only [accepted, List.map_cons, List.flatten_cons, SendCall.bytes]
        unfold accepted at a1
        rw [a1, List.take_append_drop]
      · simp only [callsRc]
        rw [a2, List.length_drop]
        congr 1
        omega
      · intro c hcm
        rcases List.mem_cons.1 hcm with rfl | hcm
        · rfl
        · exact a3 c hcm

/-- a failing call ends the loop with its code; what was accepted before is a proper prefix -/
theorem callsRc_neg_iff : ∀ (cs : List SendCall) (total : Nat),
    callsRc cs total < 0 ↔ ∃ c ∈ cs, c.isOk = false := by
  intro cs
  induction cs with
  | nil => intro total; simp [callsRc]
  | cons c cs ih =>
    intro total
    cases c with
    | fail len b => cases b <;> simp [callsRc, SendCall.isOk]
    | ok len m chunk => simp [callsRc, SendCall.isOk, ih]

/-! ## `tr_send_all` on a transport whose write calls take time (`sendAllT`) -/

/-- a write call on a non-empty buffer fails (-1 / -2) or accepts between 1 byte and all of it -/
theorem trSendT_rc (q : List SendStep) (now : Int) (bytes : List Nat) (t : Int) (hne : bytes ≠ []) :
    (trSendT q now bytes t).1 = -1 ∨ (trSendT q now bytes t).1 = -2 ∨
    ∃ m : Nat, (trSendT q now bytes t).1 = (m : Int) ∧ 1 ≤ m ∧ m ≤ bytes.length := by
  have hl : 1 ≤ bytes.length := by
    cases bytes with
    | nil => exact absurd rfl hne
    | cons _ _ => simp
  unfold trSendT
  cases q with
  | nil => exact Or.inr (Or.inr ⟨bytes.length, rfl, hl, Nat.le_refl _⟩)
  | cons s q =>
    simp only
    cases s.ev with
    | err => exact Or.inl rfl
    | block => exact Or.inr (Or.inl rfl)
    | all => exact Or.inr (Or.inr ⟨bytes.length, rfl, hl, Nat.le_refl _⟩)
    | part k =>
      refine Or.inr (Or.inr ⟨if min k bytes.length = 0 then 1 else min k bytes.length, rfl, ?_, ?_⟩)
      · split <;> omega
      · split <;> omega

theorem sendAllTLoop_spec (endT : Int) : ∀ (fuel : Nat) (q : List SendStep) (now : Int) (rest : List Nat) (total : Nat)
    (handed : List Nat) (lines : List String), rest.length < fuel →
    (0 ≤ (sendAllTLoop endT fuel q now rest total handed lines).rc →
      (sendAllTLoop endT fuel q now rest total handed lines).handed = handed ++ rest ∧
      (sendAllTLoop endT fuel q now rest total handed lines).rc = ((total + rest.length : Nat) : Int)) ∧
    ((sendAllTLoop endT fuel q now rest total handed lines).rc < 0 →
      ∃ k, k < rest.length ∧ (sendAllTLoop endT fuel q now rest total handed lines).handed = handed ++ rest.take k) := by
  intro fuel
  induction fuel with
  | zero => intro q now rest total handed lines h; omega
  | succ fuel ih =>
    intro q now rest total handed lines hf
    unfold sendAllTLoop
    by_cases he : rest.isEmpty = true
    · simp only [he, if_true]
      have : rest = [] := List.isEmpty_iff.mp he
      subst this
      exact ⟨fun _ => ⟨by simp, by simp⟩, fun h => absurd h (Int.not_lt.mpr (Int.natCast_nonneg _))⟩
    · simp only [he, Bool.false_eq_true, if_false]
      have hne : rest ≠ [] := fun h => he (by simp [h])
      have hrc := trSendT_rc q now rest (endT - now) hne
      rcases hs : trSendT q now rest (endT - now) with ⟨rc, q', now', line⟩
      rw [hs] at hrc
      simp only at hrc ⊢
      have hpos : 0 < rest.length := by
        cases rest with
        | nil => exact absurd rfl hne
        | cons _ _ => simp
      rcases hrc with h | h | ⟨m, hm, h1, h2⟩
      · subst h
        simp only [show ((-1 : Int) < 0) from by decide, if_true]
        exact ⟨fun h => absurd h (by decide), fun _ => ⟨0, hpos, by simp⟩⟩
      · subst h
        simp only [show ((-2 : Int) < 0) from by decide, if_true]
        exact ⟨fun h => absurd h (by decide), fun _ => ⟨0, hpos, by simp⟩⟩
      · subst hm
        have hnn : ¬ ((m : Int) < 0) := by omega
        simp only [hnn, if_false, Int.toNat_natCast]
        have hlen : (rest.drop m).length < fuel := by simp only [List.length_drop]; omega
        have := ih q' now' (rest.drop m) (total + m) (handed ++ rest.take m) (lines ++ [line]) hlen
        obtain ⟨a, b⟩ := this
        refine ⟨fun h => ?_, fun h => ?_⟩
        · obtain ⟨a1, a2⟩ := a h
          refine ⟨?_, ?_⟩
          · rw [a1, List.append_assoc, List.take_append_drop]
          · rw [a2]; simp only [List.length_drop]; congr 1; omega
        · obtain ⟨k, hk, e⟩ := b h
          refine ⟨m + k, ?_, ?_⟩
          · simp only [List.length_drop] at hk; omega
          · rw [e, List.append_assoc]
            congr 1
            rw [List.take_add]


def stepsOf (q : List SendEv) : List SendStep := q.map fun e => ⟨0, e⟩

theorem trSendT_trSend (n : Net) (now : Int) (bytes : List Nat) (t : Int) :
    (trSendT (stepsOf n.sendQ) now bytes t).1 = (trSend n bytes).1 ∧
    (trSendT (stepsOf n.sendQ) now bytes t).2.1 = stepsOf (trSend n bytes).2.sendQ ∧
    (trSendT (stepsOf n.sendQ) now bytes t).2.2.1 = now := by
  unfold trSendT trSend stepsOf
  cases h : n.sendQ with
  | nil => simp [Net.emit, h]
  | cons e q =>
    cases e <;> simp [Net.emit]

theorem sendAllTLoop_conservative (endT : Int) : ∀ (fuel : Nat) (n : Net) (now : Int) (rest : List Nat) (total : Nat)
    (handed : List Nat) (lines : List String),
    (sendAllTLoop endT fuel (stepsOf n.sendQ) now rest total handed lines).rc = (sendAllLoop fuel n rest total).1 := by
  intro fuel
  induction fuel with
  | zero => intro n now rest total handed lines; rfl
  | succ fuel ih =>
    intro n now rest total handed lines
    unfold sendAllTLoop sendAllLoop
    by_cases he : rest.isEmpty = true
    · simp only [he, if_true]
    · simp only [he, Bool.false_eq_true, if_false]
      have h := trSendT_trSend n now rest (endT - now)
      rcases hs : trSendT (stepsOf n.sendQ) now rest (endT - now) with ⟨rc, q', now', line⟩
      rcases ho : trSend n rest with ⟨rc0, n1⟩
      rw [hs, ho] at h
      simp only at h ⊢
      obtain ⟨h1, h2, _⟩ := h
      subst h1
      by_cases hneg : rc < 0
      · simp only [hneg, if_true]
      · simp only [hneg, if_false]
        rw [h2]
        exact ih n1 now' _ _ _ _

/-- **conservative extension**: when no time passes inside the write calls, the loop with the clock
    returns what the loop of the protocol model returns -/
theorem sendAllT_conservative (n : Net) (bytes : List Nat) (t : Int) :
    (sendAllT (stepsOf n.sendQ) n.now bytes t).rc = (sendAll n bytes).1 :=
  sendAllTLoop_conservative _ _ _ _ _ _ _ _

end Rtr.P
