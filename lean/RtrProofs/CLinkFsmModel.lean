/-
  CLinkFsmModel: the state machine of the hand-written model (RtrModel/Rtr.lean: `P.fsmStep`, `P.purgeOutdated`, `P.stop`) IS
  the control skeleton of the translated C code (RtrProofs/CLinkFsm.lean) with the model's sub-operations in the place of the
  external calls.

  The specification of the skeleton (`fsmIterSpec`, `purgeSpec`, `stopSpec`) is written once, over any monad with the three
  primitives of `FsmOps`.  CLinkFsm.lean runs it over a world and proves it equal to the translated C functions.  This file
  runs the SAME programs over the model's state (`ModelM`): reading the socket gives the record the model state stands for
  (`view`), an assignment writes the model's field, an external call is the model's sub-operation of that name (`modelCall`:
  `tr_open` = `P.trOpen`, `rtr_send_serial_query` = `P.sendSerialQuery`, `rtr_sync` = `P.sync fuel`,
  `rtr_change_socket_state` = `P.St.change`, `sleep` = `P.doSleep`, the two `src_remove` = the two halves of `P.Tbl.purge`,
  the clock = `now` (never failing), the cancellation switches and the thread calls = nothing) - and proves

      fsmStep_eq_skeleton        fsmIterSpec over the model  =  P.fsmStep            (all states)
      purgeOutdated_eq_skeleton  purgeSpec   over the model  =  P.purgeOutdated
      stop_eq_skeleton           stopSpec    over the model  =  P.stop              (thread recorded as running)

  under `InRange`: the model computes with unbounded integers, the C code with `time_t` / `unsigned int` / `int`: the times
  are in [0, 2^62), the intervals below 2^32, the scripted results of `tr_open` are `int`s.  In particular the branch
  structure, the order of the sub-operations, the arguments (`sleep(retry_interval)` of the socket as the state change left
  it) and the field assignments of the model's `fsmStep` are those of the C text as clang parsed it - not a transcription
  checked by sampling.

  What this does not say: that the model's sub-operations are what the C callees do (that is the business of the other
  ties), and nothing about a failing clock or about `last_update + expire_interval` overflowing (the model has neither).
-/
import RtrProofs.CLinkFsm
import RtrModel.Rtr

namespace Rtr.CLink
open Rtr Rtr.Gen

/-! ## the model state as a socket record -/

def toSState : FsmState → P.SState
  | .connecting => .connecting | .established => .established | .reset => .reset | .sync => .sync
  | .fastReconnect => .fastReconnect | .errorNoDataAvail => .errNoData | .errorNoIncrUpdateAvail => .errNoIncr
  | .errorFatal => .errFatal | .errorTransport => .errTransport | .shutdown => .shutdown | .closed => .closed

def ofSState : P.SState → FsmState
  | .connecting => .connecting | .established => .established | .reset => .reset | .sync => .sync
  | .fastReconnect => .fastReconnect | .errNoData => .errorNoDataAvail | .errNoIncr => .errorNoIncrUpdateAvail
  | .errFatal => .errorFatal | .errTransport => .errorTransport | .shutdown => .shutdown | .closed => .closed

/-- the two enumerations number the states alike -/
theorem ofSState_code (x : P.SState) : P.SState.ofCode (ofSState x).code = some x := by cases x <;> rfl

def ivCode : P.IvMode → Nat
  | .ignoreAny => 0 | .acceptAny => 1 | .defaultMinMax => 2 | .ignoreOnFailure => 3

/-- the socket record a model state stands for -/
def view (st : P.St) : Sock :=
  { refresh_interval := BitVec.ofNat 32 st.tm.refresh
    last_update := BitVec.ofInt 64 st.ss.lastUpdate
    expire_interval := BitVec.ofNat 32 st.tm.expire
    retry_interval := BitVec.ofNat 32 st.tm.retry
    iv_mode := BitVec.ofNat 32 (ivCode st.tm.ivMode)
    state := BitVec.ofNat 32 (ofSState st.c.state).code
    session_id := BitVec.ofNat 32 st.ss.session
    request_session_id := st.ss.reqSession
    serial_number := BitVec.ofNat 32 st.ss.serial
    thread_id := if st.n.threaded then 1#64 else 0#64
    version := BitVec.ofNat 32 st.c.version
    has_received_pdus := st.c.hasReceived
    is_resetting := st.ss.isResetting }

/-- an assignment of the state machine, on the model state -/
def Assign.applyModel : Assign → P.St → P.St
  | .hasReceivedPdus v, st => { st with c := { st.c with hasReceived := v } }
  | .requestSessionId v, st => { st with ss := { st.ss with reqSession := v } }
  | .serialNumber v, st => { st with ss := { st.ss with serial := v.toNat } }
  | .lastUpdate v, st => { st with ss := { st.ss with lastUpdate := v.toInt } }
  | .isResetting v, st => { st with ss := { st.ss with isResetting := v } }
  | .threadId v, st => { st with n := { st.n with threaded := v != 0#64 } }
  | .state v, st => { st with c := { st.c with state := toSState v } }

/-- a C return code of a model operation that succeeds or fails -/
def rcOf (ok : Bool) : BitVec 64 := if ok then 0#64 else BitVec.ofInt 64 (-1)

/-- the external calls, as the model's sub-operations: return value, auxiliary value, state afterwards -/
def modelCall (fuel : Nat) : XOp → P.St → BitVec 64 × BitVec 64 × P.St
  | .open, st => (BitVec.ofInt 64 (P.trOpen st).1, 0#64, (P.trOpen st).2)
  | .close, st => (0#64, 0#64, P.trClose st)
  | .serialQuery, st => (rcOf (P.sendSerialQuery st).1, 0#64, (P.sendSerialQuery st).2)
  | .resetQuery, st => (rcOf (P.sendResetQuery st).1, 0#64, (P.sendResetQuery st).2)
  | .sync, st => (rcOf (P.sync fuel st).1, 0#64, (P.sync fuel st).2)
  | .waitForSync, st => (rcOf (P.waitForSync st).1, 0#64, (P.waitForSync st).2)
  | .changeState s, st => (0#64, 0#64, st.change (toSState s))
  | .sleep k, st => (0#64, 0#64, P.doSleep st k.toNat)
  | .pfxSrcRemove, st => (0#64, 0#64, { st with t := { st.t with pt := P.ptSrcRemove st.t.pt 0 } })
  | .spkiSrcRemove, st => (0#64, 0#64, { st with t := { st.t with kt := P.ktSrcRemove st.t.kt 0 } })
  | .cancelState _, st => (0#64, 0#64, st)
  | .time, st => (0#64, BitVec.ofInt 64 st.n.now, st)
  | .threadCancel, st => (0#64, 0#64, st)
  | .threadJoin, st => (0#64, 0#64, st)

/-- the state machine over the model: fuel of `P.sync`, model state -/
def ModelM (α : Type) := Nat → P.St → Option (α × P.St)

namespace ModelM
protected def pure {α} (a : α) : ModelM α := fun _ st => some (a, st)
protected def bind {α β} (m : ModelM α) (f : α → ModelM β) : ModelM β := fun fuel st =>
  match m fuel st with
  | none => none
  | some (a, st') => f a fuel st'
instance : Monad ModelM := { pure := ModelM.pure, bind := ModelM.bind }

instance : FsmOps ModelM where
  sock := fun _ st => some (view st, st)
  assign l := fun _ st => some ((), l.foldl (fun st a => a.applyModel st) st)
  ask op := fun fuel st =>
    some ({ rc := (modelCall fuel op st).1, aux := (modelCall fuel op st).2.1, st := view (modelCall fuel op st).2.2 },
          (modelCall fuel op st).2.2)
  undefined := fun _ _ => none
end ModelM

/-! ## ranges -/

/-- the model's unbounded numbers are within what the C types hold -/
structure InRange (st : P.St) : Prop where
  lastUpdate_nonneg : 0 ≤ st.ss.lastUpdate
  lastUpdate_lt : st.ss.lastUpdate < 2 ^ 62
  now_nonneg : 0 ≤ st.n.now
  now_lt : st.n.now < 2 ^ 62
  expire_lt : st.tm.expire < 2 ^ 32
  retry_lt : st.tm.retry < 2 ^ 32
  open_int : ∀ rc ∈ st.n.openQ, -2 ^ 31 ≤ rc ∧ rc < 2 ^ 31

theorem time_toInt {a : Int} (h0 : 0 ≤ a) (h1 : a < 2 ^ 63) : (BitVec.ofInt 64 a).toInt = a :=
  BitVec.toInt_ofInt_eq_self (by decide) (by omega) (by omega)

theorem time_eq_zero {a : Int} (h0 : 0 ≤ a) (h1 : a < 2 ^ 63) : BitVec.ofInt 64 a = 0#64 ↔ a = 0 := by
  constructor
  · intro e
    have := time_toInt h0 h1
    rw [e] at this
    simpa using this.symm
  · intro e; rw [e]; rfl

theorem interval_toInt {e : Nat} (h : e < 2 ^ 32) : (BitVec.setWidth 64 (BitVec.ofNat 32 e)).toInt = (e : Int) := by
  rw [BitVec.toInt_eq_toNat_of_lt]
  · simp [BitVec.toNat_setWidth, BitVec.toNat_ofNat]
    omega
  · simp [BitVec.toNat_setWidth, BitVec.toNat_ofNat]
    omega

/-- the purge condition of the C text, on times and intervals in range, is the model's -/
theorem purge_condition {lu now : Int} {e : Nat} (hl0 : 0 ≤ lu) (hl1 : lu < 2 ^ 62) (hn0 : 0 ≤ now) (hn1 : now < 2 ^ 63)
    (he : e < 2 ^ 32) :
    BitVec.saddOverflow (BitVec.ofInt 64 lu) (BitVec.setWidth 64 (BitVec.ofNat 32 e)) = false ∧
    (BitVec.ofInt 64 lu + BitVec.setWidth 64 (BitVec.ofNat 32 e)).slt (BitVec.ofInt 64 now) = decide (lu + e < now) := by
  have h1 := time_toInt hl0 (by omega : lu < 2 ^ 63)
  have h2 := interval_toInt he
  have hov : BitVec.saddOverflow (BitVec.ofInt 64 lu) (BitVec.setWidth 64 (BitVec.ofNat 32 e)) = false := by
    simp only [BitVec.saddOverflow, h1, h2]
    simp
    omega
  refine ⟨hov, ?_⟩
  rw [BitVec.slt_eq_decide, BitVec.toInt_add_of_not_saddOverflow (by simp [hov]), h1, h2, time_toInt hn0 hn1]


/-! ## the skeleton over the model is the model -/

theorem mbind_apply {α β} (m : ModelM α) (f : α → ModelM β) (fuel st) :
    (m >>= f) fuel st = ModelM.bind m f fuel st := rfl
theorem mpure_apply {α} (a : α) (fuel st) : (pure a : ModelM α) fuel st = some (a, st) := rfl
theorem msock_apply (fuel st) : (sock : ModelM Sock) fuel st = some (view st, st) := rfl
theorem massign_apply (l fuel st) :
    (assign l : ModelM Unit) fuel st = some ((), l.foldl (fun st a => a.applyModel st) st) := rfl
theorem mask_apply (op : XOp) (fuel st) :
    (ask op : ModelM Ans) fuel st =
      some ({ rc := (modelCall fuel op st).1, aux := (modelCall fuel op st).2.1, st := view (modelCall fuel op st).2.2 },
            (modelCall fuel op st).2.2) := rfl
theorem mundefined_apply {α} (fuel st) : (undefined : ModelM α) fuel st = none := rfl
theorem mite_apply {α} (c : Prop) [Decidable c] (a b : ModelM α) (fuel st) :
    (if c then a else b) fuel st = if c then a fuel st else b fuel st := by
  split <;> rfl

theorem zero_ne_minusOne : (0#32 = minusOne) = False := by decide

/-- unfold the skeleton over the model, with the given facts -/
local syntax "model_simp" "[" Lean.Parser.Tactic.simpLemma,* "]" : tactic
local macro_rules
  | `(tactic| model_simp [$ts,*]) => `(tactic|
      simp [mbind_apply, mpure_apply, msock_apply, massign_apply, mask_apply, mundefined_apply, mite_apply, ModelM.bind,
        call, callRc, modelCall, Assign.applyModel, C.ExtAns.ret, zero_ne_minusOne, $ts,*])

/-- `rtr_purge_outdated_records`: the skeleton over the model is `P.purgeOutdated` -/
theorem purgeOutdated_eq_skeleton (fuel : Nat) (st : P.St) (hl0 : 0 ≤ st.ss.lastUpdate) (hl1 : st.ss.lastUpdate < 2 ^ 62)
    (hn0 : 0 ≤ st.n.now) (hn1 : st.n.now < 2 ^ 63) (he : st.tm.expire < 2 ^ 32) :
    (purgeSpec : ModelM Unit) fuel st = some ((), P.purgeOutdated st) := by
  obtain ⟨hov, hslt⟩ := purge_condition hl0 hl1 hn0 hn1 he
  have hz := time_eq_zero hl0 (by omega : st.ss.lastUpdate < 2 ^ 63)
  unfold purgeSpec P.purgeOutdated
  by_cases h0 : st.ss.lastUpdate = 0
  · model_simp [view, hz, h0]
  · by_cases hdue : st.ss.lastUpdate + st.tm.expire < st.n.now
    · model_simp [view, hz, h0, hov, hslt, hdue, P.Tbl.purge]
    · model_simp [view, hz, h0, hov, hslt, hdue]


/-- the result of `tr_open` of the scripted transport: 0, or the next scripted value -/
theorem trOpen_rc (st : P.St) : (P.trOpen st).1 = 0 ∨ (P.trOpen st).1 ∈ st.n.openQ := by
  unfold P.trOpen
  rcases st.n.openQ with _ | ⟨x, q⟩ <;> simp

/-- an `int` result compared with -1, through the 64-bit answer of the world -/
theorem int_ret_eq_minusOne {rc : Int} (h0 : -2 ^ 31 ≤ rc) (h1 : rc < 2 ^ 31) :
    BitVec.setWidth 32 (BitVec.ofInt 64 rc) = 4294967295#32 ↔ rc = -1 := by
  rw [← BitVec.toNat_inj]
  simp only [BitVec.toNat_setWidth, BitVec.toNat_ofInt, BitVec.toNat_ofNat]
  omega

theorem rcOf_success (ok : Bool) : (BitVec.setWidth 32 (rcOf ok) = 0#32) ↔ ok = true := by
  cases ok <;> decide

theorem purgeOutdated_n (st : P.St) : (P.purgeOutdated st).n = st.n := by
  unfold P.purgeOutdated
  split
  · rfl
  · split <;> rfl

theorem trOpen_rc_int {st : P.St} (hq : ∀ rc ∈ st.n.openQ, -2 ^ 31 ≤ rc ∧ rc < 2 ^ 31) :
    -2 ^ 31 ≤ (P.trOpen st).1 ∧ (P.trOpen st).1 < 2 ^ 31 := by
  rcases trOpen_rc st with e | e
  · rw [e]; decide
  · exact hq _ e

theorem fsmStep_connecting (fuel : Nat) (st : P.St) (h : InRange st) (hs : st.c.state = .connecting) :
    (fsmIterSpec : ModelM Iter) fuel st =
      some (match P.fsmStep fuel st with | none => (.exit, st) | some st' => (.again, st')) := by
  have hcode : FsmState.ofCode (view st).state = some .connecting := by
    simp only [view, hs, ofSState]; rfl
  have hn63 : st.n.now < 2 ^ 63 := Int.lt_trans h.now_lt (by decide)
  have hp := purgeOutdated_eq_skeleton fuel { st with c := { st.c with hasReceived := false } }
    h.lastUpdate_nonneg h.lastUpdate_lt h.now_nonneg hn63 h.expire_lt
  simp only [hs] at hp
  unfold fsmIterSpec P.fsmStep
  model_simp [hcode, hs, hp]
  generalize hX : P.purgeOutdated _ = X
  have hq : ∀ rc ∈ X.n.openQ, -2 ^ 31 ≤ rc ∧ rc < 2 ^ 31 := by
    rw [← hX, purgeOutdated_n]; exact h.open_int
  have hrc := trOpen_rc_int hq
  by_cases hopen : (P.trOpen X).1 = -1
  · simp [hopen, toSState]
  · by_cases hreq : (P.trOpen X).2.ss.reqSession = true
    · simp [int_ret_eq_minusOne hrc.1 hrc.2, hopen, hreq, view, toSState]
    · by_cases hsent : (P.sendSerialQuery (P.trOpen X).2).1 = true
      · simp [int_ret_eq_minusOne hrc.1 hrc.2, hopen, hreq, view, rcOf_success, hsent, toSState]
      · simp [int_ret_eq_minusOne hrc.1 hrc.2, hopen, hreq, view, rcOf_success, hsent, toSState]


/-! ### what a state change and a sleep leave alone -/

theorem change_ss (st : P.St) (x : P.SState) : (st.change x).ss = st.ss := by
  by_cases h1 : st.c.state = x <;> by_cases h2 : st.c.state = .shutdown <;> simp [P.St.change, P.changeState, h1, h2]
theorem change_tm (st : P.St) (x : P.SState) : (st.change x).tm = st.tm := by
  by_cases h1 : st.c.state = x <;> by_cases h2 : st.c.state = .shutdown <;> simp [P.St.change, P.changeState, h1, h2]
theorem change_t (st : P.St) (x : P.SState) : (st.change x).t = st.t := by
  by_cases h1 : st.c.state = x <;> by_cases h2 : st.c.state = .shutdown <;> simp [P.St.change, P.changeState, h1, h2]
theorem change_now (st : P.St) (x : P.SState) : (st.change x).n.now = st.n.now := by
  by_cases h1 : st.c.state = x <;> by_cases h2 : st.c.state = .shutdown <;>
    simp [P.St.change, P.changeState, h1, h2, P.Net.emit]
theorem change_threaded (st : P.St) (x : P.SState) : (st.change x).n.threaded = st.n.threaded := by
  by_cases h1 : st.c.state = x <;> by_cases h2 : st.c.state = .shutdown <;>
    simp [P.St.change, P.changeState, h1, h2, P.Net.emit]

theorem interval_toNat {e : Nat} (h : e < 2 ^ 32) : (BitVec.ofNat 32 e).toNat = e := by
  rw [BitVec.toNat_ofNat, Nat.mod_eq_of_lt h]

/-- the side conditions of `purgeOutdated_eq_skeleton` after state changes and sleeps -/
local syntax "purge_ranges" ident : tactic
local macro_rules
  | `(tactic| purge_ranges $h) => `(tactic|
      all_goals
        (have h1 := InRange.lastUpdate_nonneg $h; have h2 := InRange.lastUpdate_lt $h; have h3 := InRange.now_nonneg $h
         have h4 := InRange.now_lt $h; have h5 := InRange.expire_lt $h; have h6 := InRange.retry_lt $h
         simp [P.doSleep, P.Net.emit, change_ss, change_tm, change_now]; omega))

theorem fsmStep_errNoData (fuel : Nat) (st : P.St) (h : InRange st) (hs : st.c.state = .errNoData) :
    (fsmIterSpec : ModelM Iter) fuel st =
      some (match P.fsmStep fuel st with | none => (.exit, st) | some st' => (.again, st')) := by
  have hr := interval_toNat h.retry_lt
  unfold fsmIterSpec P.fsmStep
  model_simp [hs, view, FsmState.ofCode_code, ofSState, change_tm, hr, toSState]
  rw [purgeOutdated_eq_skeleton]
  purge_ranges h

theorem fsmStep_errNoIncr (fuel : Nat) (st : P.St) (h : InRange st) (hs : st.c.state = .errNoIncr) :
    (fsmIterSpec : ModelM Iter) fuel st =
      some (match P.fsmStep fuel st with | none => (.exit, st) | some st' => (.again, st')) := by
  unfold fsmIterSpec P.fsmStep
  model_simp [hs, view, FsmState.ofCode_code, ofSState, toSState]
  rw [purgeOutdated_eq_skeleton]
  purge_ranges h

theorem fsmStep_reset (fuel : Nat) (st : P.St) (hs : st.c.state = .reset) :
    (fsmIterSpec : ModelM Iter) fuel st =
      some (match P.fsmStep fuel st with | none => (.exit, st) | some st' => (.again, st')) := by
  unfold fsmIterSpec P.fsmStep
  by_cases hsent : (P.sendResetQuery st).1 = true
  · model_simp [hs, view, FsmState.ofCode_code, ofSState, toSState, rcOf_success, hsent]
  · model_simp [hs, view, FsmState.ofCode_code, ofSState, toSState, rcOf_success, hsent]

theorem fsmStep_sync (fuel : Nat) (st : P.St) (hs : st.c.state = .sync) :
    (fsmIterSpec : ModelM Iter) fuel st =
      some (match P.fsmStep fuel st with | none => (.exit, st) | some st' => (.again, st')) := by
  unfold fsmIterSpec P.fsmStep
  by_cases hsync : (P.sync fuel st).1 = true
  · model_simp [hs, view, FsmState.ofCode_code, ofSState, toSState, rcOf_success, hsync]
  · model_simp [hs, view, FsmState.ofCode_code, ofSState, toSState, rcOf_success, hsync]

theorem fsmStep_established (fuel : Nat) (st : P.St) (hs : st.c.state = .established) :
    (fsmIterSpec : ModelM Iter) fuel st =
      some (match P.fsmStep fuel st with | none => (.exit, st) | some st' => (.again, st')) := by
  unfold fsmIterSpec P.fsmStep
  by_cases hwoke : (P.waitForSync st).1 = true
  · by_cases hsent : (P.sendSerialQuery (P.waitForSync st).2).1 = true
    · model_simp [hs, view, FsmState.ofCode_code, ofSState, toSState, rcOf_success, hwoke, hsent]
    · model_simp [hs, view, FsmState.ofCode_code, ofSState, toSState, rcOf_success, hwoke, hsent]
  · model_simp [hs, view, FsmState.ofCode_code, ofSState, toSState, rcOf_success, hwoke]

theorem fsmStep_fastReconnect (fuel : Nat) (st : P.St) (hs : st.c.state = .fastReconnect) :
    (fsmIterSpec : ModelM Iter) fuel st =
      some (match P.fsmStep fuel st with | none => (.exit, st) | some st' => (.again, st')) := by
  unfold fsmIterSpec P.fsmStep
  model_simp [hs, view, FsmState.ofCode_code, ofSState, toSState]

theorem fsmStep_errTransport (fuel : Nat) (st : P.St) (h : InRange st) (hs : st.c.state = .errTransport) :
    (fsmIterSpec : ModelM Iter) fuel st =
      some (match P.fsmStep fuel st with | none => (.exit, st) | some st' => (.again, st')) := by
  have hr := interval_toNat h.retry_lt
  unfold fsmIterSpec P.fsmStep
  model_simp [hs, view, FsmState.ofCode_code, ofSState, toSState, errorRetry, change_tm, P.trClose, hr]

theorem fsmStep_errFatal (fuel : Nat) (st : P.St) (h : InRange st) (hs : st.c.state = .errFatal) :
    (fsmIterSpec : ModelM Iter) fuel st =
      some (match P.fsmStep fuel st with | none => (.exit, st) | some st' => (.again, st')) := by
  have hr := interval_toNat h.retry_lt
  unfold fsmIterSpec P.fsmStep
  model_simp [hs, view, FsmState.ofCode_code, ofSState, toSState, errorRetry, change_tm, P.trClose, hr]

theorem fsmStep_shutdown (fuel : Nat) (st : P.St) (hs : st.c.state = .shutdown) :
    (fsmIterSpec : ModelM Iter) fuel st =
      some (match P.fsmStep fuel st with | none => (.exit, st) | some st' => (.again, st')) := by
  unfold fsmIterSpec P.fsmStep
  model_simp [hs, view, FsmState.ofCode_code, ofSState, toSState]

theorem fsmStep_closed (fuel : Nat) (st : P.St) (hs : st.c.state = .closed) :
    (fsmIterSpec : ModelM Iter) fuel st =
      some (match P.fsmStep fuel st with | none => (.exit, st) | some st' => (.again, st')) := by
  unfold fsmIterSpec P.fsmStep
  model_simp [hs, view, FsmState.ofCode_code, ofSState, toSState]

/-- ONE ITERATION: the skeleton of the translated C loop body, run over the model's state with the model's sub-operations
    as callees, is the model's `fsmStep` (`none` = the thread exits) -/
theorem fsmStep_eq_skeleton (fuel : Nat) (st : P.St) (h : InRange st) :
    (fsmIterSpec : ModelM Iter) fuel st =
      some (match P.fsmStep fuel st with | none => (.exit, st) | some st' => (.again, st')) := by
  cases hs : st.c.state
  · exact fsmStep_connecting fuel st h hs
  · exact fsmStep_established fuel st hs
  · exact fsmStep_reset fuel st hs
  · exact fsmStep_sync fuel st hs
  · exact fsmStep_fastReconnect fuel st hs
  · exact fsmStep_errNoData fuel st h hs
  · exact fsmStep_errNoIncr fuel st h hs
  · exact fsmStep_errFatal fuel st h hs
  · exact fsmStep_errTransport fuel st h hs
  · exact fsmStep_shutdown fuel st hs
  · exact fsmStep_closed fuel st hs

/-- `rtr_stop` (thread recorded as running): the skeleton over the model is `P.stop` -/
theorem stop_eq_skeleton (fuel : Nat) (st : P.St) (ht : st.n.threaded = true) :
    (stopSpec : ModelM Unit) fuel st = some ((), P.stop st) := by
  unfold stopSpec P.stop
  model_simp [view, change_threaded, ht, toSState, P.trClose, P.Tbl.purge, P.Net.emit]


/-! ## non-vacuity -/

/-- the initial state of the model is in range -/
example : InRange {} := by
  constructor <;> simp

/-- a state with data, a session and scripted `tr_open` results -/
def sampleSt : P.St :=
  { c := { state := .connecting }, ss := { session := 7, serial := 42, reqSession := false, lastUpdate := 100 },
    tm := { refresh := 300, retry := 30, expire := 600 }, n := { openQ := [0, -1], now := 1000 } }

example : InRange sampleSt := by
  constructor <;> simp [sampleSt]

/-- ... on which the skeleton over the model and the model agree by evaluation, too: expired data are purged and the
    state after `tr_open` is RESET -/
example : ((fsmIterSpec : ModelM Iter) 10 sampleSt).map (fun r => (r.1, r.2.c.state, r.2.ss.reqSession, r.2.ss.lastUpdate))
    = some (.again, .reset, true, 0) := by decide
example : (P.fsmStep 10 sampleSt).map (fun r => (r.c.state, r.ss.reqSession, r.ss.lastUpdate)) = some (.reset, true, 0) := by
  decide

end Rtr.CLink
