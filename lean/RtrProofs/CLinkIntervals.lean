/-
  CLinkIntervals: the three interval functions of rtrlib/rtr/packets.c as translated from the C text
  (RtrModel/Generated/CFuns.lean: `C.rtr_check_interval_range`, `C.apply_interval_value`,
  `C.rtr_check_interval_option`) compute, for ALL inputs, what the hand-written models of RtrModel/Intervals.lean
  compute (`checkIntervalRange`, `applyIntervalValue`, `checkIntervalOption`) - so the C17 theorems, proved about
  the models, hold of the C text as translated.

  Reading of the C values:
    uint32_t                      `BitVec 32`  <->  `UInt32`      (`u32Of` = `UInt32.ofBitVec`, `UInt32.toBitVec`)
    int (modes, return codes)     `BitVec 32`  <->  `Int`         (`BitVec.toInt`, `intOf` = `BitVec.ofInt 32`)
    enum rtr_interval_type        `BitVec 32`, unsigned for clang (all enumerators >= 0): `ivTypeOf` = `IvType.ofCode` of
                                  its value
    struct rtr_socket             `C.S_rtr_socket` --`sockOf`--> `Intervals.Sock`; the fields `Sock` does not have
                                  (state, session_id, request_session_id, serial_number, thread_id, is_resetting) and the
                                  non-timer fields it has are all left untouched by the three functions: `SameButTimers`

  The proofs do not follow the shape of the generated terms: they normalise both sides to the same vocabulary
  (`iv_norm`), split on the model's finite cases (interval type, range verdict, the two modes that matter) and close
  the leaves with `simp`.
-/
import RtrProofs.CLink
import RtrModel.Intervals
import RtrProofs.Intervals
import RtrProps.C17

namespace Rtr.CLink
open Rtr Rtr.Gen Rtr.Intervals

-- the normalising simp sets list more than the current C text needs (so that harmless rewrites of it still go through)
set_option linter.unusedSimpArgs false

/-! ### conversions -/

/-- the model's view of a C `uint32_t` -/
abbrev u32Of (x : BitVec 32) : UInt32 := UInt32.ofBitVec x

/-- the C `int` (two's complement, 32 bits) holding a model return / enum code -/
abbrev intOf (c : Int) : BitVec 32 := BitVec.ofInt 32 c

/-- the model's reading of a C `enum rtr_interval_type` value (an `unsigned int`: all enumerators are
    non-negative) -/
def ivTypeOf (t : BitVec 32) : IvType := IvType.ofCode (t.toNat : Int)

/-- the part of `struct rtr_socket` the interval model talks about -/
def sockOf (s : C.S_rtr_socket) : Sock :=
  { refresh := u32Of s.refresh_interval
    expire := u32Of s.expire_interval
    retry := u32Of s.retry_interval
    ivMode := s.iv_mode.toInt
    version := s.version.toNat
    hasReceivedPdus := s.has_received_pdus
    lastUpdate := s.last_update.toInt }

/-- frame condition: `s'` differs from `s` at most in the three timers (every other field of the translated
    `struct rtr_socket`, whatever fields it has, is the same) -/
def SameButTimers (s s' : C.S_rtr_socket) : Prop :=
  s' = { s with refresh_interval := s'.refresh_interval, expire_interval := s'.expire_interval,
                retry_interval := s'.retry_interval }

/-- the C socket `s` with the three timers of the model socket `m` -/
def withTimers (s : C.S_rtr_socket) (m : Sock) : C.S_rtr_socket :=
  { s with refresh_interval := m.refresh.toBitVec, expire_interval := m.expire.toBitVec,
           retry_interval := m.retry.toBitVec }

/-- the frame condition spelled out field by field -/
theorem SameButTimers.fields {s s' : C.S_rtr_socket} (h : SameButTimers s s') :
    s'.last_update = s.last_update ∧ s'.iv_mode = s.iv_mode ∧ s'.state = s.state ∧
    s'.session_id = s.session_id ∧ s'.request_session_id = s.request_session_id ∧
    s'.serial_number = s.serial_number ∧ s'.thread_id = s.thread_id ∧ s'.version = s.version ∧
    s'.has_received_pdus = s.has_received_pdus ∧ s'.is_resetting = s.is_resetting := by
  unfold SameButTimers at h
  rw [h]
  simp

theorem sameButTimers_withTimers (s : C.S_rtr_socket) (m : Sock) : SameButTimers s (withTimers s m) := rfl

@[simp] theorem withTimers_sockOf (s : C.S_rtr_socket) : withTimers s (sockOf s) = s := rfl

@[simp] theorem withTimers_withTimers (s : C.S_rtr_socket) (m m' : Sock) :
    withTimers (withTimers s m) m' = withTimers s m' := rfl

@[simp] theorem withTimers_iv_mode (s : C.S_rtr_socket) (m : Sock) : (withTimers s m).iv_mode = s.iv_mode := rfl

/-- the model socket is recovered from the C socket carrying its timers, provided the model did not touch the
    fields that are not timers -/
theorem sockOf_withTimers (s : C.S_rtr_socket) (m : Sock)
    (h : m.ivMode = (sockOf s).ivMode ∧ m.version = (sockOf s).version ∧
         m.hasReceivedPdus = (sockOf s).hasReceivedPdus ∧ m.lastUpdate = (sockOf s).lastUpdate) :
    sockOf (withTimers s m) = m := by
  cases m; simp_all [sockOf, withTimers]

/-! ### normalisation: the model's comparisons in the vocabulary of the C text -/

/-- `uint16_t minimum = c; ... (uint32_t)minimum`: the generated code truncates to 16 bits and zero-extends,
    which is the model's `u16` - for every constant `c`, not only those that fit -/
theorem u16_eq (c : Nat) : u16 c = u32Of (BitVec.setWidth 32 (BitVec.ofNat 16 c)) := by
  apply UInt32.toNat_inj.mp
  simp [u16]

theorem u32_eq (c : Nat) : u32 c = u32Of (BitVec.ofNat 32 c) := rfl

/-- the value of a C `int` is the code `c` iff the `int` is the 32-bit pattern of `c` -/
theorem int32_toInt_eq_iff (m : BitVec 32) (c : Int) (h : -2147483648 ≤ c ∧ c < 2147483648) :
    m.toInt = c ↔ m = BitVec.ofInt 32 c := by
  have hc : (BitVec.ofInt 32 c).toInt = c := by
    rw [BitVec.toInt_ofInt]; simp only [Int.bmod_def]; omega
  rw [← BitVec.toInt_inj, hc]

/-- the value of a C `unsigned` is the code `c` iff it is the 32-bit pattern of `c` -/
theorem u32_natCast_eq_iff (t : BitVec 32) (c : Int) (h : 0 ≤ c ∧ c < 4294967296) :
    (t.toNat : Int) = c ↔ t = BitVec.ofInt 32 c := by
  have hc : (BitVec.ofInt 32 c).toNat = c.toNat := by
    rw [BitVec.toNat_ofInt]; omega
  rw [← BitVec.toNat_inj, hc]; omega

theorem range_cases (r : Range) : r = .below ∨ r = .inside ∨ r = .above := by cases r <;> simp

/-- the four readings of an `enum rtr_interval_type` value, with what each says about the C value -/
theorem ivTypeOf_cases (t : BitVec 32) :
    (ivTypeOf t = .expiration ∧ t = intOf RTR_INTERVAL_TYPE_EXPIRATION) ∨
    (ivTypeOf t = .refresh ∧ t = intOf RTR_INTERVAL_TYPE_REFRESH) ∨
    (ivTypeOf t = .retry ∧ t = intOf RTR_INTERVAL_TYPE_RETRY) ∨
    (ivTypeOf t = .invalid ∧ t ≠ intOf RTR_INTERVAL_TYPE_EXPIRATION ∧ t ≠ intOf RTR_INTERVAL_TYPE_REFRESH ∧
      t ≠ intOf RTR_INTERVAL_TYPE_RETRY) := by
  unfold ivTypeOf IvType.ofCode
  simp (disch := decide) only [u32_natCast_eq_iff]
  repeat' split
  all_goals simp_all

/-- constants and enum codes to literals; C literals and model literals to one form; the model's comparisons of an
    `Int` code to equalities of bit vectors; closed comparisons decided -/
local macro "iv_norm" loc:(Lean.Parser.Tactic.location)? : tactic =>
  `(tactic| simp (disch := decide) only [u16_eq, u32_eq, intOf,
      RTR_EXPIRATION_MIN, RTR_EXPIRATION_MAX, RTR_REFRESH_MIN, RTR_REFRESH_MAX, RTR_RETRY_MIN, RTR_RETRY_MAX,
      RTR_INTERVAL_MODE_ACCEPT_ANY, RTR_INTERVAL_MODE_DEFAULT_MIN_MAX, RTR_INTERVAL_MODE_IGNORE_ANY,
      RTR_INTERVAL_MODE_IGNORE_ON_FAILURE, RTR_INTERVAL_TYPE_EXPIRATION, RTR_INTERVAL_TYPE_REFRESH,
      RTR_INTERVAL_TYPE_RETRY, RTR_BELOW_INTERVAL_RANGE, RTR_INSIDE_INTERVAL_RANGE, RTR_ABOVE_INTERVAL_RANGE,
      RTR_SUCCESS, RTR_ERROR, int32_toInt_eq_iff,
      BitVec.reduceSetWidth, BitVec.reduceOfNat, BitVec.reduceOfInt, BitVec.reduceEq, BitVec.reduceBEq,
      BitVec.reduceNe, Int.reduceNeg, beq_iff_eq, bne_iff_ne, ne_eq, Bool.or_eq_true, Bool.and_eq_true,
      decide_eq_true_eq, if_true, if_false, ite_true, ite_false, or_true, true_or, or_false, false_or,
      not_true_eq_false, not_false_eq_true, reduceCtorEq, reduceIte] $[$loc]?)

/-! ### rtr_check_interval_range -/

/-- `rtr_check_interval_range` as translated is always defined and returns the code of the model's verdict -/
theorem rtr_check_interval_range_eq (i lo hi : BitVec 32) :
    C.rtr_check_interval_range i lo hi =
      some (intOf (checkIntervalRange (u32Of i) (u32Of lo) (u32Of hi)).code) := by
  unfold C.rtr_check_interval_range checkIntervalRange
  simp only [BitVec.ult_eq_decide, BitVec.ule_eq_decide, UInt32.lt_iff_toNat_lt, UInt32.le_iff_toNat_le, gt_iff_lt,
    ge_iff_le, UInt32.toNat_ofBitVec, decide_eq_true_eq, Bool.not_eq_true', decide_eq_false_iff_not, Nat.not_lt,
    Nat.not_le, Bool.and_eq_true, Bool.or_eq_true, Bool.not_eq_eq_eq_not, Bool.not_true, Bool.not_false]
  repeat' split
  all_goals first | rfl | decide | omega | (simp_all <;> omega)

/-! ### apply_interval_value -/

theorem applyIntervalValue_frame (m : Sock) (v : UInt32) (t : IvType) :
    (applyIntervalValue m v t).ivMode = m.ivMode ∧ (applyIntervalValue m v t).version = m.version ∧
    (applyIntervalValue m v t).hasReceivedPdus = m.hasReceivedPdus ∧
    (applyIntervalValue m v t).lastUpdate = m.lastUpdate := by
  cases t <;> simp [applyIntervalValue]

/-- functional form: always defined; the socket afterwards is the socket before with the model's timers -/
theorem apply_interval_value_eq' (s : C.S_rtr_socket) (interval type_ : BitVec 32) :
    C.apply_interval_value s interval type_ =
      some (withTimers s (applyIntervalValue (sockOf s) (u32Of interval) (ivTypeOf type_))) := by
  unfold C.apply_interval_value
  rcases ivTypeOf_cases type_ with ⟨ht, h⟩ | ⟨ht, h⟩ | ⟨ht, h⟩ | ⟨ht, h⟩
  all_goals
    simp only [ht, applyIntervalValue]
    iv_norm at h
    simp [h, withTimers, sockOf]

/-- `apply_interval_value` as translated is always defined, does to the socket what the model does, and leaves every
    field other than the three timers untouched -/
theorem apply_interval_value_eq (s : C.S_rtr_socket) (interval type_ : BitVec 32) :
    ∃ s', C.apply_interval_value s interval type_ = some s' ∧
      sockOf s' = applyIntervalValue (sockOf s) (u32Of interval) (ivTypeOf type_) ∧
      SameButTimers s s' :=
  ⟨_, apply_interval_value_eq' s interval type_,
    sockOf_withTimers s _ (applyIntervalValue_frame _ _ _), sameButTimers_withTimers s _⟩

/-! ### rtr_check_interval_option -/

theorem checkIntervalOption_frame (m : Sock) (mode : Int) (x : UInt32) (t : IvType) :
    (checkIntervalOption m mode x t).1.ivMode = m.ivMode ∧ (checkIntervalOption m mode x t).1.version = m.version ∧
    (checkIntervalOption m mode x t).1.hasReceivedPdus = m.hasReceivedPdus ∧
    (checkIntervalOption m mode x t).1.lastUpdate = m.lastUpdate := by
  cases t
  · rw [cio_expiration]; exact ⟨rfl, rfl, rfl, rfl⟩
  · rw [cio_refresh]; exact ⟨rfl, rfl, rfl, rfl⟩
  · rw [cio_retry]; exact ⟨rfl, rfl, rfl, rfl⟩
  · exact ⟨rfl, rfl, rfl, rfl⟩

/-- the model's return value is a C `int`: reading back the 32-bit pattern gives the code -/
theorem checkIntervalOption_rc (m : Sock) (mode : Int) (x : UInt32) (t : IvType) :
    (intOf (checkIntervalOption m mode x t).2).toInt = (checkIntervalOption m mode x t).2 := by
  have ok : (intOf RTR_SUCCESS).toInt = RTR_SUCCESS := by decide
  have err : (intOf RTR_ERROR).toInt = RTR_ERROR := by decide
  cases t
  · rw [cio_expiration]; exact ok
  · rw [cio_refresh]; exact ok
  · rw [cio_retry]; exact ok
  · exact err

/-- functional form: always defined; return value and socket are the model's -/
theorem rtr_check_interval_option_eq' (s : C.S_rtr_socket) (mode interval type_ : BitVec 32) :
    C.rtr_check_interval_option s mode interval type_ =
      some (intOf (checkIntervalOption (sockOf s) mode.toInt (u32Of interval) (ivTypeOf type_)).2,
            withTimers s (checkIntervalOption (sockOf s) mode.toInt (u32Of interval) (ivTypeOf type_)).1) := by
  unfold C.rtr_check_interval_option
  simp only [rtr_check_interval_range_eq, apply_interval_value_eq']
  unfold checkIntervalOption
  rcases ivTypeOf_cases type_ with ⟨ht, h⟩ | ⟨ht, h⟩ | ⟨ht, h⟩ | ⟨ht, h⟩
  all_goals
    simp only [ht, bounds]
    iv_norm at h ⊢
    simp only [h]
    iv_norm
    first
    | rfl
    | (generalize checkIntervalRange (u32Of interval) _ _ = r
       by_cases hm1 : mode = intOf RTR_INTERVAL_MODE_ACCEPT_ANY <;>
       by_cases hm2 : mode = intOf RTR_INTERVAL_MODE_DEFAULT_MIN_MAX <;>
       rcases range_cases r with rfl | rfl | rfl <;>
       iv_norm at hm1 hm2 <;>
       (try simp_all [Range.code, RTR_BELOW_INTERVAL_RANGE, RTR_INSIDE_INTERVAL_RANGE, RTR_ABOVE_INTERVAL_RANGE,
          BitVec.ult_eq_decide, BitVec.ule_eq_decide]) <;>
       (try bv_omega))

/-- `rtr_check_interval_option` as translated is always defined; its return value and its effect on the socket are the
    model's; every field other than the three timers is untouched.  (`uint16_t minimum`: see `u16_eq`.) -/
theorem rtr_check_interval_option_eq (s : C.S_rtr_socket) (mode interval type_ : BitVec 32) :
    ∃ rc s', C.rtr_check_interval_option s mode interval type_ = some (rc, s') ∧
      (sockOf s', rc.toInt) = checkIntervalOption (sockOf s) mode.toInt (u32Of interval) (ivTypeOf type_) ∧
      SameButTimers s s' := by
  refine ⟨_, _, rtr_check_interval_option_eq' s mode interval type_, ?_, sameButTimers_withTimers s _⟩
  rw [sockOf_withTimers s _ (checkIntervalOption_frame _ _ _ _), checkIntervalOption_rc]

/-! ### transfer of C17 theorems to the C text as translated -/

/-- per call, on the model: in any mode but ACCEPT_ANY a socket in range stays in range -/
theorem checkIntervalOption_in_range (m : Sock) (mode : Int) (x : UInt32) (t : IvType)
    (hs : m.InRange) (hm : mode ≠ RTR_INTERVAL_MODE_ACCEPT_ANY) :
    (checkIntervalOption m mode x t).1.InRange := by
  have hb := C17.bounds_are_rfc8210
  unfold Sock.InRange C17.InRange at hs ⊢
  obtain ⟨h1, h2, h3⟩ := hs
  cases t
  · rw [cio_expiration]
    have b := optVal_in_range mode x (u16 RTR_EXPIRATION_MIN) (u32 RTR_EXPIRATION_MAX) m.expire hm
      (by rw [hb.2.2.2.2.1, hb.2.2.2.2.2.1]; decide) (by rw [hb.2.2.2.2.1, hb.2.2.2.2.2.1]; exact h2)
    rw [hb.2.2.2.2.1, hb.2.2.2.2.2.1] at b
    exact ⟨h1, b, h3⟩
  · rw [cio_refresh]
    have a := optVal_in_range mode x (u16 RTR_REFRESH_MIN) (u32 RTR_REFRESH_MAX) m.refresh hm
      (by rw [hb.1, hb.2.1]; decide) (by rw [hb.1, hb.2.1]; exact h1)
    rw [hb.1, hb.2.1] at a
    exact ⟨a, h2, h3⟩
  · rw [cio_retry]
    have c := optVal_in_range mode x (u16 RTR_RETRY_MIN) (u32 RTR_RETRY_MAX) m.retry hm
      (by rw [hb.2.2.1, hb.2.2.2.1]; decide) (by rw [hb.2.2.1, hb.2.2.2.1]; exact h3)
    rw [hb.2.2.1, hb.2.2.2.1] at c
    exact ⟨h1, h2, c⟩
  · exact ⟨h1, h2, h3⟩

/-- **C17 on the C text, per call.**  `rtr_check_interval_option` as translated, called with any mode integer other
    than ACCEPT_ANY, any 32-bit interval and any type value (valid or not) on a socket whose three timers are within
    the RFC 8210 ranges: it is defined, the timers are within the ranges afterwards, and nothing else in the socket
    changed.  (`Rtr.C17.in_range_unless_accept_any` is this, three times in a row: `c_eod_intervals_in_range`.) -/
theorem c_check_interval_option_in_range (s : C.S_rtr_socket) (mode interval type_ : BitVec 32)
    (hs : (sockOf s).InRange) (hm : mode.toInt ≠ RTR_INTERVAL_MODE_ACCEPT_ANY) :
    ∃ rc s', C.rtr_check_interval_option s mode interval type_ = some (rc, s') ∧
      (sockOf s').InRange ∧ SameButTimers s s' := by
  obtain ⟨rc, s', h, hmodel, hframe⟩ := rtr_check_interval_option_eq s mode interval type_
  refine ⟨rc, s', h, ?_, hframe⟩
  have := checkIntervalOption_in_range (sockOf s) mode.toInt (u32Of interval) (ivTypeOf type_) hs hm
  rw [← hmodel] at this
  exact this

theorem sockOf_withTimers' (s : C.S_rtr_socket) (m : Sock) :
    sockOf (withTimers s m) = { sockOf s with refresh := m.refresh, expire := m.expire, retry := m.retry } := rfl

/-- the interval part of the End-of-Data branch of rtr_sync_receive_and_store_pdus (packets.c; that function has a loop
    and is not translated), composed BY HAND from the translated callee exactly as the C text composes it: guard on the
    PDU version and `iv_mode`, then three calls with `rtr_socket->iv_mode` re-read each time, each followed by
    `if (interv_retval == RTR_ERROR) goto cleanup`.  Result: socket and whether processing continues. -/
def cEodIntervals (s : C.S_rtr_socket) (ver : BitVec 8) (e r y : BitVec 32) : Option (C.S_rtr_socket × Bool) :=
  if ver.toNat = RTR_PROTOCOL_VERSION_1 ∧ s.iv_mode ≠ intOf RTR_INTERVAL_MODE_IGNORE_ANY then
    match C.rtr_check_interval_option s s.iv_mode e (intOf RTR_INTERVAL_TYPE_EXPIRATION) with
    | none => none
    | some (rc1, s1) =>
      if rc1 = intOf RTR_ERROR then some (s1, false) else
      match C.rtr_check_interval_option s1 s1.iv_mode r (intOf RTR_INTERVAL_TYPE_REFRESH) with
      | none => none
      | some (rc2, s2) =>
        if rc2 = intOf RTR_ERROR then some (s2, false) else
        match C.rtr_check_interval_option s2 s2.iv_mode y (intOf RTR_INTERVAL_TYPE_RETRY) with
        | none => none
        | some (rc3, s3) =>
          if rc3 = intOf RTR_ERROR then some (s3, false) else some (s3, true)
  else some (s, true)

/-- that composition of translated calls is the model's `eodIntervals`, for all inputs -/
theorem c_eod_intervals_eq (s : C.S_rtr_socket) (ver : BitVec 8) (e r y : BitVec 32) :
    cEodIntervals s ver e r y =
      some (withTimers s (eodIntervals (sockOf s) ver.toNat (u32Of e) (u32Of r) (u32Of y)).1,
            (eodIntervals (sockOf s) ver.toNat (u32Of e) (u32Of r) (u32Of y)).2) := by
  have t1 : ivTypeOf (intOf RTR_INTERVAL_TYPE_EXPIRATION) = .expiration := by decide
  have t2 : ivTypeOf (intOf RTR_INTERVAL_TYPE_REFRESH) = .refresh := by decide
  have t3 : ivTypeOf (intOf RTR_INTERVAL_TYPE_RETRY) = .retry := by decide
  have ne : ¬ intOf RTR_SUCCESS = intOf RTR_ERROR := by decide
  have hmode : s.iv_mode ≠ intOf RTR_INTERVAL_MODE_IGNORE_ANY ↔ (sockOf s).ivMode ≠ RTR_INTERVAL_MODE_IGNORE_ANY := by
    show _ ↔ s.iv_mode.toInt ≠ _
    rw [ne_eq, ne_eq, int32_toInt_eq_iff _ _ (by decide)]
  rw [eodIntervals_eq]
  unfold cEodIntervals
  simp only [hmode]
  by_cases hc : ver.toNat = RTR_PROTOCOL_VERSION_1 ∧ (sockOf s).ivMode ≠ RTR_INTERVAL_MODE_IGNORE_ANY
  · simp only [if_pos hc, rtr_check_interval_option_eq', t1, t2, t3, cio_expiration, cio_refresh, cio_retry,
      withTimers_iv_mode, withTimers_withTimers, sockOf_withTimers', ne, if_false]
    rfl
  · simp only [if_neg hc]
    rfl

/-- **`Rtr.C17.in_range_unless_accept_any` on the C text.**  For every `iv_mode` other than ACCEPT_ANY, every version
    byte and all 32-bit values sent: the End-of-Data interval handling, run on the translated
    `rtr_check_interval_option`, is defined, leaves the three timers of a socket that was in range in range, and
    changes nothing else in the socket. -/
theorem c_eod_intervals_in_range (s : C.S_rtr_socket) (ver : BitVec 8) (e r y : BitVec 32)
    (hs : (sockOf s).InRange) (hm : s.iv_mode.toInt ≠ RTR_INTERVAL_MODE_ACCEPT_ANY) :
    ∃ s' ok, cEodIntervals s ver e r y = some (s', ok) ∧ (sockOf s').InRange ∧ SameButTimers s s' :=
  ⟨_, _, c_eod_intervals_eq s ver e r y,
    C17.in_range_unless_accept_any (sockOf s) ver.toNat (u32Of e) (u32Of r) (u32Of y) hs hm,
    sameButTimers_withTimers s _⟩

end Rtr.CLink
