/-
  BitsLink6: the literal IPv6 bit code of rtrlib/lib/ipv6.c (`ipv6GetBits`, the four-word cascade
  of `lrtr_ipv6_get_bits` over `lrtr_get_bits`) computes the abstract bit view (`bitAt`,
  `prefixEq`) the trie model is written against.  Companion of BitsLink (IPv4).

  Structure: (1) the cascade is reduced to one closed form per call shape — for
  (first = lvl, quantity = 1) exactly the word `lvl / 32` is touched, with `getBits32` at offset
  `lvl % 32`; for (first = 0, quantity = len) word `k` receives `getBits32 w_k 0 (min (len - 32k) 32)`;
  (2) bit `j` of word `k` of `V6.ofNat a` is bit `96 - 32k + j` of `a`; (3) the per-word IPv4
  lemmas (`getBits32_one`, `mask_top`) finish.
-/
import RtrProofs.BitsLink

namespace Rtr

/-! ## the cascade in closed form -/

/-- `lrtr_ipv6_get_bits(a, lvl, 1)`: only the word holding bit `lvl` is consulted -/
theorem ipv6GetBits_one (a : V6) (lvl : Nat) :
    ipv6GetBits a lvl 1 =
      if lvl ≤ 31 then ⟨getBits32 a.w0 lvl 1, 0, 0, 0⟩
      else if lvl ≤ 63 then ⟨0, getBits32 a.w1 (lvl - 32) 1, 0, 0⟩
      else if lvl ≤ 95 then ⟨0, 0, getBits32 a.w2 (lvl - 64) 1, 0⟩
      else if lvl ≤ 127 then ⟨0, 0, 0, getBits32 a.w3 (lvl - 96) 1⟩
      else ⟨0, 0, 0, 0⟩ := by
  unfold ipv6GetBits
  by_cases h1 : lvl ≤ 31
  · have a1 : ¬ (lvl ≤ 63 ∧ lvl + 1 > 32) := by omega
    have a2 : ¬ (lvl ≤ 95 ∧ lvl + 1 > 64) := by omega
    have a3 : ¬ (lvl ≤ 127 ∧ lvl + 1 > 96) := by omega
    simp [h1, a1, a2, a3]
  · by_cases h2 : lvl ≤ 63
    · have a1 : (lvl ≤ 63 ∧ lvl + 1 > 32) := by omega
      have a2 : ¬ (lvl ≤ 95 ∧ lvl + 1 > 64) := by omega
      have a3 : ¬ (lvl ≤ 127 ∧ lvl + 1 > 96) := by omega
      have b1 : ¬ lvl < 32 := by omega
      simp [h1, h2, a1, a2, a3, b1]
    · by_cases h3 : lvl ≤ 95
      · have a1 : ¬ (lvl ≤ 63 ∧ lvl + 1 > 32) := by omega
        have a2 : (lvl ≤ 95 ∧ lvl + 1 > 64) := by omega
        have a3 : ¬ (lvl ≤ 127 ∧ lvl + 1 > 96) := by omega
        have b1 : ¬ lvl < 64 := by omega
        simp [h1, h2, h3, a2, a3, b1]
      · by_cases h4 : lvl ≤ 127
        · have a1 : ¬ (lvl ≤ 63 ∧ lvl + 1 > 32) := by omega
          have a2 : ¬ (lvl ≤ 95 ∧ lvl + 1 > 64) := by omega
          have a3 : (lvl ≤ 127 ∧ lvl + 1 > 96) := by omega
          have b1 : ¬ lvl < 96 := by omega
          simp [h1, h2, h3, h4, a3, b1]
        · have a1 : ¬ (lvl ≤ 63 ∧ lvl + 1 > 32) := by omega
          have a2 : ¬ (lvl ≤ 95 ∧ lvl + 1 > 64) := by omega
          have a3 : ¬ (lvl ≤ 127 ∧ lvl + 1 > 96) := by omega
          simp [h1, h2, h3, h4]

theorem getBits32_zero_num (v : BitVec 32) (f : Nat) : getBits32 v f 0 = 0#32 := by
  simp [getBits32]

/-- `lrtr_ipv6_get_bits(a, 0, len)`: word `k` receives its top `min (len - 32k) 32` bits
    (`bits_left` counts down by at most 32 per word; a skipped word is the 0-bit case) -/
theorem ipv6GetBits_prefix (a : V6) (len : Nat) :
    ipv6GetBits a 0 len =
      ⟨getBits32 a.w0 0 (min len 32), getBits32 a.w1 0 (min (len - 32) 32),
       getBits32 a.w2 0 (min (len - 64) 32), getBits32 a.w3 0 (min (len - 96) 32)⟩ := by
  unfold ipv6GetBits
  have q0 : (if len > 32 then 32 else len) = min len 32 := by split <;> omega
  simp only [Nat.zero_le, true_and, Nat.zero_add, if_true, q0,
    show (0 < 32) = True from by simp, show (0 < 64) = True from by simp, show (0 < 96) = True from by simp]
  by_cases c1 : len > 32
  · have l1 : len - min len 32 = len - 32 := by omega
    have q1 : (if len - 32 > 32 then 32 else len - 32) = min (len - 32) 32 := by split <;> omega
    simp only [c1, if_true, l1, q1]
    by_cases c2 : len > 64
    · have l2 : len - 32 - min (len - 32) 32 = len - 64 := by omega
      have q2 : (if len - 64 > 32 then 32 else len - 64) = min (len - 64) 32 := by split <;> omega
      simp only [c2, if_true, l2, q2]
      by_cases c3 : len > 96
      · have l3 : len - 64 - min (len - 64) 32 = len - 96 := by omega
        have q3 : (if len - 96 > 32 then 32 else len - 96) = min (len - 96) 32 := by split <;> omega
        simp only [c3, if_true, l3, q3]
      · have z3 : min (len - 96) 32 = 0 := by omega
        simp only [c3, if_false, z3, getBits32_zero_num]
    · have z2 : min (len - 64) 32 = 0 := by omega
      have z3 : min (len - 96) 32 = 0 := by omega
      have c3 : ¬ len > 96 := by omega
      simp only [c2, c3, if_false, z2, z3, getBits32_zero_num]
  · have z1 : min (len - 32) 32 = 0 := by omega
    have z2 : min (len - 64) 32 = 0 := by omega
    have z3 : min (len - 96) 32 = 0 := by omega
    have c2 : ¬ len > 64 := by omega
    have c3 : ¬ len > 96 := by omega
    simp only [c1, c2, c3, if_false, z1, z2, z3, getBits32_zero_num]

/-! ## bits of the words of `V6.ofNat` -/

/-- bit `j` of the 32-bit word cut out of `a` at shift `s` is bit `s + j` of `a` -/
theorem word_getLsbD (a s j : Nat) (hj : j < 32) :
    (BitVec.ofNat 32 (a / 2^s)).getLsbD j = a.testBit (s + j) := by
  rw [ofNat_getLsbD _ _ hj, Nat.testBit_div_two_pow, Nat.add_comm]

theorem V6_ofNat_w0 (a : Nat) : (V6.ofNat a).w0 = BitVec.ofNat 32 (a / 2^96) := rfl
theorem V6_ofNat_w1 (a : Nat) : (V6.ofNat a).w1 = BitVec.ofNat 32 (a / 2^64) := rfl
theorem V6_ofNat_w2 (a : Nat) : (V6.ofNat a).w2 = BitVec.ofNat 32 (a / 2^32) := rfl
theorem V6_ofNat_w3 (a : Nat) : (V6.ofNat a).w3 = BitVec.ofNat 32 (a / 2^0) := by
  simp [V6.ofNat]

theorem V6_isZero_mk (a b c d : BitVec 32) :
    (V6.mk a b c d).isZero = (a == 0 && b == 0 && c == 0 && d == 0) := rfl

/-! ## `is_left_child` -/

/-- `is_left_child` as compiled from the C text (IPv6) is the abstract `isLeft` at every level,
    including levels at and beyond the width.  (No bound on `a` is needed: `V6.ofNat` keeps the
    low 128 bits, and so does `bitAt 128`.) -/
theorem isLeftChildC6_eq (a : Nat) (lvl : Nat) :
    isLeftChildC6 (V6.ofNat a) lvl = isLeft 128 a lvl := by
  unfold isLeftChildC6 isLeft bitAt
  rw [ipv6GetBits_one]
  by_cases h1 : lvl ≤ 31
  · rw [if_pos h1, V6_isZero_mk, getBits32_one _ _ h1, V6_ofNat_w0, word_getLsbD _ _ _ (by omega)]
    have e : 96 + (31 - lvl) = 128 - 1 - lvl := by omega
    have hl : lvl < 128 := by omega
    simp [e, hl]
  · rw [if_neg h1]
    by_cases h2 : lvl ≤ 63
    · rw [if_pos h2, V6_isZero_mk, getBits32_one _ _ (by omega), V6_ofNat_w1, word_getLsbD _ _ _ (by omega)]
      have e : 64 + (31 - (lvl - 32)) = 128 - 1 - lvl := by omega
      have hl : lvl < 128 := by omega
      simp [e, hl]
    · rw [if_neg h2]
      by_cases h3 : lvl ≤ 95
      · rw [if_pos h3, V6_isZero_mk, getBits32_one _ _ (by omega), V6_ofNat_w2, word_getLsbD _ _ _ (by omega)]
        have e : 32 + (31 - (lvl - 64)) = 128 - 1 - lvl := by omega
        have hl : lvl < 128 := by omega
        simp [e, hl]
      · rw [if_neg h3]
        by_cases h4 : lvl ≤ 127
        · rw [if_pos h4, V6_isZero_mk, getBits32_one _ _ (by omega), V6_ofNat_w3, word_getLsbD _ _ _ (by omega)]
          have e : 0 + (31 - (lvl - 96)) = 128 - 1 - lvl := by omega
          have hl : lvl < 128 := by omega
          simp [e, hl]
        · rw [if_neg h4, V6_isZero_mk]
          have hl : ¬ lvl < 128 := by omega
          simp [hl]

/-! ## the covering test -/

/-- one word of the covering test: the top `n` bits of the two words agree (`n = 0`: vacuous) -/
theorem word_cover (P Q n : Nat) (h : n ≤ 32) :
    getBits32 (BitVec.ofNat 32 P) 0 n = getBits32 (BitVec.ofNat 32 Q) 0 n ↔
      ∀ j, j < 32 → 32 - n ≤ j → P.testBit j = Q.testBit j := by
  by_cases h0 : n = 0
  · subst h0
    simp only [getBits32_zero_num, true_iff]
    intro j hj hle; omega
  · unfold getBits32
    have h' : ¬ (n = 0 ∨ 0 > 31) := by omega
    simp only [h', if_false]
    constructor
    · intro e i hi hle
      have := congrArg (fun x => x.getLsbD i) e
      simp only [BitVec.getLsbD_and] at this
      rw [mask_top n i h0 h hi, ofNat_getLsbD P i hi, ofNat_getLsbD Q i hi] at this
      simpa [hle] using this
    · intro e
      apply BitVec.eq_of_getLsbD_eq
      intro i hi
      simp only [BitVec.getLsbD_and]
      rw [mask_top n i h0 h hi, ofNat_getLsbD P i hi, ofNat_getLsbD Q i hi]
      by_cases hle : 32 - n ≤ i
      · simp [hle, e i hi hle]
      · simp [hle]

theorem word_cover_shift (p q s n : Nat) (h : n ≤ 32) :
    getBits32 (BitVec.ofNat 32 (p / 2^s)) 0 n = getBits32 (BitVec.ofNat 32 (q / 2^s)) 0 n ↔
      ∀ j, j < 32 → 32 - n ≤ j → p.testBit (s + j) = q.testBit (s + j) := by
  rw [word_cover _ _ _ h]
  simp only [Nat.testBit_div_two_pow, Nat.add_comm]

theorem V6_eq_iff (a b c d a' b' c' d' : BitVec 32) :
    (V6.mk a b c d = V6.mk a' b' c' d') ↔ a = a' ∧ b = b' ∧ c = c' ∧ d = d' := by
  constructor
  · intro h; injection h with h1 h2 h3 h4; exact ⟨h1, h2, h3, h4⟩
  · rintro ⟨rfl, rfl, rfl, rfl⟩; rfl

/-- the covering test of `trie_lookup` as compiled from the C text (IPv6), bit by bit -/
theorem coversC6_iff (p q : Nat) (len : Nat) (h : len ≤ 128) :
    coversC6 (V6.ofNat p) len (V6.ofNat q) = true ↔
      ∀ i, i < len → p.testBit (127 - i) = q.testBit (127 - i) := by
  unfold coversC6
  rw [beq_iff_eq, ipv6GetBits_prefix, ipv6GetBits_prefix, V6_eq_iff,
    V6_ofNat_w0, V6_ofNat_w1, V6_ofNat_w2, V6_ofNat_w3, V6_ofNat_w0, V6_ofNat_w1, V6_ofNat_w2, V6_ofNat_w3,
    word_cover_shift p q 96 _ (by omega), word_cover_shift p q 64 _ (by omega),
    word_cover_shift p q 32 _ (by omega), word_cover_shift p q 0 _ (by omega)]
  constructor
  · rintro ⟨k0, k1, k2, k3⟩ i hi
    by_cases c0 : i < 32
    · have := k0 (31 - i) (by omega) (by omega)
      have e : 96 + (31 - i) = 127 - i := by omega
      rw [e] at this; exact this
    · by_cases c1 : i < 64
      · have := k1 (63 - i) (by omega) (by omega)
        have e : 64 + (63 - i) = 127 - i := by omega
        rw [e] at this; exact this
      · by_cases c2 : i < 96
        · have := k2 (95 - i) (by omega) (by omega)
          have e : 32 + (95 - i) = 127 - i := by omega
          rw [e] at this; exact this
        · have := k3 (127 - i) (by omega) (by omega)
          have e : 0 + (127 - i) = 127 - i := by omega
          rw [e] at this; exact this
  · intro k
    refine ⟨?_, ?_, ?_, ?_⟩
    · intro j hj hle
      have := k (31 - j) (by omega)
      have e : 127 - (31 - j) = 96 + j := by omega
      rw [e] at this; exact this
    · intro j hj hle
      have := k (63 - j) (by omega)
      have e : 127 - (63 - j) = 64 + j := by omega
      rw [e] at this; exact this
    · intro j hj hle
      have := k (95 - j) (by omega)
      have e : 127 - (95 - j) = 32 + j := by omega
      rw [e] at this; exact this
    · intro j hj hle
      have := k (127 - j) (by omega)
      have e : 127 - (127 - j) = 0 + j := by omega
      rw [e] at this; exact this

/-- the covering test of `trie_lookup` as compiled from the C text (IPv6) is `prefixEq` -/
theorem coversC6_eq (p q : Nat) (hp : p < 2^128) (hq : q < 2^128) (len : Nat) (h : len ≤ 128) :
    coversC6 (V6.ofNat p) len (V6.ofNat q) = prefixEq 128 p q len := by
  have key : coversC6 (V6.ofNat p) len (V6.ofNat q) = true ↔ prefixEq 128 p q len = true := by
    rw [coversC6_iff p q len h, prefixEq_iff 128 p q len h hp hq]
    constructor
    · intro k i hi
      rw [bitAt_lt _ _ _ (by omega), bitAt_lt _ _ _ (by omega)]
      exact k i hi
    · intro k i hi
      have := k i hi
      rw [bitAt_lt _ _ _ (by omega), bitAt_lt _ _ _ (by omega)] at this
      exact this
  cases hc : coversC6 (V6.ofNat p) len (V6.ofNat q) <;> cases hpe : prefixEq 128 p q len <;> try rfl
  · have := key.2 hpe; rw [hc] at this; cases this
  · have := key.1 hc; rw [hpe] at this; cases this

end Rtr
