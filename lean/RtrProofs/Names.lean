/-
  Proofs about the to-string function IR (C20): if the extracted body passes the finite, decidable
  side conditions `Sound`, then for EVERY integer argument the function returns the name of the
  converted argument when that is a declared enumerator value, NULL otherwise, and never reads
  outside the table.
-/
import RtrModel.NamesIR

namespace Rtr.NamesIR

/-- specification: the identifier of the enumerator whose value is `v`, if any -/
def specName (enums : List (String × Int)) (v : Int) : Option String :=
  (enums.find? (fun e => e.2 == v)).map (·.1)

theorem two_pow_pos (b : Nat) : (0 : Int) < 2 ^ b := Int.pow_pos (by decide)

theorem two_pow_succ_pred (b : Nat) (h : 1 ≤ b) : (2 : Int) ^ b = 2 * 2 ^ (b - 1) := by
  obtain ⟨k, rfl⟩ : ∃ k, b = k + 1 := ⟨b - 1, by omega⟩
  simp [Int.pow_succ, Int.mul_comm]

theorem two_pow_mono {a b : Nat} (h : a ≤ b) : (2 : Int) ^ a ≤ 2 ^ b := by
  have : (2 : Nat) ^ a ≤ 2 ^ b := Nat.pow_le_pow_right (by decide) h
  exact_mod_cast this

/-- every value of the parameter type lies in `[-2^(bits-1), 2^bits)` -/
theorem wrap_range (t : CInt) (hb : 1 ≤ t.bits) (v : Int) :
    -(2 ^ (t.bits - 1)) ≤ t.wrap v ∧ t.wrap v < 2 ^ t.bits := by
  have hm := two_pow_pos t.bits
  have hh := two_pow_pos (t.bits - 1)
  have h2 := two_pow_succ_pred t.bits hb
  have r0 := Int.emod_nonneg v (Int.ne_of_gt hm)
  have r1 := Int.emod_lt_of_pos v hm
  unfold CInt.wrap
  simp only
  split <;> omega

/-- an unsigned conversion of a value in `[-2^(bits-1), 2^bits)` -/
theorem wrap_unsigned (t : CInt) (hu : t.signed = false) (v : Int)
    (h1 : -(2 ^ t.bits) ≤ v) (h2 : v < 2 ^ t.bits) :
    t.wrap v = if v < 0 then v + 2 ^ t.bits else v := by
  have hm := two_pow_pos t.bits
  unfold CInt.wrap
  simp only [hu, Bool.false_eq_true, false_and, if_false]
  split
  · have : (v + 2 ^ t.bits) % 2 ^ t.bits = v + 2 ^ t.bits := Int.emod_eq_of_lt (by omega) (by omega)
    rw [← this, Int.add_emod_right]
  · exact Int.emod_eq_of_lt (by omega) h2

/-- guards of the form `(T)p >= c` / `(T)p > c-1` with `T` unsigned -/
def Guard.upper? (g : Guard) : Option (CInt × Int) :=
  match g.convs, g.op with
  | [t], .ge => some (t, g.const)
  | [t], .gt => some (t, g.const + 1)
  | _, _ => none

/-- is `g` an upper-bound check with bound `B` performed in an unsigned type at least as wide as
    the parameter type (so that it also catches negative parameter values)? -/
def Guard.isUpper (g : Guard) (p : CInt) (B : Nat) : Bool :=
  match g.upper? with
  | some (t, c) => !t.signed && decide (1 ≤ p.bits) && decide (p.bits ≤ t.bits) && decide (c = (B : Int))
      && decide ((B : Int) ≤ 2 ^ (t.bits - 1))
  | none => false

/-- a signed conversion of a value in `[-2^(bits-1), 2^bits)` -/
theorem wrap_signed (t : CInt) (hs : t.signed = true) (hb : 1 ≤ t.bits) (v : Int)
    (h1 : -(2 ^ (t.bits - 1)) ≤ v) (h2 : v < 2 ^ t.bits) :
    t.wrap v = if v < 2 ^ (t.bits - 1) then v else v - 2 ^ t.bits := by
  have hm := two_pow_pos t.bits
  have hh := two_pow_pos (t.bits - 1)
  have e2 := two_pow_succ_pred t.bits hb
  unfold CInt.wrap
  simp only [hs, true_and]
  by_cases hv : 0 ≤ v
  · have hmod : v % 2 ^ t.bits = v := Int.emod_eq_of_lt hv h2
    rw [hmod]
    split <;> split <;> omega
  · have hmod : v % 2 ^ t.bits = v + 2 ^ t.bits := by
      have : (v + 2 ^ t.bits) % 2 ^ t.bits = v + 2 ^ t.bits := Int.emod_eq_of_lt (by omega) (by omega)
      rw [← this, Int.add_emod_right]
    rw [hmod]
    split <;> split <;> omega

/-- are `g1`, `g2` the pair `(T)p < 0`, `(T)p >= B` performed in one signed type `T` at least as wide as
    the parameter type? -/
def Guard.isLowerUpper (g1 g2 : Guard) (p : CInt) (B : Nat) : Bool :=
  match g1.convs, g1.op, g2.upper? with
  | [t], .lt, some (t2, c) => decide (g1.const = 0) && decide (t = t2) && t.signed && decide (1 ≤ p.bits)
      && decide (p.bits ≤ t.bits) && decide (c = (B : Int)) && decide ((B : Int) ≤ 2 ^ (t.bits - 1))
  | _, _, _ => false

/-- the bound of the first upper-bound check -/
def ToStrFn.bound (f : ToStrFn) : Nat :=
  match f.guards.filterMap (fun g => g.upper?) with
  | (_, c) :: _ => c.toNat
  | [] => 0

/-- finite, decidable side conditions under which the function meets its specification -/
def ToStrFn.Sound (f : ToStrFn) (tbl : List (Option String)) (enums : List (String × Int)) : Bool :=
  f.shape == .guarded
  && (f.guards.any (fun g => g.isUpper f.paramTy f.bound)
      || f.guards.any (fun g1 => f.guards.any (fun g2 => g1.isLowerUpper g2 f.paramTy f.bound)))
  && (List.range f.bound).all (fun n => f.runV tbl (n : Int) == .ok (specName enums (n : Int)))
  && enums.all (fun e => decide (0 ≤ e.2) && decide (e.2 < (f.bound : Int)))

theorem Guard.isUpper_fires (g : Guard) (p : CInt) (B : Nat) (h : g.isUpper p B = true) (i : Int) :
    g.fires (p.wrap i) = true ↔ ¬ (0 ≤ p.wrap i ∧ p.wrap i < B) := by
  unfold Guard.isUpper at h
  split at h
  next t c hup =>
    simp only [Bool.and_eq_true, Bool.not_eq_true', decide_eq_true_eq] at h
    obtain ⟨⟨⟨⟨hu, hp1⟩, hpt⟩, hc⟩, hB⟩ := h
    have hr := wrap_range p hp1 i
    have hm1 := two_pow_mono (a := p.bits - 1) (b := t.bits - 1) (by omega)
    have hm2 := two_pow_mono hpt
    have ht1 : 1 ≤ t.bits := by omega
    have h2 := two_pow_succ_pred t.bits ht1
    have hh := two_pow_pos (t.bits - 1)
    have hw := wrap_unsigned t hu (p.wrap i) (by omega) (by omega)
    unfold Guard.upper? at hup
    unfold Guard.fires
    split at hup
    next t' hc' ho =>
      simp only [Option.some.injEq, Prod.mk.injEq] at hup
      obtain ⟨rfl, rfl⟩ := hup
      rw [hc', ho]
      simp only [List.foldl_cons, List.foldl_nil, Cmp.eval, decide_eq_true_eq, hw]
      split <;> omega
    next t' hc' ho =>
      simp only [Option.some.injEq, Prod.mk.injEq] at hup
      obtain ⟨rfl, rfl⟩ := hup
      rw [hc', ho]
      simp only [List.foldl_cons, List.foldl_nil, Cmp.eval, decide_eq_true_eq, hw]
      split <;> omega
    next => exact absurd hup (by simp)
  next => exact absurd h (by simp)

theorem Guard.upper_fires_signed (g : Guard) (t : CInt) (c : Int) (hup : g.upper? = some (t, c)) (v : Int) :
    g.fires v = decide (t.wrap v ≥ c) := by
  unfold Guard.upper? at hup
  unfold Guard.fires
  split at hup
  next t' hc' ho =>
    simp only [Option.some.injEq, Prod.mk.injEq] at hup
    obtain ⟨rfl, rfl⟩ := hup
    rw [hc', ho]
    rfl
  next t' hc' ho =>
    simp only [Option.some.injEq, Prod.mk.injEq] at hup
    obtain ⟨rfl, rfl⟩ := hup
    rw [hc', ho]
    simp only [List.foldl_cons, List.foldl_nil, Cmp.eval]
    by_cases h : t'.wrap v > g.const <;> simp [h] <;> omega
  next => exact absurd hup (by simp)

theorem Guard.isLowerUpper_fires (g1 g2 : Guard) (p : CInt) (B : Nat) (h : g1.isLowerUpper g2 p B = true) (i : Int)
    (hv : ¬ (0 ≤ p.wrap i ∧ p.wrap i < B)) : g1.fires (p.wrap i) = true ∨ g2.fires (p.wrap i) = true := by
  unfold Guard.isLowerUpper at h
  split at h
  next t t2 c hc1 ho1 hup =>
    simp only [Bool.and_eq_true, decide_eq_true_eq] at h
    obtain ⟨⟨⟨⟨⟨⟨h0, rfl⟩, hs⟩, hp1⟩, hpt⟩, hc⟩, hB⟩ := h
    have hr := wrap_range p hp1 i
    have hm1 := two_pow_mono (a := p.bits - 1) (b := t.bits - 1) (by omega)
    have hm2 := two_pow_mono hpt
    have ht1 : 1 ≤ t.bits := by omega
    have e2 := two_pow_succ_pred t.bits ht1
    have hh := two_pow_pos (t.bits - 1)
    have hw := wrap_signed t hs ht1 (p.wrap i) (by omega) (by omega)
    have f2 := g2.upper_fires_signed t c hup (p.wrap i)
    have f1 : g1.fires (p.wrap i) = decide (t.wrap (p.wrap i) < 0) := by
      unfold Guard.fires
      rw [hc1, ho1, h0]
      rfl
    rw [f1, f2, hw]
    simp only [decide_eq_true_eq]
    split <;> omega
  next => exact absurd h (by simp)

theorem specName_none_of_bound (enums : List (String × Int)) (B : Int)
    (h : enums.all (fun e => decide (0 ≤ e.2) && decide (e.2 < B)) = true) (v : Int)
    (hv : ¬ (0 ≤ v ∧ v < B)) : specName enums v = none := by
  unfold specName
  rw [Option.map_eq_none_iff, List.find?_eq_none]
  intro e he
  have := List.all_eq_true.mp h e he
  simp only [Bool.and_eq_true, decide_eq_true_eq] at this
  simp only [beq_iff_eq]
  omega

/-- **Main lemma.** A sound function returns, for every integer argument `i`, the name of the
    converted argument if that is a declared value and NULL otherwise; in particular it never reads
    outside its table and is never `unknown`. -/
theorem ToStrFn.run_spec (f : ToStrFn) (tbl : List (Option String)) (enums : List (String × Int))
    (h : f.Sound tbl enums = true) (i : Int) :
    f.run tbl i = .ok (specName enums (f.paramTy.wrap i)) := by
  unfold ToStrFn.Sound at h
  simp only [Bool.and_eq_true] at h
  obtain ⟨⟨⟨hs, hw⟩, hfin⟩, hen⟩ := h
  have hcover : ¬ (0 ≤ f.paramTy.wrap i ∧ f.paramTy.wrap i < f.bound) →
      f.guards.any (·.fires (f.paramTy.wrap i)) = true := by
    intro hv
    rcases (Bool.or_eq_true _ _).mp hw with hw | hw
    · obtain ⟨g, hg, hup⟩ := List.any_eq_true.mp hw
      exact List.any_eq_true.mpr ⟨g, hg, (g.isUpper_fires f.paramTy f.bound hup i).mpr hv⟩
    · obtain ⟨g1, hg1, hw2⟩ := List.any_eq_true.mp hw
      obtain ⟨g2, hg2, hp⟩ := List.any_eq_true.mp hw2
      rcases g1.isLowerUpper_fires g2 f.paramTy f.bound hp i hv with h | h
      · exact List.any_eq_true.mpr ⟨g1, hg1, h⟩
      · exact List.any_eq_true.mpr ⟨g2, hg2, h⟩
  unfold ToStrFn.run
  by_cases hv : 0 ≤ f.paramTy.wrap i ∧ f.paramTy.wrap i < f.bound
  · have hn := List.all_eq_true.mp hfin (f.paramTy.wrap i).toNat (by
      rw [List.mem_range]; omega)
    have : ((f.paramTy.wrap i).toNat : Int) = f.paramTy.wrap i := by omega
    rw [this] at hn
    exact eq_of_beq hn
  · have hany := hcover hv
    rw [specName_none_of_bound enums f.bound hen _ hv]
    unfold ToStrFn.runV
    have hs' : f.shape = .guarded := eq_of_beq hs
    rw [hs']
    simp only [hany, if_true]

/-- For arguments that are values of a 32-bit `int` or `unsigned int`, conversion to a 32-bit enum
    type does not change which enumerator (if any) is named. -/
theorem specName_wrap32 (p : CInt) (hp : p.bits = 32) (enums : List (String × Int)) (B : Int)
    (hB : B ≤ 2 ^ 31)
    (hen : enums.all (fun e => decide (0 ≤ e.2) && decide (e.2 < B)) = true)
    (i : Int) (h1 : -(2 ^ 31) ≤ i) (h2 : i < 2 ^ 32) :
    specName enums (p.wrap i) = specName enums i := by
  have key : p.wrap i = i ∨ (¬ (0 ≤ p.wrap i ∧ p.wrap i < B) ∧ ¬ (0 ≤ i ∧ i < B)) := by
    have e32 : (2 : Int) ^ 32 = 4294967296 := by decide
    have e31 : (2 : Int) ^ 31 = 2147483648 := by decide
    unfold CInt.wrap
    simp only [hp]
    rw [e32] at h2 ⊢
    rw [e31] at h1 hB
    by_cases hs : p.signed = true
    · simp only [hs, true_and]
      split <;> omega
    · simp only [hs]
      omega
  rcases key with h | ⟨ha, hb⟩
  · rw [h]
  · rw [specName_none_of_bound enums B hen _ ha, specName_none_of_bound enums B hen _ hb]

end Rtr.NamesIR
