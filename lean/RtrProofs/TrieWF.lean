/-
  TrieWF: the well-formedness invariant of the prefix trie and the structural lemmas about
  `insert` (trie_insert), `removeRoot` (trie_remove at the found node), `lookupExact`
  (trie_lookup_exact) and `removeId` (pfx_table_remove_id).  Helper lemmas only; the property
  theorems are in RtrProps/C01, C02, C09.
-/
import RtrModel.PfxTable

namespace Rtr

def Trie.All (P : NodeC → Prop) : Trie → Prop
  | .nil => True
  | .node c l r => P c ∧ l.All P ∧ r.All P

theorem All_iff {P : NodeC → Prop} (t : Trie) : t.All P ↔ ∀ c ∈ t.nodes, P c := by
  induction t with
  | nil => simp [Trie.All, Trie.nodes]
  | node c l r ihl ihr =>
    simp only [Trie.All, Trie.nodes, List.mem_append, List.mem_cons, ihl, ihr]
    constructor
    · rintro ⟨h0, hl, hr⟩ x (hx | hx | hx)
      · exact hl x hx
      · exact hx ▸ h0
      · exact hr x hx
    · intro h
      exact ⟨h c (Or.inr (Or.inl rfl)), fun x hx => h x (Or.inl hx), fun x hx => h x (Or.inr (Or.inr hx))⟩


def hostZero (w : Nat) (a : Addr) (len : Nat) : Prop := ∀ i, len ≤ i → i < w → bitAt w a i = false

/-- a stored node: length within the family's width, address within the width, host bits zero,
    payload non-empty and without a repeated (asn, max_len, socket) element -/
def NodeOK (w : Nat) (c : NodeC) : Prop :=
  c.len ≤ w ∧ c.addr < 2^w ∧ hostZero w c.addr c.len ∧ c.data ≠ [] ∧ c.data.Nodup

def Below (w : Nat) (p : NodeC) (d : Nat) (side : Bool) (c : NodeC) : Prop :=
  bitAt w c.addr d = side ∧ p.len ≤ c.len ∧ ¬ (c.addr = p.addr ∧ c.len = p.len)

def WF (w : Nat) : Trie → Nat → Prop
  | .nil, _ => True
  | .node c l r, d => NodeOK w c ∧ l.All (Below w c d false) ∧ r.All (Below w c d true) ∧ WF w l (d+1) ∧ WF w r (d+1)

/-- every node of `t` has the first `d` bits given by `pb` (the path from the root) -/
def OnPath (w : Nat) (t : Trie) (d : Nat) (pb : Nat → Bool) : Prop :=
  t.All (fun c => ∀ i, i < d → bitAt w c.addr i = pb i)


theorem bitAt_lt (w : Nat) (a : Addr) (i : Nat) (h : i < w) : bitAt w a i = a.testBit (w - 1 - i) := by
  simp [bitAt, h]

theorem bitAt_ge (w : Nat) (a : Addr) (i : Nat) (h : w ≤ i) : bitAt w a i = false := by
  simp [bitAt]; omega

theorem addr_ext (w : Nat) (a b : Nat) (ha : a < 2^w) (hb : b < 2^w)
    (h : ∀ i, i < w → bitAt w a i = bitAt w b i) : a = b := by
  apply Nat.eq_of_testBit_eq
  intro j
  by_cases hj : j < w
  · have := h (w - 1 - j) (by omega)
    rw [bitAt_lt _ _ _ (by omega), bitAt_lt _ _ _ (by omega)] at this
    have e : w - 1 - (w - 1 - j) = j := by omega
    rw [e] at this; exact this
  · have hj' : w ≤ j := by omega
    have p2 : 2^w ≤ 2^j := Nat.pow_le_pow_right (by omega) hj'
    rw [Nat.testBit_lt_two_pow (Nat.lt_of_lt_of_le ha p2), Nat.testBit_lt_two_pow (Nat.lt_of_lt_of_le hb p2)]

def DepthOK : Trie → Nat → Prop
  | .nil, _ => True
  | .node c l r, d => d ≤ c.len ∧ DepthOK l (d+1) ∧ DepthOK r (d+1)

def ext (pb : Nat → Bool) (d : Nat) (b : Bool) : Nat → Bool := fun i => if i = d then b else pb i

theorem onPath_child (w : Nat) (t : Trie) (d : Nat) (pb : Nat → Bool) (b : Bool)
    (h : OnPath w t d pb) (hb : t.All (fun c => bitAt w c.addr d = b)) : OnPath w t (d+1) (ext pb d b) := by
  unfold OnPath at *
  rw [All_iff] at *
  intro c hc i hi
  unfold ext
  by_cases e : i = d
  · simp [e]; exact hb c hc
  · simp [e]; exact h c hc i (by omega)

theorem All_mono {P Q : NodeC → Prop} (t : Trie) (h : ∀ c, P c → Q c) : t.All P → t.All Q := by
  rw [All_iff, All_iff]; intro hp c hc; exact h c (hp c hc)

/-- two well-formed keys of the same length `d ≤ w` that agree on the first `d` bits are equal -/
theorem key_eq (w : Nat) (a b : NodeC) (ha : NodeOK w a) (hb : NodeOK w b) (d : Nat)
    (hla : a.len = d) (hlb : b.len = d) (h : ∀ i, i < d → bitAt w a.addr i = bitAt w b.addr i) :
    a.addr = b.addr := by
  apply addr_ext w _ _ ha.2.1 hb.2.1
  intro i hi
  by_cases hid : i < d
  · exact h i hid
  · rw [ha.2.2.1 i (by omega) hi, hb.2.2.1 i (by omega) hi]

/-- C01 key lemma: a node at depth `d` of a well-formed trie has `d ≤ len` -/
theorem depthOK (w : Nat) : ∀ (t : Trie) (d : Nat) (pb : Nat → Bool), WF w t d → OnPath w t d pb →
    (∀ c l r, t = .node c l r → d ≤ c.len) → DepthOK t d := by
  intro t
  induction t with
  | nil => intros; trivial
  | node c l r ihl ihr =>
    intro d pb ⟨hc, hl, hr, wl, wr⟩ ⟨pc, pl, pr⟩ hroot
    have hd : d ≤ c.len := hroot c l r rfl
    have child : ∀ (s : Trie) (b : Bool), WF w s (d+1) → s.All (Below w c d b) → OnPath w s d pb →
        (∀ c' l' r', s = .node c' l' r' → d + 1 ≤ c'.len) := by
      intro s b ws hs ps c' l' r' e
      subst e
      obtain ⟨⟨_, hlen, hne⟩, _, _⟩ := hs
      obtain ⟨pc', _, _⟩ := ps
      by_cases h1 : d + 1 ≤ c'.len
      · exact h1
      · exfalso
        have e1 : c'.len = d := by omega
        have e2 : c.len = d := by omega
        apply hne
        refine ⟨key_eq w c' c ws.1 hc d e1 e2 ?_, by omega⟩
        intro i hi; rw [pc' i hi, pc i hi]
    refine ⟨hd, ?_, ?_⟩
    · exact ihl (d+1) (ext pb d false) wl (onPath_child w l d pb false pl (All_mono l (fun _ h => h.1) hl)) (child l false wl hl pl)
    · exact ihr (d+1) (ext pb d true) wr (onPath_child w r d pb true pr (All_mono r (fun _ h => h.1) hr)) (child r true wr hr pr)


/-! ## the covering test -/

/-- RFC 6811 covering, bit by bit -/
def Covers (w : Nat) (c : NodeC) (q : Addr) (n : Nat) : Prop :=
  c.len ≤ n ∧ ∀ i, i < c.len → bitAt w c.addr i = bitAt w q i

theorem prefixEq_iff (w : Nat) (a q : Addr) (len : Nat) (hl : len ≤ w) (ha : a < 2^w) (hq : q < 2^w) :
    prefixEq w a q len = true ↔ ∀ i, i < len → bitAt w a i = bitAt w q i := by
  unfold prefixEq
  rw [beq_iff_eq]
  constructor
  · intro h i hi
    rw [bitAt_lt _ _ _ (by omega), bitAt_lt _ _ _ (by omega)]
    have := congrArg (fun x => x.testBit (len - 1 - i)) h
    simp only [Nat.testBit_shiftRight] at this
    have e : w - len + (len - 1 - i) = w - 1 - i := by omega
    rw [e] at this; exact this
  · intro h
    apply Nat.eq_of_testBit_eq
    intro j
    simp only [Nat.testBit_shiftRight]
    by_cases hj : w - len + j < w
    · have := h (len - 1 - j) (by omega)
      rw [bitAt_lt _ _ _ (by omega), bitAt_lt _ _ _ (by omega)] at this
      have e : w - 1 - (len - 1 - j) = w - len + j := by omega
      rw [e] at this; exact this
    · have p2 : 2^w ≤ 2^(w - len + j) := Nat.pow_le_pow_right (by omega) (by omega)
      rw [Nat.testBit_lt_two_pow (Nat.lt_of_lt_of_le ha p2), Nat.testBit_lt_two_pow (Nat.lt_of_lt_of_le hq p2)]

/-- the model's covering condition, as a Bool -/
def covB (w : Nat) (q : Addr) (n : Nat) (c : NodeC) : Bool := decide (c.len ≤ n) && prefixEq w c.addr q c.len

theorem covB_iff (w : Nat) (q : Addr) (n : Nat) (c : NodeC) (hc : NodeOK w c) (hq : q < 2^w) :
    covB w q n c = true ↔ Covers w c q n := by
  unfold covB Covers
  rw [Bool.and_eq_true, decide_eq_true_eq, prefixEq_iff w c.addr q c.len hc.1 hc.2.1 hq]

theorem depthOK_all : ∀ (t : Trie) (d : Nat), DepthOK t d → t.All (fun c => d ≤ c.len) := by
  intro t
  induction t with
  | nil => intros; trivial
  | node c l r ihl ihr =>
    intro d ⟨h0, hl, hr⟩
    exact ⟨h0, All_mono l (fun _ h => by omega) (ihl _ hl), All_mono r (fun _ h => by omega) (ihr _ hr)⟩

theorem WF_nodeOK (w : Nat) : ∀ (t : Trie) (d : Nat), WF w t d → t.All (NodeOK w) := by
  intro t
  induction t with
  | nil => intros; trivial
  | node c l r ihl ihr => intro d ⟨hc, _, _, wl, wr⟩; exact ⟨hc, ihl _ wl, ihr _ wr⟩

/-- the subtree on the other side of the query bit holds no covering node -/
theorem no_cover_other_side (w : Nat) (q : Addr) (n : Nat) (s : Trie) (c : NodeC) (d : Nat) (b : Bool)
    (hs : s.All (Below w c d b)) (hd : DepthOK s (d+1)) (hq : bitAt w q d ≠ b) :
    ∀ x ∈ s.nodes, ¬ Covers w x q n := by
  intro x hx ⟨_, hc⟩
  have hb := ((All_iff s).1 hs x hx).1
  have hl := (All_iff s).1 (depthOK_all s (d+1) hd) x hx
  exact hq ((hc d (by omega)).symm.trans hb)

/-- host bits zero, as arithmetic: the address is a multiple of `2^(w - len)` -/
theorem hostZero_of_mod (w : Nat) (a : Addr) (len : Nat) (h : a % 2^(w - len) = 0) : hostZero w a len := by
  intro i hli hiw
  rw [bitAt_lt _ _ _ hiw]
  have e : a = 2^(w - len) * (a / 2^(w - len)) := by
    have := Nat.div_add_mod a (2^(w - len))
    rw [h, Nat.add_zero] at this
    exact this.symm
  rw [e, Nat.testBit_two_pow_mul]
  have : ¬ (w - 1 - i ≥ w - len) := by omega
  simp [this]

end Rtr
