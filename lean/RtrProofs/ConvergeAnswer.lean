/-
  ConvergeAnswer: the answer of a cache as data (a list of announcements / withdrawals of prefix
  records and router keys), its wire form, and the completeness of `rtr_sync` stated on the data:
  a consistent answer (every record named once; announcements of absent, withdrawals of present
  records) is applied, and the tables afterwards are described as sets.
-/
import RtrProofs.ConvergeSync

namespace Rtr.P

/-- one payload element of a cache's answer -/
inductive CvItem where
  | pfx (announce : Bool) (r : Rec)
  | key (announce : Bool) (k : KeyRec)
deriving DecidableEq, Repr

def cvFlag (a : Bool) : Nat := if a then 1 else 0

theorem cvFlag_le (a : Bool) : cvFlag a ≤ 1 := by cases a <;> decide
theorem cvFlag_decide (a : Bool) : decide (cvFlag a = 1) = a := by cases a <;> rfl

/-- the PDU of a payload element -/
def CvItem.pdu (ver : Nat) : CvItem → List Nat
  | .pfx a r => cvPfxPdu ver (cvFlag a) r
  | .key a k => cvKeyPdu ver (cvFlag a) k

/-- the element's record is one a cache can send -/
def CvItem.OK : CvItem → Prop
  | .pfx _ r => cvRecOK r
  | .key _ k => cvKeyOK k

instance (i : CvItem) : Decidable i.OK := by
  cases i <;> (unfold CvItem.OK; exact inferInstance)

/-- the operations on the prefix table in the order the apply loops perform them: IPv4 first -/
def cvOps4 (items : List CvItem) : List (Bool × Rec) :=
  items.filterMap fun i => match i with
    | .pfx a r => if r.v6 then none else some (a, r)
    | .key _ _ => none

def cvOps6 (items : List CvItem) : List (Bool × Rec) :=
  items.filterMap fun i => match i with
    | .pfx a r => if r.v6 then some (a, r) else none
    | .key _ _ => none

def cvPfxOps (items : List CvItem) : List (Bool × Rec) := cvOps4 items ++ cvOps6 items

def cvKeyOps (items : List CvItem) : List (Bool × KeyRec) :=
  items.filterMap fun i => match i with
    | .pfx _ _ => none
    | .key a k => some (a, k)

/-- the bytes of a complete answer: Cache Response, payload, End of Data -/
def cvAnswer (ver sess serial : Nat) (iv : CvIvals) (items : List CvItem) : List Nat :=
  cvCacheResponse ver sess ++ ((items.map (CvItem.pdu ver)).flatten ++ cvEndOfData ver sess serial iv)

/-- the buffered arrays of the wire form decode to the operations of the data form -/
theorem cv_items_wire (ver : Nat) : ∀ (items : List CvItem), (∀ i ∈ items, i.OK) →
    (cvV4 (items.map (CvItem.pdu ver))).map pfxOp = cvOps4 items ∧
    (cvV6 (items.map (CvItem.pdu ver))).map pfxOp = cvOps6 items ∧
    (cvKeys (items.map (CvItem.pdu ver))).map keyOp = cvKeyOps items ∧
    (∀ p ∈ cvV4 (items.map (CvItem.pdu ver)) ++ cvV6 (items.map (CvItem.pdu ver)), pfxOK p) ∧
    (∀ p ∈ cvKeys (items.map (CvItem.pdu ver)), keyOK p) ∧
    (∀ p ∈ items.map (CvItem.pdu ver), CvData ver p) := by
  intro items
  induction items with
  | nil => intro _; simp [cvV4, cvV6, cvKeys, cvOps4, cvOps6, cvKeyOps]
  | cons i items ih =>
    intro hok
    obtain ⟨h1, h2, h3, h4, h5, h6⟩ := ih (fun j hj => hok j (List.mem_cons_of_mem _ hj))
    have hi := hok i List.mem_cons_self
    cases i with
    | pfx a r =>
      have hr : cvRecOK r := hi
      obtain ⟨w, ty, _⟩ := cv_pfxPdu_wire ver (cvFlag a) r
      have hop := cv_pfxOp_pdu ver (cvFlag a) r hr
      rw [cvFlag_decide] at hop
      have hpk := cv_pfxPdu_ok ver (cvFlag a) r hr (cvFlag_le a)
      cases h6v : r.v6
      · rw [h6v] at ty
        simp only [Bool.false_eq_true, if_false] at ty
        have e4 : cvV4 (List.map (CvItem.pdu ver) (CvItem.pfx a r :: items)) =
            cvPfxPdu ver (cvFlag a) r :: cvV4 (items.map (CvItem.pdu ver)) := by
          simp [cvV4, CvItem.pdu, ty]
        have e6 : cvV6 (List.map (CvItem.pdu ver) (CvItem.pfx a r :: items)) = cvV6 (items.map (CvItem.pdu ver)) := by
          simp [cvV6, CvItem.pdu, ty]
        have e9 : cvKeys (List.map (CvItem.pdu ver) (CvItem.pfx a r :: items)) = cvKeys (items.map (CvItem.pdu ver)) := by
          simp [cvKeys, CvItem.pdu, ty]
        rw [e4, e6, e9]
        refine ⟨?_, ?_, ?_, ?_, h5, ?_⟩
        · simp only [List.map_cons, hop, h1, cvOps4, List.filterMap_cons, h6v, Bool.false_eq_true, if_false]
        · simp only [h2, cvOps6, List.filterMap_cons, h6v, Bool.false_eq_true, if_false]
        · simp only [h3, cvKeyOps, List.filterMap_cons]
        · intro p hp
          rw [List.cons_append] at hp
          rcases List.mem_cons.1 hp with rfl | hp
          · exact hpk
          · exact h4 p hp
        · intro p hp
          rw [List.map_cons] at hp
          rcases List.mem_cons.1 hp with rfl | hp
          · exact ⟨w, Or.inl ty⟩
          · exact h6 p hp
      · rw [h6v] at ty
        simp only [if_true] at ty
        have e4 : cvV4 (List.map (CvItem.pdu ver) (CvItem.pfx a r :: items)) = cvV4 (items.map (CvItem.pdu ver)) := by
          simp [cvV4, CvItem.pdu, ty]
        have e6 : cvV6 (List.map (CvItem.pdu ver) (CvItem.pfx a r :: items)) =
            cvPfxPdu ver (cvFlag a) r :: cvV6 (items.map (CvItem.pdu ver)) := by
          simp [cvV6, CvItem.pdu, ty]
        have e9 : cvKeys (List.map (CvItem.pdu ver) (CvItem.pfx a r :: items)) = cvKeys (items.map (CvItem.pdu ver)) := by
          simp [cvKeys, CvItem.pdu, ty]
        rw [e4, e6, e9]
        refine ⟨?_, ?_, ?_, ?_, h5, ?_⟩
        · simp only [h1, cvOps4, List.filterMap_cons, h6v, if_true]
        · simp only [List.map_cons, hop, h2, cvOps6, List.filterMap_cons, h6v, if_true]
        · simp only [h3, cvKeyOps, List.filterMap_cons]
        · intro p hp
          rcases List.mem_append.1 hp with hp | hp
          · exact h4 p (List.mem_append_left _ hp)
          · rcases List.mem_cons.1 hp with rfl | hp
            · exact hpk
            · exact h4 p (List.mem_append_right _ hp)
        · intro p hp
          rw [List.map_cons] at hp
          rcases List.mem_cons.1 hp with rfl | hp
          · exact ⟨w, Or.inr (Or.inl ty)⟩
          · exact h6 p hp
    | key a k =>
      have hk : cvKeyOK k := hi
      obtain ⟨w, ty, _⟩ := cv_keyPdu_wire ver (cvFlag a) k hk
      have hop := cv_keyOp_pdu ver (cvFlag a) k hk
      rw [cvFlag_decide] at hop
      have hpk := cv_keyPdu_ok ver (cvFlag a) k hk (cvFlag_le a)
      have e4 : cvV4 (List.map (CvItem.pdu ver) (CvItem.key a k :: items)) = cvV4 (items.map (CvItem.pdu ver)) := by
        simp [cvV4, CvItem.pdu, ty]
      have e6 : cvV6 (List.map (CvItem.pdu ver) (CvItem.key a k :: items)) = cvV6 (items.map (CvItem.pdu ver)) := by
        simp [cvV6, CvItem.pdu, ty]
      have e9 : cvKeys (List.map (CvItem.pdu ver) (CvItem.key a k :: items)) =
          cvKeyPdu ver (cvFlag a) k :: cvKeys (items.map (CvItem.pdu ver)) := by
        simp [cvKeys, CvItem.pdu, ty]
      rw [e4, e6, e9]
      refine ⟨?_, ?_, ?_, h4, ?_, ?_⟩
      · simp only [h1, cvOps4, List.filterMap_cons]
      · simp only [h2, cvOps6, List.filterMap_cons]
      · simp only [List.map_cons, hop, h3, cvKeyOps, List.filterMap_cons]
      · intro p hp
        rcases List.mem_cons.1 hp with rfl | hp
        · exact hpk
        · exact h5 p hp
      · intro p hp
        rw [List.map_cons] at hp
        rcases List.mem_cons.1 hp with rfl | hp
        · exact ⟨w, Or.inr (Or.inr ty)⟩
        · exact h6 p hp

theorem cv_baseOf_nodup (t : Tbl) (r : Bool) (h : TblOK t) : (baseOf t r).pt.Nodup ∧ (baseOf t r).kt.Nodup := by
  unfold baseOf
  cases r
  · exact ⟨h.2.1, h.2.2⟩
  · exact ⟨h.2.1.sublist List.filter_sublist, h.2.2.sublist List.filter_sublist⟩

/-- **completeness of `rtr_sync` on the data form of the answer** -/
theorem cv_sync_items (fuel : Nat) (st : St) (ver sess serial : Nat) (iv : CvIvals) (items : List CvItem) (rest : List Nat)
    (hfuel : items.length < fuel) (hs : st.c.state ≠ .shutdown)
    (hver : ver = st.c.version ∨ (st.c.hasReceived = false ∧ st.c.version = 1 ∧ ver = 0)) (hv : ver ≤ 1)
    (ht : TblOK st.t) (hsess : sess < 65536)
    (hq : st.ss.reqSession = true ∨ st.ss.session = sess)
    (hok : ∀ i ∈ items, i.OK)
    (hnp : ((cvPfxOps items).map Prod.snd).Nodup) (hnk : ((cvKeyOps items).map Prod.snd).Nodup)
    (hcp : ∀ op ∈ cvPfxOps items, (op.1 = true ↔ op.2 ∉ (baseOf st.t (resettingAfter st.ss)).pt))
    (hck : ∀ op ∈ cvKeyOps items, (op.1 = true ↔ op.2 ∉ (baseOf st.t (resettingAfter st.ss)).kt))
    (htape : CvTape st.n (cvAnswer ver sess serial iv items ++ rest)) :
    ∃ pt' kt' n' g, CvTape n' rest ∧ CvRecvd st.n n' ∧
      syncG fuel st = (true, cvSynced st ver sess (cvEndOfData ver sess serial iv) pt' kt' n', some g) ∧
      pt'.Nodup ∧ kt'.Nodup ∧
      (∀ x, x ∈ pt' ↔ ((true, x) ∈ cvPfxOps items ∨
        (x ∈ (baseOf st.t (resettingAfter st.ss)).pt ∧ (false, x) ∉ cvPfxOps items))) ∧
      (∀ x, x ∈ kt' ↔ ((true, x) ∈ cvKeyOps items ∨
        (x ∈ (baseOf st.t (resettingAfter st.ss)).kt ∧ (false, x) ∉ cvKeyOps items))) := by
  obtain ⟨w1, w2, w3, w4, w5, w6⟩ := cv_items_wire ver items hok
  obtain ⟨bn1, bn2⟩ := cv_baseOf_nodup st.t (resettingAfter st.ss) ht
  obtain ⟨pt', hp1, hp2, hp3⟩ := cv_lsApplyAll_consistent (cvPfxOps items) _ bn1 hnp hcp
  obtain ⟨kt', hk1, hk2, hk3⟩ := cv_lsApplyAll_consistent (cvKeyOps items) _ bn2 hnk hck
  obtain ⟨ew, et⟩ := cv_endOfData_wire ver sess serial iv hv
  have htape' : CvTape st.n (cvCacheResponse ver sess ++ ((items.map (CvItem.pdu ver)).flatten ++
      (cvEndOfData ver sess serial iv ++ rest))) := by
    have := htape
    unfold cvAnswer at this
    simpa only [List.append_assoc] using this
  obtain ⟨n', t', s', e⟩ := cv_syncG_complete fuel st ver sess (items.map (CvItem.pdu ver)) (cvEndOfData ver sess serial iv) rest
    pt' kt' (by rw [List.length_map]; exact hfuel) hs hver ht.1 hsess hq w6 ew et (cv_endOfData_session ver sess serial iv hsess)
    w4 w5 (by rw [List.map_append, w1, w2]; exact hp1) (by rw [w3]; exact hk1) htape'
  exact ⟨pt', kt', n', _, t', s', e, hp2, hk2, hp3, hk3⟩

/-! ## the answer to a Reset Query: announcements only -/

/-- the payload of an answer to a Reset Query: one announcement per record and router key -/
def cvResetItems (recs : List Rec) (keys : List KeyRec) : List CvItem :=
  recs.map (CvItem.pfx true) ++ keys.map (CvItem.key true)

theorem cv_resetItems_ops (recs : List Rec) (keys : List KeyRec) :
    cvOps4 (cvResetItems recs keys) = (recs.filter fun r => !r.v6).map (fun r => (true, r)) ∧
    cvOps6 (cvResetItems recs keys) = (recs.filter fun r => r.v6).map (fun r => (true, r)) ∧
    cvKeyOps (cvResetItems recs keys) = keys.map (fun k => (true, k)) := by
  unfold cvResetItems cvOps4 cvOps6 cvKeyOps
  simp only [List.filterMap_append]
  have k0 : ∀ (f : CvItem → Option (Bool × Rec)), (∀ a k, f (.key a k) = none) →
      List.filterMap f (keys.map (CvItem.key true)) = [] := by
    intro f hf
    induction keys with
    | nil => rfl
    | cons k ks ih => simp [hf, ih]
  have r0 : List.filterMap (fun i => match i with | CvItem.pfx _ _ => none | CvItem.key a k => some (a, k))
      (recs.map (CvItem.pfx true)) = ([] : List (Bool × KeyRec)) := by
    induction recs with
    | nil => rfl
    | cons r rs ih => simp [ih]
  refine ⟨?_, ?_, ?_⟩
  · rw [k0 _ (fun _ _ => rfl), List.append_nil]
    induction recs with
    | nil => rfl
    | cons r rs ih =>
      cases h : r.v6 <;> simp [h, ih]
  · rw [k0 _ (fun _ _ => rfl), List.append_nil]
    induction recs with
    | nil => rfl
    | cons r rs ih =>
      cases h : r.v6 <;> simp [h, ih]
  · rw [r0, List.nil_append]
    clear k0 r0
    induction keys with
    | nil => rfl
    | cons k ks ih =>
      rw [List.map_cons, List.filterMap_cons]
      simp only [List.map_cons]
      rw [ih]

/-- membership in the tables an update writes to, when the socket holds no data without a time stamp -/
theorem cv_base_mem (st : St) (hi : st.ss.lastUpdate = 0 → NoOwn st.t) (hr : st.ss.reqSession = true) :
    (∀ x, x ∈ (baseOf st.t (resettingAfter st.ss)).pt ↔ (x ∈ st.t.pt ∧ x.src ≠ 0)) ∧
    (∀ x, x ∈ (baseOf st.t (resettingAfter st.ss)).kt ↔ (x ∈ st.t.kt ∧ x.src ≠ 0)) := by
  unfold baseOf
  cases hres : resettingAfter st.ss
  · have h0 : st.ss.lastUpdate = 0 := by
      unfold resettingAfter at hres
      rw [if_pos hr] at hres
      by_cases h : st.ss.lastUpdate ≠ 0
      · rw [if_pos h] at hres; cases hres
      · simpa using h
    obtain ⟨n1, n2⟩ := hi h0
    simp only [Bool.false_eq_true, if_false]
    exact ⟨fun x => ⟨fun hx => ⟨hx, n1 x hx⟩, fun hx => hx.1⟩, fun x => ⟨fun hx => ⟨hx, n2 x hx⟩, fun hx => hx.1⟩⟩
  · simp only [if_true]
    exact ⟨fun x => mem_ptSrcRemove _ x, fun x => mem_ktSrcRemove _ x⟩

theorem cv_nodup_split {α : Type} (l : List α) (p : α → Bool) (h : l.Nodup) :
    (l.filter (fun x => !p x) ++ l.filter p).Nodup := by
  rw [List.nodup_append]
  refine ⟨h.sublist List.filter_sublist, h.sublist List.filter_sublist, ?_⟩
  intro a ha b hb e
  subst e
  have h1 := (List.mem_filter.1 ha).2
  have h2 := (List.mem_filter.1 hb).2
  rw [h2] at h1
  cases h1

end Rtr.P
