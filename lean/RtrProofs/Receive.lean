/-
  Receive: `rtr_receive_pdu` (model `receivePdu`) decomposed into stages, and what it guarantees
  about the protocol version and about the PDUs it hands to its callers.
-/
import RtrModel.Rtr

namespace Rtr.P

/-- payload reception, size check (the part of `receivePdu` after the version handling) -/
def recvStage3 (c : Conn) (n : Net) (own : Nat) (hdr : List Nat) : RecvRes × Conn × Net :=
  let remaining := lenOf hdr - 8
  if remaining > 0 ∧ c.state = .shutdown then (.rc (-1), c, n)
  else
    match (if remaining > 0 then recvAll n remaining Gen.RTR_RECV_TIMEOUT
           else ((0 : Int), ([] : List Nat), n, false)) with
    | (rc2, body, n, stop2) =>
    let c := applyStop c stop2
    if rc2 < 0 then recvTransportError c n own rc2
    else
      let raw := hdr ++ body
      if !checkSize raw then
        match sendErrorPdu c n hdr 0 txtCorrupt with
        | (_, n) => match changeState c n own .errFatal with | (c, n) => (.rc (-1), c, n)
      else (.ok raw, c, n)

/-- the version the socket speaks after seeing the first header of a connection -/
def downgraded (c : Conn) (hdr : List Nat) : Conn :=
  if !c.hasReceived then
    let v := if c.version = 1 ∧ verOf hdr = 0 ∧ typeOf hdr ≠ 10 then 0 else c.version
    { c with version := v, hasReceived := true }
  else c

/-- length checks, live downgrade, version check (the part of `receivePdu` after the header) -/
def recvStage2 (c : Conn) (n : Net) (own : Nat) (hdr : List Nat) : RecvRes × Conn × Net :=
  let len := lenOf hdr
  if len < 8 then
    match sendErrorPdu c n hdr 0 txtCorrupt with
    | (_, n) => match changeState c n own .errFatal with | (c, n) => (.rc (-1), c, n)
  else if len > Gen.RTR_MAX_PDU_LEN then
    match sendErrorPdu c n hdr 0 txtTooBig with
    | (_, n) => match changeState c n own .errFatal with | (c, n) => (.rc (-1), c, n)
  else
    let c := downgraded c hdr
    if verOf hdr ≠ c.version ∧ typeOf hdr ≠ 10 then
      match sendErrorPdu c n hdr 8 [] with
      | (_, n) => (.rc (-1), c, n)
    else recvStage3 c n own hdr

theorem receivePdu_eq (c : Conn) (n : Net) (own : Nat) (t : Int) :
    receivePdu c n own t =
      if c.state = .shutdown then (.rc (-1), c, n)
      else
        match recvAll n 8 t with
        | (rc, hdr, n, stop) =>
          if rc < 0 then recvTransportError (applyStop c stop) n own rc
          else recvStage2 (applyStop c stop) n own hdr := by
  unfold receivePdu recvStage2 recvStage3 downgraded
  rfl

theorem changeState_conn (c : Conn) (n : Net) (own : Nat) (s : SState) :
    (changeState c n own s).1.version = c.version ∧ (changeState c n own s).1.hasReceived = c.hasReceived := by
  unfold changeState; split
  · simp
  · split <;> simp

theorem applyStop_conn (c : Conn) (b : Bool) :
    (applyStop c b).version = c.version ∧ (applyStop c b).hasReceived = c.hasReceived := by
  unfold applyStop; split <;> simp

theorem recvTransportError_conn (c : Conn) (n : Net) (own : Nat) (code : Int) :
    (recvTransportError c n own code).2.1.version = c.version ∧
    (recvTransportError c n own code).2.1.hasReceived = c.hasReceived ∧
    (∀ raw, (recvTransportError c n own code).1 ≠ .ok raw) := by
  unfold recvTransportError
  have e1 := changeState_conn c n own .errTransport
  have e2 := changeState_conn c n own .errFatal
  generalize changeState c n own .errTransport = cs1 at e1
  generalize changeState c n own .errFatal = cs2 at e2
  obtain ⟨c1, n1⟩ := cs1
  obtain ⟨c2, n2⟩ := cs2
  simp only at e1 e2
  split
  · exact ⟨e1.1, e1.2, fun raw h => nomatch h⟩
  · split
    · exact ⟨rfl, rfl, fun raw h => nomatch h⟩
    · split
      · exact ⟨rfl, rfl, fun raw h => nomatch h⟩
      · split
        · exact ⟨e2.1, e2.2, fun raw h => nomatch h⟩
        · exact ⟨e2.1, e2.2, fun raw h => nomatch h⟩

/-- what `recvStage3` returns -/
theorem recvStage3_conn (c : Conn) (n : Net) (own : Nat) (hdr : List Nat) :
    (recvStage3 c n own hdr).2.1.version = c.version ∧ (recvStage3 c n own hdr).2.1.hasReceived = c.hasReceived ∧
    (∀ raw, (recvStage3 c n own hdr).1 = .ok raw → checkSize raw = true ∧ ∃ body, raw = hdr ++ body) := by
  unfold recvStage3
  simp only
  split
  · exact ⟨rfl, rfl, fun raw h => nomatch h⟩
  · generalize (if lenOf hdr - 8 > 0 then recvAll n (lenOf hdr - 8) Gen.RTR_RECV_TIMEOUT
        else ((0 : Int), ([] : List Nat), n, false)) = r
    obtain ⟨rc2, body, n2, stop2⟩ := r
    simp only
    have a := applyStop_conn c stop2
    split
    · have t := recvTransportError_conn (applyStop c stop2) n2 own rc2
      exact ⟨by rw [t.1, a.1], by rw [t.2.1, a.2], fun raw h => absurd h (t.2.2 raw)⟩
    · split
      · rename_i hcs
        generalize sendErrorPdu (applyStop c stop2) n2 hdr 0 txtCorrupt = se
        obtain ⟨x, n3⟩ := se
        simp only
        have e := changeState_conn (applyStop c stop2) n3 own .errFatal
        generalize changeState (applyStop c stop2) n3 own .errFatal = cs at e
        obtain ⟨c', n'⟩ := cs
        simp only at e ⊢
        exact ⟨by rw [e.1, a.1], by rw [e.2, a.2], fun raw h => nomatch h⟩
      · rename_i hcs
        refine ⟨a.1, a.2, fun raw h => ?_⟩
        simp only [RecvRes.ok.injEq] at h
        subst h
        exact ⟨by simpa using hcs, _, rfl⟩

theorem downgraded_conn (c : Conn) (hdr : List Nat) :
    ((downgraded c hdr).version = c.version ∨
      (c.hasReceived = false ∧ c.version = 1 ∧ verOf hdr = 0 ∧ typeOf hdr ≠ 10 ∧ (downgraded c hdr).version = 0)) ∧
    (downgraded c hdr).hasReceived = true ∧ (downgraded c hdr).state = c.state := by
  by_cases h : c.hasReceived = true
  · have e : downgraded c hdr = c := by unfold downgraded; simp [h]
    rw [e]; exact ⟨Or.inl rfl, h, rfl⟩
  · have h' : c.hasReceived = false := by simpa using h
    by_cases hd : c.version = 1 ∧ verOf hdr = 0 ∧ typeOf hdr ≠ 10
    · have e : downgraded c hdr = { c with version := 0, hasReceived := true } := by
        unfold downgraded; simp [h', hd]
      rw [e]; exact ⟨Or.inr ⟨h', hd.1, hd.2.1, hd.2.2, rfl⟩, rfl, rfl⟩
    · have e : downgraded c hdr = { c with version := c.version, hasReceived := true } := by
        unfold downgraded; simp only [h', Bool.not_false, if_true]; rw [if_neg hd]
      rw [e]; exact ⟨Or.inl rfl, rfl, rfl⟩

/-- **version handling of rtr_receive_pdu**: the version is unchanged, or this was the first PDU of
    the connection, the socket spoke version 1 and the PDU (not an Error Report) carried version 0.
    Every PDU handed to the caller passed the size check and carries the version the socket now
    speaks, unless it is an Error Report. -/
theorem receivePdu_conn (c : Conn) (n : Net) (own : Nat) (t : Int) :
    ((receivePdu c n own t).2.1.version = c.version ∨
      (c.hasReceived = false ∧ c.version = 1 ∧ (receivePdu c n own t).2.1.version = 0)) ∧
    (∀ raw, (receivePdu c n own t).1 = .ok raw →
      (∃ body, raw = (recvAll n 8 t).2.1 ++ body) ∧
      (verOf (recvAll n 8 t).2.1 = (receivePdu c n own t).2.1.version ∨ typeOf (recvAll n 8 t).2.1 = 10) ∧
      checkSize raw = true ∧ (receivePdu c n own t).2.1.hasReceived = true) := by
  rw [receivePdu_eq]
  split
  · exact ⟨Or.inl rfl, fun raw h => nomatch h⟩
  · generalize recvAll n 8 t = r
    obtain ⟨rc, hdr, n1, stop⟩ := r
    simp only
    have a := applyStop_conn c stop
    generalize applyStop c stop = c1 at a
    split
    · have t := recvTransportError_conn c1 n1 own rc
      exact ⟨Or.inl (by rw [t.1, a.1]), fun raw h => absurd h (t.2.2 raw)⟩
    · unfold recvStage2
      simp only
      have csE : ∀ (nn : Net), (changeState c1 nn own .errFatal).1.version = c.version := fun nn => by
        rw [(changeState_conn c1 nn own .errFatal).1, a.1]
      split
      · generalize sendErrorPdu c1 n1 hdr 0 txtCorrupt = se
        obtain ⟨x, n3⟩ := se
        simp only
        have e := csE n3
        generalize changeState c1 n3 own .errFatal = cs at e
        obtain ⟨c', n'⟩ := cs
        exact ⟨Or.inl e, fun raw h => nomatch h⟩
      · split
        · generalize sendErrorPdu c1 n1 hdr 0 txtTooBig = se
          obtain ⟨x, n3⟩ := se
          simp only
          have e := csE n3
          generalize changeState c1 n3 own .errFatal = cs at e
          obtain ⟨c', n'⟩ := cs
          exact ⟨Or.inl e, fun raw h => nomatch h⟩
        · have d := downgraded_conn c1 hdr
          generalize downgraded c1 hdr = c2 at d
          have dv : c2.version = c.version ∨ (c.hasReceived = false ∧ c.version = 1 ∧ c2.version = 0) := by
            rcases d.1 with h | h
            · exact Or.inl (by rw [h, a.1])
            · exact Or.inr ⟨by rw [← a.2]; exact h.1, by rw [← a.1]; exact h.2.1, h.2.2.2.2⟩
          split
          · generalize sendErrorPdu c2 n1 hdr 8 [] = se
            obtain ⟨x, n3⟩ := se
            exact ⟨dv, fun raw h => nomatch h⟩
          · rename_i hver
            have s3 := recvStage3_conn c2 n1 own hdr
            generalize recvStage3 c2 n1 own hdr = r3 at s3
            obtain ⟨rr, c3, n3⟩ := r3
            simp only at s3 ⊢
            refine ⟨by rw [s3.1]; exact dv, fun raw h => ?_⟩
            obtain ⟨hcs, hpre⟩ := s3.2.2 raw h
            refine ⟨hpre, ?_, hcs, by rw [s3.2.1]; exact d.2.1⟩
            rw [s3.1]
            by_cases h10 : typeOf hdr = 10
            · exact Or.inr h10
            · left
              by_cases hv' : verOf hdr = c2.version
              · exact hv'
              · exact absurd ⟨hv', h10⟩ hver

end Rtr.P
