/-
  ErrReports: which Error Reports the protocol model `Rtr.P` sends, with which code, echoing what.

  No function of the model is re-implemented.  `Sent n n' rs` relates two environments of the REAL
  model functions: `n'` is reached from `n` by `tr_recv_all` calls, state-change callbacks and — in this
  order — `tr_send_all` of exactly the Error Report PDUs `rs` (each `errorPduBytes ver enc code text`).
  Every theorem below has the form `Sent n (f … n …).net rs` for the model function `f` itself.
-/
import RtrProofs.Chunking
import RtrProofs.SentPdus

namespace Rtr.P

/-! ## reports and the relation `Sent` -/

/-- an Error Report as data: version byte, error code, encapsulated bytes, text bytes -/
structure Report where
  ver : Nat
  code : Nat
  enc : List Nat
  text : List Nat
deriving DecidableEq

/-- the PDU handed to `tr_send_all` -/
def Report.bytes (r : Report) : List Nat := errorPduBytes r.ver r.enc r.code r.text

/-- `n'` is reached from `n` by recv calls, state callbacks and `tr_send_all` of exactly the Error
    Reports `rs`, in this order; nothing else touches the environment -/
inductive Sent : Net → Net → List Report → Prop
  | refl (n : Net) : Sent n n []
  | recv (n : Net) (len : Nat) (t : Int) : Sent n (recvAll n len t).2.2.1 []
  | state (c : Conn) (n : Net) (own : Nat) (s : SState) : Sent n (changeState c n own s).2 []
  | report (n : Net) (r : Report) : Sent n (sendAll n r.bytes).2 [r]
  | trans {a b c : Net} {r1 r2 : List Report} : Sent a b r1 → Sent b c r2 → Sent a c (r1 ++ r2)

theorem Sent.then_quiet {a b c : Net} {rs : List Report} (h1 : Sent a b rs) (h2 : Sent b c []) : Sent a c rs := by
  have := Sent.trans h1 h2
  rwa [List.append_nil] at this

theorem Sent.quiet_then {a b c : Net} {rs : List Report} (h1 : Sent a b []) (h2 : Sent b c rs) : Sent a c rs :=
  Sent.trans h1 h2

theorem Sent.of_eq {a b : Net} (h : b = a) : Sent a b [] := by rw [h]; exact Sent.refl a

/-- what `rtr_send_error_pdu` hands to the transport: nothing in reply to an Error Report (`enc` of
    at least 2 bytes with type 10) and nothing once the socket is shut down (`rtr_send_pdu`), else
    the one report of the socket's current version -/
def repOf (c : Conn) (enc : List Nat) (code : Nat) (text : List Nat) : List Report :=
  if (2 ≤ enc.length ∧ enc.getD 1 0 = 10) ∨ c.state = .shutdown then [] else [⟨c.version, code, enc, text⟩]

/-- `rtr_send_error_pdu_from_host(pdu, k)`: no encapsulation for k = 0, refused for 0 < k < 8 -/
def repHost (c : Conn) (raw : List Nat) (k : Nat) (code : Nat) (text : List Nat) : List Report :=
  if k = 0 then repOf c [] code text else if k < 8 then [] else repOf c (raw.take k) code text

theorem er_sendPdu_net (c : Conn) (n : Net) (bytes : List Nat) (h : c.state ≠ .shutdown) :
    (sendPdu c n bytes).2 = (sendAll n bytes).2 := by
  unfold sendPdu
  rw [if_neg h]

theorem er_sendErrorPdu (c : Conn) (n : Net) (enc : List Nat) (code : Nat) (text : List Nat) :
    Sent n (sendErrorPdu c n enc code text).2 (repOf c enc code text) := by
  unfold sendErrorPdu repOf
  by_cases he : enc.length ≥ 2 ∧ enc.getD 1 0 = 10
  · rw [if_pos he, if_pos (Or.inl he)]; exact Sent.refl n
  · rw [if_neg he]
    by_cases hs : c.state = .shutdown
    · rw [if_pos (Or.inr hs)]
      unfold sendPdu; rw [if_pos hs]; exact Sent.refl n
    · rw [if_neg (by intro h; rcases h with h | h; exact he h; exact hs h), er_sendPdu_net c n _ hs]
      exact Sent.report n ⟨c.version, code, enc, text⟩

theorem er_sendErrorFromHost (c : Conn) (n : Net) (raw : List Nat) (k code : Nat) (text : List Nat) :
    Sent n (sendErrorFromHost c n raw k code text).2 (repHost c raw k code text) := by
  unfold sendErrorFromHost repHost
  by_cases h0 : k = 0
  · rw [if_pos h0, if_pos h0]; exact er_sendErrorPdu c n [] code text
  · rw [if_neg h0, if_neg h0]
    by_cases h8 : k < 8
    · rw [if_pos h8, if_pos h8]; exact Sent.refl n
    · rw [if_neg h8, if_neg h8]; exact er_sendErrorPdu c n _ code text

theorem er_changeState_conn (c : Conn) (n : Net) (own : Nat) (s : SState) :
    (changeState c n own s).1.version = c.version := by
  unfold changeState; split
  · rfl
  · split <;> rfl

theorem er_changeState_shutdown (c : Conn) (n : Net) (own : Nat) (s : SState) (h : c.state ≠ .shutdown)
    (hs : s ≠ .shutdown) : (changeState c n own s).1.state ≠ .shutdown := by
  unfold changeState
  by_cases h1 : c.state = s
  · rw [if_pos h1]; exact h
  · rw [if_neg h1, if_neg h]; exact hs

theorem er_repOf_le (c : Conn) (enc : List Nat) (code : Nat) (text : List Nat) :
    (repOf c enc code text).length ≤ 1 := by
  unfold repOf; split <;> simp

theorem er_repOf_mem (c : Conn) (enc : List Nat) (code : Nat) (text : List Nat) (r : Report)
    (h : r ∈ repOf c enc code text) :
    r = ⟨c.version, code, enc, text⟩ ∧ ¬ (2 ≤ enc.length ∧ enc.getD 1 0 = 10) ∧ c.state ≠ .shutdown := by
  unfold repOf at h
  split at h
  · cases h
  · rename_i hn
    simp only [List.mem_singleton] at h
    exact ⟨h, fun h' => hn (Or.inl h'), fun h' => hn (Or.inr h')⟩

theorem er_repOf_one (c : Conn) (enc : List Nat) (code : Nat) (text : List Nat)
    (he : ¬ (2 ≤ enc.length ∧ enc.getD 1 0 = 10)) (hs : c.state ≠ .shutdown) :
    repOf c enc code text = [⟨c.version, code, enc, text⟩] := by
  unfold repOf
  rw [if_neg (by intro h; rcases h with h | h; exact he h; exact hs h)]

theorem er_repOf_error (c : Conn) (enc : List Nat) (code : Nat) (text : List Nat)
    (h2 : 2 ≤ enc.length) (h10 : enc.getD 1 0 = 10) : repOf c enc code text = [] := by
  unfold repOf; rw [if_pos (Or.inl ⟨h2, h10⟩)]

/-! ## `rtr_receive_pdu` -/

theorem er_failFatal (c : Conn) (n : Net) (own : Nat) (hdr txt : List Nat) :
    Sent n (failFatal c n own hdr txt).2.2 (repOf c hdr 0 txt) ∧ (failFatal c n own hdr txt).1 = .rc (-1) ∧
    (failFatal c n own hdr txt).2.1.version = c.version := by
  unfold failFatal
  exact ⟨(er_sendErrorPdu c n hdr 0 txt).then_quiet (Sent.state c _ own .errFatal), rfl,
    er_changeState_conn c _ own .errFatal⟩

theorem er_recvTransportError (c : Conn) (n : Net) (own : Nat) (code : Int) :
    Sent n (recvTransportError c n own code).2.2 [] ∧ (∃ k, (recvTransportError c n own code).1 = .rc k) ∧
    (recvTransportError c n own code).2.1.version = c.version := by
  unfold recvTransportError
  split
  · exact ⟨Sent.state c n own _, ⟨_, rfl⟩, er_changeState_conn c n own _⟩
  · split
    · exact ⟨Sent.refl n, ⟨_, rfl⟩, rfl⟩
    · split
      · exact ⟨Sent.refl n, ⟨_, rfl⟩, rfl⟩
      · split
        · exact ⟨Sent.state c n own _, ⟨_, rfl⟩, er_changeState_conn c n own _⟩
        · exact ⟨Sent.state c n own _, ⟨_, rfl⟩, er_changeState_conn c n own _⟩

theorem er_applyStop_false (c : Conn) : applyStop c false = c := rfl

theorem er_downgrade_state (c : Conn) (hdr : List Nat) : (downgrade c hdr).state = c.state := by
  unfold downgrade; split <;> rfl

/-- the outcomes of `rtr_receive_pdu` as far as reports are concerned -/
inductive RecvClass where
  | delivered (raw : List Nat)   -- a checked PDU is handed to the caller, nothing sent
  | noHeader (k : Int)           -- shut down, or the 8 header bytes did not arrive (fault, time-out, end): nothing sent
  | payloadFault (k : Int)       -- header accepted, the payload did not arrive: nothing sent
  | lenSmall | lenBig | version | sizeCheck
deriving DecidableEq

/-- the reports of a class, for header `hdr` and the socket `c` as it was before the call -/
def classReports (c : Conn) (hdr : List Nat) : RecvClass → List Report
  | .delivered _ => []
  | .noHeader _ => []
  | .payloadFault _ => []
  | .lenSmall => repOf c hdr 0 txtCorrupt
  | .lenBig => repOf c hdr 0 txtTooBig
  | .version => repOf (downgrade c hdr) hdr 8 []
  | .sizeCheck => repOf (downgrade c hdr) hdr 0 txtCorrupt

/-- a successful `tr_recv_all` never reports a stop request -/
theorem er_recvAllLoop_stop (len : Nat) (endTime : Int) : ∀ (fuel : Nat) (n : Net) (acc : List Nat),
    0 ≤ (recvAllLoop len endTime fuel n acc).1 → (recvAllLoop len endTime fuel n acc).2.2.2 = false := by
  intro fuel
  induction fuel with
  | zero => intro n acc _; rfl
  | succ fuel ih =>
    intro n acc h
    unfold recvAllLoop at h ⊢
    by_cases hlt : acc.length < len
    · rw [if_pos hlt] at h ⊢
      rcases hr : trRecv n (len - acc.length) (endTime - n.now) with ⟨rc1, got1, n1, stop1⟩
      rw [hr] at h
      simp only at h ⊢
      by_cases hneg : rc1 < 0
      · rw [if_pos hneg] at h; simp only at h; omega
      · rw [if_neg hneg] at h ⊢
        exact ih _ _ h
    · rw [if_neg hlt]

theorem er_recvAll_stop (n : Net) (len : Nat) (t : Int) (h : 0 ≤ (recvAll n len t).1) :
    (recvAll n len t).2.2.2 = false := er_recvAllLoop_stop len _ _ n [] h

theorem er_take_of_append (got rest stream : List Nat) (len : Nat) (h : stream = got ++ rest) (hl : got.length = len) :
    got = stream.take len ∧ len ≤ stream.length := by
  subst h
  refine ⟨(List.take_left' hl).symm, ?_⟩
  rw [List.length_append]; omega

/-- the payload stage: a delivery, a transport result, or the size check failed; `body` is the next
    `len - 8` bytes of the stream -/
theorem er_recvBody (c : Conn) (n : Net) (own : Nat) (hdr : List Nat) (hs : c.state ≠ .shutdown)
    (hok : TapeOk n.tape) (res : RecvRes) (c1 : Conn) (m : Net) (hr : recvBody c n own hdr = (res, c1, m)) :
    c1.version = c.version ∧
    ((res = .ok (hdr ++ (tapeBytes n.tape).take (lenOf hdr - 8)) ∧ lenOf hdr - 8 ≤ (tapeBytes n.tape).length ∧
        checkSize (hdr ++ (tapeBytes n.tape).take (lenOf hdr - 8)) = true ∧ Sent n m []) ∨
     ((∃ k, res = .rc k) ∧ 0 < lenOf hdr - 8 ∧ (recvAll n (lenOf hdr - 8) Gen.RTR_RECV_TIMEOUT).1 < 0 ∧ Sent n m []) ∨
     (lenOf hdr - 8 ≤ (tapeBytes n.tape).length ∧
        checkSize (hdr ++ (tapeBytes n.tape).take (lenOf hdr - 8)) = false ∧ res = .rc (-1) ∧
        Sent n m (repOf c hdr 0 txtCorrupt))) := by
  unfold recvBody at hr
  simp only at hr
  rw [if_neg (fun h => hs h.2)] at hr
  have key : ∀ (rc2 : Int) (body : List Nat) (n2 : Net) (stop2 : Bool), Sent n n2 [] → (0 ≤ rc2 → stop2 = false) →
      (0 ≤ rc2 → body = (tapeBytes n.tape).take (lenOf hdr - 8) ∧ lenOf hdr - 8 ≤ (tapeBytes n.tape).length) →
      (rc2 < 0 → 0 < lenOf hdr - 8 ∧ (recvAll n (lenOf hdr - 8) Gen.RTR_RECV_TIMEOUT).1 < 0) →
      (if rc2 < 0 then recvTransportError (applyStop c stop2) n2 own rc2
        else if (!checkSize (hdr ++ body)) = true then failFatal (applyStop c stop2) n2 own hdr txtCorrupt
        else (RecvRes.ok (hdr ++ body), applyStop c stop2, n2)) = (res, c1, m) →
      c1.version = c.version ∧
      ((res = .ok (hdr ++ (tapeBytes n.tape).take (lenOf hdr - 8)) ∧ lenOf hdr - 8 ≤ (tapeBytes n.tape).length ∧
          checkSize (hdr ++ (tapeBytes n.tape).take (lenOf hdr - 8)) = true ∧ Sent n m []) ∨
       ((∃ k, res = .rc k) ∧ 0 < lenOf hdr - 8 ∧ (recvAll n (lenOf hdr - 8) Gen.RTR_RECV_TIMEOUT).1 < 0 ∧ Sent n m []) ∨
       (lenOf hdr - 8 ≤ (tapeBytes n.tape).length ∧
          checkSize (hdr ++ (tapeBytes n.tape).take (lenOf hdr - 8)) = false ∧ res = .rc (-1) ∧
          Sent n m (repOf c hdr 0 txtCorrupt))) := by
    intro rc2 body n2 stop2 hq hstop hbody hfail hr2
    by_cases hneg : rc2 < 0
    · rw [if_pos hneg] at hr2
      obtain ⟨a, b, v⟩ := er_recvTransportError (applyStop c stop2) n2 own rc2
      rw [hr2] at a b v
      refine ⟨?_, Or.inr (Or.inl ⟨b, (hfail hneg).1, (hfail hneg).2, hq.then_quiet a⟩)⟩
      rw [v]; unfold applyStop; split <;> rfl
    · rw [if_neg hneg] at hr2
      have hst : stop2 = false := hstop (by omega)
      obtain ⟨hb, hlen⟩ := hbody (by omega)
      subst hst hb
      rw [er_applyStop_false] at hr2
      by_cases hc : (!checkSize (hdr ++ (tapeBytes n.tape).take (lenOf hdr - 8))) = true
      · rw [if_pos hc] at hr2
        obtain ⟨a, b, v⟩ := er_failFatal c n2 own hdr txtCorrupt
        rw [hr2] at a b v
        exact ⟨v, Or.inr (Or.inr ⟨hlen, by simpa using hc, b, hq.quiet_then a⟩)⟩
      · rw [if_neg hc] at hr2
        simp only [Prod.mk.injEq] at hr2
        obtain ⟨rfl, rfl, rfl⟩ := hr2
        exact ⟨rfl, Or.inl ⟨rfl, hlen, by simpa using hc, hq⟩⟩
  by_cases hrem : lenOf hdr - 8 > 0
  · rw [if_pos hrem] at hr
    have hq : Sent n (recvAll n (lenOf hdr - 8) Gen.RTR_RECV_TIMEOUT).2.2.1 [] := Sent.recv n _ _
    have hst := er_recvAll_stop n (lenOf hdr - 8) Gen.RTR_RECV_TIMEOUT
    have hfacts := recvAll_facts n (lenOf hdr - 8) Gen.RTR_RECV_TIMEOUT hok
    have hneg : (recvAll n (lenOf hdr - 8) Gen.RTR_RECV_TIMEOUT).1 < 0 →
        (recvAll n (lenOf hdr - 8) Gen.RTR_RECV_TIMEOUT).1 < 0 := id
    rcases hra : recvAll n (lenOf hdr - 8) Gen.RTR_RECV_TIMEOUT with ⟨rc2, body, n2, stop2⟩
    rw [hra] at hq hst hr
    rw [hra] at hneg
    obtain ⟨_, _, _, hsucc⟩ := hfacts rc2 body n2 stop2 hra
    have := key rc2 body n2 stop2 hq hst (fun h0 => by
        obtain ⟨_, hl, _, htb⟩ := hsucc h0
        exact er_take_of_append body _ _ _ htb hl) (fun h => ⟨hrem, by rw [hra]; exact h⟩) hr
    rw [hra] at this
    exact this
  · rw [if_neg hrem] at hr
    refine key 0 [] n false (Sent.refl n) (fun _ => rfl) ?_ (fun h => by omega) hr
    intro _
    have : lenOf hdr - 8 = 0 := by omega
    rw [this]; exact ⟨rfl, Nat.zero_le _⟩

/-- what is known about the result in each class; `stream` = the bytes on the tape after the header -/
def classFacts (c c1 : Conn) (hdr : List Nat) (stream : List Nat) (res : RecvRes) : RecvClass → Prop
  | .delivered raw => res = .ok raw ∧ raw = hdr ++ stream.take (lenOf hdr - 8) ∧ lenOf hdr - 8 ≤ stream.length ∧
      checkSize raw = true ∧ 8 ≤ lenOf hdr ∧ lenOf hdr ≤ Gen.RTR_MAX_PDU_LEN ∧
      (verOf hdr = c1.version ∨ typeOf hdr = 10) ∧
      ¬ (verOf hdr ≠ (downgrade c hdr).version ∧ typeOf hdr ≠ 10)
  | .noHeader k => res = .rc k
  | .payloadFault k => res = .rc k ∧ 8 < lenOf hdr ∧ lenOf hdr ≤ Gen.RTR_MAX_PDU_LEN ∧
      ¬ (verOf hdr ≠ (downgrade c hdr).version ∧ typeOf hdr ≠ 10)
  | .lenSmall => res = .rc (-1) ∧ lenOf hdr < 8
  | .lenBig => res = .rc (-1) ∧ lenOf hdr > Gen.RTR_MAX_PDU_LEN
  | .version => res = .rc (-1) ∧ 8 ≤ lenOf hdr ∧ lenOf hdr ≤ Gen.RTR_MAX_PDU_LEN ∧
      verOf hdr ≠ (downgrade c hdr).version ∧ typeOf hdr ≠ 10 ∧ c1 = downgrade c hdr
  | .sizeCheck => res = .rc (-1) ∧ 8 ≤ lenOf hdr ∧ lenOf hdr ≤ Gen.RTR_MAX_PDU_LEN ∧
      ¬ (verOf hdr ≠ (downgrade c hdr).version ∧ typeOf hdr ≠ 10) ∧ lenOf hdr - 8 ≤ stream.length ∧
      checkSize (hdr ++ stream.take (lenOf hdr - 8)) = false

/-- `rtr_receive_pdu` once the header `hdr` is there: one of the classes, with exactly its reports -/
theorem er_recvAfterHdr (c : Conn) (n : Net) (own : Nat) (hdr : List Nat) (hs : c.state ≠ .shutdown)
    (hok : TapeOk n.tape) (res : RecvRes) (c1 : Conn) (m : Net) (hr : recvAfterHdr c n own hdr = (res, c1, m)) :
    ∃ cls : RecvClass, Sent n m (classReports c hdr cls) ∧
      (∀ r ∈ classReports c hdr cls, r.ver = c1.version) ∧ classFacts c c1 hdr (tapeBytes n.tape) res cls ∧
      (∀ k, cls = .payloadFault k → (recvAll n (lenOf hdr - 8) Gen.RTR_RECV_TIMEOUT).1 < 0) ∧
      (∀ k, cls ≠ .noHeader k) := by
  unfold recvAfterHdr at hr
  simp only at hr
  by_cases h1 : lenOf hdr < 8
  · rw [if_pos h1] at hr
    obtain ⟨a, b, v⟩ := er_failFatal c n own hdr txtCorrupt
    rw [hr] at a b v
    refine ⟨.lenSmall, a, ?_, ⟨b, h1⟩, (fun k h => by cases h), (fun k h => by cases h)⟩
    intro r hr'
    rw [(er_repOf_mem _ _ _ _ r hr').1, v]
  · rw [if_neg h1] at hr
    by_cases h2 : lenOf hdr > Gen.RTR_MAX_PDU_LEN
    · rw [if_pos h2] at hr
      obtain ⟨a, b, v⟩ := er_failFatal c n own hdr txtTooBig
      rw [hr] at a b v
      refine ⟨.lenBig, a, ?_, ⟨b, h2⟩, (fun k h => by cases h), (fun k h => by cases h)⟩
      intro r hr'
      rw [(er_repOf_mem _ _ _ _ r hr').1, v]
    · rw [if_neg h2] at hr
      by_cases h3 : verOf hdr ≠ (downgrade c hdr).version ∧ typeOf hdr ≠ 10
      · rw [if_pos h3] at hr
        have a := er_sendErrorPdu (downgrade c hdr) n hdr 8 []
        rcases h4 : sendErrorPdu (downgrade c hdr) n hdr 8 [] with ⟨ok1, n1⟩
        rw [h4] at hr a
        simp only [Prod.mk.injEq] at hr a
        obtain ⟨rfl, rfl, rfl⟩ := hr
        refine ⟨.version, a, ?_, ⟨rfl, by omega, by omega, h3.1, h3.2, rfl⟩, (fun k h => by cases h),
          (fun k h => by cases h)⟩
        intro r hr'
        rw [(er_repOf_mem _ _ _ _ r hr').1]
      · rw [if_neg h3] at hr
        have hs' : (downgrade c hdr).state ≠ .shutdown := by rw [er_downgrade_state]; exact hs
        obtain ⟨v, hcase⟩ := er_recvBody (downgrade c hdr) n own hdr hs' hok res c1 m hr
        rcases hcase with ⟨hres, hlen, hcs, hq⟩ | ⟨⟨k, hk⟩, hpos, hneg, hq⟩ | ⟨hlen, hcs, hres, hq⟩
        · refine ⟨.delivered _, hq, (fun r hr' => by cases hr'),
            ⟨hres, rfl, hlen, hcs, by omega, by omega, ?_, h3⟩, (fun k h => by cases h), (fun k h => by cases h)⟩
          rw [v]
          by_cases hv : verOf hdr = (downgrade c hdr).version
          · exact Or.inl hv
          · by_cases ht : typeOf hdr = 10
            · exact Or.inr ht
            · exact absurd ⟨hv, ht⟩ h3
        · refine ⟨.payloadFault k, hq, (fun r hr' => by cases hr'), ⟨hk, by omega, by omega, h3⟩, ?_,
            (fun k h => by cases h)⟩
          intro k' _; exact hneg
        · refine ⟨.sizeCheck, hq, ?_, ⟨hres, by omega, by omega, h3, hlen, hcs⟩, (fun k h => by cases h),
            (fun k h => by cases h)⟩
          intro r hr'
          rw [(er_repOf_mem _ _ _ _ r hr').1, v]

/-- **`rtr_receive_pdu` and its reports.**  Every call falls into one class; the environment
    afterwards is reached by recv calls, state callbacks and `tr_send_all` of exactly the class's
    reports (none, or one echoing the 8 header bytes at the front of the stream). -/
theorem er_receivePdu (c : Conn) (n : Net) (own : Nat) (t : Int) (hok : TapeOk n.tape)
    (res : RecvRes) (c1 : Conn) (m : Net) (hr : receivePdu c n own t = (res, c1, m)) :
    ∃ (cls : RecvClass) (hdr : List Nat), Sent n m (classReports c hdr cls) ∧
      (∀ r ∈ classReports c hdr cls, r.ver = c1.version) ∧
      classFacts c c1 hdr ((tapeBytes n.tape).drop 8) res cls ∧
      (∀ k, cls = .noHeader k → c.state = .shutdown ∨ (recvAll n 8 t).1 < 0) ∧
      ((∀ k, cls ≠ .noHeader k) →
        c.state ≠ .shutdown ∧ hdr = (tapeBytes n.tape).take 8 ∧ 8 ≤ (tapeBytes n.tape).length) ∧
      (∀ k, cls = .payloadFault k →
        (recvAll (recvAll n 8 t).2.2.1 (lenOf hdr - 8) Gen.RTR_RECV_TIMEOUT).1 < 0) := by
  rw [receivePdu_eq_stages] at hr
  by_cases hs : c.state = .shutdown
  · rw [if_pos hs] at hr
    simp only [Prod.mk.injEq] at hr
    obtain ⟨rfl, rfl, rfl⟩ := hr
    refine ⟨.noHeader (-1), [], Sent.refl n, (fun r h => by cases h), rfl, fun _ _ => Or.inl hs, ?_,
      (fun k h => by cases h)⟩
    intro h; exact absurd rfl (h (-1))
  · rw [if_neg hs] at hr
    have hq : Sent n (recvAll n 8 t).2.2.1 [] := Sent.recv n 8 t
    have hst := er_recvAll_stop n 8 t
    rcases h1 : recvAll n 8 t with ⟨rc, hdr, n1, stop⟩
    obtain ⟨hok1, _, _, hsucc⟩ := recvAll_facts n 8 t hok rc hdr n1 stop h1
    rw [h1] at hq hst hr
    simp only at hq hst hr
    by_cases hneg : rc < 0
    · rw [if_pos hneg] at hr
      obtain ⟨a, ⟨k, b⟩, v⟩ := er_recvTransportError (applyStop c stop) n1 own rc
      rw [hr] at a b v
      refine ⟨.noHeader k, [], hq.then_quiet a, (fun r h => by cases h), b, fun _ _ => Or.inr hneg, ?_,
        (fun k h => by cases h)⟩
      intro h; exact absurd rfl (h k)
    · rw [if_neg hneg] at hr
      have hst' : stop = false := hst (by omega)
      subst hst'
      rw [er_applyStop_false] at hr
      obtain ⟨_, hl8, _, htb⟩ := hsucc (by omega)
      obtain ⟨hhdr, hlen⟩ := er_take_of_append hdr _ _ 8 htb hl8
      have hdrop : tapeBytes n1.tape = (tapeBytes n.tape).drop 8 := by
        rw [htb, List.drop_left' hl8]
      obtain ⟨cls, a, v, f, pf, nh⟩ := er_recvAfterHdr c n1 own hdr hs hok1 res c1 m hr
      rw [hdrop] at f
      exact ⟨cls, hdr, hq.quiet_then a, v, f, fun k h => absurd h (nh k), fun _ => ⟨hs, hhdr, hlen⟩, pf⟩

/-- at most one report per call -/
theorem er_classReports_le (c : Conn) (hdr : List Nat) (cls : RecvClass) : (classReports c hdr cls).length ≤ 1 := by
  cases cls <;> first | exact Nat.zero_le _ | exact er_repOf_le _ _ _ _

/-- the shape of a report of `rtr_receive_pdu`: it echoes `hdr`, the header is not that of an Error
    Report, and code / text are those of the class -/
theorem er_classReports_mem (c : Conn) (hdr : List Nat) (cls : RecvClass) (r : Report)
    (h : r ∈ classReports c hdr cls) :
    r.enc = hdr ∧ ¬ (2 ≤ hdr.length ∧ hdr.getD 1 0 = 10) ∧
    ((cls = .lenSmall ∧ r.code = 0 ∧ r.text = txtCorrupt) ∨ (cls = .lenBig ∧ r.code = 0 ∧ r.text = txtTooBig) ∨
     (cls = .version ∧ r.code = 8 ∧ r.text = []) ∨ (cls = .sizeCheck ∧ r.code = 0 ∧ r.text = txtCorrupt)) := by
  cases cls with
  | delivered raw => cases h
  | noHeader k => cases h
  | payloadFault k => cases h
  | lenSmall =>
    obtain ⟨e, h1, _⟩ := er_repOf_mem _ _ _ _ r h
    subst e; exact ⟨rfl, h1, Or.inl ⟨rfl, rfl, rfl⟩⟩
  | lenBig =>
    obtain ⟨e, h1, _⟩ := er_repOf_mem _ _ _ _ r h
    subst e; exact ⟨rfl, h1, Or.inr (Or.inl ⟨rfl, rfl, rfl⟩)⟩
  | version =>
    obtain ⟨e, h1, _⟩ := er_repOf_mem _ _ _ _ r h
    subst e; exact ⟨rfl, h1, Or.inr (Or.inr (Or.inl ⟨rfl, rfl, rfl⟩))⟩
  | sizeCheck =>
    obtain ⟨e, h1, _⟩ := er_repOf_mem _ _ _ _ r h
    subst e; exact ⟨rfl, h1, Or.inr (Or.inr (Or.inr ⟨rfl, rfl, rfl⟩))⟩

/-! ### fault-free streams: the class is decided by the bytes -/

/-- the class a stream `bs` (at least 8 bytes, the announced PDU complete) falls into -/
def classOf (c : Conn) (bs : List Nat) : RecvClass :=
  if lenOf (bs.take 8) < 8 then .lenSmall
  else if lenOf (bs.take 8) > Gen.RTR_MAX_PDU_LEN then .lenBig
  else if verOf (bs.take 8) ≠ (downgrade c (bs.take 8)).version ∧ typeOf (bs.take 8) ≠ 10 then .version
  else if checkSize (bs.take (lenOf (bs.take 8))) then .delivered (bs.take (lenOf (bs.take 8)))
  else .sizeCheck

theorem er_take_split (bs : List Nat) (len : Nat) (h : 8 ≤ len) :
    bs.take 8 ++ (bs.drop 8).take (len - 8) = bs.take len := by
  have e : 8 + (len - 8) = len := by omega
  rw [← List.take_add, e]

/-- **The converse direction for `rtr_receive_pdu`.**  On a fault-free stream (any chunking, clock
    advances allowed) that holds the 8 header bytes and — unless the header alone is rejected — the
    whole announced PDU, with the socket not shut down: the class is `classOf c bs`, exactly the
    reports of that class are sent (one report, unless the header is that of an Error Report), and
    the result is the PDU or RTR_ERROR. -/
theorem er_receivePdu_quiet (c : Conn) (n : Net) (own : Nat) (t : Int) (hq : Quiet n.tape)
    (hs : c.state ≠ .shutdown) (h8 : 8 ≤ (tapeBytes n.tape).length)
    (hall : lenOf ((tapeBytes n.tape).take 8) ≤ (tapeBytes n.tape).length ∨
      lenOf ((tapeBytes n.tape).take 8) > Gen.RTR_MAX_PDU_LEN ∨
      (verOf ((tapeBytes n.tape).take 8) ≠ (downgrade c ((tapeBytes n.tape).take 8)).version ∧
        typeOf ((tapeBytes n.tape).take 8) ≠ 10))
    (res : RecvRes) (c1 : Conn) (m : Net) (hr : receivePdu c n own t = (res, c1, m)) :
    Sent n m (classReports c ((tapeBytes n.tape).take 8) (classOf c (tapeBytes n.tape))) ∧
    (∀ r ∈ classReports c ((tapeBytes n.tape).take 8) (classOf c (tapeBytes n.tape)), r.ver = c1.version) ∧
    res = (match classOf c (tapeBytes n.tape) with | .delivered raw => .ok raw | _ => .rc (-1)) := by
  obtain ⟨cls, hdr, hsent, hver, hfacts, hno, hhdr, hpf⟩ := er_receivePdu c n own t hq.tapeOk res c1 m hr
  obtain ⟨n1, h1, hq1, htb1, _, _⟩ := recvAll_chunking_quiet n 8 t hq h8
  have hrc : ¬ (recvAll n 8 t).1 < 0 := by rw [h1]; simp
  have hnh : ∀ k, cls ≠ .noHeader k := by
    intro k hk
    rcases hno k hk with h | h
    · exact hs h
    · exact hrc h
  obtain ⟨_, hhdr', _⟩ := hhdr hnh
  subst hhdr'
  generalize hbs : tapeBytes n.tape = bs at *
  have hn1 : (recvAll n 8 t).2.2.1 = n1 := by rw [h1]
  cases cls with
  | noHeader k => exact absurd rfl (hnh k)
  | lenSmall =>
    obtain ⟨hres, hl⟩ := hfacts
    have : classOf c bs = .lenSmall := by unfold classOf; rw [if_pos hl]
    rw [this]; exact ⟨hsent, hver, hres⟩
  | lenBig =>
    obtain ⟨hres, hl⟩ := hfacts
    have hm : Gen.RTR_MAX_PDU_LEN = 3248 := rfl
    have : classOf c bs = .lenBig := by unfold classOf; rw [if_neg (by omega), if_pos hl]
    rw [this]; exact ⟨hsent, hver, hres⟩
  | version =>
    obtain ⟨hres, hl1, hl2, hv, ht, _⟩ := hfacts
    have : classOf c bs = .version := by
      unfold classOf; rw [if_neg (by omega), if_neg (by omega), if_pos ⟨hv, ht⟩]
    rw [this]; exact ⟨hsent, hver, hres⟩
  | sizeCheck =>
    obtain ⟨hres, hl1, hl2, hv, hlen, hcs⟩ := hfacts
    rw [er_take_split bs _ hl1] at hcs
    have : classOf c bs = .sizeCheck := by
      unfold classOf; rw [if_neg (by omega), if_neg (by omega), if_neg hv, hcs]; rfl
    rw [this]; exact ⟨hsent, hver, hres⟩
  | delivered raw =>
    obtain ⟨hres, hraw, hlen, hcs, hl1, hl2, _, hv⟩ := hfacts
    rw [er_take_split bs _ hl1] at hraw
    subst hraw
    have : classOf c bs = .delivered (bs.take (lenOf (bs.take 8))) := by
      unfold classOf; rw [if_neg (by omega), if_neg (by omega), if_neg hv, hcs]; rfl
    rw [this]; exact ⟨hsent, hver, hres⟩
  | payloadFault k =>
    exfalso
    obtain ⟨_, hl1, hl2, hv⟩ := hfacts
    have hneg := hpf k rfl
    rw [hn1] at hneg
    have hen : lenOf (bs.take 8) - 8 ≤ (tapeBytes n1.tape).length := by
      rw [htb1, List.length_drop]
      rcases hall with h | h | h
      · omega
      · omega
      · exact absurd h hv
    obtain ⟨n2, h2, _⟩ := recvAll_chunking_quiet n1 _ Gen.RTR_RECV_TIMEOUT hq1 hen
    rw [h2] at hneg
    simp at hneg
    omega

/-! ## the table updates (`rtr_update_pfx_table`, `rtr_update_spki_table`) -/

/-- a report of the table stage: the socket's version, the whole offending PDU echoed, and one of
    the code / text combinations of `rtr_update_pfx_table` / `rtr_update_spki_table` -/
def TableReport (c : Conn) (p : List Nat) (r : Report) : Prop :=
  r.ver = c.version ∧ r.enc = p ∧ ¬ (2 ≤ p.length ∧ p.getD 1 0 = 10) ∧ c.state ≠ .shutdown ∧
  ((r.code = 0 ∧ (r.text = txtBadLenPfx ∨ r.text = txtBadFlagsPfx ∨ r.text = txtBadFlagsKey)) ∨
   (r.code = 7 ∧ r.text = []) ∨ (r.code = 6 ∧ r.text = []))

theorem er_repHost_whole (c : Conn) (raw : List Nat) (code : Nat) (text : List Nat) (r : Report)
    (h : r ∈ repHost c raw raw.length code text) :
    r = ⟨c.version, code, raw, text⟩ ∧ ¬ (2 ≤ raw.length ∧ raw.getD 1 0 = 10) ∧ c.state ≠ .shutdown := by
  unfold repHost at h
  by_cases h0 : raw.length = 0
  · rw [if_pos h0] at h
    have hr : raw = [] := List.eq_nil_of_length_eq_zero h0
    obtain ⟨e, _, hs⟩ := er_repOf_mem _ _ _ _ r h
    subst hr
    exact ⟨e, fun h' => by simp at h', hs⟩
  · rw [if_neg h0] at h
    by_cases h8 : raw.length < 8
    · rw [if_pos h8] at h; cases h
    · rw [if_neg h8, List.take_length] at h
      exact er_repOf_mem _ _ _ _ r h

theorem er_repHost_le (c : Conn) (raw : List Nat) (k code : Nat) (text : List Nat) :
    (repHost c raw k code text).length ≤ 1 := by
  unfold repHost
  split
  · exact er_repOf_le _ _ _ _
  · split
    · exact Nat.zero_le _
    · exact er_repOf_le _ _ _ _

theorem er_repHost_one (c : Conn) (raw : List Nat) (code : Nat) (text : List Nat) (h8 : 8 ≤ raw.length)
    (h10 : raw.getD 1 0 ≠ 10) (hs : c.state ≠ .shutdown) :
    repHost c raw raw.length code text = [⟨c.version, code, raw, text⟩] := by
  unfold repHost
  rw [if_neg (by omega), if_neg (by omega), List.take_length]
  exact er_repOf_one _ _ _ _ (fun h => h10 h.2) hs

/-- address width of the family of a Prefix PDU -/
def maxBitsOf (raw : List Nat) : Nat := if (pfxRecOf raw).v6 = true then 128 else 32

/-- the reports of `rtr_update_pfx_table` for PDU `raw` against update tables `t` -/
def pfxReports (c : Conn) (t : Tbl) (raw : List Nat) : List Report :=
  if (pfxRecOf raw).len > maxBitsOf raw ∨ (pfxRecOf raw).maxLen > maxBitsOf raw then
    repHost c raw raw.length 0 txtBadLenPfx
  else if flagsOf raw ≠ 0 ∧ flagsOf raw ≠ 1 then repHost c raw raw.length 0 txtBadFlagsPfx
  else
    match (if flagsOf raw = 1 then ptAdd t.upd.pt (pfxRecOf raw) else ptRemove t.upd.pt (pfxRecOf raw)).2 with
    | .duplicate => repHost c raw raw.length 7 []
    | .notFound => repHost c raw raw.length 6 []
    | _ => []

def keyReports (c : Conn) (t : Tbl) (raw : List Nat) : List Report :=
  if flagsOf raw ≠ 0 ∧ flagsOf raw ≠ 1 then repHost c raw raw.length 0 txtBadFlagsKey
  else
    match (if flagsOf raw = 1 then ktAdd t.upd.kt (keyRecOf raw) else ktRemove t.upd.kt (keyRecOf raw)).2 with
    | .duplicate => repHost c raw raw.length 7 []
    | .notFound => repHost c raw raw.length 6 []
    | _ => []

theorem er_ptOp_ne_error (pt : List Rec) (r : Rec) (f : Bool) :
    (if f then ptAdd pt r else ptRemove pt r).2 ≠ .error := by
  cases f
  · simp only [Bool.false_eq_true, if_false]; unfold ptRemove; split <;> simp
  · simp only [if_true]; unfold ptAdd; split <;> simp

theorem er_ktOp_ne_error (kt : List KeyRec) (r : KeyRec) (f : Bool) :
    (if f then ktAdd kt r else ktRemove kt r).2 ≠ .error := by
  cases f
  · simp only [Bool.false_eq_true, if_false]; unfold ktRemove; split <;> simp
  · simp only [if_true]; unfold ktAdd; split <;> simp

theorem er_pfxReports_le (c : Conn) (t : Tbl) (raw : List Nat) : (pfxReports c t raw).length ≤ 1 := by
  unfold pfxReports
  split
  · exact er_repHost_le _ _ _ _ _
  · split
    · exact er_repHost_le _ _ _ _ _
    · split
      · exact er_repHost_le _ _ _ _ _
      · exact er_repHost_le _ _ _ _ _
      · exact Nat.zero_le _

theorem er_keyReports_le (c : Conn) (t : Tbl) (raw : List Nat) : (keyReports c t raw).length ≤ 1 := by
  unfold keyReports
  split
  · exact er_repHost_le _ _ _ _ _
  · split
    · exact er_repHost_le _ _ _ _ _
    · exact er_repHost_le _ _ _ _ _
    · exact Nat.zero_le _

theorem er_pfxReports_mem (c : Conn) (t : Tbl) (raw : List Nat) (r : Report) (h : r ∈ pfxReports c t raw) :
    TableReport c raw r := by
  unfold pfxReports at h
  split at h
  · obtain ⟨e, a, b⟩ := er_repHost_whole _ _ _ _ r h
    subst e; exact ⟨rfl, rfl, a, b, Or.inl ⟨rfl, Or.inl rfl⟩⟩
  · split at h
    · obtain ⟨e, a, b⟩ := er_repHost_whole _ _ _ _ r h
      subst e; exact ⟨rfl, rfl, a, b, Or.inl ⟨rfl, Or.inr (Or.inl rfl)⟩⟩
    · split at h
      · obtain ⟨e, a, b⟩ := er_repHost_whole _ _ _ _ r h
        subst e; exact ⟨rfl, rfl, a, b, Or.inr (Or.inl ⟨rfl, rfl⟩)⟩
      · obtain ⟨e, a, b⟩ := er_repHost_whole _ _ _ _ r h
        subst e; exact ⟨rfl, rfl, a, b, Or.inr (Or.inr ⟨rfl, rfl⟩)⟩
      · cases h

theorem er_keyReports_mem (c : Conn) (t : Tbl) (raw : List Nat) (r : Report) (h : r ∈ keyReports c t raw) :
    TableReport c raw r := by
  unfold keyReports at h
  split at h
  · obtain ⟨e, a, b⟩ := er_repHost_whole _ _ _ _ r h
    subst e; exact ⟨rfl, rfl, a, b, Or.inl ⟨rfl, Or.inr (Or.inr rfl)⟩⟩
  · split at h
    · obtain ⟨e, a, b⟩ := er_repHost_whole _ _ _ _ r h
      subst e; exact ⟨rfl, rfl, a, b, Or.inr (Or.inl ⟨rfl, rfl⟩)⟩
    · obtain ⟨e, a, b⟩ := er_repHost_whole _ _ _ _ r h
      subst e; exact ⟨rfl, rfl, a, b, Or.inr (Or.inr ⟨rfl, rfl⟩)⟩
    · cases h

/-- **`rtr_update_pfx_table`**: exactly the reports `pfxReports`; the version is untouched; success
    sends nothing and leaves the socket alone; a failure on a well-sized PDU (not an Error Report,
    socket not shut down) sends exactly one report -/
theorem er_updatePfx (c : Conn) (n : Net) (t : Tbl) (raw : List Nat) :
    Sent n (updatePfx c n t raw).2.2.1 (pfxReports c t raw) ∧
    (updatePfx c n t raw).2.1.version = c.version ∧
    (c.state ≠ .shutdown → (updatePfx c n t raw).2.1.state ≠ .shutdown) ∧
    ((updatePfx c n t raw).1 = true → pfxReports c t raw = [] ∧ (updatePfx c n t raw).2.1 = c) ∧
    ((updatePfx c n t raw).1 = false → 8 ≤ raw.length → raw.getD 1 0 ≠ 10 → c.state ≠ .shutdown →
      (pfxReports c t raw).length = 1) := by
  unfold updatePfx pfxReports maxBitsOf
  simp only
  by_cases h1 : (pfxRecOf raw).len > (if (pfxRecOf raw).v6 = true then 128 else 32) ∨
      (pfxRecOf raw).maxLen > (if (pfxRecOf raw).v6 = true then 128 else 32)
  · simp only [if_pos h1]
    refine ⟨er_sendErrorFromHost c n raw _ 0 _, trivial, fun h => h, (fun h => by cases h), ?_⟩
    intro _ h8 h10 hs
    rw [er_repHost_one c raw 0 _ h8 h10 hs]; rfl
  · simp only [if_neg h1]
    by_cases h2 : flagsOf raw ≠ 0 ∧ flagsOf raw ≠ 1
    · simp only [if_pos h2]
      refine ⟨er_sendErrorFromHost c n raw _ 0 _, trivial, fun h => h, (fun h => by cases h), ?_⟩
      intro _ h8 h10 hs
      rw [er_repHost_one c raw 0 _ h8 h10 hs]; rfl
    · simp only [if_neg h2]
      have hne := er_ptOp_ne_error t.upd.pt (pfxRecOf raw) (decide (flagsOf raw = 1))
      simp only [decide_eq_true_eq] at hne
      generalize (if flagsOf raw = 1 then ptAdd t.upd.pt (pfxRecOf raw) else ptRemove t.upd.pt (pfxRecOf raw)) = x
        at hne ⊢
      obtain ⟨pt', rc⟩ := x
      cases rc with
      | duplicate =>
        simp only
        refine ⟨(er_sendErrorFromHost c n raw _ 7 []).then_quiet (Sent.state c _ t.own .errFatal),
          er_changeState_conn c _ _ _, fun h => er_changeState_shutdown c _ _ _ h (by decide),
          (fun h => by cases h), ?_⟩
        intro _ h8 h10 hs
        rw [er_repHost_one c raw 7 _ h8 h10 hs]; rfl
      | notFound =>
        simp only
        refine ⟨(er_sendErrorFromHost c n raw _ 6 []).then_quiet (Sent.state c _ t.own .errFatal),
          er_changeState_conn c _ _ _, fun h => er_changeState_shutdown c _ _ _ h (by decide),
          (fun h => by cases h), ?_⟩
        intro _ h8 h10 hs
        rw [er_repHost_one c raw 6 _ h8 h10 hs]; rfl
      | error => exact absurd rfl hne
      | success =>
        simp only
        exact ⟨Sent.refl n, trivial, fun h => h, fun _ => ⟨trivial, trivial⟩, (fun h => by cases h)⟩

theorem er_updateKey (c : Conn) (n : Net) (t : Tbl) (raw : List Nat) :
    Sent n (updateKey c n t raw).2.2.1 (keyReports c t raw) ∧
    (updateKey c n t raw).2.1.version = c.version ∧
    (c.state ≠ .shutdown → (updateKey c n t raw).2.1.state ≠ .shutdown) ∧
    ((updateKey c n t raw).1 = true → keyReports c t raw = [] ∧ (updateKey c n t raw).2.1 = c) ∧
    ((updateKey c n t raw).1 = false → 8 ≤ raw.length → raw.getD 1 0 ≠ 10 → c.state ≠ .shutdown →
      (keyReports c t raw).length = 1) := by
  unfold updateKey keyReports
  simp only
  by_cases h2 : flagsOf raw ≠ 0 ∧ flagsOf raw ≠ 1
  · simp only [if_pos h2]
    refine ⟨er_sendErrorFromHost c n raw _ 0 _, trivial, fun h => h, (fun h => by cases h), ?_⟩
    intro _ h8 h10 hs
    rw [er_repHost_one c raw 0 _ h8 h10 hs]; rfl
  · simp only [if_neg h2]
    have hne := er_ktOp_ne_error t.upd.kt (keyRecOf raw) (decide (flagsOf raw = 1))
    simp only [decide_eq_true_eq] at hne
    generalize (if flagsOf raw = 1 then ktAdd t.upd.kt (keyRecOf raw) else ktRemove t.upd.kt (keyRecOf raw)) = x
      at hne ⊢
    obtain ⟨kt', rc⟩ := x
    cases rc with
    | duplicate =>
      simp only
      refine ⟨(er_sendErrorFromHost c n raw _ 7 []).then_quiet (Sent.state c _ t.own .errFatal),
        er_changeState_conn c _ _ _, fun h => er_changeState_shutdown c _ _ _ h (by decide),
        (fun h => by cases h), ?_⟩
      intro _ h8 h10 hs
      rw [er_repHost_one c raw 7 _ h8 h10 hs]; rfl
    | notFound =>
      simp only
      refine ⟨(er_sendErrorFromHost c n raw _ 6 []).then_quiet (Sent.state c _ t.own .errFatal),
        er_changeState_conn c _ _ _, fun h => er_changeState_shutdown c _ _ _ h (by decide),
        (fun h => by cases h), ?_⟩
      intro _ h8 h10 hs
      rw [er_repHost_one c raw 6 _ h8 h10 hs]; rfl
    | error => exact absurd rfl hne
    | success =>
      simp only
      exact ⟨Sent.refl n, trivial, fun h => h, fun _ => ⟨trivial, trivial⟩, (fun h => by cases h)⟩

/-- a PDU long enough to be echoed whole and not an Error Report (every PDU `rtr_receive_pdu` hands
    on has at least 8 bytes; Prefix / Router Key PDUs have type 4 / 6 / 9) -/
def GoodPdu (p : List Nat) : Prop := 8 ≤ p.length ∧ p.getD 1 0 ≠ 10

/-- the facts about a run of table updates over a list of buffered PDUs -/
structure TableRun (c : Conn) (ps : List (List Nat)) (ok : Bool) (c1 : Conn) (rs : List Report) : Prop where
  le : rs.length ≤ 1
  version : c1.version = c.version
  alive : c.state ≠ .shutdown → c1.state ≠ .shutdown
  success : ok = true → rs = [] ∧ c1 = c
  shape : ∀ r ∈ rs, ∃ p ∈ ps, TableReport c p r
  failure : ok = false → (∀ p ∈ ps, GoodPdu p) → c.state ≠ .shutdown → rs.length = 1

theorem er_applyPfx : ∀ (ps : List (List Nat)) (c : Conn) (n : Net) (t : Tbl) (done : List (List Nat))
    (ok : Bool) (c1 : Conn) (m : Net) (t1 : Tbl) (d1 : List (List Nat)),
    applyPfx c n t ps done = (ok, c1, m, t1, d1) → ∃ rs, Sent n m rs ∧ TableRun c ps ok c1 rs := by
  intro ps
  induction ps with
  | nil =>
    intro c n t done ok c1 m t1 d1 hr
    simp only [applyPfx, Prod.mk.injEq] at hr
    obtain ⟨rfl, rfl, rfl, rfl, rfl⟩ := hr
    exact ⟨[], Sent.refl n, ⟨Nat.zero_le _, rfl, fun h => h, fun _ => ⟨rfl, rfl⟩, (fun r h => by cases h),
      (fun h => by cases h)⟩⟩
  | cons p ps ih =>
    intro c n t done ok c1 m t1 d1 hr
    unfold applyPfx at hr
    obtain ⟨a, v, al, su, fa⟩ := er_updatePfx c n t p
    rcases hu : updatePfx c n t p with ⟨ok2, c2, n2, t2⟩
    rw [hu] at hr a v al su fa
    simp only at hr a v al su fa
    cases ok2 with
    | true =>
      simp only [if_true] at hr
      obtain ⟨hnil, hc⟩ := su rfl
      subst hc
      obtain ⟨rs, hs, hrun⟩ := ih c2 n2 t2 _ ok c1 m t1 d1 hr
      rw [hnil] at a
      refine ⟨rs, a.quiet_then hs, ⟨hrun.le, hrun.version, hrun.alive, hrun.success, ?_, ?_⟩⟩
      · intro r hr'
        obtain ⟨q, hq, htr⟩ := hrun.shape r hr'
        exact ⟨q, List.mem_cons_of_mem _ hq, htr⟩
      · intro hf hg hsd
        exact hrun.failure hf (fun q hq => hg q (List.mem_cons_of_mem _ hq)) hsd
    | false =>
      simp only [Bool.false_eq_true, if_false, Prod.mk.injEq] at hr
      obtain ⟨rfl, rfl, rfl, rfl, rfl⟩ := hr
      refine ⟨pfxReports c t p, a, ⟨er_pfxReports_le c t p, v, al, (fun h => by cases h), ?_, ?_⟩⟩
      · intro r hr'
        exact ⟨p, List.mem_cons_self, er_pfxReports_mem c t p r hr'⟩
      · intro _ hg hsd
        have := hg p List.mem_cons_self
        exact fa rfl this.1 this.2 hsd

theorem er_applyKey : ∀ (ps : List (List Nat)) (c : Conn) (n : Net) (t : Tbl) (done : List (List Nat))
    (ok : Bool) (c1 : Conn) (m : Net) (t1 : Tbl) (d1 : List (List Nat)),
    applyKey c n t ps done = (ok, c1, m, t1, d1) → ∃ rs, Sent n m rs ∧ TableRun c ps ok c1 rs := by
  intro ps
  induction ps with
  | nil =>
    intro c n t done ok c1 m t1 d1 hr
    simp only [applyKey, Prod.mk.injEq] at hr
    obtain ⟨rfl, rfl, rfl, rfl, rfl⟩ := hr
    exact ⟨[], Sent.refl n, ⟨Nat.zero_le _, rfl, fun h => h, fun _ => ⟨rfl, rfl⟩, (fun r h => by cases h),
      (fun h => by cases h)⟩⟩
  | cons p ps ih =>
    intro c n t done ok c1 m t1 d1 hr
    unfold applyKey at hr
    obtain ⟨a, v, al, su, fa⟩ := er_updateKey c n t p
    rcases hu : updateKey c n t p with ⟨ok2, c2, n2, t2⟩
    rw [hu] at hr a v al su fa
    simp only at hr a v al su fa
    cases ok2 with
    | true =>
      simp only [if_true] at hr
      obtain ⟨hnil, hc⟩ := su rfl
      subst hc
      obtain ⟨rs, hs, hrun⟩ := ih c2 n2 t2 _ ok c1 m t1 d1 hr
      rw [hnil] at a
      refine ⟨rs, a.quiet_then hs, ⟨hrun.le, hrun.version, hrun.alive, hrun.success, ?_, ?_⟩⟩
      · intro r hr'
        obtain ⟨q, hq, htr⟩ := hrun.shape r hr'
        exact ⟨q, List.mem_cons_of_mem _ hq, htr⟩
      · intro hf hg hsd
        exact hrun.failure hf (fun q hq => hg q (List.mem_cons_of_mem _ hq)) hsd
    | false =>
      simp only [Bool.false_eq_true, if_false, Prod.mk.injEq] at hr
      obtain ⟨rfl, rfl, rfl, rfl, rfl⟩ := hr
      refine ⟨keyReports c t p, a, ⟨er_keyReports_le c t p, v, al, (fun h => by cases h), ?_, ?_⟩⟩
      · intro r hr'
        exact ⟨p, List.mem_cons_self, er_keyReports_mem c t p r hr'⟩
      · intro _ hg hsd
        have := hg p List.mem_cons_self
        exact fa rfl this.1 this.2 hsd

theorem TableRun.mono {c : Conn} {ps qs : List (List Nat)} {ok : Bool} {c1 : Conn} {rs : List Report}
    (h : TableRun c ps ok c1 rs) (hsub : ∀ p ∈ ps, p ∈ qs) : 
    rs.length ≤ 1 ∧ c1.version = c.version ∧ (c.state ≠ .shutdown → c1.state ≠ .shutdown) ∧
    (ok = true → rs = [] ∧ c1 = c) ∧ (∀ r ∈ rs, ∃ p ∈ qs, TableReport c p r) :=
  ⟨h.le, h.version, h.alive, h.success, fun r hr => by
    obtain ⟨p, hp, ht⟩ := h.shape r hr
    exact ⟨p, hsub p hp, ht⟩⟩

theorem er_applyFail (undone : Bool) (c : Conn) (n : Net) (t : Tbl) :
    Sent n (applyFail undone c n t).n [] ∧ (applyFail undone c n t).c.version = c.version ∧
    (applyFail undone c n t).ok = false ∧ (c.state ≠ .shutdown → (applyFail undone c n t).c.state ≠ .shutdown) := by
  unfold applyFail
  exact ⟨Sent.state c n _ .errFatal, er_changeState_conn c n _ _, rfl,
    fun h => er_changeState_shutdown c n _ _ h (by decide)⟩

/-- **the table part of the End of Data branch** (`applyTables`): at most one report, sent exactly
    when a buffered PDU could not be applied; it echoes that PDU whole -/
theorem er_applyTables (c : Conn) (n : Net) (t : Tbl) (resetting : Bool) (v4 v6 keys : List (List Nat)) :
    ∃ rs, Sent n (applyTables c n t resetting v4 v6 keys).n rs ∧ rs.length ≤ 1 ∧
      (applyTables c n t resetting v4 v6 keys).c.version = c.version ∧
      (c.state ≠ .shutdown → (applyTables c n t resetting v4 v6 keys).c.state ≠ .shutdown) ∧
      ((applyTables c n t resetting v4 v6 keys).ok = true → rs = []) ∧
      (∀ r ∈ rs, ∃ p ∈ v4 ++ v6 ++ keys, TableReport c p r) ∧
      ((applyTables c n t resetting v4 v6 keys).ok = false → (∀ p ∈ v4 ++ v6 ++ keys, GoodPdu p) →
        c.state ≠ .shutdown → rs.length = 1) := by
  rw [applyTables_eq]
  generalize (if resetting = true then ({ t with shadow := some ⟨ptSrcRemove t.pt 0, ktSrcRemove t.kt 0⟩ } : Tbl)
    else t) = t0
  unfold applyTablesBody
  rcases e4 : applyPfx c n t0 v4 [] with ⟨ok4, c4, n4, t4, d4⟩
  obtain ⟨rs4, s4, run4⟩ := er_applyPfx v4 c n t0 [] ok4 c4 n4 t4 d4 e4
  simp only
  cases ok4 with
  | false =>
    simp only [Bool.not_false, if_true]
    refine ⟨rs4, s4.then_quiet (er_applyFail _ _ _ _).1, run4.le,
      by rw [(er_applyFail _ _ _ _).2.1, run4.version],
      fun h => (er_applyFail _ _ _ _).2.2.2 (run4.alive h),
      (fun h => by rw [(er_applyFail _ _ _ _).2.2.1] at h; cases h), ?_, ?_⟩
    · intro r hr
      obtain ⟨p, hp, ht⟩ := run4.shape r hr
      exact ⟨p, by simp [hp], ht⟩
    · intro _ hg hs
      exact run4.failure rfl (fun p hp => hg p (by simp [hp])) hs
  | true =>
    simp only [Bool.not_true, Bool.false_eq_true, if_false]
    obtain ⟨hnil4, hc4⟩ := run4.success rfl
    subst hnil4 hc4
    rcases e6 : applyPfx c4 n4 t4 v6 [] with ⟨ok6, c6, n6, t6, d6⟩
    obtain ⟨rs6, s6, run6⟩ := er_applyPfx v6 c4 n4 t4 [] ok6 c6 n6 t6 d6 e6
    simp only
    cases ok6 with
    | false =>
      simp only [Bool.not_false, if_true]
      refine ⟨rs6, (s4.quiet_then s6).then_quiet (er_applyFail _ _ _ _).1, run6.le,
        by rw [(er_applyFail _ _ _ _).2.1, run6.version],
        fun h => (er_applyFail _ _ _ _).2.2.2 (run6.alive h),
        (fun h => by rw [(er_applyFail _ _ _ _).2.2.1] at h; cases h), ?_, ?_⟩
      · intro r hr
        obtain ⟨p, hp, ht⟩ := run6.shape r hr
        exact ⟨p, by simp [hp], ht⟩
      · intro _ hg hs
        exact run6.failure rfl (fun p hp => hg p (by simp [hp])) hs
    | true =>
      simp only [Bool.not_true, Bool.false_eq_true, if_false]
      obtain ⟨hnil6, hc6⟩ := run6.success rfl
      subst hnil6 hc6
      rcases ek : applyKey c6 n6 t6 keys [] with ⟨okk, ck, nk, tk, dk⟩
      obtain ⟨rsk, sk, runk⟩ := er_applyKey keys c6 n6 t6 [] okk ck nk tk dk ek
      simp only
      cases okk with
      | false =>
        simp only [Bool.not_false, if_true]
        refine ⟨rsk, ((s4.quiet_then s6).quiet_then sk).then_quiet (er_applyFail _ _ _ _).1, runk.le,
          by rw [(er_applyFail _ _ _ _).2.1, runk.version],
          fun h => (er_applyFail _ _ _ _).2.2.2 (runk.alive h),
          (fun h => by rw [(er_applyFail _ _ _ _).2.2.1] at h; cases h), ?_, ?_⟩
        · intro r hr
          obtain ⟨p, hp, ht⟩ := runk.shape r hr
          exact ⟨p, by simp [hp], ht⟩
        · intro _ hg hs
          exact runk.failure rfl (fun p hp => hg p (by simp [hp])) hs
      | true =>
        simp only [Bool.not_true, Bool.false_eq_true, if_false]
        obtain ⟨hnilk, hck⟩ := runk.success rfl
        subst hnilk hck
        exact ⟨[], (s4.quiet_then s6).quiet_then sk, Nat.zero_le _, rfl, fun h => h, fun _ => rfl,
          (fun r h => by cases h), (fun h => by cases h)⟩

/-! ## text lengths (`sizeof(txt)` of the C literals) -/

theorem er_loop_len (bs : ByteArray) (i : Nat) (r : List UInt8) :
    (ByteArray.toList.loop bs i r).length = r.length + (bs.size - i) := by
  fun_induction ByteArray.toList.loop bs i r with
  | case1 i r h ih => rw [ih]; simp only [List.length_cons]; omega
  | case2 i r h => simp only [List.length_reverse]; omega

theorem er_ba_len (b : ByteArray) : b.toList.length = b.size := by
  unfold ByteArray.toList; rw [er_loop_len]; simp

theorem er_cstr_len (s : String) : (cstr s).length = s.toUTF8.size + 1 := by
  simp [cstr, strBytes, er_ba_len]

theorem er_text_lengths :
    txtCorrupt.length = 56 ∧ txtTooBig.length = 42 ∧ txtWrongSession.length = 39 ∧ txtBadLenPfx.length = 46 ∧
    txtBadFlagsPfx.length = 45 ∧ txtBadFlagsKey.length = 49 ∧ txtUnexpectedSync.length = 52 ∧
    txtUnexpectedSync2.length = 48 := by
  refine ⟨?_, ?_, ?_, ?_, ?_, ?_, ?_, ?_⟩
  · unfold txtCorrupt; rw [er_cstr_len]; decide
  · unfold txtTooBig; rw [er_cstr_len]; decide
  · unfold txtWrongSession; rw [er_cstr_len]; decide
  · unfold txtBadLenPfx; rw [er_cstr_len]; decide
  · unfold txtBadFlagsPfx; rw [er_cstr_len]; decide
  · unfold txtBadFlagsKey; rw [er_cstr_len]; decide
  · unfold txtUnexpectedSync; rw [er_cstr_len]; decide
  · unfold txtUnexpectedSync2; rw [er_cstr_len]; decide

theorem er_txtEodSession_len (a b : Nat) : (txtEodSession a b).length ≤ 67 := by
  unfold txtEodSession
  simp only [List.length_append, List.length_take, List.length_cons, List.length_nil]
  omega

/-! ## the synchronisation: provenance of the echoed bytes -/

/-- a complete PDU as `rtr_receive_pdu` hands it on -/
def ValidPdu (p : List Nat) : Prop :=
  checkSize p = true ∧ p.length = lenOf p ∧ 8 ≤ p.length ∧ p.length ≤ Gen.RTR_MAX_PDU_LEN

/-- `rest` starts at a PDU boundary of the stream `s`: what precedes it is a sequence of complete,
    checked PDUs (those processed before) -/
def AtBoundary (s rest : List Nat) : Prop :=
  ∃ ps : List (List Nat), (∀ p ∈ ps, ValidPdu p) ∧ s = ps.flatten ++ rest

/-- **`enc` is a byte-exact prefix of a PDU as received**: at some PDU boundary of the stream `s` it
    is the first 8 bytes (the header, whatever follows), or a whole complete checked PDU -/
def StreamEcho (s enc : List Nat) : Prop :=
  ∃ rest, AtBoundary s rest ∧ ((8 ≤ rest.length ∧ enc = rest.take 8) ∨ (ValidPdu enc ∧ enc <+: rest))

theorem StreamEcho.shift {s enc : List Nat} (p : List Nat) (hv : ValidPdu p) (h : StreamEcho s enc) :
    StreamEcho (p ++ s) enc := by
  obtain ⟨rest, ⟨ps, hps, hs⟩, h⟩ := h
  refine ⟨rest, ⟨p :: ps, ?_, ?_⟩, h⟩
  · intro q hq
    rcases List.mem_cons.1 hq with rfl | hq
    · exact hv
    · exact hps q hq
  · rw [hs, List.flatten_cons, List.append_assoc]

theorem StreamEcho.head8 {s : List Nat} (h : 8 ≤ s.length) : StreamEcho s (s.take 8) :=
  ⟨s, ⟨[], (fun _ h => by cases h), rfl⟩, Or.inl ⟨h, rfl⟩⟩

theorem StreamEcho.whole {raw : List Nat} (s : List Nat) (hv : ValidPdu raw) : StreamEcho (raw ++ s) raw :=
  ⟨raw ++ s, ⟨[], (fun _ h => by cases h), rfl⟩, Or.inr ⟨hv, List.prefix_append _ _⟩⟩

theorem StreamEcho.hdr {raw : List Nat} (s : List Nat) (hv : ValidPdu raw) : StreamEcho (raw ++ s) (raw.take 8) := by
  refine ⟨raw ++ s, ⟨[], (fun _ h => by cases h), rfl⟩, Or.inl ⟨?_, ?_⟩⟩
  · rw [List.length_append]; have := hv.2.2.1; omega
  · rw [List.take_append_of_le_length hv.2.2.1]

/-- what every report of a synchronisation satisfies: the socket's (final) version, not an echo of
    an Error Report, one of the four codes the client uses, a short text -/
structure SyncReport (c1 : Conn) (r : Report) : Prop where
  ver : r.ver = c1.version
  notErr : ¬ (2 ≤ r.enc.length ∧ r.enc.getD 1 0 = 10)
  code : r.code = 0 ∨ r.code = 6 ∨ r.code = 7 ∨ r.code = 8
  text : r.text.length ≤ 67

theorem er_repOf_sync (c c1 : Conn) (enc : List Nat) (code : Nat) (text : List Nat) (r : Report)
    (h : r ∈ repOf c enc code text) (hv : c1.version = c.version)
    (hc : code = 0 ∨ code = 6 ∨ code = 7 ∨ code = 8) (ht : text.length ≤ 67) : SyncReport c1 r ∧ r.enc = enc := by
  obtain ⟨e, h1, _⟩ := er_repOf_mem c enc code text r h
  subst e
  exact ⟨⟨hv.symm, h1, hc, ht⟩, rfl⟩

theorem er_classReports_sync (c c1 : Conn) (hdr : List Nat) (cls : RecvClass) (r : Report)
    (h : r ∈ classReports c hdr cls) (hv : r.ver = c1.version) : SyncReport c1 r ∧ r.enc = hdr := by
  obtain ⟨he, hne, hcls⟩ := er_classReports_mem c hdr cls r h
  obtain ⟨l1, l2, _⟩ := er_text_lengths
  refine ⟨⟨hv, by rw [he]; exact hne, ?_, ?_⟩, he⟩
  · rcases hcls with ⟨_, h0, _⟩ | ⟨_, h0, _⟩ | ⟨_, h0, _⟩ | ⟨_, h0, _⟩
    · exact Or.inl h0
    · exact Or.inl h0
    · exact Or.inr (Or.inr (Or.inr h0))
    · exact Or.inl h0
  · rcases hcls with ⟨_, _, ht⟩ | ⟨_, _, ht⟩ | ⟨_, _, ht⟩ | ⟨_, _, ht⟩
    · rw [ht, l1]; omega
    · rw [ht, l2]; omega
    · rw [ht]; simp
    · rw [ht, l1]; omega

theorem er_tableReport_sync (c c1 : Conn) (p : List Nat) (r : Report) (h : TableReport c p r)
    (hv : c1.version = c.version) : SyncReport c1 r ∧ r.enc = p := by
  obtain ⟨h1, h2, h3, _, h5⟩ := h
  obtain ⟨_, _, _, l4, l5, l6, _, _⟩ := er_text_lengths
  refine ⟨⟨by rw [h1, hv], by rw [h2]; exact h3, ?_, ?_⟩, h2⟩
  · rcases h5 with ⟨h0, _⟩ | ⟨h0, _⟩ | ⟨h0, _⟩
    · exact Or.inl h0
    · exact Or.inr (Or.inr (Or.inl h0))
    · exact Or.inr (Or.inl h0)
  · rcases h5 with ⟨_, ht | ht | ht⟩ | ⟨_, ht⟩ | ⟨_, ht⟩
    · rw [ht, l4]; omega
    · rw [ht, l5]; omega
    · rw [ht, l6]; omega
    · rw [ht]; simp
    · rw [ht]; simp

theorem er_repHost_len (c : Conn) (raw : List Nat) (code : Nat) (text : List Nat) (h8 : 8 ≤ raw.length) :
    repHost c raw raw.length code text = repOf c raw code text := by
  unfold repHost
  rw [if_neg (by omega), if_neg (by omega), List.take_length]

theorem er_repHost_8 (c : Conn) (raw : List Nat) (code : Nat) (text : List Nat) :
    repHost c raw 8 code text = repOf c (raw.take 8) code text := by
  unfold repHost
  rw [if_neg (by omega), if_neg (by omega)]

theorem er_handleErrorPdu (c : Conn) (n : Net) (own : Nat) (raw : List Nat) :
    Sent n (handleErrorPdu c n own raw).2 [] := by
  unfold handleErrorPdu
  simp only
  split
  · exact Sent.state _ _ _ _
  · split
    · split
      · exact Sent.state _ _ _ _
      · exact Sent.state _ _ _ _
    · exact Sent.state _ _ _ _

/-- outcome of `rtr_receive_pdu` in the form the loops need -/
theorem er_receivePdu_loop (c : Conn) (n : Net) (own : Nat) (t : Int) (hok : TapeOk n.tape)
    (res : RecvRes) (c1 : Conn) (m : Net) (hr : receivePdu c n own t = (res, c1, m)) :
    ∃ rs, Sent n m rs ∧ rs.length ≤ 1 ∧
      (∀ r ∈ rs, res = .rc (-1) ∧ SyncReport c1 r ∧ StreamEcho (tapeBytes n.tape) r.enc) ∧
      (∀ raw, res = .ok raw → rs = [] ∧ ValidPdu raw ∧ tapeBytes n.tape = raw ++ tapeBytes m.tape ∧ TapeOk m.tape) := by
  obtain ⟨cls, hdr, hs, hv, hf, _, hh, _⟩ := er_receivePdu c n own t hok res c1 m hr
  refine ⟨classReports c hdr cls, hs, er_classReports_le c hdr cls, ?_, ?_⟩
  · intro r hr'
    obtain ⟨hsync, he⟩ := er_classReports_sync c c1 hdr cls r hr' (hv r hr')
    have hnh : ∀ k, cls ≠ .noHeader k := by
      intro k hk; subst hk; cases hr'
    obtain ⟨_, hhdr, h8⟩ := hh hnh
    refine ⟨?_, hsync, ?_⟩
    · cases cls with
      | delivered raw => cases hr'
      | noHeader k => cases hr'
      | payloadFault k => cases hr'
      | lenSmall => exact hf.1
      | lenBig => exact hf.1
      | version => exact hf.1
      | sizeCheck => exact hf.1
    · rw [he, hhdr]; exact StreamEcho.head8 h8
  · intro raw hraw
    obtain ⟨_, hout⟩ := receivePdu_out c n own t hok res c1 m hr
    rcases hout with ⟨k, hk, _⟩ | ⟨raw', hr', hcs, h8, hmax, hlen, _, htb, hokm⟩
    · rw [hraw] at hk; cases hk
    · rw [hraw] at hr'; cases hr'
      refine ⟨?_, ⟨hcs, hlen, by omega, by omega⟩, htb, hokm⟩
      cases cls with
      | delivered raw' => rfl
      | noHeader k => rfl
      | payloadFault k => rfl
      | lenSmall => have := hf.1; rw [hraw] at this; cases this
      | lenBig => have := hf.1; rw [hraw] at this; cases this
      | version => have := hf.1; rw [hraw] at this; cases this
      | sizeCheck => have := hf.1; rw [hraw] at this; cases this

/-- the `cleanup:` label does not touch the socket's connection part or the environment -/
theorem er_finish {γ : Type} (r : Bool × St) (x : γ) (ok : Bool) (st' : St) (g : γ)
    (h : (match cleanup r with | (ok, st) => (ok, st, x)) = (ok, st', g)) :
    ok = r.1 ∧ st'.c = r.2.c ∧ st'.n = r.2.n ∧ g = x := by
  unfold cleanup at h
  simp only [Prod.mk.injEq] at h
  obtain ⟨rfl, rfl, rfl⟩ := h
  exact ⟨rfl, rfl, rfl, rfl⟩

/-- what the reports of a synchronisation satisfy, and where their echoed bytes come from: a PDU
    buffered earlier (`bufs`) or the stream still to be read -/
def SyncReports (c1 : Conn) (bufs : List (List Nat)) (stream : List Nat) (ok : Bool) (rs : List Report) : Prop :=
  rs.length ≤ 1 ∧ (rs ≠ [] → ok = false) ∧
  ∀ r ∈ rs, SyncReport c1 r ∧ (r.enc ∈ bufs ∨ StreamEcho stream r.enc)

theorem SyncReports.nil (c1 : Conn) (bufs : List (List Nat)) (stream : List Nat) (ok : Bool) :
    SyncReports c1 bufs stream ok [] :=
  ⟨Nat.zero_le _, fun h => absurd rfl h, fun r h => by cases h⟩

/-- **`rtr_sync_receive_and_store_pdus`**: at most one report, only on failure; it echoes a buffered
    PDU whole, or (a prefix of) the PDU at a PDU boundary of the stream -/
theorem er_recvAndStore : ∀ (fuel : Nat) (st : St) (v4 v6 keys : List (List Nat)) (ok : Bool) (st' : St)
    (g : Option Buffered), TapeOk st.n.tape → recvAndStore fuel st v4 v6 keys = (ok, st', g) →
    ∃ rs, Sent st.n st'.n rs ∧ SyncReports st'.c (v4 ++ v6 ++ keys) (tapeBytes st.n.tape) ok rs := by
  intro fuel
  induction fuel with
  | zero =>
    intro st v4 v6 keys ok st' g _ hr
    simp only [recvAndStore, Prod.mk.injEq] at hr
    obtain ⟨rfl, rfl, rfl⟩ := hr
    exact ⟨[], Sent.refl _, SyncReports.nil _ _ _ _⟩
  | succ fuel ih =>
    intro st v4 v6 keys ok st' g hok hr
    unfold recvAndStore at hr
    rcases e : receivePdu st.c st.n st.t.own Gen.RTR_RECV_TIMEOUT with ⟨res, c1, n1⟩
    obtain ⟨rs0, hs0, hle0, hrep0, hok0⟩ := er_receivePdu_loop st.c st.n st.t.own _ hok res c1 n1 e
    rw [e] at hr
    cases res with
    | rc code =>
      simp only at hr
      -- the reports are those of the receive; what follows only changes the state
      have fin : ∀ (c2 : Conn) (n2 : Net), Sent n1 n2 [] → c2.version = c1.version →
          (match cleanup (false, { st with c := c2, n := n2 }) with
            | (ok, st) => (ok, st, (none : Option Buffered))) = (ok, st', g) →
          ∃ rs, Sent st.n st'.n rs ∧ SyncReports st'.c (v4 ++ v6 ++ keys) (tapeBytes st.n.tape) ok rs := by
        intro c2 n2 hq hv h
        obtain ⟨hk, hc, hn, _⟩ := er_finish _ _ ok st' g h
        simp only at hk hc hn
        refine ⟨rs0, by rw [hn]; exact hs0.then_quiet hq, hle0, fun _ => hk, ?_⟩
        intro r hr'
        obtain ⟨_, ⟨a1, a2, a3, a4⟩, hecho⟩ := hrep0 r hr'
        exact ⟨⟨by rw [a1, hc, hv], a2, a3, a4⟩, Or.inr hecho⟩
      by_cases hc : code = -2
      · rw [if_pos hc] at hr
        have hq := Sent.state c1 n1 st.t.own .errTransport
        have hv := er_changeState_conn c1 n1 st.t.own .errTransport
        rcases hcs : changeState c1 n1 st.t.own .errTransport with ⟨c2, n2⟩
        rw [hcs] at hr hq hv
        exact fin c2 n2 hq hv hr
      · rw [if_neg hc] at hr
        exact fin c1 n1 (Sent.refl _) rfl hr
    | ok raw =>
      obtain ⟨hnil, hvalid, htb, hok1⟩ := hok0 raw rfl
      subst hnil
      simp only at hr
      -- a report sent now, echoing (a prefix of) the PDU just received
      have now : ∀ (c2 : Conn) (n2 : Net) (rs : List Report), Sent n1 n2 rs → rs.length ≤ 1 →
          (∀ r ∈ rs, SyncReport c2 r ∧ (r.enc = raw ∨ r.enc = raw.take 8)) →
          (match cleanup (false, { st with c := c2, n := n2 }) with
            | (ok, st) => (ok, st, (none : Option Buffered))) = (ok, st', g) →
          ∃ rs, Sent st.n st'.n rs ∧ SyncReports st'.c (v4 ++ v6 ++ keys) (tapeBytes st.n.tape) ok rs := by
        intro c2 n2 rs hq hle hsh h
        obtain ⟨hk, hc, hn, _⟩ := er_finish _ _ ok st' g h
        simp only at hk hc hn
        refine ⟨rs, by rw [hn]; exact hs0.quiet_then hq, hle, fun _ => hk, ?_⟩
        intro r hr'
        obtain ⟨hsr, he⟩ := hsh r hr'
        refine ⟨by rw [hc]; exact hsr, Or.inr ?_⟩
        rw [htb]
        rcases he with he | he
        · rw [he]; exact StreamEcho.whole _ hvalid
        · rw [he]; exact StreamEcho.hdr _ hvalid
      -- the PDU is buffered and the loop goes on
      have next : ∀ (w4 w6 wk : List (List Nat)),
          (∀ p, p ∈ w4 ++ w6 ++ wk → p ∈ v4 ++ v6 ++ keys ∨ p = raw) →
          recvAndStore fuel { st with c := c1, n := n1 } w4 w6 wk = (ok, st', g) →
          ∃ rs, Sent st.n st'.n rs ∧ SyncReports st'.c (v4 ++ v6 ++ keys) (tapeBytes st.n.tape) ok rs := by
        intro w4 w6 wk hsub h
        obtain ⟨rs, hs, hle, hfalse, hsh⟩ := ih { st with c := c1, n := n1 } w4 w6 wk ok st' g hok1 h
        refine ⟨rs, hs0.quiet_then hs, hle, hfalse, ?_⟩
        intro r hr'
        obtain ⟨hsr, he⟩ := hsh r hr'
        refine ⟨hsr, ?_⟩
        rcases he with he | he
        · rcases hsub _ he with h' | h'
          · exact Or.inl h'
          · right; rw [htb, h']; exact StreamEcho.whole _ hvalid
        · right; rw [htb]; exact he.shift raw hvalid
      split at hr
      · exact next _ _ _ (fun p hp => by
          simp only [List.mem_append, List.mem_singleton] at hp ⊢
          rcases hp with ((hp | hp) | hp) | hp
          · exact Or.inl (Or.inl (Or.inl hp))
          · exact Or.inr hp
          · exact Or.inl (Or.inl (Or.inr hp))
          · exact Or.inl (Or.inr hp)) hr
      · exact next _ _ _ (fun p hp => by
          simp only [List.mem_append, List.mem_singleton] at hp ⊢
          rcases hp with (hp | (hp | hp)) | hp
          · exact Or.inl (Or.inl (Or.inl hp))
          · exact Or.inl (Or.inl (Or.inr hp))
          · exact Or.inr hp
          · exact Or.inl (Or.inr hp)) hr
      · exact next _ _ _ (fun p hp => by
          simp only [List.mem_append, List.mem_singleton] at hp ⊢
          rcases hp with (hp | hp) | (hp | hp)
          · exact Or.inl (Or.inl (Or.inl hp))
          · exact Or.inl (Or.inl (Or.inr hp))
          · exact Or.inl (Or.inr hp)
          · exact Or.inr hp) hr
      · -- End of Data
        by_cases hsess : be16 raw 2 ≠ st.ss.session
        · rw [if_pos hsess] at hr
          have hq := (er_sendErrorFromHost c1 n1 raw raw.length 0 (txtEodSession st.ss.session (be16 raw 2))).then_quiet
            (Sent.state c1 _ st.t.own .errFatal)
          have hv := er_changeState_conn c1 (sendErrorFromHost c1 n1 raw raw.length 0
            (txtEodSession st.ss.session (be16 raw 2))).2 st.t.own .errFatal
          rcases hse : sendErrorFromHost c1 n1 raw raw.length 0 (txtEodSession st.ss.session (be16 raw 2))
            with ⟨ok1, n2⟩
          rw [hse] at hr hq hv
          simp only at hr hq hv
          rcases hcs : changeState c1 n2 st.t.own .errFatal with ⟨c3, n3⟩
          rw [hcs] at hr hq hv
          simp only at hr hq hv
          rw [er_repHost_len c1 raw 0 _ hvalid.2.2.1] at hq
          refine now c3 n3 _ hq (er_repOf_le _ _ _ _) ?_ hr
          intro r hr'
          obtain ⟨hsr, he⟩ := er_repOf_sync c1 c3 raw 0 _ r hr' hv (Or.inl rfl) (er_txtEodSession_len _ _)
          exact ⟨hsr, Or.inl he⟩
        · rw [if_neg hsess] at hr
          obtain ⟨rs, hs, hle, hver, _, hsucc, hshape, _⟩ := er_applyTables c1 n1 st.t st.ss.isResetting v4 v6 keys
          simp only [Prod.mk.injEq] at hr
          obtain ⟨rfl, rfl, rfl⟩ := hr
          have hn : (cleanup (applyBuffered { st with c := c1, n := n1 } raw v4 v6 keys)).2.n =
              (applyTables c1 n1 st.t st.ss.isResetting v4 v6 keys).n := rfl
          have hc : (cleanup (applyBuffered { st with c := c1, n := n1 } raw v4 v6 keys)).2.c =
              (applyTables c1 n1 st.t st.ss.isResetting v4 v6 keys).c := rfl
          have hk : (cleanup (applyBuffered { st with c := c1, n := n1 } raw v4 v6 keys)).1 =
              (applyTables c1 n1 st.t st.ss.isResetting v4 v6 keys).ok := rfl
          have hv' : (cleanup (applyBuffered { st with c := c1, n := n1 } raw v4 v6 keys)).2.c.version =
              c1.version := by rw [hc, hver]
          refine ⟨rs, by rw [hn]; exact hs0.quiet_then hs, hle, ?_, ?_⟩
          · intro hne
            rw [hk]
            cases hb : (applyTables c1 n1 st.t st.ss.isResetting v4 v6 keys).ok with
            | false => rfl
            | true => exact absurd (hsucc hb) hne
          · intro r hr'
            obtain ⟨p, hp, htr⟩ := hshape r hr'
            obtain ⟨hsr, he⟩ := er_tableReport_sync c1 _ p r htr hv'
            exact ⟨hsr, Or.inl (by rw [he]; exact hp)⟩
      · -- an Error Report was received: handled, never answered
        have hq := er_handleErrorPdu c1 n1 st.t.own raw
        rcases hh : handleErrorPdu c1 n1 st.t.own raw with ⟨c2, n2⟩
        rw [hh] at hr hq
        simp only at hr hq
        exact now c2 n2 [] hq (Nat.zero_le _) (fun r h => by cases h) hr
      · exact next _ _ _ (fun p hp => Or.inl hp) hr
      · -- a PDU that does not belong into the answer
        have hq := er_sendErrorFromHost c1 n1 raw 8 0 txtUnexpectedSync
        rcases hse : sendErrorFromHost c1 n1 raw 8 0 txtUnexpectedSync with ⟨ok1, n2⟩
        rw [hse] at hr hq
        simp only at hr hq
        rw [er_repHost_8] at hq
        refine now c1 n2 _ hq (er_repOf_le _ _ _ _) ?_ hr
        intro r hr'
        obtain ⟨hsr, he⟩ := er_repOf_sync c1 c1 (raw.take 8) 0 _ r hr' rfl (Or.inl rfl)
          (by rw [er_text_lengths.2.2.2.2.2.2.1]; omega)
        exact ⟨hsr, Or.inr he⟩

theorem AtBoundary.refl (s : List Nat) : AtBoundary s s := ⟨[], (fun _ h => by cases h), rfl⟩

theorem AtBoundary.cons {s rest : List Nat} (p : List Nat) (hv : ValidPdu p) (h : AtBoundary s rest) :
    AtBoundary (p ++ s) rest := by
  obtain ⟨ps, hps, hs⟩ := h
  refine ⟨p :: ps, ?_, by rw [hs, List.flatten_cons, List.append_assoc]⟩
  intro q hq
  rcases List.mem_cons.1 hq with rfl | hq
  · exact hv
  · exact hps q hq

theorem StreamEcho.lift {s rest enc : List Nat} (hb : AtBoundary s rest) (h : StreamEcho rest enc) :
    StreamEcho s enc := by
  obtain ⟨ps, hps, hs⟩ := hb
  obtain ⟨rest', ⟨qs, hqs, hr⟩, h⟩ := h
  refine ⟨rest', ⟨ps ++ qs, ?_, ?_⟩, h⟩
  · intro q hq
    rcases List.mem_append.1 hq with hq | hq
    · exact hps q hq
    · exact hqs q hq
  · rw [hs, hr, List.flatten_append, List.append_assoc]

/-- **the first loop of `rtr_sync`** (Serial Notify PDUs are skipped): reports only from
    `rtr_receive_pdu`; the PDU handed on sits at a PDU boundary of the stream -/
theorem er_syncFirst : ∀ (fuel : Nat) (st : St) (r : Option (List Nat)) (st' : St), TapeOk st.n.tape →
    syncFirst fuel st = (r, st') →
    ∃ rs, Sent st.n st'.n rs ∧ SyncReports st'.c [] (tapeBytes st.n.tape) r.isSome rs ∧
      (∀ raw, r = some raw → rs = [] ∧ ValidPdu raw ∧
        AtBoundary (tapeBytes st.n.tape) (raw ++ tapeBytes st'.n.tape) ∧ TapeOk st'.n.tape) := by
  intro fuel
  induction fuel with
  | zero =>
    intro st r st' _ hr
    simp only [syncFirst, Prod.mk.injEq] at hr
    obtain ⟨rfl, rfl⟩ := hr
    exact ⟨[], Sent.refl _, SyncReports.nil _ _ _ _, fun raw h => by cases h⟩
  | succ fuel ih =>
    intro st r st' hok hr
    unfold syncFirst at hr
    rcases e : receivePdu st.c st.n st.t.own Gen.RTR_RECV_TIMEOUT with ⟨res, c1, n1⟩
    obtain ⟨rs0, hs0, hle0, hrep0, hok0⟩ := er_receivePdu_loop st.c st.n st.t.own _ hok res c1 n1 e
    rw [e] at hr
    cases res with
    | rc code =>
      simp only at hr
      have fin : ∀ (c2 : Conn) (n2 : Net), Sent n1 n2 [] → (rs0 ≠ [] → c2.version = c1.version) →
          ((none : Option (List Nat)), ({ st with c := c2, n := n2 } : St)) = (r, st') →
          ∃ rs, Sent st.n st'.n rs ∧ SyncReports st'.c [] (tapeBytes st.n.tape) r.isSome rs ∧
            (∀ raw, r = some raw → rs = [] ∧ ValidPdu raw ∧
              AtBoundary (tapeBytes st.n.tape) (raw ++ tapeBytes st'.n.tape) ∧ TapeOk st'.n.tape) := by
        intro c2 n2 hq hv h
        simp only [Prod.mk.injEq] at h
        obtain ⟨rfl, rfl⟩ := h
        refine ⟨rs0, hs0.then_quiet hq, ⟨hle0, fun _ => rfl, ?_⟩, fun raw h => by cases h⟩
        intro r hr'
        obtain ⟨_, ⟨a1, a2, a3, a4⟩, hecho⟩ := hrep0 r hr'
        have hne : rs0 ≠ [] := fun h => by rw [h] at hr'; cases hr'
        exact ⟨⟨by rw [a1]; exact (hv hne).symm, a2, a3, a4⟩, Or.inr hecho⟩
      split at hr
      · rename_i h4
        have hq := Sent.state { c1 with version := c1.version - 1 } n1 st.t.own .fastReconnect
        rcases hcs : changeState { c1 with version := c1.version - 1 } n1 st.t.own .fastReconnect with ⟨c2, n2⟩
        rw [hcs] at hr hq
        refine fin c2 n2 hq ?_ hr
        intro hne
        exfalso
        cases hrs : rs0 with
        | nil => exact hne hrs
        | cons r0 _ =>
          have := (hrep0 r0 (by rw [hrs]; exact List.mem_cons_self)).1
          simp only [RecvRes.rc.injEq] at this
          omega
      · split at hr
        · have hq := Sent.state c1 n1 st.t.own .errTransport
          have hv := er_changeState_conn c1 n1 st.t.own .errTransport
          rcases hcs : changeState c1 n1 st.t.own .errTransport with ⟨c2, n2⟩
          rw [hcs] at hr hq hv
          exact fin c2 n2 hq (fun _ => hv) hr
        · exact fin c1 n1 (Sent.refl _) (fun _ => rfl) hr
    | ok raw =>
      obtain ⟨hnil, hvalid, htb, hok1⟩ := hok0 raw rfl
      subst hnil
      simp only at hr
      split at hr
      · obtain ⟨rs, hs, ⟨hle, hfalse, hsh⟩, hsome⟩ := ih { st with c := c1, n := n1 } r st' hok1 hr
        refine ⟨rs, hs0.quiet_then hs, ⟨hle, hfalse, ?_⟩, ?_⟩
        · intro r' hr'
          obtain ⟨hsr, he⟩ := hsh r' hr'
          refine ⟨hsr, ?_⟩
          rcases he with he | he
          · cases he
          · right; rw [htb]; exact he.shift raw hvalid
        · intro raw' h'
          obtain ⟨a, b, c', d⟩ := hsome raw' h'
          refine ⟨a, b, ?_, d⟩
          rw [htb]; exact c'.cons raw hvalid
      · simp only [Prod.mk.injEq] at hr
        obtain ⟨rfl, rfl⟩ := hr
        refine ⟨[], hs0, SyncReports.nil _ _ _ _, ?_⟩
        intro raw' h'
        cases h'
        exact ⟨rfl, hvalid, by rw [htb]; exact AtBoundary.refl _, hok1⟩

theorem er_sendErrorFromHost_tape (c : Conn) (n : Net) (raw : List Nat) (k code : Nat) (text : List Nat) :
    (sendErrorFromHost c n raw k code text).2.tape = n.tape := by
  unfold sendErrorFromHost
  split
  · exact sendErrorPdu_tape _ _ _ _ _
  · split
    · rfl
    · exact sendErrorPdu_tape _ _ _ _ _

/-- `rtr_handle_cache_response_pdu`: a report exactly when the session id is not the expected one;
    it carries no encapsulated PDU -/
theorem er_handleCacheResponse (c : Conn) (ss : Sess) (n : Net) (own : Nat) (raw : List Nat) :
    Sent n (handleCacheResponse c ss n own raw).2.2.2
      (if ss.reqSession = false ∧ ss.session ≠ be16 raw 2 then repOf c [] 0 txtWrongSession else []) ∧
    (handleCacheResponse c ss n own raw).2.1.version = c.version ∧
    (handleCacheResponse c ss n own raw).2.2.2.tape = n.tape ∧
    ((handleCacheResponse c ss n own raw).1 = false ↔ (ss.reqSession = false ∧ ss.session ≠ be16 raw 2)) := by
  unfold handleCacheResponse
  simp only
  by_cases h1 : ss.reqSession = true
  · simp only [if_pos h1]
    have : ¬ (ss.reqSession = false ∧ ss.session ≠ be16 raw 2) := by rw [h1]; simp
    rw [if_neg this]
    exact ⟨Sent.refl n, trivial, trivial, by simp [h1]⟩
  · simp only [if_neg h1]
    have h1' : ss.reqSession = false := by simpa using h1
    by_cases h2 : ss.session ≠ be16 raw 2
    · simp only [if_pos h2]
      rw [if_pos ⟨h1', h2⟩]
      have hq := er_sendErrorFromHost c n [] 0 0 txtWrongSession
      have : repHost c [] 0 0 txtWrongSession = repOf c [] 0 txtWrongSession := by unfold repHost; rw [if_pos rfl]
      rw [this] at hq
      refine ⟨hq.then_quiet (Sent.state c _ own .errFatal), er_changeState_conn c _ own _, ?_, by simp [h1', h2]⟩
      rw [changeState_tape]; exact er_sendErrorFromHost_tape c n [] 0 0 txtWrongSession
    · simp only [if_neg h2]
      rw [if_neg (fun h => h2 h.2)]
      exact ⟨Sent.refl n, trivial, trivial, by simp [h2]⟩

/-- provenance of a report of `rtr_sync`: (a prefix of) a PDU at a PDU boundary of the stream, or —
    one site only, the Cache Response with the wrong session id — no encapsulated PDU at all -/
def SyncEcho (stream : List Nat) (r : Report) : Prop :=
  StreamEcho stream r.enc ∨ (r.enc = [] ∧ r.code = 0 ∧ r.text = txtWrongSession)

/-- **`rtr_sync`**: at most one Error Report per exchange, only when the exchange fails; it carries
    the socket's version, one of the codes 0 / 6 / 7 / 8, a short text, never echoes an Error
    Report, and its encapsulated bytes are a prefix (8 bytes or the whole PDU) of a PDU exactly as
    it stood in the stream at a PDU boundary -/
theorem er_syncG (fuel : Nat) (st : St) (ok : Bool) (st' : St) (g : Option (List Nat × Buffered))
    (hok : TapeOk st.n.tape) (hr : syncG fuel st = (ok, st', g)) :
    ∃ rs, Sent st.n st'.n rs ∧ rs.length ≤ 1 ∧ (rs ≠ [] → ok = false) ∧
      ∀ r ∈ rs, SyncReport st'.c r ∧ SyncEcho (tapeBytes st.n.tape) r := by
  unfold syncG at hr
  rcases e : syncFirst fuel st with ⟨r, st1⟩
  obtain ⟨rs1, hs1, ⟨hle1, hf1, hsh1⟩, hsome⟩ := er_syncFirst fuel st r st1 hok e
  rw [e] at hr
  cases r with
  | none =>
    simp only [Prod.mk.injEq] at hr
    obtain ⟨rfl, rfl, rfl⟩ := hr
    refine ⟨rs1, hs1, hle1, fun _ => rfl, ?_⟩
    intro r hr'
    obtain ⟨a, b⟩ := hsh1 r hr'
    refine ⟨a, ?_⟩
    rcases b with b | b
    · cases b
    · exact Or.inl b
  | some raw =>
    obtain ⟨hnil, hvalid, hbnd, hok1⟩ := hsome raw rfl
    subst hnil
    simp only at hr
    -- a report sent now that echoes the first 8 bytes of `raw`, or nothing
    have now : ∀ (c2 : Conn) (n2 : Net) (rs : List Report) (ok2 : Bool), Sent st1.n n2 rs → rs.length ≤ 1 →
        (rs ≠ [] → ok2 = false) → (∀ r ∈ rs, SyncReport c2 r ∧ SyncEcho (raw ++ tapeBytes st1.n.tape) r) →
        ∃ rs, Sent st.n n2 rs ∧ rs.length ≤ 1 ∧ (rs ≠ [] → ok2 = false) ∧
          ∀ r ∈ rs, SyncReport c2 r ∧ SyncEcho (tapeBytes st.n.tape) r := by
      intro c2 n2 rs ok2 hq hle hfl hsh
      refine ⟨rs, hs1.quiet_then hq, hle, hfl, ?_⟩
      intro r hr'
      obtain ⟨a, b⟩ := hsh r hr'
      refine ⟨a, ?_⟩
      rcases b with b | b
      · exact Or.inl (b.lift hbnd)
      · exact Or.inr b
    split at hr
    · -- Error Report: handled, not answered
      have hq := er_handleErrorPdu st1.c st1.n st1.t.own raw
      rcases hh : handleErrorPdu st1.c st1.n st1.t.own raw with ⟨c2, n2⟩
      rw [hh] at hr hq
      simp only [Prod.mk.injEq] at hr hq
      obtain ⟨rfl, rfl, rfl⟩ := hr
      exact now c2 n2 [] false hq (Nat.zero_le _) (fun _ => rfl) (fun r h => by cases h)
    · -- Cache Reset
      have hq := Sent.state st1.c st1.n st1.t.own .errNoIncr
      rcases hh : changeState st1.c st1.n st1.t.own .errNoIncr with ⟨c2, n2⟩
      rw [hh] at hr hq
      simp only [Prod.mk.injEq] at hr hq
      obtain ⟨rfl, rfl, rfl⟩ := hr
      exact now c2 n2 [] false hq (Nat.zero_le _) (fun _ => rfl) (fun r h => by cases h)
    · -- Cache Response
      obtain ⟨hq, hv, htape, hiff⟩ := er_handleCacheResponse st1.c st1.ss st1.n st1.t.own raw
      rcases hh : handleCacheResponse st1.c st1.ss st1.n st1.t.own raw with ⟨ok2, c2, ss2, n2⟩
      rw [hh] at hr hq hv htape hiff
      simp only at hr hq hv htape hiff
      cases ok2 with
      | false =>
        simp only [Bool.not_false, if_true, Prod.mk.injEq] at hr
        obtain ⟨rfl, rfl, rfl⟩ := hr
        rw [if_pos (hiff.1 rfl)] at hq
        refine now c2 n2 _ false hq (er_repOf_le _ _ _ _) (fun _ => rfl) ?_
        intro r hr'
        obtain ⟨e0, _, _⟩ := er_repOf_mem _ _ _ _ r hr'
        obtain ⟨hsr, he⟩ := er_repOf_sync st1.c c2 [] 0 _ r hr' hv (Or.inl rfl)
          (by rw [er_text_lengths.2.2.1]; omega)
        refine ⟨hsr, Or.inr ⟨he, ?_, ?_⟩⟩ <;> rw [e0]
      | true =>
        simp only [Bool.not_true, Bool.false_eq_true, if_false] at hr
        have hno : ¬ (st1.ss.reqSession = false ∧ st1.ss.session ≠ be16 raw 2) := by
          intro h; have := hiff.2 h; cases this
        rw [if_neg hno] at hq
        have hok2 : TapeOk n2.tape := by rw [htape]; exact hok1
        rcases e3 : recvAndStore fuel { st1 with c := c2, ss := ss2, n := n2 } [] [] [] with ⟨ok3, st3, g3⟩
        obtain ⟨rs3, hs3, hle3, hf3, hsh3⟩ := er_recvAndStore fuel _ [] [] [] ok3 st3 g3 hok2 e3
        rw [e3] at hr
        simp only at hr
        have key : ∃ rs, Sent st.n st3.n rs ∧ rs.length ≤ 1 ∧ (rs ≠ [] → ok3 = false) ∧
            ∀ r ∈ rs, SyncReport st3.c r ∧ SyncEcho (tapeBytes st.n.tape) r := by
          refine now st3.c st3.n rs3 ok3 (hq.quiet_then hs3) hle3 hf3 ?_
          intro r hr'
          obtain ⟨a, b⟩ := hsh3 r hr'
          refine ⟨a, Or.inl ?_⟩
          rcases b with b | b
          · cases b
          · simp only at b
            rw [htape] at b
            exact b.shift raw hvalid
        obtain ⟨rs, k1, k2, k3, k4⟩ := key
        cases ok3 with
        | false =>
          simp only [Bool.not_false, if_true, Prod.mk.injEq] at hr
          obtain ⟨rfl, rfl, rfl⟩ := hr
          exact ⟨rs, k1, k2, fun _ => rfl, k4⟩
        | true =>
          simp only [Bool.not_true, Bool.false_eq_true, if_false, Prod.mk.injEq] at hr
          obtain ⟨rfl, rfl, rfl⟩ := hr
          refine ⟨rs, k1, k2, ?_, k4⟩
          intro hne; have := k3 hne; cases this
    · -- any other PDU: refused, header echoed
      have hq := er_sendErrorFromHost st1.c st1.n raw 8 0 txtUnexpectedSync2
      rcases hse : sendErrorFromHost st1.c st1.n raw 8 0 txtUnexpectedSync2 with ⟨ok1, n2⟩
      rw [hse] at hr hq
      simp only [Prod.mk.injEq] at hr hq
      obtain ⟨rfl, rfl, rfl⟩ := hr
      rw [er_repHost_8] at hq
      refine now st1.c n2 _ false hq (er_repOf_le _ _ _ _) (fun _ => rfl) ?_
      intro r hr'
      obtain ⟨hsr, he⟩ := er_repOf_sync st1.c st1.c (raw.take 8) 0 _ r hr' rfl (Or.inl rfl)
        (by rw [er_text_lengths.2.2.2.2.2.2.2]; omega)
      exact ⟨hsr, Or.inl (by rw [he]; exact StreamEcho.hdr _ hvalid)⟩

/-- **`rtr_wait_for_sync`**: only the reports of `rtr_receive_pdu` -/
theorem er_waitForSync (st : St) (hok : TapeOk st.n.tape) :
    ∃ rs, Sent st.n (waitForSync st).2.n rs ∧ rs.length ≤ 1 ∧ (rs ≠ [] → (waitForSync st).1 = false) ∧
      ∀ r ∈ rs, SyncReport (waitForSync st).2.c r ∧ StreamEcho (tapeBytes st.n.tape) r.enc := by
  unfold waitForSync
  simp only
  generalize (if st.ss.lastUpdate + ↑st.tm.refresh - st.n.now < 0 then (0 : Int)
    else st.ss.lastUpdate + ↑st.tm.refresh - st.n.now) = w
  rcases e : receivePdu st.c st.n st.t.own w with ⟨res, c1, n1⟩
  obtain ⟨rs0, hs0, hle0, hrep0, hok0⟩ := er_receivePdu_loop st.c st.n st.t.own w hok res c1 n1 e
  cases res with
  | ok raw =>
    refine ⟨rs0, hs0, hle0, ?_, fun r hr' => ⟨(hrep0 r hr').2.1, (hrep0 r hr').2.2⟩⟩
    intro hne; exact absurd (hok0 raw rfl).1 hne
  | rc code =>
    refine ⟨rs0, hs0, hle0, ?_, fun r hr' => ⟨(hrep0 r hr').2.1, (hrep0 r hr').2.2⟩⟩
    intro hne
    cases hrs : rs0 with
    | nil => exact absurd hrs hne
    | cons r0 _ =>
      have := (hrep0 r0 (by rw [hrs]; exact List.mem_cons_self)).1
      simp only [RecvRes.rc.injEq] at this
      subst this
      simp

/-- **SILENT.**  While the client waits for a Serial Notify (`rtr_wait_for_sync`, state ESTABLISHED)
    any other PDU that passes the size and version checks — a Cache Reset, a stray Cache Response, a
    Prefix PDU, even an Error Report from the cache — makes the call return RTR_ERROR with NO Error
    Report, and the socket's connection part is exactly what `rtr_receive_pdu` left (no state
    change): the PDU is consumed and dropped. -/
theorem er_waitForSync_silent (st : St) (raw : List Nat) (c1 : Conn) (n1 : Net)
    (hrecv : receivePdu st.c st.n st.t.own
      (if st.ss.lastUpdate + ↑st.tm.refresh - st.n.now < 0 then (0 : Int)
        else st.ss.lastUpdate + ↑st.tm.refresh - st.n.now) = (.ok raw, c1, n1))
    (hty : typeOf raw ≠ 0) (hok : TapeOk st.n.tape) :
    (waitForSync st).1 = false ∧ (waitForSync st).2.c = c1 ∧ (waitForSync st).2.n = n1 ∧
    c1.state = st.c.state ∧ Sent st.n (waitForSync st).2.n [] := by
  obtain ⟨rs0, hs0, _, _, hok0⟩ := er_receivePdu_loop st.c st.n st.t.own _ hok _ c1 n1 hrecv
  have hnil := (hok0 raw rfl).1
  subst hnil
  have hstate : c1.state = st.c.state := by
    obtain ⟨cls, hdr, _, _, hf, _, hh, _⟩ := er_receivePdu st.c st.n st.t.own _ hok _ c1 n1 hrecv
    -- on the delivery path the connection part is only touched by the live downgrade
    rw [receivePdu_eq_stages] at hrecv
    by_cases hs : st.c.state = .shutdown
    · rw [if_pos hs] at hrecv; cases hrecv
    · rw [if_neg hs] at hrecv
      have hst := er_recvAll_stop st.n 8 (if st.ss.lastUpdate + ↑st.tm.refresh - st.n.now < 0 then (0 : Int)
        else st.ss.lastUpdate + ↑st.tm.refresh - st.n.now)
      rcases h1 : recvAll st.n 8 (if st.ss.lastUpdate + ↑st.tm.refresh - st.n.now < 0 then (0 : Int)
        else st.ss.lastUpdate + ↑st.tm.refresh - st.n.now) with ⟨rc, hd, n0, stop⟩
      rw [h1] at hrecv hst
      simp only at hrecv hst
      by_cases hneg : rc < 0
      · rw [if_pos hneg] at hrecv
        obtain ⟨_, ⟨k, hk⟩, _⟩ := er_recvTransportError (applyStop st.c stop) n0 st.t.own rc
        rw [hrecv] at hk; cases hk
      · rw [if_neg hneg] at hrecv
        have : stop = false := hst (by omega)
        subst this
        rw [er_applyStop_false] at hrecv
        unfold recvAfterHdr at hrecv
        simp only at hrecv
        split at hrecv
        · have := (er_failFatal st.c n0 st.t.own hd txtCorrupt).2.1; rw [hrecv] at this; cases this
        · split at hrecv
          · have := (er_failFatal st.c n0 st.t.own hd txtTooBig).2.1; rw [hrecv] at this; cases this
          · split at hrecv
            · simp only [Prod.mk.injEq] at hrecv; cases hrecv.1
            · unfold recvBody at hrecv
              simp only at hrecv
              split at hrecv
              · simp only [Prod.mk.injEq] at hrecv; cases hrecv.1
              · have hstop2 : ∀ (x : Int × List Nat × Net × Bool), (0 ≤ x.1 → x.2.2.2 = false) →
                    (if x.1 < 0 then recvTransportError (applyStop (downgrade st.c hd) x.2.2.2) x.2.2.1 st.t.own x.1
                      else if (!checkSize (hd ++ x.2.1)) = true then
                        failFatal (applyStop (downgrade st.c hd) x.2.2.2) x.2.2.1 st.t.own hd txtCorrupt
                      else (RecvRes.ok (hd ++ x.2.1), applyStop (downgrade st.c hd) x.2.2.2, x.2.2.1)) =
                      (RecvRes.ok raw, c1, n1) → c1.state = st.c.state := by
                  intro x hx hxe
                  split at hxe
                  · obtain ⟨_, ⟨k, hk⟩, _⟩ := er_recvTransportError (applyStop (downgrade st.c hd) x.2.2.2) x.2.2.1
                      st.t.own x.1
                    rw [hxe] at hk; cases hk
                  · rename_i hx0
                    split at hxe
                    · have := (er_failFatal (applyStop (downgrade st.c hd) x.2.2.2) x.2.2.1 st.t.own hd txtCorrupt).2.1
                      rw [hxe] at this; cases this
                    · simp only [Prod.mk.injEq] at hxe
                      rw [← hxe.2.1, hx (by omega), er_applyStop_false, er_downgrade_state]
                split at hrecv
                · exact hstop2 _ (er_recvAll_stop _ _ _) hrecv
                · exact hstop2 (0, [], n0, false) (fun _ => rfl) hrecv
  unfold waitForSync
  simp only
  rw [hrecv]
  simp only
  exact ⟨by simp [hty], trivial, trivial, hstate, hs0⟩

/-! ## well-formedness of the reports -/

theorem er_valid_len (p : List Nat) (hv : ValidPdu p) (hne : ¬ (2 ≤ p.length ∧ p.getD 1 0 = 10)) :
    p.length ≤ 123 := by
  obtain ⟨hc, hl, h8, _⟩ := hv
  have hk := (checkSize_spec p).1 hc
  unfold KnownSize at hk
  rw [hl]
  rcases hk with h | h | h | h | h | h | h | h | h | h | h
  · rw [h.2]; decide
  · rw [h.2]; decide
  · rw [h.2]; decide
  · rw [h.2]; decide
  · rw [h.2]; decide
  · rw [h.2]; decide
  · rw [h.2.2]; decide
  · rw [h.2.2]; decide
  · rw [h.2]; decide
  · rw [h.2]; decide
  · exact absurd ⟨by omega, h.1⟩ hne

theorem er_streamEcho_len (s enc : List Nat) (h : StreamEcho s enc) (hne : ¬ (2 ≤ enc.length ∧ enc.getD 1 0 = 10)) :
    enc.length ≤ 123 := by
  obtain ⟨rest, _, h | h⟩ := h
  · rw [h.2, List.length_take]; omega
  · exact er_valid_len enc h.1 hne

/-- **(1) every report is a well-formed Error Report PDU** of the socket's version: it fits the
    client's maximum, its length field is its length, the encapsulated-length field, the
    encapsulated bytes, the text-length field and the text are in place and add up -/
theorem er_report_wellformed (c1 : Conn) (stream : List Nat) (r : Report) (hs : SyncReport c1 r)
    (he : SyncEcho stream r) :
    r.enc.length + r.text.length + 16 ≤ Gen.RTR_MAX_PDU_LEN ∧ WellFormedPdu c1.version r.bytes ∧
    be32 r.bytes 8 = r.enc.length ∧ (r.bytes.drop 12).take r.enc.length = r.enc ∧
    be32 r.bytes (12 + r.enc.length) = r.text.length ∧ r.bytes.drop (16 + r.enc.length) = r.text ∧
    r.bytes.length = 16 + r.enc.length + r.text.length ∧ be16 r.bytes 2 = r.code ∧ typeOf r.bytes = 10 := by
  have hlen : r.enc.length ≤ 123 := by
    rcases he with he | he
    · exact er_streamEcho_len stream r.enc he hs.notErr
    · rw [he.1]; simp
  have hm : Gen.RTR_MAX_PDU_LEN = 3248 := rfl
  have htext := hs.text
  have hb : r.enc.length + r.text.length + 16 ≤ Gen.RTR_MAX_PDU_LEN := by omega
  have hf := errorPdu_fields r.ver r.enc r.code r.text hb
  have hw : WellFormedPdu c1.version r.bytes := by
    have := errorPdu_wf r.ver r.enc r.code r.text hb
    rw [← hs.ver]; exact this
  have hcode : r.code < 65536 := by rcases hs.code with h | h | h | h <;> omega
  exact ⟨hb, hw, hf.2.2.1, hf.2.2.2.1, hf.2.2.2.2.1, hf.2.2.2.2.2.1, hf.2.2.2.2.2.2.1, hf.2.1 hcode, hf.1⟩

/-! ## (4) nothing is sent in reply to an Error Report -/

/-- `rtr_receive_pdu`: if the PDU at the front of the stream is an Error Report (type byte 10),
    nothing is sent, whatever is wrong with it (length, version, size check) -/
theorem er_receivePdu_error_pdu (c : Conn) (n : Net) (own : Nat) (t : Int) (hok : TapeOk n.tape)
    (h10 : (tapeBytes n.tape).getD 1 0 = 10)
    (res : RecvRes) (c1 : Conn) (m : Net) (hr : receivePdu c n own t = (res, c1, m)) : Sent n m [] := by
  obtain ⟨cls, hdr, hs, _, _, _, hh, _⟩ := er_receivePdu c n own t hok res c1 m hr
  have : classReports c hdr cls = [] := by
    by_cases hnh : ∀ k, cls ≠ .noHeader k
    · obtain ⟨_, hhdr, h8⟩ := hh hnh
      have h2 : 2 ≤ hdr.length := by rw [hhdr, List.length_take]; omega
      have h1 : hdr.getD 1 0 = 10 := by rw [hhdr, getD_take _ 8 1 (by omega)]; exact h10
      cases cls <;> first | rfl | exact er_repOf_error _ _ _ _ h2 h1
    · cases cls <;> first | rfl | (exfalso; apply hnh; intro k hk; cases hk)
  rw [this] at hs; exact hs

/-- an Error Report received inside the answer (`rtr_sync_receive_and_store_pdus`) ends the
    exchange without a reply -/
theorem er_recvAndStore_error_pdu (fuel : Nat) (st : St) (v4 v6 keys : List (List Nat)) (raw : List Nat)
    (c1 : Conn) (n1 : Net)
    (hrecv : receivePdu st.c st.n st.t.own Gen.RTR_RECV_TIMEOUT = (.ok raw, c1, n1)) (hty : typeOf raw = 10) :
    (recvAndStore (fuel + 1) st v4 v6 keys).1 = false ∧ Sent n1 (recvAndStore (fuel + 1) st v4 v6 keys).2.1.n [] := by
  unfold recvAndStore
  rw [hrecv]
  simp only [hty]
  exact ⟨by first | rfl | trivial, er_handleErrorPdu c1 n1 st.t.own raw⟩

/-- an Error Report as the first answer to a query (`rtr_sync`): handled, not answered -/
theorem er_syncG_error_pdu (fuel : Nat) (st : St) (raw : List Nat) (st1 : St)
    (hfirst : syncFirst fuel st = (some raw, st1)) (hty : typeOf raw = 10) :
    (syncG fuel st).1 = false ∧ Sent st1.n (syncG fuel st).2.1.n [] := by
  unfold syncG
  rw [hfirst]
  simp only [hty]
  exact ⟨by first | rfl | trivial, er_handleErrorPdu st1.c st1.n st1.t.own raw⟩

/-! ## (3) (5) the sync-level rejections, site by site: exactly one report -/

/-- End of Data with a session id other than the socket's: code 0 (Corrupt Data), the whole End of
    Data PDU echoed, the text names both ids; the exchange fails -/
theorem er_eod_session_mismatch (fuel : Nat) (st : St) (v4 v6 keys : List (List Nat)) (raw : List Nat)
    (c1 : Conn) (n1 : Net)
    (hrecv : receivePdu st.c st.n st.t.own Gen.RTR_RECV_TIMEOUT = (.ok raw, c1, n1)) (hty : typeOf raw = 7)
    (hsess : be16 raw 2 ≠ st.ss.session) (h8 : 8 ≤ raw.length) (hs : c1.state ≠ .shutdown) :
    (recvAndStore (fuel + 1) st v4 v6 keys).1 = false ∧
    Sent n1 (recvAndStore (fuel + 1) st v4 v6 keys).2.1.n
      [⟨c1.version, 0, raw, txtEodSession st.ss.session (be16 raw 2)⟩] := by
  have h10 : raw.getD 1 0 ≠ 10 := by unfold typeOf at hty; omega
  unfold recvAndStore
  rw [hrecv]
  simp only [hty]
  rw [if_pos hsess]
  refine ⟨rfl, ?_⟩
  have hq := (er_sendErrorFromHost c1 n1 raw raw.length 0 (txtEodSession st.ss.session (be16 raw 2))).then_quiet
    (Sent.state c1 _ st.t.own .errFatal)
  rw [er_repHost_one c1 raw 0 _ h8 h10 hs] at hq
  exact hq

/-- a PDU that does not belong into the answer (Serial Query, Reset Query, Cache Response, Cache
    Reset — the types that pass the size check and are none of 0, 4, 6, 7, 9, 10): code 0, the 8
    header bytes echoed; the exchange fails -/
theorem er_unexpected_in_answer (fuel : Nat) (st : St) (v4 v6 keys : List (List Nat)) (raw : List Nat)
    (c1 : Conn) (n1 : Net)
    (hrecv : receivePdu st.c st.n st.t.own Gen.RTR_RECV_TIMEOUT = (.ok raw, c1, n1))
    (hty : typeOf raw ≠ 4 ∧ typeOf raw ≠ 6 ∧ typeOf raw ≠ 9 ∧ typeOf raw ≠ 7 ∧ typeOf raw ≠ 10 ∧ typeOf raw ≠ 0)
    (hs : c1.state ≠ .shutdown) :
    (recvAndStore (fuel + 1) st v4 v6 keys).1 = false ∧
    Sent n1 (recvAndStore (fuel + 1) st v4 v6 keys).2.1.n [⟨c1.version, 0, raw.take 8, txtUnexpectedSync⟩] := by
  obtain ⟨t4, t6, t9, t7, t10, t0⟩ := hty
  unfold recvAndStore
  rw [hrecv]
  simp only
  refine ⟨by first | rfl | trivial, ?_⟩
  have hq := er_sendErrorFromHost c1 n1 raw 8 0 txtUnexpectedSync
  rw [er_repHost_8, er_repOf_one c1 (raw.take 8) 0 _ (fun h => t10 (by
    have := h.2; rw [getD_take raw 8 1 (by omega)] at this; exact this)) hs] at hq
  exact hq

/-- the first answer to a query is neither a Cache Response, a Cache Reset nor an Error Report:
    code 0, the 8 header bytes echoed; `rtr_sync` fails -/
theorem er_unexpected_first (fuel : Nat) (st : St) (raw : List Nat) (st1 : St)
    (hfirst : syncFirst fuel st = (some raw, st1))
    (hty : typeOf raw ≠ 10 ∧ typeOf raw ≠ 8 ∧ typeOf raw ≠ 3) (hs : st1.c.state ≠ .shutdown) :
    (syncG fuel st).1 = false ∧
    Sent st1.n (syncG fuel st).2.1.n [⟨st1.c.version, 0, raw.take 8, txtUnexpectedSync2⟩] := by
  obtain ⟨t10, t8, t3⟩ := hty
  unfold syncG
  rw [hfirst]
  simp only
  refine ⟨by first | rfl | trivial, ?_⟩
  have hq := er_sendErrorFromHost st1.c st1.n raw 8 0 txtUnexpectedSync2
  rw [er_repHost_8, er_repOf_one st1.c (raw.take 8) 0 _ (fun h => t10 (by
    have h2 := h.2
    have hl : 2 ≤ (raw.take 8).length := h.1
    rw [List.length_take] at hl
    rw [getD_take raw 8 1 (by omega)] at h2; exact h2)) hs] at hq
  exact hq

/-- Cache Response with a session id other than the one of the running session: code 0, NO
    encapsulated PDU (`rtr_send_error_pdu_from_host(NULL, 0)`), `rtr_sync` fails -/
theorem er_cache_response_session (c : Conn) (ss : Sess) (n : Net) (own : Nat) (raw : List Nat)
    (hreq : ss.reqSession = false) (hsess : ss.session ≠ be16 raw 2) (hs : c.state ≠ .shutdown) :
    (handleCacheResponse c ss n own raw).1 = false ∧
    Sent n (handleCacheResponse c ss n own raw).2.2.2 [⟨c.version, 0, [], txtWrongSession⟩] := by
  obtain ⟨hq, _, _, hiff⟩ := er_handleCacheResponse c ss n own raw
  rw [if_pos ⟨hreq, hsess⟩, er_repOf_one c [] 0 _ (fun h => by simp at h) hs] at hq
  exact ⟨hiff.2 ⟨hreq, hsess⟩, hq⟩

/-! ## (3) the codes of the table stage -/

/-- `rtr_update_pfx_table`, class by class (PDU of at least 8 bytes, not an Error Report, socket not
    shut down): prefix / max length beyond the address width → code 0; flags other than 0 / 1 →
    code 0; announcement of a record already there → code 7 (Duplicate Announcement Received);
    withdrawal of a record not there → code 6 (Withdrawal of Unknown Record); otherwise nothing.
    The whole PDU is echoed. -/
theorem er_pfx_codes (c : Conn) (t : Tbl) (raw : List Nat) (h8 : 8 ≤ raw.length) (h10 : raw.getD 1 0 ≠ 10)
    (hs : c.state ≠ .shutdown) :
    (((pfxRecOf raw).len > maxBitsOf raw ∨ (pfxRecOf raw).maxLen > maxBitsOf raw) →
      pfxReports c t raw = [⟨c.version, 0, raw, txtBadLenPfx⟩]) ∧
    (¬ ((pfxRecOf raw).len > maxBitsOf raw ∨ (pfxRecOf raw).maxLen > maxBitsOf raw) →
      ((flagsOf raw ≠ 0 ∧ flagsOf raw ≠ 1) → pfxReports c t raw = [⟨c.version, 0, raw, txtBadFlagsPfx⟩]) ∧
      (flagsOf raw = 1 → pfxRecOf raw ∈ t.upd.pt → pfxReports c t raw = [⟨c.version, 7, raw, []⟩]) ∧
      (flagsOf raw = 0 → pfxRecOf raw ∉ t.upd.pt → pfxReports c t raw = [⟨c.version, 6, raw, []⟩]) ∧
      (flagsOf raw = 1 → pfxRecOf raw ∉ t.upd.pt → pfxReports c t raw = []) ∧
      (flagsOf raw = 0 → pfxRecOf raw ∈ t.upd.pt → pfxReports c t raw = [])) := by
  unfold pfxReports
  refine ⟨fun h => by rw [if_pos h]; exact er_repHost_one c raw 0 _ h8 h10 hs, fun hn => ?_⟩
  rw [if_neg hn]
  refine ⟨fun h => by rw [if_pos h]; exact er_repHost_one c raw 0 _ h8 h10 hs, ?_, ?_, ?_, ?_⟩
  · intro hf hm
    rw [if_neg (fun h => h.2 hf), if_pos hf]
    unfold ptAdd; rw [if_pos hm]
    exact er_repHost_one c raw 7 _ h8 h10 hs
  · intro hf hm
    rw [if_neg (fun h => h.1 hf), if_neg (by omega)]
    unfold ptRemove; rw [if_neg hm]
    exact er_repHost_one c raw 6 _ h8 h10 hs
  · intro hf hm
    rw [if_neg (fun h => h.2 hf), if_pos hf]
    unfold ptAdd; rw [if_neg hm]
  · intro hf hm
    rw [if_neg (fun h => h.1 hf), if_neg (by omega)]
    unfold ptRemove; rw [if_pos hm]

/-- `rtr_update_spki_table`, class by class -/
theorem er_key_codes (c : Conn) (t : Tbl) (raw : List Nat) (h8 : 8 ≤ raw.length) (h10 : raw.getD 1 0 ≠ 10)
    (hs : c.state ≠ .shutdown) :
    ((flagsOf raw ≠ 0 ∧ flagsOf raw ≠ 1) → keyReports c t raw = [⟨c.version, 0, raw, txtBadFlagsKey⟩]) ∧
    (flagsOf raw = 1 → keyRecOf raw ∈ t.upd.kt → keyReports c t raw = [⟨c.version, 7, raw, []⟩]) ∧
    (flagsOf raw = 0 → keyRecOf raw ∉ t.upd.kt → keyReports c t raw = [⟨c.version, 6, raw, []⟩]) ∧
    (flagsOf raw = 1 → keyRecOf raw ∉ t.upd.kt → keyReports c t raw = []) ∧
    (flagsOf raw = 0 → keyRecOf raw ∈ t.upd.kt → keyReports c t raw = []) := by
  unfold keyReports
  refine ⟨fun h => by rw [if_pos h]; exact er_repHost_one c raw 0 _ h8 h10 hs, ?_, ?_, ?_, ?_⟩
  · intro hf hm
    rw [if_neg (fun h => h.2 hf), if_pos hf]
    unfold ktAdd; rw [if_pos hm]
    exact er_repHost_one c raw 7 _ h8 h10 hs
  · intro hf hm
    rw [if_neg (fun h => h.1 hf), if_neg (by omega)]
    unfold ktRemove; rw [if_neg hm]
    exact er_repHost_one c raw 6 _ h8 h10 hs
  · intro hf hm
    rw [if_neg (fun h => h.2 hf), if_pos hf]
    unfold ktAdd; rw [if_neg hm]
  · intro hf hm
    rw [if_neg (fun h => h.1 hf), if_neg (by omega)]
    unfold ktRemove; rw [if_pos hm]

theorem er_streamEcho_prefix (s enc : List Nat) (h : StreamEcho s enc) :
    ∃ rest, AtBoundary s rest ∧ enc <+: rest := by
  obtain ⟨rest, hb, h | h⟩ := h
  · exact ⟨rest, hb, by rw [h.2]; exact List.take_prefix _ _⟩
  · exact ⟨rest, hb, h.2⟩

end Rtr.P
