/-
  ConvergeMultiRun: the runs over more than one exchange, composed from the refusing iterations of
  RtrProofs/ConvergeMulti.lean and the single-exchange machinery of RtrProofs/Converge.lean; the
  wait in ESTABLISHED.  Final statements: RtrProps/C08c.lean.
-/
import RtrProofs.ConvergeMulti

namespace Rtr.P

/-! ## exact forms of the single-exchange lemmas -/

theorem CvDone.cast {st st' : St} {ver sess serial : Nat} {iv : CvIvals} {d d' : Nat} {rest : List Nat} (h : d = d')
    (m : CvDone st st' ver sess serial iv d rest) : CvDone st st' ver sess serial iv d' rest := h ▸ m

/-- the same final state seen from a state `b` that lies `e` seconds before `a` -/
theorem cvm_done_shift {a b st' : St} {ver sess serial : Nat} {iv : CvIvals} {d : Nat} {rest : List Nat} (e : Nat)
    (hnow : a.n.now = b.n.now + e) (htm : a.tm = b.tm) (hsend : NoFail b.n.sendQ → NoFail a.n.sendQ)
    (h : CvDone a st' ver sess serial iv d rest) : CvDone b st' ver sess serial iv (e + d) rest := by
  refine ⟨h.state, h.version, h.tblok, ?_, ?_, ?_, h.tape, fun hq => h.send (hsend hq)⟩
  · rw [h.ss, hnow]
    have : b.n.now + (e : Int) + (d : Int) = b.n.now + ((e + d : Nat) : Int) := by
      simp only [Int.natCast_add]; omega
    rw [this]
  · rw [h.tm, htm]
  · rw [h.now, hnow]
    simp only [Int.natCast_add]; omega

/-- SYNC (Reset Query sent) → ESTABLISHED on the good answer, with the exact iteration and second
    counts of the way to SYNC -/
theorem cvm_finish_reset (fuel ver k d : Nat) (st st1 : St) (a : CvAtSync fuel ver k d st st1) (r : st1.ss.reqSession = true)
    (sess serial : Nat) (iv : CvIvals) (recs : List Rec) (keys : List KeyRec) (rest : List Nat) (hv : ver ≤ 1)
    (ht : TblOK st.t) (hi : st.ss.lastUpdate = 0 → NoOwn st.t) (hsess : sess < 65536) (hserial : serial < 4294967296)
    (hrok : ∀ r ∈ recs, cvRecOK r) (hkok : ∀ k ∈ keys, cvKeyOK k) (hrn : recs.Nodup) (hkn : keys.Nodup)
    (htape : CvTape st.n (cvAnswer ver sess serial iv (cvResetItems recs keys) ++ rest))
    (hfuel : recs.length + keys.length < fuel) :
    ∃ st', CvRun fuel (k + 1) st st' ∧ CvDone st st' ver sess serial iv d rest ∧
      (∀ x, x ∈ st'.t.pt ↔ (x ∈ recs ∨ (x ∈ st.t.pt ∧ x.src ≠ 0))) ∧
      (∀ x, x ∈ st'.t.kt ↔ (x ∈ keys ∨ (x ∈ st.t.kt ∧ x.src ≠ 0))) := by
  have hs1 : st1.c.state ≠ .shutdown := by rw [a.state]; decide
  obtain ⟨pt', kt', n', g, t', s', e, np, nk, mp, mk⟩ := cv_sync_reset fuel st1 ver sess serial iv recs keys rest hfuel hs1
    a.ver hv (a.mid.tblok ht) (a.mid.inv hi) r hsess hrok hkok hrn hkn (a.mid.net.cvTape htape)
  obtain ⟨st', hrun, hdone, htbl⟩ := cv_finish fuel ver k d st st1 a sess serial iv pt' kt' n' (some g) rest hserial np nk t' s' e
  refine ⟨st', hrun, hdone, fun x => ?_, fun x => ?_⟩
  · rw [htbl]
    show x ∈ pt' ↔ _
    rw [mp x]
    by_cases hx : x.src = 0
    · simp [hx]
    · rw [a.mid.others.1 x hx]
  · rw [htbl]
    show x ∈ kt' ↔ _
    rw [mk x]
    by_cases hx : x.src = 0
    · simp [hx]
    · rw [a.mid.others.2 x hx]

/-- ERROR_NO_INCR_UPDATE_AVAIL → RESET → SYNC: two iterations, no time -/
theorem cvm_from_noIncr (fuel ver : Nat) (st : St) (hs : st.c.state = .errNoIncr) (hq : NoFail st.n.sendQ)
    (hver : CvVer st.c ver) : ∃ st1, CvAtSync fuel ver 2 0 st st1 ∧ st1.ss.reqSession = true := by
  have hs0 : st.c.state ≠ .shutdown := by rw [hs]; decide
  obtain ⟨f1, f2, f3⟩ := cv_stepErrNoIncr st hs0
  obtain ⟨st1, a, r⟩ := cv_from_reset fuel ver _ f1 (f3.net.noFail hq) f2 (f3.cvVer hver)
  exact ⟨st1, ⟨.cons (by rw [fsmStep_eq, hs]) a.run, a.state, (f3.trans a.mid : CvMid (0 + 0) _ _), a.ver⟩, r⟩

/-- ERROR_NO_DATA_AVAIL → (sleep) RESET → SYNC: two iterations, one retry interval -/
theorem cvm_from_noData (fuel ver : Nat) (st : St) (hs : st.c.state = .errNoData) (hq : NoFail st.n.sendQ)
    (hver : CvVer st.c ver) : ∃ st1, CvAtSync fuel ver 2 st.tm.retry st st1 ∧ st1.ss.reqSession = true := by
  have hs0 : st.c.state ≠ .shutdown := by rw [hs]; decide
  obtain ⟨f1, f2, f3⟩ := cv_stepErrNoData st hs0
  obtain ⟨st1, a, r⟩ := cv_from_reset fuel ver _ f1 (f3.net.noFail hq) f2 (f3.cvVer hver)
  exact ⟨st1, ⟨.cons (by rw [fsmStep_eq, hs]) a.run, a.state, CvMid.cast (by omega) (f3.trans a.mid), a.ver⟩, r⟩

/-- ERROR_FATAL / ERROR_TRANSPORT → (sleep) CONNECTING → SYNC with the Serial Query sent: two
    iterations, one retry interval; session part and tables unchanged -/
theorem cvm_errClose_serial (fuel ver : Nat) (st : St) (hs : st.c.state = .errFatal ∨ st.c.state = .errTransport)
    (ho : CvOpenOK st.n.openQ) (hq : NoFail st.n.sendQ) (hr : st.ss.reqSession = false)
    (hx : ¬ cvExpired st (st.n.now + st.tm.retry)) (hver : ver = st.c.version ∨ (st.c.version = 1 ∧ ver = 0)) :
    ∃ st1, CvAtSync fuel ver 2 st.tm.retry st st1 ∧ st1.ss = st.ss ∧ st1.t = st.t := by
  have hs0 : st.c.state ≠ .shutdown := by rcases hs with h | h <;> rw [h] <;> decide
  have hc0 : st.c.state ≠ .connecting := by rcases hs with h | h <;> rw [h] <;> decide
  obtain ⟨f1, f2, f3, f4⟩ := cv_stepErrClose st hs0 hc0
  have ft : (stepErrClose st).t = st.t := (stepErrClose_spec st hs0 hc0).2.2.2.1
  have hx' : ¬ cvExpired (stepErrClose st) (stepErrClose st).n.now := by
    intro h
    apply hx
    have := cv_expired_congr (a := stepErrClose st) (b := st) f2.symm f4.tm.symm h
    rw [f4.net.now] at this; exact this
  obtain ⟨st1, a, r1, r2⟩ := cv_from_connecting_serial fuel ver _ f1 (by rw [f3]; exact ho) (f4.net.noFail hq)
    (by rw [f2]; exact hr) hx' (by rw [f4.ver]; exact hver)
  have hstep : fsmStep fuel st = some (stepErrClose st) := by
    rcases hs with h | h <;> rw [fsmStep_eq, h]
  exact ⟨st1, ⟨.cons hstep a.run, a.state, CvMid.cast (by omega) (f4.trans a.mid), a.ver⟩, r1.trans f2, r2.trans ft⟩

/-! ## from RESET to ESTABLISHED, step by step -/

/-- RESET (new session requested) → SYNC → ESTABLISHED on the good answer to the Reset Query, as seen
    from a state `st` from which RESET was reached in `d` seconds with the tape untouched -/
theorem cvm_tail (fuel ver d : Nat) (st sA : St) (hAs : sA.c.state = .reset) (hAr : sA.ss.reqSession = true)
    (mA : CvMid d st sA) (hver : CvVer st.c ver) (hq : NoFail st.n.sendQ)
    (sess serial : Nat) (iv : CvIvals) (recs : List Rec) (keys : List KeyRec) (rest : List Nat) (hv : ver ≤ 1)
    (ht : TblOK st.t) (hi : st.ss.lastUpdate = 0 → NoOwn st.t) (hsess : sess < 65536) (hserial : serial < 4294967296)
    (hrok : ∀ r ∈ recs, cvRecOK r) (hkok : ∀ k ∈ keys, cvKeyOK k) (hrn : recs.Nodup) (hkn : keys.Nodup)
    (htape : CvTape st.n (cvAnswer ver sess serial iv (cvResetItems recs keys) ++ rest))
    (hfuel : recs.length + keys.length < fuel) :
    ∃ sB st', fsmStep fuel sA = some sB ∧ sB.c.state = .sync ∧ fsmStep fuel sB = some st' ∧
      CvDone st st' ver sess serial iv d rest ∧
      (∀ x, x ∈ st'.t.pt ↔ (x ∈ recs ∨ (x ∈ st.t.pt ∧ x.src ≠ 0))) ∧
      (∀ x, x ∈ st'.t.kt ↔ (x ∈ keys ∨ (x ∈ st.t.kt ∧ x.src ≠ 0))) := by
  obtain ⟨g1, g2, g3⟩ := cv_stepReset sA hAs (mA.net.noFail hq)
  have m : CvMid d st (stepReset sA) := CvMid.cast (by omega) (mA.trans g3)
  have a : CvAtSync fuel ver 0 0 (stepReset sA) (stepReset sA) := ⟨.nil _, g1, CvMid.refl _, m.cvVer hver⟩
  obtain ⟨st', hrun, hdone, mp, mk⟩ := cvm_finish_reset fuel ver 0 0 (stepReset sA) (stepReset sA) a (by rw [g2]; exact hAr)
    sess serial iv recs keys rest hv (m.tblok ht) (m.inv hi) hsess hserial hrok hkok hrn hkn (m.net.cvTape htape) hfuel
  have hstep : fsmStep fuel (stepReset sA) = some st' := by
    cases hrun with
    | cons h r => cases r; exact h
  refine ⟨stepReset sA, st', by rw [fsmStep_eq, hAs], g1, hstep,
    CvDone.cast (by omega) (cvm_done_shift d m.net.now m.tm m.net.noFail hdone), fun x => ?_, fun x => ?_⟩
  · rw [mp x]
    by_cases hx : x.src = 0
    · simp [hx]
    · rw [m.others.1 x hx]
  · rw [mk x]
    by_cases hx : x.src = 0
    · simp [hx]
    · rw [m.others.2 x hx]

/-- the four iterations of (B) and (C): the refusal, the error state, RESET, SYNC -/
structure CvmPath4 (fuel : Nat) (st st' : St) (e : SState) : Prop where
  steps : ∃ s1 s2 s3, fsmStep fuel st = some s1 ∧ s1.c.state = e ∧ fsmStep fuel s1 = some s2 ∧ s2.c.state = .reset ∧
    fsmStep fuel s2 = some s3 ∧ s3.c.state = .sync ∧ fsmStep fuel s3 = some st'

theorem CvmPath4.run {fuel : Nat} {st st' : St} {e : SState} (p : CvmPath4 fuel st st' e) : CvRun fuel 4 st st' := by
  obtain ⟨s1, s2, s3, h1, _, h2, _, h3, _, h4⟩ := p.steps
  exact .cons h1 (.cons h2 (.cons h3 (.one h4)))

/-! ## (B) Cache Reset, then the answer to the Reset Query -/

/-- SYNC → ERROR_NO_INCR_UPDATE_AVAIL → RESET → SYNC → ESTABLISHED: 4 iterations, no time -/
theorem cvm_converges_cache_reset (fuel : Nat) (st : St) (sess serial : Nat) (iv : CvIvals) (recs : List Rec)
    (keys : List KeyRec) (rest : List Nat) (hs : st.c.state = .sync) (hq : NoFail st.n.sendQ) (hv : st.c.version ≤ 1)
    (ht : TblOK st.t) (hi : st.ss.lastUpdate = 0 → NoOwn st.t) (hsess : sess < 65536) (hserial : serial < 4294967296)
    (hrok : ∀ r ∈ recs, cvRecOK r) (hkok : ∀ k ∈ keys, cvKeyOK k) (hrn : recs.Nodup) (hkn : keys.Nodup)
    (htape : CvTape st.n (cvmCacheReset st.c.version ++
      (cvAnswer st.c.version sess serial iv (cvResetItems recs keys) ++ rest)))
    (hfuel : recs.length + keys.length < fuel) :
    ∃ st', CvmPath4 fuel st st' .errNoIncr ∧ CvDone st st' st.c.version sess serial iv 0 rest ∧
      (∀ x, x ∈ st'.t.pt ↔ (x ∈ recs ∨ (x ∈ st.t.pt ∧ x.src ≠ 0))) ∧
      (∀ x, x ∈ st'.t.kt ↔ (x ∈ keys ∨ (x ∈ st.t.kt ∧ x.src ≠ 0))) := by
  obtain ⟨st1, h1, nx⟩ := cvm_step_cacheReset fuel st _ (by omega) hs htape
  have hs1 : st1.c.state ≠ .shutdown := by rw [nx.state]; decide
  obtain ⟨f1, f2, f3⟩ := cv_stepErrNoIncr st1 hs1
  obtain ⟨sB, st', hB, hBs, hC, hdone, mp, mk⟩ := cvm_tail fuel st.c.version 0 st1 (stepErrNoIncr st1) f1 f2 f3
    (Or.inl nx.ver.symm) (nx.send hq) sess serial iv recs keys rest hv (by rw [nx.t]; exact ht) (by rw [nx.ss, nx.t]; exact hi)
    hsess hserial hrok hkok hrn hkn nx.tape hfuel
  refine ⟨st', ⟨st1, stepErrNoIncr st1, sB, h1, nx.state, by rw [fsmStep_eq, nx.state], f1, hB, hBs, hC⟩,
    (cvm_done_shift 0 (by rw [nx.now]; simp) nx.tm nx.send hdone : CvDone st st' _ _ _ _ (0 + 0) _), ?_, ?_⟩
  · intro x; rw [mp x, nx.t]
  · intro x; rw [mk x, nx.t]

/-! ## (C) "No Data Available", then the answer to the Reset Query -/

/-- SYNC → ERROR_NO_DATA_AVAIL → (sleep) RESET → SYNC → ESTABLISHED: 4 iterations, exactly one retry
    interval -/
theorem cvm_converges_no_data (fuel : Nat) (st : St) (ever : Nat) (enc text : List Nat) (sess serial : Nat) (iv : CvIvals)
    (recs : List Rec) (keys : List KeyRec) (rest : List Nat) (hs : st.c.state = .sync) (hq : NoFail st.n.sendQ)
    (hv : st.c.version ≤ 1) (hsz : enc.length + text.length + 16 ≤ Gen.RTR_MAX_PDU_LEN)
    (ht : TblOK st.t) (hi : st.ss.lastUpdate = 0 → NoOwn st.t) (hsess : sess < 65536) (hserial : serial < 4294967296)
    (hrok : ∀ r ∈ recs, cvRecOK r) (hkok : ∀ k ∈ keys, cvKeyOK k) (hrn : recs.Nodup) (hkn : keys.Nodup)
    (htape : CvTape st.n (errorPduBytes ever enc 2 text ++
      (cvAnswer st.c.version sess serial iv (cvResetItems recs keys) ++ rest)))
    (hfuel : recs.length + keys.length < fuel) :
    ∃ st', CvmPath4 fuel st st' .errNoData ∧ CvDone st st' st.c.version sess serial iv st.tm.retry rest ∧
      (∀ x, x ∈ st'.t.pt ↔ (x ∈ recs ∨ (x ∈ st.t.pt ∧ x.src ≠ 0))) ∧
      (∀ x, x ∈ st'.t.kt ↔ (x ∈ keys ∨ (x ∈ st.t.kt ∧ x.src ≠ 0))) := by
  obtain ⟨st1, h1, nx⟩ := cvm_step_noData fuel st ever enc text _ (by omega) hs hsz htape
  have hs1 : st1.c.state ≠ .shutdown := by rw [nx.state]; decide
  obtain ⟨f1, f2, f3⟩ := cv_stepErrNoData st1 hs1
  obtain ⟨sB, st', hB, hBs, hC, hdone, mp, mk⟩ := cvm_tail fuel st.c.version st1.tm.retry st1 (stepErrNoData st1) f1 f2 f3
    (Or.inl nx.ver.symm) (nx.send hq) sess serial iv recs keys rest hv (by rw [nx.t]; exact ht) (by rw [nx.ss, nx.t]; exact hi)
    hsess hserial hrok hkok hrn hkn nx.tape hfuel
  refine ⟨st', ⟨st1, stepErrNoData st1, sB, h1, nx.state, by rw [fsmStep_eq, nx.state], f1, hB, hBs, hC⟩,
    CvDone.cast (by rw [nx.tm]; omega) (cvm_done_shift 0 (by rw [nx.now]; simp) nx.tm nx.send hdone), ?_, ?_⟩
  · intro x; rw [mp x, nx.t]
  · intro x; rw [mk x, nx.t]

/-! ## (D) a Cache Response of another session -/

/-- SYNC → ERROR_FATAL → (sleep) CONNECTING → SYNC (Serial Query with the OLD session) → the cache
    answers Cache Reset → ERROR_NO_INCR_UPDATE_AVAIL → RESET → SYNC → ESTABLISHED: 7 iterations, exactly
    one retry interval.  (The data has not expired when the socket connects; otherwise see
    `cvm_converges_session_change_expired`.) -/
theorem cvm_converges_session_change (fuel : Nat) (st : St) (sess serial : Nat) (iv : CvIvals) (recs : List Rec)
    (keys : List KeyRec) (rest : List Nat) (hs : st.c.state = .sync) (hr : st.ss.reqSession = false)
    (hne : st.ss.session ≠ sess) (ho : CvOpenOK st.n.openQ) (hq : NoFail st.n.sendQ) (hv : st.c.version ≤ 1)
    (hx : ¬ cvExpired st (st.n.now + st.tm.retry))
    (ht : TblOK st.t) (hi : st.ss.lastUpdate = 0 → NoOwn st.t) (hsess : sess < 65536) (hserial : serial < 4294967296)
    (hrok : ∀ r ∈ recs, cvRecOK r) (hkok : ∀ k ∈ keys, cvKeyOK k) (hrn : recs.Nodup) (hkn : keys.Nodup)
    (htape : CvTape st.n (cvCacheResponse st.c.version sess ++ (cvmCacheReset st.c.version ++
      (cvAnswer st.c.version sess serial iv (cvResetItems recs keys) ++ rest))))
    (hfuel : recs.length + keys.length < fuel) :
    ∃ st', CvRun fuel 7 st st' ∧ CvDone st st' st.c.version sess serial iv st.tm.retry rest ∧
      (∀ x, x ∈ st'.t.pt ↔ (x ∈ recs ∨ (x ∈ st.t.pt ∧ x.src ≠ 0))) ∧
      (∀ x, x ∈ st'.t.kt ↔ (x ∈ keys ∨ (x ∈ st.t.kt ∧ x.src ≠ 0))) := by
  obtain ⟨st1, h1, nx⟩ := cvm_step_wrongSession fuel st sess _ (by omega) hs hr hne hsess htape
  have hx1 : ¬ cvExpired st1 (st1.n.now + st1.tm.retry) := by
    intro h
    apply hx
    have := cv_expired_congr (a := st1) (b := st) nx.ss.symm nx.tm.symm h
    rw [nx.now, nx.tm] at this; exact this
  obtain ⟨st3, a, r1, r2⟩ := cvm_errClose_serial fuel st.c.version st1 (Or.inl nx.state) (by rw [nx.openQ]; exact ho) (nx.send hq)
    (by rw [nx.ss]; exact hr) hx1 (Or.inl nx.ver.symm)
  have hv3 : st3.c.version = st.c.version := a.mid.ver.trans nx.ver
  have htape3 : CvTape st3.n (cvmCacheReset st3.c.version ++
      (cvAnswer st3.c.version sess serial iv (cvResetItems recs keys) ++ rest)) := by
    rw [hv3]; exact a.mid.net.cvTape nx.tape
  obtain ⟨st', hpath, hdone, mp, mk⟩ := cvm_converges_cache_reset fuel st3 sess serial iv recs keys rest a.state
    (a.mid.net.noFail (nx.send hq)) (by rw [hv3]; exact hv) (by rw [r2, nx.t]; exact ht) (by rw [r1, r2, nx.ss, nx.t]; exact hi)
    hsess hserial hrok hkok hrn hkn htape3 hfuel
  rw [hv3] at hdone
  have d1 := cvm_done_shift st1.tm.retry a.mid.net.now a.mid.tm a.mid.net.noFail hdone
  have d0 := cvm_done_shift 0 (by rw [nx.now]; simp) nx.tm nx.send d1
  refine ⟨st', .cons h1 (a.run.append hpath.run), CvDone.cast (by rw [nx.tm]; omega) d0, ?_, ?_⟩
  · intro x; rw [mp x, r2, nx.t]
  · intro x; rw [mk x, r2, nx.t]

/-- … and when the data has expired by the time the socket connects, the next query is a Reset Query
    and the cache answers it directly: at most 5 iterations, exactly one retry interval -/
theorem cvm_converges_session_change_expired (fuel : Nat) (st : St) (sess serial : Nat) (iv : CvIvals) (recs : List Rec)
    (keys : List KeyRec) (rest : List Nat) (hs : st.c.state = .sync) (hr : st.ss.reqSession = false)
    (hne : st.ss.session ≠ sess) (ho : CvOpenOK st.n.openQ) (hq : NoFail st.n.sendQ) (hv : st.c.version ≤ 1)
    (hx : cvExpired st (st.n.now + st.tm.retry))
    (ht : TblOK st.t) (hi : st.ss.lastUpdate = 0 → NoOwn st.t) (hsess : sess < 65536) (hserial : serial < 4294967296)
    (hrok : ∀ r ∈ recs, cvRecOK r) (hkok : ∀ k ∈ keys, cvKeyOK k) (hrn : recs.Nodup) (hkn : keys.Nodup)
    (htape : CvTape st.n (cvCacheResponse st.c.version sess ++
      (cvAnswer st.c.version sess serial iv (cvResetItems recs keys) ++ rest)))
    (hfuel : recs.length + keys.length < fuel) :
    ∃ k st', k ≤ 5 ∧ CvRun fuel k st st' ∧ CvDone st st' st.c.version sess serial iv st.tm.retry rest ∧
      (∀ x, x ∈ st'.t.pt ↔ (x ∈ recs ∨ (x ∈ st.t.pt ∧ x.src ≠ 0))) ∧
      (∀ x, x ∈ st'.t.kt ↔ (x ∈ keys ∨ (x ∈ st.t.kt ∧ x.src ≠ 0))) := by
  obtain ⟨st1, h1, nx⟩ := cvm_step_wrongSession fuel st sess _ (by omega) hs hr hne hsess htape
  have hs0 : st1.c.state ≠ .shutdown := by rw [nx.state]; decide
  have hc0 : st1.c.state ≠ .connecting := by rw [nx.state]; decide
  obtain ⟨f1, f2, f3, f4⟩ := cv_stepErrClose st1 hs0 hc0
  have hx' : cvExpired (stepErrClose st1) (stepErrClose st1).n.now := by
    refine cv_expired_congr (a := st) (f2.trans nx.ss) (f4.tm.trans nx.tm) ?_
    rw [f4.net.now, nx.now, nx.tm]; exact hx
  obtain ⟨st2, a, r⟩ := cv_from_connecting_reset fuel st.c.version _ f1 (by rw [f3, nx.openQ]; exact ho)
    (f4.net.noFail (nx.send hq)) (Or.inr hx') (Or.inl (by rw [f4.ver, nx.ver]))
  have a1 : CvAtSync fuel st.c.version 3 st1.tm.retry st1 st2 :=
    ⟨.cons (by rw [fsmStep_eq, nx.state]) a.run, a.state, CvMid.cast (by omega) (f4.trans a.mid), a.ver⟩
  obtain ⟨st', hrun, hdone, mp, mk⟩ := cvm_finish_reset fuel st.c.version 3 st1.tm.retry st1 st2 a1 r sess serial iv recs keys rest
    hv (by rw [nx.t]; exact ht) (by rw [nx.ss, nx.t]; exact hi) hsess hserial hrok hkok hrn hkn nx.tape hfuel
  refine ⟨5, st', Nat.le_refl _, .cons h1 hrun,
    CvDone.cast (by rw [nx.tm]; omega) (cvm_done_shift 0 (by rw [nx.now]; simp) nx.tm nx.send hdone), ?_, ?_⟩
  · intro x; rw [mp x, nx.t]
  · intro x; rw [mk x, nx.t]

end Rtr.P
