/-
  AllocPfx: the prefix-table operations under the allocator oracle — outcome by cases of the budget
  (passes / is hit), and the block accounting `net trace = blocks after − blocks before`.
-/
import RtrProofs.AllocBasic
import RtrProofs.TableSet

namespace Rtr
namespace Alloc
open PfxTable

/-! ### blocks of a trie as a sum over its nodes -/

def wt (c : NodeC) : Nat := if c.data.isEmpty then 2 else 3
def nb (l : List NodeC) : Nat := (l.map wt).sum

theorem trieBlocks_eq (t : Trie) : trieBlocks t = nb t.nodes := rfl

theorem nb_perm {a b : List NodeC} (h : a.Perm b) : nb a = nb b := (h.map wt).sum_nat
@[simp] theorem nb_nil : nb [] = 0 := rfl
@[simp] theorem nb_cons (c : NodeC) (l : List NodeC) : nb (c :: l) = wt c + nb l := by simp [nb]
@[simp] theorem nb_append (a b : List NodeC) : nb (a ++ b) = nb a + nb b := by simp [nb, List.sum_append]

theorem trieBlocks_node (c : NodeC) (l r : Trie) : trieBlocks (.node c l r) = trieBlocks l + wt c + trieBlocks r := by
  simp only [trieBlocks_eq, Trie.nodes, nb_append, nb_cons]; omega

@[simp] theorem trieBlocks_nil : trieBlocks .nil = 0 := rfl

theorem wt_nonempty {c : NodeC} (h : c.data ≠ []) : wt c = 3 := by
  unfold wt; cases hd : c.data <;> simp_all

/-- replacing the subtree at a node position changes the blocks by the difference of the subtrees -/
theorem blocks_modifyAt (t : Trie) (p : List Bool) (h : ∃ c l r, t.subAt p = .node c l r) (f : Trie → Trie) :
    trieBlocks (t.modifyAt p f) + trieBlocks (t.subAt p) = trieBlocks t + trieBlocks (f (t.subAt p)) := by
  obtain ⟨rest, h1, h2⟩ := modifyAt_nodes t p h
  simp only [trieBlocks_eq]
  rw [nb_perm h1, nb_perm (h2 f), nb_append, nb_append]; omega

theorem reqs_append (s t : List Ev) : reqs (s ++ t) = reqs s + reqs t := by
  simp [reqs, List.filter_append]
theorem refusals_append (s t : List Ev) : refusals (s ++ t) = refusals s + refusals t := by
  simp [refusals, List.filter_append]

theorem blocks_modifyAt_node (t : Trie) (p : List Bool) (c : NodeC) (l r : Trie) (hsub : t.subAt p = .node c l r)
    (f : Trie → Trie) :
    trieBlocks (t.modifyAt p f) + (trieBlocks l + wt c + trieBlocks r) = trieBlocks t + trieBlocks (f (.node c l r)) := by
  have := blocks_modifyAt t p ⟨c, l, r, hsub⟩ f
  rw [hsub, trieBlocks_node] at this
  exact this

theorem trieBlocks_removeRoot (c : NodeC) (l r : Trie) :
    trieBlocks (removeRoot (.node c l r)) = trieBlocks l + trieBlocks r := by
  have hp := nb_perm (removeRoot_nodes_perm _ c l r rfl)
  simp only [trieBlocks_eq]
  rw [hp, nb_append]

theorem wt_len (c : NodeC) : wt c = if c.data.length = 0 then 2 else 3 := by
  unfold wt; cases c.data <;> simp

/-! ### pfx_table_create_node -/

structure CreateOK (a : A) (q : Bool × A) : Prop where
  pass : ¬ a.hits 3 → q.1 = true ∧ q.2.budget = a.after 3 ∧ refusals q.2.trace = refusals a.trace ∧
          net q.2.trace = net a.trace + 3 ∧ reqs q.2.trace = reqs a.trace + 3
  hit : a.hits 3 → q.1 = false ∧ q.2.budget = none ∧ refusals q.2.trace = refusals a.trace + 1 ∧
          net q.2.trace = net a.trace
  nolibc : NoLibc a.trace → NoLibc q.2.trace

theorem noLibc_of_ext {s : List Ev} (l : List Ev) (h : NoLibc s) (hl : ∀ e ∈ l, ∀ b n, e ≠ .libcFree b n) :
    NoLibc (s ++ l) := by
  intro x hx
  rcases List.mem_append.mp hx with hx | hx
  · exact h x hx
  · exact hl x hx

theorem createNodeReq_ok (a : A) : CreateOK a (createNodeReq a) := by
  have nl : ∀ (l : List Ev), (∀ e ∈ l, ∀ b n, e ≠ Ev.libcFree b n) → NoLibc a.trace → NoLibc (a.trace ++ l) :=
    fun l hl h => noLibc_of_ext l h hl
  cases hb : a.budget with
  | none =>
    have e : createNodeReq a = (true, ⟨none, a.trace ++ [.malloc .node 1 true, .malloc .ndata 1 true, .realloc .ary 0 1 true]⟩) := by
      simp [createNodeReq, A.malloc, A.realloc, A.take, hb]
    rw [e]
    refine ⟨fun _ => ⟨rfl, by simp [A.after, hb], ?_, ?_, ?_⟩, fun h => absurd h (not_hits_none hb 3), nl _ (by simp)⟩
    · rw [refusals_append]; rfl
    · rw [net_append]; rfl
    · rw [reqs_append]; rfl
  | some k =>
    match k with
    | 0 =>
      have e : createNodeReq a = (false, ⟨none, a.trace ++ [.malloc .node 1 false]⟩) := by
        simp [createNodeReq, A.malloc, A.take, hb]
      rw [e]
      refine ⟨fun h => absurd ⟨0, hb, by omega⟩ h, fun _ => ⟨rfl, rfl, ?_, ?_⟩, nl _ (by simp)⟩
      · simp [Ev.refused]
      · simp [Ev.delta]
    | 1 =>
      have e : createNodeReq a = (false, ⟨none, a.trace ++ [.malloc .node 1 true, .malloc .ndata 1 false, .free .node 1]⟩) := by
        simp [createNodeReq, A.malloc, A.free, A.take, hb]
      rw [e]
      refine ⟨fun h => absurd ⟨1, hb, by omega⟩ h, fun _ => ⟨rfl, rfl, ?_, ?_⟩, nl _ (by simp)⟩
      · rw [refusals_append]; rfl
      · rw [net_append]; show net a.trace + (1 + (0 + (-1 + 0))) = _; omega
    | 2 =>
      have e : createNodeReq a = (false, ⟨none, a.trace ++ [.malloc .node 1 true, .malloc .ndata 1 true,
          .realloc .ary 0 1 false, .free .ndata 1, .free .node 1]⟩) := by
        simp [createNodeReq, A.malloc, A.realloc, A.free, A.take, hb]
      rw [e]
      refine ⟨fun h => absurd ⟨2, hb, by omega⟩ h, fun _ => ⟨rfl, rfl, ?_, ?_⟩, nl _ (by simp)⟩
      · rw [refusals_append]; rfl
      · rw [net_append]; show net a.trace + (1 + (1 + (0 + (-1 + (-1 + 0))))) = _; omega
    | k + 3 =>
      have e : createNodeReq a = (true, ⟨some k, a.trace ++ [.malloc .node 1 true, .malloc .ndata 1 true, .realloc .ary 0 1 true]⟩) := by
        simp [createNodeReq, A.malloc, A.realloc, A.take, hb]
      rw [e]
      refine ⟨fun _ => ⟨rfl, by simp [A.after, hb], ?_, ?_, ?_⟩, ?_, nl _ (by simp)⟩
      · rw [refusals_append]; rfl
      · rw [net_append]; rfl
      · rw [reqs_append]; rfl
      · rintro ⟨k', e', h'⟩; rw [hb] at e'; cases e'; omega

/-! ### pfx_table_add -/

def AddSite.reqs : AddSite → Nat
  | .none => 0 | .append _ => 1 | .create => 3

/-- blocks gained by a successful add -/
def AddSite.gain : AddSite → Nat
  | .none => 0 | .append n => if n = 0 then 1 else 0 | .create => 3

theorem addTrie_blocks (w : Nat) (t : Trie) (addr : Addr) (len : Nat) (e : Elem) (h : WF w t 0) :
    trieBlocks (addTrie w t addr len e).1 = trieBlocks t + (addSite w t addr len e).gain := by
  cases t with
  | nil =>
    simp [addTrie, addSite, AddSite.gain, trieBlocks_node, wt]
  | node c0 l0 r0 =>
    have spec := lookupExact_spec w addr len (.node c0 l0 r0) 0 h
    unfold addTrie addSite
    simp only
    cases hlx : lookupExact w addr len (.node c0 l0 r0) 0 with
    | up => simp [AddSite.gain]
    | «at» p f =>
      rw [hlx] at spec
      cases f with
      | true =>
        simp only
        cases hsub : (Trie.node c0 l0 r0).subAt p with
        | nil => simp [AddSite.gain]
        | node c l r =>
          simp only
          by_cases hd : (findElem c.data e).isSome
          · simp [hd, AddSite.gain]
          · simp only [hd, Bool.false_eq_true, if_false]
            have key := blocks_modifyAt_node (.node c0 l0 r0) p c l r hsub
            have w1 : wt { c with data := c.data ++ [e] } = 3 := wt_nonempty (by simp)
            simp only [AddSite.gain]
            apply Nat.add_right_cancel (m := trieBlocks l + wt c + trieBlocks r)
            rw [key]
            dsimp only
            rw [trieBlocks_node { c with data := c.data ++ [e] } l r, w1, wt_len c]
            split <;> omega
      | false =>
        simp only [LxSpec] at spec
        obtain ⟨c, l, r, hsub⟩ := spec.2 (by simp)
        have hm := blocks_modifyAt (.node c0 l0 r0) p ⟨c, l, r, hsub⟩
          (fun s => insert w s ⟨addr, len, [e]⟩ p.length)
        have hi := nb_perm (insert_nodes_perm w ((Trie.node c0 l0 r0).subAt p) ⟨addr, len, [e]⟩ p.length)
        simp only [trieBlocks_eq] at hm ⊢
        rw [hi, nb_cons] at hm
        have w1 : wt ⟨addr, len, [e]⟩ = 3 := wt_nonempty (by simp)
        rw [w1] at hm
        simp only [AddSite.gain]
        omega

theorem pfxBlocks_setRoot (T : PfxTable) (v6 : Bool) (t : Trie) :
    pfxBlocks (T.setRoot v6 t) + trieBlocks (T.root v6) = pfxBlocks T + trieBlocks t := by
  cases v6 <;> simp [pfxBlocks, setRoot, root] <;> omega

@[simp] theorem pfxBlocks_notify (T : PfxTable) (b : Bool) (r : Rec) : pfxBlocks (T.notify b r) = pfxBlocks T := by
  unfold notify; split <;> rfl

theorem add_blocks (T : PfxTable) (r : Rec) (h : TableWF T) :
    pfxBlocks (T.add r).1 = pfxBlocks T + (addSite r.width (T.root r.v6) r.addr r.len r.elem).gain := by
  have hw : r.width = (if r.v6 then 128 else 32) := rfl
  have hb := addTrie_blocks r.width (T.root r.v6) r.addr r.len r.elem (by rw [hw]; exact root_WF T r.v6 h)
  have hs := pfxBlocks_setRoot T r.v6 (addTrie r.width (T.root r.v6) r.addr r.len r.elem).1
  unfold PfxTable.add
  generalize addTrie r.width (T.root r.v6) r.addr r.len r.elem = res at hb hs
  obtain ⟨t', rc⟩ := res
  simp only at hb hs ⊢
  split <;> simp only [pfxBlocks_notify] <;> omega

/-- `pfx_table_add` under the oracle -/
structure AddOK (a : A) (T : PfxTable) (r : Rec) (q : A × PfxTable × PfxRc) : Prop where
  pass : ¬ a.hits (addSite r.width (T.root r.v6) r.addr r.len r.elem).reqs →
          q.2 = T.add r ∧ q.1.budget = a.after (addSite r.width (T.root r.v6) r.addr r.len r.elem).reqs ∧
          refusals q.1.trace = refusals a.trace ∧
          Alloc.reqs q.1.trace = Alloc.reqs a.trace + (addSite r.width (T.root r.v6) r.addr r.len r.elem).reqs
  hit : a.hits (addSite r.width (T.root r.v6) r.addr r.len r.elem).reqs →
          q.2 = (T, .error) ∧ q.1.budget = none ∧ refusals q.1.trace = refusals a.trace + 1
  net : TableWF T → Alloc.net q.1.trace = Alloc.net a.trace + (pfxBlocks q.2.1 - pfxBlocks T : Int)
  nolibc : NoLibc a.trace → NoLibc q.1.trace

theorem addF_ok (a : A) (T : PfxTable) (r : Rec) : AddOK a T r (addF a T r) := by
  have hblk := add_blocks T r
  unfold addF
  cases hs : addSite r.width (T.root r.v6) r.addr r.len r.elem with
  | none =>
    rw [hs] at hblk
    simp only [AddSite.gain] at hblk
    refine ⟨?_, ?_, fun hT => ?_, fun h => h⟩
    · rw [hs]; intro _; exact ⟨rfl, by simp [AddSite.reqs, after_zero], rfl, rfl⟩
    · rw [hs]; intro h; exact absurd h (hits_zero a)
    · simp only; rw [hblk hT]; simp
  | append n =>
    rw [hs] at hblk
    simp only [AddSite.gain] at hblk
    have q := realloc_ok a .ary n (n + 1)
    by_cases h1 : a.hits 1
    · obtain ⟨hq, hb, hr, hn⟩ := q.hit h1
      simp only [hq, Bool.false_eq_true, if_false]
      refine ⟨?_, ?_, fun _ => by rw [hn]; simp, q.nolibc⟩
      · rw [hs]; intro h; exact absurd h1 h
      · rw [hs]; intro _; exact ⟨rfl, hb, hr⟩
    · obtain ⟨hq, hb, hr, hn⟩ := q.pass h1
      simp only [hq, if_true]
      refine ⟨?_, ?_, fun hT => ?_, q.nolibc⟩
      · rw [hs]; intro _; exact ⟨rfl, hb, hr, q.reqs⟩
      · rw [hs]; intro h; exact absurd h h1
      · rw [hn, hblk hT]
        split <;> simp <;> omega
  | create =>
    rw [hs] at hblk
    simp only [AddSite.gain] at hblk
    have q := createNodeReq_ok a
    by_cases h3 : a.hits 3
    · obtain ⟨hq, hb, hr, hn⟩ := q.hit h3
      simp only [hq, Bool.false_eq_true, if_false]
      refine ⟨?_, ?_, fun _ => by rw [hn]; simp, q.nolibc⟩
      · rw [hs]; intro h; exact absurd h3 h
      · rw [hs]; intro _; exact ⟨rfl, hb, hr⟩
    · obtain ⟨hq, hb, hr, hn, hrq⟩ := q.pass h3
      simp only [hq, if_true]
      refine ⟨?_, ?_, fun hT => ?_, q.nolibc⟩
      · rw [hs]; intro _; exact ⟨rfl, hb, hr, hrq⟩
      · rw [hs]; intro h; exact absurd h h3
      · rw [hn, hblk hT]; simp; omega

/-- whatever the oracle does, `pfx_table_add` yields the table of the failure-free call or leaves
    the table alone -/
theorem addF_cases (a : A) (T : PfxTable) (r : Rec) :
    (addF a T r).2 = T.add r ∨ (addF a T r).2 = (T, .error) := by
  have h := addF_ok a T r
  by_cases hh : a.hits (addSite r.width (T.root r.v6) r.addr r.len r.elem).reqs
  · exact Or.inr (h.hit hh).1
  · exact Or.inl (h.pass hh).1

/-! ### pfx_table_remove -/

def RemSite.frees : RemSite → Nat
  | .last => 3 | _ => 0

theorem removeTrie_blocks (w : Nat) (t : Trie) (addr : Addr) (len : Nat) (e : Elem) :
    trieBlocks (removeTrie w t addr len e).1 + (remSite w t addr len e).frees = trieBlocks t := by
  unfold removeTrie remSite
  cases hlx : lookupExact w addr len t 0 with
  | up => simp [RemSite.frees]
  | «at» p f =>
    cases f with
    | false => simp [RemSite.frees]
    | true =>
      simp only
      cases hsub : t.subAt p with
      | nil => simp [RemSite.frees]
      | node c l r =>
        simp only
        cases hf : findElem c.data e with
        | none => simp [RemSite.frees]
        | some i =>
          simp only
          obtain ⟨hi, _⟩ := findElem_some c.data e i hf
          have hne : c.data ≠ [] := by intro h0; rw [h0] at hi; simp at hi
          have key := blocks_modifyAt_node t p c l r hsub
          by_cases hd : (delElem c.data i).isEmpty
          · simp only [hd, if_true, RemSite.frees]
            apply Nat.add_right_cancel (m := trieBlocks l + wt c + trieBlocks r)
            rw [Nat.add_right_comm, key]
            dsimp only
            rw [trieBlocks_removeRoot, wt_nonempty hne]
            omega
          · simp only [hd, Bool.false_eq_true, if_false, RemSite.frees]
            have hne2 : delElem c.data i ≠ [] := by
              intro h0; rw [h0] at hd; simp at hd
            apply Nat.add_right_cancel (m := trieBlocks l + wt c + trieBlocks r)
            rw [Nat.add_right_comm, key]
            dsimp only
            rw [trieBlocks_node { c with data := delElem c.data i } l r,
              wt_nonempty (c := { c with data := delElem c.data i }) hne2, wt_nonempty hne]
            omega

theorem remove_blocks (T : PfxTable) (r : Rec) :
    pfxBlocks (T.remove r).1 + (remSite r.width (T.root r.v6) r.addr r.len r.elem).frees = pfxBlocks T := by
  have hb := removeTrie_blocks r.width (T.root r.v6) r.addr r.len r.elem
  have hs := pfxBlocks_setRoot T r.v6 (removeTrie r.width (T.root r.v6) r.addr r.len r.elem).1
  unfold PfxTable.remove
  generalize removeTrie r.width (T.root r.v6) r.addr r.len r.elem = res at hb hs
  obtain ⟨t', rc⟩ := res
  simp only at hb hs ⊢
  split <;> simp only [pfxBlocks_notify] <;> omega

theorem remActs_counts (T : PfxTable) (r : Rec) :
    frees (remActs T r) = (remSite r.width (T.root r.v6) r.addr r.len r.elem).frees ∧ shrinks (remActs T r) ≤ 1 := by
  unfold remActs
  cases remSite r.width (T.root r.v6) r.addr r.len r.elem <;> simp [RemSite.frees]

/-- `pfx_table_remove` under the oracle (fixed code): the table result never depends on the oracle -/
theorem removeF_result (a : A) (T : PfxTable) (r : Rec) : (removeF a T r).2 = T.remove r := rfl

theorem removeF_net (a : A) (T : PfxTable) (r : Rec) :
    net (removeF a T r).1.trace = net a.trace + (pfxBlocks (removeF a T r).2.1 - pfxBlocks T : Int) := by
  have h := run_ok (remActs T r) a
  have hb := remove_blocks T r
  have hc := (remActs_counts T r).1
  show net (a.run (remActs T r)).trace = net a.trace + ((pfxBlocks (T.remove r).1 : Int) - pfxBlocks T)
  rw [h.net, hc]
  omega

/-! ### pfx_table_remove_id / pfx_table_src_remove -/

theorem delActs_counts (n g : Nat) (hg : g ≤ n) :
    frees (delActs n g) = (if g = n ∧ 0 < n then 1 else 0) ∧
    shrinks (delActs n g) = (if g = n ∧ 0 < n then g - 1 else g) := by
  unfold delActs
  induction g with
  | zero =>
    simp
    intro h; omega
  | succ g ih =>
    obtain ⟨ih1, ih2⟩ := ih (by omega)
    rw [List.range_succ, List.map_append, frees_append, shrinks_append, ih1, ih2]
    have hlt : ¬ (g = n ∧ 0 < n) := by omega
    simp only [hlt, if_false, List.map_cons, List.map_nil]
    by_cases hlast : n - g = 1
    · have : g + 1 = n ∧ 0 < n := by omega
      simp [hlast, this]; omega
    · have : ¬ (g + 1 = n ∧ 0 < n) := by omega
      simp [hlast, this]

theorem length_filter_add {α : Type} (p : α → Bool) (l : List α) :
    (l.filter p).length + (l.filter fun x => !p x).length = l.length := by
  induction l with
  | nil => rfl
  | cons x xs ih =>
    simp only [List.filter_cons]
    cases p x <;> simp <;> omega

/-- the releases of `pfx_table_remove_id` are exactly the blocks that disappear -/
theorem removeIdActs_frees (src : Nat) : ∀ (t : Trie),
    frees (removeIdActs src t) + trieBlocks (removeId src t).1 = trieBlocks t
  | .nil => by
    rw [removeIdActs, removeId]; simp
  | .node c l r => by
    rw [removeIdActs, removeId]
    simp only
    have hlen : (c.data.filter fun e => e.src == src).length ≤ c.data.length := List.length_filter_le _ _
    obtain ⟨df, _⟩ := delActs_counts c.data.length (c.data.filter fun e => e.src == src).length hlen
    split
    · rename_i hkept
      have hk : c.data.filter (fun e => e.src != src) = [] := by simpa using hkept
      have hall : (c.data.filter fun e => e.src == src).length = c.data.length := by
        have := length_filter_add (fun e : Elem => e.src == src) c.data
        have h2 : (c.data.filter fun e => !(e.src == src)) = c.data.filter (fun e => e.src != src) := rfl
        rw [h2, hk] at this
        simp only [List.length_nil, Nat.add_zero] at this
        exact this
      have hw : wt c = 2 + (if (c.data.filter fun e => e.src == src).length = c.data.length ∧ 0 < c.data.length then 1 else 0) := by
        rw [wt_len]
        by_cases h0 : c.data.length = 0
        · have : ¬ (0 < c.data.length) := by omega
          simp [h0]
        · have : 0 < c.data.length := by omega
          simp [h0, hall, this]
      split
      · rename_i hleaf
        have hl0 : l = .nil := by cases l <;> simp_all [Trie.isNil]
        have hr0 : r = .nil := by cases r <;> simp_all [Trie.isNil]
        subst hl0; subst hr0
        simp only [frees_append, df, trieBlocks_node, trieBlocks_nil, hw]
        simp; omega
      · have ih := removeIdActs_frees src (removeRoot (.node { c with data := [] } l r))
        have hp := nb_perm (removeRoot_nodes_perm _ { c with data := [] } l r rfl)
        simp only [frees_append, df, trieBlocks_node, hw]
        simp only [trieBlocks_eq, nb_append] at ih hp ⊢
        simp; omega
    · rename_i hkept
      have hk : c.data.filter (fun e => e.src != src) ≠ [] := by simpa using hkept
      have ihl := removeIdActs_frees src l
      have ihr := removeIdActs_frees src r
      have hlt : ¬ ((c.data.filter fun e => e.src == src).length = c.data.length ∧ 0 < c.data.length) := by
        rintro ⟨h1, _⟩
        have := length_filter_add (fun e : Elem => e.src == src) c.data
        have h2 : (c.data.filter fun e => !(e.src == src)) = c.data.filter (fun e => e.src != src) := rfl
        rw [h2] at this
        have : (c.data.filter fun e => e.src != src).length = 0 := by omega
        exact hk (List.eq_nil_of_length_eq_zero this)
      have hne : c.data ≠ [] := by intro h0; rw [h0] at hk; simp at hk
      have w2 : wt { c with data := c.data.filter fun e => e.src != src } = 3 := wt_nonempty hk
      simp only [frees_append, df, hlt, if_false, trieBlocks_node, wt_nonempty hne, w2]
      omega
termination_by t => t.size
decreasing_by
  all_goals first
    | exact removeRoot_size_lt { c with data := [] } l r
    | (simp [Trie.size]; omega)

@[simp] theorem pfxBlocks_notifyAll (b : Bool) (rs : List Rec) (T : PfxTable) : pfxBlocks (T.notifyAll b rs) = pfxBlocks T := by
  obtain ⟨h1, h2, _, _⟩ := notifyAll_spec b rs T
  simp [pfxBlocks, h1, h2]

theorem srcRemove_blocks (T : PfxTable) (src : Nat) :
    frees (removeIdActs src T.v4) + frees (removeIdActs src T.t6) + pfxBlocks (T.srcRemove src) = pfxBlocks T := by
  have h4 := removeIdActs_frees src T.v4
  have h6 := removeIdActs_frees src T.t6
  unfold PfxTable.srcRemove
  generalize hr4 : removeId src T.v4 = r4 at h4
  obtain ⟨a, la⟩ := r4
  simp only at h4 ⊢
  have n1 := notifyAll_spec false (la.map fun (ad, ln, e) => mkRec false ad ln e) { T with v4 := a }
  generalize ({ T with v4 := a } : PfxTable).notifyAll false (la.map fun (ad, ln, e) => mkRec false ad ln e) = T1 at n1
  obtain ⟨n11, n12, _, _⟩ := n1
  simp only at n11 n12
  rw [n12]
  generalize hr6 : removeId src T.t6 = r6 at h6
  obtain ⟨b, lb⟩ := r6
  simp only at h6 ⊢
  rw [pfxBlocks_notifyAll]
  simp only [pfxBlocks, n11]
  omega

theorem srcRemoveF_result (a : A) (T : PfxTable) (src : Nat) : (srcRemoveF a T src).2 = (T.srcRemove src, .success) := rfl

theorem srcRemoveF_net (a : A) (T : PfxTable) (src : Nat) :
    net (srcRemoveF a T src).1.trace = net a.trace + (pfxBlocks (srcRemoveF a T src).2.1 - pfxBlocks T : Int) := by
  have h1 := run_ok (removeIdActs src T.v4) a
  have h2 := run_ok (removeIdActs src T.t6) (a.run (removeIdActs src T.v4))
  have hb := srcRemove_blocks T src
  show net ((a.run (removeIdActs src T.v4)).run (removeIdActs src T.t6)).trace =
    net a.trace + ((pfxBlocks (T.srcRemove src) : Int) - pfxBlocks T)
  rw [h2.net, h1.net]
  omega

/-! ### pfx_table_free -/

theorem freeActs_frees : ∀ (t : Trie), frees (freeActs t) = trieBlocks t ∧ shrinks (freeActs t) = 0
  | .nil => by rw [freeActs]; simp
  | .node c l r => by
    rw [freeActs]
    obtain ⟨ih1, ih2⟩ := freeActs_frees (removeRoot (.node c l r))
    have hp := nb_perm (removeRoot_nodes_perm _ c l r rfl)
    simp only [frees_append, shrinks_append, ih1, ih2, trieBlocks_node]
    simp only [trieBlocks_eq, nb_append] at hp ⊢
    rw [hp]
    unfold wt
    cases hcd : c.data <;> simp <;> omega
termination_by t => t.size
decreasing_by exact removeRoot_size_lt c l r

theorem free_blocks (T : PfxTable) : pfxBlocks T.free = 0 := by
  unfold PfxTable.free
  simp only
  rw [pfxBlocks_notifyAll]
  obtain ⟨h1, _, _, _⟩ := notifyAll_spec false ((freeLog T.v4).map fun (ad, ln, e) => mkRec false ad ln e) { T with v4 := .nil }
  simp only [pfxBlocks, h1]
  rfl

theorem freeF_net (a : A) (T : PfxTable) :
    net (freeF a T).1.trace = net a.trace - pfxBlocks T ∧ pfxBlocks (freeF a T).2 = 0 ∧
    (freeF a T).1.budget = a.budget ∧ refusals (freeF a T).1.trace = refusals a.trace := by
  have h1 := run_ok (freeActs T.v4) a
  have h2 := run_ok (freeActs T.t6) (a.run (freeActs T.v4))
  obtain ⟨f4, s4⟩ := freeActs_frees T.v4
  obtain ⟨f6, s6⟩ := freeActs_frees T.t6
  refine ⟨?_, free_blocks T, ?_, ?_⟩
  · show net ((a.run (freeActs T.v4)).run (freeActs T.t6)).trace = _
    rw [h2.net, h1.net, f4, f6]; simp [pfxBlocks]; omega
  · show ((a.run (freeActs T.v4)).run (freeActs T.t6)).budget = _
    have p1 := h1.pass (by rw [s4]; exact hits_zero _)
    have p2 := h2.pass (by rw [s6]; exact hits_zero _)
    rw [p2.1, s6, after_zero, p1.1, s4, after_zero]
  · show refusals ((a.run (freeActs T.v4)).run (freeActs T.t6)).trace = _
    have p1 := h1.pass (by rw [s4]; exact hits_zero _)
    have p2 := h2.pass (by rw [s6]; exact hits_zero _)
    rw [p2.2, p1.2]

/-! ### pfx_table_validate_r -/

/-- the reason array grown node by node: passes with all `cs.length` requests granted, or is hit
    and then nothing stays allocated -/
structure ReasonOK (a : A) (acc : Nat) (cs : List NodeC) (q : Bool × A) : Prop where
  pass : ¬ a.hits cs.length → q.1 = true ∧ q.2.budget = a.after cs.length ∧ refusals q.2.trace = refusals a.trace
  hit : a.hits cs.length → q.1 = false ∧ q.2.budget = none ∧ refusals q.2.trace = refusals a.trace + 1
  nolibc : NoLibc a.trace → NoLibc q.2.trace

def total (acc : Nat) (cs : List NodeC) : Nat := acc + (cs.map fun c => c.data.length).sum

theorem reasonReqs_ok : ∀ (cs : List NodeC) (a : A) (acc : Nat), ReasonOK a acc cs (reasonReqs a acc cs) := by
  intro cs
  induction cs with
  | nil =>
    intro a acc
    exact ⟨fun _ => ⟨rfl, by simp [reasonReqs, after_zero], rfl⟩, fun h => absurd h (hits_zero a), fun h => h⟩
  | cons c cs ih =>
    intro a acc
    have q := realloc_ok a .reason acc (acc + c.data.length)
    unfold reasonReqs
    simp only
    by_cases h1 : a.hits 1
    · obtain ⟨hq, hb, hr, _⟩ := q.hit h1
      simp only [hq, Bool.false_eq_true, if_false]
      refine ⟨fun h => absurd (hits_mono h1 (by simp)) h, fun _ => ⟨rfl, by simp [hb], by simp [hr]⟩,
        fun h => freeIf_noLibc (q.nolibc h) _ _⟩
    · obtain ⟨hq, hb, hr, _⟩ := q.pass h1
      simp only [hq, if_true]
      have r := ih (a.realloc .reason acc (acc + c.data.length)).2 (acc + c.data.length)
      have hh := hits_after hb h1 cs.length
      refine ⟨fun h => ?_, fun h => ?_, fun h => r.nolibc (q.nolibc h)⟩
      · have nh : ¬ (a.realloc .reason acc (acc + c.data.length)).2.hits cs.length := by
          rw [hh]; simpa [Nat.add_comm] using h
        obtain ⟨p1, p2, p3⟩ := r.pass nh
        exact ⟨p1, by rw [p2, after_after a _ 1 _ hb]; simp [Nat.add_comm], by rw [p3, hr]⟩
      · have yh : (a.realloc .reason acc (acc + c.data.length)).2.hits cs.length := by
          rw [hh]; simpa [Nat.add_comm] using h
        obtain ⟨p1, p2, p3⟩ := r.hit yh
        exact ⟨p1, p2, by rw [p3, hr]⟩

/-- block accounting of the reason array: granted → the caller owns one block iff records were
    collected; refused → nothing stays allocated (F16d) -/
theorem reasonReqs_net : ∀ (cs : List NodeC) (a : A) (acc : Nat), (∀ c ∈ cs, c.data ≠ []) →
    net (reasonReqs a acc cs).2.trace = net a.trace +
      (if (reasonReqs a acc cs).1 then (if total acc cs = 0 then 0 else 1) - (if acc = 0 then 0 else 1 : Int)
       else - (if acc = 0 then 0 else 1 : Int)) := by
  intro cs
  induction cs with
  | nil => intro a acc _; simp [reasonReqs, total]
  | cons c cs ih =>
    intro a acc hne
    have hc : c.data.length ≠ 0 := by
      have := hne c (by simp); intro h0; exact this (List.eq_nil_of_length_eq_zero h0)
    have q := realloc_ok a .reason acc (acc + c.data.length)
    unfold reasonReqs
    simp only
    by_cases h1 : a.hits 1
    · obtain ⟨hq, _, _, hn⟩ := q.hit h1
      simp only [hq, Bool.false_eq_true, if_false]
      rw [freeIf_net, hn]
      by_cases ha : acc = 0 <;> simp [ha] <;> omega
    · obtain ⟨hq, _, _, hn⟩ := q.pass h1
      simp only [hq, if_true]
      rw [ih _ _ (fun x hx => hne x (by simp [hx])), hn]
      have ht : total (acc + c.data.length) cs = total acc (c :: cs) := by
        unfold total; simp only [List.map_cons, List.sum_cons]; omega
      rw [ht]
      have hnz : acc + c.data.length ≠ 0 := by omega
      have htz : total acc (c :: cs) ≠ 0 := by
        unfold total; simp only [List.map_cons, List.sum_cons]; omega
      simp only [hnz, htz, if_false]
      by_cases ha : acc = 0 <;> simp only [ha, if_true, if_false] <;> split <;> omega

end Alloc
end Rtr
