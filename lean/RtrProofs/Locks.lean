/-
  Locks: invariants of the interleaving semantics (`RtrModel/Locks.lean`) and the generic
  theorems of C16: race freedom of guarded threads, and the snapshot property of critical
  sections (the abstract value of a table changes only inside write critical sections).
  Proved once, for any number of threads running any paths.
-/
import RtrModel.Locks

namespace Rtr.Locks

/-! ### lock sets -/

theorem holds_iff {h : Held} {l : Nat} : holds h l = true ↔ ∃ m, (l, m) ∈ h := by
  simp only [holds, List.any_eq_true, beq_iff_eq]
  constructor
  · rintro ⟨⟨l', m⟩, hm, rfl⟩; exact ⟨m, hm⟩
  · rintro ⟨m, hm⟩; exact ⟨(l, m), hm, rfl⟩

theorem holdsW_iff {h : Held} {l : Nat} : holdsW h l = true ↔ (l, Mode.W) ∈ h := by
  simp only [holdsW, List.any_eq_true, Bool.and_eq_true, beq_iff_eq]
  constructor
  · rintro ⟨⟨l', m⟩, hm, rfl, rfl⟩; exact hm
  · intro hm; exact ⟨(l, Mode.W), hm, rfl, rfl⟩

theorem mem_filter_ne {h : Held} {l l' : Nat} {m : Mode} :
    (l', m) ∈ h.filter (fun e => e.1 != l) ↔ (l', m) ∈ h ∧ l' ≠ l := by
  simp [List.mem_filter]

/-- no lock name occurs twice in a lock set -/
def NodupNames (h : Held) : Prop := (h.map (·.1)).Nodup

theorem NodupNames.cons {h : Held} {l : Nat} {m : Mode} (hn : NodupNames h) (hl : holds h l = false) :
    NodupNames ((l, m) :: h) := by
  unfold NodupNames at *
  simp only [List.map_cons, List.nodup_cons]
  refine ⟨?_, hn⟩
  intro hmem
  rw [List.mem_map] at hmem
  obtain ⟨⟨l', m'⟩, hm, rfl⟩ := hmem
  have : holds h l' = true := holds_iff.mpr ⟨m', hm⟩
  simp [this] at hl

theorem NodupNames.filter {h : Held} (l : Nat) (hn : NodupNames h) :
    NodupNames (h.filter (fun e => e.1 != l)) := by
  unfold NodupNames at *
  exact List.Nodup.sublist (List.Sublist.map _ List.filter_sublist) hn

theorem NodupNames.mode_unique {h : Held} (hn : NodupNames h) {l : Nat} {m₁ m₂ : Mode}
    (h₁ : (l, m₁) ∈ h) (h₂ : (l, m₂) ∈ h) : m₁ = m₂ := by
  induction h with
  | nil => simp at h₁
  | cons a t ih =>
    unfold NodupNames at hn
    simp only [List.map_cons, List.nodup_cons, List.mem_map] at hn
    obtain ⟨hna, hnt⟩ := hn
    rcases List.mem_cons.mp h₁ with e₁ | e₁ <;> rcases List.mem_cons.mp h₂ with e₂ | e₂
    · rw [← e₁] at e₂; exact (Prod.mk.inj e₂).2.symm ▸ rfl
    · exact absurd ⟨(l, m₂), e₂, by rw [← e₁]⟩ hna
    · exact absurd ⟨(l, m₁), e₁, by rw [← e₂]⟩ hna
    · exact ih hnt e₁ e₂

/-! ### the invariant -/

/-- consistency of the ghost lock sets with the lock state, rwlock exclusion, and guardedness
    of what every thread still has to run (`σ i` = strictness of thread `i`) -/
structure Inv (σ : Nat → Bool) (s : Sys) : Prop where
  guarded : ∀ i, (runHeld (σ i) (s.thr i).held (s.thr i).rest).isSome = true
  nodup : ∀ i, NodupNames (s.thr i).held
  wIff : ∀ i l, (l, Mode.W) ∈ (s.thr i).held ↔ s.writer l = some i
  rIff : ∀ i l, (l, Mode.R) ∈ (s.thr i).held ↔ i ∈ s.readers l
  excl : ∀ l i, s.writer l = some i → s.readers l = []
  rNodup : ∀ l, (s.readers l).Nodup

theorem inv_init {σ : Nat → Bool} {store : Loc → Nat} {paths : Nat → List Ev}
    (hg : ∀ i, Guarded (σ i) (paths i)) : Inv σ (init store paths) where
  guarded := fun i => hg i
  nodup := fun _ => by simp [init, NodupNames]
  wIff := fun _ _ => by simp [init]
  rIff := fun _ _ => by simp [init]
  excl := fun _ _ h => by simp [init] at h
  rNodup := fun _ => by simp [init]

theorem upd_same {α β : Type} [DecidableEq α] (f : α → β) (a : α) (b : β) : upd f a b a = b := by
  simp [upd]

theorem upd_other {α β : Type} [DecidableEq α] (f : α → β) (a : α) (b : β) {x : α} (h : x ≠ a) :
    upd f a b x = f x := by
  simp [upd, h]

/-- what a step does to the thread table -/
theorem fire_thr {s s' : Sys} {i : Nat} (hf : fire s i = some s') :
    ∃ e r, (s.thr i).rest = e :: r ∧ enabled s i e = true ∧ s' = apply s i e r := by
  unfold fire at hf
  split at hf
  · simp at hf
  · rename_i e r hr
    split at hf
    · rename_i hen
      simp only [Option.some.injEq] at hf
      exact ⟨e, r, hr, hen, hf.symm⟩
    · simp at hf

theorem apply_thr_same (s : Sys) (i : Nat) (e : Ev) (r : List Ev) :
    (apply s i e r).thr i = ⟨updHeld (s.thr i).held e, r⟩ := by
  unfold apply
  cases e with
  | acq m l => cases m <;> simp [upd]
  | rel l => simp only; split <;> simp [upd]
  | rd x => simp [upd]
  | wr x v => simp [upd]
  | bad => simp [upd]

theorem apply_thr_other (s : Sys) (i : Nat) (e : Ev) (r : List Ev) {j : Nat} (h : j ≠ i) :
    (apply s i e r).thr j = s.thr j := by
  unfold apply
  cases e with
  | acq m l => cases m <;> simp [upd, h]
  | rel l => simp only; split <;> simp [upd, h]
  | rd x => simp [upd, h]
  | wr x v => simp [upd, h]
  | bad => simp [upd, h]

theorem runHeld_cons_some {strict : Bool} {h : Held} {e : Ev} {r : List Ev}
    (hg : (runHeld strict h (e :: r)).isSome = true) :
    okEv strict h e = true ∧ (runHeld strict (updHeld h e) r).isSome = true := by
  simp only [runHeld] at hg
  split at hg
  · rename_i hok; exact ⟨hok, hg⟩
  · simp at hg

/-- the invariant is preserved by every step -/
theorem inv_step {σ : Nat → Bool} {s s' : Sys} {i : Nat} (hI : Inv σ s) (hf : fire s i = some s') : Inv σ s' := by
  obtain ⟨e, r, hr, hen, rfl⟩ := fire_thr hf
  have hgi := hI.guarded i
  rw [hr] at hgi
  obtain ⟨hok, hgr⟩ := runHeld_cons_some hgi
  have hguard : ∀ j, (runHeld (σ j) ((apply s i e r).thr j).held ((apply s i e r).thr j).rest).isSome = true := by
    intro j
    by_cases hj : j = i
    · subst hj; rw [apply_thr_same]; exact hgr
    · rw [apply_thr_other s i e r hj]; exact hI.guarded j
  cases e with
  | acq m l =>
    have hnl : holds (s.thr i).held l = false := by simpa [okEv] using hok
    have hnoW : (l, Mode.W) ∉ (s.thr i).held := fun hm => by
      have := holds_iff.mpr ⟨_, hm⟩; simp [this] at hnl
    have hnoR : (l, Mode.R) ∉ (s.thr i).held := fun hm => by
      have := holds_iff.mpr ⟨_, hm⟩; simp [this] at hnl
    cases m with
    | W =>
      have hw : s.writer l = none := by
        simp only [enabled, Bool.and_eq_true, Option.isNone_iff_eq_none] at hen; exact hen.1
      have hrd : s.readers l = [] := by
        simp only [enabled, Bool.and_eq_true, List.isEmpty_iff] at hen; exact hen.2
      refine ⟨hguard, ?_, ?_, ?_, ?_, ?_⟩
      · intro j
        by_cases hj : j = i
        · subst hj; rw [apply_thr_same]; exact (hI.nodup j).cons hnl
        · rw [apply_thr_other s i _ r hj]; exact hI.nodup j
      · intro j l'
        by_cases hj : j = i
        · subst hj
          rw [apply_thr_same]
          simp only [updHeld, apply, List.mem_cons, Prod.mk.injEq, and_true]
          by_cases hl : l' = l
          · subst hl; simp [upd]
          · simp only [hl, false_or, upd, if_false]; exact hI.wIff j l'
        · rw [apply_thr_other s i _ r hj]
          simp only [apply]
          by_cases hl : l' = l
          · subst hl
            simp only [upd, if_true, Option.some.injEq]
            constructor
            · intro hm; rw [(hI.wIff j l').mp hm] at hw; simp at hw
            · intro h; exact absurd h.symm hj
          · simp only [upd, hl, if_false]; exact hI.wIff j l'
      · intro j l'
        by_cases hj : j = i
        · subst hj
          rw [apply_thr_same]
          simp only [updHeld, apply, List.mem_cons, Prod.mk.injEq]
          constructor
          · rintro (⟨_, h⟩ | h)
            · cases h
            · exact (hI.rIff j l').mp h
          · intro h; exact Or.inr ((hI.rIff j l').mpr h)
        · rw [apply_thr_other s i _ r hj]; exact hI.rIff j l'
      · intro l' k hk
        simp only [apply] at hk ⊢
        by_cases hl : l' = l
        · subst hl; exact hrd
        · simp only [upd, hl, if_false] at hk; exact hI.excl l' k hk
      · intro l'; exact hI.rNodup l'
    | R =>
      have hw : s.writer l = none := by
        simp only [enabled, Option.isNone_iff_eq_none] at hen; exact hen
      refine ⟨hguard, ?_, ?_, ?_, ?_, ?_⟩
      · intro j
        by_cases hj : j = i
        · subst hj; rw [apply_thr_same]; exact (hI.nodup j).cons hnl
        · rw [apply_thr_other s i _ r hj]; exact hI.nodup j
      · intro j l'
        by_cases hj : j = i
        · subst hj
          rw [apply_thr_same]
          simp only [updHeld, apply, List.mem_cons, Prod.mk.injEq]
          constructor
          · rintro (⟨_, h⟩ | h)
            · cases h
            · exact (hI.wIff j l').mp h
          · intro h; exact Or.inr ((hI.wIff j l').mpr h)
        · rw [apply_thr_other s i _ r hj]; exact hI.wIff j l'
      · intro j l'
        by_cases hj : j = i
        · subst hj
          rw [apply_thr_same]
          simp only [updHeld, apply, List.mem_cons, Prod.mk.injEq, and_true]
          by_cases hl : l' = l
          · subst hl; simp [upd]
          · simp only [hl, false_or, upd, if_false]; exact hI.rIff j l'
        · rw [apply_thr_other s i _ r hj]
          simp only [apply]
          by_cases hl : l' = l
          · subst hl
            simp only [upd, if_true, List.mem_cons, hj, false_or]
            exact hI.rIff j l'
          · simp only [upd, hl, if_false]; exact hI.rIff j l'
      · intro l' k hk
        simp only [apply] at hk ⊢
        by_cases hl : l' = l
        · subst hl; rw [hw] at hk; simp at hk
        · simp only [upd, hl, if_false]; exact hI.excl l' k hk
      · intro l'
        simp only [apply]
        by_cases hl : l' = l
        · subst hl
          simp only [upd, if_true, List.nodup_cons]
          exact ⟨fun hm => hnoR ((hI.rIff i l').mpr hm), hI.rNodup l'⟩
        · simp only [upd, hl, if_false]; exact hI.rNodup l'
  | rel l =>
    have hhl : holds (s.thr i).held l = true := by simpa [okEv] using hok
    obtain ⟨m, hm⟩ := holds_iff.mp hhl
    by_cases hwi : s.writer l = some i
    · -- releasing a write lock
      have hrd : s.readers l = [] := hI.excl l i hwi
      have happ : apply s i (.rel l) r =
          { s with writer := upd s.writer l none,
                   thr := upd s.thr i ⟨updHeld (s.thr i).held (.rel l), r⟩ } := by
        simp [apply, hwi]
      refine ⟨hguard, ?_, ?_, ?_, ?_, ?_⟩
      · intro j
        by_cases hj : j = i
        · subst hj; rw [apply_thr_same]; exact (hI.nodup j).filter l
        · rw [apply_thr_other s i _ r hj]; exact hI.nodup j
      · intro j l'
        by_cases hj : j = i
        · subst hj
          rw [apply_thr_same, happ]
          simp only [updHeld, mem_filter_ne]
          by_cases hl : l' = l
          · subst hl; simp [upd]
          · simp only [hl, ne_eq, not_false_eq_true, and_true, upd, if_false]; exact hI.wIff j l'
        · rw [apply_thr_other s i _ r hj, happ]
          by_cases hl : l' = l
          · subst hl
            simp only [upd, if_true]
            constructor
            · intro hmj
              have := (hI.wIff j l').mp hmj
              rw [hwi] at this
              exact absurd (Option.some.inj this).symm hj
            · intro h; simp at h
          · simp only [upd, hl, if_false]; exact hI.wIff j l'
      · intro j l'
        by_cases hj : j = i
        · subst hj
          rw [apply_thr_same, happ]
          simp only [updHeld, mem_filter_ne]
          by_cases hl : l' = l
          · subst hl; simp [hrd]
          · simp only [hl, ne_eq, not_false_eq_true, and_true]; exact hI.rIff j l'
        · rw [apply_thr_other s i _ r hj, happ]; exact hI.rIff j l'
      · intro l' k hk
        rw [happ] at hk ⊢
        by_cases hl : l' = l
        · subst hl; simp [upd] at hk
        · simp only [upd, hl, if_false] at hk; exact hI.excl l' k hk
      · intro l'; rw [happ]; exact hI.rNodup l'
    · -- releasing a read lock
      have hnoW : (l, Mode.W) ∉ (s.thr i).held := fun h => hwi ((hI.wIff i l).mp h)
      have hR : (l, Mode.R) ∈ (s.thr i).held := by
        cases m with
        | R => exact hm
        | W => exact absurd hm hnoW
      have happ : apply s i (.rel l) r =
          { s with readers := upd s.readers l ((s.readers l).erase i),
                   thr := upd s.thr i ⟨updHeld (s.thr i).held (.rel l), r⟩ } := by
        simp [apply, hwi]
      refine ⟨hguard, ?_, ?_, ?_, ?_, ?_⟩
      · intro j
        by_cases hj : j = i
        · subst hj; rw [apply_thr_same]; exact (hI.nodup j).filter l
        · rw [apply_thr_other s i _ r hj]; exact hI.nodup j
      · intro j l'
        by_cases hj : j = i
        · subst hj
          rw [apply_thr_same, happ]
          simp only [updHeld, mem_filter_ne]
          by_cases hl : l' = l
          · subst hl
            simp only [ne_eq, not_true_eq_false, and_false, false_iff]
            exact hwi
          · simp only [hl, ne_eq, not_false_eq_true, and_true]; exact hI.wIff j l'
        · rw [apply_thr_other s i _ r hj, happ]; exact hI.wIff j l'
      · intro j l'
        by_cases hj : j = i
        · subst hj
          rw [apply_thr_same, happ]
          simp only [updHeld, mem_filter_ne]
          by_cases hl : l' = l
          · subst hl
            simp only [ne_eq, not_true_eq_false, and_false, upd, if_true, false_iff]
            rw [(hI.rNodup l').mem_erase_iff]
            simp
          · simp only [hl, ne_eq, not_false_eq_true, and_true, upd, if_false]; exact hI.rIff j l'
        · rw [apply_thr_other s i _ r hj, happ]
          by_cases hl : l' = l
          · subst hl
            simp only [upd, if_true]
            rw [(hI.rNodup l').mem_erase_iff]
            simp only [ne_eq, hj, not_false_eq_true, true_and]
            exact hI.rIff j l'
          · simp only [upd, hl, if_false]; exact hI.rIff j l'
      · intro l' k hk
        rw [happ] at hk ⊢
        by_cases hl : l' = l
        · subst hl
          simp only [upd, if_true]
          rw [hI.excl l' k hk]; rfl
        · simp only [upd, hl, if_false]; exact hI.excl l' k hk
      · intro l'
        rw [happ]
        by_cases hl : l' = l
        · subst hl; simp only [upd, if_true]; exact (hI.rNodup l').erase i
        · simp only [upd, hl, if_false]; exact hI.rNodup l'
  | rd x =>
    refine ⟨hguard, ?_, ?_, ?_, ?_, ?_⟩
    · intro j
      by_cases hj : j = i
      · subst hj; rw [apply_thr_same]; exact hI.nodup j
      · rw [apply_thr_other s i _ r hj]; exact hI.nodup j
    · intro j l'
      by_cases hj : j = i
      · subst hj; rw [apply_thr_same]; exact hI.wIff j l'
      · rw [apply_thr_other s i _ r hj]; exact hI.wIff j l'
    · intro j l'
      by_cases hj : j = i
      · subst hj; rw [apply_thr_same]; exact hI.rIff j l'
      · rw [apply_thr_other s i _ r hj]; exact hI.rIff j l'
    · exact hI.excl
    · exact hI.rNodup
  | wr x v =>
    refine ⟨hguard, ?_, ?_, ?_, ?_, ?_⟩
    · intro j
      by_cases hj : j = i
      · subst hj; rw [apply_thr_same]; exact hI.nodup j
      · rw [apply_thr_other s i _ r hj]; exact hI.nodup j
    · intro j l'
      by_cases hj : j = i
      · subst hj; rw [apply_thr_same]; exact hI.wIff j l'
      · rw [apply_thr_other s i _ r hj]; exact hI.wIff j l'
    · intro j l'
      by_cases hj : j = i
      · subst hj; rw [apply_thr_same]; exact hI.rIff j l'
      · rw [apply_thr_other s i _ r hj]; exact hI.rIff j l'
    · exact hI.excl
    · exact hI.rNodup
  | bad => simp [okEv] at hok

theorem inv_steps {σ : Nat → Bool} {s s' : Sys} (hI : Inv σ s) (hs : Steps s s') : Inv σ s' := by
  induction hs with
  | refl => exact hI
  | tail _ hst ih => obtain ⟨i, hf⟩ := hst; exact inv_step ih hf

theorem inv_reach {σ : Nat → Bool} {store : Loc → Nat} {paths : Nat → List Ev}
    (hg : ∀ i, Guarded (σ i) (paths i)) {s : Sys} (hr : Reach store paths s) : Inv σ s :=
  inv_steps (inv_init hg) hr

/-! ### consequences of the invariant -/

/-- the next event of every thread respects the discipline -/
theorem Inv.next_ok {σ : Nat → Bool} {s : Sys} (hI : Inv σ s) {i : Nat} {e : Ev} (hn : next s i = some e) :
    okEv (σ i) (s.thr i).held e = true := by
  unfold next at hn
  have hg := hI.guarded i
  cases hr : (s.thr i).rest with
  | nil => rw [hr] at hn; simp at hn
  | cons e' r =>
    rw [hr] at hn hg
    simp only [List.head?_cons, Option.some.injEq] at hn
    subst hn
    exact (runHeld_cons_some hg).1

/-- rwlock exclusion: a write holder is alone -/
theorem Inv.writer_alone {σ : Nat → Bool} {s : Sys} (hI : Inv σ s) {i j : Nat} {l : Nat} {m : Mode}
    (hw : (l, Mode.W) ∈ (s.thr i).held) (hj : (l, m) ∈ (s.thr j).held) : i = j := by
  have hwi := (hI.wIff i l).mp hw
  cases m with
  | W =>
    have := (hI.wIff j l).mp hj
    rw [hwi] at this
    exact Option.some.inj this
  | R =>
    have := (hI.rIff j l).mp hj
    rw [hI.excl l i hwi] at this
    simp at this

/-- no race in a state satisfying the invariant when a write's partner is a strict thread -/
theorem Inv.no_conflict {σ : Nat → Bool} {s : Sys} (hI : Inv σ s) {i j : Nat} {e₁ e₂ : Ev}
    (hij : i ≠ j) (h₁ : next s i = some e₁) (h₂ : next s j = some e₂)
    (hsi : (∃ x, e₁ = .rd x) → σ i = true) (hsj : (∃ x, e₂ = .rd x) → σ j = true) :
    conflict e₁ e₂ = false := by
  have ok₁ := hI.next_ok h₁
  have ok₂ := hI.next_ok h₂
  cases e₁ with
  | wr x v =>
    have hw₁ : (x.tbl, Mode.W) ∈ (s.thr i).held := holdsW_iff.mp (by simpa [okEv] using ok₁)
    cases e₂ with
    | wr y w =>
      have hw₂ : (y.tbl, Mode.W) ∈ (s.thr j).held := holdsW_iff.mp (by simpa [okEv] using ok₂)
      by_cases hxy : x = y
      · subst hxy; exact absurd (hI.writer_alone hw₁ hw₂) hij
      · simp [conflict, hxy]
    | rd y =>
      have hs := hsj ⟨y, rfl⟩
      have hh : holds (s.thr j).held y.tbl = true := by simpa [okEv, hs] using ok₂
      obtain ⟨m, hm⟩ := holds_iff.mp hh
      by_cases hxy : x = y
      · subst hxy; exact absurd (hI.writer_alone hw₁ hm) hij
      · simp [conflict, hxy]
    | acq _ _ => rfl
    | rel _ => rfl
    | bad => rfl
  | rd x =>
    cases e₂ with
    | wr y w =>
      have hw₂ : (y.tbl, Mode.W) ∈ (s.thr j).held := holdsW_iff.mp (by simpa [okEv] using ok₂)
      have hs := hsi ⟨x, rfl⟩
      have hh : holds (s.thr i).held x.tbl = true := by simpa [okEv, hs] using ok₁
      obtain ⟨m, hm⟩ := holds_iff.mp hh
      by_cases hxy : x = y
      · subst hxy; exact absurd (hI.writer_alone hw₂ hm).symm hij
      · simp [conflict, hxy]
    | rd _ => rfl
    | acq _ _ => rfl
    | rel _ => rfl
    | bad => rfl
  | acq _ _ => rfl
  | rel _ => rfl
  | bad => rfl

/-- **guarded_no_race.** If every access of every thread is guarded (reads under R or W of the
    location's lock, writes under W), then in every reachable state of every interleaving no two
    conflicting accesses of different threads are simultaneously enabled.  Any number of
    threads, any paths. -/
theorem guarded_no_race {store : Loc → Nat} {paths : Nat → List Ev}
    (hg : ∀ i, Guarded true (paths i)) {s : Sys} (hr : Reach store paths s) : ¬ Race s := by
  have hI : Inv (fun _ => true) s := inv_reach hg hr
  rintro ⟨i, j, e₁, e₂, hij, h₁, h₂, hc⟩
  have := hI.no_conflict hij h₁ h₂ (fun _ => rfl) (fun _ => rfl)
  rw [this] at hc
  exact Bool.false_ne_true hc

/-! ### the store changes only under the write lock -/

theorem apply_store_rd (s : Sys) (i : Nat) (e : Ev) (r : List Ev) (h : ∀ x v, e ≠ .wr x v) :
    (apply s i e r).store = s.store := by
  unfold apply
  cases e with
  | acq m l => cases m <;> rfl
  | rel l => simp only; split <;> rfl
  | rd x => rfl
  | wr x v => exact absurd rfl (h x v)
  | bad => rfl

/-- **writes_under_W.** A step that changes the abstract value of table `l` is a step of the
    thread that holds `l`'s write lock. -/
theorem abs_changes_only_under_W {σ : Nat → Bool} {s s' : Sys} {i : Nat} (hI : Inv σ s)
    (hf : fire s i = some s') {l : Nat} (hne : abs s' l ≠ abs s l) : s.writer l = some i := by
  obtain ⟨e, r, hr, _, rfl⟩ := fire_thr hf
  have hn : next s i = some e := by simp [next, hr]
  have hok := hI.next_ok hn
  cases e with
  | wr x v =>
    have hw : (x.tbl, Mode.W) ∈ (s.thr i).held := holdsW_iff.mp (by simpa [okEv] using hok)
    by_cases hx : x.tbl = l
    · subst hx; exact (hI.wIff i _).mp hw
    · exfalso
      apply hne
      funext p
      simp only [abs, apply, upd]
      split
      · rename_i heq; rw [← heq] at hx; exact absurd rfl hx
      · rfl
  | acq m l' => exfalso; apply hne; unfold abs; rw [apply_store_rd _ _ _ _ (by intro _ _ h; cases h)]
  | rel l' => exfalso; apply hne; unfold abs; rw [apply_store_rd _ _ _ _ (by intro _ _ h; cases h)]
  | rd x => exfalso; apply hne; unfold abs; rw [apply_store_rd _ _ _ _ (by intro _ _ h; cases h)]
  | bad => exfalso; apply hne; unfold abs; rw [apply_store_rd _ _ _ _ (by intro _ _ h; cases h)]

/-- while some thread holds the read lock of `l`, no step changes the abstract value of `l` -/
theorem abs_frozen_under_R {σ : Nat → Bool} {s s' : Sys} {i j : Nat} (hI : Inv σ s)
    (hf : fire s i = some s') {l : Nat} (hj : j ∈ s.readers l) : abs s' l = abs s l := by
  by_cases h : abs s' l = abs s l
  · exact h
  · have hw := abs_changes_only_under_W hI hf h
    rw [hI.excl l i hw] at hj
    simp at hj

/-- while thread `j` holds the write lock of `l`, only `j` changes the abstract value of `l` -/
theorem abs_frozen_under_W {σ : Nat → Bool} {s s' : Sys} {i j : Nat} (hI : Inv σ s)
    (hf : fire s i = some s') {l : Nat} (hj : s.writer l = some j) (hij : i ≠ j) : abs s' l = abs s l := by
  by_cases h : abs s' l = abs s l
  · exact h
  · have hw := abs_changes_only_under_W hI hf h
    rw [hj] at hw
    exact absurd (Option.some.inj hw).symm hij

/-- a run during which `P` holds in every state before a step -/
inductive StepsWhile (P : Sys → Prop) : Sys → Sys → Prop where
  | refl (s) : StepsWhile P s s
  | tail {s t u} : StepsWhile P s t → P t → Step t u → StepsWhile P s u

theorem StepsWhile.steps {P : Sys → Prop} {s s' : Sys} (h : StepsWhile P s s') : Steps s s' := by
  induction h with
  | refl => exact .refl _
  | tail _ _ hst ih => exact .tail ih hst

/-- **read_section_snapshot.** From the moment thread `j` holds the read lock of table `l`, for
    as long as it keeps holding it (whatever all threads do meanwhile), the abstract value of `l`
    is the one at the beginning — in particular the one right after `j`'s acquisition, an instant
    between the call and the return of the reading function. -/
theorem read_section_snapshot {σ : Nat → Bool} {s s' : Sys} {j l : Nat} (hI : Inv σ s)
    (hrun : StepsWhile (fun t => j ∈ t.readers l) s s') : abs s' l = abs s l := by
  induction hrun with
  | refl => rfl
  | tail hpre hP hst ih =>
    obtain ⟨i, hf⟩ := hst
    rw [← ih]
    exact abs_frozen_under_R (inv_steps hI hpre.steps) hf hP

/-- every read performed inside that section returns the snapshot's value -/
theorem read_observes_snapshot {σ : Nat → Bool} {s s' : Sys} {j l : Nat} (hI : Inv σ s)
    (hrun : StepsWhile (fun t => j ∈ t.readers l) s s') {k : Nat} {x : Loc} {v : Nat} (hx : x.tbl = l)
    (hobs : observes s' k = some (x, v)) : v = abs s l x.part := by
  have hsnap := read_section_snapshot hI hrun
  unfold observes at hobs
  split at hobs
  · rename_i y _
    simp only [Option.some.injEq, Prod.mk.injEq] at hobs
    obtain ⟨rfl, rfl⟩ := hobs
    subst hx
    have := congrFun hsnap y.part
    simpa [abs] using this
  · simp at hobs

/-! ### single writer: its own unguarded reads are harmless -/

theorem countAcq_cons (sel : Mode → Nat → Bool) (e : Ev) (π : List Ev) :
    countAcq sel (e :: π) = countAcq sel π + (if isAcq sel e then 1 else 0) := by
  simp [countAcq, List.countP_cons]

/-- a thread that holds no write lock and has no write acquisition ahead -/
def ReadOnly (s : Sys) (j : Nat) : Prop :=
  (∀ l, (l, Mode.W) ∉ (s.thr j).held) ∧ countAcq anyW (s.thr j).rest = 0

theorem readOnly_step {s s' : Sys} {i j : Nat} (hro : ReadOnly s j) (hf : fire s i = some s') : ReadOnly s' j := by
  obtain ⟨e, r, hr, _, rfl⟩ := fire_thr hf
  by_cases hj : j = i
  · subst hj
    obtain ⟨hnw, hc⟩ := hro
    rw [hr, countAcq_cons] at hc
    unfold ReadOnly
    rw [apply_thr_same]
    refine ⟨?_, by simp only; omega⟩
    intro l hm
    cases e with
    | acq m l' =>
      cases m with
      | W => simp [isAcq, anyW] at hc
      | R =>
        simp only [updHeld, List.mem_cons, Prod.mk.injEq] at hm
        rcases hm with ⟨_, h⟩ | h
        · cases h
        · exact hnw l h
    | rel l' => simp only [updHeld, mem_filter_ne] at hm; exact hnw l hm.1
    | rd x => exact hnw l hm
    | wr x v => exact hnw l hm
    | bad => exact hnw l hm
  · unfold ReadOnly; rw [apply_thr_other s i e r hj]; exact hro

theorem readOnly_steps {s s' : Sys} {j : Nat} (hro : ReadOnly s j) (hs : Steps s s') : ReadOnly s' j := by
  induction hs with
  | refl => exact hro
  | tail _ hst ih => obtain ⟨i, hf⟩ := hst; exact readOnly_step ih hf

/-- **single_writer_no_race.** One thread `w` whose *writes* are guarded (its reads need not be),
    all other threads strictly guarded and never write-acquiring: no data race in any reachable
    state.  (Covers the synchronising thread, whose `spki_table_notify_diff` walks the table
    lists without a lock.) -/
theorem single_writer_no_race {store : Loc → Nat} {paths : Nat → List Ev} (w : Nat)
    (hw : Guarded false (paths w)) (hg : ∀ j, j ≠ w → Guarded true (paths j))
    (hro : ∀ j, j ≠ w → countAcq anyW (paths j) = 0)
    {s : Sys} (hr : Reach store paths s) : ¬ Race s := by
  let σ : Nat → Bool := fun j => decide (j ≠ w)
  have hgσ : ∀ i, Guarded (σ i) (paths i) := by
    intro i
    by_cases hi : i = w
    · subst hi; simpa [σ] using hw
    · simpa [σ, hi] using hg i hi
  have hI : Inv σ s := inv_reach hgσ hr
  have hRO : ∀ j, j ≠ w → ReadOnly s j := fun j hj =>
    readOnly_steps (s := init store paths) ⟨by simp [init], by simpa [init] using hro j hj⟩ hr
  -- a thread other than `w` is never about to write
  have hnowr : ∀ j, j ≠ w → ∀ x v, next s j ≠ some (.wr x v) := by
    intro j hj x v hn
    have hok := hI.next_ok hn
    have : (x.tbl, Mode.W) ∈ (s.thr j).held := holdsW_iff.mp (by simpa [okEv] using hok)
    exact (hRO j hj).1 _ this
  rintro ⟨i, j, e₁, e₂, hij, h₁, h₂, hc⟩
  have hcf : conflict e₁ e₂ = false := by
    apply hI.no_conflict hij h₁ h₂
    · rintro ⟨x, rfl⟩
      -- e₁ is a read; if `i = w` its partner `j ≠ w` would have to write
      by_cases hi : i = w
      · exfalso
        have hjw : j ≠ w := fun h => hij (hi.trans h.symm)
        cases e₂ with
        | wr y v => exact hnowr j hjw y v h₂
        | rd _ => simp [conflict] at hc
        | acq _ _ => simp [conflict] at hc
        | rel _ => simp [conflict] at hc
        | bad => simp [conflict] at hc
      · simp [σ, hi]
    · rintro ⟨x, rfl⟩
      by_cases hj : j = w
      · exfalso
        have hiw : i ≠ w := fun h => hij (h.trans hj.symm)
        cases e₁ with
        | wr y v => exact hnowr i hiw y v h₁
        | rd _ => simp [conflict] at hc
        | acq _ _ => simp [conflict] at hc
        | rel _ => simp [conflict] at hc
        | bad => simp [conflict] at hc
      · simp [σ, hj]
  rw [hcf] at hc
  exact Bool.false_ne_true hc

end Rtr.Locks
