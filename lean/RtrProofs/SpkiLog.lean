/-
  SpkiLog: the stream of `update_fp` invocations of a router-key table is an exact change log:
  replaying it yields the table's contents, every reported addition was absent before and every
  reported removal was present before — for histories of add / remove / remove-by-source and the
  full-reload sequence of rtr_sync (shadow copy, updates, swap, notify_diff).
-/
import RtrProofs.SpkiRefine

namespace Rtr

/-- effect of one callback event on a set of records -/
def applyEv (S : SpkiRec → Prop) : Bool × SpkiRec → SpkiRec → Prop
  | (true, r) => fun x => x = r ∨ S x
  | (false, r) => fun x => x ≠ r ∧ S x

/-- replay of a callback stream from a set -/
def replayFrom (S : SpkiRec → Prop) (log : List (Bool × SpkiRec)) : SpkiRec → Prop := log.foldl applyEv S

/-- every event of the stream is a real change of the replayed set -/
def ExactFrom : (SpkiRec → Prop) → List (Bool × SpkiRec) → Prop
  | _, [] => True
  | S, (true, r) :: l => ¬ S r ∧ ExactFrom (applyEv S (true, r)) l
  | S, (false, r) :: l => S r ∧ ExactFrom (applyEv S (false, r)) l

def emptySet : SpkiRec → Prop := fun _ => False

theorem replayFrom_append (S : SpkiRec → Prop) (l1 l2 : List (Bool × SpkiRec)) :
    replayFrom S (l1 ++ l2) = replayFrom (replayFrom S l1) l2 := List.foldl_append

theorem replayFrom_cons (S : SpkiRec → Prop) (ev : Bool × SpkiRec) (l : List (Bool × SpkiRec)) :
    replayFrom S (ev :: l) = replayFrom (applyEv S ev) l := rfl

theorem applyEv_congr {S S' : SpkiRec → Prop} (h : ∀ x, S x ↔ S' x) (ev : Bool × SpkiRec) :
    ∀ x, applyEv S ev x ↔ applyEv S' ev x := by
  intro x
  rcases ev with ⟨a, r⟩
  cases a <;> simp [applyEv, h x]

theorem replayFrom_congr {S S' : SpkiRec → Prop} (h : ∀ x, S x ↔ S' x) (l : List (Bool × SpkiRec)) :
    ∀ x, replayFrom S l x ↔ replayFrom S' l x := by
  induction l generalizing S S' with
  | nil => exact h
  | cons ev l ih =>
    rw [replayFrom_cons, replayFrom_cons]
    exact ih (applyEv_congr h ev)

theorem exactFrom_congr {S S' : SpkiRec → Prop} (h : ∀ x, S x ↔ S' x) (l : List (Bool × SpkiRec)) :
    ExactFrom S l ↔ ExactFrom S' l := by
  induction l generalizing S S' with
  | nil => simp [ExactFrom]
  | cons ev l ih =>
    rcases ev with ⟨a, r⟩
    cases a
    · simp only [ExactFrom]; rw [h r, ih (applyEv_congr h (false, r))]
    · simp only [ExactFrom]; rw [h r, ih (applyEv_congr h (true, r))]

theorem exactFrom_append (S : SpkiRec → Prop) (l1 l2 : List (Bool × SpkiRec)) :
    ExactFrom S (l1 ++ l2) ↔ ExactFrom S l1 ∧ ExactFrom (replayFrom S l1) l2 := by
  induction l1 generalizing S with
  | nil => simp [ExactFrom, replayFrom]
  | cons ev l ih =>
    rcases ev with ⟨a, r⟩
    cases a
    · simp only [List.cons_append, ExactFrom, replayFrom_cons]; rw [ih]; exact and_assoc.symm
    · simp only [List.cons_append, ExactFrom, replayFrom_cons]; rw [ih]; exact and_assoc.symm

/-- a run of reported additions -/
theorem replay_adds (S : SpkiRec → Prop) (l : List SpkiRec) :
    ∀ x, replayFrom S (l.map fun e => (true, e)) x ↔ (S x ∨ x ∈ l) := by
  induction l generalizing S with
  | nil => simp [replayFrom]
  | cons e l ih =>
    intro x
    rw [List.map_cons, replayFrom_cons, ih]
    simp only [applyEv, List.mem_cons]
    constructor
    · rintro ((h | h) | h)
      · exact Or.inr (Or.inl h)
      · exact Or.inl h
      · exact Or.inr (Or.inr h)
    · rintro (h | h | h)
      · exact Or.inl (Or.inr h)
      · exact Or.inl (Or.inl h)
      · exact Or.inr h

theorem exact_adds (S : SpkiRec → Prop) (l : List SpkiRec) (hn : l.Nodup) (hs : ∀ e, e ∈ l → ¬ S e) :
    ExactFrom S (l.map fun e => (true, e)) := by
  induction l generalizing S with
  | nil => simp [ExactFrom]
  | cons e l ih =>
    obtain ⟨he, hl⟩ := List.nodup_cons.mp hn
    simp only [List.map_cons, ExactFrom]
    refine ⟨hs e (by simp), ih _ hl ?_⟩
    intro y hy
    simp only [applyEv]
    rintro (h | h)
    · subst h; exact he hy
    · exact hs y (by simp [hy]) h

/-- a run of reported removals -/
theorem replay_removes (S : SpkiRec → Prop) (l : List SpkiRec) :
    ∀ x, replayFrom S (l.map fun e => (false, e)) x ↔ (S x ∧ x ∉ l) := by
  induction l generalizing S with
  | nil => simp [replayFrom]
  | cons e l ih =>
    intro x
    rw [List.map_cons, replayFrom_cons, ih]
    simp only [applyEv, List.mem_cons, not_or]
    constructor
    · rintro ⟨⟨h1, h2⟩, h3⟩; exact ⟨h2, h1, h3⟩
    · rintro ⟨h2, h1, h3⟩; exact ⟨⟨h1, h2⟩, h3⟩

theorem exact_removes (S : SpkiRec → Prop) (l : List SpkiRec) (hn : l.Nodup) (hs : ∀ e, e ∈ l → S e) :
    ExactFrom S (l.map fun e => (false, e)) := by
  induction l generalizing S with
  | nil => simp [ExactFrom]
  | cons e l ih =>
    obtain ⟨he, hl⟩ := List.nodup_cons.mp hn
    simp only [List.map_cons, ExactFrom]
    refine ⟨hs e (by simp), ih _ hl ?_⟩
    intro y hy
    simp only [applyEv]
    exact ⟨fun h => he (h ▸ hy), hs y (by simp [hy])⟩

namespace SpkiTable

/-- invariant of a table with a callback: representation invariant + the callback stream is an
    exact change log whose replay is the contents -/
structure LInv (T : SpkiTable) : Prop where
  sinv : SInv T
  cb : T.hasCb = true
  replays : ∀ x, replayFrom emptySet T.log x ↔ x ∈ T.list
  exact : ExactFrom emptySet T.log

theorem linv_init : LInv (init true) :=
  ⟨sinv_init true, rfl, fun x => by simp [init, replayFrom, emptySet], by simp [init, ExactFrom]⟩

/-- extending the log by a run of removals of stored records -/
theorem linv_of_removes {T T' : SpkiTable} (iv : LInv T) (s' : SInv T') (cb' : T'.hasCb = true)
    (RL : List SpkiRec) (hn : RL.Nodup) (hsub : ∀ e, e ∈ RL → e ∈ T.list)
    (hlog : T'.log = T.log ++ RL.map fun e => (false, e))
    (hlist : ∀ x, x ∈ T'.list ↔ x ∈ T.list ∧ x ∉ RL) : LInv T' := by
  refine ⟨s', cb', fun x => ?_, ?_⟩
  · rw [hlog, replayFrom_append, replay_removes, iv.replays x, hlist x]
  · rw [hlog, exactFrom_append]
    exact ⟨iv.exact, exact_removes _ RL hn (fun e he => (iv.replays e).mpr (hsub e he))⟩

theorem add_linv {T : SpkiTable} (iv : LInv T) (r : SpkiRec) : LInv (T.add r).1 := by
  by_cases hr : r ∈ T.list
  · rw [add_dup iv.sinv r hr]; exact iv
  · obtain ⟨_, h2, h3, h4, h5⟩ := add_new_spec iv.sinv r hr
    rw [iv.cb] at h5
    refine ⟨h2, by rw [h4, iv.cb], fun x => ?_, ?_⟩
    · rw [h5, h3, replayFrom_append]
      have := replay_adds (replayFrom emptySet T.log) [r] x
      simp only [List.map_cons, List.map_nil] at this
      simp only [if_true]
      rw [this, iv.replays x]; simp
    · rw [h5, exactFrom_append]
      refine ⟨iv.exact, ?_⟩
      have := exact_adds (replayFrom emptySet T.log) [r] (by simp)
        (fun e he => by simp at he; subst he; rw [iv.replays]; exact hr)
      simpa using this

theorem remove_linv {T : SpkiTable} (iv : LInv T) (r : SpkiRec) : LInv (T.remove r).1 := by
  by_cases hr : r ∈ T.list
  · obtain ⟨_, h2, h3, h4, h5⟩ := remove_present_spec iv.sinv r hr
    rw [iv.cb] at h5
    apply linv_of_removes iv h2 (by rw [h4, iv.cb]) [r] (by simp) (by simpa using hr)
    · simpa using h5
    · intro x
      rw [h3, iv.sinv.nodup.mem_erase_iff]
      simp [and_comm]
  · rw [remove_absent iv.sinv r hr]; exact iv

theorem srcRemove_linv {T : SpkiTable} (iv : LInv T) (src : Nat) : LInv (T.srcRemove src).1 := by
  obtain ⟨_, h2, h3, h4, h5⟩ := srcRemove_spec iv.sinv src
  rw [iv.cb] at h5
  apply linv_of_removes iv h2 (by rw [h4, iv.cb]) (T.list.filter fun e => e.src == src)
    (iv.sinv.nodup.sublist List.filter_sublist) (fun e he => (List.mem_filter.mp he).1)
  · simpa using h5
  · intro x
    rw [h3 x, List.mem_filter]
    constructor
    · rintro ⟨a, b⟩; exact ⟨a, fun h => b (by simpa using h.2)⟩
    · rintro ⟨a, b⟩; exact ⟨a, fun h => b ⟨a, by simpa using h⟩⟩

/-- the updates rtr_sync applies to the shadow table: additions (`true`) and removals of
    records of the synchronising socket -/
def applyUpdates (src : Nat) (D : SpkiTable) (ups : List (Bool × SpkiRec)) : SpkiTable :=
  ups.foldl (fun D u => if u.1 then (D.add { u.2 with src := src }).1 else (D.remove { u.2 with src := src }).1) D

/-- the full-reload sequence of rtr_sync for socket `src` on table `T`: a callback-less shadow
    table receives a copy of `T` without the records of `src`, then the updates; the tables are
    swapped; `spki_table_notify_diff` reports the difference; (the shadow table is then freed) -/
def reload (T : SpkiTable) (src : Nat) (ups : List (Bool × SpkiRec)) : SpkiTable :=
  let sh := applyUpdates src (copyExcept T (init false) src).1 ups
  (notifyDiff (swap T sh).1 (swap T sh).2 src).1

theorem applyUpdates_spec (src : Nat) (ups : List (Bool × SpkiRec)) (D : SpkiTable) (iv : SInv D)
    (hcb : D.hasCb = false) :
    SInv (applyUpdates src D ups) ∧ (applyUpdates src D ups).hasCb = false ∧
    ∀ x, x.src ≠ src → (x ∈ (applyUpdates src D ups).list ↔ x ∈ D.list) := by
  induction ups generalizing D with
  | nil => exact ⟨iv, hcb, fun _ _ => Iff.rfl⟩
  | cons u ups ih =>
    rcases u with ⟨a, r⟩
    simp only [applyUpdates, List.foldl_cons]
    cases a
    · -- removal
      simp only [Bool.false_eq_true, if_false]
      by_cases hr : { r with src := src } ∈ D.list
      · obtain ⟨_, h2, h3, h4, _⟩ := remove_present_spec iv _ hr
        obtain ⟨a1, a2, a3⟩ := ih (D.remove { r with src := src }).1 h2 (by rw [h4, hcb])
        refine ⟨a1, a2, fun x hx => ?_⟩
        have := a3 x hx
        simp only [applyUpdates] at this
        rw [this, h3, iv.nodup.mem_erase_iff]
        constructor
        · exact fun h => h.2
        · intro h; exact ⟨fun e => hx (by rw [e]), h⟩
      · rw [remove_absent iv _ hr]
        exact ih D iv hcb
    · -- addition
      simp only [if_true]
      by_cases hr : { r with src := src } ∈ D.list
      · rw [add_dup iv _ hr]
        exact ih D iv hcb
      · obtain ⟨_, h2, h3, h4, _⟩ := add_new_spec iv _ hr
        obtain ⟨a1, a2, a3⟩ := ih (D.add { r with src := src }).1 h2 (by rw [h4, hcb])
        refine ⟨a1, a2, fun x hx => ?_⟩
        have := a3 x hx
        simp only [applyUpdates] at this
        rw [this, h3, List.mem_append]
        constructor
        · rintro (h | h)
          · exact h
          · simp at h; subst h; exact absurd rfl hx
        · exact fun h => Or.inl h

/-- net effect of `spki_table_notify_diff` after a reload: the callback stream is extended by
    exactly (new \ old) as additions and (old \ new) as removals, and stays an exact change log -/
theorem reload_linv {T : SpkiTable} (iv : LInv T) (src : Nat) (ups : List (Bool × SpkiRec)) :
    LInv (reload T src ups) := by
  -- the shadow table
  obtain ⟨c1, c2, _, _, c5, c6⟩ := copyLoop_spec src T.list (init false) (sinv_init false) iv.sinv.nodup
  have c7 : ∀ x, x ∈ (copyExcept T (init false) src).1.list ↔ x ∈ T.list ∧ x.src ≠ src := by
    intro x
    rcases c6 with ⟨_, _, g3⟩ | ⟨_, y, _, _, hy⟩
    · show x ∈ (copyLoop src T.list (init false)).1.list ↔ _
      rw [g3]
      simp [init]
    · simp [init] at hy
  obtain ⟨u1, u2, u3⟩ := applyUpdates_spec src ups (copyExcept T (init false) src).1 c1 c2
  let sh := applyUpdates src (copyExcept T (init false) src).1 ups
  have hsh : ∀ x, x.src ≠ src → (x ∈ sh.list ↔ x ∈ T.list) := by
    intro x hx
    rw [u3 x hx, c7 x]
    exact ⟨fun h => h.1, fun h => ⟨h, hx⟩⟩
  -- swap and diff
  obtain ⟨s1, s2⟩ := sinv_swap iv.sinv u1
  obtain ⟨d1, _, d3, _, d5, _, _, RL, r1, r2, r3⟩ := notifyDiff_spec (swap T sh).1 (swap T sh).2 s1 s2 src
  have hN : (swap T sh).1.list = sh.list := rfl
  have hO : (swap T sh).2.list = T.list := rfl
  have hcbN : (swap T sh).1.hasCb = true := iv.cb
  have hlogN : (swap T sh).1.log = T.log := rfl
  rw [hcbN, hN, hO, hlogN] at r3
  simp only [if_true] at r3
  rw [hN, hO] at r2
  let AL := sh.list.filter fun e => e.src == src && decide (e ∉ T.list)
  have hAL : ∀ x, x ∈ AL ↔ x ∈ sh.list ∧ x.src = src ∧ x ∉ T.list := by
    intro x; simp [AL, List.mem_filter]
  have hALn : AL.Nodup := u1.nodup.sublist List.filter_sublist
  show LInv (notifyDiff (swap T sh).1 (swap T sh).2 src).1
  refine ⟨d1, by rw [d5]; exact hcbN, fun x => ?_, ?_⟩
  · rw [r3, d3, hN, replayFrom_append, replayFrom_append, replay_removes, replay_adds, iv.replays x, r2 x, hAL x]
    by_cases hs : x.src = src
    · constructor
      · rintro ⟨h | h, hn⟩
        · exact Classical.byContradiction fun hc => hn ⟨h, hs, hc⟩
        · exact h.1
      · intro h
        refine ⟨?_, fun hn => hn.2.2 h⟩
        by_cases ht : x ∈ T.list
        · exact Or.inl ht
        · exact Or.inr ⟨h, hs, ht⟩
    · constructor
      · rintro ⟨h | h, _⟩
        · exact (hsh x hs).mpr h
        · exact h.1
      · intro h
        exact ⟨Or.inl ((hsh x hs).mp h), fun hn => hs hn.2.1⟩
  · rw [r3, exactFrom_append, exactFrom_append]
    refine ⟨iv.exact, exact_adds _ AL hALn ?_, exact_removes _ RL r1 ?_⟩
    · intro e he
      rw [iv.replays]; exact ((hAL e).mp he).2.2
    · intro e he
      rw [replay_adds, iv.replays]; exact Or.inl ((r2 e).mp he).1

end SpkiTable

/-- operations on a table with a callback, as the RTR client performs them -/
inductive LogOp where
  | add (r : SpkiRec)
  | remove (r : SpkiRec)
  | srcRemove (src : Nat)
  | reload (src : Nat) (ups : List (Bool × SpkiRec))

def stepLog (T : SpkiTable) : LogOp → SpkiTable
  | .add r => (T.add r).1
  | .remove r => (T.remove r).1
  | .srcRemove s => (T.srcRemove s).1
  | .reload s ups => T.reload s ups

def runLog (T : SpkiTable) (ops : List LogOp) : SpkiTable := ops.foldl stepLog T

theorem runLog_linv (T : SpkiTable) (iv : SpkiTable.LInv T) (ops : List LogOp) : SpkiTable.LInv (runLog T ops) := by
  induction ops generalizing T with
  | nil => exact iv
  | cons op ops ih =>
    apply ih
    cases op with
    | add r => exact SpkiTable.add_linv iv r
    | remove r => exact SpkiTable.remove_linv iv r
    | srcRemove s => exact SpkiTable.srcRemove_linv iv s
    | reload s ups => exact SpkiTable.reload_linv iv s ups

end Rtr
