/-
  TimeMono: the clock of the scripted environment never goes backwards.

  The file has two parts.
  1. Generic transfer lemmas: for a relation `R` between the environment before and after a call that
     is reflexive, transitive and holds across one trace line and one `tr_send` (`EmitRel`), across
     one `tr_recv` as well (`RecvRel`), and across `tr_open` and `sleep` (`RunRel`), `R n n'` holds
     for the environment returned by every model function.  (Progress.lean instantiates the same
     lemmas with "the scripted environment does not grow".)
  2. The instances for the clock: `n'.now = n.now` for everything that only sends or writes trace
     lines, `NowLe n n'` (`n.now ≤ n'.now`) for everything that receives or sleeps.
-/
import RtrProofs.Fsm

namespace Rtr.P

/-! ## generic transfer -/

/-- relations on environments that hold across trace output and `tr_send` -/
structure EmitRel (R : Net → Net → Prop) : Prop where
  refl : ∀ n, R n n
  trans : ∀ {a b c}, R a b → R b c → R a c
  emit : ∀ n l, R n (Net.emit n l)
  send : ∀ n b, R n (trSend n b).2

/-- … and across `tr_recv` -/
structure RecvRel (R : Net → Net → Prop) : Prop extends EmitRel R where
  recv : ∀ n len t, R n (trRecv n len t).2.2.1

/-- … and across `tr_open` and `sleep` -/
structure RunRel (R : Net → Net → Prop) : Prop extends RecvRel R where
  opn : ∀ st, R st.n (trOpen st).2.n
  sleep : ∀ (n : Net) (k : Nat), R n { n with now := n.now + k }

section emit
variable {R : Net → Net → Prop} (hR : EmitRel R)
include hR

theorem changeState_rel (c : Conn) (n : Net) (own : Nat) (s : SState) : R n (changeState c n own s).2 := by
  unfold changeState
  split
  · exact hR.refl n
  · split
    · exact hR.refl n
    · exact hR.emit n _

theorem sendAllLoop_rel : ∀ (fuel : Nat) (n : Net) (rest : List Nat) (total : Nat),
    R n (sendAllLoop fuel n rest total).2 := by
  intro fuel
  induction fuel with
  | zero => intro n rest total; exact hR.refl n
  | succ fuel ih =>
    intro n rest total
    simp only [sendAllLoop]
    split
    · exact hR.refl n
    · have h := hR.send n rest
      generalize trSend n rest = r at h
      obtain ⟨rc, n'⟩ := r
      simp only at h ⊢
      split
      · exact h
      · exact hR.trans h (ih _ _ _)

theorem sendAll_rel (n : Net) (bytes : List Nat) : R n (sendAll n bytes).2 :=
  sendAllLoop_rel hR _ _ _ _

theorem sendPdu_rel (c : Conn) (n : Net) (bytes : List Nat) : R n (sendPdu c n bytes).2 := by
  unfold sendPdu
  split
  · exact hR.refl n
  · have h := sendAll_rel hR n bytes
    generalize sendAll n bytes = r at h
    obtain ⟨rc, n'⟩ := r
    exact h

theorem sendErrorPdu_rel (c : Conn) (n : Net) (enc : List Nat) (code : Nat) (text : List Nat) :
    R n (sendErrorPdu c n enc code text).2 := by
  unfold sendErrorPdu
  split
  · exact hR.refl n
  · exact sendPdu_rel hR _ _ _

theorem sendErrorFromHost_rel (c : Conn) (n : Net) (raw : List Nat) (k code : Nat) (text : List Nat) :
    R n (sendErrorFromHost c n raw k code text).2 := by
  unfold sendErrorFromHost
  split
  · exact sendErrorPdu_rel hR _ _ _ _ _
  · split
    · exact hR.refl n
    · exact sendErrorPdu_rel hR _ _ _ _ _

/-- an Error Report followed by a state change -/
theorem errPdu_change_rel (c c' : Conn) (n : Net) (enc : List Nat) (code : Nat) (text : List Nat) (own : Nat) (s : SState) :
    R n (changeState c' (sendErrorPdu c n enc code text).2 own s).2 :=
  hR.trans (sendErrorPdu_rel hR _ _ _ _ _) (changeState_rel hR _ _ _ _)

theorem errHost_change_rel (c c' : Conn) (n : Net) (raw : List Nat) (k code : Nat) (text : List Nat) (own : Nat) (s : SState) :
    R n (changeState c' (sendErrorFromHost c n raw k code text).2 own s).2 :=
  hR.trans (sendErrorFromHost_rel hR _ _ _ _ _ _) (changeState_rel hR _ _ _ _)

theorem recvTransportError_rel (c : Conn) (n : Net) (own : Nat) (code : Int) :
    R n (recvTransportError c n own code).2.2 := by
  unfold recvTransportError
  split
  · exact changeState_rel hR _ _ _ _
  · split
    · exact hR.refl n
    · split
      · exact hR.refl n
      · split <;> exact changeState_rel hR _ _ _ _

theorem handleErrorPdu_rel (c : Conn) (n : Net) (own : Nat) (raw : List Nat) :
    R n (handleErrorPdu c n own raw).2 := by
  unfold handleErrorPdu
  simp only
  repeat' split
  all_goals exact changeState_rel hR _ _ _ _

theorem handleCacheResponse_rel (c : Conn) (ss : Sess) (n : Net) (own : Nat) (raw : List Nat) :
    R n (handleCacheResponse c ss n own raw).2.2.2 := by
  unfold handleCacheResponse
  simp only
  split
  · exact hR.refl n
  · split
    · exact errHost_change_rel hR _ _ _ _ _ _ _ _ _
    · exact hR.refl n

theorem updatePfx_rel (c : Conn) (n : Net) (t : Tbl) (raw : List Nat) : R n (updatePfx c n t raw).2.2.1 := by
  unfold updatePfx
  simp only
  repeat' split
  all_goals first | exact hR.refl n | exact sendErrorFromHost_rel hR _ _ _ _ _ _ | exact errHost_change_rel hR _ _ _ _ _ _ _ _ _

theorem updateKey_rel (c : Conn) (n : Net) (t : Tbl) (raw : List Nat) : R n (updateKey c n t raw).2.2.1 := by
  unfold updateKey
  simp only
  repeat' split
  all_goals first | exact hR.refl n | exact sendErrorFromHost_rel hR _ _ _ _ _ _ | exact errHost_change_rel hR _ _ _ _ _ _ _ _ _

theorem applyPfx_rel : ∀ (ps : List (List Nat)) (c : Conn) (n : Net) (t : Tbl) (done : List (List Nat)),
    R n (applyPfx c n t ps done).2.2.1 := by
  intro ps
  induction ps with
  | nil => intro c n t done; exact hR.refl n
  | cons p ps ih =>
    intro c n t done
    simp only [applyPfx]
    have h := updatePfx_rel hR c n t p
    generalize updatePfx c n t p = r at h
    obtain ⟨ok, c', n', t'⟩ := r
    simp only at h ⊢
    split
    · exact hR.trans h (ih _ _ _ _)
    · exact h

theorem applyKey_rel : ∀ (ps : List (List Nat)) (c : Conn) (n : Net) (t : Tbl) (done : List (List Nat)),
    R n (applyKey c n t ps done).2.2.1 := by
  intro ps
  induction ps with
  | nil => intro c n t done; exact hR.refl n
  | cons p ps ih =>
    intro c n t done
    simp only [applyKey]
    have h := updateKey_rel hR c n t p
    generalize updateKey c n t p = r at h
    obtain ⟨ok, c', n', t'⟩ := r
    simp only at h ⊢
    split
    · exact hR.trans h (ih _ _ _ _)
    · exact h

theorem applyFail_rel (u : Bool) (c : Conn) (n : Net) (t : Tbl) : R n (applyFail u c n t).n := by
  unfold applyFail
  exact changeState_rel hR _ _ _ _

theorem applyTables_rel (c : Conn) (n : Net) (t : Tbl) (resetting : Bool) (v4 v6 keys : List (List Nat)) :
    R n (applyTables c n t resetting v4 v6 keys).n := by
  unfold applyTables
  simp only
  generalize (if resetting then ({ t with shadow := some ⟨ptSrcRemove t.pt 0, ktSrcRemove t.kt 0⟩ } : Tbl) else t) = t0
  have h4 := applyPfx_rel hR v4 c n t0 []
  generalize applyPfx c n t0 v4 [] = r4 at h4
  obtain ⟨ok4, c4, n4, t4, d4⟩ := r4
  simp only at h4 ⊢
  split
  · generalize undoAllPfx t4 d4 = ru
    obtain ⟨un, tu⟩ := ru
    exact hR.trans h4 (applyFail_rel hR _ _ _ _)
  · have h6 := applyPfx_rel hR v6 c4 n4 t4 []
    generalize applyPfx c4 n4 t4 v6 [] = r6 at h6
    obtain ⟨ok6, c6, n6, t6, d6⟩ := r6
    simp only at h6 ⊢
    split
    · generalize undoAllPfx t6 v4 = ru
      obtain ⟨un4, tu⟩ := ru
      simp only
      generalize (if un4 = true then undoAllPfx tu d6 else (false, tu)) = ru6
      obtain ⟨un6, tu6⟩ := ru6
      exact hR.trans h4 (hR.trans h6 (applyFail_rel hR _ _ _ _))
    · have hk := applyKey_rel hR keys c6 n6 t6 []
      generalize applyKey c6 n6 t6 keys [] = rk at hk
      obtain ⟨okk, ck, nk, tk, dk⟩ := rk
      simp only at hk ⊢
      split
      · generalize undoAllPfx tk v4 = ru
        obtain ⟨un4, tu⟩ := ru
        simp only
        generalize (if un4 = true then undoAllPfx tu v6 else (false, tu)) = ru6
        obtain ⟨un6, tu6⟩ := ru6
        simp only
        generalize (if (un4 && un6) = true then undoAllKey tu6 dk else (false, tu6)) = ruk
        obtain ⟨unk, tuk⟩ := ruk
        exact hR.trans h4 (hR.trans h6 (hR.trans hk (applyFail_rel hR _ _ _ _)))
      · exact hR.trans h4 (hR.trans h6 hk)

theorem applyBuffered_rel (st : St) (eod : List Nat) (v4 v6 keys : List (List Nat)) :
    R st.n (applyBuffered st eod v4 v6 keys).2.n :=
  applyTables_rel hR _ _ _ _ _ _ _

theorem sendSerialQuery_rel (st : St) : R st.n (sendSerialQuery st).2.n := by
  unfold sendSerialQuery
  have h := sendPdu_rel hR st.c st.n (serialQueryBytes st.c.version st.ss.session st.ss.serial)
  generalize sendPdu st.c st.n (serialQueryBytes st.c.version st.ss.session st.ss.serial) = r at h
  obtain ⟨ok, n⟩ := r
  simp only at h ⊢
  split
  · exact h
  · exact hR.trans h (changeState_rel hR _ _ _ _)

theorem sendResetQuery_rel (st : St) : R st.n (sendResetQuery st).2.n := by
  unfold sendResetQuery
  have h := sendPdu_rel hR st.c st.n (resetQueryBytes st.c.version)
  generalize sendPdu st.c st.n (resetQueryBytes st.c.version) = r at h
  obtain ⟨ok, n⟩ := r
  simp only at h ⊢
  split
  · exact h
  · exact hR.trans h (changeState_rel hR _ _ _ _)

theorem change_rel (st : St) (s : SState) : R st.n (st.change s).n := by
  unfold St.change
  exact changeState_rel hR _ _ _ _

theorem trClose_rel (st : St) : R st.n (trClose st).n := hR.emit _ _

end emit

theorem cleanup_n (r : Bool × St) : (cleanup r).2.n = r.2.n := rfl
theorem cleanup_ok (r : Bool × St) : (cleanup r).1 = r.1 := rfl
theorem purgeOutdated_n (st : St) : (purgeOutdated st).n = st.n := (purgeOutdated_spec st).2.2.1

section recv
variable {R : Net → Net → Prop} (hR : RecvRel R)
include hR

theorem recvAllLoop_rel (len : Nat) (endTime : Int) : ∀ (fuel : Nat) (n : Net) (acc : List Nat),
    R n (recvAllLoop len endTime fuel n acc).2.2.1 := by
  intro fuel
  induction fuel with
  | zero => intro n acc; exact hR.refl n
  | succ fuel ih =>
    intro n acc
    simp only [recvAllLoop]
    split
    · have h := hR.recv n (len - acc.length) (endTime - n.now)
      generalize trRecv n (len - acc.length) (endTime - n.now) = r at h
      obtain ⟨rc, got, n', stop⟩ := r
      simp only at h ⊢
      split
      · exact h
      · exact hR.trans h (ih _ _)
    · exact hR.refl n

theorem recvAll_rel (n : Net) (len : Nat) (timeout : Int) : R n (recvAll n len timeout).2.2.1 :=
  recvAllLoop_rel hR _ _ _ _ _

theorem recvStage3_rel (c : Conn) (n : Net) (own : Nat) (hdr : List Nat) : R n (recvStage3 c n own hdr).2.2 := by
  unfold recvStage3
  simp only
  split
  · exact hR.refl n
  · have h : R n (if lenOf hdr - 8 > 0 then recvAll n (lenOf hdr - 8) Gen.RTR_RECV_TIMEOUT
        else ((0 : Int), ([] : List Nat), n, false)).2.2.1 := by
      split
      · exact recvAll_rel hR _ _ _
      · exact hR.refl n
    generalize (if lenOf hdr - 8 > 0 then recvAll n (lenOf hdr - 8) Gen.RTR_RECV_TIMEOUT
        else ((0 : Int), ([] : List Nat), n, false)) = r at h
    obtain ⟨rc2, body, n2, stop2⟩ := r
    simp only at h ⊢
    split
    · exact hR.trans h (recvTransportError_rel hR.toEmitRel _ _ _ _)
    · split
      · exact hR.trans h (errPdu_change_rel hR.toEmitRel _ _ _ _ _ _ _ _)
      · exact h

theorem recvStage2_rel (c : Conn) (n : Net) (own : Nat) (hdr : List Nat) : R n (recvStage2 c n own hdr).2.2 := by
  unfold recvStage2
  simp only
  split
  · exact errPdu_change_rel hR.toEmitRel _ _ _ _ _ _ _ _
  · split
    · exact errPdu_change_rel hR.toEmitRel _ _ _ _ _ _ _ _
    · split
      · exact sendErrorPdu_rel hR.toEmitRel _ _ _ _ _
      · exact recvStage3_rel hR _ _ _ _

theorem receivePdu_rel (c : Conn) (n : Net) (own : Nat) (t : Int) : R n (receivePdu c n own t).2.2 := by
  rw [receivePdu_eq]
  split
  · exact hR.refl n
  · have h := recvAll_rel hR n 8 t
    generalize recvAll n 8 t = r at h
    obtain ⟨rc, hdr, n1, stop⟩ := r
    simp only at h ⊢
    split
    · exact hR.trans h (recvTransportError_rel hR.toEmitRel _ _ _ _)
    · exact hR.trans h (recvStage2_rel hR _ _ _ _)

theorem recvAndStore_rel : ∀ (fuel : Nat) (st : St) (v4 v6 keys : List (List Nat)),
    R st.n (recvAndStore fuel st v4 v6 keys).2.1.n := by
  intro fuel
  induction fuel with
  | zero => intro st v4 v6 keys; exact hR.refl _
  | succ fuel ih =>
    intro st v4 v6 keys
    unfold recvAndStore
    have hr := receivePdu_rel hR st.c st.n st.t.own Gen.RTR_RECV_TIMEOUT
    generalize receivePdu st.c st.n st.t.own Gen.RTR_RECV_TIMEOUT = res at hr
    obtain ⟨rr, c, n⟩ := res
    simp only at hr
    cases rr with
    | rc code =>
      simp only
      split
      · exact hR.trans hr (changeState_rel hR.toEmitRel _ _ _ _)
      · exact hr
    | ok raw =>
      simp only
      split
      · exact hR.trans hr (ih { st with c := c, n := n } _ _ _)
      · exact hR.trans hr (ih { st with c := c, n := n } _ _ _)
      · exact hR.trans hr (ih { st with c := c, n := n } _ _ _)
      · split
        · exact hR.trans hr (errHost_change_rel hR.toEmitRel _ _ _ _ _ _ _ _ _)
        · exact hR.trans hr (applyBuffered_rel hR.toEmitRel { st with c := c, n := n } raw v4 v6 keys)
      · exact hR.trans hr (handleErrorPdu_rel hR.toEmitRel _ _ _ _)
      · exact hR.trans hr (ih { st with c := c, n := n } _ _ _)
      · exact hR.trans hr (sendErrorFromHost_rel hR.toEmitRel _ _ _ _ _ _)

/-- the part of one iteration of `syncFirst` after its `rtr_receive_pdu` -/
theorem syncFirst_succ_rel_aux (fuel : Nat) (ih : ∀ st : St, R st.n (syncFirst fuel st).2.n) (st : St) :
    R (receivePdu st.c st.n st.t.own Gen.RTR_RECV_TIMEOUT).2.2 (syncFirst (fuel + 1) st).2.n := by
  unfold syncFirst
  generalize receivePdu st.c st.n st.t.own Gen.RTR_RECV_TIMEOUT = res
  obtain ⟨rr, c, n⟩ := res
  cases rr with
  | rc code =>
    simp only
    split
    · exact changeState_rel hR.toEmitRel _ _ _ _
    · split
      · exact changeState_rel hR.toEmitRel _ _ _ _
      · exact hR.refl _
  | ok raw =>
    simp only
    split
    · exact ih { st with c := c, n := n }
    · exact hR.refl _

theorem syncFirst_rel : ∀ (fuel : Nat) (st : St), R st.n (syncFirst fuel st).2.n := by
  intro fuel
  induction fuel with
  | zero => intro st; exact hR.refl _
  | succ fuel ih =>
    intro st
    exact hR.trans (receivePdu_rel hR st.c st.n st.t.own Gen.RTR_RECV_TIMEOUT) (syncFirst_succ_rel_aux hR fuel ih st)

/-- the part of one iteration of `syncFirst` after its `rtr_receive_pdu` -/
theorem syncFirst_succ_rel (fuel : Nat) (st : St) :
    R (receivePdu st.c st.n st.t.own Gen.RTR_RECV_TIMEOUT).2.2 (syncFirst (fuel + 1) st).2.n :=
  syncFirst_succ_rel_aux hR fuel (syncFirst_rel hR fuel) st

/-- the part of `syncG` after `syncFirst` -/
theorem syncG_after_first_rel (fuel : Nat) (st : St) : R (syncFirst fuel st).2.n (syncG fuel st).2.1.n := by
  unfold syncG
  generalize syncFirst fuel st = sf
  obtain ⟨r, st1⟩ := sf
  cases r with
  | none => exact hR.refl _
  | some raw =>
    simp only
    split
    · exact handleErrorPdu_rel hR.toEmitRel _ _ _ _
    · exact changeState_rel hR.toEmitRel _ _ _ _
    · have hv := handleCacheResponse_rel hR.toEmitRel st1.c st1.ss st1.n st1.t.own raw
      generalize handleCacheResponse st1.c st1.ss st1.n st1.t.own raw = hcr at hv
      obtain ⟨okc, c2, ss2, n2⟩ := hcr
      simp only at hv ⊢
      split
      · exact hv
      · have hr := recvAndStore_rel hR fuel { st1 with c := c2, ss := ss2, n := n2 } [] [] []
        generalize recvAndStore fuel { st1 with c := c2, ss := ss2, n := n2 } [] [] [] = rs at hr
        obtain ⟨ok, st2, g⟩ := rs
        simp only at hr ⊢
        split
        · exact hR.trans hv hr
        · exact hR.trans hv hr
    · exact sendErrorFromHost_rel hR.toEmitRel _ _ _ _ _ _

theorem syncG_rel (fuel : Nat) (st : St) : R st.n (syncG fuel st).2.1.n :=
  hR.trans (syncFirst_rel hR fuel st) (syncG_after_first_rel hR fuel st)

theorem waitForSync_rel (st : St) : R st.n (waitForSync st).2.n := by
  unfold waitForSync
  simp only
  have h := receivePdu_rel hR st.c st.n st.t.own
    (if st.ss.lastUpdate + ↑st.tm.refresh - st.n.now < 0 then 0 else st.ss.lastUpdate + ↑st.tm.refresh - st.n.now)
  generalize receivePdu st.c st.n st.t.own
    (if st.ss.lastUpdate + ↑st.tm.refresh - st.n.now < 0 then 0 else st.ss.lastUpdate + ↑st.tm.refresh - st.n.now) = r at h
  obtain ⟨rr, c, n⟩ := r
  cases rr <;> exact h

end recv

section run
variable {R : Net → Net → Prop} (hR : RunRel R)
include hR

theorem doSleep_rel (st : St) (k : Nat) : R st.n (doSleep st k).n :=
  hR.trans (hR.sleep st.n k) (hR.emit _ _)

theorem stepConnecting_rel (st : St) : R st.n (stepConnecting st).n := by
  unfold stepConnecting
  have e : (purgeOutdated (clearReceived st)).n = st.n := purgeOutdated_n _
  have o := hR.opn (purgeOutdated (clearReceived st))
  rw [e] at o
  generalize trOpen (purgeOutdated (clearReceived st)) = ro at o
  obtain ⟨rc, st2⟩ := ro
  simp only at o ⊢
  split
  · exact hR.trans o (change_rel hR.toEmitRel _ _)
  · split
    · exact hR.trans o (change_rel hR.toEmitRel _ _)
    · have s := sendSerialQuery_rel hR.toEmitRel st2
      generalize sendSerialQuery st2 = rs at s
      obtain ⟨ok, st3⟩ := rs
      simp only at s ⊢
      split
      · exact hR.trans o (hR.trans s (change_rel hR.toEmitRel _ _))
      · exact hR.trans o (hR.trans s (change_rel hR.toEmitRel _ _))

theorem stepReset_rel (st : St) : R st.n (stepReset st).n := by
  unfold stepReset
  have s := sendResetQuery_rel hR.toEmitRel st
  generalize sendResetQuery st = rs at s
  obtain ⟨ok, st3⟩ := rs
  simp only at s ⊢
  split
  · exact hR.trans s (change_rel hR.toEmitRel _ _)
  · exact s

theorem stepSync_rel (fuel : Nat) (st : St) : R st.n (stepSync fuel st).n := by
  unfold stepSync
  split
  · exact hR.trans (syncG_rel hR.toRecvRel fuel st) (change_rel hR.toEmitRel _ _)
  · exact syncG_rel hR.toRecvRel fuel st

theorem stepEstablished_rel (st : St) : R st.n (stepEstablished st).n := by
  unfold stepEstablished
  have w := waitForSync_rel hR.toRecvRel st
  generalize waitForSync st = rw at w
  obtain ⟨ok, st2⟩ := rw
  simp only at w ⊢
  split
  · have s := sendSerialQuery_rel hR.toEmitRel st2
    generalize sendSerialQuery st2 = rs at s
    obtain ⟨ok2, st3⟩ := rs
    simp only at s ⊢
    split
    · exact hR.trans w (hR.trans s (change_rel hR.toEmitRel _ _))
    · exact hR.trans w s
  · exact w

theorem stepErrNoData_rel (st : St) : R st.n (stepErrNoData st).n := by
  unfold stepErrNoData
  rw [purgeOutdated_n]
  exact hR.trans (change_rel hR.toEmitRel (requestReset st) .reset) (doSleep_rel hR _ _)

theorem stepErrNoIncr_rel (st : St) : R st.n (stepErrNoIncr st).n := by
  unfold stepErrNoIncr
  rw [purgeOutdated_n]
  exact change_rel hR.toEmitRel (requestReset st) .reset

theorem stepErrClose_rel (st : St) : R st.n (stepErrClose st).n := by
  unfold stepErrClose
  exact hR.trans (hR.trans (trClose_rel hR.toEmitRel st) (change_rel hR.toEmitRel _ _)) (doSleep_rel hR _ _)

theorem fsmStep_rel (fuel : Nat) (st st' : St) (h : fsmStep fuel st = some st') : R st.n st'.n := by
  rw [fsmStep_eq] at h
  cases hs : st.c.state <;> rw [hs] at h <;> simp only [Option.some.injEq] at h
  · subst h; exact stepConnecting_rel hR st
  · subst h; exact stepEstablished_rel hR st
  · subst h; exact stepReset_rel hR st
  · subst h; exact stepSync_rel hR fuel st
  · subst h; exact hR.trans (trClose_rel hR.toEmitRel st) (change_rel hR.toEmitRel _ _)
  · subst h; exact stepErrNoData_rel hR st
  · subst h; exact stepErrNoIncr_rel hR st
  · subst h; exact stepErrClose_rel hR st
  · subst h; exact stepErrClose_rel hR st
  · cases h
  · subst h; exact hR.refl _

theorem fsmRun_rel : ∀ (steps fuel : Nat) (st : St), R st.n (fsmRun steps fuel st).n := by
  intro steps
  induction steps with
  | zero => intro fuel st; exact hR.emit _ _
  | succ steps ih =>
    intro fuel st
    simp only [fsmRun]
    cases h : fsmStep fuel st with
    | none => exact hR.refl _
    | some st' => exact hR.trans (fsmStep_rel hR fuel st st' h) (ih fuel st')

end run

/-! ## the clock -/

/-- the clock did not go backwards -/
def NowLe (n n' : Net) : Prop := n.now ≤ n'.now

/-- the clock did not move -/
def NowEq (n n' : Net) : Prop := n'.now = n.now

theorem NowLe.refl (n : Net) : NowLe n n := Int.le_refl _
theorem NowLe.trans {a b c : Net} (h1 : NowLe a b) (h2 : NowLe b c) : NowLe a c := Int.le_trans h1 h2
theorem NowEq.le {a b : Net} (h : NowEq a b) : NowLe a b := by unfold NowEq at h; unfold NowLe; omega

theorem emit_now (n : Net) (l : String) : (n.emit l).now = n.now := rfl

theorem trSend_now (n : Net) (bytes : List Nat) : (trSend n bytes).2.now = n.now := by
  unfold trSend
  simp only
  split <;> rfl

theorem trRecvGo_now_le (n0 : Net) (len : Nat) (timeout : Int) :
    ∀ (tape : List TapeEv) (now : Int), now ≤ (trRecvGo n0 len timeout tape now).2.2.1.now := by
  intro tape
  induction tape with
  | nil => intro now; exact Int.le_refl _
  | cons ev rest ih =>
    intro now
    cases ev with
    | dt d =>
      simp only [trRecvGo]
      have := ih (now + d)
      omega
    | rx b => exact Int.le_refl _
    | err => exact Int.le_refl _
    | intr => exact Int.le_refl _
    | closed => exact Int.le_refl _
    | block =>
      simp only [trRecvGo, Net.emit]
      split <;> omega

theorem trRecv_now_le (n : Net) (len : Nat) (timeout : Int) : NowLe n (trRecv n len timeout).2.2.1 :=
  trRecvGo_now_le n len timeout n.tape n.now

theorem trOpen_now (st : St) : (trOpen st).2.n.now = st.n.now := by
  unfold trOpen
  cases st.n.openQ <;> rfl

theorem trClose_now (st : St) : (trClose st).n.now = st.n.now := rfl
theorem doSleep_now (st : St) (k : Nat) : (doSleep st k).n.now = st.n.now + k := rfl
theorem purgeOutdated_now (st : St) : (purgeOutdated st).n.now = st.n.now := by rw [purgeOutdated_n]

theorem nowEq_emitRel : EmitRel NowEq :=
  { refl := fun _ => rfl
    trans := fun h1 h2 => by unfold NowEq at *; omega
    emit := fun _ _ => rfl
    send := fun n b => trSend_now n b }

theorem nowLe_runRel : RunRel NowLe :=
  { refl := NowLe.refl
    trans := NowLe.trans
    emit := fun n _ => NowLe.refl n
    send := fun n b => NowEq.le (trSend_now n b)
    recv := trRecv_now_le
    opn := fun st => by unfold NowLe; rw [trOpen_now]; exact Int.le_refl _
    sleep := fun n k => by unfold NowLe; simp only; omega }

/-! ### everything that only sends or writes trace lines leaves the clock alone -/

theorem changeState_now (c : Conn) (n : Net) (own : Nat) (s : SState) : (changeState c n own s).2.now = n.now :=
  changeState_rel nowEq_emitRel c n own s
theorem sendAllLoop_now (fuel : Nat) (n : Net) (rest : List Nat) (total : Nat) :
    (sendAllLoop fuel n rest total).2.now = n.now := sendAllLoop_rel nowEq_emitRel fuel n rest total
theorem sendAll_now (n : Net) (bytes : List Nat) : (sendAll n bytes).2.now = n.now := sendAll_rel nowEq_emitRel n bytes
theorem sendPdu_now (c : Conn) (n : Net) (bytes : List Nat) : (sendPdu c n bytes).2.now = n.now :=
  sendPdu_rel nowEq_emitRel c n bytes
theorem sendErrorPdu_now (c : Conn) (n : Net) (enc : List Nat) (code : Nat) (text : List Nat) :
    (sendErrorPdu c n enc code text).2.now = n.now := sendErrorPdu_rel nowEq_emitRel c n enc code text
theorem sendErrorFromHost_now (c : Conn) (n : Net) (raw : List Nat) (k code : Nat) (text : List Nat) :
    (sendErrorFromHost c n raw k code text).2.now = n.now := sendErrorFromHost_rel nowEq_emitRel c n raw k code text
theorem recvTransportError_now (c : Conn) (n : Net) (own : Nat) (code : Int) :
    (recvTransportError c n own code).2.2.now = n.now := recvTransportError_rel nowEq_emitRel c n own code
theorem handleErrorPdu_now (c : Conn) (n : Net) (own : Nat) (raw : List Nat) :
    (handleErrorPdu c n own raw).2.now = n.now := handleErrorPdu_rel nowEq_emitRel c n own raw
theorem handleCacheResponse_now (c : Conn) (ss : Sess) (n : Net) (own : Nat) (raw : List Nat) :
    (handleCacheResponse c ss n own raw).2.2.2.now = n.now := handleCacheResponse_rel nowEq_emitRel c ss n own raw
theorem updatePfx_now (c : Conn) (n : Net) (t : Tbl) (raw : List Nat) : (updatePfx c n t raw).2.2.1.now = n.now :=
  updatePfx_rel nowEq_emitRel c n t raw
theorem updateKey_now (c : Conn) (n : Net) (t : Tbl) (raw : List Nat) : (updateKey c n t raw).2.2.1.now = n.now :=
  updateKey_rel nowEq_emitRel c n t raw
theorem applyPfx_now (ps : List (List Nat)) (c : Conn) (n : Net) (t : Tbl) (done : List (List Nat)) :
    (applyPfx c n t ps done).2.2.1.now = n.now := applyPfx_rel nowEq_emitRel ps c n t done
theorem applyKey_now (ps : List (List Nat)) (c : Conn) (n : Net) (t : Tbl) (done : List (List Nat)) :
    (applyKey c n t ps done).2.2.1.now = n.now := applyKey_rel nowEq_emitRel ps c n t done
theorem applyFail_now (u : Bool) (c : Conn) (n : Net) (t : Tbl) : (applyFail u c n t).n.now = n.now :=
  applyFail_rel nowEq_emitRel u c n t
theorem applyTables_now (c : Conn) (n : Net) (t : Tbl) (resetting : Bool) (v4 v6 keys : List (List Nat)) :
    (applyTables c n t resetting v4 v6 keys).n.now = n.now := applyTables_rel nowEq_emitRel c n t resetting v4 v6 keys
theorem applyBuffered_now (st : St) (eod : List Nat) (v4 v6 keys : List (List Nat)) :
    (applyBuffered st eod v4 v6 keys).2.n.now = st.n.now := applyBuffered_rel nowEq_emitRel st eod v4 v6 keys
theorem cleanup_now (r : Bool × St) : (cleanup r).2.n.now = r.2.n.now := rfl
theorem sendSerialQuery_now (st : St) : (sendSerialQuery st).2.n.now = st.n.now := sendSerialQuery_rel nowEq_emitRel st
theorem sendResetQuery_now (st : St) : (sendResetQuery st).2.n.now = st.n.now := sendResetQuery_rel nowEq_emitRel st
theorem change_now (st : St) (s : SState) : (st.change s).n.now = st.n.now := change_rel nowEq_emitRel st s

/-! ### receiving and sleeping let the clock advance, never go back -/

theorem recvAllLoop_now_le (len : Nat) (endTime : Int) (fuel : Nat) (n : Net) (acc : List Nat) :
    NowLe n (recvAllLoop len endTime fuel n acc).2.2.1 := recvAllLoop_rel nowLe_runRel.toRecvRel len endTime fuel n acc
theorem recvAll_now_le (n : Net) (len : Nat) (timeout : Int) : NowLe n (recvAll n len timeout).2.2.1 :=
  recvAll_rel nowLe_runRel.toRecvRel n len timeout
theorem recvStage3_now_le (c : Conn) (n : Net) (own : Nat) (hdr : List Nat) : NowLe n (recvStage3 c n own hdr).2.2 :=
  recvStage3_rel nowLe_runRel.toRecvRel c n own hdr
theorem recvStage2_now_le (c : Conn) (n : Net) (own : Nat) (hdr : List Nat) : NowLe n (recvStage2 c n own hdr).2.2 :=
  recvStage2_rel nowLe_runRel.toRecvRel c n own hdr
theorem receivePdu_now_le (c : Conn) (n : Net) (own : Nat) (t : Int) : NowLe n (receivePdu c n own t).2.2 :=
  receivePdu_rel nowLe_runRel.toRecvRel c n own t
theorem recvAndStore_now_le (fuel : Nat) (st : St) (v4 v6 keys : List (List Nat)) :
    st.n.now ≤ (recvAndStore fuel st v4 v6 keys).2.1.n.now := recvAndStore_rel nowLe_runRel.toRecvRel fuel st v4 v6 keys
theorem syncFirst_now_le (fuel : Nat) (st : St) : st.n.now ≤ (syncFirst fuel st).2.n.now :=
  syncFirst_rel nowLe_runRel.toRecvRel fuel st
/-- **rtr_sync never sets the clock back** -/
theorem syncG_now_le (fuel : Nat) (st : St) : st.n.now ≤ (syncG fuel st).2.1.n.now :=
  syncG_rel nowLe_runRel.toRecvRel fuel st
theorem sync_now_le (fuel : Nat) (st : St) : st.n.now ≤ (sync fuel st).2.n.now := syncG_now_le fuel st
theorem waitForSync_now_le (st : St) : st.n.now ≤ (waitForSync st).2.n.now :=
  waitForSync_rel nowLe_runRel.toRecvRel st
theorem doSleep_now_le (st : St) (k : Nat) : st.n.now ≤ (doSleep st k).n.now := doSleep_rel nowLe_runRel st k

/-- **one iteration of the state machine never sets the clock back** -/
theorem fsmStep_now_le {fuel : Nat} {st st' : St} (h : fsmStep fuel st = some st') : st.n.now ≤ st'.n.now :=
  fsmStep_rel nowLe_runRel fuel st st' h

theorem fsmRun_now_le (steps fuel : Nat) (st : St) : st.n.now ≤ (fsmRun steps fuel st).n.now :=
  fsmRun_rel nowLe_runRel steps fuel st

theorem fsmStart_now_le (steps fuel : Nat) (st : St) : st.n.now ≤ (fsmStart steps fuel st).n.now := by
  unfold fsmStart
  split
  · exact Int.le_refl _
  · exact fsmRun_now_le steps fuel _

end Rtr.P
