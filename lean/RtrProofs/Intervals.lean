/-
  Helper lemmas for C17: closed forms of `rtr_check_interval_option` and of the End-of-Data
  interval handling, for all 32-bit values.
-/
import RtrModel.Intervals
import RtrModel.Rfc8210

namespace Rtr.Intervals

/-- the value a field gets from rtr_check_interval_option with bounds `lo hi` -/
def optVal (mode : Int) (x lo hi cur : UInt32) : UInt32 :=
  if (lo ≤ x ∧ x ≤ hi) ∨ mode = Gen.RTR_INTERVAL_MODE_ACCEPT_ANY then x
  else if mode = Gen.RTR_INTERVAL_MODE_DEFAULT_MIN_MAX then (if x < lo then lo else hi)
  else cur

theorem range_inside_iff (x lo hi : UInt32) : checkIntervalRange x lo hi = .inside ↔ (lo ≤ x ∧ x ≤ hi) := by
  unfold checkIntervalRange
  simp only [UInt32.lt_iff_toNat_lt, UInt32.le_iff_toNat_le, gt_iff_lt]
  split
  · simp; omega
  · split
    · simp; omega
    · simp; omega

theorem range_below_iff (x lo hi : UInt32) : checkIntervalRange x lo hi = .below ↔ x < lo := by
  unfold checkIntervalRange
  split
  · simp [*]
  · split <;> simp [*]

theorem success_ne_error : Gen.RTR_SUCCESS ≠ Gen.RTR_ERROR := by decide

theorem cio_expiration (s : Sock) (mode : Int) (x : UInt32) :
    checkIntervalOption s mode x .expiration =
      ({ s with expire := optVal mode x (u16 Gen.RTR_EXPIRATION_MIN) (u32 Gen.RTR_EXPIRATION_MAX) s.expire },
       Gen.RTR_SUCCESS) := by
  unfold checkIntervalOption bounds optVal
  simp only [range_inside_iff, range_below_iff, applyIntervalValue]
  split
  · rfl
  · split
    · split <;> rfl
    · rfl

theorem cio_refresh (s : Sock) (mode : Int) (x : UInt32) :
    checkIntervalOption s mode x .refresh =
      ({ s with refresh := optVal mode x (u16 Gen.RTR_REFRESH_MIN) (u32 Gen.RTR_REFRESH_MAX) s.refresh },
       Gen.RTR_SUCCESS) := by
  unfold checkIntervalOption bounds optVal
  simp only [range_inside_iff, range_below_iff, applyIntervalValue]
  split
  · rfl
  · split
    · split <;> rfl
    · rfl

theorem cio_retry (s : Sock) (mode : Int) (x : UInt32) :
    checkIntervalOption s mode x .retry =
      ({ s with retry := optVal mode x (u16 Gen.RTR_RETRY_MIN) (u32 Gen.RTR_RETRY_MAX) s.retry },
       Gen.RTR_SUCCESS) := by
  unfold checkIntervalOption bounds optVal
  simp only [range_inside_iff, range_below_iff, applyIntervalValue]
  split
  · rfl
  · split
    · split <;> rfl
    · rfl

/-- closed form of the End-of-Data interval handling -/
theorem eodIntervals_eq (s : Sock) (ver : Nat) (e r y : UInt32) :
    eodIntervals s ver e r y =
      if ver = Gen.RTR_PROTOCOL_VERSION_1 ∧ s.ivMode ≠ Gen.RTR_INTERVAL_MODE_IGNORE_ANY then
        ({ s with
            expire := optVal s.ivMode e (u16 Gen.RTR_EXPIRATION_MIN) (u32 Gen.RTR_EXPIRATION_MAX) s.expire
            refresh := optVal s.ivMode r (u16 Gen.RTR_REFRESH_MIN) (u32 Gen.RTR_REFRESH_MAX) s.refresh
            retry := optVal s.ivMode y (u16 Gen.RTR_RETRY_MIN) (u32 Gen.RTR_RETRY_MAX) s.retry }, true)
      else (s, true) := by
  unfold eodIntervals
  split
  · simp only [cio_expiration, cio_refresh, cio_retry, success_ne_error, if_false]
  · rfl

/-! ### the specification side: what each mode prescribes, over `Nat` -/

/-- the four interval modes of the public API -/
inductive Mode where
  | ignoreAny | acceptAny | defaultMinMax | ignoreOnFailure
deriving DecidableEq, Repr

/-- value of the enumerator in the current tree -/
def Mode.code : Mode → Int
  | .ignoreAny => Gen.RTR_INTERVAL_MODE_IGNORE_ANY
  | .acceptAny => Gen.RTR_INTERVAL_MODE_ACCEPT_ANY
  | .defaultMinMax => Gen.RTR_INTERVAL_MODE_DEFAULT_MIN_MAX
  | .ignoreOnFailure => Gen.RTR_INTERVAL_MODE_IGNORE_ON_FAILURE

/-- "unchanged, as sent, clamped to the range, or as sent only if inside the range" -/
def prescribed (m : Mode) (lo hi cur sent : Nat) : Nat :=
  match m with
  | .ignoreAny => cur
  | .acceptAny => sent
  | .defaultMinMax => if sent < lo then lo else if hi < sent then hi else sent
  | .ignoreOnFailure => if lo ≤ sent ∧ sent ≤ hi then sent else cur

theorem optVal_toNat (mode : Int) (x lo hi cur : UInt32) :
    (optVal mode x lo hi cur).toNat =
      if (lo.toNat ≤ x.toNat ∧ x.toNat ≤ hi.toNat) ∨ mode = Gen.RTR_INTERVAL_MODE_ACCEPT_ANY then x.toNat
      else if mode = Gen.RTR_INTERVAL_MODE_DEFAULT_MIN_MAX then (if x.toNat < lo.toNat then lo.toNat else hi.toNat)
      else cur.toNat := by
  unfold optVal
  simp only [UInt32.lt_iff_toNat_lt, UInt32.le_iff_toNat_le]
  split
  · rfl
  · split
    · split <;> rfl
    · rfl

/-- a field stays / becomes in range whenever the mode is not ACCEPT_ANY -/
theorem optVal_in_range (mode : Int) (x lo hi cur : UInt32) (hm : mode ≠ Gen.RTR_INTERVAL_MODE_ACCEPT_ANY)
    (hlh : lo.toNat ≤ hi.toNat) (hc : lo.toNat ≤ cur.toNat ∧ cur.toNat ≤ hi.toNat) :
    lo.toNat ≤ (optVal mode x lo hi cur).toNat ∧ (optVal mode x lo hi cur).toNat ≤ hi.toNat := by
  rw [optVal_toNat]
  simp only [hm, or_false]
  split
  · assumption
  · split
    · split <;> omega
    · exact hc

/-! ### traces of the established phase -/

/-- every wait is followed (if by anything) by a transport action that happens within the timeout
    the wait was given -/
def pollsOk : List TraceItem → Bool
  | .wait t now :: next :: rest => decide (now ≤ next.time ∧ next.time ≤ now + t) && pollsOk (next :: rest)
  | _ :: rest => pollsOk rest
  | [] => true

theorem waitTimeout_nonneg (s : Sock) (now : Int) : 0 ≤ waitTimeout s now := by
  unfold waitTimeout
  simp only
  split <;> omega

theorem arrival_bounds (ev : Ev) (now t : Int) (ht : 0 ≤ t) :
    now ≤ arrival ev now t ∧ arrival ev now t ≤ now + t := by
  unfold arrival
  split <;> omega

theorem fsmEstablished_head (ver : Nat) (s : Sock) (now : Int) (evs : List Ev) :
    ∃ tl, fsmEstablished ver s now evs = .wait (waitTimeout s now) now :: tl := by
  cases evs with
  | nil => exact ⟨[], rfl⟩
  | cons ev rest =>
    unfold fsmEstablished
    simp only
    generalize arrival ev now (waitTimeout s now) = a
    split
    · split
      · exact ⟨_, rfl⟩
      · exact ⟨_, rfl⟩
    · exact ⟨_, rfl⟩
    · exact ⟨_, rfl⟩

theorem fsmEstablished_pollsOk (ver : Nat) (evs : List Ev) :
    ∀ (s : Sock) (now : Int), pollsOk (fsmEstablished ver s now evs) = true := by
  induction evs with
  | nil => intro s now; rfl
  | cons ev rest ih =>
    intro s now
    have hb := arrival_bounds ev now (waitTimeout s now) (waitTimeout_nonneg s now)
    unfold fsmEstablished
    simp only
    generalize arrival ev now (waitTimeout s now) = a at hb
    split
    · split
      · obtain ⟨tl, htl⟩ := fsmEstablished_head ver (syncCrEod s ver ev.e ev.r ev.y a).1 a rest
        have ihh := ih (syncCrEod s ver ev.e ev.r ev.y a).1 a
        rw [htl] at ihh ⊢
        simp only [pollsOk, TraceItem.time, Bool.and_eq_true]
        exact ⟨decide_eq_true hb, ihh⟩
      · simp only [pollsOk, TraceItem.time, Bool.and_eq_true, and_true]
        exact decide_eq_true hb
    · obtain ⟨tl, htl⟩ := fsmEstablished_head ver s a rest
      have ihh := ih s a
      rw [htl] at ihh ⊢
      simp only [pollsOk, TraceItem.time, Bool.and_eq_true]
      exact ⟨decide_eq_true hb, ihh⟩
    · rfl

end Rtr.Intervals
