/-
  Helper lemmas for C17: closed forms of `rtr_check_interval_option` and of the End-of-Data
  interval handling, for all 32-bit values.
-/
import RtrModel.Intervals
import RtrModel.Rfc8210

namespace Rtr.Intervals

/-- the value a field gets from rtr_check_interval_option with bounds `lo hi` -/
def optVal (mode : Int) (x lo hi cur : UInt32) : UInt32 :=
  if (lo ≤ x ∧ x ≤ hi) ∨ mode = Gen.RTR_INTERVAL_MODE_ACCEPT_ANY then x
  else if mode = Gen.RTR_INTERVAL_MODE_DEFAULT_MIN_MAX then (if x < lo then lo else hi)
  else cur

theorem range_inside_iff (x lo hi : UInt32) : checkIntervalRange x lo hi = .inside ↔ (lo ≤ x ∧ x ≤ hi) := by
  unfold checkIntervalRange
  simp only [UInt32.lt_iff_toNat_lt, UInt32.le_iff_toNat_le, gt_iff_lt]
  split
  · simp; omega
  · split
    · simp; omega
    · simp; omega

theorem range_below_iff (x lo hi : UInt32) : checkIntervalRange x lo hi = .below ↔ x < lo := by
  unfold checkIntervalRange
  split
  · simp [*]
  · split <;> simp [*]

theorem success_ne_error : Gen.RTR_SUCCESS ≠ Gen.RTR_ERROR := by decide

theorem cio_expiration (s : Sock) (mode : Int) (x : UInt32) :
    checkIntervalOption s mode x .expiration =
      ({ s with expire := optVal mode x (u16 Gen.RTR_EXPIRATION_MIN) (u32 Gen.RTR_EXPIRATION_MAX) s.expire },
       Gen.RTR_SUCCESS) := by
  unfold checkIntervalOption bounds optVal
  simp only [range_inside_iff, range_below_iff, applyIntervalValue]
  split
  · rfl
  · split
    · split <;> rfl
    · rfl

theorem cio_refresh (s : Sock) (mode : Int) (x : UInt32) :
    checkIntervalOption s mode x .refresh =
      ({ s with refresh := optVal mode x (u16 Gen.RTR_REFRESH_MIN) (u32 Gen.RTR_REFRESH_MAX) s.refresh },
       Gen.RTR_SUCCESS) := by
  unfold checkIntervalOption bounds optVal
  simp only [range_inside_iff, range_below_iff, applyIntervalValue]
  split
  · rfl
  · split
    · split <;> rfl
    · rfl

theorem cio_retry (s : Sock) (mode : Int) (x : UInt32) :
    checkIntervalOption s mode x .retry =
      ({ s with retry := optVal mode x (u16 Gen.RTR_RETRY_MIN) (u32 Gen.RTR_RETRY_MAX) s.retry },
       Gen.RTR_SUCCESS) := by
  unfold checkIntervalOption bounds optVal
  simp only [range_inside_iff, range_below_iff, applyIntervalValue]
  split
  · rfl
  · split
    · split <;> rfl
    · rfl

/-- closed form of the End-of-Data interval handling -/
theorem eodIntervals_eq (s : Sock) (ver : Nat) (e r y : UInt32) :
    eodIntervals s ver e r y =
      if ver = Gen.RTR_PROTOCOL_VERSION_1 ∧ s.ivMode ≠ Gen.RTR_INTERVAL_MODE_IGNORE_ANY then
        ({ s with
            expire := optVal s.ivMode e (u16 Gen.RTR_EXPIRATION_MIN) (u32 Gen.RTR_EXPIRATION_MAX) s.expire
            refresh := optVal s.ivMode r (u16 Gen.RTR_REFRESH_MIN) (u32 Gen.RTR_REFRESH_MAX) s.refresh
            retry := optVal s.ivMode y (u16 Gen.RTR_RETRY_MIN) (u32 Gen.RTR_RETRY_MAX) s.retry }, true)
      else (s, true) := by
  unfold eodIntervals
  split
  · simp only [cio_expiration, cio_refresh, cio_retry, success_ne_error, if_false]
  · rfl

/-! ### the specification side: what each mode prescribes, over `Nat` -/

/-- the four interval modes of the public API -/
inductive Mode where
  | ignoreAny | acceptAny | defaultMinMax | ignoreOnFailure
deriving DecidableEq, Repr

/-- value of the enumerator in the current tree -/
def Mode.code : Mode → Int
  | .ignoreAny => Gen.RTR_INTERVAL_MODE_IGNORE_ANY
  | .acceptAny => Gen.RTR_INTERVAL_MODE_ACCEPT_ANY
  | .defaultMinMax => Gen.RTR_INTERVAL_MODE_DEFAULT_MIN_MAX
  | .ignoreOnFailure => Gen.RTR_INTERVAL_MODE_IGNORE_ON_FAILURE

/-- "unchanged, as sent, clamped to the range, or as sent only if inside the range" -/
def prescribed (m : Mode) (lo hi cur sent : Nat) : Nat :=
  match m with
  | .ignoreAny => cur
  | .acceptAny => sent
  | .defaultMinMax => if sent < lo then lo else if hi < sent then hi else sent
  | .ignoreOnFailure => if lo ≤ sent ∧ sent ≤ hi then sent else cur

theorem optVal_toNat (mode : Int) (x lo hi cur : UInt32) :
    (optVal mode x lo hi cur).toNat =
      if (lo.toNat ≤ x.toNat ∧ x.toNat ≤ hi.toNat) ∨ mode = Gen.RTR_INTERVAL_MODE_ACCEPT_ANY then x.toNat
      else if mode = Gen.RTR_INTERVAL_MODE_DEFAULT_MIN_MAX then (if x.toNat < lo.toNat then lo.toNat else hi.toNat)
      else cur.toNat := by
  unfold optVal
  simp only [UInt32.lt_iff_toNat_lt, UInt32.le_iff_toNat_le]
  split
  · rfl
  · split
    · split <;> rfl
    · rfl

/-- a field stays / becomes in range whenever the mode is not ACCEPT_ANY -/
theorem optVal_in_range (mode : Int) (x lo hi cur : UInt32) (hm : mode ≠ Gen.RTR_INTERVAL_MODE_ACCEPT_ANY)
    (hlh : lo.toNat ≤ hi.toNat) (hc : lo.toNat ≤ cur.toNat ∧ cur.toNat ≤ hi.toNat) :
    lo.toNat ≤ (optVal mode x lo hi cur).toNat ∧ (optVal mode x lo hi cur).toNat ≤ hi.toNat := by
  rw [optVal_toNat]
  simp only [hm, or_false]
  split
  · assumption
  · split
    · split <;> omega
    · exact hc

/-! ### PDUs that arrive in pieces -/

/-- the scripted transport honours the timeout it is given -/
theorem mockRecv_clock (len : Nat) (t now : Int) (fr : List Frag) (ht : 0 ≤ t) :
    now ≤ (mockRecv len t now fr).2.1 ∧ (mockRecv len t now fr).2.1 ≤ now + t := by
  cases fr with
  | nil => simp only [mockRecv]; omega
  | cons f rest =>
    simp only [mockRecv]
    split <;> simp only <;> omega

/-- `tr_recv_all`: every transport call gets exactly the time that is left until `end_time`; the
    clock never passes `end_time` inside the loop -/
theorem recvAll_spec (endTime : Int) (fuel : Nat) :
    ∀ (rem : Nat) (now : Int) (fr : List Frag), now ≤ endTime →
      (∀ c ∈ (recvAll endTime fuel rem now fr).calls,
          c.timeout = endTime - c.now ∧ now ≤ c.now ∧ c.now ≤ endTime) ∧
      now ≤ (recvAll endTime fuel rem now fr).now ∧ (recvAll endTime fuel rem now fr).now ≤ endTime := by
  induction fuel with
  | zero =>
    intro rem now fr h
    simp only [recvAll, List.not_mem_nil, false_imp_iff, implies_true, true_and]
    omega
  | succ fuel ih =>
    intro rem now fr h
    unfold recvAll
    split
    · simp only [List.not_mem_nil, false_imp_iff, implies_true, true_and]
      omega
    · have hc := mockRecv_clock rem (endTime - now) now fr (by omega)
      dsimp only
      generalize mockRecv rem (endTime - now) now fr = m at hc ⊢
      obtain ⟨o, now', fr'⟩ := m
      simp only at hc
      cases o with
      | none =>
        simp only [List.mem_singleton, forall_eq]
        refine ⟨⟨trivial, ?_, ?_⟩, ?_, ?_⟩ <;> omega
      | some k =>
        have ih' := ih (rem - k) now' fr' (by omega)
        simp only [List.mem_cons, forall_eq_or_imp]
        refine ⟨⟨⟨trivial, by omega, h⟩, ?_⟩, by omega, ih'.2.2⟩
        intro c hcm
        have := ih'.1 c hcm
        omega

/-- the first transport call of a `tr_recv_all` that has something to read happens at once -/
theorem recvAll_first (endTime : Int) (fuel rem : Nat) (now : Int) (fr : List Frag) (hr : rem ≠ 0) :
    ∃ tl, (recvAll endTime (fuel + 1) rem now fr).calls = ⟨rem, endTime - now, now⟩ :: tl := by
  unfold recvAll
  rw [if_neg hr]
  dsimp only
  split
  · exact ⟨[], rfl⟩
  · exact ⟨_, rfl⟩

theorem hdr_pos : Gen.sizeof_pdu_header = 7 + 1 := by decide

/-- **`rtr_receive_pdu` under a clock.**  Entered at `now` with a non-negative `timeout`: every
    transport call for the header is given exactly the time left until `now + timeout` (never a
    negative value); every call for the rest of the PDU at most RTR_RECV_TIMEOUT; the function
    returns no later than `now + timeout` when the header did not arrive completely, and no later
    than `now + timeout + RTR_RECV_TIMEOUT` in any case. -/
theorem receivePdu_spec (body : Nat) (t now : Int) (fr : List Frag) (ht : 0 ≤ t) :
    (∀ c ∈ (receivePdu body t now fr).hcalls, 0 ≤ c.timeout ∧ c.now + c.timeout = now + t ∧ now ≤ c.now) ∧
    (∀ c ∈ (receivePdu body t now fr).bcalls,
        0 ≤ c.timeout ∧ c.timeout ≤ (Gen.RTR_RECV_TIMEOUT : Int) ∧ now ≤ c.now) ∧
    now ≤ (receivePdu body t now fr).now ∧
    (receivePdu body t now fr).now ≤ now + t + (Gen.RTR_RECV_TIMEOUT : Int) ∧
    ((receivePdu body t now fr).bcalls = [] → (receivePdu body t now fr).now ≤ now + t) := by
  have hh := recvAll_spec (now + t) Gen.sizeof_pdu_header Gen.sizeof_pdu_header now fr (by omega)
  have hT : (0 : Int) ≤ (Gen.RTR_RECV_TIMEOUT : Int) := Int.natCast_nonneg _
  have hhc : ∀ c ∈ (recvAll (now + t) Gen.sizeof_pdu_header Gen.sizeof_pdu_header now fr).calls,
      0 ≤ c.timeout ∧ c.now + c.timeout = now + t ∧ now ≤ c.now := by
    intro c hc
    have := hh.1 c hc
    omega
  unfold receivePdu
  dsimp only
  generalize hg : recvAll (now + t) Gen.sizeof_pdu_header Gen.sizeof_pdu_header now fr = h at hh hhc ⊢
  split
  · dsimp only
    refine ⟨hhc, ?_, hh.2.1, by omega, fun _ => hh.2.2⟩
    simp only [List.not_mem_nil, false_imp_iff, implies_true]
  · rename_i hcond
    have hb0 : body ≠ 0 := fun c => hcond (Or.inr c)
    have hb := recvAll_spec (h.now + (Gen.RTR_RECV_TIMEOUT : Int)) body body h.now h.rest (by omega)
    dsimp only
    refine ⟨hhc, ?_, by omega, by omega, ?_⟩
    · intro c hc
      have := hb.1 c hc
      omega
    · intro hnil
      obtain ⟨b', hb'⟩ := Nat.exists_eq_succ_of_ne_zero hb0
      obtain ⟨tl, htl⟩ := recvAll_first (h.now + (Gen.RTR_RECV_TIMEOUT : Int)) b' body h.now h.rest hb0
      rw [hb'] at hnil
      rw [hb'] at htl
      rw [htl] at hnil
      exact absurd hnil (List.cons_ne_nil _ _)

/-- the first transport call of `rtr_receive_pdu` asks for the header with the caller's timeout -/
theorem receivePdu_first (body : Nat) (t now : Int) (fr : List Frag) :
    ∃ tl, (receivePdu body t now fr).hcalls = ⟨Gen.sizeof_pdu_header, t, now⟩ :: tl := by
  obtain ⟨tl, htl⟩ := recvAll_first (now + t) 7 Gen.sizeof_pdu_header now fr (by decide)
  have e : now + t - now = t := by omega
  rw [e] at htl
  unfold receivePdu
  dsimp only
  rw [hdr_pos] at htl ⊢
  split
  · exact ⟨tl, htl⟩
  · exact ⟨tl, htl⟩

/-! ### traces of the established phase -/

/-- every wait is followed (if by anything) by a transport action that happens within the timeout
    the wait was given -/
def pollsOk : List TraceItem → Bool
  | .wait t now :: next :: rest => decide (now ≤ next.time ∧ next.time ≤ now + t) && pollsOk (next :: rest)
  | _ :: rest => pollsOk rest
  | [] => true

theorem waitTimeout_nonneg (s : Sock) (now : Int) : 0 ≤ waitTimeout s now := by
  unfold waitTimeout
  simp only
  split <;> omega

theorem arrival_bounds (ev : Ev) (now t : Int) (ht : 0 ≤ t) :
    now ≤ arrival ev now t ∧ arrival ev now t ≤ now + t := by
  unfold arrival
  split <;> omega

theorem pollsOk_recv (len : Nat) (t now : Int) (l : List TraceItem) : pollsOk (.recv len t now :: l) = pollsOk l := by
  simp only [pollsOk]

theorem pollsOk_send (ty : Nat) (now : Int) (l : List TraceItem) : pollsOk (.send ty now :: l) = pollsOk l := by
  simp only [pollsOk]

theorem pollsOk_callItems (cs : List RecvCall) (l : List TraceItem) : pollsOk (callItems cs ++ l) = pollsOk l := by
  induction cs with
  | nil => rfl
  | cons c cs ih =>
    show pollsOk (.recv c.len c.timeout c.now :: (callItems cs ++ l)) = pollsOk l
    rw [pollsOk_recv, ih]

theorem fsmEstablished_head (ver : Nat) (s : Sock) (now : Int) (evs : List Ev) :
    ∃ tl, fsmEstablished ver s now evs = .wait (waitTimeout s now) now :: tl := by
  cases evs with
  | nil => exact ⟨[], rfl⟩
  | cons ev rest =>
    unfold fsmEstablished
    simp only
    split
    · split
      · exact ⟨_, rfl⟩
      · exact ⟨_, rfl⟩
    · generalize arrival ev now (waitTimeout s now) = a
      split
      · split
        · exact ⟨_, rfl⟩
        · exact ⟨_, rfl⟩
      · exact ⟨_, rfl⟩
      · exact ⟨_, rfl⟩

theorem fsmEstablished_pollsOk (ver : Nat) (evs : List Ev) :
    ∀ (s : Sock) (now : Int), pollsOk (fsmEstablished ver s now evs) = true := by
  induction evs with
  | nil => intro s now; rfl
  | cons ev rest ih =>
    intro s now
    have hb := arrival_bounds ev now (waitTimeout s now) (waitTimeout_nonneg s now)
    have ht := waitTimeout_nonneg s now
    unfold fsmEstablished
    simp only
    split
    · -- a Serial Notify in fragments: the first transport call happens at once
      obtain ⟨tl, htl⟩ := receivePdu_first notifyBody (waitTimeout s now) now ev.frags
      have hfirst : ∀ l, pollsOk (.wait (waitTimeout s now) now ::
          callItems ((waitPdu s now notifyBody ev.frags).hcalls ++ (waitPdu s now notifyBody ev.frags).bcalls) ++ l) =
          pollsOk l := by
        intro l
        unfold waitPdu
        rw [htl]
        show pollsOk (.wait (waitTimeout s now) now :: .recv Gen.sizeof_pdu_header (waitTimeout s now) now ::
          (callItems (tl ++ (receivePdu notifyBody (waitTimeout s now) now ev.frags).bcalls) ++ l)) = pollsOk l
        have hp : now ≤ now + waitTimeout s now := by omega
        simp only [pollsOk, TraceItem.time, pollsOk_callItems, Int.le_refl, hp, and_self, decide_true, Bool.true_and]
      split
      · rw [hfirst, pollsOk_send]
        exact ih _ _
      · rw [hfirst]
        rfl
    · generalize arrival ev now (waitTimeout s now) = a at hb
      split
      · split
        · obtain ⟨tl, htl⟩ := fsmEstablished_head ver (syncCrEod s ver ev.e ev.r ev.y a).1 a rest
          have ihh := ih (syncCrEod s ver ev.e ev.r ev.y a).1 a
          rw [htl] at ihh ⊢
          simp only [pollsOk, TraceItem.time, Bool.and_eq_true]
          exact ⟨decide_eq_true hb, ihh⟩
        · simp only [pollsOk, TraceItem.time, Bool.and_eq_true, and_true]
          exact decide_eq_true hb
      · obtain ⟨tl, htl⟩ := fsmEstablished_head ver s a rest
        have ihh := ih s a
        rw [htl] at ihh ⊢
        simp only [pollsOk, TraceItem.time, Bool.and_eq_true]
        exact ⟨decide_eq_true hb, ihh⟩
      · rfl

end Rtr.Intervals
