/-
  Validate: the validation walk (`walkR`, model of pfx_table_validate_r on one trie) answers
  RFC 6811 over the nodes of a well-formed trie, and its reason list is what the property says.
-/
import RtrProofs.TrieWF

namespace Rtr

def anyCover (w : Nat) (q : Addr) (n : Nat) (ns : List NodeC) : Bool := ns.any (covB w q n)
def anyMatch (w : Nat) (q : Addr) (n asn : Nat) (ns : List NodeC) : Bool :=
  ns.any fun c => covB w q n c && elemMatches c.data asn n

/-- RFC 6811 over a flat list of nodes (a node = all records sharing prefix and length) -/
def specState (w : Nat) (q : Addr) (n asn : Nat) (seen : Bool) (ns : List NodeC) : PfxvState :=
  if anyMatch w q n asn ns then .valid else if seen || anyCover w q n ns then .invalid else .notFound

theorem no_covB_other_side (w : Nat) (q : Addr) (n : Nat) (s : Trie) (c : NodeC) (d : Nat) (b : Bool)
    (hq2 : q < 2^w) (ws : WF w s (d+1))
    (hs : s.All (Below w c d b)) (hd : DepthOK s (d+1)) (hq : bitAt w q d ≠ b) :
    s.nodes.filter (covB w q n) = [] := by
  rw [List.filter_eq_nil_iff]
  intro x hx hcov
  have ok := (All_iff s).1 (WF_nodeOK w s (d+1) ws) x hx
  exact no_cover_other_side w q n s c d b hs hd hq x hx ((covB_iff w q n x ok hq2).1 hcov)

theorem any_of_filter_nil {α} (p f : α → Bool) (l : List α) (h : l.filter p = []) :
    l.any (fun c => p c && f c) = false := by
  rw [List.any_eq_false]
  rw [List.filter_eq_nil_iff] at h
  intro x hx
  have := h x hx
  simp [this]

theorem any_of_filter_nil' {α} (p : α → Bool) (l : List α) (h : l.filter p = []) :
    l.any p = false := by
  rw [List.any_eq_false]
  rw [List.filter_eq_nil_iff] at h
  intro x hx
  simpa using h x hx

structure WalkOK (w : Nat) (q : Addr) (n asn : Nat) (seen : Bool) (ns : List NodeC) (res : PfxvState × List NodeC) : Prop where
  state : res.1 = specState w q n asn seen ns
  invalid : res.1 = .invalid → res.2.Perm (ns.filter (covB w q n))
  valid : res.1 = .valid → (∀ c ∈ res.2, c ∈ ns.filter (covB w q n)) ∧ ∃ c ∈ res.2, elemMatches c.data asn n = true
  notFound : res.1 = .notFound → res.2 = []

theorem walkR_spec (w : Nat) (q : Addr) (n asn : Nat) (hq2 : q < 2^w) : ∀ (t : Trie) (d : Nat) (seen : Bool),
    WF w t d → DepthOK t d → WalkOK w q n asn seen t.nodes (walkR w q n asn t d seen) := by
  intro t
  induction t with
  | nil =>
    intro d seen _ _
    refine ⟨?_, ?_, ?_, ?_⟩ <;> cases seen <;> simp [walkR, specState, anyMatch, anyCover, Trie.nodes]
  | node c l r ihl ihr =>
    intro d seen ⟨hc, hl, hr, wl, wr⟩ ⟨h0, dl, dr⟩
    have cond : (c.len ≤ n ∧ prefixEq w c.addr q c.len = true) ↔ covB w q n c = true := by
      simp [covB]
    by_cases hq : isLeft w q d = true
    · -- query goes left: nothing on the right covers
      have hbit : bitAt w q d ≠ true := by
        unfold isLeft at hq; intro h; simp [h] at hq
      have nr := no_covB_other_side w q n r c d true hq2 wr hr dr hbit
      have filt : (Trie.node c l r).nodes.filter (covB w q n) =
          l.nodes.filter (covB w q n) ++ (if covB w q n c then [c] else []) := by
        simp only [Trie.nodes, List.filter_append, List.filter_cons, nr]
        try (split <;> simp)
      have acov : anyCover w q n (Trie.node c l r).nodes = (anyCover w q n l.nodes || covB w q n c) := by
        simp [anyCover, Trie.nodes, List.any_append, any_of_filter_nil' _ _ nr]
      have amat : anyMatch w q n asn (Trie.node c l r).nodes =
          (anyMatch w q n asn l.nodes || (covB w q n c && elemMatches c.data asn n)) := by
        simp [anyMatch, Trie.nodes, List.any_append, any_of_filter_nil _ _ _ nr]
      by_cases hcov : covB w q n c = true
      · by_cases hm : elemMatches c.data asn n = true
        · -- VALID at this node
          have e : walkR w q n asn (.node c l r) d seen = (.valid, [c]) := by
            simp [walkR, cond.2 hcov, hm]
          rw [e]
          refine ⟨?_, ?_, ?_, ?_⟩
          · simp [specState, amat, hcov, hm]
          · intro h; cases h
          · intro _
            refine ⟨?_, c, by simp, hm⟩
            intro x hx
            simp only [List.mem_singleton] at hx
            rw [hx, filt]; simp [hcov]
          · intro h; cases h
        · have ih := ihl (d+1) true wl dl
          have e : walkR w q n asn (.node c l r) d seen =
              ((walkR w q n asn l (d+1) true).1, c :: (walkR w q n asn l (d+1) true).2) := by
            simp [walkR, cond.2 hcov, hm, hq]
          rw [e]
          have hm' : elemMatches c.data asn n = false := by simpa using hm
          refine ⟨?_, ?_, ?_, ?_⟩
          · simp only [ih.state, specState, amat, acov, hcov, hm']
            simp
          · intro h
            have := ih.invalid h
            rw [filt]; simp only [hcov, if_true]
            exact (List.Perm.cons c this).trans (List.perm_append_singleton c _).symm
          · intro h
            obtain ⟨h1, x, hx, hxm⟩ := ih.valid h
            refine ⟨?_, x, List.mem_cons_of_mem _ hx, hxm⟩
            intro y hy
            rw [filt]; simp only [hcov, if_true]
            rcases List.mem_cons.1 hy with rfl | hy
            · simp
            · exact List.mem_append_left _ (h1 y hy)
          · intro h
            have := ih.state
            rw [h] at this
            simp [specState] at this
            split at this <;> simp at this
      · have hcov' : covB w q n c = false := by simpa using hcov
        have ih := ihl (d+1) seen wl dl
        have e : walkR w q n asn (.node c l r) d seen = walkR w q n asn l (d+1) seen := by
          have : ¬ (c.len ≤ n ∧ prefixEq w c.addr q c.len = true) := fun h => hcov (cond.1 h)
          simp [walkR, this, hq]
        rw [e]
        refine ⟨?_, ?_, ?_, ih.notFound⟩
        · simp only [ih.state, specState, amat, acov, hcov']
          simp
        · intro h; rw [filt]; simp only [hcov']; simpa using ih.invalid h
        · intro h; rw [filt]; simp only [hcov']; simpa using ih.valid h
    · -- query goes right
      have hq' : isLeft w q d = false := by simpa using hq
      have hbit : bitAt w q d ≠ false := by
        unfold isLeft at hq'; intro h; simp [h] at hq'
      have nl := no_covB_other_side w q n l c d false hq2 wl hl dl hbit
      have filt : (Trie.node c l r).nodes.filter (covB w q n) =
          (if covB w q n c then [c] else []) ++ r.nodes.filter (covB w q n) := by
        simp only [Trie.nodes, List.filter_append, List.filter_cons, nl]
        try (split <;> simp)
      have acov : anyCover w q n (Trie.node c l r).nodes = (covB w q n c || anyCover w q n r.nodes) := by
        simp [anyCover, Trie.nodes, List.any_append, any_of_filter_nil' _ _ nl]
      have amat : anyMatch w q n asn (Trie.node c l r).nodes =
          ((covB w q n c && elemMatches c.data asn n) || anyMatch w q n asn r.nodes) := by
        simp [anyMatch, Trie.nodes, List.any_append, any_of_filter_nil _ _ _ nl]
      by_cases hcov : covB w q n c = true
      · by_cases hm : elemMatches c.data asn n = true
        · have e : walkR w q n asn (.node c l r) d seen = (.valid, [c]) := by
            simp [walkR, cond.2 hcov, hm]
          rw [e]
          refine ⟨?_, ?_, ?_, ?_⟩
          · simp [specState, amat, hcov, hm]
          · intro h; cases h
          · intro _
            refine ⟨?_, c, by simp, hm⟩
            intro x hx
            simp only [List.mem_singleton] at hx
            rw [hx, filt]; simp [hcov]
          · intro h; cases h
        · have ih := ihr (d+1) true wr dr
          have e : walkR w q n asn (.node c l r) d seen =
              ((walkR w q n asn r (d+1) true).1, c :: (walkR w q n asn r (d+1) true).2) := by
            simp [walkR, cond.2 hcov, hm, hq']
          rw [e]
          have hm' : elemMatches c.data asn n = false := by simpa using hm
          refine ⟨?_, ?_, ?_, ?_⟩
          · simp only [ih.state, specState, amat, acov, hcov, hm']
            simp
          · intro h
            have := ih.invalid h
            rw [filt]; simp only [hcov, if_true]
            exact List.Perm.cons c this
          · intro h
            obtain ⟨h1, x, hx, hxm⟩ := ih.valid h
            refine ⟨?_, x, List.mem_cons_of_mem _ hx, hxm⟩
            intro y hy
            rw [filt]; simp only [hcov, if_true]
            rcases List.mem_cons.1 hy with rfl | hy
            · simp
            · exact List.mem_append_right _ (h1 y hy)
          · intro h
            have := ih.state
            rw [h] at this
            simp [specState] at this
            split at this <;> simp at this
      · have hcov' : covB w q n c = false := by simpa using hcov
        have ih := ihr (d+1) seen wr dr
        have e : walkR w q n asn (.node c l r) d seen = walkR w q n asn r (d+1) seen := by
          have : ¬ (c.len ≤ n ∧ prefixEq w c.addr q c.len = true) := fun h => hcov (cond.1 h)
          simp [walkR, this, hq']
        rw [e]
        refine ⟨?_, ?_, ?_, ih.notFound⟩
        · simp only [ih.state, specState, amat, acov, hcov']
          simp
        · intro h; rw [filt]; simp only [hcov']; simpa using ih.invalid h
        · intro h; rw [filt]; simp only [hcov']; simpa using ih.valid h

/-- depth ≤ length for every node of a well-formed trie rooted at depth 0 -/
theorem depthOK_root (w : Nat) (t : Trie) (h : WF w t 0) : DepthOK t 0 :=
  depthOK w t 0 (fun _ => false) h ((All_iff t).2 (fun _ _ _ hi => by omega)) (fun _ _ _ _ => Nat.zero_le _)

theorem validateR_spec (w : Nat) (q : Addr) (n asn : Nat) (t : Trie) (hq : q < 2^w) (h : WF w t 0) :
    WalkOK w q n asn false t.nodes (validateR w q n asn t) :=
  walkR_spec w q n asn hq t 0 false h (depthOK_root w t h)

end Rtr
