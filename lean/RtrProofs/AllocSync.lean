/-
  AllocSync: rtr_sync_receive_and_store_pdus under the allocator oracle.
  Part 1: block accounting — whatever the oracle does, everything temporary (PDU buffers, shadow
  tables) is released on every path, and the tables stay well formed.
-/
import RtrProofs.AllocOps
import RtrProofs.SyncTables

namespace Rtr
namespace Alloc
open PfxTable SpkiTable

/-- a payload PDU of this socket whose prefix is well formed -/
def Item.OK : Item → Prop
  | .p4 _ r => RecOK r ∧ r.src = 0
  | .p6 _ r => RecOK r ∧ r.src = 0
  | .key _ r => r.src = 0

/-- number of PDU buffers that exist -/
def bufsLive (b : Bufs) : Nat :=
  (if b.s4 = 0 then 0 else 1) + (if b.s6 = 0 then 0 else 1) + (if b.sk = 0 then 0 else 1)

/-! ### the temporary PDU arrays -/

/-- the increment of the tree under test is positive (otherwise a full store would never grow) -/
theorem storeIncr_pos : 0 < storeIncr := by decide

theorem storeIncr_ne : storeIncr ≠ 0 := by have := storeIncr_pos; omega

theorem storeLoop_ok : ∀ (items : List Item) (a : A) (b : Bufs),
    net (storeLoop items a b).2.1.trace = net a.trace + (bufsLive (storeLoop items a b).2.2 - bufsLive b : Int) ∧
    (NoLibc a.trace → NoLibc (storeLoop items a b).2.1.trace) := by
  intro items
  induction items with
  | nil => intro a b; simp [storeLoop]
  | cons it rest ih =>
    intro a b
    cases it with
    | p4 add r =>
      unfold storeLoop
      split
      · have q := realloc_ok a .pdu4 b.s4 (b.s4 + storeIncr)
        simp only
        by_cases h1 : a.hits 1
        · obtain ⟨hq, _, _, hn⟩ := q.hit h1
          simp only [hq, Bool.false_eq_true, if_false]
          exact ⟨by rw [hn]; simp, q.nolibc⟩
        · obtain ⟨hq, _, _, hn⟩ := q.pass h1
          simp only [hq, if_true]
          obtain ⟨i1, i2⟩ := ih (a.realloc .pdu4 b.s4 (b.s4 + storeIncr)).2 { b with s4 := b.s4 + storeIncr, n4 := b.n4 + 1 }
          refine ⟨?_, fun h => i2 (q.nolibc h)⟩
          rw [i1, hn]
          have : bufsLive { b with s4 := b.s4 + storeIncr, n4 := b.n4 + 1 } = bufsLive b + (if b.s4 = 0 then 1 else 0) := by
            have hne := storeIncr_ne
            simp only [bufsLive]
            by_cases hz : b.s4 = 0
            · simp [hz, hne] <;> omega
            · simp [hz]
          rw [this]
          by_cases hz : b.s4 = 0 <;> simp [hz] <;> omega
      · obtain ⟨i1, i2⟩ := ih a { b with n4 := b.n4 + 1 }
        exact ⟨by rw [i1]; rfl, i2⟩
    | p6 add r =>
      unfold storeLoop
      split
      · have q := realloc_ok a .pdu6 b.s6 (b.s6 + storeIncr)
        simp only
        by_cases h1 : a.hits 1
        · obtain ⟨hq, _, _, hn⟩ := q.hit h1
          simp only [hq, Bool.false_eq_true, if_false]
          exact ⟨by rw [hn]; simp, q.nolibc⟩
        · obtain ⟨hq, _, _, hn⟩ := q.pass h1
          simp only [hq, if_true]
          obtain ⟨i1, i2⟩ := ih (a.realloc .pdu6 b.s6 (b.s6 + storeIncr)).2 { b with s6 := b.s6 + storeIncr, n6 := b.n6 + 1 }
          refine ⟨?_, fun h => i2 (q.nolibc h)⟩
          rw [i1, hn]
          have : bufsLive { b with s6 := b.s6 + storeIncr, n6 := b.n6 + 1 } = bufsLive b + (if b.s6 = 0 then 1 else 0) := by
            have hne := storeIncr_ne
            simp only [bufsLive]
            by_cases hz : b.s6 = 0
            · simp [hz, hne] <;> omega
            · simp [hz]
          rw [this]
          by_cases hz : b.s6 = 0 <;> simp [hz] <;> omega
      · obtain ⟨i1, i2⟩ := ih a { b with n6 := b.n6 + 1 }
        exact ⟨by rw [i1]; rfl, i2⟩
    | key add r =>
      unfold storeLoop
      split
      · have q := realloc_ok a .pduk b.sk (b.sk + storeIncr)
        simp only
        by_cases h1 : a.hits 1
        · obtain ⟨hq, _, _, hn⟩ := q.hit h1
          simp only [hq, Bool.false_eq_true, if_false]
          exact ⟨by rw [hn]; simp, q.nolibc⟩
        · obtain ⟨hq, _, _, hn⟩ := q.pass h1
          simp only [hq, if_true]
          obtain ⟨i1, i2⟩ := ih (a.realloc .pduk b.sk (b.sk + storeIncr)).2 { b with sk := b.sk + storeIncr, nk := b.nk + 1 }
          refine ⟨?_, fun h => i2 (q.nolibc h)⟩
          rw [i1, hn]
          have : bufsLive { b with sk := b.sk + storeIncr, nk := b.nk + 1 } = bufsLive b + (if b.sk = 0 then 1 else 0) := by
            have hne := storeIncr_ne
            simp only [bufsLive]
            by_cases hz : b.sk = 0
            · simp [hz, hne] <;> omega
            · simp [hz]
          rw [this]
          by_cases hz : b.sk = 0 <;> simp [hz] <;> omega
      · obtain ⟨i1, i2⟩ := ih a { b with nk := b.nk + 1 }
        exact ⟨by rw [i1]; rfl, i2⟩

theorem freeBufs_ok (a : A) (b : Bufs) :
    net (freeBufs a b).trace = net a.trace - bufsLive b ∧ (NoLibc a.trace → NoLibc (freeBufs a b).trace) := by
  unfold freeBufs bufsLive
  refine ⟨?_, fun h => freeIf_noLibc (freeIf_noLibc (freeIf_noLibc h _ _) _ _) _ _⟩
  rw [freeIf_net, freeIf_net, freeIf_net]
  by_cases h4 : b.s4 = 0 <;> by_cases h6 : b.s6 = 0 <;> by_cases hk : b.sk = 0 <;> simp [h4, h6, hk] <;> omega

/-! ### updates, undo, purge -/

/-- what every step of the table part preserves and accounts for -/
structure SeqOK {α : Type} (a : A) (P : PfxTable) (K : SpkiTable) (q : A × PfxTable × SpkiTable × α) : Prop where
  wf : TableWF q.2.1
  inv : SInv q.2.2.1
  net : Alloc.net q.1.trace = Alloc.net a.trace + ((pfxBlocks q.2.1 : Int) - pfxBlocks P) +
          ((spkiBlocks q.2.2.1 : Int) - spkiBlocks K)
  nolibc : NoLibc a.trace → NoLibc q.1.trace

theorem applyItem_ok (undo : Bool) (a : A) (P : PfxTable) (K : SpkiTable) (hP : TableWF P) (hK : SInv K)
    (it : Item) (hit : it.OK) : SeqOK a P K (applyItem undo a P K it) := by
  have pfxcase : ∀ (add : Bool) (r : Rec), RecOK r →
      SeqOK a P K ((if add != undo then addF a P r else removeF a P r).1,
        (if add != undo then addF a P r else removeF a P r).2.1, K,
        (if add != undo then addF a P r else removeF a P r).2.2 == .success) := by
    intro add r hr
    by_cases hf : (add != undo) = true
    · simp only [hf, if_true]
      have q := addF_ok a P r
      exact ⟨addF_wf a P r hP hr, hK, by rw [q.net hP]; simp, q.nolibc⟩
    · simp only [hf, Bool.false_eq_true, if_false]
      exact ⟨removeF_wf a P r hP, hK, by rw [removeF_net a P r]; simp, (run_ok (remActs P r) a).nolibc⟩
  cases it with
  | p4 add r => exact pfxcase add r hit.1
  | p6 add r => exact pfxcase add r hit.1
  | key add r =>
    unfold applyItem
    simp only
    by_cases hf : (add != undo) = true
    · simp only [hf, if_true]
      have q := kaddF_ok a K r hK
      exact ⟨hP, kaddF_sinv a hK r, by rw [q.net hK]; simp, q.nolibc⟩
    · simp only [hf, Bool.false_eq_true, if_false]
      have q := kremoveF_ok a hK r
      exact ⟨hP, remove_sinv hK r, by rw [q.1]; simp, q.2.2.2⟩

theorem SeqOK.trans {α β : Type} {a : A} {P : PfxTable} {K : SpkiTable} {q1 : A × PfxTable × SpkiTable × α}
    {q2 : A × PfxTable × SpkiTable × β} (h1 : SeqOK a P K q1) (h2 : SeqOK q1.1 q1.2.1 q1.2.2.1 q2) : SeqOK a P K q2 :=
  ⟨h2.wf, h2.inv, by rw [h2.net, h1.net]; omega, fun h => h2.nolibc (h1.nolibc h)⟩

theorem applyAll_ok : ∀ (ops done : List Item) (a : A) (P : PfxTable) (K : SpkiTable), TableWF P → SInv K →
    (∀ it ∈ ops, it.OK) →
    SeqOK a P K (applyAll ops done a P K) ∧
    (∀ d, (applyAll ops done a P K).2.2.2 = some d → ∀ it ∈ d, it ∈ done ∨ it ∈ ops) := by
  intro ops
  induction ops with
  | nil =>
    intro done a P K hP hK _
    exact ⟨⟨hP, hK, by simp [applyAll], fun h => h⟩, fun d h => by simp [applyAll] at h⟩
  | cons it rest ih =>
    intro done a P K hP hK hok
    have s := applyItem_ok false a P K hP hK it (hok it (by simp))
    unfold applyAll
    simp only
    split
    · obtain ⟨r1, r2⟩ := ih (done ++ [it]) _ _ _ s.wf s.inv (fun x hx => hok x (List.mem_cons_of_mem _ hx))
      refine ⟨s.trans r1, fun d hd x hx => ?_⟩
      rcases r2 d hd x hx with h | h
      · rcases List.mem_append.mp h with h | h
        · exact Or.inl h
        · simp at h; subst h; exact Or.inr (by simp)
      · exact Or.inr (List.mem_cons_of_mem _ h)
    · refine ⟨⟨s.wf, s.inv, s.net, s.nolibc⟩, fun d hd x hx => ?_⟩
      simp only [Option.some.injEq] at hd
      subst hd
      exact Or.inl hx

theorem undoAll_ok : ∀ (ops : List Item) (a : A) (P : PfxTable) (K : SpkiTable), TableWF P → SInv K →
    (∀ it ∈ ops, it.OK) → SeqOK a P K (undoAll ops a P K) := by
  intro ops
  induction ops with
  | nil => intro a P K hP hK _; exact ⟨hP, hK, by simp [undoAll], fun h => h⟩
  | cons it rest ih =>
    intro a P K hP hK hok
    have s := applyItem_ok true a P K hP hK it (hok it (by simp))
    unfold undoAll
    simp only
    split
    · exact s.trans (ih _ _ _ s.wf s.inv (fun x hx => hok x (List.mem_cons_of_mem _ hx)))
    · exact ⟨s.wf, s.inv, s.net, s.nolibc⟩

theorem purgeF_ok (a : A) (P : PfxTable) (K : SpkiTable) (hP : TableWF P) (hK : SInv K) :
    SeqOK a P K ((purgeF a P K).1, (purgeF a P K).2.1, (purgeF a P K).2.2, ()) := by
  unfold purgeF
  simp only
  have k := ksrcRemoveF_ok (srcRemoveF a P 0).1 hK 0
  refine ⟨srcRemoveF_wf a P 0 hP, (SpkiTable.srcRemove_spec hK 0).2.1, ?_, fun h => k.2.2.2 ((run_ok _ _).nolibc ((run_ok _ a).nolibc h))⟩
  rw [k.1, srcRemoveF_net a P 0]

/-! ### the shadow tables -/

theorem freeShadowP_ok (a : A) (S : PfxTable) :
    net (freeShadowP a S).trace = net a.trace - pfxBlocks S - 1 ∧ (NoLibc a.trace → NoLibc (freeShadowP a S).trace) := by
  have f := freeF_net a S
  unfold freeShadowP
  refine ⟨?_, fun h => noLibc_snoc ((run_ok _ _).nolibc ((run_ok _ a).nolibc h)) (by intro _ _ e; cases e)⟩
  have : net ((a.run (freeActs S.v4)).run (freeActs S.t6)).trace = net a.trace - pfxBlocks S := f.1
  simp [this, Ev.delta]; omega

theorem freeShadowK_ok (a : A) (S : SpkiTable) :
    net (freeShadowK a S).trace = net a.trace - spkiBlocks S - 1 ∧ (NoLibc a.trace → NoLibc (freeShadowK a S).trace) := by
  have f := kfreeF_ok a S
  unfold freeShadowK
  refine ⟨?_, fun h => noLibc_snoc (f.2.2.2 h) (by intro _ _ e; cases e)⟩
  have : net (a.run (kfreeActs S)).trace = net a.trace - spkiBlocks S := f.1
  simp [this, Ev.delta]; omega

/-- the releases of `pfx_table_notify_diff` are the blocks that leave the old table -/
theorem pdiffActs_counts (src : Nat) : ∀ (rs : List Rec) (N O : PfxTable),
    frees (pdiffActs src rs O) + pfxBlocks (rs.foldl (ndStep src) (N, O)).2 = pfxBlocks O := by
  intro rs
  induction rs with
  | nil => intro N O; simp [pdiffActs]
  | cons r rs ih =>
    intro N O
    rw [List.foldl_cons]
    unfold pdiffActs
    by_cases hs : (r.src == src) = true
    · simp only [hs, if_true]
      have hb := remove_blocks O r
      have hc := (remActs_counts O r).1
      have e : ∃ N', ndStep src (N, O) r = (N', (O.remove r).1) := by
        unfold ndStep
        simp only [hs, if_true]
        split <;> exact ⟨_, rfl⟩
      obtain ⟨N', e⟩ := e
      rw [e, frees_append, hc]
      have := ih N' (O.remove r).1
      omega
    · simp only [hs, Bool.false_eq_true, if_false]
      have e : ndStep src (N, O) r = (N, O) := by
        unfold ndStep; simp only [hs, Bool.false_eq_true, if_false]
      rw [e]
      exact ih N O

theorem kdiffActs_counts (src : Nat) : ∀ (L : List SpkiRec) (N O : SpkiTable), SInv O →
    frees (kdiffActs src L O) + spkiBlocks (diffLoop src L (N, O)).2 = spkiBlocks O ∧
    SInv (diffLoop src L (N, O)).2 := by
  intro L
  induction L with
  | nil => intro N O iv; simp [kdiffActs, diffLoop, iv]
  | cons e rest ih =>
    intro N O iv
    unfold kdiffActs diffLoop
    by_cases hs : (e.src == src) = true
    · simp only [hs, if_true]
      obtain ⟨c1, _⟩ := kremActs_counts iv e
      have iv1 := remove_sinv iv e
      rw [frees_append]
      split
      · obtain ⟨i1, i2⟩ := ih (N.notify true e) (O.remove e).1 iv1
        exact ⟨by omega, i2⟩
      · obtain ⟨i1, i2⟩ := ih N (O.remove e).1 iv1
        exact ⟨by omega, i2⟩
    · simp only [hs, Bool.false_eq_true, if_false]
      exact ih N O iv

/-! ### the End of Data branch and the cleanup -/

/-- the table part of a synchronisation entered with PDU buffers `b` alive: tables well formed,
    nothing temporary left, buffers released -/
structure SyncOK (a : A) (b : Bufs) (P : PfxTable) (K : SpkiTable) (q : A × PfxTable × SpkiTable × SyncRes) : Prop where
  wf : TableWF q.2.1
  inv : SInv q.2.2.1
  net : Alloc.net q.1.trace = Alloc.net a.trace - bufsLive b + ((pfxBlocks q.2.1 : Int) - pfxBlocks P) +
          ((spkiBlocks q.2.2.1 : Int) - spkiBlocks K)
  nolibc : NoLibc a.trace → NoLibc q.1.trace

/-- leaving through `cleanup:` with the socket's tables untouched -/
theorem abort_ok (a0 a : A) (b : Bufs) (P : PfxTable) (K : SpkiTable) (hP : TableWF P) (hK : SInv K) (res : SyncRes)
    (hn : net a.trace = net a0.trace) (hl : NoLibc a0.trace → NoLibc a.trace) :
    SyncOK a0 b P K (freeBufs a b, P, K, res) := by
  obtain ⟨f1, f2⟩ := freeBufs_ok a b
  exact ⟨hP, hK, by simp only; rw [f1, hn]; omega, fun h => f2 (hl h)⟩

/-- leaving through `cleanup:` after steps that changed the tables by a `SeqOK` chain -/
theorem finish_ok {α : Type} (a0 : A) (b : Bufs) (P : PfxTable) (K : SpkiTable) (q : A × PfxTable × SpkiTable × α)
    (h : SeqOK a0 P K q) (res : SyncRes) : SyncOK a0 b P K (freeBufs q.1 b, q.2.1, q.2.2.1, res) := by
  obtain ⟨f1, f2⟩ := freeBufs_ok q.1 b
  exact ⟨h.wf, h.inv, by simp only; rw [f1, h.net]; omega, fun hl => f2 (h.nolibc hl)⟩

theorem items_ok_of_done {ops d : List Item} (hok : ∀ it ∈ ops, it.OK)
    (h : ∀ it ∈ d, it ∈ ([] : List Item) ∨ it ∈ ops) : ∀ it ∈ d, it.OK := by
  intro it hit
  rcases h it hit with h' | h'
  · simp at h'
  · exact hok it h'

theorem syncUpdate_ok (a : A) (b : Bufs) (P : PfxTable) (K : SpkiTable) (ops : List Item) (hP : TableWF P)
    (hK : SInv K) (hok : ∀ it ∈ ops, it.OK) : SyncOK a b P K (syncUpdate a b P K ops) := by
  obtain ⟨s1, s2⟩ := applyAll_ok ops [] a P K hP hK hok
  unfold syncUpdate
  rcases hq : applyAll ops [] a P K with ⟨a1, P1, K1, o⟩
  rw [hq] at s1 s2
  cases o with
  | none => exact finish_ok a b P K (a1, P1, K1, (none : Option (List Item))) s1 _
  | some done =>
    simp only
    have dok := items_ok_of_done hok (s2 done rfl)
    have u := undoAll_ok done a1 P1 K1 s1.wf s1.inv dok
    have su := s1.trans u
    split
    · exact finish_ok a b P K _ su _
    · have g := purgeF_ok (undoAll done a1 P1 K1).1 (undoAll done a1 P1 K1).2.1 (undoAll done a1 P1 K1).2.2.1 u.wf u.inv
      exact finish_ok a b P K _ (su.trans g) _

theorem pfxBlocks_of_roots (A' B' : PfxTable) (h4 : A'.v4 = B'.v4) (h6 : A'.t6 = B'.t6) : pfxBlocks A' = pfxBlocks B' := by
  simp [pfxBlocks, h4, h6]

theorem spkiBlocks_of_parts (A' B' : SpkiTable) (h1 : A'.ht = B'.ht) (h2 : A'.list = B'.list) :
    spkiBlocks A' = spkiBlocks B' := by
  simp [spkiBlocks, h1, h2]

/-- swap, report the difference, release the old contents: the prefix-table half -/
theorem swapDiffP_ok (a : A) (P SP : PfxTable) (hP : TableWF P) (hS : TableWF SP) :
    let sp := PfxTable.swap P SP
    let dp := if P.hasCb then
                (a.run (pdiffActs 0 (sp.1.recs4 ++ sp.1.recs6) { sp.2 with hasCb := false }), PfxTable.notifyDiff sp.1 sp.2 0)
              else (a, sp)
    TableWF dp.2.1 ∧ pfxBlocks dp.2.1 = pfxBlocks SP ∧
    net dp.1.trace + pfxBlocks P = net a.trace + pfxBlocks dp.2.2 ∧ (NoLibc a.trace → NoLibc dp.1.trace) ∧
    dp.2.1.recs = SP.recs := by
  intro sp dp
  have w1 : TableWF sp.1 := ⟨hS.w4, hS.w6⟩
  have w2 : TableWF sp.2 := ⟨hP.w4, hP.w6⟩
  have b1 : pfxBlocks sp.1 = pfxBlocks SP := pfxBlocks_of_roots _ _ rfl rfl
  have b2 : pfxBlocks sp.2 = pfxBlocks P := pfxBlocks_of_roots _ _ rfl rfl
  by_cases hcb : P.hasCb = true
  · have e : dp = (a.run (pdiffActs 0 (sp.1.recs4 ++ sp.1.recs6) { sp.2 with hasCb := false }),
        PfxTable.notifyDiff sp.1 sp.2 0) := by simp only [dp, hcb, if_true]
    rw [e]
    have nd := notifyDiff_spec sp.1 sp.2 0 w1 w2
    have r := run_ok (pdiffActs 0 (sp.1.recs4 ++ sp.1.recs6) { sp.2 with hasCb := false }) a
    have c := pdiffActs_counts 0 sp.1.recs sp.1 { sp.2 with hasCb := false }
    have e2 : (PfxTable.notifyDiff sp.1 sp.2 0).2 =
        { (sp.1.recs.foldl (ndStep 0) (sp.1, { sp.2 with hasCb := false })).2 with hasCb := sp.2.hasCb } := by
      rw [notifyDiff_eq]
    have b3 : pfxBlocks (PfxTable.notifyDiff sp.1 sp.2 0).2 =
        pfxBlocks (sp.1.recs.foldl (ndStep 0) (sp.1, { sp.2 with hasCb := false })).2 := by
      rw [e2]; exact pfxBlocks_of_roots _ _ rfl rfl
    have b4 : pfxBlocks ({ sp.2 with hasCb := false } : PfxTable) = pfxBlocks P := by
      rw [← b2]; exact pfxBlocks_of_roots _ _ rfl rfl
    refine ⟨WF_of_roots _ _ nd.v4 nd.t6 w1, by rw [pfxBlocks_of_roots _ _ nd.v4 nd.t6, b1], ?_, r.nolibc,
      by rw [recs_of_roots _ _ nd.v4 nd.t6]; exact recs_of_roots _ _ rfl rfl⟩
    simp only
    rw [r.net, b3]
    have : sp.1.recs4 ++ sp.1.recs6 = sp.1.recs := rfl
    rw [this]
    omega
  · have e : dp = (a, sp) := by simp only [dp, hcb, Bool.false_eq_true, if_false]
    rw [e]
    exact ⟨w1, b1, by simp only; rw [b2], fun h => h, recs_of_roots _ _ rfl rfl⟩

/-- swap, report the difference, release the old contents: the router-key half -/
theorem swapDiffK_ok (a : A) (K SK : SpkiTable) (hK : SInv K) (hS : SInv SK) :
    let sk := SpkiTable.swap K SK
    let dk := if K.hasCb then
                (a.run (kdiffActs 0 sk.1.list { sk.2 with hasCb := false }), SpkiTable.notifyDiff sk.1 sk.2 0)
              else (a, sk)
    SInv dk.2.1 ∧ spkiBlocks dk.2.1 = spkiBlocks SK ∧
    net dk.1.trace + spkiBlocks K = net a.trace + spkiBlocks dk.2.2 ∧ (NoLibc a.trace → NoLibc dk.1.trace) ∧
    dk.2.1.list = SK.list := by
  intro sk dk
  obtain ⟨i1, i2⟩ := sinv_swap hK hS
  have b1 : spkiBlocks sk.1 = spkiBlocks SK := spkiBlocks_of_parts _ _ rfl rfl
  have b2 : spkiBlocks sk.2 = spkiBlocks K := spkiBlocks_of_parts _ _ rfl rfl
  by_cases hcb : K.hasCb = true
  · have e : dk = (a.run (kdiffActs 0 sk.1.list { sk.2 with hasCb := false }), SpkiTable.notifyDiff sk.1 sk.2 0) := by
      simp only [dk, hcb, if_true]
    rw [e]
    obtain ⟨n1, _, n3, n4, _⟩ := SpkiTable.notifyDiff_spec sk.1 sk.2 i1 i2 0
    have r := run_ok (kdiffActs 0 sk.1.list { sk.2 with hasCb := false }) a
    have io0 : SInv ({ sk.2 with hasCb := false } : SpkiTable) := ⟨i2.ht, i2.nodup, i2.same⟩
    obtain ⟨c, _⟩ := kdiffActs_counts 0 sk.1.list sk.1 { sk.2 with hasCb := false } io0
    have b3 : spkiBlocks (SpkiTable.notifyDiff sk.1 sk.2 0).2 =
        spkiBlocks (diffLoop 0 sk.1.list (sk.1, { sk.2 with hasCb := false })).2 := by
      rcases hdl : diffLoop 0 sk.1.list (sk.1, { sk.2 with hasCb := false }) with ⟨N1, O1⟩
      have e3 : SpkiTable.notifyDiff sk.1 sk.2 0 =
          ((O1.list.filter fun e => e.src == 0).foldl (fun N e => N.notify false e) N1, { O1 with hasCb := sk.2.hasCb }) := by
        simp only [SpkiTable.notifyDiff]
        rw [hdl]
      rw [e3]
      exact spkiBlocks_of_parts _ _ rfl rfl
    have b4 : spkiBlocks ({ sk.2 with hasCb := false } : SpkiTable) = spkiBlocks K := by
      rw [← b2]; exact spkiBlocks_of_parts _ _ rfl rfl
    refine ⟨n1, by rw [spkiBlocks_of_parts _ _ n4 n3, b1], ?_, r.nolibc, by rw [n3]; rfl⟩
    simp only
    rw [r.net, b3]
    omega
  · have e : dk = (a, sk) := by simp only [dk, hcb, Bool.false_eq_true, if_false]
    rw [e]
    exact ⟨i1, b1, by simp only; rw [b2], fun h => h, rfl⟩

theorem syncReset_ok (a : A) (b : Bufs) (P : PfxTable) (K : SpkiTable) (ops : List Item) (hP : TableWF P)
    (hK : SInv K) (hok : ∀ it ∈ ops, it.OK) : SyncOK a b P K (syncReset a b P K ops) := by
  unfold syncReset
  simp only
  have q1 := malloc_ok a .ptab 1
  by_cases h1 : a.hits 1
  · obtain ⟨e1, _, _, n1⟩ := q1.hit h1
    simp only [e1, Bool.not_false, if_true]
    exact abort_ok a _ b P K hP hK _ n1 q1.nolibc
  obtain ⟨e1, _, _, n1⟩ := q1.pass h1
  simp only [e1, Bool.not_true, Bool.false_eq_true, if_false]
  have w0 : TableWF ({ hasCb := false } : PfxTable) := ⟨trivial, trivial⟩
  have c1 := copyExceptF_ok (a.malloc .ptab 1).2 P { hasCb := false } 0 hP w0
  have b0 : pfxBlocks ({ hasCb := false } : PfxTable) = 0 := rfl
  have nc1 : net (copyExceptF (a.malloc .ptab 1).2 P { hasCb := false } 0).1.trace =
      net a.trace + 1 + pfxBlocks (copyExceptF (a.malloc .ptab 1).2 P { hasCb := false } 0).2.1 := by
    rw [c1.net, n1, b0]; omega
  have lc1 : NoLibc a.trace → NoLibc (copyExceptF (a.malloc .ptab 1).2 P { hasCb := false } 0).1.trace :=
    fun h => c1.nolibc (q1.nolibc h)
  generalize copyExceptF (a.malloc .ptab 1).2 P { hasCb := false } 0 = C1 at c1 nc1 lc1
  obtain ⟨ac, SP0, rc1⟩ := C1
  simp only at c1 nc1 lc1 ⊢
  split
  · obtain ⟨f1, f2⟩ := freeShadowP_ok ac SP0
    exact abort_ok a _ b P K hP hK _ (by rw [f1, nc1]; omega) (fun h => f2 (lc1 h))
  have q2 := malloc_ok ac .ktab 1
  by_cases h2 : ac.hits 1
  · obtain ⟨e2, _, _, n2⟩ := q2.hit h2
    simp only [e2, Bool.not_false, if_true]
    obtain ⟨f1, f2⟩ := freeShadowP_ok (ac.malloc .ktab 1).2 SP0
    exact abort_ok a _ b P K hP hK _ (by rw [f1, n2, nc1]; omega) (fun h => f2 (q2.nolibc (lc1 h)))
  obtain ⟨e2, _, _, n2⟩ := q2.pass h2
  simp only [e2, Bool.not_true, Bool.false_eq_true, if_false]
  obtain ⟨k1, k2, k3⟩ := kinitF_ok (ac.malloc .ktab 1).2 false
  by_cases h3 : (ac.malloc .ktab 1).2.hits 1
  · obtain ⟨e3, _, _, n3⟩ := k2 h3
    rw [e3]
    simp only
    obtain ⟨f1, f2⟩ := freeShadowP_ok ((kinitF (ac.malloc .ktab 1).2 false).1.free .ktab 1) SP0
    refine abort_ok a _ b P K hP hK _ ?_ (fun h => f2 (noLibc_snoc (k3 (q2.nolibc (lc1 h))) (by intro _ _ e; cases e)))
    rw [f1]
    simp only [free_trace, net_snoc, Ev.delta]
    rw [n3, n2, nc1]; omega
  obtain ⟨e3, _, _, n3⟩ := k1 h3
  rw [e3]
  simp only
  have iv0 : SInv (SpkiTable.init false) := SpkiTable.sinv_init false
  have c2 := kcopyLoopF_ok 0 K.list (kinitF (ac.malloc .ktab 1).2 false).1 (SpkiTable.init false) iv0
  have nc2 : net (kcopyExceptF (kinitF (ac.malloc .ktab 1).2 false).1 K (SpkiTable.init false) 0).1.trace =
      net a.trace + 2 + pfxBlocks SP0 + spkiBlocks (kcopyExceptF (kinitF (ac.malloc .ktab 1).2 false).1 K (SpkiTable.init false) 0).2.1 := by
    show net (kcopyLoopF 0 K.list _ _).1.trace = _
    rw [c2.net, n3, n2, nc1, spkiBlocks_init]
    show _ = net a.trace + 2 + pfxBlocks SP0 + spkiBlocks (kcopyLoopF 0 K.list _ _).2.1
    omega
  have lc2 : NoLibc a.trace → NoLibc (kcopyExceptF (kinitF (ac.malloc .ktab 1).2 false).1 K (SpkiTable.init false) 0).1.trace :=
    fun h => c2.nolibc (k3 (q2.nolibc (lc1 h)))
  have ic2 : SInv (kcopyExceptF (kinitF (ac.malloc .ktab 1).2 false).1 K (SpkiTable.init false) 0).2.1 := c2.inv
  generalize kcopyExceptF (kinitF (ac.malloc .ktab 1).2 false).1 K (SpkiTable.init false) 0 = C2 at nc2 lc2 ic2
  obtain ⟨ak, SK0, rc2⟩ := C2
  simp only at nc2 lc2 ic2 ⊢
  split
  · obtain ⟨f1, f2⟩ := freeShadowP_ok ak SP0
    obtain ⟨g1, g2⟩ := freeShadowK_ok (freeShadowP ak SP0) SK0
    exact abort_ok a _ b P K hP hK _ (by rw [g1, f1, nc2]; omega) (fun h => g2 (f2 (lc2 h)))
  obtain ⟨s1, s2⟩ := applyAll_ok ops [] ak SP0 SK0 c1.wf ic2 hok
  rcases hq : applyAll ops [] ak SP0 SK0 with ⟨a1, SP, SK, o⟩
  rw [hq] at s1 s2
  have na1 : net a1.trace = net a.trace + 2 + pfxBlocks SP + spkiBlocks SK := by
    have := s1.net
    simp only at this
    rw [this, nc2]; omega
  have la1 : NoLibc a.trace → NoLibc a1.trace := fun h => s1.nolibc (lc2 h)
  cases o with
  | none =>
    simp only
    obtain ⟨p1, p2, p3, p4, _⟩ := swapDiffP_ok a1 P SP hP s1.wf
    generalize (if P.hasCb then
        (a1.run (pdiffActs 0 ((PfxTable.swap P SP).1.recs4 ++ (PfxTable.swap P SP).1.recs6)
          { (PfxTable.swap P SP).2 with hasCb := false }), PfxTable.notifyDiff (PfxTable.swap P SP).1 (PfxTable.swap P SP).2 0)
        else (a1, PfxTable.swap P SP)) = DP at p1 p2 p3 p4
    obtain ⟨ap, P', OP⟩ := DP
    simp only at p1 p2 p3 p4 ⊢
    obtain ⟨t1, t2, t3, t4, _⟩ := swapDiffK_ok ap K SK hK s1.inv
    generalize (if K.hasCb then
        (ap.run (kdiffActs 0 (SpkiTable.swap K SK).1.list { (SpkiTable.swap K SK).2 with hasCb := false }),
          SpkiTable.notifyDiff (SpkiTable.swap K SK).1 (SpkiTable.swap K SK).2 0)
        else (ap, SpkiTable.swap K SK)) = DK at t1 t2 t3 t4
    obtain ⟨ad, K', OK⟩ := DK
    simp only at t1 t2 t3 t4 ⊢
    obtain ⟨f1, f2⟩ := freeShadowP_ok ad OP
    obtain ⟨g1, g2⟩ := freeShadowK_ok (freeShadowP ad OP) OK
    obtain ⟨z1, z2⟩ := freeBufs_ok (freeShadowK (freeShadowP ad OP) OK) b
    refine ⟨p1, t1, ?_, fun h => z2 (g2 (f2 (t4 (p4 (la1 h)))))⟩
    simp only
    rw [z1, g1, f1, p2, t2]
    omega
  | some done =>
    simp only
    have dok := items_ok_of_done hok (s2 done rfl)
    have u := undoAll_ok done a1 SP SK s1.wf s1.inv dok
    have nu : net (undoAll done a1 SP SK).1.trace = net a.trace + 2 + pfxBlocks (undoAll done a1 SP SK).2.1 +
        spkiBlocks (undoAll done a1 SP SK).2.2.1 := by
      rw [u.net, na1]; omega
    have lu : NoLibc a.trace → NoLibc (undoAll done a1 SP SK).1.trace := fun h => u.nolibc (la1 h)
    generalize undoAll done a1 SP SK = U at u nu lu
    obtain ⟨au, SPu, SKu, okk⟩ := U
    simp only at nu lu ⊢
    split
    · obtain ⟨f1, f2⟩ := freeShadowP_ok au SPu
      obtain ⟨g1, g2⟩ := freeShadowK_ok (freeShadowP au SPu) SKu
      exact abort_ok a _ b P K hP hK _ (by rw [g1, f1, nu]; omega) (fun h => g2 (f2 (lu h)))
    · have g := purgeF_ok au P K hP hK
      obtain ⟨f1, f2⟩ := freeShadowP_ok (purgeF au P K).1 SPu
      obtain ⟨g1, g2⟩ := freeShadowK_ok (freeShadowP (purgeF au P K).1 SPu) SKu
      obtain ⟨z1, z2⟩ := freeBufs_ok (freeShadowK (freeShadowP (purgeF au P K).1 SPu) SKu) b
      refine ⟨g.wf, g.inv, ?_, fun h => z2 (g2 (f2 (g.nolibc (lu h))))⟩
      have gn := g.net
      simp only at gn ⊢
      rw [z1, g1, f1, gn, nu]
      omega

/-- **the table part of a synchronisation never leaks**: whatever the oracle does -/
theorem syncF_ok (a : A) (P : PfxTable) (K : SpkiTable) (reset : Bool) (items : List Item) (hP : TableWF P)
    (hK : SInv K) (hok : ∀ it ∈ items, it.OK) : SyncOK a {} P K (syncF a P K reset items) := by
  obtain ⟨st1, st2⟩ := storeLoop_ok items a {}
  unfold syncF
  simp only
  have hb0 : bufsLive ({} : Bufs) = 0 := rfl
  have hops : ∀ it ∈ items.filter Item.isP4 ++ items.filter Item.isP6 ++ items.filter Item.isKey, it.OK := by
    intro it hit
    simp only [List.mem_append, List.mem_filter] at hit
    rcases hit with (h | h) | h <;> exact hok it h.1
  split
  · obtain ⟨f1, f2⟩ := freeBufs_ok (storeLoop items a {}).2.1 (storeLoop items a {}).2.2
    refine ⟨hP, hK, ?_, fun h => f2 (st2 h)⟩
    simp only
    rw [f1, st1, hb0]; omega
  · have lift : ∀ q, SyncOK (storeLoop items a {}).2.1 (storeLoop items a {}).2.2 P K q → SyncOK a {} P K q := by
      intro q h
      refine ⟨h.wf, h.inv, ?_, fun hl => h.nolibc (st2 hl)⟩
      rw [h.net, st1, hb0]; omega
    split
    · exact lift _ (syncReset_ok _ _ P K _ hP hK hops)
    · exact lift _ (syncUpdate_ok _ _ P K _ hP hK hops)

/-! ## Part 2: what a synchronisation leaves in the tables, whatever the oracle does

  The two tables are read as ONE duplicate-free list over `Rec ⊕ SpkiRec`, so that the key lemma of C03
  (`ls_forward_undo`: a forward-order undo that succeeds at every step restores the set) applies to
  the interleaved sequence of prefix and router-key updates directly. -/

open Rtr.P (lsApply lsApplyAll lsUndoAll ls_forward_undo SameSet lsApply_other)

/-- abstract contents of the two tables -/
def absS (P : PfxTable) (K : SpkiTable) : List (Rec ⊕ SpkiRec) := P.recs.map .inl ++ K.list.map .inr

/-- the announcement / withdrawal a payload PDU stands for -/
def Item.op : Item → Bool × (Rec ⊕ SpkiRec)
  | .p4 f r => (f, .inl r)
  | .p6 f r => (f, .inl r)
  | .key f r => (f, .inr r)

def srcOf : Rec ⊕ SpkiRec → Nat
  | .inl r => r.src
  | .inr k => k.src

structure Abs (P : PfxTable) (K : SpkiTable) (s : List (Rec ⊕ SpkiRec)) : Prop where
  wf : TableWF P
  inv : SInv K
  perm : (absS P K).Perm s

theorem absS_nodup {P : PfxTable} {K : SpkiTable} (hP : TableWF P) (hK : SInv K) : (absS P K).Nodup := by
  unfold absS
  rw [List.nodup_append]
  refine ⟨List.Pairwise.map _ (fun a b hab e => hab (Sum.inl.inj e)) (recs_nodup P hP),
    List.Pairwise.map _ (fun a b hab e => hab (Sum.inr.inj e)) hK.nodup, ?_⟩
  intro x hx y hy e
  simp only [List.mem_map] at hx hy
  obtain ⟨_, _, rfl⟩ := hx
  obtain ⟨_, _, rfl⟩ := hy
  cases e

theorem Abs.nodup {P : PfxTable} {K : SpkiTable} {s : List (Rec ⊕ SpkiRec)} (h : Abs P K s) : s.Nodup :=
  h.perm.nodup_iff.mp (absS_nodup h.wf h.inv)

theorem mem_absS_inl (P : PfxTable) (K : SpkiTable) (r : Rec) : Sum.inl r ∈ absS P K ↔ r ∈ P.recs := by
  simp [absS]

theorem mem_absS_inr (P : PfxTable) (K : SpkiTable) (k : SpkiRec) : Sum.inr k ∈ absS P K ↔ k ∈ K.list := by
  simp [absS]

theorem Abs.mem_inl {P : PfxTable} {K : SpkiTable} {s : List (Rec ⊕ SpkiRec)} (h : Abs P K s) (r : Rec) :
    Sum.inl r ∈ s ↔ r ∈ P.recs := by rw [← h.perm.mem_iff, mem_absS_inl]

theorem Abs.mem_inr {P : PfxTable} {K : SpkiTable} {s : List (Rec ⊕ SpkiRec)} (h : Abs P K s) (k : SpkiRec) :
    Sum.inr k ∈ s ↔ k ∈ K.list := by rw [← h.perm.mem_iff, mem_absS_inr]

theorem absS_perm_P {P P' : PfxTable} (K : SpkiTable) {r : Rec} (h : P'.recs.Perm (r :: P.recs)) :
    (absS P' K).Perm (Sum.inl r :: absS P K) := by
  unfold absS
  have := (h.map (Sum.inl : Rec → Rec ⊕ SpkiRec)).append_right (K.list.map Sum.inr)
  simpa using this

theorem absS_perm_K (P : PfxTable) {K K' : SpkiTable} {k : SpkiRec} (h : K'.list.Perm (k :: K.list)) :
    (absS P K').Perm (Sum.inr k :: absS P K) := by
  unfold absS
  have := (h.map (Sum.inr : SpkiRec → Rec ⊕ SpkiRec)).append_left (P.recs.map Sum.inl)
  refine this.trans ?_
  simp only [List.map_cons]
  exact List.perm_middle

/-- adding an absent element -/
theorem abs_add {P P' : PfxTable} {K K' : SpkiTable} {s : List (Rec ⊕ SpkiRec)} (h : Abs P K s) (x : Rec ⊕ SpkiRec)
    (hx : x ∉ s) (wf : TableWF P') (inv : SInv K') (hp : (absS P' K').Perm (x :: absS P K)) :
    (lsApply s true x).2 = .success ∧ Abs P' K' (lsApply s true x).1 := by
  have e : lsApply s true x = (x :: s, .success) := by simp [lsApply, hx]
  rw [e]
  exact ⟨rfl, wf, inv, hp.trans (List.Perm.cons x h.perm)⟩

/-- removing a present element -/
theorem abs_rem {P P' : PfxTable} {K K' : SpkiTable} {s : List (Rec ⊕ SpkiRec)} (h : Abs P K s) (x : Rec ⊕ SpkiRec)
    (hx : x ∈ s) (wf : TableWF P') (inv : SInv K') (hp : (absS P K).Perm (x :: absS P' K')) :
    (lsApply s false x).2 = .success ∧ Abs P' K' (lsApply s false x).1 := by
  have nd0 : (x :: absS P' K').Nodup := hp.nodup_iff.mp (absS_nodup h.wf h.inv)
  have nd' : (absS P' K').Nodup := (List.nodup_cons.mp nd0).2
  have hxn : x ∉ absS P' K' := (List.nodup_cons.mp nd0).1
  simp only [lsApply, Bool.false_eq_true, if_false, hx, if_true]
  refine ⟨by first | rfl | trivial, wf, inv, ?_⟩
  have key : ∀ (t : List (Rec ⊕ SpkiRec)), t.Nodup → (∀ y, y ∈ t ↔ y ≠ x ∧ y ∈ s) → (absS P' K').Perm t := by
    intro t nt ht
    refine (List.perm_ext_iff_of_nodup nd' nt).2 (fun y => ?_)
    rw [ht, ← h.perm.mem_iff, hp.mem_iff, List.mem_cons]
    constructor
    · intro hy
      exact ⟨fun e => hxn (e ▸ hy), Or.inr hy⟩
    · rintro ⟨hne, hy | hy⟩
      · exact absurd hy hne
      · exact hy
  apply key
  · exact h.nodup.sublist (@List.erase_sublist _ instBEqOfDecidableEq x s)
  · intro y; exact @List.Nodup.mem_erase_iff _ instBEqOfDecidableEq s x inferInstance y h.nodup

theorem beq_success_iff (rc : PfxRc) : (rc == PfxRc.success) = true ↔ rc = .success := by
  cases rc <;> decide

theorem kbeq_success_iff (rc : SpkiRc) : (rc == SpkiRc.success) = true ↔ rc = .success := by
  cases rc <;> decide

/-- one update (or its inverse) on the tables, abstractly: a successful step is the set operation,
    an unsuccessful one — whatever the reason, including a refused allocation — changes nothing -/
theorem applyItem_abs (undo : Bool) (a : A) (P : PfxTable) (K : SpkiTable) (it : Item) (hit : it.OK)
    (s : List (Rec ⊕ SpkiRec)) (h : Abs P K s) :
    ((applyItem undo a P K it).2.2.2 = true →
      (lsApply s (it.op.1 != undo) it.op.2).2 = .success ∧
      Abs (applyItem undo a P K it).2.1 (applyItem undo a P K it).2.2.1 (lsApply s (it.op.1 != undo) it.op.2).1) ∧
    ((applyItem undo a P K it).2.2.2 = false →
      Abs (applyItem undo a P K it).2.1 (applyItem undo a P K it).2.2.1 s) := by
  have pfxcase : ∀ (add : Bool) (r : Rec), RecOK r →
      (((if add != undo then addF a P r else removeF a P r).2.2 == PfxRc.success) = true →
        (lsApply s (add != undo) (Sum.inl r)).2 = .success ∧
        Abs (if add != undo then addF a P r else removeF a P r).2.1 K (lsApply s (add != undo) (Sum.inl r)).1) ∧
      (((if add != undo then addF a P r else removeF a P r).2.2 == PfxRc.success) = false →
        Abs (if add != undo then addF a P r else removeF a P r).2.1 K s) := by
    intro add r hr
    by_cases hf : (add != undo) = true
    · simp only [hf, if_true]
      have sp := add_spec P r h.wf hr
      rcases addF_cases a P r with e | e
      · rw [e]
        by_cases hin : r ∈ P.recs
        · obtain ⟨d1, d2⟩ := sp.dup hin
          rw [d1, d2]
          exact ⟨fun hc => by simp at hc, fun _ => h⟩
        · obtain ⟨o1, o2, _⟩ := sp.ok hin
          rw [o1]
          refine ⟨fun _ => ?_, fun hc => by simp at hc⟩
          exact abs_add h _ (fun hx => hin ((h.mem_inl r).1 hx)) sp.wf h.inv (absS_perm_P K o2)
      · rw [e]
        exact ⟨fun hc => by simp at hc, fun _ => h⟩
    · have hff : (add != undo) = false := by simpa using hf
      simp only [hff, Bool.false_eq_true, if_false]
      have sp := remove_spec P r h.wf
      rw [removeF_result]
      by_cases hin : r ∈ P.recs
      · obtain ⟨o1, o2, _⟩ := sp.ok hin
        rw [o1]
        refine ⟨fun _ => ?_, fun hc => by simp at hc⟩
        exact abs_rem h _ ((h.mem_inl r).2 hin) sp.wf h.inv (absS_perm_P K o2)
      · obtain ⟨n1, n2⟩ := sp.nf hin
        rw [n1, n2]
        exact ⟨fun hc => by simp at hc, fun _ => h⟩
  cases it with
  | p4 add r => unfold applyItem; simp only [Item.op]; exact pfxcase add r hit.1
  | p6 add r => unfold applyItem; simp only [Item.op]; exact pfxcase add r hit.1
  | key add r =>
    unfold applyItem
    simp only [Item.op]
    by_cases hf : (add != undo) = true
    · simp only [hf, if_true]
      rcases kaddF_cases a h.inv r with e | e | ⟨e, hr⟩
      · rw [e]
        by_cases hin : r ∈ K.list
        · rw [add_dup h.inv r hin]
          exact ⟨fun hc => by simp at hc, fun _ => h⟩
        · obtain ⟨o1, o2, o3, _⟩ := add_new_spec h.inv r hin
          rw [o1]
          refine ⟨fun _ => ?_, fun hc => by simp at hc⟩
          refine abs_add h _ (fun hx => hin ((h.mem_inr r).1 hx)) h.wf o2 (absS_perm_K P ?_)
          rw [o3]; exact List.perm_append_singleton r K.list
      · rw [e]
        exact ⟨fun hc => by simp at hc, fun _ => h⟩
      · rw [e]
        obtain ⟨n1, n2, _⟩ := addNoGrow_spec h.inv r hr
        refine ⟨fun _ => ?_, fun hc => by simp at hc⟩
        refine abs_add h _ (fun hx => hr ((h.mem_inr r).1 hx)) h.wf n1 (absS_perm_K P ?_)
        rw [n2, (add_new_spec h.inv r hr).2.2.1]; exact List.perm_append_singleton r K.list
    · have hff : (add != undo) = false := by simpa using hf
      simp only [hff, Bool.false_eq_true, if_false]
      rw [kremoveF_result]
      by_cases hin : r ∈ K.list
      · obtain ⟨o1, o2, o3, _⟩ := remove_present_spec h.inv r hin
        rw [o1]
        refine ⟨fun _ => ?_, fun hc => by simp at hc⟩
        refine abs_rem h _ ((h.mem_inr r).2 hin) h.wf o2 (absS_perm_K P ?_)
        rw [o3]; exact List.perm_cons_erase hin
      · rw [remove_absent h.inv r hin]
        exact ⟨fun hc => by simp at hc, fun _ => h⟩

/-- records of the other sockets are the same in both lists -/
def Others (s s0 : List (Rec ⊕ SpkiRec)) : Prop := ∀ x, srcOf x ≠ 0 → (x ∈ s ↔ x ∈ s0)

theorem Others.refl (s : List (Rec ⊕ SpkiRec)) : Others s s := fun _ _ => Iff.rfl
theorem Others.trans {a b c : List (Rec ⊕ SpkiRec)} (h1 : Others a b) (h2 : Others b c) : Others a c :=
  fun x hx => (h1 x hx).trans (h2 x hx)

theorem item_src (it : Item) (hit : it.OK) : srcOf it.op.2 = 0 := by
  cases it with
  | p4 add r => show r.src = 0; exact hit.2
  | p6 add r => show r.src = 0; exact hit.2
  | key add r => show r.src = 0; exact hit


/-- whatever its outcome, a step touches only a record of this socket -/
theorem applyItem_others (undo : Bool) (a : A) (P : PfxTable) (K : SpkiTable) (it : Item) (hit : it.OK)
    (s : List (Rec ⊕ SpkiRec)) (h : Abs P K s) :
    ∃ s', Abs (applyItem undo a P K it).2.1 (applyItem undo a P K it).2.2.1 s' ∧ Others s' s := by
  obtain ⟨h1, h2⟩ := applyItem_abs undo a P K it hit s h
  cases hb : (applyItem undo a P K it).2.2.2 with
  | true =>
    refine ⟨_, (h1 hb).2, fun x hx => ?_⟩
    have hne : x ≠ it.op.2 := by
      intro e; rw [e, item_src it hit] at hx; exact hx rfl
    exact lsApply_other s _ _ _ _ rfl x hne
  | false => exact ⟨s, h2 hb, Others.refl s⟩

theorem applyAll_others : ∀ (ops done : List Item) (a : A) (P : PfxTable) (K : SpkiTable) (s : List (Rec ⊕ SpkiRec)),
    Abs P K s → (∀ it ∈ ops, it.OK) →
    ∃ s', Abs (applyAll ops done a P K).2.1 (applyAll ops done a P K).2.2.1 s' ∧ Others s' s := by
  intro ops
  induction ops with
  | nil => intro done a P K s h _; exact ⟨s, h, Others.refl s⟩
  | cons it rest ih =>
    intro done a P K s h hok
    obtain ⟨s1, a1, o1⟩ := applyItem_others false a P K it (hok it (by simp)) s h
    unfold applyAll
    simp only
    split
    · obtain ⟨s2, a2, o2⟩ := ih (done ++ [it]) _ _ _ s1 a1 (fun x hx => hok x (List.mem_cons_of_mem _ hx))
      exact ⟨s2, a2, o2.trans o1⟩
    · exact ⟨s1, a1, o1⟩

theorem undoAll_others : ∀ (ops : List Item) (a : A) (P : PfxTable) (K : SpkiTable) (s : List (Rec ⊕ SpkiRec)),
    Abs P K s → (∀ it ∈ ops, it.OK) →
    ∃ s', Abs (undoAll ops a P K).2.1 (undoAll ops a P K).2.2.1 s' ∧ Others s' s := by
  intro ops
  induction ops with
  | nil => intro a P K s h _; exact ⟨s, h, Others.refl s⟩
  | cons it rest ih =>
    intro a P K s h hok
    obtain ⟨s1, a1, o1⟩ := applyItem_others true a P K it (hok it (by simp)) s h
    unfold undoAll
    simp only
    split
    · obtain ⟨s2, a2, o2⟩ := ih _ _ _ s1 a1 (fun x hx => hok x (List.mem_cons_of_mem _ hx))
      exact ⟨s2, a2, o2.trans o1⟩
    · exact ⟨s1, a1, o1⟩

/-- the apply loops, abstractly: all PDUs applied, or the PDUs before the failing one applied -/
theorem applyAll_abs : ∀ (ops done : List Item) (a : A) (P : PfxTable) (K : SpkiTable) (s : List (Rec ⊕ SpkiRec)),
    Abs P K s → (∀ it ∈ ops, it.OK) →
    ((applyAll ops done a P K).2.2.2 = none →
      ∃ s', lsApplyAll s (ops.map Item.op) = some s' ∧ Abs (applyAll ops done a P K).2.1 (applyAll ops done a P K).2.2.1 s') ∧
    (∀ d, (applyAll ops done a P K).2.2.2 = some d →
      ∃ pre, d = done ++ pre ∧ (∀ it ∈ pre, it ∈ ops) ∧
        ∃ s', lsApplyAll s (pre.map Item.op) = some s' ∧ Abs (applyAll ops done a P K).2.1 (applyAll ops done a P K).2.2.1 s') := by
  intro ops
  induction ops with
  | nil =>
    intro done a P K s h _
    refine ⟨fun _ => ⟨s, rfl, h⟩, fun d hd => ?_⟩
    simp [applyAll] at hd
  | cons it rest ih =>
    intro done a P K s h hok
    obtain ⟨h1, h2⟩ := applyItem_abs false a P K it (hok it (by simp)) s h
    have hflag : (it.op.1 != false) = it.op.1 := by cases it.op.1 <;> rfl
    unfold applyAll
    simp only
    split
    · rename_i hs
      obtain ⟨r1, r2⟩ := h1 hs
      rw [hflag] at r1 r2
      obtain ⟨i1, i2⟩ := ih (done ++ [it]) _ _ _ _ r2 (fun x hx => hok x (List.mem_cons_of_mem _ hx))
      have step : ∀ l, lsApplyAll s (it.op :: l) = lsApplyAll (lsApply s it.op.1 it.op.2).1 l := by
        intro l
        rcases hop : it.op with ⟨f, x⟩
        rw [hop] at r1
        simp only at r1
        simp only [lsApplyAll]
        rcases hl : lsApply s f x with ⟨t', rc⟩
        rw [hl] at r1
        simp only at r1
        subst r1
        rfl
      refine ⟨fun hn => ?_, fun d hd => ?_⟩
      · obtain ⟨s', e, ab⟩ := i1 hn
        exact ⟨s', by rw [List.map_cons, step]; exact e, ab⟩
      · obtain ⟨pre, e1, e2, s', e3, ab⟩ := i2 d hd
        refine ⟨it :: pre, by rw [e1]; simp, ?_, s', by rw [List.map_cons, step]; exact e3, ab⟩
        intro x hx
        rcases List.mem_cons.mp hx with rfl | hx
        · simp
        · exact List.mem_cons_of_mem _ (e2 x hx)
    · rename_i hs
      have hs' : (applyItem false a P K it).2.2.2 = false := by simpa using hs
      refine ⟨fun hn => by simp at hn, fun d hd => ?_⟩
      simp only [Option.some.injEq] at hd
      subst hd
      exact ⟨[], by simp, by simp, s, rfl, h2 hs'⟩

/-- the undo loops, abstractly: if every inverse operation succeeded, the inverse list was applied -/
theorem undoAll_abs : ∀ (ops : List Item) (a : A) (P : PfxTable) (K : SpkiTable) (s : List (Rec ⊕ SpkiRec)),
    Abs P K s → (∀ it ∈ ops, it.OK) → (undoAll ops a P K).2.2.2 = true →
    ∃ s', lsUndoAll s (ops.map Item.op) = some s' ∧ Abs (undoAll ops a P K).2.1 (undoAll ops a P K).2.2.1 s' := by
  intro ops
  induction ops with
  | nil => intro a P K s h _ _; exact ⟨s, rfl, h⟩
  | cons it rest ih =>
    intro a P K s h hok hu
    obtain ⟨h1, _⟩ := applyItem_abs true a P K it (hok it (by simp)) s h
    have hflag : (it.op.1 != true) = !it.op.1 := by cases it.op.1 <;> rfl
    unfold undoAll at hu ⊢
    simp only at hu ⊢
    split at hu
    · rename_i hs
      simp only [hs, if_true]
      obtain ⟨r1, r2⟩ := h1 hs
      rw [hflag] at r1 r2
      obtain ⟨s', e, ab⟩ := ih _ _ _ _ r2 (fun x hx => hok x (List.mem_cons_of_mem _ hx)) hu
      refine ⟨s', ?_, ab⟩
      rw [List.map_cons]
      rcases hop : it.op with ⟨f, x⟩
      rw [hop] at r1 e
      simp only at r1 e
      simp only [lsUndoAll]
      rcases hl : lsApply s (!f) x with ⟨t', rc⟩
      rw [hl] at r1 e
      simp only at r1 e
      subst r1
      exact e
    · simp at hu

/-! ### successful copies are complete -/

theorem copyPass_sticky (src : Nat) : ∀ (rs : List Rec) (a : A) (D : PfxTable), (copyPass src (a, D, true) rs).2.2 = true := by
  intro rs
  induction rs with
  | nil => intro a D; rfl
  | cons r rs ih =>
    intro a D
    by_cases hp : (r.src != src) = true
    · rw [copyPass_cons_pos src a D true r rs hp]
      simp only [Bool.true_or]
      exact ih _ _
    · rw [copyPass_cons_neg src a D true r rs hp]
      exact ih a D

/-- a pass that ends without the error flag made exactly the model's adds -/
theorem copyPass_success (src : Nat) : ∀ (rs : List Rec) (a : A) (D : PfxTable) (e : Bool),
    (copyPass src (a, D, e) rs).2.2 = false →
    e = false ∧ (copyPass src (a, D, e) rs).2 = rs.foldl (addStep fun r => r.src != src) (D, e) := by
  intro rs
  induction rs with
  | nil => intro a D e h; exact ⟨h, rfl⟩
  | cons r rs ih =>
    intro a D e h
    rw [List.foldl_cons]
    by_cases hp : (r.src != src) = true
    · rw [copyPass_cons_pos src a D e r rs hp] at h ⊢
      obtain ⟨i1, i2⟩ := ih _ _ _ h
      have he : e = false := by cases e <;> simp_all
      have hrc : (addF a D r).2.2 = .success := by
        cases hc : (addF a D r).2.2 <;> simp_all
      have hadd : (addF a D r).2 = D.add r := by
        rcases addF_cases a D r with c | c
        · exact c
        · rw [c] at hrc; cases hrc
      have e1 : addStep (fun r => r.src != src) (D, e) r = ((addF a D r).2.1, e || (addF a D r).2.2 != .success) := by
        simp only [addStep, hp, if_true, hadd]
      rw [e1]
      exact ⟨he, i2⟩
    · rw [copyPass_cons_neg src a D e r rs hp] at h ⊢
      have e1 : addStep (fun r => r.src != src) (D, e) r = (D, e) := by
        simp [addStep, hp]
      rw [e1]
      exact ih a D e h

/-- a successful `pfx_table_copy_except_socket` into an empty table holds exactly the records of the
    other sockets -/
theorem copyExceptF_success (a : A) (S D : PfxTable) (src : Nat) (hS : TableWF S) (hD : TableWF D) (hE : D.recs = [])
    (h : (copyExceptF a S D src).2.2 = .success) :
    (copyExceptF a S D src).2.1.recs.Perm (S.recs.filter fun r => r.src != src) := by
  have sp := copyExcept_spec S D src hS hD hE
  rw [copyExcept_eq] at sp
  unfold copyExceptF at h ⊢
  simp only at h ⊢
  split at h
  · cases h
  · rename_i h1
    have h1' : (copyPass src (a, D, false) S.recs4).2.2 = false := by simpa using h1
    obtain ⟨_, c1⟩ := copyPass_success src S.recs4 a D false h1'
    simp only [h1, Bool.false_eq_true, if_false] at h ⊢
    split at h
    · cases h
    · rename_i h2
      have h2' : (copyPass src ((copyPass src (a, D, false) S.recs4).1, (copyPass src (a, D, false) S.recs4).2.1, false) S.recs6).2.2 = false := by
        simpa using h2
      obtain ⟨_, c2⟩ := copyPass_success src S.recs6 _ _ false h2'
      simp only [h2, Bool.false_eq_true, if_false]
      have e1 : (S.recs4.foldl (addStep fun r => r.src != src) (D, false)) = (copyPass src (a, D, false) S.recs4).2 := c1.symm
      rw [e1] at sp
      simp only [h1', Bool.false_eq_true, if_false] at sp
      have e2 : S.recs6.foldl (addStep fun r => r.src != src) ((copyPass src (a, D, false) S.recs4).2.1, false) =
          (copyPass src ((copyPass src (a, D, false) S.recs4).1, (copyPass src (a, D, false) S.recs4).2.1, false) S.recs6).2 := c2.symm
      rw [e2] at sp
      simp only [h2', Bool.false_eq_true, if_false] at sp
      exact sp.recs

/-- a successful `spki_table_copy_except_socket` appended exactly the entries of the other sockets -/
theorem kcopyLoopF_success (src : Nat) : ∀ (L : List SpkiRec) (a : A) (D : SpkiTable), SInv D →
    (kcopyLoopF src L a D).2.2 = .success →
    (kcopyLoopF src L a D).2.1.list = D.list ++ L.filter (fun e => e.src != src) := by
  intro L
  induction L with
  | nil => intro a D _ _; simp [kcopyLoopF]
  | cons e rest ih =>
    intro a D iv h
    unfold kcopyLoopF at h ⊢
    by_cases hp : (e.src != src) = true
    · simp only [hp, if_true] at h ⊢
      have iv1 := kaddF_sinv a iv e
      have cs := kaddF_cases a iv e
      rcases hq : kaddF a D e with ⟨a', D', rc⟩
      rw [hq] at h iv1 cs
      simp only at h iv1 cs ⊢
      cases rc with
      | success =>
        simp only at h ⊢
        have hl : D'.list = D.list ++ [e] := by
          rcases cs with c | c | ⟨c, hr⟩
          · by_cases hin : e ∈ D.list
            · rw [add_dup iv e hin] at c; cases c
            · have := (add_new_spec iv e hin).2.2.1
              rw [← c] at this; exact this
          · cases c
          · have := (addNoGrow_spec iv e hr).2.1
            rw [(add_new_spec iv e hr).2.2.1] at this
            have hd : D' = addNoGrow D e := by injection c
            rw [hd]; exact this
        rw [ih a' D' iv1 h, hl]
        have : List.filter (fun e => e.src != src) (e :: rest) = e :: List.filter (fun e => e.src != src) rest := by
          simp only [List.filter_cons, hp, if_true]
        rw [this]
        simp
      | error => cases h
      | duplicate => cases h
      | notFound => cases h
    · simp only [hp, Bool.false_eq_true, if_false] at h ⊢
      rw [ih a D iv h]
      have : List.filter (fun e => e.src != src) (e :: rest) = List.filter (fun e => e.src != src) rest := by
        simp only [List.filter_cons, hp, Bool.false_eq_true, if_false]
      rw [this]

/-! ### the outcome of the table part -/

/-- this socket's records are gone, everything else is as in `P`, `K` -/
def Purged (P : PfxTable) (K : SpkiTable) (P' : PfxTable) (K' : SpkiTable) : Prop :=
  P'.recs.Perm (P.recs.filter fun r => r.src != 0) ∧ ∀ x, x ∈ K'.list ↔ (x ∈ K.list ∧ x.src ≠ 0)

theorem purge_of_others {P Pu : PfxTable} {K Ku : SpkiTable} {su : List (Rec ⊕ SpkiRec)} (hP : TableWF P)
    (h : Abs Pu Ku su) (ho : Others su (absS P K)) : Purged P K (Pu.srcRemove 0) (Ku.srcRemove 0).1 := by
  constructor
  · refine (srcRemove_spec Pu 0 h.wf).recs.trans ?_
    refine perm_filter_of_mem_iff _ _ (recs_nodup Pu h.wf) (recs_nodup P hP) (fun x => ?_)
    constructor
    · rintro ⟨hx, hs⟩
      have hne : srcOf (Sum.inl x) ≠ 0 := by simpa [srcOf] using hs
      exact ⟨(mem_absS_inl P K x).1 ((ho _ hne).1 ((h.mem_inl x).2 hx)), hs⟩
    · rintro ⟨hx, hs⟩
      have hne : srcOf (Sum.inl x) ≠ 0 := by simpa [srcOf] using hs
      exact ⟨(h.mem_inl x).1 ((ho _ hne).2 ((mem_absS_inl P K x).2 hx)), hs⟩
  · intro x
    rw [(SpkiTable.srcRemove_spec h.inv 0).2.2.1 x]
    constructor
    · rintro ⟨hx, hs⟩
      exact ⟨(mem_absS_inr P K x).1 ((ho (Sum.inr x) hs).1 ((h.mem_inr x).2 hx)), hs⟩
    · rintro ⟨hx, hs⟩
      exact ⟨(h.mem_inr x).1 ((ho (Sum.inr x) hs).2 ((mem_absS_inr P K x).2 hx)), hs⟩

/-- what the table part leaves behind, for every behaviour of the oracle:
    `base` is what the updates are applied to (the tables, or — full reload — the other sockets' records) -/
structure Outcome (P : PfxTable) (K : SpkiTable) (base : List (Rec ⊕ SpkiRec)) (ops : List Item)
    (q : A × PfxTable × SpkiTable × SyncRes) : Prop where
  /-- success: every payload PDU was applied, in order -/
  ok : q.2.2.2.ok = true → q.2.2.2.purged = false ∧
        ∃ s', lsApplyAll base (ops.map Item.op) = some s' ∧ (absS q.2.1 q.2.2.1).Perm s'
  /-- error, not purged: both tables hold what they held -/
  same : q.2.2.2.ok = false → q.2.2.2.purged = false → (absS q.2.1 q.2.2.1).Perm (absS P K)
  /-- error, purged: exactly this socket's records are gone -/
  purged : q.2.2.2.ok = false → q.2.2.2.purged = true → Purged P K q.2.1 q.2.2.1

theorem syncUpdate_abs (a : A) (b : Bufs) (P : PfxTable) (K : SpkiTable) (ops : List Item) (hP : TableWF P)
    (hK : SInv K) (hok : ∀ it ∈ ops, it.OK) : Outcome P K (absS P K) ops (syncUpdate a b P K ops) := by
  have h0 : Abs P K (absS P K) := ⟨hP, hK, List.Perm.refl _⟩
  obtain ⟨s1, s2⟩ := applyAll_abs ops [] a P K _ h0 hok
  obtain ⟨so, ao, oo⟩ := applyAll_others ops [] a P K _ h0 hok
  obtain ⟨_, k2⟩ := applyAll_ok ops [] a P K hP hK hok
  unfold syncUpdate
  rcases hq : applyAll ops [] a P K with ⟨a1, P1, K1, o⟩
  rw [hq] at s1 s2 ao k2
  simp only at s1 s2 ao k2
  cases o with
  | none =>
    obtain ⟨s', e, ab⟩ := s1 rfl
    exact ⟨fun _ => ⟨rfl, s', e, ab.perm⟩, fun h => by simp at h, fun h => by simp at h⟩
  | some done =>
    simp only
    obtain ⟨pre, e1, e2, s', e3, ab⟩ := s2 done rfl
    have hd : done = pre := by simpa using e1
    subst hd
    have dok : ∀ it ∈ done, it.OK := fun it hit => hok it (e2 it hit)
    split
    · rename_i hu
      obtain ⟨s'', e4, ab2⟩ := undoAll_abs done a1 P1 K1 s' ab dok hu
      obtain ⟨_, same⟩ := ls_forward_undo (done.map Item.op) (absS P K) s' s'' h0.nodup e3 e4
      have hperm : s''.Perm (absS P K) := (List.perm_ext_iff_of_nodup ab2.nodup h0.nodup).2 same
      exact ⟨fun h => by simp at h, fun _ _ => ab2.perm.trans hperm, fun _ h => by simp at h⟩
    · obtain ⟨su, au, ou⟩ := undoAll_others done a1 P1 K1 so ao dok
      refine ⟨fun h => by simp at h, fun _ h => by simp at h, fun _ _ => ?_⟩
      exact purge_of_others hP au (ou.trans oo)

/-- the records of the other sockets, as one list -/
def othersOf (P : PfxTable) (K : SpkiTable) : List (Rec ⊕ SpkiRec) :=
  (P.recs.filter fun r => r.src != 0).map .inl ++ (K.list.filter fun e => e.src != 0).map .inr

theorem purged_direct (P : PfxTable) (K : SpkiTable) (hP : TableWF P) (hK : SInv K) :
    Purged P K (P.srcRemove 0) (K.srcRemove 0).1 :=
  purge_of_others hP ⟨hP, hK, List.Perm.refl _⟩ (Others.refl _)

theorem syncReset_abs (a : A) (b : Bufs) (P : PfxTable) (K : SpkiTable) (ops : List Item) (hP : TableWF P)
    (hK : SInv K) (hok : ∀ it ∈ ops, it.OK) : Outcome P K (othersOf P K) ops (syncReset a b P K ops) := by
  have unchanged : ∀ (x : A), Outcome P K (othersOf P K) ops (x, P, K, ⟨false, false⟩) := fun x =>
    ⟨fun h => by simp at h, fun _ _ => List.Perm.refl _, fun _ h => by simp at h⟩
  unfold syncReset
  simp only
  split
  · exact unchanged _
  have w0 : TableWF ({ hasCb := false } : PfxTable) := ⟨trivial, trivial⟩
  have c1 := copyExceptF_ok (a.malloc .ptab 1).2 P { hasCb := false } 0 hP w0
  have cs1 := copyExceptF_success (a.malloc .ptab 1).2 P { hasCb := false } 0 hP w0 rfl
  generalize copyExceptF (a.malloc .ptab 1).2 P { hasCb := false } 0 = C1 at c1 cs1
  obtain ⟨ac, SP0, rc1⟩ := C1
  simp only at c1 cs1 ⊢
  split
  · exact unchanged _
  rename_i hrc1
  have hrc1' : rc1 = .success := by
    cases rc1 <;> simp_all
  split
  · exact unchanged _
  obtain ⟨k1, k2, _⟩ := kinitF_ok (ac.malloc .ktab 1).2 false
  by_cases h3 : (ac.malloc .ktab 1).2.hits 1
  · rw [(k2 h3).1]
    exact unchanged _
  rw [(k1 h3).1]
  simp only
  have iv0 : SInv (SpkiTable.init false) := SpkiTable.sinv_init false
  have c2 := kcopyLoopF_ok 0 K.list (kinitF (ac.malloc .ktab 1).2 false).1 (SpkiTable.init false) iv0
  have cs2 := kcopyLoopF_success 0 K.list (kinitF (ac.malloc .ktab 1).2 false).1 (SpkiTable.init false) iv0
  have ek : kcopyExceptF (kinitF (ac.malloc .ktab 1).2 false).1 K (SpkiTable.init false) 0 =
      kcopyLoopF 0 K.list (kinitF (ac.malloc .ktab 1).2 false).1 (SpkiTable.init false) := rfl
  rw [ek]
  generalize kcopyLoopF 0 K.list (kinitF (ac.malloc .ktab 1).2 false).1 (SpkiTable.init false) = C2 at c2 cs2
  obtain ⟨ak, SK0, rc2⟩ := C2
  simp only at c2 cs2 ⊢
  split
  · exact unchanged _
  rename_i hrc2
  have hrc2' : rc2 = .success := by
    cases rc2 <;> simp_all
  have hbase : Abs SP0 SK0 (othersOf P K) := by
    refine ⟨c1.wf, c2.inv, ?_⟩
    unfold absS othersOf
    have l2 := cs2 hrc2'
    have : (SpkiTable.init false).list = [] := rfl
    rw [this, List.nil_append] at l2
    rw [l2]
    exact ((cs1 hrc1').map _).append_right _
  obtain ⟨s1, s2⟩ := applyAll_abs ops [] ak SP0 SK0 _ hbase hok
  obtain ⟨k1', k2'⟩ := applyAll_ok ops [] ak SP0 SK0 c1.wf c2.inv hok
  rcases hq : applyAll ops [] ak SP0 SK0 with ⟨a1, SP, SK, o⟩
  rw [hq] at s1 s2 k1'
  simp only at s1 s2
  cases o with
  | none =>
    simp only
    obtain ⟨s', e, ab⟩ := s1 rfl
    obtain ⟨_, _, _, _, pr⟩ := swapDiffP_ok a1 P SP hP k1'.wf
    generalize (if P.hasCb then
        (a1.run (pdiffActs 0 ((PfxTable.swap P SP).1.recs4 ++ (PfxTable.swap P SP).1.recs6)
          { (PfxTable.swap P SP).2 with hasCb := false }), PfxTable.notifyDiff (PfxTable.swap P SP).1 (PfxTable.swap P SP).2 0)
        else (a1, PfxTable.swap P SP)) = DP at pr
    obtain ⟨ap, P', OP⟩ := DP
    simp only at pr ⊢
    obtain ⟨_, _, _, _, kl⟩ := swapDiffK_ok ap K SK hK k1'.inv
    generalize (if K.hasCb then
        (ap.run (kdiffActs 0 (SpkiTable.swap K SK).1.list { (SpkiTable.swap K SK).2 with hasCb := false }),
          SpkiTable.notifyDiff (SpkiTable.swap K SK).1 (SpkiTable.swap K SK).2 0)
        else (ap, SpkiTable.swap K SK)) = DK at kl
    obtain ⟨ad, K', OK⟩ := DK
    simp only at kl ⊢
    refine ⟨fun _ => ⟨rfl, s', e, ?_⟩, fun h => by simp at h, fun h => by simp at h⟩
    have : absS P' K' = absS SP SK := by unfold absS; rw [pr, kl]
    rw [this]; exact ab.perm
  | some done =>
    simp only
    split
    · exact unchanged _
    · exact ⟨fun h => by simp at h, fun _ h => by simp at h, fun _ _ => purged_direct P K hP hK⟩

end Alloc
end Rtr
