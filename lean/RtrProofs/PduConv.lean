/-
  PduConv: the byte-order conversions of packets.c (model RtrModel/PduConv.lean) are mutually
  inverse on every buffer, and the fields the protocol model `Rtr.P` reads big-endian from the
  bytes as received are what the C code reads (little-endian host) from its converted structs.
  Hence keeping `raw` in the model, and echoing `raw.take k` in Error Reports, is what the code does.
-/
import RtrModel.PduConv
import RtrProofs.Chunking

namespace Rtr.Conv
open Rtr.P

/-! ## `revAt` -/

theorem length_revAt (b : List Nat) (o k : Nat) : (revAt b o k).length = b.length := by
  unfold revAt
  split
  · simp only [List.length_append, List.length_take, List.length_reverse, List.length_drop]
    omega
  · rfl

theorem ext_getD {a b : List Nat} (hl : a.length = b.length) (h : ∀ i, i < a.length → a.getD i 0 = b.getD i 0) :
    a = b := by
  apply List.ext_getElem hl
  intro i h1 h2
  have := h i h1
  simpa [List.getD_eq_getElem?_getD, List.getElem?_eq_getElem h1, List.getElem?_eq_getElem h2] using this

/-- pointwise: inside the field the bytes are mirrored, outside nothing moves -/
theorem getD_revAt (b : List Nat) (o k i : Nat) :
    (revAt b o k).getD i 0 =
      if o + k ≤ b.length ∧ o ≤ i ∧ i < o + k then b.getD (o + (o + k - 1 - i)) 0 else b.getD i 0 := by
  unfold revAt
  by_cases hb : o + k ≤ b.length
  · simp only [hb, if_true, true_and]
    simp only [List.getD_eq_getElem?_getD]
    by_cases h1 : i < o
    · have : ¬ (o ≤ i ∧ i < o + k) := by omega
      rw [if_neg this, List.append_assoc, List.getElem?_append_left (by simp only [List.length_take]; omega),
        List.getElem?_take_of_lt h1]
    · by_cases h2 : i < o + k
      · have : o ≤ i ∧ i < o + k := by omega
        rw [if_pos this, List.getElem?_append_left (by
          simp only [List.length_append, List.length_take, List.length_reverse, List.length_drop]; omega),
          List.getElem?_append_right (by simp only [List.length_take]; omega)]
        simp only [List.length_take]
        rw [List.getElem?_reverse (by simp only [List.length_take, List.length_drop]; omega)]
        simp only [List.length_take, List.length_drop]
        rw [List.getElem?_take_of_lt (by omega), List.getElem?_drop]
        congr 2
        omega
      · have : ¬ (o ≤ i ∧ i < o + k) := by omega
        rw [if_neg this, List.getElem?_append_right (by
          simp only [List.length_append, List.length_take, List.length_reverse, List.length_drop]; omega)]
        simp only [List.length_append, List.length_take, List.length_reverse, List.length_drop, List.getElem?_drop]
        congr 2
        omega
  · simp [hb]

theorem revAt_revAt (b : List Nat) (o k : Nat) : revAt (revAt b o k) o k = b := by
  apply ext_getD (by simp only [length_revAt])
  intro i _
  simp only [getD_revAt, length_revAt]
  by_cases h : o + k ≤ b.length ∧ o ≤ i ∧ i < o + k
  · have h' : o + k ≤ b.length ∧ o ≤ o + (o + k - 1 - i) ∧ o + (o + k - 1 - i) < o + k := by omega
    rw [if_pos h, if_pos h']
    congr 1
    omega
  · rw [if_neg h, if_neg h]

/-- two fields that do not overlap -/
def Disj (f g : Nat × Nat) : Prop := f.1 + f.2 ≤ g.1 ∨ g.1 + g.2 ≤ f.1

instance (f g : Nat × Nat) : Decidable (Disj f g) := by unfold Disj; infer_instance

theorem revAt_comm (b : List Nat) (o1 k1 o2 k2 : Nat) (hd : o1 + k1 ≤ o2 ∨ o2 + k2 ≤ o1) :
    revAt (revAt b o1 k1) o2 k2 = revAt (revAt b o2 k2) o1 k1 := by
  apply ext_getD (by simp only [length_revAt])
  intro i _
  simp only [getD_revAt, length_revAt]
  by_cases h1 : o1 + k1 ≤ b.length ∧ o1 ≤ i ∧ i < o1 + k1
  · have n2 : ¬ (o2 + k2 ≤ b.length ∧ o2 ≤ i ∧ i < o2 + k2) := by omega
    have n2' : ¬ (o2 + k2 ≤ b.length ∧ o2 ≤ o1 + (o1 + k1 - 1 - i) ∧ o1 + (o1 + k1 - 1 - i) < o2 + k2) := by omega
    rw [if_neg n2, if_pos h1, if_pos h1, if_neg n2']
  · rw [if_neg h1]
    by_cases h2 : o2 + k2 ≤ b.length ∧ o2 ≤ i ∧ i < o2 + k2
    · have n1' : ¬ (o1 + k1 ≤ b.length ∧ o1 ≤ o2 + (o2 + k2 - 1 - i) ∧ o2 + (o2 + k2 - 1 - i) < o1 + k1) := by omega
      rw [if_pos h2, if_neg n1', if_neg h1, if_pos h2]
    · rw [if_neg h2, if_neg h1, if_neg h2]

theorem getD_revAt_out (b : List Nat) (o k i : Nat) (h : i < o ∨ o + k ≤ i) : (revAt b o k).getD i 0 = b.getD i 0 := by
  rw [getD_revAt, if_neg (by omega)]

theorem le32_revAt_same (b : List Nat) (o : Nat) (h : o + 4 ≤ b.length) : le32 (revAt b o 4) o = be32 b o := by
  unfold le32 be32
  simp only [getD_revAt]
  rw [if_pos (by omega), if_pos (by omega), if_pos (by omega), if_pos (by omega)]
  have e0 : o + (o + 4 - 1 - o) = o + 3 := by omega
  have e1 : o + (o + 4 - 1 - (o + 1)) = o + 2 := by omega
  have e2 : o + (o + 4 - 1 - (o + 2)) = o + 1 := by omega
  have e3 : o + (o + 4 - 1 - (o + 3)) = o := by omega
  rw [e0, e1, e2, e3]
  omega

theorem le16_revAt_same (b : List Nat) (o : Nat) (h : o + 2 ≤ b.length) : le16 (revAt b o 2) o = be16 b o := by
  unfold le16 be16
  simp only [getD_revAt]
  rw [if_pos (by omega), if_pos (by omega)]
  have e0 : o + (o + 2 - 1 - o) = o + 1 := by omega
  have e1 : o + (o + 2 - 1 - (o + 1)) = o := by omega
  rw [e0, e1]
  omega

theorem le32_revAt_out (b : List Nat) (o k p : Nat) (h : p + 4 ≤ o ∨ o + k ≤ p) : le32 (revAt b o k) p = le32 b p := by
  unfold le32
  rw [getD_revAt_out b o k p (by omega), getD_revAt_out b o k (p+1) (by omega),
    getD_revAt_out b o k (p+2) (by omega), getD_revAt_out b o k (p+3) (by omega)]

theorem be32_revAt_out (b : List Nat) (o k p : Nat) (h : p + 4 ≤ o ∨ o + k ≤ p) : be32 (revAt b o k) p = be32 b p := by
  unfold be32
  rw [getD_revAt_out b o k p (by omega), getD_revAt_out b o k (p+1) (by omega),
    getD_revAt_out b o k (p+2) (by omega), getD_revAt_out b o k (p+3) (by omega)]

theorem le16_revAt_out (b : List Nat) (o k p : Nat) (h : p + 2 ≤ o ∨ o + k ≤ p) : le16 (revAt b o k) p = le16 b p := by
  unfold le16
  rw [getD_revAt_out b o k p (by omega), getD_revAt_out b o k (p+1) (by omega)]

theorem be16_revAt_out (b : List Nat) (o k p : Nat) (h : p + 2 ≤ o ∨ o + k ≤ p) : be16 (revAt b o k) p = be16 b p := by
  unfold be16
  rw [getD_revAt_out b o k p (by omega), getD_revAt_out b o k (p+1) (by omega)]

/-! ## a list of fields converted one after the other -/

def revFields (fs : List (Nat × Nat)) (b : List Nat) : List Nat := fs.foldl (fun b f => revAt b f.1 f.2) b

theorem revFields_nil (b : List Nat) : revFields [] b = b := rfl
theorem revFields_cons (f : Nat × Nat) (fs : List (Nat × Nat)) (b : List Nat) :
    revFields (f :: fs) b = revFields fs (revAt b f.1 f.2) := rfl
theorem revFields_append (fs gs : List (Nat × Nat)) (b : List Nat) :
    revFields (fs ++ gs) b = revFields gs (revFields fs b) := by
  unfold revFields; rw [List.foldl_append]

theorem length_revFields (fs : List (Nat × Nat)) (b : List Nat) : (revFields fs b).length = b.length := by
  induction fs generalizing b with
  | nil => rfl
  | cons f fs ih => rw [revFields_cons, ih, length_revAt]

theorem revAt_revFields_comm (f : Nat × Nat) (fs : List (Nat × Nat)) (h : ∀ g ∈ fs, Disj f g) (b : List Nat) :
    revAt (revFields fs b) f.1 f.2 = revFields fs (revAt b f.1 f.2) := by
  induction fs generalizing b with
  | nil => rfl
  | cons g fs ih =>
    rw [revFields_cons, revFields_cons, ih (fun g' hg => h g' (List.mem_cons_of_mem _ hg)),
      revAt_comm b f.1 f.2 g.1 g.2 (h g List.mem_cons_self)]

/-- converting a set of pairwise non-overlapping fields twice is the identity -/
theorem revFields_invol (fs : List (Nat × Nat)) (hp : fs.Pairwise Disj) (b : List Nat) :
    revFields fs (revFields fs b) = b := by
  induction fs generalizing b with
  | nil => rfl
  | cons f fs ih =>
    rw [List.pairwise_cons] at hp
    rw [revFields_cons, revFields_cons, revAt_revFields_comm f fs hp.1, revAt_revAt, ih hp.2]

theorem getD_revFields_out (fs : List (Nat × Nat)) (b : List Nat) (i : Nat)
    (h : ∀ f ∈ fs, i < f.1 ∨ f.1 + f.2 ≤ i) : (revFields fs b).getD i 0 = b.getD i 0 := by
  induction fs generalizing b with
  | nil => rfl
  | cons f fs ih =>
    rw [revFields_cons, ih _ (fun g hg => h g (List.mem_cons_of_mem _ hg)),
      getD_revAt_out _ _ _ _ (h f List.mem_cons_self)]

theorem le32_revFields_out (fs : List (Nat × Nat)) (b : List Nat) (p : Nat)
    (h : ∀ f ∈ fs, p + 4 ≤ f.1 ∨ f.1 + f.2 ≤ p) : le32 (revFields fs b) p = le32 b p := by
  unfold le32
  rw [getD_revFields_out fs b p (fun f hf => by have := h f hf; omega),
    getD_revFields_out fs b (p+1) (fun f hf => by have := h f hf; omega),
    getD_revFields_out fs b (p+2) (fun f hf => by have := h f hf; omega),
    getD_revFields_out fs b (p+3) (fun f hf => by have := h f hf; omega)]

theorem le16_revFields_out (fs : List (Nat × Nat)) (b : List Nat) (p : Nat)
    (h : ∀ f ∈ fs, p + 2 ≤ f.1 ∨ f.1 + f.2 ≤ p) : le16 (revFields fs b) p = le16 b p := by
  unfold le16
  rw [getD_revFields_out fs b p (fun f hf => by have := h f hf; omega),
    getD_revFields_out fs b (p+1) (fun f hf => by have := h f hf; omega)]

/-- **a converted 32-bit field, read by the little-endian host, is the big-endian value of the
    bytes as received** -/
theorem le32_revFields_mem (fs : List (Nat × Nat)) (hp : fs.Pairwise Disj) (b : List Nat) (o : Nat)
    (hm : (o, 4) ∈ fs) (hb : o + 4 ≤ b.length) : le32 (revFields fs b) o = be32 b o := by
  induction fs generalizing b with
  | nil => cases hm
  | cons f fs ih =>
    rw [List.pairwise_cons] at hp
    rw [revFields_cons]
    rcases List.mem_cons.1 hm with hf | hm'
    · subst hf
      rw [le32_revFields_out fs _ o (fun g hg => by have := hp.1 g hg; unfold Disj at this; simp only at this; omega),
        le32_revAt_same b o hb]
    · have hd := hp.1 _ hm'
      unfold Disj at hd
      simp only at hd
      rw [ih hp.2 _ hm' (by rw [length_revAt]; exact hb), be32_revAt_out b f.1 f.2 o (by omega)]

theorem le16_revFields_mem (fs : List (Nat × Nat)) (hp : fs.Pairwise Disj) (b : List Nat) (o : Nat)
    (hm : (o, 2) ∈ fs) (hb : o + 2 ≤ b.length) : le16 (revFields fs b) o = be16 b o := by
  induction fs generalizing b with
  | nil => cases hm
  | cons f fs ih =>
    rw [List.pairwise_cons] at hp
    rw [revFields_cons]
    rcases List.mem_cons.1 hm with hf | hm'
    · subst hf
      rw [le16_revFields_out fs _ o (fun g hg => by have := hp.1 g hg; unfold Disj at this; simp only at this; omega),
        le16_revAt_same b o hb]
    · have hd := hp.1 _ hm'
      unfold Disj at hd
      simp only at hd
      rw [ih hp.2 _ hm' (by rw [length_revAt]; exact hb), be16_revAt_out b f.1 f.2 o (by omega)]

/-! ## the conversions as field lists -/

/-- the header fields `rtr_pdu_convert_header_byte_order` converts: (offset, size) -/
def hdrFields (b : List Nat) : List (Nat × Nat) := if typeOf b ≠ 9 then [(2, 2), (4, 4)] else [(4, 4)]

/-- the footer fields `rtr_pdu_convert_footer_byte_order` converts, in the order of the C statements
    (to-host order for an Error Report; `be32 b 8` is the encapsulated length as received) -/
def footerFields (b : List Nat) : List (Nat × Nat) :=
  match typeOf b with
  | 1 => [(8, 4)]
  | 10 => [(8, 4), (12 + be32 b 8, 4)]
  | 0 => [(8, 4)]
  | 7 => if verOf b = 1 then [(20, 4), (12, 4), (16, 4), (8, 4)] else [(8, 4)]
  | 4 => [(12, 4), (16, 4)]
  | 6 => [(12, 4), (16, 4), (20, 4), (24, 4), (28, 4)]
  | 9 => [(28, 4)]
  | _ => []

/-- all fields converted between the byte orders for this PDU -/
def convFields (b : List Nat) : List (Nat × Nat) := hdrFields b ++ footerFields b

theorem convHeader_eq (b : List Nat) : convHeader b = revFields (hdrFields b) b := by
  unfold convHeader hdrFields
  by_cases h : typeOf b ≠ 9
  · rw [if_pos h, if_pos h]; rfl
  · rw [if_neg h, if_neg h]; rfl

theorem revAt_oob (b : List Nat) (o k : Nat) (h : ¬ o + k ≤ b.length) : revAt b o k = b := by
  unfold revAt; rw [if_neg h]

/-- reduce `footerFields` once the type is known -/
theorem footerFields_of (b : List Nat) :
    (typeOf b = 1 → footerFields b = [(8, 4)]) ∧
    (typeOf b = 10 → footerFields b = [(8, 4), (12 + be32 b 8, 4)]) ∧
    (typeOf b = 0 → footerFields b = [(8, 4)]) ∧
    (typeOf b = 7 → verOf b = 1 → footerFields b = [(20, 4), (12, 4), (16, 4), (8, 4)]) ∧
    (typeOf b = 7 → verOf b ≠ 1 → footerFields b = [(8, 4)]) ∧
    (typeOf b = 4 → footerFields b = [(12, 4), (16, 4)]) ∧
    (typeOf b = 6 → footerFields b = [(12, 4), (16, 4), (20, 4), (24, 4), (28, 4)]) ∧
    (typeOf b = 9 → footerFields b = [(28, 4)]) ∧
    (typeOf b ≠ 1 → typeOf b ≠ 10 → typeOf b ≠ 0 → typeOf b ≠ 7 → typeOf b ≠ 4 → typeOf b ≠ 6 → typeOf b ≠ 9 →
      footerFields b = []) := by
  unfold footerFields
  refine ⟨?_, ?_, ?_, ?_, ?_, ?_, ?_, ?_, ?_⟩
  · intro h; simp only [h]
  · intro h; simp only [h]
  · intro h; simp only [h]
  · intro h hv; simp only [h, hv, if_true]
  · intro h hv; simp only [h, hv, if_false]
  · intro h; simp only [h]
  · intro h; simp only [h]
  · intro h; simp only [h]
  · intro h1 h10 h0 h7 h4 h6 h9
    split <;> first | rfl | contradiction

set_option linter.unusedSimpArgs false in
/-- unfold `revFields` on an explicit list and the generated offsets of the footer fields -/
local macro "unfold_fields" : tactic =>
  `(tactic| simp only [revFields_cons, revFields_nil, Gen.offsetof_pdu_serial_query_sn,
      Gen.offsetof_pdu_serial_notify_sn, Gen.offsetof_pdu_end_of_data_v0_sn, Gen.offsetof_pdu_end_of_data_v1_sn,
      Gen.offsetof_pdu_end_of_data_v1_expire_interval, Gen.offsetof_pdu_end_of_data_v1_refresh_interval,
      Gen.offsetof_pdu_end_of_data_v1_retry_interval, Gen.offsetof_pdu_ipv4_prefix, Gen.offsetof_pdu_ipv4_asn,
      Gen.offsetof_pdu_ipv6_prefix, Gen.offsetof_pdu_ipv6_asn, Gen.offsetof_pdu_router_key_asn])

set_option linter.unusedSimpArgs false in
theorem convFooter_toHost_eq (b : List Nat) : convFooter .toHost b = revFields (footerFields b) b := by
  obtain ⟨f1, f10, f0, f7a, f7b, f4, f6, f9, fd⟩ := footerFields_of b
  unfold convFooter
  split
  · rename_i h; rw [f1 h]; unfold_fields
  · rename_i h
    rw [f10 h]
    simp only [revFields_cons, revFields_nil]
    by_cases h12 : 12 ≤ b.length
    · have : le32 (revAt b Gen.offsetof_pdu_error_len_enc_pdu 4) Gen.offsetof_pdu_error_len_enc_pdu = be32 b 8 :=
        le32_revAt_same b 8 h12
      rw [this]; rfl
    · have e : revAt b Gen.offsetof_pdu_error_len_enc_pdu 4 = b := revAt_oob b 8 4 (by omega)
      have e' : revAt b 8 4 = b := revAt_oob b 8 4 (by omega)
      rw [e, e', revAt_oob b _ 4 (by show ¬ 12 + _ + 4 ≤ _; omega), revAt_oob b _ 4 (by omega)]
  · rename_i h; rw [f0 h]; unfold_fields
  · rename_i h
    by_cases hv : verOf b = 1
    · rw [f7a h hv, if_pos hv]; unfold_fields
    · rw [f7b h hv, if_neg hv]; unfold_fields
  · rename_i h; rw [f4 h]; unfold_fields
  · rename_i h; rw [f6 h]; unfold_fields
  · rename_i h; rw [f9 h]; unfold_fields
  · rename_i h1 h10 h0 h7 h4 h6 h9
    rw [fd h1 h10 h0 h7 h4 h6 h9]; unfold_fields

set_option linter.unusedSimpArgs false in
theorem convFooter_toNetwork_eq (b : List Nat) (hne : typeOf b ≠ 10) :
    convFooter .toNetwork b = revFields (footerFields b) b := by
  obtain ⟨f1, f10, f0, f7a, f7b, f4, f6, f9, fd⟩ := footerFields_of b
  unfold convFooter
  split
  · rename_i h; rw [f1 h]; unfold_fields
  · rename_i h; exact absurd h hne
  · rename_i h; rw [f0 h]; unfold_fields
  · rename_i h
    by_cases hv : verOf b = 1
    · rw [f7a h hv, if_pos hv]; unfold_fields
    · rw [f7b h hv, if_neg hv]; unfold_fields
  · rename_i h; rw [f4 h]; unfold_fields
  · rename_i h; rw [f6 h]; unfold_fields
  · rename_i h; rw [f9 h]; unfold_fields
  · rename_i h1 h10 h0 h7 h4 h6 h9
    rw [fd h1 h10 h0 h7 h4 h6 h9]; unfold_fields

theorem convFooter_toNetwork_error (b : List Nat) (h : typeOf b = 10) :
    convFooter .toNetwork b = revFields [(12 + le32 b 8, 4), (8, 4)] b := by
  unfold convFooter
  simp only [h]
  rfl

theorem hdrFields_ge (b : List Nat) : ∀ f ∈ hdrFields b, 2 ≤ f.1 := by
  unfold hdrFields; split <;> simp

theorem footerFields_ge (b : List Nat) : ∀ f ∈ footerFields b, 8 ≤ f.1 := by
  unfold footerFields
  split
  all_goals try (split)
  all_goals simp
  omega

theorem hdrFields_lt (b : List Nat) : ∀ f ∈ hdrFields b, f.1 + f.2 ≤ 8 := by
  unfold hdrFields; split <;> simp

theorem hdrFields_pairwise (b : List Nat) : (hdrFields b).Pairwise Disj := by
  unfold hdrFields; split <;> simp [Disj]

theorem footerFields_pairwise (b : List Nat) : (footerFields b).Pairwise Disj := by
  unfold footerFields
  split
  all_goals try (split)
  all_goals simp [Disj]

theorem convFields_pairwise (b : List Nat) : (convFields b).Pairwise Disj := by
  unfold convFields
  rw [List.pairwise_append]
  refine ⟨hdrFields_pairwise b, footerFields_pairwise b, ?_⟩
  intro f hf g hg
  have := hdrFields_lt b f hf
  have := footerFields_ge b g hg
  unfold Disj; omega

theorem typeOf_revFields (fs : List (Nat × Nat)) (b : List Nat) (h : ∀ f ∈ fs, 2 ≤ f.1) :
    typeOf (revFields fs b) = typeOf b ∧ verOf (revFields fs b) = verOf b := by
  unfold typeOf verOf
  exact ⟨getD_revFields_out fs b 1 (fun f hf => by have := h f hf; omega),
    getD_revFields_out fs b 0 (fun f hf => by have := h f hf; omega)⟩

theorem hdrFields_congr (x y : List Nat) (h : typeOf x = typeOf y) : hdrFields x = hdrFields y := by
  unfold hdrFields; rw [h]

theorem footerFields_congr (x y : List Nat) (ht : typeOf x = typeOf y) (hv : verOf x = verOf y)
    (he : be32 x 8 = be32 y 8) : footerFields x = footerFields y := by
  unfold footerFields; rw [ht, hv, he]

theorem footerFields_congr' (x y : List Nat) (ht : typeOf x = typeOf y) (hv : verOf x = verOf y)
    (hne : typeOf y ≠ 10) : footerFields x = footerFields y := by
  obtain ⟨a1, _, a0, a7a, a7b, a4, a6, a9, ad⟩ := footerFields_of x
  obtain ⟨b1, _, b0, b7a, b7b, b4, b6, b9, bd⟩ := footerFields_of y
  by_cases h1 : typeOf y = 1
  · rw [a1 (ht.trans h1), b1 h1]
  by_cases h0 : typeOf y = 0
  · rw [a0 (ht.trans h0), b0 h0]
  by_cases h7 : typeOf y = 7
  · by_cases hver : verOf y = 1
    · rw [a7a (ht.trans h7) (hv.trans hver), b7a h7 hver]
    · rw [a7b (ht.trans h7) (by rw [hv]; exact hver), b7b h7 hver]
  by_cases h4 : typeOf y = 4
  · rw [a4 (ht.trans h4), b4 h4]
  by_cases h6 : typeOf y = 6
  · rw [a6 (ht.trans h6), b6 h6]
  by_cases h9 : typeOf y = 9
  · rw [a9 (ht.trans h9), b9 h9]
  rw [bd h1 hne h0 h7 h4 h6 h9, ad (by rw [ht]; exact h1) (by rw [ht]; exact hne) (by rw [ht]; exact h0)
    (by rw [ht]; exact h7) (by rw [ht]; exact h4) (by rw [ht]; exact h6) (by rw [ht]; exact h9)]

theorem be32_revFields_out (fs : List (Nat × Nat)) (b : List Nat) (p : Nat)
    (h : ∀ f ∈ fs, p + 4 ≤ f.1 ∨ f.1 + f.2 ≤ p) : be32 (revFields fs b) p = be32 b p := by
  unfold be32
  rw [getD_revFields_out fs b p (fun f hf => by have := h f hf; omega),
    getD_revFields_out fs b (p+1) (fun f hf => by have := h f hf; omega),
    getD_revFields_out fs b (p+2) (fun f hf => by have := h f hf; omega),
    getD_revFields_out fs b (p+3) (fun f hf => by have := h f hf; omega)]

/-- `toHost` converts exactly the fields of `convFields`, each once -/
theorem toHost_eq (b : List Nat) : toHost b = revFields (convFields b) b := by
  unfold toHost convFields
  rw [revFields_append, convFooter_toHost_eq, convHeader_eq]
  have ht := typeOf_revFields (hdrFields b) b (hdrFields_ge b)
  have he : be32 (revFields (hdrFields b) b) 8 = be32 b 8 :=
    be32_revFields_out _ b 8 (fun f hf => by have := hdrFields_lt b f hf; omega)
  rw [footerFields_congr _ b ht.1 ht.2 he]

/-! ## the round trips -/

theorem convHeader_convHeader (b : List Nat) : convHeader (convHeader b) = b := by
  rw [convHeader_eq, convHeader_eq]
  rw [hdrFields_congr _ b (typeOf_revFields _ b (hdrFields_ge b)).1]
  exact revFields_invol _ (hdrFields_pairwise b) b

/-- header-only conversion (8-byte buffers, `rtr_send_error_pdu_from_host` with the header only) -/
theorem hdrToNetwork_hdrToHost (b : List Nat) : hdrToNetwork (hdrToHost b) = b := convHeader_convHeader b
theorem hdrToHost_hdrToNetwork (b : List Nat) : hdrToHost (hdrToNetwork b) = b := convHeader_convHeader b

/-- **`rtr_pdu_to_network_byte_order` undoes what `rtr_receive_pdu` did to the buffer** — for every
    PDU type, Error Reports with their nested lengths included -/
theorem toNetwork_toHost (b : List Nat) : toNetwork (toHost b) = b := by
  unfold toNetwork toHost
  have ht := typeOf_revFields (hdrFields b) b (hdrFields_ge b)
  have he : be32 (revFields (hdrFields b) b) 8 = be32 b 8 :=
    be32_revFields_out _ b 8 (fun f hf => by have := hdrFields_lt b f hf; omega)
  rw [convHeader_eq b]
  generalize hb1 : revFields (hdrFields b) b = b1 at ht he
  have hF : footerFields b1 = footerFields b := footerFields_congr _ b ht.1 ht.2 he
  rw [convFooter_toHost_eq, hF]
  have ht2 := typeOf_revFields (footerFields b) b1 (fun f hf => by have := footerFields_ge b f hf; omega)
  have back : convFooter .toNetwork (revFields (footerFields b) b1) = b1 := by
    by_cases h10 : typeOf b = 10
    · -- Error Report: text-length field first, then the encapsulated-length field
      have hff : footerFields b = [(8, 4), (12 + be32 b 8, 4)] := (footerFields_of b).2.1 h10
      rw [convFooter_toNetwork_error _ (by rw [ht2.1, ht.1, h10]), hff]
      simp only [revFields_cons, revFields_nil]
      by_cases h12 : 12 ≤ b1.length
      · have hle : le32 (revAt (revAt b1 8 4) (12 + be32 b 8) 4) 8 = le32 (revAt b1 8 4) 8 :=
          le32_revAt_out _ _ _ 8 (by omega)
        rw [hle, le32_revAt_same b1 8 h12, he, revAt_revAt, revAt_revAt]
      · have e8 : revAt b1 8 4 = b1 := revAt_oob b1 8 4 (by omega)
        have eX : revAt b1 (12 + be32 b 8) 4 = b1 := revAt_oob b1 _ 4 (by omega)
        have eY : revAt b1 (12 + le32 b1 8) 4 = b1 := revAt_oob b1 _ 4 (by omega)
        simp only [e8, eX, eY]
    · rw [convFooter_toNetwork_eq _ (by rw [ht2.1, ht.1]; exact h10)]
      have hF2 : footerFields (revFields (footerFields b) b1) = footerFields b :=
        footerFields_congr' _ b (ht2.1.trans ht.1) (ht2.2.trans ht.2) h10
      rw [hF2]
      exact revFields_invol _ (footerFields_pairwise b) b1
  rw [back, ← hb1]
  rw [convHeader_eq, hdrFields_congr _ b (typeOf_revFields _ b (hdrFields_ge b)).1]
  exact revFields_invol _ (hdrFields_pairwise b) b

/-- the other direction (a struct built in host order, sent, is what the peer would convert back):
    for every type but the Error Report, whose text-length field is located through the
    encapsulated length -/
theorem toHost_toNetwork (b : List Nat) (hne : typeOf b ≠ 10) : toHost (toNetwork b) = b := by
  unfold toNetwork toHost
  rw [convFooter_toNetwork_eq b hne]
  have ht := typeOf_revFields (footerFields b) b (fun f hf => by have := footerFields_ge b f hf; omega)
  generalize hb1 : revFields (footerFields b) b = b1 at ht
  rw [convHeader_convHeader, convFooter_toHost_eq, footerFields_congr' b1 b ht.1 ht.2 hne, ← hb1]
  exact revFields_invol _ (footerFields_pairwise b) b

/-! ## what the C code reads from its structs is what the model reads from `raw` -/

/-- **Fields.**  If every converted field lies inside the buffer: a converted 32-bit (16-bit) field of
    `toHost raw`, read as the little-endian host reads it, is the big-endian value of the same
    bytes of `raw`; every byte outside the converted fields is unchanged. -/
theorem toHost_fields (raw : List Nat) (hb : ∀ f ∈ convFields raw, f.1 + f.2 ≤ raw.length) :
    (∀ o, (o, 4) ∈ convFields raw → le32 (toHost raw) o = be32 raw o) ∧
    (∀ o, (o, 2) ∈ convFields raw → le16 (toHost raw) o = be16 raw o) ∧
    (∀ i, (∀ f ∈ convFields raw, i < f.1 ∨ f.1 + f.2 ≤ i) → (toHost raw).getD i 0 = raw.getD i 0) ∧
    (toHost raw).length = raw.length := by
  rw [toHost_eq]
  refine ⟨?_, ?_, ?_, length_revFields _ _⟩
  · intro o hm
    exact le32_revFields_mem _ (convFields_pairwise raw) raw o hm (hb _ hm)
  · intro o hm
    exact le16_revFields_mem _ (convFields_pairwise raw) raw o hm (hb _ hm)
  · intro i h
    exact getD_revFields_out _ raw i h

/-- a complete PDU that passed `rtr_pdu_check_size` contains every field the conversions touch:
    the C code stays inside the PDU, and the model (`revAt` is the identity out of bounds) is
    faithful -/
theorem convFields_inBounds (raw : List Nat) (hc : checkSize raw = true) (hl : raw.length = lenOf raw) :
    ∀ f ∈ convFields raw, f.1 + f.2 ≤ raw.length := by
  obtain ⟨f1, f10, f0, f7a, f7b, f4, f6, f9, fd⟩ := footerFields_of raw
  have hk := (checkSize_spec raw).1 hc
  unfold KnownSize at hk
  have hh : ∀ f ∈ hdrFields raw, f.1 + f.2 ≤ 8 := hdrFields_lt raw
  intro f hf
  unfold convFields at hf
  rcases List.mem_append.1 hf with hf | hf
  · have := hh f hf
    have h8 : 8 ≤ lenOf raw := by
      rcases hk with h | h | h | h | h | h | h | h | h | h | h
      all_goals first | (rw [h.2]; decide) | (rw [h.2.2]; decide) | omega
    omega
  · rcases hk with h | h | h | h | h | h | h | h | h | h | h
    · rw [f0 h.1] at hf; simp only [List.mem_singleton] at hf; subst hf
      have := h.2; simp only [Gen.sizeof_pdu_serial_notify] at this; simp only; omega
    · rw [f1 h.1] at hf; simp only [List.mem_singleton] at hf; subst hf
      have := h.2; simp only [Gen.sizeof_pdu_serial_query] at this; simp only; omega
    · have : footerFields raw = [] := fd (by rw [h.1]; decide) (by rw [h.1]; decide) (by rw [h.1]; decide)
        (by rw [h.1]; decide) (by rw [h.1]; decide) (by rw [h.1]; decide) (by rw [h.1]; decide)
      rw [this] at hf; cases hf
    · have : footerFields raw = [] := fd (by rw [h.1]; decide) (by rw [h.1]; decide) (by rw [h.1]; decide)
        (by rw [h.1]; decide) (by rw [h.1]; decide) (by rw [h.1]; decide) (by rw [h.1]; decide)
      rw [this] at hf; cases hf
    · rw [f4 h.1] at hf
      have := h.2; simp only [Gen.sizeof_pdu_ipv4] at this
      simp only [List.mem_cons, List.not_mem_nil, or_false] at hf
      rcases hf with rfl | rfl <;> (simp only; omega)
    · rw [f6 h.1] at hf
      have := h.2; simp only [Gen.sizeof_pdu_ipv6] at this
      simp only [List.mem_cons, List.not_mem_nil, or_false] at hf
      rcases hf with rfl | rfl | rfl | rfl | rfl <;> (simp only; omega)
    · rw [f7b h.1 (by rw [h.2.1]; decide)] at hf; simp only [List.mem_singleton] at hf; subst hf
      have := h.2.2; simp only [Gen.sizeof_pdu_end_of_data_v0] at this; simp only; omega
    · rw [f7a h.1 h.2.1] at hf
      have := h.2.2; simp only [Gen.sizeof_pdu_end_of_data_v1] at this
      simp only [List.mem_cons, List.not_mem_nil, or_false] at hf
      rcases hf with rfl | rfl | rfl | rfl <;> (simp only; omega)
    · have : footerFields raw = [] := fd (by rw [h.1]; decide) (by rw [h.1]; decide) (by rw [h.1]; decide)
        (by rw [h.1]; decide) (by rw [h.1]; decide) (by rw [h.1]; decide) (by rw [h.1]; decide)
      rw [this] at hf; cases hf
    · rw [f9 h.1] at hf; simp only [List.mem_singleton] at hf; subst hf
      have := h.2; simp only [Gen.sizeof_pdu_router_key] at this; simp only; omega
    · rw [f10 h.1] at hf
      have := h.2
      simp only [List.mem_cons, List.not_mem_nil, or_false] at hf
      rcases hf with rfl | rfl <;> (simp only; omega)

theorem mem_convFields_hdr32 (raw : List Nat) : (4, 4) ∈ convFields raw := by
  unfold convFields hdrFields
  apply List.mem_append_left
  split <;> simp

theorem mem_convFields_hdr16 (raw : List Nat) (h : typeOf raw ≠ 9) : (2, 2) ∈ convFields raw := by
  unfold convFields hdrFields
  apply List.mem_append_left
  rw [if_pos h]; simp

theorem convFields_ge2 (raw : List Nat) : ∀ f ∈ convFields raw, 2 ≤ f.1 := by
  intro f hf
  unfold convFields at hf
  rcases List.mem_append.1 hf with hf | hf
  · exact hdrFields_ge raw f hf
  · have := footerFields_ge raw f hf; omega

/-- **What `Rtr.P` reads.**  For a complete PDU that passed the size check, every field the protocol
    model reads big-endian from `raw` is the value the C code reads from the converted buffer
    (`toHost raw`, little-endian host), and the bytes the model reads directly (flags, prefix
    lengths, SKI, SPKI, the encapsulated PDU, the error text) are not moved by the conversion. -/
theorem toHost_reads (raw : List Nat) (hc : checkSize raw = true) (hl : raw.length = lenOf raw) :
    verOf (toHost raw) = verOf raw ∧ typeOf (toHost raw) = typeOf raw ∧
    le32 (toHost raw) 4 = lenOf raw ∧
    (typeOf raw ≠ 9 → le16 (toHost raw) 2 = be16 raw 2) ∧
    (typeOf raw = 9 → (toHost raw).getD 2 0 = raw.getD 2 0) ∧
    ((typeOf raw = 0 ∨ typeOf raw = 1 ∨ typeOf raw = 7 ∨ typeOf raw = 10) → le32 (toHost raw) 8 = be32 raw 8) ∧
    (typeOf raw = 7 → verOf raw = 1 → le32 (toHost raw) 12 = be32 raw 12 ∧ le32 (toHost raw) 16 = be32 raw 16 ∧
      le32 (toHost raw) 20 = be32 raw 20) ∧
    (typeOf raw = 4 → (∀ i, 8 ≤ i → i < 12 → (toHost raw).getD i 0 = raw.getD i 0) ∧
      le32 (toHost raw) 12 = be32 raw 12 ∧ le32 (toHost raw) 16 = be32 raw 16) ∧
    (typeOf raw = 6 → (∀ i, 8 ≤ i → i < 12 → (toHost raw).getD i 0 = raw.getD i 0) ∧
      le32 (toHost raw) 12 = be32 raw 12 ∧ le32 (toHost raw) 16 = be32 raw 16 ∧ le32 (toHost raw) 20 = be32 raw 20 ∧
      le32 (toHost raw) 24 = be32 raw 24 ∧ le32 (toHost raw) 28 = be32 raw 28) ∧
    (typeOf raw = 9 → (∀ i, (8 ≤ i ∧ i < 28) ∨ 32 ≤ i → (toHost raw).getD i 0 = raw.getD i 0) ∧
      le32 (toHost raw) 28 = be32 raw 28) ∧
    (typeOf raw = 10 → le32 (toHost raw) (12 + be32 raw 8) = be32 raw (12 + be32 raw 8) ∧
      (∀ i, (12 ≤ i ∧ i < 12 + be32 raw 8) ∨ 16 + be32 raw 8 ≤ i → (toHost raw).getD i 0 = raw.getD i 0)) := by
  obtain ⟨f1, f10, f0, f7a, f7b, f4, f6, f9, _⟩ := footerFields_of raw
  obtain ⟨h32, h16, hout, _⟩ := toHost_fields raw (convFields_inBounds raw hc hl)
  have hge := convFields_ge2 raw
  have hfoot : ∀ f, f ∈ footerFields raw → f ∈ convFields raw := fun f hf => by
    unfold convFields; exact List.mem_append_right _ hf
  have hcf : ∀ f ∈ convFields raw, f ∈ hdrFields raw ∨ f ∈ footerFields raw := fun f hf => by
    unfold convFields at hf; exact List.mem_append.1 hf
  refine ⟨?_, ?_, ?_, ?_, ?_, ?_, ?_, ?_, ?_, ?_, ?_⟩
  · exact hout 0 (fun f hf => by have := hge f hf; omega)
  · exact hout 1 (fun f hf => by have := hge f hf; omega)
  · exact h32 4 (mem_convFields_hdr32 raw)
  · intro h; exact h16 2 (mem_convFields_hdr16 raw h)
  · intro h
    apply hout 2
    intro f hf
    rcases hcf f hf with hf | hf
    · unfold hdrFields at hf
      rw [if_neg (by simpa using h)] at hf
      simp only [List.mem_singleton] at hf; subst hf; simp only; omega
    · have := footerFields_ge raw f hf; omega
  · intro h
    apply h32 8
    apply hfoot
    rcases h with h | h | h | h
    · rw [f0 h]; simp
    · rw [f1 h]; simp
    · by_cases hv : verOf raw = 1
      · rw [f7a h hv]; simp
      · rw [f7b h hv]; simp
    · rw [f10 h]; simp
  · intro h hv
    refine ⟨h32 12 (hfoot _ ?_), h32 16 (hfoot _ ?_), h32 20 (hfoot _ ?_)⟩ <;> (rw [f7a h hv]; simp)
  · intro h
    refine ⟨?_, h32 12 (hfoot _ (by rw [f4 h]; simp)), h32 16 (hfoot _ (by rw [f4 h]; simp))⟩
    intro i h8 h12
    apply hout i
    intro f hf
    rcases hcf f hf with hf | hf
    · have := hdrFields_lt raw f hf; omega
    · rw [f4 h] at hf
      simp only [List.mem_cons, List.not_mem_nil, or_false] at hf
      rcases hf with rfl | rfl <;> (simp only; omega)
  · intro h
    refine ⟨?_, h32 12 (hfoot _ (by rw [f6 h]; simp)), h32 16 (hfoot _ (by rw [f6 h]; simp)),
      h32 20 (hfoot _ (by rw [f6 h]; simp)), h32 24 (hfoot _ (by rw [f6 h]; simp)),
      h32 28 (hfoot _ (by rw [f6 h]; simp))⟩
    intro i h8 h12
    apply hout i
    intro f hf
    rcases hcf f hf with hf | hf
    · have := hdrFields_lt raw f hf; omega
    · rw [f6 h] at hf
      simp only [List.mem_cons, List.not_mem_nil, or_false] at hf
      rcases hf with rfl | rfl | rfl | rfl | rfl <;> (simp only; omega)
  · intro h
    refine ⟨?_, h32 28 (hfoot _ (by rw [f9 h]; simp))⟩
    intro i hi
    apply hout i
    intro f hf
    rcases hcf f hf with hf | hf
    · have := hdrFields_lt raw f hf; omega
    · rw [f9 h] at hf
      simp only [List.mem_singleton] at hf; subst hf; simp only; omega
  · intro h
    refine ⟨h32 _ (hfoot _ (by rw [f10 h]; simp)), ?_⟩
    intro i hi
    apply hout i
    intro f hf
    rcases hcf f hf with hf | hf
    · have := hdrFields_lt raw f hf; omega
    · rw [f10 h] at hf
      simp only [List.mem_cons, List.not_mem_nil, or_false] at hf
      rcases hf with rfl | rfl <;> (simp only; omega)

/-! ## the echoed copy is byte-exact -/

/-- **`rtr_send_error_pdu_from_host` echoes the bytes as received.**  The C code copies the first
    `k` bytes of the converted buffer and converts the copy back (`k = 8`: the header only; the
    model's call sites with `k > 8` pass the whole PDU).  Header only: -/
theorem echo_header (raw : List Nat) (h8 : 8 ≤ raw.length) :
    hdrToNetwork ((toHost raw).take 8) = raw.take 8 := by
  have hfoot : (toHost raw).take 8 = (convHeader raw).take 8 := by
    unfold toHost
    rw [convFooter_toHost_eq]
    apply ext_getD (by simp only [List.length_take, length_revFields])
    intro i hi
    simp only [List.length_take, length_revFields] at hi
    have hi8 : i < 8 := by omega
    rw [getD_take _ 8 i hi8, getD_take _ 8 i hi8]
    exact getD_revFields_out _ _ i (fun f hf => by have := footerFields_ge _ f hf; omega)
  rw [hfoot]
  -- the header conversion only looks at, and only moves, the first 8 bytes
  have hcomm : ∀ b : List Nat, 8 ≤ b.length → convHeader (b.take 8) = (convHeader b).take 8 := by
    intro b hb
    rw [convHeader_eq, convHeader_eq]
    have ht : typeOf (b.take 8) = typeOf b := getD_take b 8 1 (by omega)
    rw [hdrFields_congr _ b ht]
    apply ext_getD (by simp only [List.length_take, length_revFields])
    intro i hi
    simp only [List.length_take, length_revFields] at hi
    have hi8 : i < 8 := by omega
    rw [getD_take _ 8 i hi8]
    unfold hdrFields
    split
    · simp only [revFields_cons, revFields_nil, getD_revAt, length_revAt, List.length_take]
      have hm : min 8 b.length = 8 := by omega
      rw [hm]
      by_cases c4 : 4 ≤ i
      · have a : 4 + 4 ≤ 8 ∧ 4 ≤ i ∧ i < 4 + 4 := by omega
        have a' : 4 + 4 ≤ b.length ∧ 4 ≤ i ∧ i < 4 + 4 := by omega
        have n : ¬ (2 + 2 ≤ 8 ∧ 2 ≤ 4 + (4 + 4 - 1 - i) ∧ 4 + (4 + 4 - 1 - i) < 2 + 2) := by omega
        have n' : ¬ (2 + 2 ≤ b.length ∧ 2 ≤ 4 + (4 + 4 - 1 - i) ∧ 4 + (4 + 4 - 1 - i) < 2 + 2) := by omega
        rw [if_pos a, if_pos a', if_neg n, if_neg n', getD_take _ 8 _ (by omega)]
      · have a : ¬ (4 + 4 ≤ 8 ∧ 4 ≤ i ∧ i < 4 + 4) := by omega
        have a' : ¬ (4 + 4 ≤ b.length ∧ 4 ≤ i ∧ i < 4 + 4) := by omega
        rw [if_neg a, if_neg a']
        by_cases c2 : 2 ≤ i
        · have m : 2 + 2 ≤ 8 ∧ 2 ≤ i ∧ i < 2 + 2 := by omega
          have m' : 2 + 2 ≤ b.length ∧ 2 ≤ i ∧ i < 2 + 2 := by omega
          rw [if_pos m, if_pos m', getD_take _ 8 _ (by omega)]
        · have m : ¬ (2 + 2 ≤ 8 ∧ 2 ≤ i ∧ i < 2 + 2) := by omega
          have m' : ¬ (2 + 2 ≤ b.length ∧ 2 ≤ i ∧ i < 2 + 2) := by omega
          rw [if_neg m, if_neg m', getD_take _ 8 _ hi8]
    · simp only [revFields_cons, revFields_nil, getD_revAt, List.length_take]
      have hm : min 8 b.length = 8 := by omega
      rw [hm]
      by_cases c4 : 4 ≤ i
      · have a : 4 + 4 ≤ 8 ∧ 4 ≤ i ∧ i < 4 + 4 := by omega
        have a' : 4 + 4 ≤ b.length ∧ 4 ≤ i ∧ i < 4 + 4 := by omega
        rw [if_pos a, if_pos a', getD_take _ 8 _ (by omega)]
      · have a : ¬ (4 + 4 ≤ 8 ∧ 4 ≤ i ∧ i < 4 + 4) := by omega
        have a' : ¬ (4 + 4 ≤ b.length ∧ 4 ≤ i ∧ i < 4 + 4) := by omega
        rw [if_neg a, if_neg a', getD_take _ 8 _ hi8]
  unfold hdrToNetwork
  have hl : 8 ≤ (convHeader raw).length := by rw [convHeader_eq, length_revFields]; exact h8
  rw [hcomm (convHeader raw) hl, convHeader_convHeader]

/-- the whole PDU -/
theorem echo_whole (raw : List Nat) : toNetwork (toHost raw) = raw := toNetwork_toHost raw

/-! ## non-vacuity / concrete vectors (the same vectors are in the tie, tools/pduconvcheck.py) -/

section Examples

/-- an IPv4 Prefix PDU as received … -/
def exIpv4 : List Nat := [1, 4, 0, 0, 0, 0, 0, 20, 1, 24, 24, 0, 10, 0, 0, 0, 0, 0, 253, 232]
/-- … and an Error Report echoing a Serial Query header, text "ABC" -/
def exErr : List Nat := [1, 10, 0, 2, 0, 0, 0, 27, 0, 0, 0, 8, 1, 1, 0, 7, 0, 0, 0, 12, 0, 0, 0, 3, 65, 66, 67]

example : checkSize exIpv4 = true ∧ exIpv4.length = lenOf exIpv4 ∧ checkSize exErr = true ∧
    exErr.length = lenOf exErr := by decide

example : toHost exIpv4 = [1, 4, 0, 0, 20, 0, 0, 0, 1, 24, 24, 0, 0, 0, 0, 10, 232, 253, 0, 0] := by decide
example : toHost exErr =
    [1, 10, 2, 0, 27, 0, 0, 0, 8, 0, 0, 0, 1, 1, 0, 7, 0, 0, 0, 12, 3, 0, 0, 0, 65, 66, 67] := by decide
example : toNetwork (toHost exErr) = exErr ∧ toNetwork (toHost exIpv4) = exIpv4 := by decide
example : convFields exErr = [(2, 2), (4, 4), (8, 4), (20, 4)] := by decide
/-- the asymmetric order inside the Error Report case matters: converting a host-order Error Report
    "to host" again looks for the text-length field in the wrong place -/
example : toHost (toHost exErr) ≠ exErr := by decide

end Examples

end Rtr.Conv
