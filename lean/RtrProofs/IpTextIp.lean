/-
  IpTextIp: the dispatcher of ip.c (`strchr(str, ':')`) on formatted addresses and on strings of the
  language; soundness of the executable `inet_pton` model (`pton4`, `pton6`) w.r.t. the renders.
-/
import RtrProofs.IpTextFmt

namespace Rtr.IpText

theorem decChar_ne_colon (d : Nat) : decChar d ≠ ':' := by
  unfold decChar; split <;> decide

theorem colon_notin_dec8 (n : Nat) : ':' ∉ dec8 n := by
  unfold dec8
  split
  · simp [Ne.symm (decChar_ne_colon _)]
  · split <;> simp [Ne.symm (decChar_ne_colon _)]

theorem colon_notin_quadStr (q : Nat × Nat × Nat × Nat) : ':' ∉ quadStr q := by
  simp [quadStr, colon_notin_dec8]

theorem colon_in_joinC2 (a b : Str) (rest : List Str) : ':' ∈ joinC (a :: b :: rest) := by
  simp [joinC]

/-- every string of the language contains a colon, so `lrtr_ip_str_to_addr` sends it to the IPv6 parser -/
theorem colon_in_render {r : Render} (h : r.WF) : ':' ∈ r.toString := by
  obtain ⟨_, _, _, hcount⟩ := wf_unpack h
  have hqv := quadVals_length r
  cases hgap : r.gap with
  | true => simp [Render.toString, hgap]
  | false =>
    simp only [hgap] at hcount
    obtain ⟨hp0, hc⟩ := hcount
    simp only [Render.toString, hgap, Bool.false_eq_true, if_false]
    have h2 : 2 ≤ r.pre.length := by
      simp only [Render.count, hp0, List.length_nil] at hc
      rw [hqv] at hc
      split at hc <;> omega
    match hp : r.pre, h2 with
    | a :: b :: rest, _ => exact colon_in_joinC2 a b _

theorem decVal_lt {s : Str} {v : Nat} (h : decVal? s = some v) : v < 256 := by
  unfold decVal? at h
  split at h
  · cases h
  · simp only at h
    split at h
    · rename_i hv; injection h with h; omega
    · cases h

theorem quad_ok {s : Str} {q : Nat × Nat × Nat × Nat} (h : quad? s = some q) : quadOk q = true := by
  unfold quad? at h
  split at h
  · split at h
    · rename_i a b c d _ a' b' c' d' ha hb hc hd
      injection h with h; subst h
      simp [quadOk, decVal_lt ha, decVal_lt hb, decVal_lt hc, decVal_lt hd]
    · cases h
  · cases h

theorem pton4_sound {s : Str} {a : Nat} (h : pton4 s = some a) :
    ∃ q, quadOk q = true ∧ quadStr q = s ∧ a = q.1 * 16777216 + q.2.1 * 65536 + q.2.2.1 * 256 + q.2.2.2 := by
  unfold pton4 at h
  split at h
  · rename_i q hq
    split at h
    · rename_i hs; injection h with h; exact ⟨q, quad_ok hq, hs, h.symm⟩
    · cases h
  · cases h

/-- the recogniser only answers with a well-formed render of exactly the given text -/
theorem recognise6_sound {s : Str} {r : Render} (h : recognise6 s = some r) : r.WF ∧ r.toString = s := by
  unfold recognise6 at h
  split at h
  · rename_i hc; injection h with h; subst h; exact hc
  · cases h

theorem pton6_sound {s : Str} {v : List Nat} (h : pton6 s = some v) : ∃ r : Render, r.WF ∧ r.toString = s ∧ r.value = v := by
  unfold pton6 at h
  cases hr : recognise6 s with
  | none => simp [hr] at h
  | some r =>
    simp [hr] at h
    exact ⟨r, (recognise6_sound hr).1, (recognise6_sound hr).2, h⟩

end Rtr.IpText
