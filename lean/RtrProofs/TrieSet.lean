/-
  TrieSet: `pfx_table_add` / `pfx_table_remove` / `pfx_table_src_remove` on one trie refine the
  multiset of (prefix, length, payload element) triples, and keep the trie well-formed.
-/
import RtrProofs.TrieOps

namespace Rtr

theorem mem_elems_iff (t : Trie) (a : Addr) (n : Nat) (e : Elem) :
    (a, n, e) ∈ t.elems ↔ ∃ c ∈ t.nodes, c.addr = a ∧ c.len = n ∧ e ∈ c.data := by
  simp only [Trie.elems, List.mem_flatMap, List.mem_map]
  constructor
  · rintro ⟨c, hc, e', he, h⟩
    simp only [Prod.mk.injEq] at h
    exact ⟨c, hc, h.1, h.2.1, h.2.2 ▸ he⟩
  · rintro ⟨c, hc, h1, h2, h3⟩
    exact ⟨c, hc, e, h3, by simp [h1, h2]⟩

theorem not_mem_elems_of_key (t : Trie) (a : Addr) (n : Nat) (e : Elem) (h : (a, n) ∉ t.keys) : (a, n, e) ∉ t.elems := by
  rw [mem_elems_iff]
  rintro ⟨c, hc, h1, h2, _⟩
  exact h ((mem_keys_iff t a n).2 ⟨c, hc, h1, h2⟩)

theorem subAt_root_mem : ∀ (t : Trie) (p : List Bool) (c : NodeC) (l r : Trie), t.subAt p = .node c l r → c ∈ t.nodes := by
  intro t
  induction t with
  | nil => intro p c l r h; cases p <;> simp [Trie.subAt] at h
  | node c0 l0 r0 ihl ihr =>
    intro p c l r h
    cases p with
    | nil => simp [Trie.subAt] at h; simp [Trie.nodes, h.1]
    | cons b p =>
      cases b with
      | true => simp only [Trie.subAt, if_true] at h; simp [Trie.nodes, ihr p c l r h]
      | false => simp only [Trie.subAt, Bool.false_eq_true, if_false] at h; simp [Trie.nodes, ihl p c l r h]

theorem eq_of_nodup_map {α β} (f : α → β) : ∀ (l : List α), (l.map f).Nodup → ∀ a ∈ l, ∀ b ∈ l, f a = f b → a = b := by
  intro l
  induction l with
  | nil => intro _ a ha; cases ha
  | cons x xs ih =>
    intro h a ha b hb e
    simp only [List.map_cons, List.nodup_cons, List.mem_map, not_exists, not_and] at h
    rcases List.mem_cons.1 ha with hax | ha' <;> rcases List.mem_cons.1 hb with hbx | hb'
    · rw [hax, hbx]
    · subst hax; exact absurd e.symm (h.1 b hb')
    · subst hbx; exact absurd e (h.1 a ha')
    · exact ih h.2 a ha' b hb' e

/-- in a well-formed trie the node carrying a key is unique -/
theorem node_unique (w : Nat) (t : Trie) (d : Nat) (h : WF w t d) (c c' : NodeC) (hc : c ∈ t.nodes) (hc' : c' ∈ t.nodes)
    (e1 : c.addr = c'.addr) (e2 : c.len = c'.len) : c = c' := by
  have := WF_keys_nodup w t d h
  rw [keys_eq_map] at this
  exact eq_of_nodup_map _ t.nodes this c hc c' hc' (by simp [e1, e2])

theorem modifyAt_elems (t : Trie) (p : List Bool) (h : ∃ c l r, t.subAt p = .node c l r) :
    ∃ rest, t.elems.Perm ((t.subAt p).elems ++ rest) ∧
      ∀ f, (t.modifyAt p f).elems.Perm ((f (t.subAt p)).elems ++ rest) := by
  obtain ⟨rest, h1, h2⟩ := modifyAt_nodes t p h
  refine ⟨rest.flatMap fun c => c.data.map fun e => (c.addr, c.len, e), ?_, fun f => ?_⟩
  · have := List.Perm.flatMap_right (fun (c : NodeC) => c.data.map fun e => (c.addr, c.len, e)) h1
    simpa [Trie.elems, List.flatMap_append] using this
  · have := List.Perm.flatMap_right (fun (c : NodeC) => c.data.map fun e => (c.addr, c.len, e)) (h2 f)
    simpa [Trie.elems, List.flatMap_append] using this

/-! ## payload element search -/

theorem findElem_isSome (d : List Elem) (e : Elem) : (findElem d e).isSome = true ↔ e ∈ d := by
  unfold findElem
  rw [List.findIdx?_isSome, List.any_eq_true]
  constructor
  · rintro ⟨x, hx, h⟩
    simp only [Bool.and_eq_true, beq_iff_eq] at h
    have : x = e := by cases x; cases e; simp_all
    exact this ▸ hx
  · intro h; exact ⟨e, h, by simp⟩

theorem findElem_some (d : List Elem) (e : Elem) (i : Nat) (h : findElem d e = some i) :
    ∃ hi : i < d.length, d[i] = e := by
  unfold findElem at h
  have := List.findIdx?_eq_some_iff_getElem.1 h
  obtain ⟨hi, hp, _⟩ := this
  refine ⟨hi, ?_⟩
  simp only [Bool.and_eq_true, beq_iff_eq] at hp
  generalize d[i] = x at hp
  cases x; cases e; simp_all

theorem perm_eraseIdx {α} : ∀ (d : List α) (i : Nat) (hi : i < d.length), d.Perm (d[i] :: d.eraseIdx i) := by
  intro d
  induction d with
  | nil => intro i hi; simp at hi
  | cons x xs ih =>
    intro i hi
    cases i with
    | zero => simp
    | succ j =>
      simp only [List.getElem_cons_succ, List.eraseIdx_cons_succ]
      have := ih j (by simpa using hi)
      exact (List.Perm.cons x this).trans (List.Perm.swap _ _ _)

theorem delElem_perm (d : List Elem) (e : Elem) (i : Nat) (h : findElem d e = some i) : d.Perm (e :: delElem d i) := by
  obtain ⟨hi, he⟩ := findElem_some d e i h
  unfold delElem
  rw [← he]
  exact perm_eraseIdx d i hi

/-! ## pfx_table_add on one trie -/

open PfxTable

structure KeyOK (w : Nat) (a : Addr) (n : Nat) : Prop where
  len : n ≤ w
  lt : a < 2^w
  hz : hostZero w a n

structure AddOK (w : Nat) (t : Trie) (a : Addr) (n : Nat) (e : Elem) (res : Trie × PfxRc) : Prop where
  wf : WF w res.1 0
  dup : res.2 = .duplicate → res.1 = t ∧ (a, n, e) ∈ t.elems
  ok : res.2 = .success → (a, n, e) ∉ t.elems ∧ res.1.elems.Perm ((a, n, e) :: t.elems)
  codes : res.2 = .success ∨ res.2 = .duplicate

theorem lookupExact_zero_ne_up (w : Nat) (q : Addr) (n : Nat) (t : Trie) : lookupExact w q n t 0 ≠ .up := by
  cases t with
  | nil => simp [lookupExact]
  | node c l r =>
    unfold lookupExact
    simp only [Nat.lt_irrefl, false_and, if_false, gt_iff_lt]
    split
    · simp
    · split
      · split
        · simp
        · split <;> simp
      · split
        · simp
        · split <;> simp

theorem elems_setData (c : NodeC) (l r : Trie) (d : List Elem) :
    (Trie.node { c with data := d } l r).elems = l.elems ++ (d.map fun e => (c.addr, c.len, e)) ++ r.elems := by
  rw [elems_node]

theorem KeySub_setData (c : NodeC) (l r : Trie) (d : List Elem) :
    KeySub (Trie.node { c with data := d } l r) (Trie.node c l r) := by
  intro x hx
  simp only [Trie.nodes, List.mem_append, List.mem_cons] at hx ⊢
  rcases hx with h | h | h
  · exact ⟨x, Or.inl h, rfl, rfl⟩
  · exact ⟨c, Or.inr (Or.inl rfl), by simp [h], by simp [h]⟩
  · exact ⟨x, Or.inr (Or.inr h), rfl, rfl⟩

theorem WF_setData (w : Nat) (c : NodeC) (l r : Trie) (d : Nat) (data : List Elem) (h : WF w (.node c l r) d)
    (h1 : data ≠ []) (h2 : data.Nodup) : WF w (.node { c with data := data } l r) d :=
  ⟨⟨h.1.1, h.1.2.1, h.1.2.2.1, h1, h2⟩, h.2.1, h.2.2.1, h.2.2.2.1, h.2.2.2.2⟩

theorem addTrie_spec (w : Nat) (t : Trie) (a : Addr) (n : Nat) (e : Elem) (h : WF w t 0) (k : KeyOK w a n) :
    AddOK w t a n e (addTrie w t a n e) := by
  have newOK : NodeOK w ⟨a, n, [e]⟩ := ⟨k.len, k.lt, k.hz, by simp, by simp⟩
  cases t with
  | nil =>
    simp only [addTrie]
    refine ⟨⟨newOK, trivial, trivial, trivial, trivial⟩, by simp, fun _ => ⟨by simp [Trie.elems, Trie.nodes], ?_⟩, Or.inl rfl⟩
    simp [Trie.elems, Trie.nodes]
  | node c0 l0 r0 =>
    have spec := lookupExact_spec w a n (.node c0 l0 r0) 0 h
    simp only [addTrie]
    split
    · rename_i hres; exact absurd hres (lookupExact_zero_ne_up w a n _)
    · -- a node with this prefix exists
      rename_i p hres
      rw [hres] at spec
      obtain ⟨c, l, r, hsub, ha, hn⟩ := spec
      have hcmem := subAt_root_mem _ p c l r hsub
      have wsub := subAt_WF w _ 0 p h
      rw [hsub] at wsub
      have inelems : (a, n, e) ∈ (Trie.node c0 l0 r0).elems ↔ e ∈ c.data := by
        rw [mem_elems_iff]
        constructor
        · rintro ⟨c', hc', h1, h2, h3⟩
          have := node_unique w _ 0 h c' c hc' hcmem (by rw [h1, ha]) (by rw [h2, hn])
          rw [← this]; exact h3
        · intro he; exact ⟨c, hcmem, ha, hn, he⟩
      simp only [hsub]
      split
      · rename_i hf
        exact ⟨h, fun _ => ⟨rfl, inelems.2 ((findElem_isSome _ _).1 hf)⟩, by simp, Or.inr rfl⟩
      · rename_i hf
        have hnot : e ∉ c.data := fun he => hf ((findElem_isSome _ _).2 he)
        obtain ⟨rest, p1, p2⟩ := modifyAt_elems (.node c0 l0 r0) p ⟨c, l, r, hsub⟩
        refine ⟨?_, by simp, fun _ => ⟨fun hin => hnot (inelems.1 hin), ?_⟩, Or.inl rfl⟩
        · apply modifyAt_WF w _ 0 p _ h
          · simp only [hsub]
            exact WF_setData w c l r _ _ wsub (by simp) (by
              rw [List.nodup_append]; exact ⟨wsub.1.2.2.2.2, by simp, by
                intro x hx y hy; simp at hy; subst hy; intro e'; subst e'; exact hnot hx⟩)
          · simp only [hsub]; exact KeySub_setData c l r _
        · refine (p2 _).trans ?_
          refine List.Perm.trans ?_ (List.Perm.cons _ p1.symm)
          simp only [hsub, elems_setData, elems_node, List.map_append, List.map_cons, List.map_nil]
          rw [ha, hn]
          have : (l.elems ++ (List.map (fun e => (a, n, e)) c.data ++ [(a, n, e)]) ++ r.elems ++ rest).Perm
              ((l.elems ++ List.map (fun e => (a, n, e)) c.data) ++ (a, n, e) :: (r.elems ++ rest)) := by
            simp
          refine this.trans ?_
          refine List.perm_middle.trans ?_
          simp
    · -- no such node: insert below the returned node
      rename_i p hres
      rw [hres] at spec
      have hnk := spec.1
      have eq := lookupExact_insert w ⟨a, n, [e]⟩ (.node c0 l0 r0) 0 h p hres
      simp only [Nat.zero_add] at eq
      rw [eq]
      refine ⟨insert_WF w _ _ 0 h newOK hnk, by simp, fun _ => ⟨not_mem_elems_of_key _ a n e hnk, ?_⟩, Or.inl rfl⟩
      have := elems_perm (t := insert w (.node c0 l0 r0) ⟨a, n, [e]⟩ 0) (t' := .node ⟨a, n, [e]⟩ .nil (.node c0 l0 r0)) (by
        simpa [Trie.nodes] using insert_nodes_perm w (.node c0 l0 r0) ⟨a, n, [e]⟩ 0)
      refine this.trans ?_
      simp [elems_node, elems_nil]

/-! ## pfx_table_remove on one trie -/

structure RemOK (w : Nat) (t : Trie) (a : Addr) (n : Nat) (e : Elem) (res : Trie × PfxRc) : Prop where
  wf : WF w res.1 0
  nf : res.2 = .notFound → res.1 = t ∧ (a, n, e) ∉ t.elems
  ok : res.2 = .success → t.elems.Perm ((a, n, e) :: res.1.elems)
  codes : res.2 = .success ∨ res.2 = .notFound

theorem removeTrie_spec (w : Nat) (t : Trie) (a : Addr) (n : Nat) (e : Elem) (h : WF w t 0) :
    RemOK w t a n e (removeTrie w t a n e) := by
  have spec := lookupExact_spec w a n t 0 h
  have nfcase : (a, n) ∉ t.keys → RemOK w t a n e (t, .notFound) := fun hk =>
    ⟨h, fun _ => ⟨rfl, not_mem_elems_of_key t a n e hk⟩, by simp, Or.inr rfl⟩
  unfold removeTrie
  split
  · rename_i p hres
    rw [hres] at spec
    obtain ⟨c, l, r, hsub, ha, hn⟩ := spec
    have hcmem := subAt_root_mem _ p c l r hsub
    have wsub := subAt_WF w _ 0 p h
    rw [hsub] at wsub
    have inelems : (a, n, e) ∈ t.elems ↔ e ∈ c.data := by
      rw [mem_elems_iff]
      constructor
      · rintro ⟨c', hc', h1, h2, h3⟩
        have := node_unique w _ 0 h c' c hc' hcmem (by rw [h1, ha]) (by rw [h2, hn])
        rw [← this]; exact h3
      · intro he; exact ⟨c, hcmem, ha, hn, he⟩
    simp only [hsub]
    split
    · rename_i hf
      have : e ∉ c.data := by
        intro he
        have := (findElem_isSome _ _).2 he
        rw [hf] at this; simp at this
      exact ⟨h, fun _ => ⟨rfl, fun hin => this (inelems.1 hin)⟩, by simp, Or.inr rfl⟩
    · rename_i i hf
      have dp := delElem_perm c.data e i hf
      obtain ⟨rest, p1, p2⟩ := modifyAt_elems t p ⟨c, l, r, hsub⟩
      have dsub : (delElem c.data i).Sublist c.data := List.eraseIdx_sublist _ _
      split
      · -- last element of the node: the node goes
        rename_i hempty
        have hd : delElem c.data i = [] := by simpa using hempty
        rw [hd] at dp
        refine ⟨?_, by simp, fun _ => ?_, Or.inl rfl⟩
        · apply modifyAt_WF w _ 0 p _ h
          · simp only [hsub]
            exact removeRoot_WF w _ l r _ ⟨wsub.2.1, wsub.2.2.1, wsub.2.2.2.1, wsub.2.2.2.2⟩
          · simp only [hsub]
            intro x hx
            have := (removeRoot_nodes_perm _ { c with data := [] } l r rfl).mem_iff.1 hx
            simp only [Trie.nodes, List.mem_append, List.mem_cons] at this ⊢
            rcases this with h' | h'
            · exact ⟨x, Or.inl h', rfl, rfl⟩
            · exact ⟨x, Or.inr (Or.inr h'), rfl, rfl⟩
        · refine p1.trans ?_
          refine List.Perm.trans ?_ (List.Perm.cons _ (p2 _).symm)
          simp only [hsub]
          have ep : (removeRoot (.node { c with data := [] } l r)).elems.Perm (l.elems ++ r.elems) := by
            have := List.Perm.flatMap_right (fun (c : NodeC) => c.data.map fun e => (c.addr, c.len, e))
              (removeRoot_nodes_perm _ { c with data := [] } l r rfl)
            simpa [Trie.elems, List.flatMap_append] using this
          refine List.Perm.trans ?_ (List.Perm.cons _ (List.Perm.append_right _ ep.symm))
          rw [elems_node, ha, hn]
          have m : (c.data.map fun e => (a, n, e)).Perm [(a, n, e)] := by simpa using dp.map (fun e => (a, n, e))
          refine ((m.append_left l.elems).append_right r.elems).append_right rest |>.trans ?_
          simp only [List.append_assoc, List.singleton_append]
          exact List.perm_middle
      · rename_i hne
        have hd : delElem c.data i ≠ [] := by simpa using hne
        refine ⟨?_, by simp, fun _ => ?_, Or.inl rfl⟩
        · apply modifyAt_WF w _ 0 p _ h
          · simp only [hsub]
            exact WF_setData w c l r _ _ wsub hd (wsub.1.2.2.2.2.sublist dsub)
          · simp only [hsub]; exact KeySub_setData c l r _
        · refine p1.trans ?_
          refine List.Perm.trans ?_ (List.Perm.cons _ (p2 _).symm)
          simp only [hsub, elems_node]
          rw [ha, hn]
          have m := dp.map (fun e => (a, n, e))
          simp only [List.map_cons] at m
          refine ((m.append_left l.elems).append_right r.elems).append_right rest |>.trans ?_
          simp only [List.append_assoc, List.cons_append]
          exact List.perm_middle
  · rename_i hres
    cases hl : lookupExact w a n t 0 with
    | up => rw [hl] at spec; exact nfcase spec
    | «at» p f =>
      cases f with
      | true => exact absurd hl (hres p)
      | false => rw [hl] at spec; exact nfcase spec.1

/-! ## pfx_table_remove_id from the root -/

theorem removeId_WF (w : Nat) (src : Nat) (t : Trie) (d : Nat) (h : WF w t d) : RemoveIdOK w src t d (removeId src t) := by
  apply removeId_spec w src t d (fun _ _ _ _ => Or.inr trivial)
  cases t with
  | nil => trivial
  | node c l r => exact ⟨h.1.1, h.1.2.1, h.1.2.2.1, h.1.2.2.2.2, h.2.1, h.2.2.1, h.2.2.2.1, h.2.2.2.2⟩

/-- the payload elements of a well-formed trie are pairwise distinct -/
theorem WF_elems_nodup (w : Nat) (t : Trie) (d : Nat) (h : WF w t d) : t.elems.Nodup := by
  have hk := WF_keys_nodup w t d h
  have hok := (All_iff t).1 (WF_nodeOK w t d h)
  rw [keys_eq_map] at hk
  unfold Trie.elems
  generalize t.nodes = ns at hk hok
  induction ns with
  | nil => simp
  | cons c cs ih =>
    simp only [List.map_cons, List.nodup_cons, List.mem_map, not_exists, not_and] at hk
    simp only [List.flatMap_cons]
    rw [List.nodup_append]
    refine ⟨?_, ih hk.2 (fun x hx => hok x (List.mem_cons_of_mem _ hx)), ?_⟩
    · exact List.Pairwise.map _ (fun a b hab e => hab (by simpa using e)) (hok c (by simp)).2.2.2.2
    · intro x hx y hy e
      subst e
      simp only [List.mem_map, List.mem_flatMap] at hx hy
      obtain ⟨e1, _, rfl⟩ := hx
      obtain ⟨c', hc', e2, _, he⟩ := hy
      simp only [Prod.mk.injEq] at he
      exact hk.1 c' hc' (by simp [he.1, he.2.1])

end Rtr
