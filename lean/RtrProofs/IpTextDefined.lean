/-
  IpTextDefined: the repaired parser never reads a `words[]` slot it has not written, whatever the
  input text (invariant of the `while` loop: slots below `i` are written, `hfil <= i <= 8`).
-/
import RtrProofs.IpTextParse

namespace Rtr.IpText

/-- loop invariant -/
def Inv (st : PSt) : Prop := ∃ vals, Shape st vals ∧ ∀ h, st.hfil = some h → h ≤ st.i

theorem inv_init : Inv initSt := ⟨[], shape_init, by intro h e; cases e⟩

theorem inv_push {st : PSt} (h : Inv st) (hlt : st.i < 8) (v : Nat) : Inv (push st v) := by
  obtain ⟨vals, hs, hh⟩ := h
  refine ⟨vals ++ [v], shape_push hs (by rw [← hs.i]; exact hlt) v, ?_⟩
  intro k hk
  rw [push_hfil] at hk
  have := hh k hk
  rw [push_i]; omega

theorem inv_hfil {st : PSt} (h : Inv st) : Inv { st with hfil := some st.i } := by
  obtain ⟨vals, hs, _⟩ := h
  refine ⟨vals, ⟨hs.words, hs.i, hs.le⟩, ?_⟩
  intro k hk
  simp only [Option.some.injEq] at hk
  show k ≤ st.i
  omega

/-- everything after the loop is defined, for every reachable state -/
theorem finish_defined {st : PSt} (h : Inv st) : finish true st ≠ .uninit := by
  obtain ⟨vals, hs, hh⟩ := h
  cases hf : st.hfil with
  | none =>
    by_cases h8 : st.i = 8
    · rw [finish_nogap true hs hf (by rw [← hs.i]; exact h8)]; intro e; cases e
    · rw [finish_nogap_short hf h8]; intro e; cases e
  | some k =>
    have hk := hh k hf
    have hk' : k ≤ vals.length := by rw [← hs.i]; exact hk
    have e : vals = vals.take k ++ vals.drop k := (List.take_append_drop k vals).symm
    have hs' : Shape st (vals.take k ++ vals.drop k) := by rw [← e]; exact hs
    have := finish_gap true (vals.take k) (vals.drop k) hs' (by rw [hf, List.length_take]; congr 1; omega)
    rw [this]; intro e; cases e

theorem loop_defined : ∀ (f : Nat) (s : Str) (st : PSt), Inv st → loop true f s st ≠ .uninit := by
  intro f
  induction f with
  | zero => intro s st _; simp [loop]
  | succ f ih =>
    intro s st hinv
    cases s with
    | nil => simpa [loop] using finish_defined hinv
    | cons c cs =>
      simp only [loop]
      by_cases hc : c = ':'
      · simp only [hc, if_true]
        by_cases hh : st.hfil.isSome = true
        · simp [hh]
        · simp only [hh]
          exact ih _ _ (inv_hfil hinv)
      · simp only [hc, if_false]
        cases hs : scanHex (c :: cs) 0 0 with
        | none => simp
        | some p =>
          obtain ⟨j, rest⟩ := p
          cases rest with
          | nil =>
            simp only
            by_cases h8 : st.i ≥ 8
            · simp [h8]
            · simp only [h8, if_false]
              exact finish_defined (inv_push hinv (by omega) j)
          | cons d ds =>
            simp only
            by_cases h1 : d = ':' ∧ ds ≠ []
            · rw [if_pos h1]
              by_cases h8 : st.i ≥ 8
              · simp [h8]
              · simp only [h8, if_false]
                exact ih _ _ (inv_push hinv (by omega) j)
            · rw [if_neg h1]
              by_cases h2 : d = '.' ∧ (st.i = 6 ∨ (st.i < 6 ∧ st.hfil.isSome = true))
              · rw [if_pos h2]
                cases hp : parse4 (c :: cs) with
                | none => simp
                | some a =>
                  simp only
                  have hi : st.i < 7 := by rcases h2.2 with h | h <;> omega
                  exact finish_defined (inv_push (inv_push hinv (by omega) _) (by rw [push_i]; omega) _)
              · rw [if_neg h2]; simp

/-- **the repaired parser never reads a word it has not written** -/
theorem parse6_defined' (s : Str) : parse6 s ≠ .uninit := by
  unfold parse6 parse6Core
  split
  · split
    · exact loop_defined _ _ _ inv_init
    · intro e; cases e
  · exact loop_defined _ _ _ inv_init

end Rtr.IpText
