/-
  LocksPair: two locks taken as ONE critical section (C06 across the two live tables).

  * `checkQ` / `runQ`: the path checker `check` with the lock state replaced by the state of an
    arbitrary automaton over events (unique automaton state per program point; loops must leave
    it unchanged; every function returns in the state it was entered with) and its soundness with
    respect to the path semantics `Exec` (`checkQ_sound`): the automaton accepts every path.
  * `pairδ A B`: the automaton of the combined section of locks `A` then `B`:
        out  --acq W A-->  pend  --acq W B-->  done  --rel A-->  out
    `acq W B` is only accepted in `pend` (so: while the write lock of `A` is held, at most once
    per section), `rel A` is not accepted in `pend` (so: a write section of `A` always contains
    the write acquisition of `B`), `acq W A` only in `out`.
  * `pair_atomic`: a thread `w` whose whole path is accepted, in every reachable state of any
    system in which it does not hold `A`'s write lock: as many write acquisitions of `A` as of `B`
    are still ahead - the write section of `B` has begun iff the one of `A` has begun.
-/
import RtrProofs.Locks
import RtrProofs.LocksChecker
import RtrProofs.LocksReload

namespace Rtr.Locks

/-! ## A generic path tracker -/

section Track
variable {Q : Type} [DecidableEq Q]

/-- run an automaton over a path: `none` as soon as an event is not accepted -/
def runQ (δ : Q → Ev → Option Q) : Q → List Ev → Option Q
  | q, [] => some q
  | q, e :: π =>
    match δ q e with
    | some q' => runQ δ q' π
    | none => none

omit [DecidableEq Q] in
theorem runQ_append (δ : Q → Ev → Option Q) (q : Q) (π₁ π₂ : List Ev) :
    runQ δ q (π₁ ++ π₂) = (runQ δ q π₁).bind (fun q' => runQ δ q' π₂) := by
  induction π₁ generalizing q with
  | nil => simp [runQ]
  | cons e π ih =>
    simp only [List.cons_append, runQ]
    split
    · exact ih _
    · rfl

/-- `checkQ δ T fuel p entry lp q`: automaton state after `p` when started in `q`, over all paths
    (same conventions as `check`: `none` = some path is rejected or two paths disagree,
    `some none` = no path completes normally, `some (some q')` = all normal ends in `q'`). -/
def checkQ (δ : Q → Ev → Option Q) (T : List Fn) : Nat → Prog → Q → Option Q → Q → Option (Option Q)
  | 0, _, _, _, _ => none
  | _ + 1, .skip, _, _, h => some (some h)
  | n + 1, .act a, _, _, h =>
    match a with
    | .acq m l _ => (δ h (.acq m l)).map some
    | .rel l _ => (δ h (.rel l)).map some
    | .rd x _ => (δ h (.rd x)).map some
    | .wr x _ => (δ h (.wr x 0)).map some
    | .ext _ => some (some h)
    | .cb _ _ => some (some h)
    | .unknown _ => none
    | .call f tm cbs _ =>
      match T[f]? with
      | none => none
      | some fn =>
        match checkQ δ T n (fn.body.inst tm cbs) h none h with
        | none => none
        | some none => some (some h)
        | some (some h') => if h' = h then some (some h) else none
  | n + 1, .seq p q, e, lp, h =>
    match checkQ δ T n p e lp h with
    | none => none
    | some none => some none
    | some (some h₁) => checkQ δ T n q e lp h₁
  | n + 1, .alt p q, e, lp, h =>
    match checkQ δ T n p e lp h, checkQ δ T n q e lp h with
    | some none, some r => some r
    | some (some h₁), some none => some (some h₁)
    | some (some h₁), some (some h₂) => if h₁ = h₂ then some (some h₁) else none
    | _, _ => none
  | n + 1, .loop p, e, _, h =>
    match checkQ δ T n p e (some h) h with
    | none => none
    | some none => some (some h)
    | some (some h') => if h' = h then some (some h) else none
  | _ + 1, .ret, e, _, h => if h = e then some none else none
  | _ + 1, .brk, _, lp, h => if lp = some h then some none else none

/-- every path through `p` from state `q₀` is accepted and ends (normally or by `return`) in `q₀` -/
def acceptsProg (δ : Q → Ev → Option Q) (T : List Fn) (p : Prog) (q₀ : Q) : Bool :=
  match checkQ δ T fuel p q₀ none q₀ with
  | some none => true
  | some (some q) => decide (q = q₀)
  | none => false

def outOkQ (o : Out) (r : Option Q) (e : Q) (lp : Option Q) (h' : Q) : Prop :=
  match o with
  | .norm => r = some h'
  | .ret => h' = e
  | .brk => lp = some h'

theorem checkQ_sound {δ : Q → Ev → Option Q} (hwr : ∀ q x v, δ q (.wr x v) = δ q (.wr x 0))
    {T : List Fn} {p : Prog} {π : List Ev} {o : Out} (hx : Exec T p π o) :
    ∀ (n : Nat) (e : Q) (lp : Option Q) (h : Q) (r : Option Q),
      checkQ δ T n p e lp h = some r →
      ∃ h', runQ δ h π = some h' ∧ outOkQ o r e lp h' := by
  induction hx with
  | skip =>
    intro n e lp h r hc
    cases n with
    | zero => simp [checkQ] at hc
    | succ n => simp only [checkQ, Option.some.injEq] at hc; exact ⟨h, rfl, hc.symm⟩
  | @acq m l ln =>
    intro n e lp h r hc
    cases n with
    | zero => simp [checkQ] at hc
    | succ n =>
      simp only [checkQ] at hc
      cases hd : δ h (.acq m l) with
      | none => rw [hd] at hc; simp at hc
      | some q' =>
        rw [hd] at hc
        simp only [Option.map_some, Option.some.injEq] at hc
        exact ⟨q', by simp [runQ, hd], hc.symm⟩
  | @rel l ln =>
    intro n e lp h r hc
    cases n with
    | zero => simp [checkQ] at hc
    | succ n =>
      simp only [checkQ] at hc
      cases hd : δ h (.rel l) with
      | none => rw [hd] at hc; simp at hc
      | some q' =>
        rw [hd] at hc
        simp only [Option.map_some, Option.some.injEq] at hc
        exact ⟨q', by simp [runQ, hd], hc.symm⟩
  | @rd x ln =>
    intro n e lp h r hc
    cases n with
    | zero => simp [checkQ] at hc
    | succ n =>
      simp only [checkQ] at hc
      cases hd : δ h (.rd x) with
      | none => rw [hd] at hc; simp at hc
      | some q' =>
        rw [hd] at hc
        simp only [Option.map_some, Option.some.injEq] at hc
        exact ⟨q', by simp [runQ, hd], hc.symm⟩
  | @wr x ln v =>
    intro n e lp h r hc
    cases n with
    | zero => simp [checkQ] at hc
    | succ n =>
      simp only [checkQ] at hc
      cases hd : δ h (.wr x 0) with
      | none => rw [hd] at hc; simp at hc
      | some q' =>
        rw [hd] at hc
        simp only [Option.map_some, Option.some.injEq] at hc
        have hd' : δ h (.wr x v) = some q' := by rw [hwr]; exact hd
        exact ⟨q', by simp [runQ, hd'], hc.symm⟩
  | ext =>
    intro n e lp h r hc
    cases n with
    | zero => simp [checkQ] at hc
    | succ n => simp only [checkQ, Option.some.injEq] at hc; exact ⟨h, rfl, hc.symm⟩
  | cbFree =>
    intro n e lp h r hc
    cases n with
    | zero => simp [checkQ] at hc
    | succ n => simp only [checkQ, Option.some.injEq] at hc; exact ⟨h, rfl, hc.symm⟩
  | unknown =>
    intro n e lp h r hc
    cases n with
    | zero => simp [checkQ] at hc
    | succ n => simp [checkQ] at hc
  | @call f tm cbs ln fn π o hf _ hob ih =>
    intro n e lp h r hc
    cases n with
    | zero => simp [checkQ] at hc
    | succ n =>
      simp only [checkQ, hf] at hc
      split at hc
      · simp at hc
      · rename_i hcb
        simp only [Option.some.injEq] at hc
        obtain ⟨h', hr, hok⟩ := ih n h none h none hcb
        cases o with
        | norm => simp [outOkQ] at hok
        | ret => simp only [outOkQ] at hok; subst hok; exact ⟨h', hr, hc.symm⟩
        | brk => exact absurd rfl hob
      · rename_i h'' hcb
        split at hc
        · rename_i heq
          simp only [Option.some.injEq] at hc
          obtain ⟨h', hr, hok⟩ := ih n h none h (some h'') hcb
          cases o with
          | norm =>
            simp only [outOkQ, Option.some.injEq] at hok
            subst hok; subst heq
            exact ⟨h'', hr, hc.symm⟩
          | ret => simp only [outOkQ] at hok; subst hok; exact ⟨h', hr, hc.symm⟩
          | brk => exact absurd rfl hob
        · simp at hc
  | @seqNorm p q π₁ π₂ o _ _ ih₁ ih₂ =>
    intro n e lp h r hc
    cases n with
    | zero => simp [checkQ] at hc
    | succ n =>
      simp only [checkQ] at hc
      split at hc
      · simp at hc
      · rename_i hc₁
        obtain ⟨h', _, hok⟩ := ih₁ n e lp h none hc₁
        simp [outOkQ] at hok
      · rename_i h₁ hc₁
        obtain ⟨h', hr, hok⟩ := ih₁ n e lp h (some h₁) hc₁
        simp only [outOkQ, Option.some.injEq] at hok
        subst hok
        obtain ⟨h'', hr₂, hok₂⟩ := ih₂ n e lp h₁ r hc
        refine ⟨h'', ?_, hok₂⟩
        rw [runQ_append, hr]
        exact hr₂
  | @seqStop p q π o _ hon ih =>
    intro n e lp h r hc
    cases n with
    | zero => simp [checkQ] at hc
    | succ n =>
      simp only [checkQ] at hc
      split at hc
      · simp at hc
      · rename_i hc₁
        obtain ⟨h', hr, hok⟩ := ih n e lp h none hc₁
        refine ⟨h', hr, ?_⟩
        cases o with
        | norm => exact absurd rfl hon
        | ret => exact hok
        | brk => exact hok
      · rename_i h₁ hc₁
        obtain ⟨h', hr, hok⟩ := ih n e lp h (some h₁) hc₁
        refine ⟨h', hr, ?_⟩
        cases o with
        | norm => exact absurd rfl hon
        | ret => exact hok
        | brk => exact hok
  | @altL p q π o _ ih =>
    intro n e lp h r hc
    cases n with
    | zero => simp [checkQ] at hc
    | succ n =>
      simp only [checkQ] at hc
      split at hc
      · rename_i r' hp hq
        simp only [Option.some.injEq] at hc
        obtain ⟨h', hr, hok⟩ := ih n e lp h none hp
        refine ⟨h', hr, ?_⟩
        cases o with
        | norm => simp [outOkQ] at hok
        | ret => exact hok
        | brk => exact hok
      · rename_i h₁ hp hq
        simp only [Option.some.injEq] at hc
        obtain ⟨h', hr, hok⟩ := ih n e lp h (some h₁) hp
        refine ⟨h', hr, ?_⟩
        cases o with
        | norm => simp only [outOkQ] at hok ⊢; rw [← hc]; exact hok
        | ret => exact hok
        | brk => exact hok
      · rename_i h₁ h₂ hp hq
        split at hc
        · simp only [Option.some.injEq] at hc
          obtain ⟨h', hr, hok⟩ := ih n e lp h (some h₁) hp
          refine ⟨h', hr, ?_⟩
          cases o with
          | norm => simp only [outOkQ] at hok ⊢; rw [← hc]; exact hok
          | ret => exact hok
          | brk => exact hok
        · simp at hc
      · simp at hc
  | @altR p q π o _ ih =>
    intro n e lp h r hc
    cases n with
    | zero => simp [checkQ] at hc
    | succ n =>
      simp only [checkQ] at hc
      split at hc
      · rename_i r' hp hq
        simp only [Option.some.injEq] at hc
        obtain ⟨h', hr, hok⟩ := ih n e lp h r' hq
        refine ⟨h', hr, ?_⟩
        cases o with
        | norm => simp only [outOkQ] at hok ⊢; rw [← hc]; exact hok
        | ret => exact hok
        | brk => exact hok
      · rename_i h₁ hp hq
        simp only [Option.some.injEq] at hc
        obtain ⟨h', hr, hok⟩ := ih n e lp h none hq
        refine ⟨h', hr, ?_⟩
        cases o with
        | norm => simp [outOkQ] at hok
        | ret => exact hok
        | brk => exact hok
      · rename_i h₁ h₂ hp hq
        split at hc
        · rename_i heq
          simp only [Option.some.injEq] at hc
          obtain ⟨h', hr, hok⟩ := ih n e lp h (some h₂) hq
          refine ⟨h', hr, ?_⟩
          cases o with
          | norm => simp only [outOkQ] at hok ⊢; rw [← hc, heq]; exact hok
          | ret => exact hok
          | brk => exact hok
        · simp at hc
      · simp at hc
  | @loopDone p =>
    intro n e lp h r hc
    cases n with
    | zero => simp [checkQ] at hc
    | succ n =>
      simp only [checkQ] at hc
      refine ⟨h, rfl, ?_⟩
      simp only [outOkQ]
      split at hc
      · simp at hc
      · simp only [Option.some.injEq] at hc; exact hc.symm
      · split at hc
        · simp only [Option.some.injEq] at hc; exact hc.symm
        · simp at hc
  | @loopStep p π₁ π₂ o _ _ ih₁ ih₂ =>
    intro n e lp h r hc
    cases n with
    | zero => simp [checkQ] at hc
    | succ n =>
      have hc' := hc
      simp only [checkQ] at hc
      split at hc
      · simp at hc
      · rename_i hb
        obtain ⟨h', _, hok⟩ := ih₁ n e (some h) h none hb
        simp [outOkQ] at hok
      · rename_i hb' hb
        split at hc
        · rename_i heq
          obtain ⟨h', hr, hok⟩ := ih₁ n e (some h) h (some hb') hb
          simp only [outOkQ, Option.some.injEq] at hok
          subst hok; subst heq
          obtain ⟨h'', hr₂, hok₂⟩ := ih₂ (n + 1) e lp hb' r hc'
          refine ⟨h'', ?_, hok₂⟩
          rw [runQ_append, hr]
          exact hr₂
        · simp at hc
  | @loopBrk p π _ ih =>
    intro n e lp h r hc
    cases n with
    | zero => simp [checkQ] at hc
    | succ n =>
      simp only [checkQ] at hc
      split at hc
      · simp at hc
      · rename_i hb
        simp only [Option.some.injEq] at hc
        obtain ⟨h', hr, hok⟩ := ih n e (some h) h none hb
        simp only [outOkQ, Option.some.injEq] at hok
        subst hok
        exact ⟨h, hr, hc.symm⟩
      · rename_i hb' hb
        split at hc
        · simp only [Option.some.injEq] at hc
          obtain ⟨h', hr, hok⟩ := ih n e (some h) h (some hb') hb
          simp only [outOkQ, Option.some.injEq] at hok
          subst hok
          exact ⟨h, hr, hc.symm⟩
        · simp at hc
  | @loopRet p π _ ih =>
    intro n e lp h r hc
    cases n with
    | zero => simp [checkQ] at hc
    | succ n =>
      simp only [checkQ] at hc
      split at hc
      · simp at hc
      · rename_i hb
        obtain ⟨h', hr, hok⟩ := ih n e (some h) h none hb
        exact ⟨h', hr, hok⟩
      · rename_i hb' hb
        obtain ⟨h', hr, hok⟩ := ih n e (some h) h (some hb') hb
        exact ⟨h', hr, hok⟩
  | ret =>
    intro n e lp h r hc
    cases n with
    | zero => simp [checkQ] at hc
    | succ n =>
      simp only [checkQ] at hc
      split at hc
      · rename_i heq; exact ⟨h, rfl, heq⟩
      · simp at hc
  | brk =>
    intro n e lp h r hc
    cases n with
    | zero => simp [checkQ] at hc
    | succ n =>
      simp only [checkQ] at hc
      split at hc
      · rename_i heq; exact ⟨h, rfl, heq⟩
      · simp at hc

/-- `acceptsProg` is sound: the automaton accepts every complete path through the program, from
    `q₀` back to `q₀` -/
theorem acceptsProg_sound {δ : Q → Ev → Option Q} (hwr : ∀ q x v, δ q (.wr x v) = δ q (.wr x 0))
    {T : List Fn} {p : Prog} {q₀ : Q} (hw : acceptsProg δ T p q₀ = true)
    {π : List Ev} {o : Out} (hx : Exec T p π o) (hob : o ≠ .brk) : runQ δ q₀ π = some q₀ := by
  unfold acceptsProg at hw
  split at hw
  · rename_i hc
    obtain ⟨h', hr, hok⟩ := checkQ_sound hwr hx fuel q₀ none q₀ none hc
    cases o with
    | norm => simp [outOkQ] at hok
    | ret => simp only [outOkQ] at hok; subst hok; exact hr
    | brk => exact absurd rfl hob
  · rename_i q hc
    obtain ⟨h', hr, hok⟩ := checkQ_sound hwr hx fuel q₀ none q₀ (some q) hc
    cases o with
    | norm =>
      simp only [outOkQ, Option.some.injEq] at hok
      subst hok
      have : q = q₀ := by simpa using hw
      subst this; exact hr
    | ret => simp only [outOkQ] at hok; subst hok; exact hr
    | brk => exact absurd rfl hob
  · simp at hw

end Track

/-! ## The combined write section of two locks -/

/-- where a thread stands with respect to the combined section of locks `A`, `B` -/
inductive Phase where
  | out    -- not inside a write section of `A`
  | pend   -- inside a write section of `A`; `B` not yet write-acquired in it
  | done   -- inside a write section of `A`; `B` has been write-acquired in it
deriving DecidableEq, Repr, Inhabited

/-- the automaton: `acq W A` only outside, `acq W B` only inside a section of `A` and once per
    section, a section of `A` cannot end before `B` was acquired in it.  (`rel A` in `out` is the
    end of a READ section of `A`; everything else is indifferent.) -/
def pairδ (A B : Nat) (q : Phase) : Ev → Option Phase
  | .acq .W l =>
    if l = A then (match q with | .out => some .pend | _ => none)
    else if l = B then (match q with | .pend => some .done | _ => none)
    else some q
  | .rel l => if l = A then (match q with | .pend => none | _ => some .out) else some q
  | _ => some q

theorem pairδ_wr (A B : Nat) (q : Phase) (x : Loc) (v : Nat) : pairδ A B q (.wr x v) = pairδ A B q (.wr x 0) := rfl

/-- one write acquisition of `B` is owed -/
def Phase.owes : Phase → Nat
  | .pend => 1
  | _ => 0

theorem pairδ_count {A B : Nat} (hAB : A ≠ B) {q q' : Phase} {e : Ev} (h : pairδ A B q e = some q') :
    (if isAcq (selL B) e then 1 else 0) + q'.owes = (if isAcq (selL A) e then 1 else 0) + q.owes := by
  cases e with
  | acq m l =>
    cases m with
    | R =>
      simp only [pairδ, Option.some.injEq] at h
      subst h
      simp [isAcq, selL]
    | W =>
      simp only [pairδ] at h
      by_cases hA : l = A
      · subst hA
        have hB : ¬ l = B := hAB
        cases q <;> simp at h
        subst h
        simp [isAcq, selL, hB, Phase.owes]
      · by_cases hB : l = B
        · subst hB
          cases q <;> simp [hA] at h
          subst h
          simp [isAcq, selL, hA, Phase.owes]
        · simp only [hA, hB, if_false, Option.some.injEq] at h
          subst h
          simp [isAcq, selL, hA, hB]
  | rel l =>
    simp only [pairδ] at h
    by_cases hA : l = A
    · cases q <;> simp [hA] at h <;> subst h <;> simp [isAcq, Phase.owes]
    · simp only [hA, if_false, Option.some.injEq] at h
      subst h
      simp [isAcq]
  | rd x => simp only [pairδ, Option.some.injEq] at h; subst h; simp [isAcq]
  | wr x v => simp only [pairδ, Option.some.injEq] at h; subst h; simp [isAcq]
  | bad => simp only [pairδ, Option.some.injEq] at h; subst h; simp [isAcq]

/-- along an accepted path: acquisitions of `B` + what is owed at the end = acquisitions of `A` +
    what was owed at the start -/
theorem runQ_pair_count {A B : Nat} (hAB : A ≠ B) (π : List Ev) : ∀ (q q' : Phase),
    runQ (pairδ A B) q π = some q' →
    countAcq (selL B) π + q'.owes = countAcq (selL A) π + q.owes := by
  induction π with
  | nil =>
    intro q q' h
    simp only [runQ, Option.some.injEq] at h
    subst h
    simp [countAcq]
  | cons e π ih =>
    intro q q' h
    simp only [runQ] at h
    split at h
    · rename_i q₁ hd
      have h₁ := ih q₁ q' h
      have h₂ := pairδ_count hAB hd
      rw [countAcq_cons, countAcq_cons]
      omega
    · simp at h

/-- the phase follows the lock set: inside a section means holding `A`'s write lock -/
theorem pairδ_held {A B : Nat} {q q' : Phase} {e : Ev} {h : Held} (hd : pairδ A B q e = some q')
    (hq : q ≠ .out → (A, Mode.W) ∈ h) : q' ≠ .out → (A, Mode.W) ∈ updHeld h e := by
  intro hq'
  cases e with
  | acq m l =>
    cases m with
    | R =>
      simp only [pairδ, Option.some.injEq] at hd
      subst hd
      simp only [updHeld, List.mem_cons]
      exact Or.inr (hq hq')
    | W =>
      simp only [pairδ] at hd
      by_cases hA : l = A
      · subst hA
        simp [updHeld]
      · have hin : (A, Mode.W) ∈ h := by
          apply hq
          by_cases hB : l = B
          · subst hB
            cases q with
            | out => simp [hA] at hd
            | pend => simp
            | done => simp
          · simp only [hA, hB, if_false, Option.some.injEq] at hd
            subst hd
            exact hq'
        simp only [updHeld, List.mem_cons]
        exact Or.inr hin
  | rel l =>
    simp only [pairδ] at hd
    by_cases hA : l = A
    · cases q <;> simp [hA] at hd <;> subst hd <;> exact absurd rfl hq'
    · simp only [hA, if_false, Option.some.injEq] at hd
      subst hd
      simp only [updHeld, mem_filter_ne]
      exact ⟨hq hq', fun h' => hA h'.symm⟩
  | rd x => simp only [pairδ, Option.some.injEq] at hd; subst hd; exact hq hq'
  | wr x v => simp only [pairδ, Option.some.injEq] at hd; subst hd; exact hq hq'
  | bad => simp only [pairδ, Option.some.injEq] at hd; subst hd; exact hq hq'

/-! ## System level -/

/-- invariant of thread `w`: the rest of its path is accepted from its current phase, and a phase
    inside the section means that it holds `A`'s write lock -/
def PInv (w A B : Nat) (s : Sys) : Prop :=
  ∃ q, runQ (pairδ A B) q (s.thr w).rest = some .out ∧ (q ≠ .out → (A, Mode.W) ∈ (s.thr w).held)

theorem pinv_step {w A B : Nat} {s s' : Sys} {i : Nat} (hP : PInv w A B s) (hf : fire s i = some s') :
    PInv w A B s' := by
  obtain ⟨e, r, hr, _, rfl⟩ := fire_thr hf
  obtain ⟨q, hrun, hq⟩ := hP
  by_cases hi : w = i
  · subst hi
    rw [hr] at hrun
    simp only [runQ] at hrun
    split at hrun
    · rename_i q₁ hd
      refine ⟨q₁, ?_, ?_⟩
      · rw [apply_thr_same]; exact hrun
      · rw [apply_thr_same]; exact pairδ_held hd hq
    · simp at hrun
  · refine ⟨q, ?_, ?_⟩
    · rw [apply_thr_other _ _ _ _ hi]; exact hrun
    · rw [apply_thr_other _ _ _ _ hi]; exact hq

theorem pinv_steps {w A B : Nat} {s s' : Sys} (hP : PInv w A B s) (hs : Steps s s') : PInv w A B s' := by
  induction hs with
  | refl => exact hP
  | tail _ hst ih => obtain ⟨i, hf⟩ := hst; exact pinv_step ih hf

/-- **pair_atomic (generic).**  Thread `w`'s path is accepted by the automaton of the combined
    section of `A` and `B`.  In every reachable state of every system in which `w` does not hold
    `A`'s write lock, as many write acquisitions of `A` as of `B` are still ahead of it. -/
theorem pair_atomic {store : Loc → Nat} {paths : Nat → List Ev} (w A B : Nat) (hAB : A ≠ B)
    (hacc : runQ (pairδ A B) .out (paths w) = some .out)
    {s : Sys} (hr : Reach store paths s) (hout : (A, Mode.W) ∉ (s.thr w).held) :
    countAcq (selL A) (s.thr w).rest = countAcq (selL B) (s.thr w).rest := by
  have h0 : PInv w A B (init store paths) := ⟨.out, by simpa [init] using hacc, fun h => absurd rfl h⟩
  obtain ⟨q, hrun, hq⟩ := pinv_steps h0 hr
  have hqo : q = .out := by
    cases q with
    | out => rfl
    | pend => exact absurd (hq (by simp)) hout
    | done => exact absurd (hq (by simp)) hout
  subst hqo
  have := runQ_pair_count hAB _ _ _ hrun
  simp only [Phase.owes] at this
  omega

/-- the two write sections have begun together or not at all -/
theorem pair_pending_iff {store : Loc → Nat} {paths : Nat → List Ev} (w A B : Nat) (hAB : A ≠ B)
    (hacc : runQ (pairδ A B) .out (paths w) = some .out)
    {s : Sys} (hr : Reach store paths s) (hout : (A, Mode.W) ∉ (s.thr w).held) :
    swapPending w A s ↔ swapPending w B s := by
  unfold swapPending
  rw [pair_atomic w A B hAB hacc hr hout]

end Rtr.Locks
