/-
  ConvergeTables: completeness of the table part of the End of Data branch (`applyTables`): when the
  buffered PDUs are acceptable and applicable in the order of the three apply loops, the apply
  loops succeed, nothing is sent, the state does not change and the tables are the result of
  `lsApplyAll`.  (The converse of `applyTables_atomic`'s success clause.)
-/
import RtrProofs.SyncAtomic

namespace Rtr.P

section ListSet
variable {α : Type} [DecidableEq α]

theorem cv_lsApplyAll_cons (t : List α) (op : Bool × α) (ops : List (Bool × α)) (t' : List α)
    (h : lsApplyAll t (op :: ops) = some t') :
    ∃ t1, lsApply t op.1 op.2 = (t1, .success) ∧ lsApplyAll t1 ops = some t' := by
  obtain ⟨f, r⟩ := op
  simp only [lsApplyAll] at h
  split at h
  · rename_i t1 heq
    exact ⟨t1, heq, h⟩
  · cases h

theorem cv_lsApplyAll_split : ∀ (a b : List (Bool × α)) (t t2 : List α),
    lsApplyAll t (a ++ b) = some t2 → ∃ t1, lsApplyAll t a = some t1 ∧ lsApplyAll t1 b = some t2 := by
  intro a
  induction a with
  | nil => intro b t t2 h; exact ⟨t, rfl, by simpa using h⟩
  | cons op a ih =>
    intro b t t2 h
    obtain ⟨f, r⟩ := op
    simp only [List.cons_append, lsApplyAll] at h ⊢
    split at h
    · rename_i t' heq
      obtain ⟨t1, h1, h2⟩ := ih b t' t2 h
      exact ⟨t1, by simp only [h1], h2⟩
    · cases h

/-- **a consistent list of operations is applicable in any order**: every record is named at most
    once, announcements name absent records, withdrawals name present ones.  Afterwards exactly the
    announced records and the old records that were not withdrawn are present. -/
theorem cv_lsApplyAll_consistent : ∀ (ops : List (Bool × α)) (t : List α), t.Nodup →
    (ops.map Prod.snd).Nodup → (∀ op ∈ ops, (op.1 = true ↔ op.2 ∉ t)) →
    ∃ t', lsApplyAll t ops = some t' ∧ t'.Nodup ∧
      ∀ x, x ∈ t' ↔ ((true, x) ∈ ops ∨ (x ∈ t ∧ (false, x) ∉ ops)) := by
  intro ops
  induction ops with
  | nil => intro t hn _ _; exact ⟨t, rfl, hn, fun x => by simp⟩
  | cons op ops ih =>
    intro t hn hnd hc
    obtain ⟨f, r⟩ := op
    simp only [List.map_cons, List.nodup_cons] at hnd
    obtain ⟨hr, hnd⟩ := hnd
    have hne : ∀ op ∈ ops, op.2 ≠ r := fun op hop e => hr (by rw [← e]; exact List.mem_map_of_mem hop)
    have hrt := hc (f, r) List.mem_cons_self
    simp only at hrt
    cases f with
    | true =>
      have hnot : r ∉ t := hrt.1 rfl
      have hc' : ∀ op ∈ ops, (op.1 = true ↔ op.2 ∉ r :: t) := by
        intro op hop
        rw [hc op (List.mem_cons_of_mem _ hop)]
        simp [hne op hop]
      obtain ⟨t', h1, h2, h3⟩ := ih (r :: t) (List.nodup_cons.2 ⟨hnot, hn⟩) hnd hc'
      refine ⟨t', ?_, h2, fun x => ?_⟩
      · simp only [lsApplyAll, lsApply, if_true, hnot, if_false]; exact h1
      · rw [h3 x]
        by_cases e : x = r
        · subst e
          have : (false, x) ∉ ops := fun hm => hr (List.mem_map_of_mem (f := Prod.snd) hm)
          simp [this]
        · simp [e]
    | false =>
      have hin : r ∈ t := by
        by_cases h : r ∈ t
        · exact h
        · exact absurd (hrt.2 h) (by simp)
      have hc' : ∀ op ∈ ops, (op.1 = true ↔ op.2 ∉ t.erase r) := by
        intro op hop
        rw [hc op (List.mem_cons_of_mem _ hop), List.mem_erase_of_ne (hne op hop)]
      obtain ⟨t', h1, h2, h3⟩ := ih (t.erase r) (hn.sublist List.erase_sublist) hnd hc'
      refine ⟨t', ?_, h2, fun x => ?_⟩
      · simp only [lsApplyAll, lsApply, Bool.false_eq_true, if_false, hin, if_true]; exact h1
      · rw [h3 x]
        by_cases e : x = r
        · subst e
          have h4 : (true, x) ∉ ops := fun hm => hr (List.mem_map_of_mem (f := Prod.snd) hm)
          simp [h4, List.Nodup.mem_erase_iff hn]
        · simp [e, List.mem_erase_of_ne e]

end ListSet

/-! ## the update functions on success -/

theorem cv_updatePfx_ok_frame (c : Conn) (n : Net) (t : Tbl) (raw : List Nat) :
    (updatePfx c n t raw).1 = true → (updatePfx c n t raw).2.1 = c ∧ (updatePfx c n t raw).2.2.1 = n := by
  unfold updatePfx
  simp only
  repeat' split
  all_goals first | (intro h; exact ⟨rfl, rfl⟩) | (intro h; cases h)

theorem cv_updateKey_ok_frame (c : Conn) (n : Net) (t : Tbl) (raw : List Nat) :
    (updateKey c n t raw).1 = true → (updateKey c n t raw).2.1 = c ∧ (updateKey c n t raw).2.2.1 = n := by
  unfold updateKey
  simp only
  repeat' split
  all_goals first | (intro h; exact ⟨rfl, rfl⟩) | (intro h; cases h)

theorem cv_updatePfx_complete (c : Conn) (n : Net) (t : Tbl) (raw : List Nat) (pt1 : List Rec) (hk : pfxOK raw)
    (hres : lsApply t.upd.pt (pfxOp raw).1 (pfxOp raw).2 = (pt1, .success)) :
    updatePfx c n t raw = (true, c, n, t.setUpd { t.upd with pt := pt1 }) := by
  have e := updatePfx_tbl c n t raw
  unfold updPfxT at e
  rw [if_pos hk, hres] at e
  simp only [Prod.mk.injEq] at e
  obtain ⟨e1, e2⟩ := e
  obtain ⟨f1, f2⟩ := cv_updatePfx_ok_frame c n t raw e1
  generalize updatePfx c n t raw = r at e1 e2 f1 f2
  obtain ⟨ok, c', n', t'⟩ := r
  simp only at e1 e2 f1 f2
  rw [e1, e2, f1, f2]

theorem cv_updateKey_complete (c : Conn) (n : Net) (t : Tbl) (raw : List Nat) (kt1 : List KeyRec) (hk : keyOK raw)
    (hres : lsApply t.upd.kt (keyOp raw).1 (keyOp raw).2 = (kt1, .success)) :
    updateKey c n t raw = (true, c, n, t.setUpd { t.upd with kt := kt1 }) := by
  have e := updateKey_tbl c n t raw
  unfold updKeyT at e
  rw [if_pos hk, hres] at e
  simp only [Prod.mk.injEq] at e
  obtain ⟨e1, e2⟩ := e
  obtain ⟨f1, f2⟩ := cv_updateKey_ok_frame c n t raw e1
  generalize updateKey c n t raw = r at e1 e2 f1 f2
  obtain ⟨ok, c', n', t'⟩ := r
  simp only at e1 e2 f1 f2
  rw [e1, e2, f1, f2]

/-- the apply loop of the prefix PDUs succeeds on an applicable list -/
theorem cv_applyPfx_complete : ∀ (ps : List (List Nat)) (c : Conn) (n : Net) (t : Tbl) (done : List (List Nat))
    (pt' : List Rec), (∀ p ∈ ps, pfxOK p) → lsApplyAll t.upd.pt (ps.map pfxOp) = some pt' →
    applyPfx c n t ps done = (true, c, n, t.setUpd { t.upd with pt := pt' }, done ++ ps) := by
  intro ps
  induction ps with
  | nil =>
    intro c n t done pt' _ h
    simp only [List.map_nil, lsApplyAll, Option.some.injEq] at h
    subst h
    simp only [applyPfx, List.append_nil]
    rw [show ({ t.upd with pt := t.upd.pt } : Upd) = t.upd from rfl, setUpd_upd]
  | cons p ps ih =>
    intro c n t done pt' hk h
    rw [List.map_cons] at h
    obtain ⟨pt1, h1, h2⟩ := cv_lsApplyAll_cons _ _ _ _ h
    have hu := cv_updatePfx_complete c n t p pt1 (hk p List.mem_cons_self) h1
    simp only [applyPfx, hu, if_true]
    have := ih c n (t.setUpd { t.upd with pt := pt1 }) (done ++ [p]) pt'
      (fun q hq => hk q (List.mem_cons_of_mem _ hq)) (by rw [upd_setUpd]; exact h2)
    rw [this]
    simp [setUpd_setUpd]

theorem cv_applyKey_complete : ∀ (ps : List (List Nat)) (c : Conn) (n : Net) (t : Tbl) (done : List (List Nat))
    (kt' : List KeyRec), (∀ p ∈ ps, keyOK p) → lsApplyAll t.upd.kt (ps.map keyOp) = some kt' →
    applyKey c n t ps done = (true, c, n, t.setUpd { t.upd with kt := kt' }, done ++ ps) := by
  intro ps
  induction ps with
  | nil =>
    intro c n t done kt' _ h
    simp only [List.map_nil, lsApplyAll, Option.some.injEq] at h
    subst h
    simp only [applyKey, List.append_nil]
    rw [show ({ t.upd with kt := t.upd.kt } : Upd) = t.upd from rfl, setUpd_upd]
  | cons p ps ih =>
    intro c n t done kt' hk h
    rw [List.map_cons] at h
    obtain ⟨kt1, h1, h2⟩ := cv_lsApplyAll_cons _ _ _ _ h
    have hu := cv_updateKey_complete c n t p kt1 (hk p List.mem_cons_self) h1
    simp only [applyKey, hu, if_true]
    have := ih c n (t.setUpd { t.upd with kt := kt1 }) (done ++ [p]) kt'
      (fun q hq => hk q (List.mem_cons_of_mem _ hq)) (by rw [upd_setUpd]; exact h2)
    rw [this]
    simp [setUpd_setUpd]

/-- the tables the apply loops write to -/
def cvStart (t : Tbl) (resetting : Bool) : Tbl :=
  if resetting then { t with shadow := some ⟨ptSrcRemove t.pt 0, ktSrcRemove t.kt 0⟩ } else t

theorem cvStart_upd (t : Tbl) (resetting : Bool) (hs : t.shadow = none) : (cvStart t resetting).upd = baseOf t resetting := by
  unfold cvStart baseOf Tbl.upd
  cases resetting
  · simp [hs]
  · simp

theorem cvStart_swapIn (t : Tbl) (resetting : Bool) (hs : t.shadow = none) (u : Upd) :
    ((cvStart t resetting).setUpd u).swapIn = ⟨u.pt, u.kt, none⟩ := by
  obtain ⟨pt, kt, sh⟩ := t
  simp only at hs
  subst hs
  cases resetting <;> simp [cvStart, Tbl.setUpd, Tbl.swapIn]

/-- **completeness of the table part**: acceptable PDUs that are applicable in the order IPv4, IPv6,
    router keys are all applied; no Error Report, no state change -/
theorem cv_applyTables_complete (c : Conn) (n : Net) (t : Tbl) (resetting : Bool) (v4 v6 keys : List (List Nat))
    (pt' : List Rec) (kt' : List KeyRec) (hs : t.shadow = none)
    (hk4 : ∀ p ∈ v4, pfxOK p) (hk6 : ∀ p ∈ v6, pfxOK p) (hkk : ∀ p ∈ keys, keyOK p)
    (hp : lsApplyAll (baseOf t resetting).pt ((v4 ++ v6).map pfxOp) = some pt')
    (hkt : lsApplyAll (baseOf t resetting).kt (keys.map keyOp) = some kt') :
    applyTables c n t resetting v4 v6 keys = { ok := true, purged := false, c := c, n := n, t := ⟨pt', kt', none⟩ } := by
  rw [List.map_append] at hp
  obtain ⟨pt4, hp4, hp6⟩ := cv_lsApplyAll_split _ _ _ _ hp
  have hu := cvStart_upd t resetting hs
  have a4 := cv_applyPfx_complete v4 c n (cvStart t resetting) [] pt4 hk4 (by rw [hu]; exact hp4)
  have a6 := cv_applyPfx_complete v6 c n ((cvStart t resetting).setUpd { (cvStart t resetting).upd with pt := pt4 }) [] pt'
    hk6 (by rw [upd_setUpd]; exact hp6)
  have ak := cv_applyKey_complete keys c n
    (((cvStart t resetting).setUpd { (cvStart t resetting).upd with pt := pt4 }).setUpd
      { ((cvStart t resetting).setUpd { (cvStart t resetting).upd with pt := pt4 }).upd with pt := pt' }) [] kt' hkk
    (by simp only [upd_setUpd]; rw [hu]; exact hkt)
  unfold applyTables
  simp only
  have hst : (if resetting = true then ({ t with shadow := some ⟨ptSrcRemove t.pt 0, ktSrcRemove t.kt 0⟩ } : Tbl) else t) =
      cvStart t resetting := rfl
  rw [hst, a4]
  simp only [Bool.not_true, Bool.false_eq_true, if_false]
  rw [a6]
  simp only [Bool.not_true, Bool.false_eq_true, if_false]
  rw [ak]
  simp only [Bool.not_true, Bool.false_eq_true, if_false]
  simp only [setUpd_setUpd, upd_setUpd]
  rw [cvStart_swapIn t resetting hs]

end Rtr.P
