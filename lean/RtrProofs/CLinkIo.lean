/-
  CLinkIo: what the translated `tr_send_all` and `tr_recv_all` (rtrlib/transport/transport.c; translated by
  tools/gen_cfuns.py into RtrModel/Generated/CFuns.lean on every run, loops as fuel-recursive auxiliaries, external calls
  through `C.World`) do - for EVERY world (clock readings, transport answers) and all arguments.

  Specification (mathematical integers, no fuel): `ioLoop` / `ioAll`
      read the clock once: deadline = clock₀ + timeout
      while total < len:  read the clock (reading k+1 before the k-th call)
                          call the transport with (pdu + total, len - total, deadline - now)
                          a negative answer is returned at once; otherwise total += answer
      return total
  defined by recursion on the list of (clock reading, answer) pairs the world will supply; it yields the return value and
  the trace: the list of calls (`IoCall`: address, length, timeout, and the answer given).

  Results
    * `tr_send_all_eq`, `tr_recv_all_eq`   the translated function = the specification (return value, number of clock
        readings and transport calls consumed, the calls appended to `w.calls`), under the side conditions listed at
        `tr_send_all_eq`; `RunOk` bundles them, `runOk_of_world` derives them from conditions on the world alone
    * `ioAll_trace_getElem`, `ioAll_trace_eq`, `ioAll_end`, `RunOk.calls_eq`, `RunOk.result`
        the trace in closed form: the k-th call is `specCall w pdu len timeout k`
    * `tr_send_all_chunks`       contiguous, non-overlapping pieces; complete = every byte handed over exactly once
    * `tr_send_all_timeouts`, `tr_recv_all_timeouts`, `RunOk.timeouts`
        timeout of call k = clock₀ + timeout - clock_{k+1}: one deadline, fixed by the first reading, never re-armed
    * `tr_recv_all_never_short`  a non-negative return value is exactly `len`
    * `tr_send_all_zero_spins`, `tr_recv_all_zero_spins`   a transport answering 0 forever: no result (the C loop spins)
    * `example`s: kernel evaluation of the translated functions with the full fuel (non-vacuity of the hypotheses
        included: `runOk_example`); inputs the side conditions exclude (answer larger than asked, `len = 2^32`,
        `len = 2^31`) are evaluated in RtrProofs/CLinkIoOutside.lean - those examples are pinned to the current source

  Robustness: the induction over the generated loop is one tactic script (`io_loop_link`) used for both functions; it
  does not navigate the generated term: one unfolding, comparisons to number facts (`io_unfold`), every `if` decided by
  `omega` from the facts of the specification's branch (`io_decide_ifs`), arguments compared by `bv_omega` (`io_enc`).
  The type of the byte counter is left to unification (`(total : _)`). The same script was run against translations of
  rewritten sources (`for` loops, `size_t` counter in tr_send_all, locals `remaining` / `left`, `end_time += timeout`
  vs `timeout + end_time`, `while (len - total > 0)`, `if (rtval >= 0) … else return`, `if (rtval <= -1)`,
  `while (1) { if (…) break; … }`); a new variable that lives across the loop changes the signature of `loop1` and with it
  the statements `send_loop1_eq` / `recv_loop1_eq` (not the theorems about the functions).
-/
import RtrProofs.CLink

namespace Rtr.CLink
open Rtr Rtr.Gen

/-! ## specification -/

/-- one transport call as the specification sees it: what was handed over, and what the transport answered -/
structure IoCall where
  /-- address handed over -/
  buf : Nat
  /-- length asked for -/
  len : Nat
  /-- timeout handed over (signed) -/
  tmo : Int
  /-- the transport's answer: a byte count, or a negative error code -/
  ans : Int
deriving DecidableEq, Repr

/-- the loop. `steps`: for every call still to come, the clock reading taken just before it and the transport's answer;
    `total`: bytes done so far. Result: the return value and the calls made, `none` if `steps` ends before the loop does. -/
def ioLoop (pdu len : Nat) (deadline : Int) : List (Int × Int) → Nat → Option (Int × List IoCall)
  | [], total => if len ≤ total then some ((total : Int), []) else none
  | (now, a) :: rest, total =>
    if len ≤ total then some ((total : Int), [])
    else if a < 0 then some (a, [⟨pdu + total, len - total, deadline - now, a⟩])
    else (ioLoop pdu len deadline rest (total + a.toNat)).map
      fun r => (r.1, ⟨pdu + total, len - total, deadline - now, a⟩ :: r.2)

/-- the whole function: the deadline is the first clock reading plus `timeout` -/
def ioAll (pdu len : Nat) (clock0 timeout : Int) (steps : List (Int × Int)) : Option (Int × List IoCall) :=
  ioLoop pdu len (clock0 + timeout) steps 0

/-- bytes the transport took/delivered in a trace -/
def got (tr : List IoCall) : Nat := (tr.map fun c => c.ans.toNat).sum

@[simp] theorem got_nil : got [] = 0 := rfl
@[simp] theorem got_cons (c : IoCall) (tr : List IoCall) : got (c :: tr) = c.ans.toNat + got tr := by
  simp [got]
theorem got_append (a b : List IoCall) : got (a ++ b) = got a + got b := by
  simp [got]

/-! ### properties of the specification -/

theorem ioLoop_done {pdu len : Nat} {dl : Int} {total : Nat} (h : len ≤ total) (steps : List (Int × Int)) :
    ioLoop pdu len dl steps total = some ((total : Int), []) := by
  cases steps with
  | nil => simp [ioLoop, h]
  | cons s rest => obtain ⟨now, a⟩ := s; simp [ioLoop, h]

/-- more supplied steps do not change a result -/
theorem ioLoop_append {pdu len : Nat} {dl : Int} (more : List (Int × Int)) :
    ∀ (steps : List (Int × Int)) (total : Nat) (r : Int × List IoCall),
      ioLoop pdu len dl steps total = some r → ioLoop pdu len dl (steps ++ more) total = some r := by
  intro steps
  induction steps with
  | nil =>
    intro total r h
    simp only [ioLoop] at h
    split at h
    · rename_i hle; rw [List.nil_append, ioLoop_done hle]; exact h
    · cases h
  | cons s rest ih =>
    obtain ⟨now, a⟩ := s
    intro total r h
    simp only [List.cons_append, ioLoop] at h ⊢
    split
    · rename_i hle; simpa [hle] using h
    · rename_i hle
      simp only [hle, if_false] at h
      split
      · rename_i ha; simpa [ha] using h
      · rename_i ha
        simp only [ha, if_false, Option.map_eq_some_iff] at h ⊢
        obtain ⟨r', h1, h2⟩ := h
        exact ⟨r', ih _ _ h1, h2⟩

/-- the pointwise description of the trace -/
theorem ioLoop_trace {pdu len : Nat} {dl : Int} :
    ∀ (steps : List (Int × Int)) (total : Nat) (rc : Int) (tr : List IoCall),
      ioLoop pdu len dl steps total = some (rc, tr) →
      ∀ k (hk : k < tr.length), ∃ hk' : k < steps.length,
        total + got (tr.take k) < len ∧
        tr[k] = ⟨pdu + (total + got (tr.take k)), len - (total + got (tr.take k)), dl - steps[k].1, steps[k].2⟩ := by
  intro steps
  induction steps with
  | nil =>
    intro total rc tr h k hk
    simp only [ioLoop] at h
    split at h
    · simp only [Option.some.injEq, Prod.mk.injEq] at h; obtain ⟨_, rfl⟩ := h; simp at hk
    · cases h
  | cons s rest ih =>
    obtain ⟨now, a⟩ := s
    intro total rc tr h k hk
    simp only [ioLoop] at h
    split at h
    · simp only [Option.some.injEq, Prod.mk.injEq] at h; obtain ⟨_, rfl⟩ := h; simp at hk
    · rename_i hle
      split at h
      · simp only [Option.some.injEq, Prod.mk.injEq] at h; obtain ⟨_, rfl⟩ := h
        have : k = 0 := by simpa using hk
        subst this
        exact ⟨by simp, by simp; omega, by simp⟩
      · rename_i ha
        simp only [Option.map_eq_some_iff, Prod.mk.injEq] at h
        obtain ⟨⟨rc', tr'⟩, h1, _, rfl⟩ := h
        cases k with
        | zero => exact ⟨by simp, by simp; omega, by simp⟩
        | succ k =>
          obtain ⟨hk', h2, h3⟩ := ih _ _ _ h1 k (by simpa using hk)
          refine ⟨by simpa using hk', ?_, ?_⟩
          · simp only [List.take_succ_cons, got_cons]; omega
          · simp only [List.getElem_cons_succ, List.take_succ_cons, got_cons, h3, Nat.add_assoc]

/-- how a run ends -/
theorem ioLoop_end {pdu len : Nat} {dl : Int} :
    ∀ (steps : List (Int × Int)) (total : Nat) (rc : Int) (tr : List IoCall),
      ioLoop pdu len dl steps total = some (rc, tr) →
      (rc = ((total + got tr : Nat) : Int) ∧ len ≤ total + got tr ∧ ∀ c ∈ tr, 0 ≤ c.ans) ∨
      (rc < 0 ∧ ∃ tr₀ c, tr = tr₀ ++ [c] ∧ c.ans = rc ∧ ∀ c' ∈ tr₀, 0 ≤ c'.ans) := by
  intro steps
  induction steps with
  | nil =>
    intro total rc tr h
    simp only [ioLoop] at h
    split at h
    · rename_i hle
      simp only [Option.some.injEq, Prod.mk.injEq] at h; obtain ⟨rfl, rfl⟩ := h
      exact Or.inl ⟨by simp, by simpa using hle, by simp⟩
    · cases h
  | cons s rest ih =>
    obtain ⟨now, a⟩ := s
    intro total rc tr h
    simp only [ioLoop] at h
    split at h
    · rename_i hle
      simp only [Option.some.injEq, Prod.mk.injEq] at h; obtain ⟨rfl, rfl⟩ := h
      exact Or.inl ⟨by simp, by simpa using hle, by simp⟩
    · split at h
      · rename_i ha
        simp only [Option.some.injEq, Prod.mk.injEq] at h; obtain ⟨rfl, rfl⟩ := h
        exact Or.inr ⟨ha, [], _, rfl, rfl, by simp⟩
      · rename_i ha
        simp only [Option.map_eq_some_iff, Prod.mk.injEq] at h
        obtain ⟨⟨rc', tr'⟩, h1, rfl, rfl⟩ := h
        rcases ih _ _ _ h1 with ⟨e1, e2, e3⟩ | ⟨e1, tr₀, c, e2, e3, e4⟩
        · refine Or.inl ⟨?_, ?_, ?_⟩
          · simp only [e1, got_cons]; omega
          · simp only [got_cons]; omega
          · intro c hc
            rcases List.mem_cons.mp hc with rfl | hc
            · simpa using Int.not_lt.mp ha
            · exact e3 c hc
        · refine Or.inr ⟨e1, ⟨pdu + total, len - total, dl - now, a⟩ :: tr₀, c, by simp [e2], e3, ?_⟩
          intro c' hc'
          rcases List.mem_cons.mp hc' with rfl | hc'
          · simpa using Int.not_lt.mp ha
          · exact e4 c' hc'

/-- under the transport contract the count never passes `len` -/
theorem ioLoop_got_le {pdu len : Nat} {dl : Int} :
    ∀ (steps : List (Int × Int)) (total : Nat) (rc : Int) (tr : List IoCall),
      ioLoop pdu len dl steps total = some (rc, tr) → (∀ c ∈ tr, c.ans ≤ c.len) → total ≤ len →
      total + got tr ≤ len := by
  intro steps
  induction steps with
  | nil =>
    intro total rc tr h _ hle
    simp only [ioLoop] at h
    split at h
    · simp only [Option.some.injEq, Prod.mk.injEq] at h; obtain ⟨_, rfl⟩ := h; simpa using hle
    · cases h
  | cons s rest ih =>
    obtain ⟨now, a⟩ := s
    intro total rc tr h hc hle
    simp only [ioLoop] at h
    split at h
    · simp only [Option.some.injEq, Prod.mk.injEq] at h; obtain ⟨_, rfl⟩ := h; simpa using hle
    · split at h
      · rename_i ha
        simp only [Option.some.injEq, Prod.mk.injEq] at h; obtain ⟨_, rfl⟩ := h
        simp only [got_cons, got_nil]; omega
      · rename_i hnle ha
        simp only [Option.map_eq_some_iff, Prod.mk.injEq] at h
        obtain ⟨⟨rc', tr'⟩, h1, _, rfl⟩ := h
        have h0 := hc _ (List.mem_cons_self)
        simp only at h0
        have := ih _ _ _ h1 (fun c hc' => hc c (List.mem_cons_of_mem _ hc')) (by omega)
        simp only [got_cons]; omega

/-- a transport that always makes progress (no answer is 0) lets the loop finish within `len - total` calls -/
theorem ioLoop_terminates {pdu len : Nat} {dl : Int} :
    ∀ (steps : List (Int × Int)) (total : Nat), (∀ s ∈ steps, s.2 ≠ 0) → len ≤ total + steps.length →
      ∃ r, ioLoop pdu len dl steps total = some r := by
  intro steps
  induction steps with
  | nil => intro total _ h; exact ⟨_, ioLoop_done (by simpa using h) _⟩
  | cons s rest ih =>
    obtain ⟨now, a⟩ := s
    intro total hz h
    simp only [ioLoop]
    split
    · exact ⟨_, rfl⟩
    · split
      · exact ⟨_, rfl⟩
      · rename_i ha
        have h0 : a ≠ 0 := hz (now, a) (List.mem_cons_self)
        obtain ⟨r, hr⟩ := ih (total + a.toNat) (fun s hs => hz s (List.mem_cons_of_mem _ hs))
          (by simp only [List.length_cons] at h; omega)
        exact ⟨_, by rw [hr]; rfl⟩

/-! ## world side -/

/-- the next `n` (clock reading, answer) pairs of a world whose next reading is number `c` and next answer number `i` -/
def stepsFrom (clock : Nat → BitVec 64) (io : Nat → BitVec 32) : Nat → Nat → Nat → List (Int × Int)
  | 0, _, _ => []
  | n + 1, c, i => ((clock c).toInt, (io i).toInt) :: stepsFrom clock io n (c + 1) (i + 1)

/-- a call as `C.extIo` records it -/
def enc (c : IoCall) : Nat × BitVec 64 × BitVec 64 := (c.buf, BitVec.ofNat 64 c.len, BitVec.ofInt 64 c.tmo)

/-- the world after the loop made the calls `tr`: one clock reading and one answer consumed per call -/
def after (w : C.World) (tr : List IoCall) : C.World :=
  { w with nclock := w.nclock + tr.length, nio := w.nio + tr.length, calls := w.calls ++ tr.map enc }

/-- side conditions on one call: the transport answered at most what it was asked for, and the timeout
    `end_time - cur_time` is representable in `time_t` -/
def CallOk (c : IoCall) : Prop := c.ans ≤ c.len ∧ -9223372036854775808 ≤ c.tmo ∧ c.tmo < 9223372036854775808

theorem after_nil (w : C.World) : after w [] = w := by
  simp [after]

theorem after_cons (w : C.World) (c : IoCall) (tr : List IoCall) (x : Nat × BitVec 64 × BitVec 64) (hx : x = enc c) :
    after { clock := w.clock, io := w.io, nclock := w.nclock + 1, nio := w.nio + 1, calls := w.calls ++ [x] } tr
      = after w (c :: tr) := by
  subst hx
  simp only [after, List.length_cons, List.map_cons, List.append_assoc, List.singleton_append, C.World.mk.injEq, true_and, and_true]
  omega

/-! ### numbers behind the bit-vector operations of the loop -/

theorem zext32_toNat (x : BitVec 32) : (BitVec.setWidth 64 x).toNat = x.toNat := by
  rw [BitVec.toNat_setWidth]; have := x.isLt; omega

theorem add32_toNat (x y : BitVec 32) (hy : 0 ≤ y.toInt) (h : x.toNat + y.toInt.toNat < 4294967296) :
    (x + y).toNat = x.toNat + y.toInt.toNat := by
  rw [BitVec.toInt_eq_toNat_cond] at hy h ⊢
  rw [BitVec.toNat_add]
  have := y.isLt
  split at hy <;> omega

theorem add64_sext_toNat (x : BitVec 64) (y : BitVec 32) (hy : 0 ≤ y.toInt)
    (h : x.toNat + y.toInt.toNat < 18446744073709551616) :
    (x + BitVec.signExtend 64 y).toNat = x.toNat + y.toInt.toNat := by
  have hs : (BitVec.signExtend 64 y).toNat = y.toInt.toNat := by
    have h1 : (BitVec.signExtend 64 y).toInt = y.toInt := BitVec.toInt_signExtend_of_le (by decide)
    have h2 : 0 ≤ (BitVec.signExtend 64 y).toInt := by omega
    rw [← h1]
    rw [BitVec.toInt_eq_toNat_cond] at h2 ⊢
    split at h2 <;> omega
  rw [BitVec.toNat_add, hs]; omega

theorem ssub_ok (x y : BitVec 64) (h1 : -9223372036854775808 ≤ x.toInt - y.toInt) (h2 : x.toInt - y.toInt < 9223372036854775808) :
    x.ssubOverflow y = false := by
  simp only [BitVec.ssubOverflow]; simp; omega

theorem ofInt_sub_toInt (x y : BitVec 64) : BitVec.ofInt 64 (x.toInt - y.toInt) = x - y := by
  rw [← BitVec.toInt_inj, BitVec.toInt_ofInt, BitVec.toInt_sub]

theorem ofNat_sub_toNat (x y : BitVec 64) (h : y.toNat ≤ x.toNat) : BitVec.ofNat 64 (x.toNat - y.toNat) = x - y := by
  apply BitVec.eq_of_toNat_eq
  rw [BitVec.toNat_ofNat, BitVec.toNat_sub_of_le (BitVec.le_def.mpr h)]
  have := x.isLt; omega

theorem ofInt32_natCast_toNat (x : BitVec 32) : BitVec.ofInt 32 (x.toNat : Int) = x := by
  rw [BitVec.ofInt_natCast, BitVec.ofNat_toNat, BitVec.setWidth_eq]
theorem ofInt32_natCast_toNat64 (x : BitVec 64) : BitVec.ofInt 32 (x.toNat : Int) = BitVec.setWidth 32 x := by
  rw [BitVec.ofInt_natCast, BitVec.ofNat_toNat]




set_option linter.unusedSimpArgs false

theorem some_after_cons {α : Type} (r : α) (w : C.World) (c : IoCall) (tr : List IoCall) (x : Nat × BitVec 64 × BitVec 64)
    (hx : x = enc c) :
    some (r, after { clock := w.clock, io := w.io, nclock := w.nclock + 1, nio := w.nio + 1, calls := w.calls ++ [x] } tr)
      = some (r, after w (c :: tr)) := by
  rw [after_cons w c tr x hx]

theorem some_after_one {α : Type} (r : α) (w : C.World) (c : IoCall) (x : Nat × BitVec 64 × BitVec 64) (hx : x = enc c) :
    some (r, ({ clock := w.clock, io := w.io, nclock := w.nclock + 1, nio := w.nio + 1, calls := w.calls ++ [x] } : C.World))
      = some (r, after w [c]) := by
  rw [← some_after_cons r w c [] x hx, after_nil]

/-- one unfolding of a translated loop, conditions as propositions about numbers -/
macro "io_unfold" loop:ident "with" h:term : tactic => `(tactic|
  simp only [$loop:ident, C.extTime, C.extIo, BitVec.ult_eq_decide, BitVec.ule_eq_decide, BitVec.slt_eq_decide,
    BitVec.sle_eq_decide, zext32_toNat, BitVec.toInt_zero, BitVec.toNat_zero, BitVec.reduceToInt, BitVec.reduceToNat,
    BitVec.toNat_ofNat, Nat.zero_mod, $h:term,
    Bool.not_false, Bool.not_true, Bool.and_true, Bool.true_and, Bool.and_eq_true, Bool.not_eq_true', Bool.not_eq_eq_eq_not,
    decide_eq_true_eq, decide_eq_false_iff_not, if_true, if_false, eq_self])

/-- decide every remaining `if` by linear arithmetic from the facts in the context -/
macro "io_decide_ifs" : tactic => `(tactic|
  repeat' (split <;> try (exfalso; first | omega | bv_omega)))

/-- the argument triple handed to the transport is the specification's call -/
macro "io_enc" : tactic => `(tactic|
  (simp only [enc, ofInt_sub_toInt, Prod.mk.injEq, true_and, and_true]; try bv_omega))

set_option hygiene false in
/-- the induction over the translated loop (shared by both functions and by either width of the byte counter) -/
local macro "io_loop_link" loop:ident : tactic => `(tactic| (
  intro n
  induction n with
  | zero =>
    intro fuel w total rc tr hf hinv hs hok
    obtain ⟨f, rfl⟩ : ∃ f, fuel = f + 1 := ⟨fuel - 1, by omega⟩
    have hle : len.toNat ≤ total.toNat := by
      simp only [stepsFrom, ioLoop] at hs; split at hs <;> first | assumption | cases hs
    rw [ioLoop_done hle] at hs
    simp only [Option.some.injEq, Prod.mk.injEq] at hs
    obtain ⟨rfl, rfl⟩ := hs
    io_unfold $loop with true_and
    io_decide_ifs
    simp only [ofInt32_natCast_toNat, ofInt32_natCast_toNat64, after_nil]
  | succ n ih =>
    intro fuel w total rc tr hf hinv hs hok
    obtain ⟨f, rfl⟩ : ∃ f, fuel = f + 1 := ⟨fuel - 1, by omega⟩
    rcases Nat.lt_or_ge total.toNat len.toNat with hlt | hle
    · have hnle : ¬ len.toNat ≤ total.toNat := by omega
      have hg : pdu + total.toNat ≤ msize := by omega
      simp only [stepsFrom, ioLoop, hnle, if_false] at hs
      split at hs
      · rename_i hneg
        simp only [Option.some.injEq, Prod.mk.injEq] at hs
        obtain ⟨rfl, rfl⟩ := hs
        have hc := hok _ (List.mem_singleton.mpr rfl)
        have hso := ssub_ok end_time (w.clock w.nclock) hc.2.1 hc.2.2
        io_unfold $loop with hso
        io_decide_ifs
        rw [BitVec.ofInt_toInt]
        refine some_after_one _ _ _ _ ?_
        io_enc
      · rename_i hneg
        simp only [Option.map_eq_some_iff, Prod.mk.injEq] at hs
        obtain ⟨⟨rc', tr'⟩, hs', rfl, rfl⟩ := hs
        have hc := hok _ List.mem_cons_self
        have hso := ssub_ok end_time (w.clock w.nclock) hc.2.1 hc.2.2
        have h0 : 0 ≤ (w.io w.nio).toInt := Int.not_lt.mp hneg
        have hsum : total.toNat + (w.io w.nio).toInt.toNat ≤ len.toNat := by
          have := hc.1; simp only at this; omega
        have h64 := len.isLt
        io_unfold $loop with hso
        io_decide_ifs
        refine (ih _ _ _ rc' tr' (by omega) ?_ ?_ (fun c hc' => hok c (List.mem_cons_of_mem _ hc'))).trans
          (some_after_cons _ _ _ _ _ ?_)
        · first
            | rw [add32_toNat _ _ h0 (by omega)]; exact hsum
            | rw [add64_sext_toNat _ _ h0 (by omega)]; exact hsum
        · first
            | rw [add32_toNat _ _ h0 (by omega)]; exact hs'
            | rw [add64_sext_toNat _ _ h0 (by omega)]; exact hs'
        · io_enc
    · rw [ioLoop_done hle] at hs
      simp only [Option.some.injEq, Prod.mk.injEq] at hs
      obtain ⟨rfl, rfl⟩ := hs
      io_unfold $loop with true_and
      io_decide_ifs
      simp only [ofInt32_natCast_toNat, ofInt32_natCast_toNat64, after_nil]))

theorem send_loop1_eq (mem : Nat → BitVec 8) (msize : Nat) (socket : C.S_tr_socket) (timeout : BitVec 64) (pdu : Nat)
    (len end_time : BitVec 64) (hptr : pdu + len.toNat ≤ msize) (hlen : len.toNat < 4294967296) :
    ∀ (n fuel : Nat) (w : C.World) (total : _) (rc : Int) (tr : List IoCall), n < fuel → total.toNat ≤ len.toNat →
      ioLoop pdu len.toNat end_time.toInt (stepsFrom w.clock w.io n w.nclock w.nio) total.toNat = some (rc, tr) →
      (∀ c ∈ tr, CallOk c) →
      C.tr_send_all.loop1 fuel w mem msize end_time len pdu socket timeout total
        = some (BitVec.ofInt 32 rc, after w tr) := by
  io_loop_link C.tr_send_all.loop1

theorem recv_loop1_eq (mem : Nat → BitVec 8) (msize : Nat) (socket : C.S_tr_socket) (timeout : BitVec 64) (pdu : Nat)
    (len end_time : BitVec 64) (hptr : pdu + len.toNat ≤ msize) :
    ∀ (n fuel : Nat) (w : C.World) (total : _) (rc : Int) (tr : List IoCall), n < fuel → total.toNat ≤ len.toNat →
      ioLoop pdu len.toNat end_time.toInt (stepsFrom w.clock w.io n w.nclock w.nio) total.toNat = some (rc, tr) →
      (∀ c ∈ tr, CallOk c) →
      C.tr_recv_all.loop1 fuel w mem msize end_time len pdu socket timeout total
        = some (BitVec.ofInt 32 rc, after w tr) := by
  io_loop_link C.tr_recv_all.loop1

/-! ## the whole functions -/

theorem sadd_ok (x y : BitVec 64) (h1 : -9223372036854775808 ≤ x.toInt + y.toInt) (h2 : x.toInt + y.toInt < 9223372036854775808) :
    x.saddOverflow y = false := by
  simp only [BitVec.saddOverflow]; simp; omega

theorem toInt_add_range (x y : BitVec 64) (h1 : -9223372036854775808 ≤ x.toInt + y.toInt)
    (h2 : x.toInt + y.toInt < 9223372036854775808) : (x + y).toInt = x.toInt + y.toInt :=
  BitVec.toInt_add_of_not_saddOverflow (by rw [sadd_ok x y h1 h2]; decide)

/-- the deadline `clock₀ + timeout` is representable -/
def DeadlineOk (c0 t : Int) : Prop := -9223372036854775808 ≤ c0 + t ∧ c0 + t < 9223372036854775808

/-- the world after a run: one clock reading for the deadline, then one reading and one transport call per entry -/
def afterAll (w : C.World) (tr : List IoCall) : C.World :=
  { w with nclock := w.nclock + 1 + tr.length, nio := w.nio + tr.length, calls := w.calls ++ tr.map enc }

theorem after_first (w : C.World) (tr : List IoCall) :
    after { clock := w.clock, io := w.io, nclock := w.nclock + 1, nio := w.nio, calls := w.calls } tr = afterAll w tr := rfl

theorem fuel_ok {n : Nat} (h : n ≤ 18446744073709551616) : n < C.FUEL := by
  unfold C.FUEL; omega

set_option hygiene false in
/-- from the loop to the function: the first clock reading fixes the deadline -/
local macro "io_all_link" f:ident loopeq:term : tactic => `(tactic| (
  have ha1 := sadd_ok (w.clock w.nclock) timeout hdl.1 hdl.2
  have ha2 := sadd_ok timeout (w.clock w.nclock) (by have := hdl.1; omega) (by have := hdl.2; omega)
  have he1 := toInt_add_range (w.clock w.nclock) timeout hdl.1 hdl.2
  have he2 := toInt_add_range timeout (w.clock w.nclock) (by have := hdl.1; omega) (by have := hdl.2; omega)
  simp only [$f:ident, C.extTime, ha1, ha2, Bool.not_false, if_true]
  refine ($loopeq n C.FUEL _ _ rc tr (fuel_ok hn) (by simp) ?_ hok).trans ?_
  · simp only [ioAll] at hspec
    first
      | rw [he1]; exact hspec
      | rw [he2, Int.add_comm]; exact hspec
  · rw [after_first]))

/-- `tr_send_all` as translated = the specification. Side conditions, each necessary for the reason given:
    * `hn`     the `n` supplied steps suffice for the specification to finish (`hspec`) and `n ≤ 2^64` (the fuel of the
               translated loop is 2^64+1). With a transport that never answers 0, `n = len` always suffices
               (`ioAll_terminates_of_progress`); a 0 answer makes no progress and costs one more round - a transport that
               answers 0 forever gives no result at all (`tr_send_all_zero_spins`)
    * `hptr`   `pdu + len ≤ msize`: the object has `len` bytes, so every `pdu + total` stays inside it
    * `hlen`   `len < 2^32` (tr_send_all only): the counter `total_send` is an `unsigned int` compared with a `size_t`;
               for `len ≥ 2^32` it wraps and the buffer is offered again from its start (CLinkIoOutside.lean)
    * `hdl`    `end_time + timeout` does not overflow `time_t` (signed overflow is undefined)
    * `hok`    for every call made: the answer is at most the length asked for (otherwise the count passes `len` and is
               returned as such - and could wrap the 32-bit counter), and `end_time - cur_time` does not overflow -/
theorem tr_send_all_eq (w : C.World) (mem : Nat → BitVec 8) (msize : Nat) (socket : C.S_tr_socket) (pdu : Nat)
    (len timeout : BitVec 64) (n : Nat) (rc : Int) (tr : List IoCall)
    (hn : n ≤ 18446744073709551616)
    (hptr : pdu + len.toNat ≤ msize)
    (hlen : len.toNat < 4294967296)
    (hdl : DeadlineOk (w.clock w.nclock).toInt timeout.toInt)
    (hspec : ioAll pdu len.toNat (w.clock w.nclock).toInt timeout.toInt
      (stepsFrom w.clock w.io n (w.nclock + 1) w.nio) = some (rc, tr))
    (hok : ∀ c ∈ tr, CallOk c) :
    C.tr_send_all w mem msize socket pdu len timeout = some (BitVec.ofInt 32 rc, afterAll w tr) := by
  io_all_link C.tr_send_all (send_loop1_eq mem msize socket timeout pdu len _ hptr hlen)

/-- `tr_recv_all` as translated = the specification; no bound on `len` is needed (the counter is a `size_t`) -/
theorem tr_recv_all_eq (w : C.World) (mem : Nat → BitVec 8) (msize : Nat) (socket : C.S_tr_socket) (pdu : Nat)
    (len timeout : BitVec 64) (n : Nat) (rc : Int) (tr : List IoCall)
    (hn : n ≤ 18446744073709551616)
    (hptr : pdu + len.toNat ≤ msize)
    (hdl : DeadlineOk (w.clock w.nclock).toInt timeout.toInt)
    (hspec : ioAll pdu len.toNat (w.clock w.nclock).toInt timeout.toInt
      (stepsFrom w.clock w.io n (w.nclock + 1) w.nio) = some (rc, tr))
    (hok : ∀ c ∈ tr, CallOk c) :
    C.tr_recv_all w mem msize socket pdu len timeout = some (BitVec.ofInt 32 rc, afterAll w tr) := by
  io_all_link C.tr_recv_all (recv_loop1_eq mem msize socket timeout pdu len _ hptr)

/-! ## the trace in closed form, in terms of the world -/

/-- bytes answered by the first `k` transport calls of a run that starts at answer number `i` -/
def sumAns (io : Nat → BitVec 32) (i : Nat) : Nat → Nat
  | 0 => 0
  | k + 1 => sumAns io i k + (io (i + k)).toInt.toNat

theorem stepsFrom_length (clock : Nat → BitVec 64) (io : Nat → BitVec 32) :
    ∀ (n c i : Nat), (stepsFrom clock io n c i).length = n := by
  intro n
  induction n with
  | zero => intro c i; rfl
  | succ n ih => intro c i; simp [stepsFrom, ih]

theorem stepsFrom_getElem (clock : Nat → BitVec 64) (io : Nat → BitVec 32) :
    ∀ (n c i k : Nat) (h : k < (stepsFrom clock io n c i).length),
      (stepsFrom clock io n c i)[k] = ((clock (c + k)).toInt, (io (i + k)).toInt) := by
  intro n
  induction n with
  | zero => intro c i k h; simp [stepsFrom] at h
  | succ n ih =>
    intro c i k h
    cases k with
    | zero => simp [stepsFrom]
    | succ k =>
      simp only [stepsFrom, List.getElem_cons_succ]
      rw [ih]; simp only [Nat.add_assoc, Nat.add_comm 1 k]

theorem got_take_eq_sumAns (io : Nat → BitVec 32) (i : Nat) (tr : List IoCall)
    (h : ∀ k (hk : k < tr.length), tr[k].ans = (io (i + k)).toInt) :
    ∀ k, k ≤ tr.length → got (tr.take k) = sumAns io i k := by
  intro k
  induction k with
  | zero => intro _; simp [sumAns]
  | succ k ih =>
    intro hk
    rw [List.take_succ_eq_append_getElem (by omega), got_append, ih (by omega)]
    simp [sumAns, h k (by omega)]

/-- the `k`-th call of a run on world `w`, as the specification describes it -/
def specCall (w : C.World) (pdu : Nat) (len timeout : BitVec 64) (k : Nat) : IoCall :=
  { buf := pdu + sumAns w.io w.nio k
    len := len.toNat - sumAns w.io w.nio k
    tmo := (w.clock w.nclock).toInt + timeout.toInt - (w.clock (w.nclock + 1 + k)).toInt
    ans := (w.io (w.nio + k)).toInt }

/-- the trace of a run is determined call by call by the world: buffer and length by the answers so far, the timeout by
    the first clock reading, `timeout` and the clock reading taken just before the call -/
theorem ioAll_trace_getElem {w : C.World} {pdu : Nat} {len timeout : BitVec 64} {n : Nat} {rc : Int} {tr : List IoCall}
    (hspec : ioAll pdu len.toNat (w.clock w.nclock).toInt timeout.toInt
      (stepsFrom w.clock w.io n (w.nclock + 1) w.nio) = some (rc, tr)) :
    ∀ k (hk : k < tr.length), tr[k] = specCall w pdu len timeout k ∧ sumAns w.io w.nio k < len.toNat := by
  have hpt := ioLoop_trace _ _ _ _ hspec
  have hans : ∀ k (hk : k < tr.length), tr[k].ans = (w.io (w.nio + k)).toInt := by
    intro k hk
    obtain ⟨hk', _, h2⟩ := hpt k hk
    rw [h2, stepsFrom_getElem]
  intro k hk
  obtain ⟨hk', h1, h2⟩ := hpt k hk
  rw [got_take_eq_sumAns w.io w.nio tr hans k (by omega), Nat.zero_add] at h1 h2
  refine ⟨?_, h1⟩
  rw [h2, stepsFrom_getElem]
  rfl

theorem ioAll_trace_eq {w : C.World} {pdu : Nat} {len timeout : BitVec 64} {n : Nat} {rc : Int} {tr : List IoCall}
    (hspec : ioAll pdu len.toNat (w.clock w.nclock).toInt timeout.toInt
      (stepsFrom w.clock w.io n (w.nclock + 1) w.nio) = some (rc, tr)) :
    tr = (List.range tr.length).map (specCall w pdu len timeout) := by
  apply List.ext_getElem (by simp)
  intro k h1 h2
  rw [(ioAll_trace_getElem hspec k h1).1]
  simp

/-- how a run ends, in terms of the world: either every answer was non-negative, they add up to at least `len` and the
    count is returned - or the last answer was negative (the only negative one) and is returned -/
theorem ioAll_end {w : C.World} {pdu : Nat} {len timeout : BitVec 64} {n : Nat} {rc : Int} {tr : List IoCall}
    (hspec : ioAll pdu len.toNat (w.clock w.nclock).toInt timeout.toInt
      (stepsFrom w.clock w.io n (w.nclock + 1) w.nio) = some (rc, tr)) :
    (rc = (sumAns w.io w.nio tr.length : Nat) ∧ len.toNat ≤ sumAns w.io w.nio tr.length ∧
        ∀ k, k < tr.length → 0 ≤ (w.io (w.nio + k)).toInt) ∨
    (rc < 0 ∧ 0 < tr.length ∧ rc = (w.io (w.nio + (tr.length - 1))).toInt ∧
        ∀ k, k + 1 < tr.length → 0 ≤ (w.io (w.nio + k)).toInt) := by
  have hget := ioAll_trace_getElem hspec
  have hans : ∀ k (hk : k < tr.length), tr[k].ans = (w.io (w.nio + k)).toInt := by
    intro k hk; rw [(hget k hk).1]; rfl
  have hgot := got_take_eq_sumAns w.io w.nio tr hans tr.length (Nat.le_refl _)
  rw [List.take_length] at hgot
  rcases ioLoop_end _ _ _ _ hspec with ⟨e1, e2, e3⟩ | ⟨e1, tr₀, c, e2, e3, e4⟩
  · left
    rw [Nat.zero_add, hgot] at e1 e2
    refine ⟨e1, e2, ?_⟩
    intro k hk
    rw [← hans k hk]; exact e3 _ (List.getElem_mem hk)
  · right
    have hl : tr.length = tr₀.length + 1 := by rw [e2]; simp
    refine ⟨e1, by omega, ?_, ?_⟩
    · rw [← hans (tr.length - 1) (by omega), ← e3]
      simp [e2]
    · intro k hk
      have hk0 : k < tr₀.length := by omega
      rw [← hans k (by omega)]
      have : tr[k]'(by omega) = tr₀[k] := by simp [e2, List.getElem_append_left hk0]
      rw [this]; exact e4 _ (List.getElem_mem hk0)

/-! ## the side conditions, bundled; sufficient conditions on the world -/

/-- the side conditions of one run on world `w`, bundled (each is explained at `tr_send_all_eq`) -/
structure RunOk (w : C.World) (msize pdu : Nat) (len timeout : BitVec 64) (n : Nat) (rc : Int) (tr : List IoCall) :
    Prop where
  fuel : n ≤ 18446744073709551616
  ptr : pdu + len.toNat ≤ msize
  deadline : DeadlineOk (w.clock w.nclock).toInt timeout.toInt
  spec : ioAll pdu len.toNat (w.clock w.nclock).toInt timeout.toInt
    (stepsFrom w.clock w.io n (w.nclock + 1) w.nio) = some (rc, tr)
  calls : ∀ c ∈ tr, CallOk c

/-- clock readings `0 … n` of the run are non-negative and below 2^62 -/
def ClockBounded (w : C.World) (n : Nat) : Prop :=
  ∀ k, k ≤ n → 0 ≤ (w.clock (w.nclock + k)).toInt ∧ (w.clock (w.nclock + k)).toInt < 4611686018427387904

def TimeoutBounded (t : BitVec 64) : Prop := -4611686018427387904 ≤ t.toInt ∧ t.toInt < 4611686018427387904

/-- with such a clock and timeout neither `end_time + timeout` nor any `end_time - cur_time` overflows -/
theorem time_ok_of_bounded {w : C.World} {pdu : Nat} {len timeout : BitVec 64} {n : Nat} {rc : Int} {tr : List IoCall}
    (hc : ClockBounded w n) (ht : TimeoutBounded timeout)
    (hspec : ioAll pdu len.toNat (w.clock w.nclock).toInt timeout.toInt
      (stepsFrom w.clock w.io n (w.nclock + 1) w.nio) = some (rc, tr)) :
    DeadlineOk (w.clock w.nclock).toInt timeout.toInt ∧
      ∀ c ∈ tr, -9223372036854775808 ≤ c.tmo ∧ c.tmo < 9223372036854775808 := by
  have h0 := hc 0 (Nat.zero_le _)
  rw [Nat.add_zero] at h0
  obtain ⟨t1, t2⟩ := ht
  refine ⟨⟨by omega, by omega⟩, ?_⟩
  intro c hmem
  obtain ⟨k, hk, rfl⟩ := List.mem_iff_getElem.mp hmem
  have hlen : tr.length ≤ n := by
    obtain ⟨hk', _⟩ := ioLoop_trace _ _ _ _ hspec k hk
    rw [stepsFrom_length] at hk'
    by_cases h : tr.length ≤ n
    · exact h
    · obtain ⟨hk'', _⟩ := ioLoop_trace _ _ _ _ hspec n (by omega)
      rw [stepsFrom_length] at hk''; omega
  rw [(ioAll_trace_getElem hspec k hk).1]
  have hk1 := hc (1 + k) (by omega)
  rw [← Nat.add_assoc] at hk1
  simp only [specCall]
  omega

/-- a transport that never answers 0 lets a run finish within `len` calls -/
theorem ioAll_terminates_of_progress (w : C.World) (pdu : Nat) (len timeout : BitVec 64)
    (hprog : ∀ k, k < len.toNat → w.io (w.nio + k) ≠ 0#32) :
    ∃ rc tr, ioAll pdu len.toNat (w.clock w.nclock).toInt timeout.toInt
      (stepsFrom w.clock w.io len.toNat (w.nclock + 1) w.nio) = some (rc, tr) := by
  have := ioLoop_terminates (pdu := pdu) (len := len.toNat) (dl := (w.clock w.nclock).toInt + timeout.toInt)
    (stepsFrom w.clock w.io len.toNat (w.nclock + 1) w.nio) 0 ?_ (by rw [stepsFrom_length]; omega)
  · obtain ⟨⟨rc, tr⟩, h⟩ := this; exact ⟨rc, tr, h⟩
  · intro s hs
    obtain ⟨k, hk, rfl⟩ := List.mem_iff_getElem.mp hs
    rw [stepsFrom_getElem]
    rw [stepsFrom_length] at hk
    intro h0
    apply hprog k hk
    apply BitVec.toInt_inj.mp
    simpa using h0

/-- `RunOk` from conditions on the world: bounded clock and timeout, a transport that makes progress and answers
    at most what it was asked for -/
theorem runOk_of_world (w : C.World) (msize pdu : Nat) (len timeout : BitVec 64)
    (hptr : pdu + len.toNat ≤ msize) (hc : ClockBounded w len.toNat) (ht : TimeoutBounded timeout)
    (hprog : ∀ k, k < len.toNat → w.io (w.nio + k) ≠ 0#32)
    (hcontract : ∀ k, k < len.toNat → sumAns w.io w.nio k < len.toNat →
      (w.io (w.nio + k)).toInt ≤ ((len.toNat - sumAns w.io w.nio k : Nat) : Int)) :
    ∃ rc tr, RunOk w msize pdu len timeout len.toNat rc tr := by
  obtain ⟨rc, tr, hspec⟩ := ioAll_terminates_of_progress w pdu len timeout hprog
  obtain ⟨hd, htm⟩ := time_ok_of_bounded hc ht hspec
  refine ⟨rc, tr, ⟨by have := len.isLt; omega, hptr, hd, hspec, ?_⟩⟩
  intro c hmem
  refine ⟨?_, htm c hmem⟩
  obtain ⟨k, hk, rfl⟩ := List.mem_iff_getElem.mp hmem
  obtain ⟨hk', _⟩ := ioLoop_trace _ _ _ _ hspec k hk
  rw [stepsFrom_length] at hk'
  obtain ⟨e, hlt⟩ := ioAll_trace_getElem hspec k hk
  rw [e]
  exact hcontract k hk' hlt

/-! ## what the checks rely on, about the translated functions -/

section corollaries
variable {w : C.World} {msize pdu : Nat} {len timeout : BitVec 64} {n : Nat} {rc : Int} {tr : List IoCall}

theorem tr_send_all_of_runOk (h : RunOk w msize pdu len timeout n rc tr) (hlen : len.toNat < 4294967296)
    (mem : Nat → BitVec 8) (socket : C.S_tr_socket) :
    C.tr_send_all w mem msize socket pdu len timeout = some (BitVec.ofInt 32 rc, afterAll w tr) :=
  tr_send_all_eq w mem msize socket pdu len timeout n rc tr h.fuel h.ptr hlen h.deadline h.spec h.calls

theorem tr_recv_all_of_runOk (h : RunOk w msize pdu len timeout n rc tr)
    (mem : Nat → BitVec 8) (socket : C.S_tr_socket) :
    C.tr_recv_all w mem msize socket pdu len timeout = some (BitVec.ofInt 32 rc, afterAll w tr) :=
  tr_recv_all_eq w mem msize socket pdu len timeout n rc tr h.fuel h.ptr h.deadline h.spec h.calls

/-- the transport calls a run adds to the world, in closed form -/
theorem RunOk.calls_eq (h : RunOk w msize pdu len timeout n rc tr) :
    (afterAll w tr).calls = w.calls ++ (List.range tr.length).map fun k => enc (specCall w pdu len timeout k) := by
  simp only [afterAll]
  conv => lhs; rw [ioAll_trace_eq h.spec]
  rw [List.map_map]; rfl

/-- under the transport contract the answers never add up to more than `len` -/
theorem RunOk.sum_le (h : RunOk w msize pdu len timeout n rc tr) : sumAns w.io w.nio tr.length ≤ len.toNat := by
  have hans : ∀ k (hk : k < tr.length), tr[k].ans = (w.io (w.nio + k)).toInt := by
    intro k hk; rw [(ioAll_trace_getElem h.spec k hk).1]; rfl
  have hgot := got_take_eq_sumAns w.io w.nio tr hans tr.length (Nat.le_refl _)
  rw [List.take_length] at hgot
  have := ioLoop_got_le _ _ _ _ h.spec (fun c hc => (h.calls c hc).1) (Nat.zero_le _)
  omega

/-- how a run ends: complete (all answers non-negative, summing to exactly `len`, which is returned) or failed (the
    last answer is the only negative one, and it is returned) -/
theorem RunOk.result (h : RunOk w msize pdu len timeout n rc tr) :
    (rc = (len.toNat : Int) ∧ BitVec.ofInt 32 rc = BitVec.setWidth 32 len ∧ sumAns w.io w.nio tr.length = len.toNat ∧
        ∀ k, k < tr.length → 0 ≤ (w.io (w.nio + k)).toInt) ∨
    (rc < 0 ∧ 0 < tr.length ∧ BitVec.ofInt 32 rc = w.io (w.nio + (tr.length - 1)) ∧
        (BitVec.ofInt 32 rc).toInt = rc ∧ ∀ k, k + 1 < tr.length → 0 ≤ (w.io (w.nio + k)).toInt) := by
  rcases ioAll_end h.spec with ⟨e1, e2, e3⟩ | ⟨e1, e2, e3, e4⟩
  · left
    have hs := h.sum_le
    have hsum : sumAns w.io w.nio tr.length = len.toNat := by omega
    rw [hsum] at e1
    refine ⟨e1, ?_, hsum, e3⟩
    rw [e1, BitVec.ofInt_natCast, BitVec.ofNat_toNat]
  · right
    refine ⟨e1, e2, ?_, ?_, e4⟩
    · rw [e3, BitVec.ofInt_toInt]
    · rw [e3, BitVec.ofInt_toInt]

/-- `tr_send_all` hands the buffer to the transport in contiguous, non-overlapping pieces: the `k`-th call gets the
    address `pdu + (sum of the previous answers)` and the length `len - that sum` (> 0); if all answers are non-negative
    they add up to exactly `len` and `(int)len` is returned - every byte was handed over exactly once, however the
    transport split the writes; otherwise the first negative answer is returned and it was the last call. -/
theorem tr_send_all_chunks (h : RunOk w msize pdu len timeout n rc tr) (hlen : len.toNat < 4294967296)
    (mem : Nat → BitVec 8) (socket : C.S_tr_socket) :
    ∃ r w', C.tr_send_all w mem msize socket pdu len timeout = some (r, w') ∧
      w'.nio = w.nio + tr.length ∧
      w'.calls = w.calls ++ (List.range tr.length).map (fun k => enc (specCall w pdu len timeout k)) ∧
      (∀ k, k < tr.length →
        (specCall w pdu len timeout k).buf = pdu + sumAns w.io w.nio k ∧
        (specCall w pdu len timeout k).len = len.toNat - sumAns w.io w.nio k ∧
        sumAns w.io w.nio k < len.toNat ∧
        sumAns w.io w.nio (k + 1) = sumAns w.io w.nio k + (w.io (w.nio + k)).toInt.toNat ∧
        sumAns w.io w.nio (k + 1) ≤ len.toNat) ∧
      ((r = BitVec.setWidth 32 len ∧ sumAns w.io w.nio tr.length = len.toNat ∧
          ∀ k, k < tr.length → 0 ≤ (w.io (w.nio + k)).toInt) ∨
       (r.toInt < 0 ∧ 0 < tr.length ∧ r = w.io (w.nio + (tr.length - 1)) ∧
          ∀ k, k + 1 < tr.length → 0 ≤ (w.io (w.nio + k)).toInt)) := by
  refine ⟨_, _, tr_send_all_of_runOk h hlen mem socket, rfl, h.calls_eq, ?_, ?_⟩
  · intro k hk
    refine ⟨rfl, rfl, (ioAll_trace_getElem h.spec k hk).2, rfl, ?_⟩
    have hc := (h.calls _ (List.getElem_mem hk)).1
    have hlt := (ioAll_trace_getElem h.spec k hk).2
    rw [(ioAll_trace_getElem h.spec k hk).1] at hc
    simp only [specCall, sumAns] at hc ⊢
    omega
  · rcases h.result with ⟨_, e2, e3, e4⟩ | ⟨e1, e2, e3, e4, e5⟩
    · exact Or.inl ⟨e2, e3, e4⟩
    · exact Or.inr ⟨by rw [e4]; exact e1, e2, e3, e5⟩

/-- the timeout of the `k`-th call, as the signed number the transport receives, is `clock₀ + timeout - clock_{k+1}`:
    the deadline is fixed by the FIRST clock reading and never re-armed -/
theorem RunOk.timeout_eq (h : RunOk w msize pdu len timeout n rc tr) (k : Nat) (hk : k < tr.length) :
    (enc (specCall w pdu len timeout k)).2.2.toInt
      = (w.clock w.nclock).toInt + timeout.toInt - (w.clock (w.nclock + 1 + k)).toInt := by
  have hc := (h.calls _ (List.getElem_mem hk)).2
  rw [(ioAll_trace_getElem h.spec k hk).1] at hc
  simp only [enc]
  rw [BitVec.toInt_ofInt_eq_self (by decide) (by simpa using hc.1) (by simpa using hc.2)]
  rfl

/-- consequences for every call of a run: the time left is `timeout` minus the time elapsed since the first reading;
    once the clock has reached the deadline the timeout handed over is ≤ 0; with a monotone clock no call gets more than
    `timeout`, and later calls get no more than earlier ones -/
theorem RunOk.timeouts (h : RunOk w msize pdu len timeout n rc tr) (k : Nat) (hk : k < tr.length) :
    let tmo := fun j => (enc (specCall w pdu len timeout j)).2.2.toInt
    let clk := fun j => (w.clock (w.nclock + j)).toInt
    tmo k = timeout.toInt - (clk (1 + k) - clk 0) ∧
    (clk 0 + timeout.toInt ≤ clk (1 + k) → tmo k ≤ 0) ∧
    (clk 0 ≤ clk (1 + k) → tmo k ≤ timeout.toInt) ∧
    (∀ j, j < k → clk (1 + j) ≤ clk (1 + k) → tmo k ≤ tmo j) := by
  intro tmo clk
  have e := h.timeout_eq k hk
  have hk' : tmo k = clk 0 + timeout.toInt - clk (1 + k) := by
    simp only [tmo, clk, e, Nat.add_zero, Nat.add_assoc]
  refine ⟨by omega, by omega, by omega, ?_⟩
  intro j hj hmono
  have ej := h.timeout_eq j (by omega)
  have hj' : tmo j = clk 0 + timeout.toInt - clk (1 + j) := by
    simp only [tmo, clk, ej, Nat.add_zero, Nat.add_assoc]
  omega

theorem tr_send_all_timeouts (h : RunOk w msize pdu len timeout n rc tr) (hlen : len.toNat < 4294967296)
    (mem : Nat → BitVec 8) (socket : C.S_tr_socket) :
    ∃ r w', C.tr_send_all w mem msize socket pdu len timeout = some (r, w') ∧
      w'.nclock = w.nclock + 1 + tr.length ∧
      w'.calls = w.calls ++ (List.range tr.length).map (fun k => enc (specCall w pdu len timeout k)) ∧
      ∀ k, k < tr.length →
        (enc (specCall w pdu len timeout k)).2.2.toInt
          = (w.clock w.nclock).toInt + timeout.toInt - (w.clock (w.nclock + 1 + k)).toInt :=
  ⟨_, _, tr_send_all_of_runOk h hlen mem socket, rfl, h.calls_eq, h.timeout_eq⟩

theorem tr_recv_all_timeouts (h : RunOk w msize pdu len timeout n rc tr)
    (mem : Nat → BitVec 8) (socket : C.S_tr_socket) :
    ∃ r w', C.tr_recv_all w mem msize socket pdu len timeout = some (r, w') ∧
      w'.nclock = w.nclock + 1 + tr.length ∧
      w'.calls = w.calls ++ (List.range tr.length).map (fun k => enc (specCall w pdu len timeout k)) ∧
      ∀ k, k < tr.length →
        (enc (specCall w pdu len timeout k)).2.2.toInt
          = (w.clock w.nclock).toInt + timeout.toInt - (w.clock (w.nclock + 1 + k)).toInt :=
  ⟨_, _, tr_recv_all_of_runOk h mem socket, rfl, h.calls_eq, h.timeout_eq⟩

/-- `tr_recv_all` never returns after a short read: a non-negative return value is exactly `len`, and then the answers
    of the transport add up to `len` (for `len < 2^31`, where `(int)len` keeps the value; in general the value returned
    by a complete read is `len` truncated to 32 bits) -/
theorem tr_recv_all_never_short (h : RunOk w msize pdu len timeout n rc tr)
    (mem : Nat → BitVec 8) (socket : C.S_tr_socket) :
    ∃ r w', C.tr_recv_all w mem msize socket pdu len timeout = some (r, w') ∧
      ((r = BitVec.setWidth 32 len ∧ sumAns w.io w.nio (w'.nio - w.nio) = len.toNat) ∨
       (r.toInt < 0 ∧ 0 < w'.nio - w.nio ∧ r = w.io (w'.nio - 1))) ∧
      (len.toNat < 2147483648 → 0 ≤ r.toInt →
        r.toInt = len.toNat ∧ sumAns w.io w.nio (w'.nio - w.nio) = len.toNat) := by
  refine ⟨_, _, tr_recv_all_of_runOk h mem socket, ?_, ?_⟩
  · have e : (afterAll w tr).nio - w.nio = tr.length := by simp [afterAll]
    rw [e]
    rcases h.result with ⟨_, e2, e3, _⟩ | ⟨e1, e2, e3, e4, _⟩
    · exact Or.inl ⟨e2, e3⟩
    · refine Or.inr ⟨by rw [e4]; exact e1, e2, ?_⟩
      rw [e3]; congr 1; simp only [afterAll]; omega
  · intro hl hr
    have e : (afterAll w tr).nio - w.nio = tr.length := by simp [afterAll]
    rw [e]
    rcases h.result with ⟨e1, _, e3, _⟩ | ⟨e1, _, _, e4, _⟩
    · refine ⟨?_, e3⟩
      rw [e1, BitVec.toInt_ofInt_eq_self (by decide) (by simp <;> omega) (by simp <;> omega)]
    · omega

end corollaries

/-- the equation from conditions on the world and the arguments alone: object of `len` bytes, `len < 2^32`, clock
    readings in `[0, 2^62)`, timeout in `[-2^62, 2^62)`, a transport that never answers 0 and never more than the
    length it is asked for (`len - (sum of the previous answers)`) -/
theorem tr_send_all_of_world (w : C.World) (mem : Nat → BitVec 8) (msize : Nat) (socket : C.S_tr_socket) (pdu : Nat)
    (len timeout : BitVec 64) (hptr : pdu + len.toNat ≤ msize) (hlen : len.toNat < 4294967296)
    (hc : ClockBounded w len.toNat) (ht : TimeoutBounded timeout)
    (hprog : ∀ k, k < len.toNat → w.io (w.nio + k) ≠ 0#32)
    (hcontract : ∀ k, k < len.toNat → sumAns w.io w.nio k < len.toNat →
      (w.io (w.nio + k)).toInt ≤ ((len.toNat - sumAns w.io w.nio k : Nat) : Int)) :
    ∃ rc tr, RunOk w msize pdu len timeout len.toNat rc tr ∧
      C.tr_send_all w mem msize socket pdu len timeout = some (BitVec.ofInt 32 rc, afterAll w tr) := by
  obtain ⟨rc, tr, h⟩ := runOk_of_world w msize pdu len timeout hptr hc ht hprog hcontract
  exact ⟨rc, tr, h, tr_send_all_of_runOk h hlen mem socket⟩

theorem tr_recv_all_of_world (w : C.World) (mem : Nat → BitVec 8) (msize : Nat) (socket : C.S_tr_socket) (pdu : Nat)
    (len timeout : BitVec 64) (hptr : pdu + len.toNat ≤ msize)
    (hc : ClockBounded w len.toNat) (ht : TimeoutBounded timeout)
    (hprog : ∀ k, k < len.toNat → w.io (w.nio + k) ≠ 0#32)
    (hcontract : ∀ k, k < len.toNat → sumAns w.io w.nio k < len.toNat →
      (w.io (w.nio + k)).toInt ≤ ((len.toNat - sumAns w.io w.nio k : Nat) : Int)) :
    ∃ rc tr, RunOk w msize pdu len timeout len.toNat rc tr ∧
      C.tr_recv_all w mem msize socket pdu len timeout = some (BitVec.ofInt 32 rc, afterAll w tr) := by
  obtain ⟨rc, tr, h⟩ := runOk_of_world w msize pdu len timeout hptr hc ht hprog hcontract
  exact ⟨rc, tr, h, tr_recv_all_of_runOk h mem socket⟩

/-! ## outside the hypotheses -/

theorem sext_zero : BitVec.signExtend 64 0#32 = 0#64 := by decide

set_option hygiene false in
local macro "io_spin" loop:ident : tactic => `(tactic| (
  intro fuel
  induction fuel with
  | zero => intro w total _ _; rfl
  | succ f ih =>
    intro w total hz hlt
    have hz0 : w.io w.nio = 0#32 := by simpa using hz 0
    have hz' : ∀ k, w.io (w.nio + 1 + k) = 0#32 := by
      intro k; rw [Nat.add_assoc]; exact hz (1 + k)
    io_unfold $loop with hz0
    simp only [BitVec.add_zero, sext_zero, BitVec.toInt_zero, Int.lt_irrefl, Int.le_refl, if_false, if_true]
    io_decide_ifs
    all_goals first | rfl | exact ih _ _ hz' hlt))

/-- a transport that answers 0 makes no progress: the loop calls it again and again with the same buffer and length
    (each round reads the clock, so the timeouts handed over keep falling) and never returns by itself -
    the translated function has no result, whatever the fuel -/
theorem send_loop1_zero_spins (mem : Nat → BitVec 8) (msize : Nat) (socket : C.S_tr_socket) (timeout : BitVec 64)
    (pdu : Nat) (len end_time : BitVec 64) :
    ∀ (fuel : Nat) (w : C.World) (total : _), (∀ k, w.io (w.nio + k) = 0#32) → total.toNat < len.toNat →
      C.tr_send_all.loop1 fuel w mem msize end_time len pdu socket timeout total = none := by
  io_spin C.tr_send_all.loop1

theorem recv_loop1_zero_spins (mem : Nat → BitVec 8) (msize : Nat) (socket : C.S_tr_socket) (timeout : BitVec 64)
    (pdu : Nat) (len end_time : BitVec 64) :
    ∀ (fuel : Nat) (w : C.World) (total : _), (∀ k, w.io (w.nio + k) = 0#32) → total.toNat < len.toNat →
      C.tr_recv_all.loop1 fuel w mem msize end_time len pdu socket timeout total = none := by
  io_spin C.tr_recv_all.loop1

theorem ite_none {α : Type} (c : Prop) [Decidable c] (x : Option α) (h : x = none) :
    (if c then x else none) = none := by simp [h]

theorem tr_send_all_zero_spins (w : C.World) (mem : Nat → BitVec 8) (msize : Nat) (socket : C.S_tr_socket) (pdu : Nat)
    (len timeout : BitVec 64) (hz : ∀ k, w.io (w.nio + k) = 0#32) (hlen : 0 < len.toNat) :
    C.tr_send_all w mem msize socket pdu len timeout = none := by
  simp only [C.tr_send_all, C.extTime]
  refine ite_none _ _ ?_
  exact send_loop1_zero_spins _ _ _ _ _ _ _ _ _ _ hz (by simpa using hlen)

theorem tr_recv_all_zero_spins (w : C.World) (mem : Nat → BitVec 8) (msize : Nat) (socket : C.S_tr_socket) (pdu : Nat)
    (len timeout : BitVec 64) (hz : ∀ k, w.io (w.nio + k) = 0#32) (hlen : 0 < len.toNat) :
    C.tr_recv_all w mem msize socket pdu len timeout = none := by
  simp only [C.tr_recv_all, C.extTime]
  refine ite_none _ _ ?_
  exact recv_loop1_zero_spins _ _ _ _ _ _ _ _ _ _ hz (by simpa using hlen)

/-! ## non-vacuity: the translated functions run on concrete worlds (kernel evaluation, full fuel) -/

/-- what can be compared of a result: return value, clock readings and transport calls consumed, and the calls
    (address, length, timeout as a signed number) -/
structure Obs where
  rc : Int
  nclock : Nat
  nio : Nat
  calls : List (Nat × Nat × Int)
deriving DecidableEq, Repr

def obs (r : Option (BitVec 32 × C.World)) : Option Obs :=
  r.map fun p => ⟨p.1.toInt, p.2.nclock, p.2.nio, p.2.calls.map fun c => (c.1, c.2.1.toNat, c.2.2.toInt)⟩

/-- a world from a list of clock readings and a list of transport answers (0 beyond the lists) -/
def mkWorld (clock : List Nat) (io : List Int) : C.World :=
  { clock := fun i => BitVec.ofNat 64 (clock.getD i 0), io := fun i => BitVec.ofInt 32 (io.getD i 0) }

def noMem : Nat → BitVec 8 := fun _ => 0

/-- answers 3, 5, 4 for 12 bytes; clock 100 (deadline 160), then 100, 130, 161: three calls, contiguous pieces,
    timeouts 60, 30, -1 (the deadline has passed and is not re-armed), return 12 -/
example : obs (C.tr_send_all (mkWorld [100, 100, 130, 161] [3, 5, 4]) noMem 1012 ⟨()⟩ 1000 12 60)
    = some ⟨12, 4, 3, [(1000, 12, 60), (1003, 9, 30), (1008, 4, -1)]⟩ := by decide
example : obs (C.tr_recv_all (mkWorld [100, 100, 130, 161] [3, 5, 4]) noMem 1012 ⟨()⟩ 1000 12 60)
    = some ⟨12, 4, 3, [(1000, 12, 60), (1003, 9, 30), (1008, 4, -1)]⟩ := by decide

/-- a negative answer (-2 = TR_WOULDBLOCK) in the middle is returned at once; the third answer is never asked for -/
example : obs (C.tr_send_all (mkWorld [100, 100, 130, 161] [3, -2, 4]) noMem 1012 ⟨()⟩ 1000 12 60)
    = some ⟨-2, 3, 2, [(1000, 12, 60), (1003, 9, 30)]⟩ := by decide
example : obs (C.tr_recv_all (mkWorld [100, 100, 130, 161] [3, -2, 4]) noMem 1012 ⟨()⟩ 1000 12 60)
    = some ⟨-2, 3, 2, [(1000, 12, 60), (1003, 9, 30)]⟩ := by decide

/-- a world in the middle of its history: earlier calls stay, numbering continues -/
example : obs (C.tr_recv_all { mkWorld [7, 7, 100, 100, 130] [9, 3, 9] with nclock := 2, nio := 1, calls := [(5, 6#64, 7#64)] }
      noMem 1012 ⟨()⟩ 1000 12 60)
    = some ⟨12, 5, 3, [(5, 6, 7), (1000, 12, 60), (1003, 9, 30)]⟩ := by decide

/-- answers 0: the same piece is offered again, the timeout keeps falling -/
example : obs (C.tr_recv_all (mkWorld [100, 100, 130, 161, 170] [0, 0, 0, 12]) noMem 1012 ⟨()⟩ 1000 12 60)
    = some ⟨12, 5, 4, [(1000, 12, 60), (1000, 12, 30), (1000, 12, -1), (1000, 12, -10)]⟩ := by decide

/-- the pointer guard: an object shorter than `len` is not touched beyond its end - no result -/
example : obs (C.tr_recv_all (mkWorld [100, 100, 130] [3, 5, 4]) noMem 1002 ⟨()⟩ 1000 12 60) = none := by decide

instance : DecidablePred CallOk := fun c => by unfold CallOk; infer_instance
instance (c0 t : Int) : Decidable (DeadlineOk c0 t) := by unfold DeadlineOk; infer_instance

/-- the hypotheses of the theorems are satisfiable: a concrete run with its trace -/
theorem runOk_example : RunOk (mkWorld [100, 100, 130, 161] [3, 5, 4]) 1012 1000 12 60 3 12
    [⟨1000, 12, 60, 3⟩, ⟨1003, 9, 30, 5⟩, ⟨1008, 4, -1, 4⟩] :=
  ⟨by decide, by decide, by decide, by decide, by decide⟩

theorem runOk_example_neg : RunOk (mkWorld [100, 100, 130, 161] [3, -2, 4]) 1012 1000 12 60 3 (-2)
    [⟨1000, 12, 60, 3⟩, ⟨1003, 9, 30, -2⟩] :=
  ⟨by decide, by decide, by decide, by decide, by decide⟩

/-- and the theorem yields the evaluated result -/
example : C.tr_send_all (mkWorld [100, 100, 130, 161] [3, 5, 4]) noMem 1012 ⟨()⟩ 1000 12 60
    = some (12#32, afterAll (mkWorld [100, 100, 130, 161] [3, 5, 4]) [⟨1000, 12, 60, 3⟩, ⟨1003, 9, 30, 5⟩, ⟨1008, 4, -1, 4⟩]) :=
  tr_send_all_of_runOk runOk_example (by decide) noMem ⟨()⟩

/-! ### outside the hypotheses (more in RtrProofs/CLinkIoOutside.lean: examples pinned to the current source) -/

/-- a clock reading so far from the deadline that `end_time - cur_time` overflows `time_t`: undefined - no result -/
example : obs (C.tr_recv_all (mkWorld [9223372036854775000, 9223372036854775808] [3]) noMem 1012 ⟨()⟩ 1000 12 60)
    = none := by decide

end Rtr.CLink
