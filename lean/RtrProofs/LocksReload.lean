/-
  LocksReload: the generic two-state theorem behind C06.
  One thread `w` (the synchronising thread) write-acquires the lock of table `L` at most once on
  its whole path; no other thread ever write-acquires it.  Then the abstract value of `L` is the
  old one until that single write critical section begins and the new one from its end on, and
  nobody can hold `L`'s read lock in between.
-/
import RtrProofs.Locks

namespace Rtr.Locks

/-- effect of one event on the abstract value of table `L` -/
def applyEv (L : Nat) (e : Ev) (a : Part → Nat) : Part → Nat :=
  match e with
  | .wr x v => if x.tbl = L then upd a x.part v else a
  | _ => a

/-- effect of all writes of a path on the abstract value of table `L` -/
def applyW (L : Nat) : List Ev → (Part → Nat) → (Part → Nat)
  | [], a => a
  | e :: π, a => applyW L π (applyEv L e a)

theorem abs_apply (s : Sys) (i : Nat) (e : Ev) (r : List Ev) (L : Nat) :
    abs (apply s i e r) L = applyEv L e (abs s L) := by
  cases e with
  | wr x v =>
    funext p
    obtain ⟨xt, xp⟩ := x
    simp only [abs, apply, applyEv, upd, Loc.mk.injEq]
    by_cases h : xt = L
    · subst h
      by_cases hp : p = xp
      · simp [hp, upd]
      · simp [hp, upd, abs]
    · have : ¬ (L = xt) := fun h' => h h'.symm
      simp [h, this, abs]
  | acq m l => cases m <;> rfl
  | rel l => simp only [applyEv]; unfold abs apply; simp only; split <;> rfl
  | rd x => rfl
  | bad => rfl

/-- a path run without the write lock of `L` and without acquiring it does not write `L` -/
theorem applyW_noW {strict : Bool} {L : Nat} (π : List Ev) :
    ∀ (h : Held) (a : Part → Nat), (runHeld strict h π).isSome = true → (L, Mode.W) ∉ h →
      countAcq (selL L) π = 0 → applyW L π a = a := by
  induction π with
  | nil => intro h a _ _ _; rfl
  | cons e π ih =>
    intro h a hg hn hc
    obtain ⟨hok, hgr⟩ := runHeld_cons_some hg
    rw [countAcq_cons] at hc
    have hc₁ : countAcq (selL L) π = 0 := by omega
    have hc₂ : isAcq (selL L) e = false := by
      cases hb : isAcq (selL L) e with
      | false => rfl
      | true => rw [hb] at hc; simp at hc
    simp only [applyW]
    have hstep : applyEv L e a = a := by
      cases e with
      | wr x v =>
        have hw : (x.tbl, Mode.W) ∈ h := holdsW_iff.mp (by simpa [okEv] using hok)
        have : x.tbl ≠ L := fun hx => hn (hx ▸ hw)
        simp [applyEv, this]
      | acq _ _ => rfl
      | rel _ => rfl
      | rd _ => rfl
      | bad => rfl
    rw [hstep]
    apply ih (updHeld h e) a hgr _ hc₁
    intro hm
    cases e with
    | acq m l =>
      simp only [updHeld, List.mem_cons, Prod.mk.injEq] at hm
      rcases hm with ⟨hl, hm⟩ | hm
      · subst hl; subst hm; simp [isAcq, selL] at hc₂
      · exact hn hm
    | rel l => simp only [updHeld, mem_filter_ne] at hm; exact hn hm.1
    | rd _ => exact hn hm
    | wr _ _ => exact hn hm
    | bad => exact hn hm

/-- reload invariant -/
structure RInv (w L : Nat) (old new : Part → Nat) (s : Sys) : Prop where
  others : ∀ j, j ≠ w → (L, Mode.W) ∉ (s.thr j).held ∧ countAcq (selL L) (s.thr j).rest = 0
  budget : countAcq (selL L) (s.thr w).rest + (if (L, Mode.W) ∈ (s.thr w).held then 1 else 0) ≤ 1
  fut : applyW L (s.thr w).rest (abs s L) = new
  past : countAcq (selL L) (s.thr w).rest = 1 → abs s L = old

theorem mem_updHeld_W {h : Held} {e : Ev} {L : Nat} (hm : (L, Mode.W) ∈ updHeld h e) :
    (L, Mode.W) ∈ h ∨ e = .acq .W L := by
  cases e with
  | acq m l =>
    simp only [updHeld, List.mem_cons, Prod.mk.injEq] at hm
    rcases hm with ⟨hl, hm⟩ | hm
    · subst hl; subst hm; exact Or.inr rfl
    · exact Or.inl hm
  | rel l => simp only [updHeld, mem_filter_ne] at hm; exact Or.inl hm.1
  | rd _ => exact Or.inl hm
  | wr _ _ => exact Or.inl hm
  | bad => exact Or.inl hm

theorem isAcq_selL_iff {L : Nat} {e : Ev} : isAcq (selL L) e = true ↔ e = .acq .W L := by
  cases e with
  | acq m l =>
    cases m with
    | W => simp [isAcq, selL]
    | R => simp [isAcq, selL]
  | rel _ => simp [isAcq]
  | rd _ => simp [isAcq]
  | wr _ _ => simp [isAcq]
  | bad => simp [isAcq]

theorem rinv_step {σ : Nat → Bool} {w L : Nat} {old new : Part → Nat} {s s' : Sys} {i : Nat}
    (hI : Inv σ s) (hR : RInv w L old new s) (hf : fire s i = some s') : RInv w L old new s' := by
  obtain ⟨e, r, hr, _, rfl⟩ := fire_thr hf
  have hn : next s i = some e := by simp [next, hr]
  have hok := hI.next_ok hn
  -- a thread not holding W(L) does not change abs L
  have hkeep : (L, Mode.W) ∉ (s.thr i).held → applyEv L e (abs s L) = abs s L := by
    intro hnw
    cases e with
    | wr x v =>
      have hw : (x.tbl, Mode.W) ∈ (s.thr i).held := holdsW_iff.mp (by simpa [okEv] using hok)
      have : x.tbl ≠ L := fun hx => hnw (hx ▸ hw)
      simp [applyEv, this]
    | acq _ _ => rfl
    | rel _ => rfl
    | rd _ => rfl
    | bad => rfl
  by_cases hi : i = w
  · subst hi
    have hcnt : countAcq (selL L) (s.thr i).rest = countAcq (selL L) r + (if isAcq (selL L) e then 1 else 0) := by
      rw [hr, countAcq_cons]
    refine ⟨?_, ?_, ?_, ?_⟩
    · intro j hj; rw [apply_thr_other s i e r hj]; exact hR.others j hj
    · rw [apply_thr_same]
      simp only
      have hb := hR.budget
      rw [hcnt] at hb
      by_cases hacq : e = .acq .W L
      · subst hacq
        have hnl : holds (s.thr i).held L = false := by simpa [okEv] using hok
        have hnw : (L, Mode.W) ∉ (s.thr i).held := fun hm => by
          have := holds_iff.mpr ⟨_, hm⟩; simp [this] at hnl
        have hsel : isAcq (selL L) (.acq .W L) = true := isAcq_selL_iff.mpr rfl
        simp only [hsel, if_true, hnw, if_false] at hb
        have : (L, Mode.W) ∈ updHeld (s.thr i).held (.acq .W L) := by simp [updHeld]
        simp only [this, if_true]
        omega
      · have hna : isAcq (selL L) e = false := by
          cases hb' : isAcq (selL L) e with
          | false => rfl
          | true => exact absurd (isAcq_selL_iff.mp hb') hacq
        simp only [hna, Bool.false_eq_true, if_false, Nat.add_zero] at hb
        by_cases hm : (L, Mode.W) ∈ updHeld (s.thr i).held e
        · rcases mem_updHeld_W hm with h | h
          · simp only [h, if_true] at hb; simp only [hm, if_true]; exact hb
          · exact absurd h hacq
        · simp only [hm, if_false]
          split at hb <;> omega
    · rw [apply_thr_same, abs_apply]
      have := hR.fut
      rw [hr] at this
      exact this
    · rw [apply_thr_same, abs_apply]
      simp only
      intro hc1
      have hb := hR.budget
      rw [hcnt, hc1] at hb
      have hna : isAcq (selL L) e = false := by
        cases hb' : isAcq (selL L) e with
        | false => rfl
        | true => rw [hb'] at hb; simp at hb; omega
      have hnw : (L, Mode.W) ∉ (s.thr i).held := by
        intro hm; simp only [hm, if_true] at hb; omega
      rw [hkeep hnw]
      apply hR.past
      rw [hcnt, hc1, hna]; rfl
  · have hnw : (L, Mode.W) ∉ (s.thr i).held := (hR.others i hi).1
    refine ⟨?_, ?_, ?_, ?_⟩
    · intro j hj
      by_cases hji : j = i
      · subst hji
        obtain ⟨hnw', hc⟩ := hR.others j hj
        rw [hr, countAcq_cons] at hc
        rw [apply_thr_same]
        refine ⟨?_, by simp only; omega⟩
        intro hm
        rcases mem_updHeld_W hm with h | h
        · exact hnw' h
        · subst h; simp [isAcq, selL] at hc
      · rw [apply_thr_other s i e r hji]; exact hR.others j hj
    · have hwi : w ≠ i := fun h => hi h.symm
      rw [apply_thr_other s i e r hwi]; exact hR.budget
    · have hwi : w ≠ i := fun h => hi h.symm
      rw [apply_thr_other s i e r hwi, abs_apply, hkeep hnw]; exact hR.fut
    · have hwi : w ≠ i := fun h => hi h.symm
      rw [apply_thr_other s i e r hwi, abs_apply, hkeep hnw]; exact hR.past

theorem rinv_steps {σ : Nat → Bool} {w L : Nat} {old new : Part → Nat} {s s' : Sys}
    (hI : Inv σ s) (hR : RInv w L old new s) (hs : Steps s s') : RInv w L old new s' := by
  induction hs with
  | refl => exact hR
  | tail hpre hst ih => obtain ⟨i, hf⟩ := hst; exact rinv_step (inv_steps hI hpre) ih hf

/-- the single write critical section of `L` has not begun yet -/
def swapPending (w L : Nat) (s : Sys) : Prop := countAcq (selL L) (s.thr w).rest = 1

/-- **reload_two_states (generic).**  `w` write-acquires `L` at most once, nobody else does, all
    writes are guarded.  In every reachable state in which `w` is not inside that write section:
    either the section is still ahead and `abs L = old`, or it is over and `abs L = new`, where
    `new` is `old` overwritten by `w`'s writes to `L`. -/
theorem two_states {σ : Nat → Bool} {store : Loc → Nat} {paths : Nat → List Ev} (w L : Nat)
    (hg : ∀ i, Guarded (σ i) (paths i))
    (hone : countAcq (selL L) (paths w) ≤ 1)
    (hnone : ∀ j, j ≠ w → countAcq (selL L) (paths j) = 0)
    {s : Sys} (hr : Reach store paths s) (hout : (L, Mode.W) ∉ (s.thr w).held) :
    let old : Part → Nat := fun p => store ⟨L, p⟩
    let new := applyW L (paths w) old
    (swapPending w L s ∧ abs s L = old) ∨ (¬ swapPending w L s ∧ abs s L = new) := by
  intro old new
  have hI0 : Inv σ (init store paths) := inv_init hg
  have hR0 : RInv w L old new (init store paths) := by
    refine ⟨?_, ?_, ?_, ?_⟩
    · intro j hj; exact ⟨by simp [init], by simpa [init] using hnone j hj⟩
    · simpa [init] using hone
    · rfl
    · intro _; rfl
  have hI := inv_steps hI0 hr
  have hR := rinv_steps hI0 hR0 hr
  unfold swapPending
  by_cases hp : countAcq (selL L) (s.thr w).rest = 1
  · exact Or.inl ⟨hp, hR.past hp⟩
  · refine Or.inr ⟨hp, ?_⟩
    have hb := hR.budget
    simp only [hout, if_false, Nat.add_zero] at hb
    have h0 : countAcq (selL L) (s.thr w).rest = 0 := by omega
    have := hR.fut
    rw [applyW_noW (s.thr w).rest (s.thr w).held (abs s L) (hI.guarded w) hout h0] at this
    exact this

/-- a reader holding `L`'s read lock excludes `w` from its write section -/
theorem reader_excludes_writer {σ : Nat → Bool} {s : Sys} (hI : Inv σ s) {j w L : Nat}
    (hj : j ∈ s.readers L) : (L, Mode.W) ∉ (s.thr w).held := by
  intro hm
  have := hI.excl L w ((hI.wIff w L).mp hm)
  rw [this] at hj
  simp at hj

/-- the pending flag only ever goes from pending to done -/
theorem pending_antitone {w L : Nat} {s s' : Sys} (hs : Steps s s') :
    countAcq (selL L) (s'.thr w).rest ≤ countAcq (selL L) (s.thr w).rest := by
  induction hs with
  | refl => exact Nat.le_refl _
  | tail _ hst ih =>
    obtain ⟨i, hf⟩ := hst
    obtain ⟨e, r, hr, _, rfl⟩ := fire_thr hf
    by_cases hi : w = i
    · subst hi
      rw [apply_thr_same]
      simp only
      have : countAcq (selL L) r ≤ countAcq (selL L) (e :: r) := by rw [countAcq_cons]; omega
      rw [← hr] at this
      omega
    · rw [apply_thr_other _ _ _ _ hi]; exact ih

/-- let thread `i` take up to `n` steps (used to exhibit concrete reachable states) -/
def fireN (s : Sys) (i : Nat) : Nat → Sys
  | 0 => s
  | n + 1 =>
    match fire s i with
    | some s' => fireN s' i n
    | none => s

theorem Steps.trans {s t u : Sys} (h₁ : Steps s t) (h₂ : Steps t u) : Steps s u := by
  induction h₂ with
  | refl => exact h₁
  | tail _ hst ih => exact .tail ih hst

theorem fireN_steps (s : Sys) (i n : Nat) : Steps s (fireN s i n) := by
  induction n generalizing s with
  | zero => exact .refl _
  | succ n ih =>
    simp only [fireN]
    split
    · rename_i s' hf
      exact Steps.trans (.tail (.refl _) ⟨i, hf⟩) (ih s')
    · exact .refl _

end Rtr.Locks
