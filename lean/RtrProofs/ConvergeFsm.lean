/-
  ConvergeFsm: the iterations of the state machine (`fsmStep`) that lead from an error state, from
  CONNECTING or from RESET to SYNC in an environment where `open` and `send` succeed: what each of
  them does to the socket, in the form needed to chain them (RtrProofs/Converge.lean).
-/
import RtrProofs.ConvergeAnswer
import RtrProofs.Progress
import RtrProofs.Expiry

namespace Rtr.P

/-! ## environments between two points where nothing was received -/

/-- `n'` is `n` after trace output, successful sends, an `open` and `d` seconds of sleep: same tape,
    same kind of run; the send script lost the entries of the send calls made -/
structure CvNet (d : Nat) (n n' : Net) : Prop where
  tape : n'.tape = n.tape
  now : n'.now = n.now + d
  threaded : n'.threaded = n.threaded
  sendQ : ∃ k, n'.sendQ = n.sendQ.drop k

theorem CvNet.refl (n : Net) : CvNet 0 n n := ⟨rfl, by simp, rfl, ⟨0, rfl⟩⟩

theorem CvNet.trans {d1 d2 : Nat} {a b c : Net} (h1 : CvNet d1 a b) (h2 : CvNet d2 b c) : CvNet (d1 + d2) a c := by
  obtain ⟨k1, e1⟩ := h1.sendQ
  obtain ⟨k2, e2⟩ := h2.sendQ
  refine ⟨h2.tape.trans h1.tape, ?_, h2.threaded.trans h1.threaded, ⟨k1 + k2, ?_⟩⟩
  · rw [h2.now, h1.now]; simp only [Int.natCast_add]; omega
  · rw [e2, e1, List.drop_drop]

theorem CvNet.noFail {d : Nat} {n n' : Net} (h : CvNet d n n') (hq : NoFail n.sendQ) : NoFail n'.sendQ := by
  obtain ⟨k, e⟩ := h.sendQ
  intro x hx
  rw [e] at hx
  exact hq x (List.mem_of_mem_drop hx)

theorem CvNet.cvTape {d : Nat} {n n' : Net} (h : CvNet d n n') {bytes : List Nat} (ht : CvTape n bytes) : CvTape n' bytes :=
  ⟨by rw [h.tape]; exact ht.ff, by rw [h.tape]; exact ht.eq⟩

def CvNet0 (n n' : Net) : Prop := CvNet 0 n n'

theorem cvNet0_emitRel : EmitRel CvNet0 :=
  { refl := CvNet.refl
    trans := fun h1 h2 => by
      have := CvNet.trans h1 h2
      exact this
    emit := fun n l => ⟨rfl, by simp [Net.emit], rfl, ⟨0, rfl⟩⟩
    send := fun n b => by
      unfold trSend
      simp only
      split <;> rename_i h
      all_goals first
        | exact ⟨rfl, by simp [Net.emit], rfl, ⟨1, by simp [Net.emit, h]⟩⟩
        | exact ⟨rfl, by simp [Net.emit], rfl, ⟨0, by simp [Net.emit]⟩⟩ }

/-! ## sending with a send script that has no failure -/

theorem cv_sendPdu_ok (c : Conn) (n : Net) (bytes : List Nat) (hs : c.state ≠ .shutdown) (hq : NoFail n.sendQ)
    (hb : bytes ≠ []) : (sendPdu c n bytes).1 = true := by
  unfold sendPdu
  rw [if_neg hs]
  unfold sendAll
  rw [sendAllLoop_calls]
  simp only
  obtain ⟨_, h2, _⟩ := sendCalls_all (bytes.length + 1) n.sendQ bytes 0 hq (Nat.lt_succ_self _)
  rw [h2]
  have : 0 < bytes.length := List.length_pos_iff.2 hb
  simp only [decide_eq_true_eq]
  omega

theorem cv_sendResetQuery_ok (st : St) (hs : st.c.state ≠ .shutdown) (hq : NoFail st.n.sendQ) :
    sendResetQuery st = (true, { st with n := (sendResetQuery st).2.n }) ∧ CvNet 0 st.n (sendResetQuery st).2.n := by
  refine ⟨?_, sendResetQuery_rel cvNet0_emitRel st⟩
  have h := cv_sendPdu_ok st.c st.n (resetQueryBytes st.c.version) hs hq (resetQueryBytes_ne _)
  unfold sendResetQuery
  generalize sendPdu st.c st.n (resetQueryBytes st.c.version) = r at h
  obtain ⟨ok, n⟩ := r
  simp only at h
  subst h
  rfl

theorem cv_sendSerialQuery_ok (st : St) (hs : st.c.state ≠ .shutdown) (hq : NoFail st.n.sendQ) :
    sendSerialQuery st = (true, { st with n := (sendSerialQuery st).2.n }) ∧ CvNet 0 st.n (sendSerialQuery st).2.n := by
  refine ⟨?_, sendSerialQuery_rel cvNet0_emitRel st⟩
  have h := cv_sendPdu_ok st.c st.n (serialQueryBytes st.c.version st.ss.session st.ss.serial) hs hq (serialQueryBytes_ne _ _ _)
  unfold sendSerialQuery
  generalize sendPdu st.c st.n (serialQueryBytes st.c.version st.ss.session st.ss.serial) = r at h
  obtain ⟨ok, n⟩ := r
  simp only at h
  subst h
  rfl

/-! ## state changes -/

theorem cv_change (st : St) (s : SState) (hs : st.c.state ≠ .shutdown) :
    st.change s = { st with c := { st.c with state := s }, n := (st.change s).n } ∧ CvNet 0 st.n (st.change s).n := by
  refine ⟨?_, change_rel cvNet0_emitRel st s⟩
  unfold St.change changeState
  by_cases h1 : st.c.state = s
  · rw [if_pos h1]
    obtain ⟨c, ss, tm, n, t⟩ := st
    obtain ⟨state, version, hasReceived⟩ := c
    simp only at h1
    subst h1
    rfl
  · rw [if_neg h1, if_neg hs]

/-! ## what is carried from the first state of the run to the state in which `rtr_sync` starts -/

/-- the socket may speak version `ver` with the cache: it does already, or it has not seen a PDU on
    this connection, speaks version 1 and `ver` = 0 (live downgrade) -/
def CvVer (c : Conn) (ver : Nat) : Prop :=
  ver = c.version ∨ (c.hasReceived = false ∧ c.version = 1 ∧ ver = 0)

/-- from `st` to `st'` in `d` seconds: version, "first PDU" flag, intervals, environment; the tables
    stay duplicate-free, other sockets' records are untouched, data of this socket is present only
    together with a time stamp -/
structure CvMid (d : Nat) (st st' : St) : Prop where
  ver : st'.c.version = st.c.version
  rcv : st'.c.hasReceived = st.c.hasReceived ∨ st'.c.hasReceived = false
  tm : st'.tm = st.tm
  net : CvNet d st.n st'.n
  tblok : TblOK st.t → TblOK st'.t
  others : OthersSame st.t st'.t
  inv : (st.ss.lastUpdate = 0 → NoOwn st.t) → (st'.ss.lastUpdate = 0 → NoOwn st'.t)

theorem CvMid.refl (st : St) : CvMid 0 st st :=
  ⟨rfl, Or.inl rfl, rfl, CvNet.refl _, id, OthersSame.refl _, id⟩

theorem CvMid.trans {d1 d2 : Nat} {a b c : St} (h1 : CvMid d1 a b) (h2 : CvMid d2 b c) : CvMid (d1 + d2) a c :=
  ⟨h2.ver.trans h1.ver,
   by
     rcases h2.rcv with h | h
     · rcases h1.rcv with h' | h'
       · exact Or.inl (h.trans h')
       · exact Or.inr (h.trans h')
     · exact Or.inr h,
   h2.tm.trans h1.tm, h1.net.trans h2.net, fun h => h2.tblok (h1.tblok h), h1.others.trans h2.others,
   fun h => h2.inv (h1.inv h)⟩

theorem CvMid.cvVer {d : Nat} {st st' : St} (h : CvMid d st st') {ver : Nat} (hv : CvVer st.c ver) : CvVer st'.c ver := by
  rcases hv with hv | ⟨h1, h2, h3⟩
  · exact Or.inl (by rw [h.ver]; exact hv)
  · refine Or.inr ⟨?_, by rw [h.ver]; exact h2, h3⟩
    rcases h.rcv with e | e
    · rw [e]; exact h1
    · exact e

/-- a step that changes neither the session part nor the tables -/
theorem CvMid.of_frame {d : Nat} {st st' : St} (hv : st'.c.version = st.c.version)
    (hr : st'.c.hasReceived = st.c.hasReceived ∨ st'.c.hasReceived = false) (htm : st'.tm = st.tm)
    (hn : CvNet d st.n st'.n) (ht : st'.t = st.t) (hl : st'.ss.lastUpdate = st.ss.lastUpdate) : CvMid d st st' :=
  ⟨hv, hr, htm, hn, fun h => by rw [ht]; exact h, by rw [ht]; exact OthersSame.refl _,
   fun h h0 => by rw [ht]; exact h (by rw [← hl]; exact h0)⟩

/-- `rtr_purge_outdated_records` -/
theorem cv_purgeOutdated_mid (st : St) : CvMid 0 st (purgeOutdated st) := by
  have p := purgeOutdated_spec st
  rcases p.2.2.2 with ⟨e, _⟩ | ⟨_, _, ht, _, hl, _⟩
  · rw [e]; exact CvMid.refl st
  · have pn := purge_noOwn st.t
    refine ⟨by rw [p.1], Or.inl (by rw [p.1]), p.2.1, by rw [p.2.2.1]; exact CvNet.refl _, fun h => ?_, ?_, fun _ _ => ?_⟩
    · rw [ht]; exact pn.2.2 h
    · rw [ht]; exact pn.2.1
    · rw [ht]; exact pn.1

theorem cv_purgeOutdated_req (st : St)
    (h : st.ss.reqSession = true ∨ (st.ss.lastUpdate ≠ 0 ∧ st.ss.lastUpdate + st.tm.expire < st.n.now)) :
    (purgeOutdated st).ss.reqSession = true := by
  rcases (purgeOutdated_spec st).2.2.2 with ⟨e, hn⟩ | ⟨_, _, _, hr, _, _⟩
  · rw [e]
    rcases h with h | h
    · exact h
    · exact absurd h hn
  · exact hr

theorem cv_purgeOutdated_keep (st : St) (h : ¬ (st.ss.lastUpdate ≠ 0 ∧ st.ss.lastUpdate + st.tm.expire < st.n.now)) :
    purgeOutdated st = st := by
  rcases (purgeOutdated_spec st).2.2.2 with ⟨e, _⟩ | ⟨h1, h2, _⟩
  · exact e
  · exact absurd ⟨h1, h2⟩ h

theorem cv_purgeOutdated_state (st : St) : (purgeOutdated st).c = st.c := (purgeOutdated_spec st).1

/-! ## the iterations -/

/-- RTR_ERROR_TRANSPORT / RTR_ERROR_FATAL -/
theorem cv_stepErrClose (st : St) (hs : st.c.state ≠ .shutdown) (hc : st.c.state ≠ .connecting) :
    (stepErrClose st).c.state = .connecting ∧ (stepErrClose st).ss = st.ss ∧ (stepErrClose st).n.openQ = st.n.openQ ∧
    CvMid st.tm.retry st (stepErrClose st) := by
  have e : stepErrClose st = { st with
      c := { st.c with state := .connecting },
      n := { st.n with now := st.n.now + st.tm.retry,
                       trace := s!"Z {st.tm.retry}" :: s!"S {SState.connecting.name} {st.n.now} {st.t.own}" :: "C" :: st.n.trace } } := by
    unfold stepErrClose doSleep St.change changeState trClose Net.emit
    simp only [hs, hc, if_false]
  rw [e]
  exact ⟨rfl, rfl, rfl, CvMid.of_frame rfl (Or.inl rfl) rfl ⟨rfl, rfl, rfl, ⟨0, rfl⟩⟩ rfl rfl⟩

/-- RTR_FAST_RECONNECT -/
theorem cv_stepFastReconnect (st : St) (hs : st.c.state ≠ .shutdown) (hc : st.c.state ≠ .connecting) :
    ((trClose st).change .connecting).c.state = .connecting ∧ ((trClose st).change .connecting).ss = st.ss ∧
    ((trClose st).change .connecting).n.openQ = st.n.openQ ∧ CvMid 0 st ((trClose st).change .connecting) := by
  have e : (trClose st).change .connecting = { st with
      c := { st.c with state := .connecting },
      n := { st.n with trace := s!"S {SState.connecting.name} {st.n.now} {st.t.own}" :: "C" :: st.n.trace } } := by
    unfold St.change changeState trClose Net.emit
    simp only [hs, hc, if_false]
  rw [e]
  exact ⟨rfl, rfl, rfl, CvMid.of_frame rfl (Or.inl rfl) rfl ⟨rfl, by simp, rfl, ⟨0, rfl⟩⟩ rfl rfl⟩

/-- the next `tr_open` succeeds -/
def CvOpenOK (q : List Int) : Prop := ∀ x ∈ q.head?, x ≠ -1

instance (q : List Int) : Decidable (CvOpenOK q) := by unfold CvOpenOK; exact inferInstance

theorem cv_trOpen (st : St) (ho : CvOpenOK st.n.openQ) :
    (trOpen st).1 ≠ -1 ∧ (trOpen st).2.c = st.c ∧ (trOpen st).2.ss = st.ss ∧ (trOpen st).2.tm = st.tm ∧ (trOpen st).2.t = st.t ∧
    (trOpen st).2.n.tape = st.n.tape ∧ (trOpen st).2.n.now = st.n.now ∧ (trOpen st).2.n.sendQ = st.n.sendQ ∧
    (trOpen st).2.n.threaded = st.n.threaded := by
  unfold trOpen
  cases h : st.n.openQ with
  | nil =>
    refine ⟨?_, rfl, rfl, rfl, rfl, rfl, rfl, rfl, rfl⟩
    show (0 : Int) ≠ -1
    decide
  | cons x q =>
    have : x ≠ -1 := ho x (by rw [h]; rfl)
    exact ⟨this, rfl, rfl, rfl, rfl, rfl, rfl, rfl, rfl⟩

/-- what `rtr_fsm_start` does in CONNECTING up to and including `tr_open` -/
def cvOpened (st : St) : St := (trOpen (purgeOutdated (clearReceived st))).2

theorem cv_opened (st : St) (ho : CvOpenOK st.n.openQ) :
    (trOpen (purgeOutdated (clearReceived st))).1 ≠ -1 ∧
    (cvOpened st).c = { st.c with hasReceived := false } ∧
    (cvOpened st).ss = (purgeOutdated (clearReceived st)).ss ∧ (cvOpened st).tm = st.tm ∧
    (cvOpened st).t = (purgeOutdated (clearReceived st)).t ∧
    (cvOpened st).n.tape = st.n.tape ∧ (cvOpened st).n.now = st.n.now ∧ (cvOpened st).n.sendQ = st.n.sendQ ∧
    (cvOpened st).n.threaded = st.n.threaded := by
  have p := purgeOutdated_spec (clearReceived st)
  have hn : (purgeOutdated (clearReceived st)).n = st.n := p.2.2.1
  have o := cv_trOpen (purgeOutdated (clearReceived st)) (by rw [hn]; exact ho)
  unfold cvOpened
  refine ⟨o.1, by rw [o.2.1, p.1]; rfl, o.2.2.1, by rw [o.2.2.2.1, p.2.1]; rfl, o.2.2.2.2.1, ?_, ?_, ?_, ?_⟩
  · rw [o.2.2.2.2.2.1, hn]
  · rw [o.2.2.2.2.2.2.1, hn]
  · rw [o.2.2.2.2.2.2.2.1, hn]
  · rw [o.2.2.2.2.2.2.2.2, hn]

theorem cv_opened_mid (st : St) (ho : CvOpenOK st.n.openQ) : CvMid 0 (purgeOutdated (clearReceived st)) (cvOpened st) := by
  have p := purgeOutdated_spec (clearReceived st)
  have hn : (purgeOutdated (clearReceived st)).n = st.n := p.2.2.1
  have o := cv_trOpen (purgeOutdated (clearReceived st)) (by rw [hn]; exact ho)
  unfold cvOpened
  refine CvMid.of_frame (by rw [o.2.1]) (Or.inl (by rw [o.2.1])) o.2.2.2.1 ?_ o.2.2.2.2.1 (by rw [o.2.2.1])
  exact ⟨o.2.2.2.2.2.1, by rw [o.2.2.2.2.2.2.1]; simp, o.2.2.2.2.2.2.2.2, ⟨0, by rw [o.2.2.2.2.2.2.2.1]; rfl⟩⟩

theorem cv_clearReceived_mid (st : St) : CvMid 0 st (clearReceived st) :=
  CvMid.of_frame rfl (Or.inr rfl) rfl (CvNet.refl _) rfl rfl

/-- the whole of CONNECTING up to and including `tr_open` -/
theorem cv_opened_from (st : St) (ho : CvOpenOK st.n.openQ) : CvMid 0 st (cvOpened st) :=
  ((cv_clearReceived_mid st).trans ((cv_purgeOutdated_mid (clearReceived st)).trans (cv_opened_mid st ho)) : CvMid (0 + (0 + 0)) _ _)

theorem cv_change_rcv (st : St) (s : SState) : (st.change s).c.hasReceived = st.c.hasReceived := by
  unfold St.change
  exact (changeState_conn _ _ _ _).2

theorem CvMid.cast {d d' : Nat} {a b : St} (h : d = d') (m : CvMid d a b) : CvMid d' a b := h ▸ m

theorem cv_change_mid (st : St) (s : SState) : CvMid 0 st (st.change s) :=
  CvMid.of_frame (change_frame st s).2.2.2.1 (Or.inl (cv_change_rcv st s)) (change_frame st s).2.2.1
    (change_rel cvNet0_emitRel st s) (change_frame st s).2.1 (by rw [(change_frame st s).1])

/-- data of this socket older than the expire interval at time `now` -/
def cvExpired (st : St) (now : Int) : Prop := st.ss.lastUpdate ≠ 0 ∧ st.ss.lastUpdate + st.tm.expire < now

/-- CONNECTING when a new session is requested or the data has expired: `open`, then RESET -/
theorem cv_stepConnecting_reset (st : St) (hs : st.c.state = .connecting) (ho : CvOpenOK st.n.openQ)
    (hr : st.ss.reqSession = true ∨ cvExpired st st.n.now) :
    (stepConnecting st).c.state = .reset ∧ (stepConnecting st).c.hasReceived = false ∧
    (stepConnecting st).ss.reqSession = true ∧ CvMid 0 st (stepConnecting st) := by
  have o := cv_opened st ho
  have hq : (cvOpened st).ss.reqSession = true := by
    rw [o.2.2.1]; exact cv_purgeOutdated_req (clearReceived st) hr
  have e : stepConnecting st = (cvOpened st).change .reset := by
    unfold stepConnecting
    have h1 := o.1
    unfold cvOpened at hq ⊢
    generalize trOpen (purgeOutdated (clearReceived st)) = r at h1 hq ⊢
    obtain ⟨rc, st2⟩ := r
    simp only at h1 hq ⊢
    rw [if_neg h1, if_pos hq]
  have hs2 : (cvOpened st).c.state ≠ .shutdown := by rw [o.2.1]; simp only; rw [hs]; decide
  rw [e]
  refine ⟨change_state_eq _ _ hs2, ?_, ?_, ((cv_opened_from st ho).trans (cv_change_mid _ _) : CvMid (0 + 0) _ _)⟩
  · rw [cv_change_rcv, o.2.1]
  · rw [(change_frame _ _).1]; exact hq

/-- CONNECTING with a session and unexpired data: `open`, Serial Query, then SYNC -/
theorem cv_stepConnecting_serial (st : St) (hs : st.c.state = .connecting) (ho : CvOpenOK st.n.openQ)
    (hq : NoFail st.n.sendQ) (hr : st.ss.reqSession = false) (hx : ¬ cvExpired st st.n.now) :
    (stepConnecting st).c.state = .sync ∧ (stepConnecting st).c.hasReceived = false ∧
    (stepConnecting st).ss = st.ss ∧ (stepConnecting st).t = st.t ∧ CvMid 0 st (stepConnecting st) := by
  have o := cv_opened st ho
  have hk : purgeOutdated (clearReceived st) = clearReceived st := cv_purgeOutdated_keep (clearReceived st) hx
  have hss : (cvOpened st).ss = st.ss := by rw [o.2.2.1, hk]; rfl
  have ht : (cvOpened st).t = st.t := by rw [o.2.2.2.2.1, hk]; rfl
  have hs2 : (cvOpened st).c.state ≠ .shutdown := by rw [o.2.1]; simp only; rw [hs]; decide
  have hq2 : NoFail (cvOpened st).n.sendQ := by rw [o.2.2.2.2.2.2.2.1]; exact hq
  obtain ⟨e1, n1⟩ := cv_sendSerialQuery_ok (cvOpened st) hs2 hq2
  have hreq : ¬ ((cvOpened st).ss.reqSession = true) := by rw [hss, hr]; decide
  have e : stepConnecting st = ({ cvOpened st with n := (sendSerialQuery (cvOpened st)).2.n } : St).change .sync := by
    unfold stepConnecting
    have h1 := o.1
    unfold cvOpened at hreq e1 ⊢
    generalize trOpen (purgeOutdated (clearReceived st)) = r at h1 hreq e1 ⊢
    obtain ⟨rc, st2⟩ := r
    simp only at h1 hreq e1 ⊢
    rw [if_neg h1, if_neg hreq, e1]
    simp only [if_true]
  have m1 : CvMid 0 (cvOpened st) ({ cvOpened st with n := (sendSerialQuery (cvOpened st)).2.n } : St) :=
    CvMid.of_frame rfl (Or.inl rfl) rfl n1 rfl rfl
  rw [e]
  refine ⟨change_state_eq _ _ hs2, ?_, ?_, ?_,
    ((cv_opened_from st ho).trans (m1.trans (cv_change_mid _ _)) : CvMid (0 + (0 + 0)) _ _)⟩
  · rw [cv_change_rcv]; show (cvOpened st).c.hasReceived = false; rw [o.2.1]
  · rw [(change_frame _ _).1]; exact hss
  · rw [(change_frame _ _).2.1]; exact ht

/-- RESET: the Reset Query is sent, then SYNC -/
theorem cv_stepReset (st : St) (hs : st.c.state = .reset) (hq : NoFail st.n.sendQ) :
    (stepReset st).c.state = .sync ∧ (stepReset st).ss = st.ss ∧ CvMid 0 st (stepReset st) := by
  have hs0 : st.c.state ≠ .shutdown := by rw [hs]; decide
  obtain ⟨e1, n1⟩ := cv_sendResetQuery_ok st hs0 hq
  have e : stepReset st = ({ st with n := (sendResetQuery st).2.n } : St).change .sync := by
    unfold stepReset
    rw [e1]
    simp only [if_true]
  have m1 : CvMid 0 st ({ st with n := (sendResetQuery st).2.n } : St) :=
    CvMid.of_frame rfl (Or.inl rfl) rfl n1 rfl rfl
  rw [e]
  exact ⟨change_state_eq _ _ hs0, (change_frame _ _).1, (m1.trans (cv_change_mid _ _) : CvMid (0 + 0) _ _)⟩

theorem cv_requestReset_mid (st : St) : CvMid 0 st (requestReset st) :=
  CvMid.of_frame rfl (Or.inl rfl) rfl (CvNet.refl _) rfl rfl

theorem cv_doSleep_mid (st : St) (k : Nat) : CvMid k st (doSleep st k) :=
  CvMid.of_frame rfl (Or.inl rfl) rfl ⟨rfl, rfl, rfl, ⟨0, rfl⟩⟩ rfl rfl

/-- RTR_ERROR_NO_DATA_AVAIL: new session requested, RESET, sleep -/
theorem cv_stepErrNoData (st : St) (hs : st.c.state ≠ .shutdown) :
    (stepErrNoData st).c.state = .reset ∧ (stepErrNoData st).ss.reqSession = true ∧ CvMid st.tm.retry st (stepErrNoData st) := by
  have sp := stepErrNoData_spec st hs
  refine ⟨sp.1, sp.2.1, ?_⟩
  unfold stepErrNoData
  have htm : ((requestReset st).change .reset).tm.retry = st.tm.retry := by rw [change_tm]; rfl
  rw [htm]
  exact CvMid.cast (by omega)
    ((cv_requestReset_mid st).trans ((cv_change_mid _ .reset).trans ((cv_doSleep_mid _ _).trans (cv_purgeOutdated_mid _))))

/-- RTR_ERROR_NO_INCR_UPDATE_AVAIL: new session requested, RESET -/
theorem cv_stepErrNoIncr (st : St) (hs : st.c.state ≠ .shutdown) :
    (stepErrNoIncr st).c.state = .reset ∧ (stepErrNoIncr st).ss.reqSession = true ∧ CvMid 0 st (stepErrNoIncr st) := by
  have sp := requestReset_spec st hs
  refine ⟨sp.1, sp.2.1, ?_⟩
  unfold stepErrNoIncr
  exact (((cv_requestReset_mid st).trans ((cv_change_mid _ _).trans (cv_purgeOutdated_mid _))) : CvMid (0 + (0 + 0)) _ _)

end Rtr.P
