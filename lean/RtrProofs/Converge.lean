/-
  Converge: the convergence half of C08 on the model.  Completeness of `rtr_sync` for the answer
  to a Reset Query and to a Serial Query, stated on the data, and the runs of the state machine
  that lead from the error states, CONNECTING and RESET to ESTABLISHED when the environment is
  good (open and send succeed, the tape holds the cache's answer).  Final statements:
  RtrProps/C08b.lean.

  Helper files: ConvergeRecv (completeness of rtr_receive_pdu), ConvergeTables (completeness of the
  apply loops), ConvergePdu (the PDUs a cache sends), ConvergeSync (completeness of rtr_sync),
  ConvergeAnswer (answers as data), ConvergeFsm (the iterations before SYNC).
-/
import RtrProofs.ConvergeFsm

namespace Rtr.P

/-! ## `rtr_sync` on the answer to a Reset Query -/

theorem cv_mem_split (recs : List Rec) (b : Bool) (x : Rec) :
    (b, x) ∈ (recs.filter fun r => !r.v6).map (fun r => (true, r)) ++ (recs.filter fun r => r.v6).map (fun r => (true, r)) ↔
      (b = true ∧ x ∈ recs) := by
  simp only [List.mem_append, List.mem_map, List.mem_filter, Prod.mk.injEq]
  constructor
  · rintro (⟨r, ⟨hr, _⟩, rfl, rfl⟩ | ⟨r, ⟨hr, _⟩, rfl, rfl⟩) <;> exact ⟨rfl, hr⟩
  · rintro ⟨rfl, hx⟩
    cases h : x.v6
    · exact Or.inl ⟨x, ⟨hx, by simp [h]⟩, rfl, rfl⟩
    · exact Or.inr ⟨x, ⟨hx, h⟩, rfl, rfl⟩

/-- **completeness of `rtr_sync` for the answer to a Reset Query** (helper form; the statement of
    RtrProps/C08b.lean `sync_complete_reset` is derived from it) -/
theorem cv_sync_reset (fuel : Nat) (st : St) (ver sess serial : Nat) (iv : CvIvals) (recs : List Rec) (keys : List KeyRec)
    (rest : List Nat) (hfuel : recs.length + keys.length < fuel) (hs : st.c.state ≠ .shutdown) (hver : CvVer st.c ver)
    (hv : ver ≤ 1) (ht : TblOK st.t) (hi : st.ss.lastUpdate = 0 → NoOwn st.t) (hr : st.ss.reqSession = true)
    (hsess : sess < 65536) (hrok : ∀ r ∈ recs, cvRecOK r) (hkok : ∀ k ∈ keys, cvKeyOK k) (hrn : recs.Nodup) (hkn : keys.Nodup)
    (htape : CvTape st.n (cvAnswer ver sess serial iv (cvResetItems recs keys) ++ rest)) :
    ∃ pt' kt' n' g, CvTape n' rest ∧ CvRecvd st.n n' ∧
      syncG fuel st = (true, cvSynced st ver sess (cvEndOfData ver sess serial iv) pt' kt' n', some g) ∧
      pt'.Nodup ∧ kt'.Nodup ∧
      (∀ x, x ∈ pt' ↔ (x ∈ recs ∨ (x ∈ st.t.pt ∧ x.src ≠ 0))) ∧
      (∀ x, x ∈ kt' ↔ (x ∈ keys ∨ (x ∈ st.t.kt ∧ x.src ≠ 0))) := by
  obtain ⟨o4, o6, ok⟩ := cv_resetItems_ops recs keys
  obtain ⟨bp, bk⟩ := cv_base_mem st hi hr
  have hops : cvPfxOps (cvResetItems recs keys) =
      (recs.filter fun r => !r.v6).map (fun r => (true, r)) ++ (recs.filter fun r => r.v6).map (fun r => (true, r)) := by
    unfold cvPfxOps; rw [o4, o6]
  have hitems : ∀ i ∈ cvResetItems recs keys, i.OK := by
    intro i hi'
    unfold cvResetItems at hi'
    rcases List.mem_append.1 hi' with h | h
    · obtain ⟨r, hr', rfl⟩ := List.mem_map.1 h
      exact hrok r hr'
    · obtain ⟨k, hk', rfl⟩ := List.mem_map.1 h
      exact hkok k hk'
  have hnp : ((cvPfxOps (cvResetItems recs keys)).map Prod.snd).Nodup := by
    rw [hops, List.map_append, List.map_map, List.map_map]
    have : (Prod.snd ∘ fun (r : Rec) => (true, r)) = id := rfl
    rw [this, List.map_id, List.map_id]
    exact cv_nodup_split recs (fun r => r.v6) hrn
  have hnk : ((cvKeyOps (cvResetItems recs keys)).map Prod.snd).Nodup := by
    rw [ok, List.map_map]
    have : (Prod.snd ∘ fun (k : KeyRec) => (true, k)) = id := rfl
    rw [this, List.map_id]
    exact hkn
  have hcp : ∀ op ∈ cvPfxOps (cvResetItems recs keys), (op.1 = true ↔ op.2 ∉ (baseOf st.t (resettingAfter st.ss)).pt) := by
    intro op hop
    obtain ⟨b, x⟩ := op
    rw [hops] at hop
    obtain ⟨hb, hx⟩ := (cv_mem_split recs b x).1 hop
    simp only [hb, true_iff]
    intro hm
    exact ((bp x).1 hm).2 (hrok x hx).1
  have hck : ∀ op ∈ cvKeyOps (cvResetItems recs keys), (op.1 = true ↔ op.2 ∉ (baseOf st.t (resettingAfter st.ss)).kt) := by
    intro op hop
    obtain ⟨b, x⟩ := op
    rw [ok] at hop
    obtain ⟨k, hk, e⟩ := List.mem_map.1 hop
    simp only [Prod.mk.injEq] at e
    obtain ⟨rfl, rfl⟩ := e
    simp only [true_iff]
    intro hm
    exact ((bk k).1 hm).2 (hkok k hk).1
  have hlen : (cvResetItems recs keys).length < fuel := by
    unfold cvResetItems; rw [List.length_append, List.length_map, List.length_map]; exact hfuel
  obtain ⟨pt', kt', n', g, t', s', e, np, nk, mp, mk⟩ := cv_sync_items fuel st ver sess serial iv (cvResetItems recs keys) rest
    hlen hs hver hv ht hsess (Or.inl hr) hitems hnp hnk hcp hck htape
  refine ⟨pt', kt', n', g, t', s', e, np, nk, fun x => ?_, fun x => ?_⟩
  · rw [mp x, hops, cv_mem_split, cv_mem_split, bp x]
    simp
  · rw [mk x, ok, bk x]
    simp

/-! ## `rtr_sync` on the answer to a Serial Query -/

/-- **completeness of `rtr_sync` for the answer to a Serial Query** (helper form) -/
theorem cv_sync_serial (fuel : Nat) (st : St) (ver sess serial : Nat) (iv : CvIvals) (items : List CvItem) (rest : List Nat)
    (hfuel : items.length < fuel) (hs : st.c.state ≠ .shutdown) (hver : CvVer st.c ver) (hv : ver ≤ 1)
    (ht : TblOK st.t) (hr : st.ss.reqSession = false) (hres : st.ss.isResetting = false)
    (hse : st.ss.session = sess) (hsess : sess < 65536) (hok : ∀ i ∈ items, i.OK)
    (hnp : ((cvPfxOps items).map Prod.snd).Nodup) (hnk : ((cvKeyOps items).map Prod.snd).Nodup)
    (hcp : ∀ op ∈ cvPfxOps items, (op.1 = true ↔ op.2 ∉ st.t.pt))
    (hck : ∀ op ∈ cvKeyOps items, (op.1 = true ↔ op.2 ∉ st.t.kt))
    (htape : CvTape st.n (cvAnswer ver sess serial iv items ++ rest)) :
    ∃ pt' kt' n' g, CvTape n' rest ∧ CvRecvd st.n n' ∧
      syncG fuel st = (true, cvSynced st ver sess (cvEndOfData ver sess serial iv) pt' kt' n', some g) ∧
      pt'.Nodup ∧ kt'.Nodup ∧
      (∀ x, x ∈ pt' ↔ ((true, x) ∈ cvPfxOps items ∨ (x ∈ st.t.pt ∧ (false, x) ∉ cvPfxOps items))) ∧
      (∀ x, x ∈ kt' ↔ ((true, x) ∈ cvKeyOps items ∨ (x ∈ st.t.kt ∧ (false, x) ∉ cvKeyOps items))) := by
  have hb : baseOf st.t (resettingAfter st.ss) = ⟨st.t.pt, st.t.kt⟩ := by
    unfold resettingAfter baseOf
    rw [hr, hres]
    simp
  have hcp' : ∀ op ∈ cvPfxOps items, (op.1 = true ↔ op.2 ∉ (baseOf st.t (resettingAfter st.ss)).pt) := by
    rw [hb]; exact hcp
  have hck' : ∀ op ∈ cvKeyOps items, (op.1 = true ↔ op.2 ∉ (baseOf st.t (resettingAfter st.ss)).kt) := by
    rw [hb]; exact hck
  obtain ⟨pt', kt', n', g, t', s', e, np, nk, mp, mk⟩ := cv_sync_items fuel st ver sess serial iv items rest
    hfuel hs hver hv ht hsess (Or.inr hse) hok hnp hnk hcp' hck' htape
  rw [hb] at mp mk
  exact ⟨pt', kt', n', g, t', s', e, np, nk, mp, mk⟩

/-! ## runs of the state machine -/

/-- `k` consecutive iterations of `rtr_fsm_start` lead from `st` to `st'` -/
inductive CvRun (fuel : Nat) : Nat → St → St → Prop
  | nil (st : St) : CvRun fuel 0 st st
  | cons {k : Nat} {st st1 st2 : St} : fsmStep fuel st = some st1 → CvRun fuel k st1 st2 → CvRun fuel (k + 1) st st2

theorem CvRun.one {fuel : Nat} {st st1 : St} (h : fsmStep fuel st = some st1) : CvRun fuel 1 st st1 :=
  .cons h (.nil _)

theorem CvRun.snoc {fuel k : Nat} {st st1 st2 : St} (r : CvRun fuel k st st1) (h : fsmStep fuel st1 = some st2) :
    CvRun fuel (k + 1) st st2 := by
  induction r with
  | nil st => exact .one h
  | cons h0 _ ih => exact .cons h0 (ih h)

/-- the run as a function (the machine is deterministic): the state after `k` iterations, `none` if
    the thread has exited before -/
def cvIter (fuel : Nat) : Nat → St → Option St
  | 0, st => some st
  | k + 1, st => match fsmStep fuel st with
    | some st1 => cvIter fuel k st1
    | none => none

theorem cvIter_iff (fuel : Nat) : ∀ (k : Nat) (st st' : St), cvIter fuel k st = some st' ↔ CvRun fuel k st st' := by
  intro k
  induction k with
  | zero =>
    intro st st'
    constructor
    · intro h
      simp only [cvIter, Option.some.injEq] at h
      subst h
      exact .nil _
    · intro h
      cases h
      rfl
  | succ k ih =>
    intro st st'
    constructor
    · intro h
      simp only [cvIter] at h
      split at h
      · rename_i st1 hs
        exact .cons hs ((ih st1 st').1 h)
      · cases h
    · intro h
      cases h with
      | cons hs r =>
        simp only [cvIter, hs]
        exact (ih _ st').2 r

theorem cv_reach_prepend {fuel : Nat} {a b : St} (rab : Reach fuel a b) :
    ∀ {z : St}, fsmStep fuel z = some a → Reach fuel z b := by
  induction rab with
  | refl => intro z hz; exact Reach.step (Reach.refl z) hz
  | step _ hs ih' => intro z hz; exact Reach.step (ih' hz) hs

/-- a run is a `Reach` (RtrProofs/Fsm.lean), so the invariants proved for `Reach` apply -/
theorem CvRun.reach {fuel k : Nat} {st st' : St} (r : CvRun fuel k st st') : Reach fuel st st' := by
  induction r with
  | nil st => exact Reach.refl st
  | cons h _ ih => exact cv_reach_prepend ih h

/-- the socket has arrived in SYNC after `k` iterations and `d` seconds -/
structure CvAtSync (fuel ver k d : Nat) (st st1 : St) : Prop where
  run : CvRun fuel k st st1
  state : st1.c.state = .sync
  mid : CvMid d st st1
  ver : CvVer st1.c ver

/-! ### towards a Reset Query -/

theorem cv_from_reset (fuel ver : Nat) (st : St) (hs : st.c.state = .reset) (hq : NoFail st.n.sendQ)
    (hr : st.ss.reqSession = true) (hver : CvVer st.c ver) :
    ∃ st1, CvAtSync fuel ver 1 0 st st1 ∧ st1.ss.reqSession = true := by
  obtain ⟨h1, h2, h3⟩ := cv_stepReset st hs hq
  exact ⟨stepReset st, ⟨.one (by rw [fsmStep_eq, hs]), h1, h3, h3.cvVer hver⟩, by rw [h2]; exact hr⟩

theorem cv_from_connecting_reset (fuel ver : Nat) (st : St) (hs : st.c.state = .connecting) (ho : CvOpenOK st.n.openQ)
    (hq : NoFail st.n.sendQ) (hr : st.ss.reqSession = true ∨ cvExpired st st.n.now)
    (hver : ver = st.c.version ∨ (st.c.version = 1 ∧ ver = 0)) :
    ∃ st1, CvAtSync fuel ver 2 0 st st1 ∧ st1.ss.reqSession = true := by
  obtain ⟨h1, h2, h3, h4⟩ := cv_stepConnecting_reset st hs ho hr
  have hv1 : CvVer (stepConnecting st).c ver := by
    rcases hver with h | ⟨h, h'⟩
    · exact Or.inl (by rw [h4.ver]; exact h)
    · exact Or.inr ⟨h2, by rw [h4.ver]; exact h, h'⟩
  obtain ⟨st1, a, r⟩ := cv_from_reset fuel ver (stepConnecting st) h1 (h4.net.noFail hq) h3 hv1
  exact ⟨st1, ⟨.cons (by rw [fsmStep_eq, hs]) a.run, a.state, (h4.trans a.mid : CvMid (0 + 0) _ _), a.ver⟩, r⟩

/-- the socket will send a Reset Query: ERROR_NO_DATA_AVAIL and ERROR_NO_INCR_UPDATE_AVAIL request a
    new session themselves; otherwise a new session is requested already, or the data will have
    expired when the socket connects (after the retry sleep of ERROR_TRANSPORT / ERROR_FATAL) -/
def cvSendsReset (st : St) : Prop :=
  match st.c.state with
  | .errNoData => True
  | .errNoIncr => True
  | .reset => st.ss.reqSession = true
  | .connecting => st.ss.reqSession = true ∨ cvExpired st st.n.now
  | .fastReconnect => st.ss.reqSession = true ∨ cvExpired st st.n.now
  | .errTransport => st.ss.reqSession = true ∨ cvExpired st (st.n.now + st.tm.retry)
  | .errFatal => st.ss.reqSession = true ∨ cvExpired st (st.n.now + st.tm.retry)
  | _ => False

/-- the states from which the socket closes the transport and connects anew -/
def cvReconnects : SState → Bool
  | .errTransport => true
  | .errFatal => true
  | .fastReconnect => true
  | .connecting => true
  | _ => false

/-- the cache may answer in version `ver`: the version the socket speaks, or version 0 to a socket
    that speaks version 1 and will see the answer as the first PDU of a connection (live downgrade) -/
def CvVerFrom (st : St) (ver : Nat) : Prop :=
  ver = st.c.version ∨ (st.c.version = 1 ∧ ver = 0 ∧ (st.c.hasReceived = false ∨ cvReconnects st.c.state = true))

theorem cv_expired_congr {a b : St} {t : Int} (h1 : b.ss = a.ss) (h2 : b.tm = a.tm) (h : cvExpired a t) : cvExpired b t := by
  unfold cvExpired at *
  rw [h1, h2]; exact h

/-- **from every state of the recovery path to SYNC with a Reset Query sent**: at most 3 iterations,
    0 or `retry_interval` seconds -/
theorem cv_to_sync_reset (fuel ver : Nat) (st : St) (ho : CvOpenOK st.n.openQ) (hq : NoFail st.n.sendQ)
    (hsr : cvSendsReset st) (hver : CvVerFrom st ver) :
    ∃ k d st1, k ≤ 3 ∧ (d = 0 ∨ d = st.tm.retry) ∧ CvAtSync fuel ver k d st st1 ∧ st1.ss.reqSession = true := by
  unfold cvSendsReset at hsr
  unfold CvVerFrom at hver
  cases hs : st.c.state <;> rw [hs] at hsr hver <;> simp only [cvReconnects] at hsr hver
  · -- CONNECTING
    have hv' : ver = st.c.version ∨ (st.c.version = 1 ∧ ver = 0) := by
      rcases hver with h | ⟨h1, h2, _⟩
      · exact Or.inl h
      · exact Or.inr ⟨h1, h2⟩
    obtain ⟨st1, a, r⟩ := cv_from_connecting_reset fuel ver st hs ho hq hsr hv'
    exact ⟨2, 0, st1, by omega, Or.inl rfl, a, r⟩
  · -- RESET
    have hv' : CvVer st.c ver := by
      rcases hver with h | ⟨h1, h2, h3⟩
      · exact Or.inl h
      · rcases h3 with h3 | h3
        · exact Or.inr ⟨h3, h1, h2⟩
        · cases h3
    obtain ⟨st1, a, r⟩ := cv_from_reset fuel ver st hs hq hsr hv'
    exact ⟨1, 0, st1, by omega, Or.inl rfl, a, r⟩
  · -- FAST_RECONNECT
    have hs0 : st.c.state ≠ .shutdown := by rw [hs]; decide
    have hc0 : st.c.state ≠ .connecting := by rw [hs]; decide
    obtain ⟨f1, f2, f3, f4⟩ := cv_stepFastReconnect st hs0 hc0
    have hv' : ver = ((trClose st).change .connecting).c.version ∨ (((trClose st).change .connecting).c.version = 1 ∧ ver = 0) := by
      rw [f4.ver]
      rcases hver with h | ⟨h1, h2, _⟩
      · exact Or.inl h
      · exact Or.inr ⟨h1, h2⟩
    have hr' : ((trClose st).change .connecting).ss.reqSession = true ∨
        cvExpired ((trClose st).change .connecting) ((trClose st).change .connecting).n.now := by
      rcases hsr with h | h
      · exact Or.inl (by rw [f2]; exact h)
      · refine Or.inr (cv_expired_congr f2 f4.tm ?_)
        rw [f4.net.now]; simpa using h
    obtain ⟨st1, a, r⟩ := cv_from_connecting_reset fuel ver _ f1 (by rw [f3]; exact ho) (f4.net.noFail hq) hr' hv'
    exact ⟨3, 0, st1, by omega, Or.inl rfl,
      ⟨.cons (by rw [fsmStep_eq, hs]) a.run, a.state, (f4.trans a.mid : CvMid (0 + 0) _ _), a.ver⟩, r⟩
  · -- ERROR_NO_DATA_AVAIL
    have hs0 : st.c.state ≠ .shutdown := by rw [hs]; decide
    obtain ⟨f1, f2, f3⟩ := cv_stepErrNoData st hs0
    have hv' : CvVer st.c ver := by
      rcases hver with h | ⟨h1, h2, h3⟩
      · exact Or.inl h
      · rcases h3 with h3 | h3
        · exact Or.inr ⟨h3, h1, h2⟩
        · cases h3
    obtain ⟨st1, a, r⟩ := cv_from_reset fuel ver _ f1 (f3.net.noFail hq) f2 (f3.cvVer hv')
    exact ⟨2, st.tm.retry, st1, by omega, Or.inr rfl,
      ⟨.cons (by rw [fsmStep_eq, hs]) a.run, a.state, CvMid.cast (by omega) (f3.trans a.mid), a.ver⟩, r⟩
  · -- ERROR_NO_INCR_UPDATE_AVAIL
    have hs0 : st.c.state ≠ .shutdown := by rw [hs]; decide
    obtain ⟨f1, f2, f3⟩ := cv_stepErrNoIncr st hs0
    have hv' : CvVer st.c ver := by
      rcases hver with h | ⟨h1, h2, h3⟩
      · exact Or.inl h
      · rcases h3 with h3 | h3
        · exact Or.inr ⟨h3, h1, h2⟩
        · cases h3
    obtain ⟨st1, a, r⟩ := cv_from_reset fuel ver _ f1 (f3.net.noFail hq) f2 (f3.cvVer hv')
    exact ⟨2, 0, st1, by omega, Or.inl rfl,
      ⟨.cons (by rw [fsmStep_eq, hs]) a.run, a.state, (f3.trans a.mid : CvMid (0 + 0) _ _), a.ver⟩, r⟩
  · -- ERROR_FATAL
    have hs0 : st.c.state ≠ .shutdown := by rw [hs]; decide
    have hc0 : st.c.state ≠ .connecting := by rw [hs]; decide
    obtain ⟨f1, f2, f3, f4⟩ := cv_stepErrClose st hs0 hc0
    have hv' : ver = (stepErrClose st).c.version ∨ ((stepErrClose st).c.version = 1 ∧ ver = 0) := by
      rw [f4.ver]
      rcases hver with h | ⟨h1, h2, _⟩
      · exact Or.inl h
      · exact Or.inr ⟨h1, h2⟩
    have hr' : (stepErrClose st).ss.reqSession = true ∨ cvExpired (stepErrClose st) (stepErrClose st).n.now := by
      rcases hsr with h | h
      · exact Or.inl (by rw [f2]; exact h)
      · refine Or.inr (cv_expired_congr f2 f4.tm ?_)
        rw [f4.net.now]; exact h
    obtain ⟨st1, a, r⟩ := cv_from_connecting_reset fuel ver _ f1 (by rw [f3]; exact ho) (f4.net.noFail hq) hr' hv'
    exact ⟨3, st.tm.retry, st1, by omega, Or.inr rfl,
      ⟨.cons (by rw [fsmStep_eq, hs]) a.run, a.state, CvMid.cast (by omega) (f4.trans a.mid), a.ver⟩, r⟩
  · -- ERROR_TRANSPORT
    have hs0 : st.c.state ≠ .shutdown := by rw [hs]; decide
    have hc0 : st.c.state ≠ .connecting := by rw [hs]; decide
    obtain ⟨f1, f2, f3, f4⟩ := cv_stepErrClose st hs0 hc0
    have hv' : ver = (stepErrClose st).c.version ∨ ((stepErrClose st).c.version = 1 ∧ ver = 0) := by
      rw [f4.ver]
      rcases hver with h | ⟨h1, h2, _⟩
      · exact Or.inl h
      · exact Or.inr ⟨h1, h2⟩
    have hr' : (stepErrClose st).ss.reqSession = true ∨ cvExpired (stepErrClose st) (stepErrClose st).n.now := by
      rcases hsr with h | h
      · exact Or.inl (by rw [f2]; exact h)
      · refine Or.inr (cv_expired_congr f2 f4.tm ?_)
        rw [f4.net.now]; exact h
    obtain ⟨st1, a, r⟩ := cv_from_connecting_reset fuel ver _ f1 (by rw [f3]; exact ho) (f4.net.noFail hq) hr' hv'
    exact ⟨3, st.tm.retry, st1, by omega, Or.inr rfl,
      ⟨.cons (by rw [fsmStep_eq, hs]) a.run, a.state, CvMid.cast (by omega) (f4.trans a.mid), a.ver⟩, r⟩

/-! ### towards a Serial Query -/

theorem cv_from_connecting_serial (fuel ver : Nat) (st : St) (hs : st.c.state = .connecting) (ho : CvOpenOK st.n.openQ)
    (hq : NoFail st.n.sendQ) (hr : st.ss.reqSession = false) (hx : ¬ cvExpired st st.n.now)
    (hver : ver = st.c.version ∨ (st.c.version = 1 ∧ ver = 0)) :
    ∃ st1, CvAtSync fuel ver 1 0 st st1 ∧ st1.ss = st.ss ∧ st1.t = st.t := by
  obtain ⟨h1, h2, h3, h4, h5⟩ := cv_stepConnecting_serial st hs ho hq hr hx
  have hv1 : CvVer (stepConnecting st).c ver := by
    rcases hver with h | ⟨h, h'⟩
    · exact Or.inl (by rw [h5.ver]; exact h)
    · exact Or.inr ⟨h2, by rw [h5.ver]; exact h, h'⟩
  exact ⟨stepConnecting st, ⟨.one (by rw [fsmStep_eq, hs]), h1, h5, hv1⟩, h3, h4⟩

/-- the socket will send a Serial Query: it has a session, and its data will not have expired when
    it connects -/
def cvSendsSerial (st : St) : Prop :=
  match st.c.state with
  | .connecting => st.ss.reqSession = false ∧ ¬ cvExpired st st.n.now
  | .fastReconnect => st.ss.reqSession = false ∧ ¬ cvExpired st st.n.now
  | .errTransport => st.ss.reqSession = false ∧ ¬ cvExpired st (st.n.now + st.tm.retry)
  | .errFatal => st.ss.reqSession = false ∧ ¬ cvExpired st (st.n.now + st.tm.retry)
  | _ => False

/-- **from ERROR_TRANSPORT / ERROR_FATAL / FAST_RECONNECT / CONNECTING to SYNC with a Serial Query
    sent**: at most 2 iterations, 0 or `retry_interval` seconds; session part and tables unchanged -/
theorem cv_to_sync_serial (fuel ver : Nat) (st : St) (ho : CvOpenOK st.n.openQ) (hq : NoFail st.n.sendQ)
    (hss : cvSendsSerial st) (hver : ver = st.c.version ∨ (st.c.version = 1 ∧ ver = 0)) :
    ∃ k d st1, k ≤ 2 ∧ (d = 0 ∨ d = st.tm.retry) ∧ CvAtSync fuel ver k d st st1 ∧ st1.ss = st.ss ∧ st1.t = st.t := by
  unfold cvSendsSerial at hss
  cases hs : st.c.state <;> rw [hs] at hss <;> simp only at hss
  · -- CONNECTING
    obtain ⟨st1, a, r1, r2⟩ := cv_from_connecting_serial fuel ver st hs ho hq hss.1 hss.2 hver
    exact ⟨1, 0, st1, by omega, Or.inl rfl, a, r1, r2⟩
  · -- FAST_RECONNECT
    have hs0 : st.c.state ≠ .shutdown := by rw [hs]; decide
    have hc0 : st.c.state ≠ .connecting := by rw [hs]; decide
    obtain ⟨f1, f2, f3, f4⟩ := cv_stepFastReconnect st hs0 hc0
    have ft : ((trClose st).change .connecting).t = st.t := (change_frame _ _).2.1
    have hx' : ¬ cvExpired ((trClose st).change .connecting) ((trClose st).change .connecting).n.now := by
      intro h
      apply hss.2
      have := cv_expired_congr (a := (trClose st).change .connecting) (b := st) f2.symm f4.tm.symm h
      rw [f4.net.now] at this; simpa using this
    obtain ⟨st1, a, r1, r2⟩ := cv_from_connecting_serial fuel ver _ f1 (by rw [f3]; exact ho) (f4.net.noFail hq)
      (by rw [f2]; exact hss.1) hx' (by rw [f4.ver]; exact hver)
    exact ⟨2, 0, st1, by omega, Or.inl rfl,
      ⟨.cons (by rw [fsmStep_eq, hs]) a.run, a.state, (f4.trans a.mid : CvMid (0 + 0) _ _), a.ver⟩, r1.trans f2, r2.trans ft⟩
  · -- ERROR_FATAL
    have hs0 : st.c.state ≠ .shutdown := by rw [hs]; decide
    have hc0 : st.c.state ≠ .connecting := by rw [hs]; decide
    obtain ⟨f1, f2, f3, f4⟩ := cv_stepErrClose st hs0 hc0
    have ft : (stepErrClose st).t = st.t := (stepErrClose_spec st hs0 hc0).2.2.2.1
    have hx' : ¬ cvExpired (stepErrClose st) (stepErrClose st).n.now := by
      intro h
      apply hss.2
      have := cv_expired_congr (a := stepErrClose st) (b := st) f2.symm f4.tm.symm h
      rw [f4.net.now] at this; exact this
    obtain ⟨st1, a, r1, r2⟩ := cv_from_connecting_serial fuel ver _ f1 (by rw [f3]; exact ho) (f4.net.noFail hq)
      (by rw [f2]; exact hss.1) hx' (by rw [f4.ver]; exact hver)
    exact ⟨2, st.tm.retry, st1, by omega, Or.inr rfl,
      ⟨.cons (by rw [fsmStep_eq, hs]) a.run, a.state, CvMid.cast (by omega) (f4.trans a.mid), a.ver⟩, r1.trans f2, r2.trans ft⟩
  · -- ERROR_TRANSPORT
    have hs0 : st.c.state ≠ .shutdown := by rw [hs]; decide
    have hc0 : st.c.state ≠ .connecting := by rw [hs]; decide
    obtain ⟨f1, f2, f3, f4⟩ := cv_stepErrClose st hs0 hc0
    have ft : (stepErrClose st).t = st.t := (stepErrClose_spec st hs0 hc0).2.2.2.1
    have hx' : ¬ cvExpired (stepErrClose st) (stepErrClose st).n.now := by
      intro h
      apply hss.2
      have := cv_expired_congr (a := stepErrClose st) (b := st) f2.symm f4.tm.symm h
      rw [f4.net.now] at this; exact this
    obtain ⟨st1, a, r1, r2⟩ := cv_from_connecting_serial fuel ver _ f1 (by rw [f3]; exact ho) (f4.net.noFail hq)
      (by rw [f2]; exact hss.1) hx' (by rw [f4.ver]; exact hver)
    exact ⟨2, st.tm.retry, st1, by omega, Or.inr rfl,
      ⟨.cons (by rw [fsmStep_eq, hs]) a.run, a.state, CvMid.cast (by omega) (f4.trans a.mid), a.ver⟩, r1.trans f2, r2.trans ft⟩

/-! ### SYNC to ESTABLISHED -/

theorem cv_fsmStep_sync (fuel : Nat) (st st2 : St) (g : Option (List Nat × Buffered)) (hs : st.c.state = .sync)
    (e : syncG fuel st = (true, st2, g)) : fsmStep fuel st = some (st2.change .established) := by
  rw [fsmStep_eq, hs]
  simp only
  unfold stepSync
  rw [e]
  simp only [if_true]

/-- the socket state after the synchronisation and the change to ESTABLISHED, as seen from the first
    state `st` of a run that took `d` seconds to reach SYNC -/
structure CvDone (st st' : St) (ver sess serial : Nat) (iv : CvIvals) (d : Nat) (rest : List Nat) : Prop where
  state : st'.c.state = .established
  version : st'.c.version = ver
  tblok : TblOK st'.t
  ss : st'.ss = { session := sess, serial := serial, reqSession := false, lastUpdate := st.n.now + d, isResetting := false }
  tm : st'.tm = applyEodIntervals st.tm (cvEndOfData ver sess serial iv)
  now : st'.n.now = st.n.now + d
  tape : CvTape st'.n rest
  send : NoFail st.n.sendQ → NoFail st'.n.sendQ

/-- the last iteration: `rtr_sync` has succeeded with result `cvSynced …`, the state becomes ESTABLISHED -/
theorem cv_finish (fuel ver k d : Nat) (st st1 : St) (a : CvAtSync fuel ver k d st st1) (sess serial : Nat) (iv : CvIvals)
    (pt' : List Rec) (kt' : List KeyRec) (n' : Net) (g : Option (List Nat × Buffered)) (rest : List Nat)
    (hserial : serial < 4294967296) (np : pt'.Nodup) (nk : kt'.Nodup) (t' : CvTape n' rest) (s' : CvRecvd st1.n n')
    (e : syncG fuel st1 = (true, cvSynced st1 ver sess (cvEndOfData ver sess serial iv) pt' kt' n', g)) :
    ∃ st', CvRun fuel (k + 1) st st' ∧ CvDone st st' ver sess serial iv d rest ∧ st'.t = ⟨pt', kt', none⟩ := by
  have hstep := cv_fsmStep_sync fuel st1 _ g a.state e
  have hs2 : (cvSynced st1 ver sess (cvEndOfData ver sess serial iv) pt' kt' n').c.state ≠ .shutdown := by
    show st1.c.state ≠ .shutdown; rw [a.state]; decide
  have cf := change_frame (cvSynced st1 ver sess (cvEndOfData ver sess serial iv) pt' kt' n') .established
  have cn := change_rel cvNet0_emitRel (cvSynced st1 ver sess (cvEndOfData ver sess serial iv) pt' kt' n') .established
  refine ⟨_, a.run.snoc hstep, ⟨change_state_eq _ _ hs2, ?_, ?_, ?_, ?_, ?_, ?_, ?_⟩, cf.2.1⟩
  · rw [cf.2.2.2.1]; rfl
  · rw [cf.2.1]; exact ⟨rfl, np, nk⟩
  · rw [cf.1]
    show ({ session := sess, serial := be32 (cvEndOfData ver sess serial iv) 8, reqSession := false,
            lastUpdate := st1.n.now, isResetting := false } : Sess) = _
    rw [cv_endOfData_serial ver sess serial iv hserial, a.mid.net.now]
  · rw [cf.2.2.1]
    show applyEodIntervals st1.tm _ = _
    rw [a.mid.tm]
  · rw [cf.2.2.2.2]
    show n'.now = _
    rw [s'.now, a.mid.net.now]
  · exact cn.cvTape t'
  · intro hq
    refine cn.noFail ?_
    show NoFail n'.sendQ
    rw [s'.sendQ]
    exact a.mid.net.noFail hq

/-- **convergence with a Reset Query**: in a good environment the socket reaches ESTABLISHED within 4
    iterations and one retry interval, holding exactly the cache's records -/
theorem cv_converges_reset (fuel : Nat) (st : St) (ver sess serial : Nat) (iv : CvIvals) (recs : List Rec)
    (keys : List KeyRec) (rest : List Nat)
    (ho : CvOpenOK st.n.openQ) (hq : NoFail st.n.sendQ) (hsr : cvSendsReset st) (hver : CvVerFrom st ver) (hv : ver ≤ 1)
    (ht : TblOK st.t) (hi : st.ss.lastUpdate = 0 → NoOwn st.t) (hsess : sess < 65536) (hserial : serial < 4294967296)
    (hrok : ∀ r ∈ recs, cvRecOK r) (hkok : ∀ k ∈ keys, cvKeyOK k) (hrn : recs.Nodup) (hkn : keys.Nodup)
    (htape : CvTape st.n (cvAnswer ver sess serial iv (cvResetItems recs keys) ++ rest))
    (hfuel : recs.length + keys.length < fuel) :
    ∃ k d st', k ≤ 4 ∧ (d = 0 ∨ d = st.tm.retry) ∧ CvRun fuel k st st' ∧ CvDone st st' ver sess serial iv d rest ∧
      (∀ x, x ∈ st'.t.pt ↔ (x ∈ recs ∨ (x ∈ st.t.pt ∧ x.src ≠ 0))) ∧
      (∀ x, x ∈ st'.t.kt ↔ (x ∈ keys ∨ (x ∈ st.t.kt ∧ x.src ≠ 0))) := by
  obtain ⟨k, d, st1, hk, hd, a, r⟩ := cv_to_sync_reset fuel ver st ho hq hsr hver
  have hs1 : st1.c.state ≠ .shutdown := by rw [a.state]; decide
  obtain ⟨pt', kt', n', g, t', s', e, np, nk, mp, mk⟩ := cv_sync_reset fuel st1 ver sess serial iv recs keys rest hfuel hs1
    a.ver hv (a.mid.tblok ht) (a.mid.inv hi) r hsess hrok hkok hrn hkn (a.mid.net.cvTape htape)
  obtain ⟨st', hrun, hdone, htbl⟩ := cv_finish fuel ver k d st st1 a sess serial iv pt' kt' n' (some g) rest hserial np nk t' s' e
  refine ⟨k + 1, d, st', by omega, hd, hrun, hdone, fun x => ?_, fun x => ?_⟩
  · rw [htbl]
    show x ∈ pt' ↔ _
    rw [mp x]
    by_cases hx : x.src = 0
    · simp [hx]
    · rw [a.mid.others.1 x hx]
  · rw [htbl]
    show x ∈ kt' ↔ _
    rw [mk x]
    by_cases hx : x.src = 0
    · simp [hx]
    · rw [a.mid.others.2 x hx]

/-- **convergence with a Serial Query**: the socket has a session and unexpired data, the tape holds
    a consistent incremental answer for that session: ESTABLISHED within 3 iterations and one retry
    interval; the tables are the old ones plus the announced minus the withdrawn records -/
theorem cv_converges_serial (fuel : Nat) (st : St) (ver serial : Nat) (iv : CvIvals) (items : List CvItem) (rest : List Nat)
    (ho : CvOpenOK st.n.openQ) (hq : NoFail st.n.sendQ) (hss : cvSendsSerial st) (hres : st.ss.isResetting = false)
    (hver : ver = st.c.version ∨ (st.c.version = 1 ∧ ver = 0)) (hv : ver ≤ 1)
    (ht : TblOK st.t) (hsess : st.ss.session < 65536) (hserial : serial < 4294967296)
    (hok : ∀ i ∈ items, i.OK)
    (hnp : ((cvPfxOps items).map Prod.snd).Nodup) (hnk : ((cvKeyOps items).map Prod.snd).Nodup)
    (hcp : ∀ op ∈ cvPfxOps items, (op.1 = true ↔ op.2 ∉ st.t.pt))
    (hck : ∀ op ∈ cvKeyOps items, (op.1 = true ↔ op.2 ∉ st.t.kt))
    (htape : CvTape st.n (cvAnswer ver st.ss.session serial iv items ++ rest))
    (hfuel : items.length < fuel) :
    ∃ k d st', k ≤ 3 ∧ (d = 0 ∨ d = st.tm.retry) ∧ CvRun fuel k st st' ∧ CvDone st st' ver st.ss.session serial iv d rest ∧
      (∀ x, x ∈ st'.t.pt ↔ ((true, x) ∈ cvPfxOps items ∨ (x ∈ st.t.pt ∧ (false, x) ∉ cvPfxOps items))) ∧
      (∀ x, x ∈ st'.t.kt ↔ ((true, x) ∈ cvKeyOps items ∨ (x ∈ st.t.kt ∧ (false, x) ∉ cvKeyOps items))) := by
  obtain ⟨k, d, st1, hk, hd, a, r1, r2⟩ := cv_to_sync_serial fuel ver st ho hq hss hver
  have hs1 : st1.c.state ≠ .shutdown := by rw [a.state]; decide
  have hreq : st.ss.reqSession = false := by
    unfold cvSendsSerial at hss
    cases hs : st.c.state <;> rw [hs] at hss <;> simp only at hss <;> exact hss.1
  obtain ⟨pt', kt', n', g, t', s', e, np, nk, mp, mk⟩ := cv_sync_serial fuel st1 ver st.ss.session serial iv items rest hfuel hs1
    a.ver hv (a.mid.tblok ht) (by rw [r1]; exact hreq) (by rw [r1]; exact hres) (by rw [r1]) hsess hok hnp hnk
    (by rw [r2]; exact hcp) (by rw [r2]; exact hck) (a.mid.net.cvTape htape)
  obtain ⟨st', hrun, hdone, htbl⟩ := cv_finish fuel ver k d st st1 a st.ss.session serial iv pt' kt' n' (some g) rest hserial np nk t' s' e
  refine ⟨k + 1, d, st', by omega, hd, hrun, hdone, fun x => ?_, fun x => ?_⟩
  · rw [htbl]
    show x ∈ pt' ↔ _
    rw [mp x, r2]
  · rw [htbl]
    show x ∈ kt' ↔ _
    rw [mk x, r2]

end Rtr.P
