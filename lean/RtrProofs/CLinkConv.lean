/-
  CLinkConv: the whole-PDU byte-order conversions as translated from the C text = the hand-written list model `Rtr.Conv`
  (RtrModel/PduConv.lean), over which the C14 conversion theorems (inverse, in bounds) are stated and which tools/pduconvcheck.py runs
  against the compiled functions.

    * `header_C_eq_model`       `rtr_pdu_convert_header_byte_order` (both directions; the 16-bit field is left alone for ROUTER_KEY) = `Conv.convHeader`
    * `to_network_C_eq_model`   `rtr_pdu_to_network_byte_order` (body first, then header) = `Conv.toNetwork`, fixed-layout types
    * `footer_to_host_C_eq_model`  `rtr_pdu_footer_to_host_byte_order` = `Conv.convFooter .toHost`, fixed-layout types
    * `send_receive_roundtrip_C`   sender conversion then receiver conversions, all as translated: defined at every step, identity
  (IPv6 Prefix and Error Report: the body conversion is linked in CLinkFooterModel; the compositions are not restated here.)
-/
import RtrProofs.CLinkFooterModel
import RtrProofs.PduConv

namespace Rtr.CLink.Footer
open Rtr Rtr.Gen Rtr.CLink

theorem revAt2_getD (buf : List Nat) (off x : Nat) (h : off + 2 ≤ buf.length) :
    (Conv.revAt buf off 2).getD x 0 = if off ≤ x ∧ x < off + 2 then buf.getD (off + (1 - (x - off))) 0 else buf.getD x 0 := by
  unfold Conv.revAt
  rw [if_pos h]
  simp only [List.getD_eq_getElem?_getD]
  by_cases h1 : x < off
  · rw [if_neg (by omega), List.append_assoc, List.getElem?_append_left (by simp; omega)]
    simp [h1]
  · by_cases h2 : x < off + 2
    · rw [if_pos (by omega), List.append_assoc, List.getElem?_append_right (by simp; omega),
        List.getElem?_append_left (by simp; omega)]
      rw [List.getElem?_reverse (by simp; omega)]
      simp only [List.length_take, List.length_drop]
      rw [List.getElem?_take]
      have : min off buf.length = off := by omega
      have e2 : min 2 (buf.length - off) = 2 := by omega
      simp only [this, e2]
      rw [if_pos (by omega), List.getElem?_drop]
    · rw [if_neg (by omega), List.append_assoc, List.getElem?_append_right (by simp; omega),
        List.getElem?_append_right (by simp; omega)]
      simp only [List.length_take, List.length_reverse, List.length_drop]
      rw [List.getElem?_drop]
      congr 2
      omega

/-- byte-swap the 16-bit field at `a`, in place -/
def swap16At (m : Mem) (a : Nat) : Mem := C.store16 m a (C.bswap16 (C.load16 m a))

theorem swap16At_apply (m : Mem) (a x : Nat) :
    swap16At m a x = if a ≤ x ∧ x < a + 2 then m (a + (1 - (x - a))) else m x := by
  unfold swap16At
  by_cases h : a ≤ x ∧ x < a + 2
  · rw [if_pos h]
    obtain ⟨j, rfl⟩ : ∃ j, x = a + j := ⟨x - a, by omega⟩
    have hj : j = 0 ∨ j = 1 := by omega
    unfold C.store16 C.bswap16 C.load16
    rcases hj with r | r <;> subst r
    · simp; rw [BitVec.extractLsb'_append_eq_of_add_le (by decide)]; simp
      rw [BitVec.extractLsb'_append_eq_of_le (by decide)]; simp
    · simp; rw [BitVec.extractLsb'_append_eq_of_le (by decide)]; simp
      rw [BitVec.extractLsb'_append_eq_of_add_le (by decide)]; simp
  · rw [if_neg h]
    exact store16_other _ _ _ _ (by omega)

theorem memOfList_revAt2 (buf : List Nat) (off : Nat) (h : off + 2 ≤ buf.length) :
    C.memOfList (Conv.revAt buf off 2) = swap16At (C.memOfList buf) off := by
  funext x
  rw [swap16At_apply]
  unfold C.memOfList
  rw [revAt2_getD buf off x h]
  split <;> rfl

theorem load16_store16 (m : Mem) (a : Nat) (v : BitVec 16) : C.load16 (C.store16 m a v) a = v := by
  unfold C.load16 C.store16
  simp
  rw [BitVec.extractLsb'_append_extractLsb'_eq_extractLsb' (by rfl)]
  simp

theorem load32_store16_other (m : Mem) (a b : Nat) (v : BitVec 16) (h : a + 2 ≤ b ∨ b + 4 ≤ a) :
    C.load32 (C.store16 m a v) b = C.load32 m b := by
  unfold C.load32
  rw [store16_other m a v b (by omega), store16_other m a v (b + 1) (by omega), store16_other m a v (b + 2) (by omega),
    store16_other m a v (b + 3) (by omega)]

private theorem conv16 (tbo : BitVec 32) (v : BitVec 16) (h : tbo = 0#32 ∨ tbo = 1#32) : C.lrtr_convert_short tbo v = some (C.bswap16 v) := by
  rw [lrtr_convert_short_eq, if_pos h]

private theorem conv32 (tbo v : BitVec 32) (h : tbo = 0#32 ∨ tbo = 1#32) : C.lrtr_convert_long tbo v = some (C.bswap32 v) := by
  rw [lrtr_convert_long_eq, if_pos h]

/-- **C text = model**: the header conversion (the same bytes move in both directions) -/
theorem header_C_eq_model (raw : List Nat) (hb : Bytes raw) (h8 : 8 ≤ raw.length) (tbo : BitVec 32) (htbo : tbo = 0#32 ∨ tbo = 1#32) :
    C.rtr_pdu_convert_header_byte_order (C.memOfList raw) raw.length 0 tbo = some (C.memOfList (Conv.convHeader raw)) := by
  unfold C.rtr_pdu_convert_header_byte_order Conv.convHeader
  have k1 : Gen.offsetof_pdu_header_reserved = 2 := rfl
  have k2 : Gen.fieldsize_pdu_header_reserved = 2 := rfl
  have k3 : Gen.offsetof_pdu_header_len = 4 := rfl
  have k4 : Gen.fieldsize_pdu_header_len = 4 := rfl
  simp only [k1, k2, k3, k4, Nat.zero_add]
  have g1 : 1 + 1 ≤ raw.length := by omega
  have g2 : 2 + 2 ≤ raw.length := by omega
  have g3 : 4 + 4 ≤ raw.length := by omega
  have ety : (BitVec.setWidth 32 (C.load8 (C.memOfList raw) 1) != 9#32) = decide (P.typeOf raw ≠ 9) := by
    unfold C.load8
    have := (memOfList_byte raw hb 1 9 (by decide))
    unfold P.typeOf
    rw [Bool.eq_iff_iff]
    simp only [bne_iff_ne, ne_eq, decide_eq_true_eq, decide_not, Bool.not_eq_eq_eq_not, Bool.not_true, decide_eq_false_iff_not]
    rw [← this]
    constructor
    · intro h q; apply h; rw [q]; rfl
    · intro h q; apply h
      have hl := (C.memOfList raw 1).isLt
      rw [← BitVec.toNat_inj] at q ⊢
      simp only [BitVec.toNat_setWidth, BitVec.toNat_ofNat] at q ⊢
      omega
  simp only [g1, g2, g3, decide_true, if_true, ety]
  by_cases ht : P.typeOf raw ≠ 9
  · simp only [ht, ne_eq, not_false_eq_true, decide_true, if_true, conv16 _ _ htbo, conv32 _ _ htbo]
    rw [load32_store16_other _ _ _ _ (by omega)]
    rw [memOfList_revAt4 _ _ (by rw [revAt_length]; omega), memOfList_revAt2 _ _ (by omega)]
    unfold swapAt swap16At
    rw [load32_store16_other _ _ _ _ (by omega)]
  · have ht' : P.typeOf raw = 9 := by omega
    simp only [ht', ne_eq, not_true_eq_false, decide_false, Bool.false_eq_true, if_false, conv32 _ _ htbo]
    rw [memOfList_revAt4 _ _ (by omega)]
    rfl

theorem convFooter_length (dir : Conv.Dir) (raw : List Nat) : (Conv.convFooter dir raw).length = raw.length := by
  unfold Conv.convFooter
  split
  · simp [revAt_length]
  · cases dir <;> simp [revAt_length]
  · simp [revAt_length]
  · split <;> simp [revAt_length]
  · simp [revAt_length]
  · simp [revAt_length]
  · simp [revAt_length]
  · rfl

theorem convFooter_bytes (dir : Conv.Dir) (raw : List Nat) (hb : Bytes raw) : Bytes (Conv.convFooter dir raw) := by
  have r (b : List Nat) (h : Bytes b) (o k : Nat) := revAt_bytes b h o k
  unfold Conv.convFooter
  split
  · exact r _ hb _ _
  · cases dir
    · exact r _ (r _ hb _ _) _ _
    · exact r _ (r _ hb _ _) _ _
  · exact r _ hb _ _
  · split
    · exact r _ (r _ (r _ (r _ hb _ _) _ _) _ _) _ _
    · exact r _ hb _ _
  · exact r _ (r _ hb _ _) _ _
  · exact r _ (r _ (r _ (r _ (r _ hb _ _) _ _) _ _) _ _) _ _
  · exact r _ hb _ _
  · exact hb

/-- **C text = model**: `rtr_pdu_to_network_byte_order` (what `rtr_send_pdu` applies to its copy of the PDU), fixed-layout types -/
theorem to_network_C_eq_model (raw : List Nat) (hb : Bytes raw) (h8 : 8 ≤ raw.length)
    (h6 : P.typeOf raw ≠ 6) (h10 : P.typeOf raw ≠ 10) (hn : need (C.memOfList raw 1) (C.memOfList raw 0) ≤ raw.length) :
    C.rtr_pdu_to_network_byte_order (C.memOfList raw) raw.length 0 = some (C.memOfList (Conv.toNetwork raw)) := by
  unfold C.rtr_pdu_to_network_byte_order C.rtr_pdu_header_to_network_byte_order Conv.toNetwork
  have e := footer_C_eq_model .toNetwork raw hb (by omega) h6 h10 hn
  simp only [dirCode] at e
  simp only [e]
  have hh := header_C_eq_model (Conv.convFooter .toNetwork raw) (convFooter_bytes _ raw hb) (by rw [convFooter_length]; omega) 0#32 (Or.inl rfl)
  rw [convFooter_length] at hh
  simp only [hh]

/-- **C text = model**: `rtr_pdu_footer_to_host_byte_order` (what `rtr_receive_pdu` applies after the header conversion), fixed-layout types -/
theorem footer_to_host_C_eq_model (raw : List Nat) (hb : Bytes raw) (h2 : 2 ≤ raw.length)
    (h6 : P.typeOf raw ≠ 6) (h10 : P.typeOf raw ≠ 10) (hn : need (C.memOfList raw 1) (C.memOfList raw 0) ≤ raw.length) :
    C.rtr_pdu_footer_to_host_byte_order (C.memOfList raw) raw.length 0 = some (C.memOfList (Conv.convFooter .toHost raw)) := by
  unfold C.rtr_pdu_footer_to_host_byte_order
  have e := footer_C_eq_model .toHost raw hb h2 h6 h10 hn
  simp only [dirCode] at e
  simp only [e]

theorem convHeader_bytes (raw : List Nat) (hb : Bytes raw) : Bytes (Conv.convHeader raw) := by
  unfold Conv.convHeader
  split
  · exact revAt_bytes _ (revAt_bytes _ hb _ _) _ _
  · exact revAt_bytes _ hb _ _

theorem convHeader_length (raw : List Nat) : (Conv.convHeader raw).length = raw.length := by
  unfold Conv.convHeader
  split <;> simp [revAt_length]

theorem convHeader_type (raw : List Nat) : P.typeOf (Conv.convHeader raw) = P.typeOf raw ∧ P.verOf (Conv.convHeader raw) = P.verOf raw := by
  rw [Conv.convHeader_eq]
  exact Conv.typeOf_revFields _ _ (Conv.hdrFields_ge raw)

theorem toNetwork_type (raw : List Nat) (h10 : P.typeOf raw ≠ 10) :
    P.typeOf (Conv.toNetwork raw) = P.typeOf raw ∧ P.verOf (Conv.toNetwork raw) = P.verOf raw := by
  unfold Conv.toNetwork
  have h1 := convHeader_type (Conv.convFooter .toNetwork raw)
  rw [Conv.convFooter_toNetwork_eq raw h10] at h1 ⊢
  have h2 := Conv.typeOf_revFields (Conv.footerFields raw) raw (fun f hf => by have := Conv.footerFields_ge raw f hf; omega)
  exact ⟨h1.1.trans h2.1, h1.2.trans h2.2⟩

theorem memOfList_hdr_congr (a b : List Nat) (ht : P.typeOf a = P.typeOf b) (hv : P.verOf a = P.verOf b) :
    C.memOfList a 1 = C.memOfList b 1 ∧ C.memOfList a 0 = C.memOfList b 0 := by
  unfold P.typeOf at ht; unfold P.verOf at hv
  unfold C.memOfList
  rw [ht, hv]; exact ⟨rfl, rfl⟩

/-- **send then receive, as translated from the C text** (fixed-layout types): converting a host-order PDU with
    `rtr_pdu_to_network_byte_order` (the sender's `rtr_send_pdu`) and then with `rtr_pdu_header_to_host_byte_order` and
    `rtr_pdu_footer_to_host_byte_order` (the receiver's `rtr_receive_pdu`) gives the PDU back, byte for byte; every step is defined -/
theorem send_receive_roundtrip_C (raw : List Nat) (hb : Bytes raw) (h8 : 8 ≤ raw.length)
    (h6 : P.typeOf raw ≠ 6) (h10 : P.typeOf raw ≠ 10) (hn : need (C.memOfList raw 1) (C.memOfList raw 0) ≤ raw.length) :
    ((C.rtr_pdu_to_network_byte_order (C.memOfList raw) raw.length 0).bind fun m1 =>
      (C.rtr_pdu_header_to_host_byte_order m1 raw.length 0).bind fun m2 =>
        C.rtr_pdu_footer_to_host_byte_order m2 raw.length 0) = some (C.memOfList raw) := by
  have l1 : (Conv.toNetwork raw).length = raw.length := by
    unfold Conv.toNetwork; rw [convHeader_length, convFooter_length]
  have b1 : Bytes (Conv.toNetwork raw) := by
    unfold Conv.toNetwork; exact convHeader_bytes _ (convFooter_bytes _ raw hb)
  have t1 := toNetwork_type raw h10
  have t2 := convHeader_type (Conv.toNetwork raw)
  have c2 := memOfList_hdr_congr (Conv.convHeader (Conv.toNetwork raw)) raw (t2.1.trans t1.1) (t2.2.trans t1.2)
  rw [to_network_C_eq_model raw hb h8 h6 h10 hn]
  simp only [Option.bind_some]
  unfold C.rtr_pdu_header_to_host_byte_order
  have hh := header_C_eq_model (Conv.toNetwork raw) b1 (by omega) 1#32 (Or.inr rfl)
  rw [l1] at hh
  simp only [hh, Option.bind_some]
  have hf := footer_to_host_C_eq_model (Conv.convHeader (Conv.toNetwork raw)) (convHeader_bytes _ b1)
    (by rw [convHeader_length]; omega) (by rw [t2.1, t1.1]; exact h6) (by rw [t2.1, t1.1]; exact h10)
    (by rw [c2.1, c2.2, convHeader_length, l1]; exact hn)
  rw [convHeader_length, l1] at hf
  rw [hf]
  have : Conv.convFooter .toHost (Conv.convHeader (Conv.toNetwork raw)) = Conv.toHost (Conv.toNetwork raw) := rfl
  rw [this, Conv.toHost_toNetwork raw h10]

/-- the hypotheses are satisfiable: a 12-byte Serial Query -/
example : let raw := [1, 1, 0, 7, 0, 0, 0, 12, 0, 0, 0, 5]
    8 ≤ raw.length ∧ P.typeOf raw ≠ 6 ∧ P.typeOf raw ≠ 10 ∧ need (C.memOfList raw 1) (C.memOfList raw 0) ≤ raw.length := by
  decide

end Rtr.CLink.Footer
