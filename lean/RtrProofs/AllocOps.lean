/-
  AllocOps: whatever the oracle does, every table operation leaves a well-formed table behind;
  the copy loops (`pfx_table_copy_except_socket`, `spki_table_copy_except_socket`) under the oracle.
-/
import RtrProofs.AllocSpki
import RtrProofs.NotifyDiff

namespace Rtr
namespace Alloc
open PfxTable SpkiTable

/-! ### well-formedness is kept -/

theorem addF_wf (a : A) (T : PfxTable) (r : Rec) (h : TableWF T) (hr : RecOK r) : TableWF (addF a T r).2.1 := by
  rcases addF_cases a T r with e | e
  · rw [e]; exact (add_spec T r h hr).wf
  · rw [e]; exact h

theorem removeF_wf (a : A) (T : PfxTable) (r : Rec) (h : TableWF T) : TableWF (removeF a T r).2.1 :=
  (remove_spec T r h).wf

theorem srcRemoveF_wf (a : A) (T : PfxTable) (src : Nat) (h : TableWF T) : TableWF (srcRemoveF a T src).2.1 :=
  (srcRemove_spec T src h).wf

theorem free_wf (T : PfxTable) : TableWF T.free := by
  unfold PfxTable.free
  simp only
  obtain ⟨h1, _, _, _⟩ := notifyAll_spec false ((freeLog T.v4).map fun (ad, ln, e) => mkRec false ad ln e) { T with v4 := .nil }
  obtain ⟨g1, g2, _, _⟩ := notifyAll_spec false ((freeLog T.t6).map fun (ad, ln, e) => mkRec true ad ln e)
    { (({ T with v4 := .nil } : PfxTable).notifyAll false ((freeLog T.v4).map fun (ad, ln, e) => mkRec false ad ln e)) with t6 := .nil }
  refine ⟨?_, ?_⟩
  · rw [g1]; simp only; rw [h1]; trivial
  · rw [g2]; trivial

theorem add_sinv {T : SpkiTable} (iv : SInv T) (r : SpkiRec) : SInv (T.add r).1 := by
  by_cases hr : r ∈ T.list
  · rw [add_dup iv r hr]; exact iv
  · exact (add_new_spec iv r hr).2.1

theorem remove_sinv {T : SpkiTable} (iv : SInv T) (r : SpkiRec) : SInv (T.remove r).1 := by
  by_cases hr : r ∈ T.list
  · exact (remove_present_spec iv r hr).2.1
  · rw [remove_absent iv r hr]; exact iv

/-- the outcome of `spki_table_add_entry` under the oracle is one of three -/
theorem kaddF_cases (a : A) {T : SpkiTable} (iv : SInv T) (r : SpkiRec) :
    (kaddF a T r).2 = T.add r ∨ (kaddF a T r).2 = (T, .error) ∨
    ((kaddF a T r).2 = (addNoGrow T r, .success) ∧ r ∉ T.list) := by
  have h := kaddF_ok a T r iv
  by_cases h1 : a.hits 1
  · exact Or.inr (Or.inl (h.hit1 h1).1)
  · by_cases h2 : a.hits (kaddReqs T r)
    · obtain ⟨e, hr, _⟩ := h.hit2 h1 h2
      exact Or.inr (Or.inr ⟨e, hr⟩)
    · exact Or.inl (h.pass h2).1

theorem kaddF_sinv (a : A) {T : SpkiTable} (iv : SInv T) (r : SpkiRec) : SInv (kaddF a T r).2.1 := by
  rcases kaddF_cases a iv r with e | e | ⟨e, hr⟩
  · rw [e]; exact add_sinv iv r
  · rw [e]; exact iv
  · rw [e]; exact (addNoGrow_spec iv r hr).1

/-! ### pfx_table_copy_except_socket -/

structure PassOK (a : A) (D : PfxTable) (st : A × PfxTable × Bool) : Prop where
  wf : TableWF st.2.1
  net : Alloc.net st.1.trace = Alloc.net a.trace + (pfxBlocks st.2.1 - pfxBlocks D : Int)
  nolibc : NoLibc a.trace → NoLibc st.1.trace

theorem copyPass_cons_pos (src : Nat) (a : A) (D : PfxTable) (e : Bool) (r : Rec) (rs : List Rec)
    (hp : (r.src != src) = true) :
    copyPass src (a, D, e) (r :: rs) =
      copyPass src ((addF a D r).1, (addF a D r).2.1, e || (addF a D r).2.2 != .success) rs := by
  unfold copyPass
  rw [List.foldl_cons]
  simp only [hp, if_true]

theorem copyPass_cons_neg (src : Nat) (a : A) (D : PfxTable) (e : Bool) (r : Rec) (rs : List Rec)
    (hp : ¬ (r.src != src) = true) : copyPass src (a, D, e) (r :: rs) = copyPass src (a, D, e) rs := by
  unfold copyPass
  rw [List.foldl_cons]
  simp only [hp, Bool.false_eq_true, if_false]

theorem copyPass_ok (src : Nat) : ∀ (rs : List Rec) (a : A) (D : PfxTable) (e : Bool), TableWF D →
    (∀ r ∈ rs, RecOK r) → PassOK a D (copyPass src (a, D, e) rs) := by
  intro rs
  induction rs with
  | nil => intro a D e h _; exact ⟨h, by simp [copyPass], fun h => h⟩
  | cons r rs ih =>
    intro a D e h hok
    by_cases hp : (r.src != src) = true
    · rw [copyPass_cons_pos src a D e r rs hp]
      have q := addF_ok a D r
      have wf1 := addF_wf a D r h (hok r (by simp))
      have s := ih (addF a D r).1 (addF a D r).2.1 (e || (addF a D r).2.2 != .success) wf1
        (fun x hx => hok x (List.mem_cons_of_mem _ hx))
      refine ⟨s.wf, ?_, fun hn => s.nolibc (q.nolibc hn)⟩
      rw [s.net, q.net h]; omega
    · rw [copyPass_cons_neg src a D e r rs hp]
      exact ih a D e h (fun x hx => hok x (List.mem_cons_of_mem _ hx))

/-- with an oracle that never refuses the pass is the model's pass -/
theorem copyPass_none (src : Nat) : ∀ (rs : List Rec) (a : A) (D : PfxTable) (e : Bool), a.budget = none →
    (copyPass src (a, D, e) rs).2 = rs.foldl (addStep fun r => r.src != src) (D, e) ∧
    (copyPass src (a, D, e) rs).1.budget = none ∧
    refusals (copyPass src (a, D, e) rs).1.trace = refusals a.trace := by
  intro rs
  induction rs with
  | nil => intro a D e h; exact ⟨rfl, h, rfl⟩
  | cons r rs ih =>
    intro a D e h
    rw [List.foldl_cons]
    by_cases hp : (r.src != src) = true
    · rw [copyPass_cons_pos src a D e r rs hp]
      have q := addF_ok a D r
      obtain ⟨q1, q2, q3, _⟩ := q.pass (not_hits_none h _)
      have hb : (addF a D r).1.budget = none := by rw [q2]; exact after_none h _
      have s := ih (addF a D r).1 (addF a D r).2.1 (e || (addF a D r).2.2 != .success) hb
      have e1 : addStep (fun r => r.src != src) (D, e) r = ((addF a D r).2.1, e || (addF a D r).2.2 != .success) := by
        simp only [addStep, hp, if_true, q1]
      rw [e1]
      exact ⟨s.1, s.2.1, by rw [s.2.2, q3]⟩
    · rw [copyPass_cons_neg src a D e r rs hp]
      have e1 : addStep (fun r => r.src != src) (D, e) r = (D, e) := by
        simp [addStep, hp]
      rw [e1]
      exact ih a D e h

structure CopyFOK (a : A) (D : PfxTable) (q : A × PfxTable × PfxRc) : Prop where
  wf : TableWF q.2.1
  net : Alloc.net q.1.trace = Alloc.net a.trace + (pfxBlocks q.2.1 - pfxBlocks D : Int)
  rc : q.2.2 = .success ∨ q.2.2 = .error
  nolibc : NoLibc a.trace → NoLibc q.1.trace

theorem copyExceptF_ok (a : A) (S D : PfxTable) (src : Nat) (hS : TableWF S) (hD : TableWF D) :
    CopyFOK a D (copyExceptF a S D src) := by
  have ok4 : ∀ r ∈ S.recs4, RecOK r := fun r hr => recOK_of_mem S hS r (by unfold PfxTable.recs; simp [hr])
  have ok6 : ∀ r ∈ S.recs6, RecOK r := fun r hr => recOK_of_mem S hS r (by unfold PfxTable.recs; simp [hr])
  have s1 := copyPass_ok src S.recs4 a D false hD ok4
  unfold copyExceptF
  simp only
  split
  · exact ⟨s1.wf, s1.net, Or.inr rfl, s1.nolibc⟩
  · have s2 := copyPass_ok src S.recs6 (copyPass src (a, D, false) S.recs4).1 (copyPass src (a, D, false) S.recs4).2.1
      false s1.wf ok6
    have hn : net (copyPass src ((copyPass src (a, D, false) S.recs4).1, (copyPass src (a, D, false) S.recs4).2.1, false) S.recs6).1.trace =
        net a.trace + (pfxBlocks (copyPass src ((copyPass src (a, D, false) S.recs4).1, (copyPass src (a, D, false) S.recs4).2.1, false) S.recs6).2.1 - pfxBlocks D : Int) := by
      rw [s2.net, s1.net]; omega
    split
    · exact ⟨s2.wf, hn, Or.inr rfl, fun h => s2.nolibc (s1.nolibc h)⟩
    · exact ⟨s2.wf, hn, Or.inl rfl, fun h => s2.nolibc (s1.nolibc h)⟩

theorem copyExceptF_none (a : A) (S D : PfxTable) (src : Nat) (h : a.budget = none) :
    (copyExceptF a S D src).2 = PfxTable.copyExcept S D src ∧ (copyExceptF a S D src).1.budget = none := by
  obtain ⟨p1, p2, _⟩ := copyPass_none src S.recs4 a D false h
  rw [copyExcept_eq]
  unfold copyExceptF
  simp only
  have e1 : (copyPass src (a, D, false) S.recs4).2.2 = (S.recs4.foldl (addStep fun r => r.src != src) (D, false)).2 := by
    rw [p1]
  have e2 : (copyPass src (a, D, false) S.recs4).2.1 = (S.recs4.foldl (addStep fun r => r.src != src) (D, false)).1 := by
    rw [p1]
  rw [e1]
  split
  · exact ⟨by rw [e2], p2⟩
  · obtain ⟨r1, r2, _⟩ := copyPass_none src S.recs6 (copyPass src (a, D, false) S.recs4).1
      (copyPass src (a, D, false) S.recs4).2.1 false p2
    have f1 : (copyPass src ((copyPass src (a, D, false) S.recs4).1, (copyPass src (a, D, false) S.recs4).2.1, false) S.recs6).2.2 =
        (S.recs6.foldl (addStep fun r => r.src != src) ((S.recs4.foldl (addStep fun r => r.src != src) (D, false)).1, false)).2 := by
      rw [r1, e2]
    have f2 : (copyPass src ((copyPass src (a, D, false) S.recs4).1, (copyPass src (a, D, false) S.recs4).2.1, false) S.recs6).2.1 =
        (S.recs6.foldl (addStep fun r => r.src != src) ((S.recs4.foldl (addStep fun r => r.src != src) (D, false)).1, false)).1 := by
      rw [r1, e2]
    rw [f1]
    split
    · exact ⟨by rw [f2], r2⟩
    · exact ⟨by rw [f2], r2⟩

/-! ### spki_table_copy_except_socket -/

structure KCopyOK (a : A) (D : SpkiTable) (q : A × SpkiTable × SpkiRc) : Prop where
  inv : SInv q.2.1
  net : Alloc.net q.1.trace = Alloc.net a.trace + (spkiBlocks q.2.1 - spkiBlocks D : Int)
  rc : q.2.2 = .success ∨ q.2.2 = .error
  nolibc : NoLibc a.trace → NoLibc q.1.trace

theorem kcopyLoopF_ok (src : Nat) : ∀ (L : List SpkiRec) (a : A) (D : SpkiTable), SInv D →
    KCopyOK a D (kcopyLoopF src L a D) := by
  intro L
  induction L with
  | nil => intro a D iv; exact ⟨iv, by simp [kcopyLoopF], Or.inl rfl, fun h => h⟩
  | cons e rest ih =>
    intro a D iv
    unfold kcopyLoopF
    by_cases hp : (e.src != src) = true
    · simp only [hp, if_true]
      have q := kaddF_ok a D e iv
      have iv1 := kaddF_sinv a iv e
      rcases hq : kaddF a D e with ⟨a', D', rc⟩
      rw [hq] at q iv1
      simp only at q iv1
      cases rc with
      | success =>
        simp only
        have s := ih a' D' iv1
        have qn := q.net iv
        simp only at qn
        refine ⟨s.inv, ?_, s.rc, fun h => s.nolibc (q.nolibc h)⟩
        rw [s.net, qn]; omega
      | error => exact ⟨iv1, q.net iv, Or.inr rfl, q.nolibc⟩
      | duplicate => exact ⟨iv1, q.net iv, Or.inr rfl, q.nolibc⟩
      | notFound => exact ⟨iv1, q.net iv, Or.inr rfl, q.nolibc⟩
    · simp only [hp, Bool.false_eq_true, if_false]
      exact ih a D iv

theorem kcopyLoopF_none (src : Nat) : ∀ (L : List SpkiRec) (a : A) (D : SpkiTable), SInv D → a.budget = none →
    (kcopyLoopF src L a D).2 = copyLoop src L D ∧ (kcopyLoopF src L a D).1.budget = none := by
  intro L
  induction L with
  | nil => intro a D _ h; exact ⟨rfl, h⟩
  | cons e rest ih =>
    intro a D iv h
    unfold kcopyLoopF copyLoop
    by_cases hp : (e.src != src) = true
    · simp only [hp, if_true]
      have q := kaddF_ok a D e iv
      obtain ⟨q1, q2, _⟩ := q.pass (not_hits_none h _)
      have hb : (kaddF a D e).1.budget = none := by rw [q2]; exact after_none h _
      have iv1 := kaddF_sinv a iv e
      rcases hq : kaddF a D e with ⟨a', D', rc⟩
      rw [hq] at q1 hb iv1
      simp only at q1 hb iv1
      rw [← q1]
      cases rc with
      | success => simp only; exact ih a' D' iv1 hb
      | error => exact ⟨rfl, hb⟩
      | duplicate => exact ⟨rfl, hb⟩
      | notFound => exact ⟨rfl, hb⟩
    · simp only [hp, Bool.false_eq_true, if_false]
      exact ih a D iv h

end Alloc
end Rtr
