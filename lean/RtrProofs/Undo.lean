/-
  Undo: the C03 key lemma.  Forward-order undo of a successfully applied list of
  announcements/withdrawals: if every undo step succeeds, the table is restored.  Tables are
  abstract membership functions.
-/
namespace Undo

variable {R : Type} [DecidableEq R]

abbrev Tbl (R : Type) := R → Bool

/-- announce (`true`) / withdraw (`false`) of record `r`; fails on duplicate / unknown -/
def apply1 (t : Tbl R) (f : Bool) (r : R) : Option (Tbl R) :=
  if t r = f then none else some (fun x => if x = r then f else t x)

/-- the inverse operation, as rtr_undo_update_pfx_table performs it -/
def undo1 (t : Tbl R) (f : Bool) (r : R) : Option (Tbl R) := apply1 t (!f) r

def applyAll (t : Tbl R) : List (Bool × R) → Option (Tbl R)
  | [] => some t
  | (f, r) :: ops => (apply1 t f r).bind fun t' => applyAll t' ops

def undoAll (t : Tbl R) : List (Bool × R) → Option (Tbl R)
  | [] => some t
  | (f, r) :: ops => (undo1 t f r).bind fun t' => undoAll t' ops

/-! ### the one-bit version -/

def applyB (b : Bool) : List Bool → Option Bool
  | [] => some b
  | f :: fs => if b = f then none else applyB f fs

def undoB (b : Bool) : List Bool → Option Bool
  | [] => some b
  | f :: fs => if b = !f then none else undoB (!f) fs

/-- a successful run ends at the last flag applied -/
theorem applyB_last : ∀ (fs : List Bool) (b b' : Bool), applyB b fs = some b' → fs.getLast?.getD b = b' := by
  intro fs
  induction fs with
  | nil => intro b b' h; simp [applyB] at h; simp [h]
  | cons f fs ih =>
    intro b b' h
    unfold applyB at h
    split at h
    · cases h
    · rw [List.getLast?_cons]; exact ih f b' h

/-- a successful forward undo ends at the negation of the last flag undone -/
theorem undoB_last : ∀ (fs : List Bool) (c c' : Bool), undoB c fs = some c' → (fs.getLast?.map (!·)).getD c = c' := by
  intro fs
  induction fs with
  | nil => intro c c' h; simp [undoB] at h; simp [h]
  | cons f fs ih =>
    intro c c' h
    unfold undoB at h
    split at h
    · cases h
    · have := ih (!f) c' h
      rw [List.getLast?_cons]
      cases hfs : fs.getLast? <;> simp_all

theorem applyB_head (f : Bool) (fs : List Bool) (b b' : Bool) (h : applyB b (f :: fs) = some b') : f = !b := by
  unfold applyB at h; split at h
  · cases h
  · cases b <;> cases f <;> simp_all

theorem undoB_head (f : Bool) (fs : List Bool) (c c' : Bool) (h : undoB c (f :: fs) = some c') : c = f := by
  unfold undoB at h; split at h
  · cases h
  · cases c <;> cases f <;> simp_all

/-- one record: if every forward undo step succeeds, the bit is back where it started -/
theorem forward_undoB (fs : List Bool) (b b' c' : Bool) (ha : applyB b fs = some b')
    (hu : undoB b' fs = some c') : c' = b := by
  cases fs with
  | nil => simp [applyB] at ha; simp [undoB] at hu; simp [← hu, ← ha]
  | cons f fs =>
    have h1 := applyB_head f fs b b' ha
    have h2 := undoB_head f fs b' c' hu
    have h3 := applyB_last _ _ _ ha
    have h4 := undoB_last _ _ _ hu
    rw [List.getLast?_cons] at h3 h4
    simp at h3 h4
    subst h1; subst h2
    cases hfs : fs.getLast? <;> simp_all

/-! ### lifting to tables by projecting the PDU list onto one record -/

def flagsOf (x : R) (ops : List (Bool × R)) : List Bool :=
  ops.filterMap fun p => if p.2 = x then some p.1 else none

theorem applyAll_proj (x : R) : ∀ (ops : List (Bool × R)) (t t' : Tbl R), applyAll t ops = some t' →
    applyB (t x) (flagsOf x ops) = some (t' x) := by
  intro ops
  induction ops with
  | nil => intro t t' h; simp [applyAll] at h; simp [flagsOf, applyB, h]
  | cons op ops ih =>
    intro t t' h
    obtain ⟨f, r⟩ := op
    simp only [applyAll, apply1] at h
    split at h
    · simp at h
    · rename_i hne
      simp only [Option.bind_some] at h
      have := ih _ _ h
      by_cases hr : r = x
      · subst hr
        simp only [flagsOf, List.filterMap_cons, if_true] at *
        unfold applyB
        simp only [hne, if_false]
        simpa using this
      · have hx : ¬ x = r := fun e => hr e.symm
        simp only [flagsOf, List.filterMap_cons, hr, if_false, hx] at *
        exact this

theorem undoAll_proj (x : R) : ∀ (ops : List (Bool × R)) (t t' : Tbl R), undoAll t ops = some t' →
    undoB (t x) (flagsOf x ops) = some (t' x) := by
  intro ops
  induction ops with
  | nil => intro t t' h; simp [undoAll] at h; simp [flagsOf, undoB, h]
  | cons op ops ih =>
    intro t t' h
    obtain ⟨f, r⟩ := op
    simp only [undoAll, undo1, apply1] at h
    split at h
    · simp at h
    · rename_i hne
      simp only [Option.bind_some] at h
      have := ih _ _ h
      by_cases hr : r = x
      · subst hr
        simp only [flagsOf, List.filterMap_cons, if_true] at *
        unfold undoB
        simp only [hne, if_false]
        simpa using this
      · have hx : ¬ x = r := fun e => hr e.symm
        simp only [flagsOf, List.filterMap_cons, hr, if_false, hx] at *
        exact this

/-- C03 key lemma: after a successfully applied list of announcements/withdrawals, if undoing
    them **in forward order** succeeds at every step, the table is exactly what it was. -/
theorem forward_undo (ops : List (Bool × R)) (t t' t'' : Tbl R)
    (ha : applyAll t ops = some t') (hu : undoAll t' ops = some t'') : t'' = t := by
  funext x
  exact forward_undoB _ _ _ _ (applyAll_proj x ops t t' ha) (undoAll_proj x ops t' t'' hu)

end Undo
