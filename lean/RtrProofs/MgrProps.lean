/-
  Helper lemmas for C15, part 4: the step-level facts behind the property theorems
  (stated with `Sorted gs` where distinct preferences are needed; `Reachable.inv` supplies it).
-/
import RtrModel.Mgr
import RtrProofs.MgrSort
import RtrProofs.MgrCb
import RtrProofs.MgrStep

namespace Rtr.Mgr

/-! ### rtr_mgr_init -/

theorem init_nodup_socks {specs : List (Nat × Nat)} {gs : List Group} (h : init specs = some gs) :
    specs ≠ [] ∧ (∀ s ∈ specs, s.2 ≠ 0) ∧ (specs.map (·.1)).Nodup ∧
    Sorted gs ∧ (prefs gs).Perm (specs.map (·.1)) ∧ (∀ g ∈ gs, g.status = .closed) ∧
    (∀ g ∈ gs, ∀ s ∈ g.socks, s.thread = false) := by
  obtain ⟨hne, hgs, hs, hsock⟩ := init_some h
  have hperm := sortG_perm (specs.map fun s => mkGroup s.1 s.2)
  rw [← hgs] at hperm
  have hp : (prefs gs).Perm (specs.map (·.1)) := by
    have := prefs_perm hperm
    simpa [prefs, mkGroup, List.map_map, Function.comp_def] using this
  have hmem : ∀ g ∈ gs, ∃ s ∈ specs, g = mkGroup s.1 s.2 := by
    intro g hg
    obtain ⟨s, hs', rfl⟩ := List.mem_map.mp (hperm.mem_iff.mp hg)
    exact ⟨s, hs', rfl⟩
  refine ⟨hne, ?_, hp.nodup_iff.mp hs.nodup, hs, hp, ?_, ?_⟩
  · intro s hs' h0
    have : mkGroup s.1 s.2 ∈ gs := hperm.mem_iff.mpr (List.mem_map.mpr ⟨s, hs', rfl⟩)
    have := hsock _ this
    simp [mkGroup, h0] at this
  · intro g hg
    obtain ⟨s, _, rfl⟩ := hmem g hg
    rfl
  · intro g hg x hx
    obtain ⟨s, _, rfl⟩ := hmem g hg
    simp only [mkGroup, List.mem_replicate] at hx
    rw [hx.2]

theorem init_accepts {specs : List (Nat × Nat)} (hne : specs ≠ []) (hsock : ∀ s ∈ specs, s.2 ≠ 0)
    (hnd : (specs.map (·.1)).Nodup) : ∃ gs, init specs = some gs := by
  have hnd' : (prefs (specs.map fun s => mkGroup s.1 s.2)).Nodup := by
    simpa [prefs, mkGroup, List.map_map, Function.comp_def] using hnd
  have hs := sortG_sorted hnd'
  have hperm := sortG_perm (specs.map fun s => mkGroup s.1 s.2)
  have hc : initCheck none (sortG (specs.map fun s => mkGroup s.1 s.2)) = true := by
    apply initCheck_of_sorted hs
    · intro g hg
      obtain ⟨s, hs', rfl⟩ := List.mem_map.mp (hperm.mem_iff.mp hg)
      simpa [mkGroup] using hsock s hs'
    · intro x hx; cases hx
  refine ⟨sortG (sortG (specs.map fun s => mkGroup s.1 s.2)), ?_⟩
  unfold init
  rw [if_neg (by simpa using hne)]
  simp only [hc, if_true]

/-! ### statuses: ESTABLISHED is entered only through the synced check -/

theorem evList_status {gs : List Group} {p : Nat} {g : Group} (hg : g ∈ gs) (_hp : g.pref = p) (i : Nat) (s : Sock)
    (st : SockState) (sy : Bool) {g' : Group} (h : g' ∈ modG gs p fun _ => evGroup g i s st sy) :
    ∃ g0 ∈ gs, g0.pref = g'.pref ∧ g0.status = g'.status := by
  rcases mem_evList h with ⟨h1, _⟩ | ⟨rfl, _⟩
  · exact ⟨g', h1, rfl, rfl⟩
  · exact ⟨g, hg, rfl, rfl⟩

theorem mgrCb_est {gs2 : List Group} {g2 : Group} (hu : ∀ x ∈ gs2, x.pref = g2.pref → x = g2) {i : Nat}
    {st : SockState} {g' : Group} (h : g' ∈ (mgrCb gs2 g2 i st).1) (he : g'.status = .established) :
    (∃ g ∈ gs2, g.pref = g'.pref ∧ g.status = .established) ∨
    (st = .established ∧ g'.pref = g2.pref ∧ g'.isSynced = true ∧ g2.status ≠ .established) := by
  rcases mgrCb_cases gs2 g2 i st with ⟨h1, h2, h3, _, h5⟩ | ⟨_, h5⟩ | ⟨_, st', h4, h5⟩ | ⟨_, h5⟩
  · rw [h5] at h
    obtain ⟨g, hg, hgp, hk | ⟨hk1, hk2⟩ | ⟨_, hk, _⟩⟩ := be_mem h
    · left; subst hk; exact ⟨g', hg, rfl, he⟩
    · right
      have := hu g hg hk1
      subst this
      refine ⟨h1, hgp, ?_, ?_⟩
      · rw [hk2]; exact h3
      · rcases h2 with h2 | h2 <;> rw [h2] <;> decide
    · rw [hk] at he; cases he
  · rw [h5] at h
    rcases cbError_mem h with ⟨h1, _⟩ | ⟨g, _, _, rfl⟩ | ⟨q, _, _, hq, rfl⟩
    · left; exact ⟨g', h1, rfl, he⟩
    · cases he
    · rcases startSockets_status q with hs | hs
      · rw [hs] at he; cases he
      · rw [hs, hq] at he; cases he
  · rw [h5] at h
    rcases mem_setStatus h with ⟨h1, _⟩ | ⟨g, hg, hgp, rfl⟩
    · left; exact ⟨g', h1, rfl, he⟩
    · simp only at he
      have := hu g hg hgp
      subst this
      rcases h4 with h4 | ⟨h4, _⟩
      · left; exact ⟨g, hg, rfl, by rw [← h4, he]⟩
      · exact absurd he h4
  · rw [h5] at h
    left; exact ⟨g', h, rfl, he⟩

theorem evList_unique {gs : List Group} {p : Nat} {g2 : Group} (hp : g2.pref = p) :
    ∀ x ∈ (modG gs p fun _ => g2), x.pref = g2.pref → x = g2 := by
  intro x hx hxp
  rcases mem_evList hx with ⟨_, hne⟩ | ⟨rfl, _⟩
  · rw [hp] at hxp; exact absurd hxp hne
  · rfl

theorem event_est {gs : List Group} {p i : Nat} {st : SockState} {sy : Bool} {r : List Group × List Ev}
    (h : event gs p i st sy = some r) {g' : Group} (hg' : g' ∈ r.1) (he : g'.status = .established) :
    (∃ g ∈ gs, g.pref = g'.pref ∧ g.status = .established) ∨
    (st = .established ∧ g'.pref = p ∧ g'.isSynced = true) := by
  obtain ⟨g, s, hg, _, ⟨_, rfl⟩ | ⟨_, _, rfl⟩⟩ := event_cases h
  · left
    rcases mem_modG hg' with ⟨h1, _⟩ | ⟨g0, hg0, _, rfl⟩
    · exact ⟨g', h1, rfl, he⟩
    · exact ⟨g0, hg0, rfl, he⟩
  · have hgm := findG_some hg
    rcases mgrCb_est (evList_unique (by rw [evGroup_pref]; exact hgm.2)) hg' he with ⟨g0, hg0, h1, h2⟩ | ⟨h1, h2, h3, _⟩
    · left
      obtain ⟨g1, hg1, h3, h4⟩ := evList_status hgm.1 hgm.2 i s st sy hg0
      exact ⟨g1, hg1, by rw [h3, h1], by rw [h4, h2]⟩
    · right
      exact ⟨h1, by rw [h2, evGroup_pref]; exact hgm.2, h3⟩

theorem mem_sortG {l : List Group} {g : Group} : g ∈ sortG l ↔ g ∈ l := (sortG_perm l).mem_iff

theorem startFirst_est {gs : List Group} {g' : Group} (h : g' ∈ (startFirstIfClosed gs).1)
    (he : g'.status = .established) : g' ∈ gs := by
  rcases startFirstIfClosed_mem h with h | ⟨q, _, hq, rfl⟩
  · exact h
  · rcases startSockets_status q with hs | hs
    · rw [hs] at he; cases he
    · rw [hs, hq] at he; cases he

theorem eraseG_mem {p : Nat} {l : List Group} {g : Group} (h : g ∈ eraseG p l) : g ∈ l :=
  (eraseG_sublist p l).subset h

/-- after any operation, a group that is ESTABLISHED either was ESTABLISHED before or has just
    passed `rtr_mgr_config_status_is_synced` in the ESTABLISHED handler of one of its sockets -/
theorem step_est {gs : List Group} (o : Op) {g' : Group} (hg' : g' ∈ (step gs o).1)
    (he : g'.status = .established) :
    (∃ g ∈ gs, g.pref = g'.pref ∧ g.status = .established) ∨
    (g'.isSynced = true ∧ ∃ i sy, o = .ev g'.pref i .established sy) := by
  cases o with
  | ev p i st sy =>
    simp only [step] at hg'
    split at hg'
    · rename_i r hr
      rcases event_est hr hg' he with h | ⟨h1, h2, h3⟩
      · left; exact h
      · right; subst h1; subst h2; exact ⟨h3, i, sy, rfl⟩
    · left; exact ⟨g', hg', rfl, he⟩
  | add p n k =>
    left
    simp only [step] at hg'
    rcases add_cases gs p n k with ⟨rc, _, h⟩ | ⟨_, _, h⟩
    · rw [h] at hg'
      exact ⟨g', hg', rfl, he⟩
    · rw [h] at hg'
      have := mem_sortG.mp (startFirst_est hg' he)
      rcases List.mem_append.mp this with h | h
      · exact ⟨g', h, rfl, he⟩
      · simp only [List.mem_singleton] at h
        subst h
        cases he
  | setiv p a b c =>
    left
    simp only [step, setIvs] at hg'
    rcases mem_modG hg' with ⟨h1, _⟩ | ⟨g0, hg0, _, rfl⟩
    · exact ⟨g', h1, rfl, he⟩
    · exact ⟨g0, hg0, rfl, he⟩
  | remove p =>
    left
    simp only [step, remove] at hg'
    split at hg'
    · exact ⟨g', hg', rfl, he⟩
    · split at hg'
      · exact ⟨g', hg', rfl, he⟩
      · exact ⟨g', eraseG_mem (startFirst_est hg' he), rfl, he⟩
  | start =>
    left
    cases gs with
    | nil => cases hg'
    | cons b t =>
      simp only [step, start] at hg'
      rcases List.mem_cons.mp hg' with rfl | h
      · rcases startSockets_status b with hs | hs
        · rw [hs] at he; cases he
        · exact ⟨b, List.mem_cons_self, rfl, by rw [← hs, he]⟩
      · exact ⟨g', List.mem_cons_of_mem _ h, rfl, he⟩
  | stop =>
    left
    simp only [step] at hg'
    obtain ⟨g, hg, rfl⟩ := stop_mem hg'
    rcases stopAll_status g with hs | hs
    · rw [hs] at he; cases he
    · exact ⟨g, hg, rfl, by rw [← hs, he]⟩

/-! ### what a step may log -/

theorem mgrCb_log_est {gs2 : List Group} {g2 : Group} (hg2 : g2 ∈ gs2) {i : Nat} {st : SockState} {q : Nat}
    {x : Option (Nat × Nat)} (h : Ev.status q .established x ∈ (mgrCb gs2 g2 i st).2) :
    (∃ g ∈ gs2, g.pref = q ∧ g.status = .established) ∨
    (st = .established ∧ q = g2.pref ∧ g2.status ≠ .established ∧ g2.isSynced = true ∧
      mgrCb gs2 g2 i st = becomeEstablished gs2 g2.pref i) := by
  rcases mgrCb_cases gs2 g2 i st with ⟨h1, h2, h3, _, h5⟩ | ⟨_, h5⟩ | ⟨_, st', h4, h5⟩ | ⟨_, h5⟩
  · have h5' := h5
    rw [h5] at h
    rcases be_log h with he | ⟨g, hg, _, _, ⟨j, he, _⟩ | ⟨y, he⟩ | ⟨y, he⟩⟩
    · right
      cases he
      refine ⟨h1, rfl, ?_, h3, h5'⟩
      rcases h2 with h2 | h2 <;> rw [h2] <;> decide
    · cases he
    · cases he
    · left
      injection he with e1 e2 e3
      exact ⟨g, hg, e1.symm, e2.symm⟩
  · rw [h5] at h
    rcases cbError_log h with he | ⟨_, _, _, he⟩ <;> cases he
  · rw [h5] at h
    simp only [List.mem_singleton] at h
    injection h with e1 e2 e3
    rcases h4 with h4 | ⟨h4, _⟩
    · left; exact ⟨g2, hg2, e1.symm, by rw [← h4, ← e2]⟩
    · exact absurd e2.symm h4
  · rw [h5] at h; cases h

/-- an ESTABLISHED status callback is either a re-report of a group that already was ESTABLISHED
    or the report of the event's own group, which has just passed the synced check -/
theorem event_log_est {gs : List Group} {p i : Nat} {st : SockState} {sy : Bool} {r : List Group × List Ev}
    (h : event gs p i st sy = some r) {q : Nat} {x : Option (Nat × Nat)}
    (hl : Ev.status q .established x ∈ r.2) :
    (∃ g ∈ gs, g.pref = q ∧ g.status = .established) ∨
    (st = .established ∧ q = p ∧ ∀ g' ∈ r.1, g'.pref = p → g'.status = .established ∧ g'.isSynced = true) := by
  obtain ⟨g, s, hg, _, ⟨_, rfl⟩ | ⟨_, _, rfl⟩⟩ := event_cases h
  · cases hl
  · have hgm := findG_some hg
    have hg2 : evGroup g i s st sy ∈ modG gs p fun _ => evGroup g i s st sy := mem_modG_of_eq hgm.1 hgm.2
    rcases mgrCb_log_est hg2 hl with ⟨g0, hg0, h1, h2⟩ | ⟨h1, h2, h3, h4, k5⟩
    · left
      obtain ⟨g1, hg1, h3, h4⟩ := evList_status hgm.1 hgm.2 i s st sy hg0
      exact ⟨g1, hg1, by rw [h3, h1], by rw [h4, h2]⟩
    · right
      refine ⟨h1, by rw [h2, evGroup_pref]; exact hgm.2, ?_⟩
      intro g' hg' hp'
      rw [k5] at hg'
      obtain ⟨g0, hg0, hg0p, rfl⟩ := be_post_eq hg' (by rw [hp', evGroup_pref]; exact hgm.2.symm)
      have := evList_unique (gs := gs) (p := p) (g2 := evGroup g i s st sy) (by rw [evGroup_pref]; exact hgm.2) g0 hg0 hg0p
      subst this
      exact ⟨rfl, h4⟩

end Rtr.Mgr
