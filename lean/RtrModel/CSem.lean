/-
  CSem: the few run-time notions the C-to-Lean translator (tools/gen_cfuns.py) relies on.
  Core Lean only.

  * integers are `BitVec n`; C's `int` results of comparisons are Lean `Bool`s until an integer is needed
  * memory (for functions translated in memory mode) is `Nat → BitVec 8` plus the size of the object;
    multi-byte loads are little-endian (host order of the platforms the harness runs on)
  * `NULL` lies beyond every object, so that every access through it fails its bounds guard
-/
namespace Rtr.Gen.C

/-- the integer value of a C truth value -/
def b2i (w : Nat) (b : Bool) : BitVec w := if b then 1#w else 0#w

/-- the null pointer: an address no object reaches -/
def NULL : Nat := 2 ^ 64

def load8 (mem : Nat → BitVec 8) (a : Nat) : BitVec 8 := mem a

/-- little-endian 16-bit load -/
def load16 (mem : Nat → BitVec 8) (a : Nat) : BitVec 16 := mem (a + 1) ++ mem a

/-- little-endian 32-bit load -/
def load32 (mem : Nat → BitVec 8) (a : Nat) : BitVec 32 := mem (a + 3) ++ mem (a + 2) ++ mem (a + 1) ++ mem a

/-- little-endian 64-bit load -/
def load64 (mem : Nat → BitVec 8) (a : Nat) : BitVec 64 :=
  mem (a + 7) ++ mem (a + 6) ++ mem (a + 5) ++ mem (a + 4) ++ mem (a + 3) ++ mem (a + 2) ++ mem (a + 1) ++ mem a

def store8 (mem : Nat → BitVec 8) (a : Nat) (v : BitVec 8) : Nat → BitVec 8 :=
  fun x => if x = a then v else mem x

/-- little-endian 16-bit store -/
def store16 (mem : Nat → BitVec 8) (a : Nat) (v : BitVec 16) : Nat → BitVec 8 :=
  fun x => if x = a then v.extractLsb' 0 8 else if x = a + 1 then v.extractLsb' 8 8 else mem x

/-- little-endian 32-bit store -/
def store32 (mem : Nat → BitVec 8) (a : Nat) (v : BitVec 32) : Nat → BitVec 8 :=
  fun x => if x = a then v.extractLsb' 0 8 else if x = a + 1 then v.extractLsb' 8 8
    else if x = a + 2 then v.extractLsb' 16 8 else if x = a + 3 then v.extractLsb' 24 8 else mem x

/-- `__builtin_bswap16` -/
def bswap16 (x : BitVec 16) : BitVec 16 := x.extractLsb' 0 8 ++ x.extractLsb' 8 8

/-- `__builtin_bswap32` (`ntohl` / `htonl` on a little-endian host) -/
def bswap32 (x : BitVec 32) : BitVec 32 :=
  x.extractLsb' 0 8 ++ x.extractLsb' 8 8 ++ x.extractLsb' 16 8 ++ x.extractLsb' 24 8

/-- what the translated code cannot see: the clock and the transport.  `clock i` is the i-th reading of the monotonic clock,
    `io i` the result of the i-th call of the transport's send/receive function; `calls` records, in order, the arguments of
    every transport call (buffer offset, length, timeout) - the observable behaviour of the translated function. -/
structure World where
  clock : Nat → BitVec 64
  io : Nat → BitVec 32
  nclock : Nat := 0
  nio : Nat := 0
  calls : List (Nat × BitVec 64 × BitVec 64) := []

/-- `lrtr_get_monotonic_time(&t)`: return code 0 and the next clock reading -/
def extTime (w : World) : BitVec 32 × BitVec 64 × World :=
  (0#32, w.clock w.nclock, { w with nclock := w.nclock + 1 })

/-- `tr_send` / `tr_recv` (buffer, length, timeout): the world's next answer; the call is recorded -/
def extIo (w : World) (buf : Nat) (len : BitVec 64) (timeout : BitVec 64) : BitVec 32 × World :=
  (w.io w.nio, { w with nio := w.nio + 1, calls := w.calls ++ [(buf, len, timeout)] })

/-- result of one iteration of a translated loop -/
inductive Step (ρ σ : Type) where
  | done (r : ρ)
  | next (s : σ)

/-- answer of the world to an external call: return value, auxiliary 64-bit value (e.g. the time), and the record the
    callee may have changed -/
structure ExtAns (σ : Type) where
  rc : BitVec 64
  aux : BitVec 64
  st : σ
  /-- what a callee that fills a buffer (rtr_receive_pdu) left in it -/
  buf : List (BitVec 8) := []

/-- the world of a function whose callees are not translated (the state machine): the i-th external call is answered by
    `ext i`; `trace` records every call with its name, its recorded scalar arguments and the record at the time of the call -/
structure XWorld (σ : Type) where
  ext : Nat → ExtAns σ
  n : Nat := 0
  trace : List (String × List (BitVec 64) × σ) := []

def xcall {σ : Type} (w : XWorld σ) (name : String) (args : List (BitVec 64)) (s : σ) : BitVec 64 × BitVec 64 × σ × XWorld σ :=
  ((w.ext w.n).rc, (w.ext w.n).aux, (w.ext w.n).st, { w with n := w.n + 1, trace := w.trace ++ [(name, args, s)] })

/-- an external call that also fills the function's buffer -/
def xcallBuf {σ : Type} (w : XWorld σ) (name : String) (args : List (BitVec 64)) (s : σ) :
    BitVec 64 × BitVec 64 × σ × List (BitVec 8) × XWorld σ :=
  ((w.ext w.n).rc, (w.ext w.n).aux, (w.ext w.n).st, (w.ext w.n).buf, { w with n := w.n + 1, trace := w.trace ++ [(name, args, s)] })

/-- memory holding a byte string (zeros beyond it) -/
def memOfBytes (l : List (BitVec 8)) : Nat → BitVec 8 := fun a => l.getD a 0#8

/-- objects of the translated function itself whose address is taken live above this address, each in a page of its own -/
def STACK : Nat := 2 ^ 40

/-- `memcpy(dst, src, n)` (the ranges do not overlap: guarded at the call) -/
def memcpy (mem : Nat → BitVec 8) (dst src n : Nat) : Nat → BitVec 8 :=
  fun a => if dst ≤ a ∧ a < dst + n then mem (src + (a - dst)) else mem a

/-- a callee that is not translated wrote `n` bytes at `dst`: what it wrote is the world's answer -/
def memFill (mem : Nat → BitVec 8) (dst n : Nat) (bytes : List (BitVec 8)) : Nat → BitVec 8 :=
  fun a => if dst ≤ a ∧ a < dst + n then bytes.getD (a - dst) 0#8 else mem a

/-- the `n` bytes at `a`, as recorded arguments of an external call -/
def bytesAt (mem : Nat → BitVec 8) (a n : Nat) : List (BitVec 64) :=
  (List.range n).map fun i => BitVec.setWidth 64 (mem (a + i))

/-- fuel of translated loops: more iterations than any counter of the translated code can count -/
def FUEL : Nat := 2 ^ 64 + 1

/-- memory made of a byte list (bytes beyond the list read as 0; the bounds guards never let them be read when
    `msize` is the length of the list) -/
def memOfList (l : List Nat) : Nat → BitVec 8 := fun a => BitVec.ofNat 8 (l.getD a 0)

end Rtr.Gen.C
