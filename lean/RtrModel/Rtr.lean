/-
  Rtr: executable model of rtrlib/rtr/packets.c, rtrlib/rtr/rtr.c and the two loops of
  rtrlib/transport/transport.c — the RTR protocol client: PDU reception and checking, error
  reports, the synchronisation (`rtr_sync`), the state machine (`rtr_fsm_start`), `rtr_stop`.

  * The transport is a script: an input tape (byte chunks, transport errors, time passing), a queue
    of send outcomes and a queue of open outcomes; the clock is a counter.  Every transport call,
    sleep and state callback is appended to `trace`, in exactly the format the C harness prints.
  * The prefix table and the router-key table are the abstract sets justified by the refinement
    theorems of C02 and C10 (`List` without duplicates, order irrelevant; dumps are sorted).
  * A received PDU is kept as the list of its bytes as received (`raw`); fields are read from it
    big-endian.  The C code converts the buffer to host byte order in place and back before echoing
    it in an Error Report; `encodeDecode` (RtrProofs/Pdu) shows that this round trip is the identity
    on every PDU that passed the size check, so "echo the bytes as received" is what the code does.
  * Thread cancellation is not modelled (the script ends by a stop request observed in recv).
-/
import RtrModel.PfxTable
import RtrModel.Proto
import RtrModel.Generated.Constants
import RtrModel.Generated.PduLayout

namespace Rtr
namespace P

/-! ## basic types -/

/-- `enum rtr_socket_state` -/
inductive SState where
  | connecting | established | reset | sync | fastReconnect | errNoData | errNoIncr | errFatal
  | errTransport | shutdown | closed
deriving DecidableEq, Repr, Inhabited

def SState.name : SState → String
  | .connecting => "CONNECTING" | .established => "ESTABLISHED" | .reset => "RESET" | .sync => "SYNC"
  | .fastReconnect => "FAST_RECONNECT" | .errNoData => "ERROR_NO_DATA_AVAIL"
  | .errNoIncr => "ERROR_NO_INCR_UPDATE_AVAIL" | .errFatal => "ERROR_FATAL"
  | .errTransport => "ERROR_TRANSPORT" | .shutdown => "SHUTDOWN" | .closed => "CLOSED"

def SState.ofCode : Nat → Option SState
  | 0 => some .connecting | 1 => some .established | 2 => some .reset | 3 => some .sync
  | 4 => some .fastReconnect | 5 => some .errNoData | 6 => some .errNoIncr | 7 => some .errFatal
  | 8 => some .errTransport | 9 => some .shutdown | 10 => some .closed | _ => none

/-- `enum rtr_interval_mode` -/
inductive IvMode where
  | ignoreAny | acceptAny | defaultMinMax | ignoreOnFailure
deriving DecidableEq, Repr, Inhabited

def IvMode.ofCode : Nat → Option IvMode
  | 0 => some .ignoreAny | 1 => some .acceptAny | 2 => some .defaultMinMax | 3 => some .ignoreOnFailure | _ => none

/-- connection part of `struct rtr_socket`: what the receive path reads and writes -/
structure Conn where
  state : SState := .closed
  version : Nat := Gen.RTR_PROTOCOL_MAX_SUPPORTED_VERSION
  hasReceived : Bool := false
deriving Repr, Inhabited

/-- session part of `struct rtr_socket` -/
structure Sess where
  session : Nat := 0
  serial : Nat := 0
  reqSession : Bool := true
  lastUpdate : Int := 0
  isResetting : Bool := false
deriving Repr, Inhabited

/-- the three intervals and the interval mode -/
structure Timers where
  refresh : Nat := 3600
  retry : Nat := 600
  expire : Nat := 7200
  ivMode : IvMode := .acceptAny
deriving Repr, Inhabited

/-- `struct spki_record` with `src` for the socket -/
structure KeyRec where
  asn : Nat
  ski : List Nat
  spki : List Nat
  src : Nat
deriving DecidableEq, Repr

/-- the shadow tables of a full reload (copies of the live tables without this socket's records) -/
structure Upd where
  pt : List Rec
  kt : List KeyRec
deriving Inhabited

/-- the two tables (all sources; `src` 0 = this socket) and the shadow tables of a reload in progress -/
structure Tbl where
  pt : List Rec := []
  kt : List KeyRec := []
  shadow : Option Upd := none
deriving Inhabited

inductive TapeEv where
  | rx (bytes : List Nat)
  | err | block | intr | closed
  | dt (n : Nat)
deriving Repr

inductive SendEv where
  | all | part (n : Nat) | err | block
deriving Repr

/-- the environment: scripted transport, clock, trace (most recent line first) -/
structure Net where
  tape : List TapeEv := []
  sendQ : List SendEv := []
  openQ : List Int := []
  now : Int := 1000
  trace : List String := []
  threaded : Bool := false
deriving Inhabited

structure St where
  c : Conn := {}
  ss : Sess := {}
  tm : Timers := {}
  n : Net := {}
  t : Tbl := {}
deriving Inhabited

def Net.emit (n : Net) (line : String) : Net := { n with trace := line :: n.trace }

/-! ## tables as sets -/

def ptAdd (t : List Rec) (r : Rec) : List Rec × PfxRc := if r ∈ t then (t, .duplicate) else (r :: t, .success)
def ptRemove (t : List Rec) (r : Rec) : List Rec × PfxRc := if r ∈ t then (t.erase r, .success) else (t, .notFound)
def ptSrcRemove (t : List Rec) (src : Nat) : List Rec := t.filter fun r => r.src != src
def ktAdd (t : List KeyRec) (r : KeyRec) : List KeyRec × PfxRc := if r ∈ t then (t, .duplicate) else (r :: t, .success)
def ktRemove (t : List KeyRec) (r : KeyRec) : List KeyRec × PfxRc := if r ∈ t then (t.erase r, .success) else (t, .notFound)
def ktSrcRemove (t : List KeyRec) (src : Nat) : List KeyRec := t.filter fun r => r.src != src

/-- number of records of this socket in the live tables (what a state callback can see) -/
def Tbl.own (t : Tbl) : Nat :=
  (t.pt.filter (fun (r : Rec) => r.src == 0)).length + (t.kt.filter (fun (r : KeyRec) => r.src == 0)).length

/-- the tables a synchronisation writes to: the shadow ones during a reload, else the live ones -/
def Tbl.upd (t : Tbl) : Upd := match t.shadow with | some u => u | none => ⟨t.pt, t.kt⟩
def Tbl.setUpd (t : Tbl) (u : Upd) : Tbl :=
  match t.shadow with | some _ => { t with shadow := some u } | none => { t with pt := u.pt, kt := u.kt }
/-- remove this socket's records from the live tables -/
def Tbl.purge (t : Tbl) : Tbl := { t with pt := ptSrcRemove t.pt 0, kt := ktSrcRemove t.kt 0 }

/-! ## bytes -/

def be16 (b : List Nat) (off : Nat) : Nat := b.getD off 0 * 256 + b.getD (off+1) 0
def be32 (b : List Nat) (off : Nat) : Nat :=
  ((b.getD off 0 * 256 + b.getD (off+1) 0) * 256 + b.getD (off+2) 0) * 256 + b.getD (off+3) 0
def toBE16 (n : Nat) : List Nat := [(n / 256) % 256, n % 256]
def toBE32 (n : Nat) : List Nat := [(n / 16777216) % 256, (n / 65536) % 256, (n / 256) % 256, n % 256]
def be128 (b : List Nat) (off : Nat) : Nat :=
  ((be32 b off * 4294967296 + be32 b (off+4)) * 4294967296 + be32 b (off+8)) * 4294967296 + be32 b (off+12)

def strBytes (s : String) : List Nat := s.toUTF8.toList.map (·.toNat)
/-- `sizeof(txt)` of a string literal: the characters and the terminating NUL -/
def cstr (s : String) : List Nat := strBytes s ++ [0]

def hex (b : List Nat) : String := Proto.bytesToHex b

/-! ## state changes -/

/-- `rtr_change_socket_state`; `own` = number of this socket's records the callback can see -/
def changeState (c : Conn) (n : Net) (own : Nat) (new : SState) : Conn × Net :=
  if c.state = new then (c, n)
  else if c.state = .shutdown then (c, n)
  else ({ c with state := new }, n.emit s!"S {new.name} {n.now} {own}")

/-! ## scripted transport -/

/-- one `tr_recv(len, timeout)` call: result code (bytes delivered, or a negative tr_rtvals), the
    bytes, the environment, and whether a stop request was observed (end of script, threaded run) -/
def trRecvGo (n0 : Net) (len : Nat) (timeout : Int) : List TapeEv → Int → Int × List Nat × Net × Bool
  | [], now =>
    (-1, [], ({ n0 with tape := [], now := now }).emit s!"R {len} {timeout} -> eof", n0.threaded)
  | .dt d :: rest, now => trRecvGo n0 len timeout rest (now + d)
  | .rx bytes :: rest, now =>
    let k := min bytes.length len
    let got := bytes.take k
    let left := bytes.drop k
    let tape' := if left.isEmpty then rest else .rx left :: rest
    (k, got, ({ n0 with tape := tape', now := now }).emit s!"R {len} {timeout} -> {k} {hex got}", false)
  | .err :: rest, now => (-1, [], ({ n0 with tape := rest, now := now }).emit s!"R {len} {timeout} -> -1", false)
  | .block :: rest, now =>
    (-2, [], ({ n0 with tape := rest, now := if timeout > 0 then now + timeout else now }).emit s!"R {len} {timeout} -> -2", false)
  | .intr :: rest, now => (-3, [], ({ n0 with tape := rest, now := now }).emit s!"R {len} {timeout} -> -3", false)
  | .closed :: rest, now => (-4, [], ({ n0 with tape := rest, now := now }).emit s!"R {len} {timeout} -> -4", false)

def trRecv (n : Net) (len : Nat) (timeout : Int) : Int × List Nat × Net × Bool :=
  trRecvGo n len timeout n.tape n.now

/-- the loop of `tr_recv_all`: `acc` = bytes so far -/
def recvAllLoop (len : Nat) (endTime : Int) : Nat → Net → List Nat → Int × List Nat × Net × Bool
  | 0, n, acc => (acc.length, acc, n, false)
  | fuel + 1, n, acc =>
    if acc.length < len then
      match trRecv n (len - acc.length) (endTime - n.now) with
      | (rc, got, n', stop) => if rc < 0 then (rc, acc, n', stop) else recvAllLoop len endTime fuel n' (acc ++ got)
    else (acc.length, acc, n, false)

/-- `tr_recv_all(len, timeout)`: the negative code of the first failing call, or `len` -/
def recvAll (n : Net) (len : Nat) (timeout : Int) : Int × List Nat × Net × Bool :=
  recvAllLoop len (n.now + timeout) (len + 1) n []

/-- one `tr_send(len)` call -/
def trSend (n : Net) (bytes : List Nat) : Int × Net :=
  let len := bytes.length
  match n.sendQ with
  | .err :: q => (-1, ({ n with sendQ := q }).emit s!"W {len} -> -1")
  | .block :: q => (-2, ({ n with sendQ := q }).emit s!"W {len} -> -2")
  | .part k :: q =>
    let m := if min k len = 0 then 1 else min k len
    (m, ({ n with sendQ := q }).emit s!"W {len} -> {m} {hex (bytes.take m)}")
  | .all :: q => (len, ({ n with sendQ := q }).emit s!"W {len} -> {len} {hex bytes}")
  | [] => (len, n.emit s!"W {len} -> {len} {hex bytes}")

/-- the loop of `tr_send_all` -/
def sendAllLoop : Nat → Net → List Nat → Nat → Int × Net
  | 0, n, _, total => (total, n)
  | fuel + 1, n, rest, total =>
    if rest.isEmpty then (total, n)
    else
      match trSend n rest with
      | (rc, n') => if rc < 0 then (rc, n') else sendAllLoop fuel n' (rest.drop rc.toNat) (total + rc.toNat)

def sendAll (n : Net) (bytes : List Nat) : Int × Net := sendAllLoop (bytes.length + 1) n bytes 0

/-- `rtr_send_pdu` (the argument is already in network byte order): `true` = RTR_SUCCESS -/
def sendPdu (c : Conn) (n : Net) (bytes : List Nat) : Bool × Net :=
  if c.state = .shutdown then (false, n)
  else
    match sendAll n bytes with
    | (rc, n') => (decide (rc > 0), n')

/-! ## Error Reports -/

/-- the bytes of an Error Report PDU -/
def errorPduBytes (ver : Nat) (enc : List Nat) (code : Nat) (text : List Nat) : List Nat :=
  [ver % 256, 10] ++ toBE16 code ++ toBE32 (16 + enc.length + text.length) ++ toBE32 enc.length ++ enc ++
    toBE32 text.length ++ text

/-- `rtr_send_error_pdu`: `enc` = the erroneous PDU in network byte order -/
def sendErrorPdu (c : Conn) (n : Net) (enc : List Nat) (code : Nat) (text : List Nat) : Bool × Net :=
  if enc.length ≥ 2 ∧ enc.getD 1 0 = 10 then (true, n)        -- never answer an Error Report
  else sendPdu c n (errorPduBytes c.version enc code text)

/-- `rtr_send_error_pdu_from_host(pdu, len)`: `raw` = the bytes of the PDU as received (see the
    file header), `k` = `erroneous_pdu_len` -/
def sendErrorFromHost (c : Conn) (n : Net) (raw : List Nat) (k : Nat) (code : Nat) (text : List Nat) : Bool × Net :=
  if k = 0 then sendErrorPdu c n [] code text
  else if k < 8 then (false, n)
  else sendErrorPdu c n (raw.take k) code text

/-! ## PDU checks -/

def typeOf (raw : List Nat) : Nat := raw.getD 1 0
def verOf (raw : List Nat) : Nat := raw.getD 0 0
def lenOf (raw : List Nat) : Nat := be32 raw 4

/-- `rtr_pdu_check_size` on a complete PDU (`raw.length = lenOf raw`) -/
def checkSize (raw : List Nat) : Bool :=
  let len := lenOf raw
  match typeOf raw with
  | 0 => len == Gen.sizeof_pdu_serial_notify
  | 1 => len == Gen.sizeof_pdu_serial_query
  | 2 => len == Gen.sizeof_pdu_reset_query
  | 3 => len == Gen.sizeof_pdu_cache_response
  | 4 => len == Gen.sizeof_pdu_ipv4
  | 6 => len == Gen.sizeof_pdu_ipv6
  | 7 => (verOf raw == 0 && len == Gen.sizeof_pdu_end_of_data_v0) || (verOf raw == 1 && len == Gen.sizeof_pdu_end_of_data_v1)
  | 8 => len == Gen.sizeof_pdu_header
  | 9 => len == Gen.sizeof_pdu_router_key
  | 10 =>
    if len < 4 + Gen.sizeof_pdu_error then false
    else
      let encLen := be32 raw 8
      if len < 4 + Gen.sizeof_pdu_error + encLen then false
      else
        let txtLen := be32 raw (12 + encLen)
        len == 4 + Gen.sizeof_pdu_error + encLen + txtLen
  | _ => false

/-- result of `rtr_receive_pdu` -/
inductive RecvRes where
  | ok (raw : List Nat)
  | rc (code : Int)       -- RTR_ERROR (-1), TR_WOULDBLOCK (-2), TR_INTR (-3), TR_CLOSED (-4)
deriving Repr

def txtCorrupt : List Nat := cstr "corrupt data received, length value in PDU is too small"
def txtTooBig : List Nat := cstr s!"PDU too big, max. PDU size is: {Gen.RTR_MAX_PDU_LEN} bytes"

/-- a stop request observed by the transport (`rtr_stop` sets the state first) -/
def applyStop (c : Conn) (stop : Bool) : Conn := if stop then { c with state := .shutdown } else c

/-- the `error:` label of `rtr_receive_pdu` for a negative transport code -/
def recvTransportError (c : Conn) (n : Net) (own : Nat) (code : Int) : RecvRes × Conn × Net :=
  if code = -1 then
    match changeState c n own .errTransport with | (c, n) => (.rc (-1), c, n)
  else if code = -2 then (.rc (-2), c, n)
  else if code = -3 then (.rc (-3), c, n)
  else if code = -4 then
    match changeState c n own .errFatal with | (c, n) => (.rc (-4), c, n)     -- TR_CLOSED is handed to the caller
  else
    match changeState c n own .errFatal with | (c, n) => (.rc (-1), c, n)

/-- `rtr_receive_pdu(timeout)`; `own` as for `changeState` (the tables are not touched) -/
def receivePdu (c : Conn) (n : Net) (own : Nat) (timeout : Int) : RecvRes × Conn × Net :=
  if c.state = .shutdown then (.rc (-1), c, n)
  else
    match recvAll n 8 timeout with
    | (rc, hdr, n, stop) =>
    let c := applyStop c stop
    if rc < 0 then recvTransportError c n own rc
    else
      let len := lenOf hdr
      if len < 8 then
        match sendErrorPdu c n hdr 0 txtCorrupt with
        | (_, n) => match changeState c n own .errFatal with | (c, n) => (.rc (-1), c, n)
      else if len > Gen.RTR_MAX_PDU_LEN then
        match sendErrorPdu c n hdr 0 txtTooBig with
        | (_, n) => match changeState c n own .errFatal with | (c, n) => (.rc (-1), c, n)
      else
        -- live downgrade on the first PDU of a connection
        let c :=
          if !c.hasReceived then
            let v := if c.version = 1 ∧ verOf hdr = 0 ∧ typeOf hdr ≠ 10 then 0 else c.version
            { c with version := v, hasReceived := true }
          else c
        if verOf hdr ≠ c.version ∧ typeOf hdr ≠ 10 then
          match sendErrorPdu c n hdr 8 [] with
          | (_, n) => (.rc (-1), c, n)                                    -- no state change
        else
          let remaining := len - 8
          if remaining > 0 ∧ c.state = .shutdown then (.rc (-1), c, n)
          else
            match (if remaining > 0 then recvAll n remaining Gen.RTR_RECV_TIMEOUT
                   else ((0 : Int), ([] : List Nat), n, false)) with
            | (rc2, body, n, stop2) =>
            let c := applyStop c stop2
            if rc2 < 0 then recvTransportError c n own rc2
            else
              let raw := hdr ++ body
              if !checkSize raw then
                match sendErrorPdu c n hdr 0 txtCorrupt with
                | (_, n) => match changeState c n own .errFatal with | (c, n) => (.rc (-1), c, n)
              else (.ok raw, c, n)

/-! ## handlers -/

/-- `rtr_handle_error_pdu` -/
def handleErrorPdu (c : Conn) (n : Net) (own : Nat) (raw : List Nat) : Conn × Net :=
  let code := be16 raw 2
  if code = 2 then changeState c n own .errNoData
  else if code = 4 then
    let v := verOf raw
    if v ≤ Gen.RTR_PROTOCOL_MAX_SUPPORTED_VERSION ∧ v ≥ Gen.RTR_PROTOCOL_MIN_SUPPORTED_VERSION ∧ v < c.version then
      changeState { c with version := v } n own .fastReconnect
    else changeState c n own .errFatal
  else changeState c n own .errFatal

def txtWrongSession : List Nat := cstr "Wrong session_id in Cache Response PDU"

/-- `rtr_handle_cache_response_pdu`: `true` = RTR_SUCCESS -/
def handleCacheResponse (c : Conn) (ss : Sess) (n : Net) (own : Nat) (raw : List Nat) : Bool × Conn × Sess × Net :=
  let sess := be16 raw 2
  if ss.reqSession then
    let ss := if ss.lastUpdate ≠ 0 then { ss with isResetting := true } else ss
    (true, c, { ss with session := sess }, n)
  else if ss.session ≠ sess then
    match sendErrorFromHost c n [] 0 0 txtWrongSession with
    | (_, n) => match changeState c n own .errFatal with | (c, n) => (false, c, ss, n)
  else (true, c, ss, n)

/-- `rtr_prefix_pdu_2_pfx_record` (source 0 = this socket) -/
def pfxRecOf (raw : List Nat) : Rec :=
  if typeOf raw = 4 then ⟨false, be32 raw 12, raw.getD 9 0, raw.getD 10 0, be32 raw 16, 0⟩
  else ⟨true, be128 raw 12, raw.getD 9 0, raw.getD 10 0, be32 raw 28, 0⟩

def keyRecOf (raw : List Nat) : KeyRec :=
  ⟨be32 raw 28, (raw.drop 8).take 20, (raw.drop 32).take 91, 0⟩

def flagsOf (raw : List Nat) : Nat := if typeOf raw = 9 then raw.getD 2 0 else raw.getD 8 0

def txtBadFlagsPfx : List Nat := cstr "Prefix PDU with invalid flags value received"
def txtBadLenPfx : List Nat := cstr "Prefix PDU with invalid length value received"
def txtBadFlagsKey : List Nat := cstr "Router Key PDU with invalid flags value received"

/-- `rtr_update_pfx_table`: `true` = success -/
def updatePfx (c : Conn) (n : Net) (t : Tbl) (raw : List Nat) : Bool × Conn × Net × Tbl :=
  let r := pfxRecOf raw
  let maxBits := if r.v6 then 128 else 32
  if r.len > maxBits ∨ r.maxLen > maxBits then
    match sendErrorFromHost c n raw raw.length 0 txtBadLenPfx with | (_, n) => (false, c, n, t)
  else if flagsOf raw ≠ 0 ∧ flagsOf raw ≠ 1 then
    match sendErrorFromHost c n raw raw.length 0 txtBadFlagsPfx with | (_, n) => (false, c, n, t)
  else
    let u := t.upd
    match (if flagsOf raw = 1 then ptAdd u.pt r else ptRemove u.pt r) with
    | (_, .duplicate) =>
      match sendErrorFromHost c n raw raw.length 7 [] with
      | (_, n) => match changeState c n t.own .errFatal with | (c, n) => (false, c, n, t)
    | (_, .notFound) =>
      match sendErrorFromHost c n raw raw.length 6 [] with
      | (_, n) => match changeState c n t.own .errFatal with | (c, n) => (false, c, n, t)
    | (_, .error) => (false, c, n, t)
    | (pt', .success) => (true, c, n, t.setUpd { u with pt := pt' })

/-- `rtr_update_spki_table` -/
def updateKey (c : Conn) (n : Net) (t : Tbl) (raw : List Nat) : Bool × Conn × Net × Tbl :=
  let r := keyRecOf raw
  if flagsOf raw ≠ 0 ∧ flagsOf raw ≠ 1 then
    match sendErrorFromHost c n raw raw.length 0 txtBadFlagsKey with | (_, n) => (false, c, n, t)
  else
    let u := t.upd
    match (if flagsOf raw = 1 then ktAdd u.kt r else ktRemove u.kt r) with
    | (_, .duplicate) =>
      match sendErrorFromHost c n raw raw.length 7 [] with
      | (_, n) => match changeState c n t.own .errFatal with | (c, n) => (false, c, n, t)
    | (_, .notFound) =>
      match sendErrorFromHost c n raw raw.length 6 [] with
      | (_, n) => match changeState c n t.own .errFatal with | (c, n) => (false, c, n, t)
    | (_, .error) => (false, c, n, t)
    | (kt', .success) => (true, c, n, t.setUpd { u with kt := kt' })

/-- `rtr_undo_update_pfx_table`: the inverse operation; `true` = PFX_SUCCESS -/
def undoPfx (t : Tbl) (raw : List Nat) : Bool × Tbl :=
  let r := pfxRecOf raw
  let u := t.upd
  match (if flagsOf raw = 1 then ptRemove u.pt r else ptAdd u.pt r) with
  | (pt', .success) => (true, t.setUpd { u with pt := pt' })
  | _ => (false, t)

def undoKey (t : Tbl) (raw : List Nat) : Bool × Tbl :=
  let r := keyRecOf raw
  let u := t.upd
  match (if flagsOf raw = 1 then ktRemove u.kt r else ktAdd u.kt r) with
  | (kt', .success) => (true, t.setUpd { u with kt := kt' })
  | _ => (false, t)

/-- forward-order undo of a list of PDUs, stopping at the first failure: `true` = all undone -/
def undoAllPfx (t : Tbl) : List (List Nat) → Bool × Tbl
  | [] => (true, t)
  | p :: ps => match undoPfx t p with | (ok, t') => if ok then undoAllPfx t' ps else (false, t')

def undoAllKey (t : Tbl) : List (List Nat) → Bool × Tbl
  | [] => (true, t)
  | p :: ps => match undoKey t p with | (ok, t') => if ok then undoAllKey t' ps else (false, t')

/-- apply a list of PDUs in order; on the first failure return the PDUs applied so far -/
def applyPfx (c : Conn) (n : Net) (t : Tbl) : List (List Nat) → List (List Nat) → Bool × Conn × Net × Tbl × List (List Nat)
  | [], done => (true, c, n, t, done)
  | p :: ps, done =>
    match updatePfx c n t p with
    | (ok, c', n', t') => if ok then applyPfx c' n' t' ps (done ++ [p]) else (false, c', n', t', done)

def applyKey (c : Conn) (n : Net) (t : Tbl) : List (List Nat) → List (List Nat) → Bool × Conn × Net × Tbl × List (List Nat)
  | [], done => (true, c, n, t, done)
  | p :: ps, done =>
    match updateKey c n t p with
    | (ok, c', n', t') => if ok then applyKey c' n' t' ps (done ++ [p]) else (false, c', n', t', done)

/-! ## intervals (End of Data, protocol version 1) -/

def applyIv (mode : IvMode) (cur val lo hi : Nat) : Nat :=
  if (lo ≤ val ∧ val ≤ hi) ∨ mode = .acceptAny then val
  else if mode = .defaultMinMax then (if val < lo then lo else hi)
  else cur

def applyEodIntervals (tm : Timers) (raw : List Nat) : Timers :=
  if verOf raw = 1 ∧ tm.ivMode ≠ .ignoreAny then
    let tm := { tm with expire := applyIv tm.ivMode tm.expire (be32 raw 20) Gen.RTR_EXPIRATION_MIN Gen.RTR_EXPIRATION_MAX }
    let tm := { tm with refresh := applyIv tm.ivMode tm.refresh (be32 raw 12) Gen.RTR_REFRESH_MIN Gen.RTR_REFRESH_MAX }
    { tm with retry := applyIv tm.ivMode tm.retry (be32 raw 16) Gen.RTR_RETRY_MIN Gen.RTR_RETRY_MAX }
  else tm

/-! ## rtr_sync_receive_and_store_pdus -/

def txtEodSession (exp got : Nat) : List Nat :=
  -- char txt[67]; snprintf(...); strlen(txt) + 1
  let s := strBytes s!"Expected session_id: {exp}, received session_id. {got} in EOD PDU"
  s.take 66 ++ [0]

def txtUnexpectedSync : List Nat := cstr "Unexpected PDU received during data synchronisation"
def txtUnexpectedSync2 : List Nat := cstr "Unexpected PDU received in data synchronisation"

/-- result of the table part of the End of Data branch -/
structure ApplyRes where
  ok : Bool
  purged : Bool        -- the undo did not restore: this socket's records were purged, a new session is requested
  c : Conn
  n : Net
  t : Tbl

/-- a buffered PDU could not be applied: if the undo did not restore the tables, purge this socket's
    records; the socket goes to RTR_ERROR_FATAL -/
def applyFail (undone : Bool) (c : Conn) (n : Net) (t : Tbl) : ApplyRes :=
  let t := if undone then t else t.purge
  match changeState c n t.own .errFatal with
  | (c, n) => { ok := false, purged := !undone, c := c, n := n, t := t }

/-- a reload swaps the shadow tables in -/
def Tbl.swapIn (t : Tbl) : Tbl :=
  match t.shadow with
  | some u => { pt := u.pt, kt := u.kt, shadow := none }
  | none => t

/-- the table part of the End of Data branch, once the PDUs are buffered: apply the three arrays in
    order; on a failure undo in forward order, purge if the undo fails -/
def applyTables (c : Conn) (n : Net) (t : Tbl) (resetting : Bool) (v4 v6 keys : List (List Nat)) : ApplyRes :=
  -- shadow tables: copies without this socket's records
  let t := if resetting then { t with shadow := some ⟨ptSrcRemove t.pt 0, ktSrcRemove t.kt 0⟩ } else t
  match applyPfx c n t v4 [] with
  | (ok4, c, n, t, done4) =>
  if !ok4 then
    match undoAllPfx t done4 with | (undone, t) => applyFail undone c n t
  else
    match applyPfx c n t v6 [] with
    | (ok6, c, n, t, done6) =>
    if !ok6 then
      match undoAllPfx t v4 with
      | (un4, t) =>
        match (if un4 then undoAllPfx t done6 else (false, t)) with
        | (un6, t) => applyFail (un4 && un6) c n t
    else
      match applyKey c n t keys [] with
      | (okk, c, n, t, donek) =>
      if !okk then
        match undoAllPfx t v4 with
        | (un4, t) =>
          match (if un4 then undoAllPfx t v6 else (false, t)) with
          | (un6, t) =>
            match (if un4 && un6 then undoAllKey t donek else (false, t)) with
            | (unk, t) => applyFail (un4 && un6 && unk) c n t
      else { ok := true, purged := false, c := c, n := n, t := t.swapIn }

/-- the End of Data branch: intervals, tables, serial number -/
def applyBuffered (st : St) (eod : List Nat) (v4 v6 keys : List (List Nat)) : Bool × St :=
  let tm := applyEodIntervals st.tm eod
  let r := applyTables st.c st.n st.t st.ss.isResetting v4 v6 keys
  let ss := if r.ok then { st.ss with serial := be32 eod 8 }
            else if r.purged then { st.ss with reqSession := true } else st.ss
  (r.ok, { c := r.c, ss := ss, tm := tm, n := r.n, t := r.t })

/-- the `cleanup:` label -/
def cleanup (r : Bool × St) : Bool × St :=
  (r.1, { r.2 with t := { r.2.t with shadow := none }, ss := { r.2.ss with isResetting := false } })

/-- ghost output of a synchronisation: the End of Data PDU and the buffered Prefix / Router Key PDUs -/
structure Buffered where
  eod : List Nat
  v4 : List (List Nat)
  v6 : List (List Nat)
  keys : List (List Nat)

/-- the receive loop of `rtr_sync_receive_and_store_pdus`; `true` = RTR_SUCCESS.
    `fuel` bounds the number of PDUs (every iteration consumes at least 8 bytes of tape or ends).
    The third component is ghost: what was buffered when the End of Data branch ran. -/
def recvAndStore : Nat → St → List (List Nat) → List (List Nat) → List (List Nat) → Bool × St × Option Buffered
  | 0, st, _, _, _ => (false, st, none)
  | fuel + 1, st, v4, v6, keys =>
    match receivePdu st.c st.n st.t.own Gen.RTR_RECV_TIMEOUT with
    | (.rc code, c, n) =>
      if code = -2 then
        match changeState c n st.t.own .errTransport with
        | (c, n) => match cleanup (false, { st with c := c, n := n }) with | (ok, st) => (ok, st, none)
      else match cleanup (false, { st with c := c, n := n }) with | (ok, st) => (ok, st, none)
    | (.ok raw, c, n) =>
      let st := { st with c := c, n := n }
      match typeOf raw with
      | 4 => recvAndStore fuel st (v4 ++ [raw]) v6 keys
      | 6 => recvAndStore fuel st v4 (v6 ++ [raw]) keys
      | 9 => recvAndStore fuel st v4 v6 (keys ++ [raw])
      | 7 =>
        if be16 raw 2 ≠ st.ss.session then
          match sendErrorFromHost st.c st.n raw raw.length 0 (txtEodSession st.ss.session (be16 raw 2)) with
          | (_, n) =>
            match changeState st.c n st.t.own .errFatal with
            | (c, n) => match cleanup (false, { st with c := c, n := n }) with | (ok, st) => (ok, st, none)
        else match cleanup (applyBuffered st raw v4 v6 keys) with | (ok, st) => (ok, st, some ⟨raw, v4, v6, keys⟩)
      | 10 =>
        match handleErrorPdu st.c st.n st.t.own raw with
        | (c, n) => match cleanup (false, { st with c := c, n := n }) with | (ok, st) => (ok, st, none)
      | 0 => recvAndStore fuel st v4 v6 keys                    -- Serial Notify is ignored
      | _ =>
        match sendErrorFromHost st.c st.n raw 8 0 txtUnexpectedSync with
        | (_, n) => match cleanup (false, { st with n := n }) with | (ok, st) => (ok, st, none)

/-- the first loop of `rtr_sync`: skip Serial Notify PDUs; `none` = the exchange failed here -/
def syncFirst : Nat → St → Option (List Nat) × St
  | 0, st => (none, st)
  | fuel + 1, st =>
    match receivePdu st.c st.n st.t.own Gen.RTR_RECV_TIMEOUT with
    | (.rc code, c, n) =>
      if code = -4 ∧ st.ss.reqSession ∧ c.version > Gen.RTR_PROTOCOL_MIN_SUPPORTED_VERSION then
        match changeState { c with version := c.version - 1 } n st.t.own .fastReconnect with
        | (c, n) => (none, { st with c := c, n := n })
      else if code = -2 then
        match changeState c n st.t.own .errTransport with
        | (c, n) => (none, { st with c := c, n := n })
      else (none, { st with c := c, n := n })
    | (.ok raw, c, n) =>
      if typeOf raw = 0 then syncFirst fuel { st with c := c, n := n } else (some raw, { st with c := c, n := n })

/-- `rtr_sync` with its ghost output (the Cache Response PDU and what was buffered) -/
def syncG (fuel : Nat) (st : St) : Bool × St × Option (List Nat × Buffered) :=
  match syncFirst fuel st with
  | (none, st) => (false, st, none)
  | (some raw, st) =>
    match typeOf raw with
    | 10 => match handleErrorPdu st.c st.n st.t.own raw with | (c, n) => (false, { st with c := c, n := n }, none)
    | 8 => match changeState st.c st.n st.t.own .errNoIncr with | (c, n) => (false, { st with c := c, n := n }, none)
    | 3 =>
      match handleCacheResponse st.c st.ss st.n st.t.own raw with
      | (ok, c, ss, n) =>
        let st := { st with c := c, ss := ss, n := n }
        if !ok then (false, st, none)
        else
          match recvAndStore fuel st [] [] [] with
          | (ok, st, g) =>
            if !ok then (false, st, none)
            else (true, { st with ss := { st.ss with reqSession := false, lastUpdate := st.n.now } }, g.map fun b => (raw, b))
    | _ =>
      match sendErrorFromHost st.c st.n raw 8 0 txtUnexpectedSync2 with
      | (_, n) => (false, { st with n := n }, none)

/-- `rtr_sync`; `true` = RTR_SUCCESS -/
def sync (fuel : Nat) (st : St) : Bool × St := ((syncG fuel st).1, (syncG fuel st).2.1)

/-- `rtr_wait_for_sync`; `true` = RTR_SUCCESS -/
def waitForSync (st : St) : Bool × St :=
  let wait := (st.ss.lastUpdate + st.tm.refresh) - st.n.now
  let wait := if wait < 0 then 0 else wait
  match receivePdu st.c st.n st.t.own wait with
  | (.ok raw, c, n) => (typeOf raw = 0, { st with c := c, n := n })
  | (.rc code, c, n) => (code = -2, { st with c := c, n := n })

/-! ## queries -/

def serialQueryBytes (ver sess sn : Nat) : List Nat := [ver % 256, 1] ++ toBE16 sess ++ toBE32 12 ++ toBE32 sn
def resetQueryBytes (ver : Nat) : List Nat := [ver % 256, 2, 0, 0] ++ toBE32 8

def sendSerialQuery (st : St) : Bool × St :=
  match sendPdu st.c st.n (serialQueryBytes st.c.version st.ss.session st.ss.serial) with
  | (ok, n) =>
    if ok then (true, { st with n := n })
    else match changeState st.c n st.t.own .errTransport with | (c, n) => (false, { st with c := c, n := n })

def sendResetQuery (st : St) : Bool × St :=
  match sendPdu st.c st.n (resetQueryBytes st.c.version) with
  | (ok, n) =>
    if ok then (true, { st with n := n })
    else match changeState st.c n st.t.own .errTransport with | (c, n) => (false, { st with c := c, n := n })

/-! ## the state machine -/

/-- `rtr_purge_outdated_records` -/
def purgeOutdated (st : St) : St :=
  if st.ss.lastUpdate = 0 then st
  else if st.ss.lastUpdate + st.tm.expire < st.n.now then
    { st with t := st.t.purge,
              ss := { st.ss with reqSession := true, serial := 0, lastUpdate := 0, isResetting := true } }
  else st

def sortStrings (l : List String) : List String := l.mergeSort (fun a b => decide (a ≤ b))

def addrHex (v6 : Bool) (a : Nat) : String := if v6 then Proto.toHex 32 a else Proto.toHex 8 a
def recStr (r : Rec) : String :=
  s!"{if r.v6 then 6 else 4}:{addrHex r.v6 r.addr}/{r.len}-{r.maxLen}:{r.asn}:{r.src}"
def keyStr (k : KeyRec) : String := s!"{k.asn}:{hex k.ski}:{hex k.spki}:{k.src}"

def dumpLines (tag : String) (t : Tbl) : List String :=
  [" ".intercalate ((tag ++ " pfx") :: sortStrings (t.pt.map recStr)),
   " ".intercalate ((tag ++ " keys") :: sortStrings (t.kt.map keyStr))]

/-- `tr_open` on the scripted transport -/
def trOpen (st : St) : Int × St :=
  match (match st.n.openQ with | [] => ((0 : Int), ([] : List Int)) | x :: q => (x, q)) with
  | (rc, q) =>
    let n := { st.n with openQ := q }
    let n := (dumpLines "T" st.t).foldl (fun n l => n.emit l) n
    (rc, { st with n := n.emit s!"O {rc} {n.now} {st.tm.expire}" })

def trClose (st : St) : St := { st with n := st.n.emit "C" }
def doSleep (st : St) (k : Nat) : St := { st with n := ({ st.n with now := st.n.now + k }).emit s!"Z {k}" }

def St.change (st : St) (new : SState) : St :=
  match changeState st.c st.n st.t.own new with | (c, n) => { st with c := c, n := n }

/-- number of 8-byte units on the tape: a bound on the number of PDUs a run can still receive -/
def tapeFuel (n : Net) : Nat :=
  n.tape.foldl (fun k ev => match ev with | .rx b => k + b.length / 8 + 1 | _ => k + 1) 10

/-- one iteration of the `while (1)` loop of `rtr_fsm_start`; `none` = the thread exits -/
def fsmStep (fuel : Nat) (st : St) : Option St :=
  match st.c.state with
  | .connecting =>
    let st := { st with c := { st.c with hasReceived := false } }
    let st := purgeOutdated st
    match trOpen st with
    | (rc, st) =>
      if rc = -1 then some (st.change .errTransport)
      else if st.ss.reqSession then some (st.change .reset)
      else
        match sendSerialQuery st with
        | (ok, st) => if ok then some (st.change .sync) else some (st.change .errFatal)
  | .reset =>
    match sendResetQuery st with
    | (ok, st) => if ok then some (st.change .sync) else some st
  | .sync =>
    match sync fuel st with
    | (ok, st) => if ok then some (st.change .established) else some st
  | .established =>
    match waitForSync st with
    | (ok, st) =>
      if ok then
        match sendSerialQuery st with
        | (ok2, st) => if ok2 then some (st.change .sync) else some st
      else some st
  | .fastReconnect => some ((trClose st).change .connecting)
  | .errNoData =>
    let st := { st with ss := { st.ss with reqSession := true, serial := 0 } }
    let st := st.change .reset
    some (purgeOutdated (doSleep st st.tm.retry))
  | .errNoIncr =>
    let st := { st with ss := { st.ss with reqSession := true, serial := 0 } }
    some (purgeOutdated (st.change .reset))
  | .errTransport =>
    let st := (trClose st).change .connecting
    some (doSleep st st.tm.retry)
  | .errFatal =>
    let st := (trClose st).change .connecting
    some (doSleep st st.tm.retry)
  | .shutdown => none
  | .closed => some st      -- not a state of the running machine; the C loop spins here

/-- `rtr_fsm_start` run to the end of the script -/
def fsmRun : Nat → Nat → St → St
  | 0, _, st => { st with n := st.n.emit "fuel-exhausted" }
  | steps + 1, fuel, st =>
    match fsmStep fuel st with
    | none => st
    | some st' => fsmRun steps fuel st'

def fsmStart (steps fuel : Nat) (st : St) : St :=
  if st.c.state = .shutdown then st
  else fsmRun steps fuel { st with c := { st.c with state := .connecting }, n := { st.n with threaded := true } }

/-- `rtr_stop` after the state machine thread has ended -/
def stop (st : St) : St :=
  let st := st.change .shutdown
  let st := trClose st
  { st with t := st.t.purge, n := { st.n with threaded := false },
            ss := { st.ss with reqSession := true, serial := 0, lastUpdate := 0 },
            c := { st.c with state := .closed } }

/-- route-origin validation over the abstract prefix table (RFC 6811; by C01/C02 this is what
    pfx_table_validate answers on the concrete table) -/
def validate (t : Tbl) (v6 : Bool) (asn : Nat) (q : Nat) (n : Nat) : String :=
  let w := if v6 then 128 else 32
  let cov := t.pt.filter fun r => r.v6 == v6 && decide (r.len ≤ n) && prefixEq w r.addr q r.len
  if cov.any (fun r => r.asn != 0 && r.asn == asn && decide (n ≤ r.maxLen)) then "VALID"
  else if cov.isEmpty then "NOTFOUND" else "INVALID"

/-! ## `rtr_stop` on a running thread

  `stop` above is `rtr_stop` once the state-machine thread has ended.  On a running thread the call
  has two parts with the thread in between: the stop request (`rtr_change_socket_state(SHUTDOWN)`,
  `pthread_cancel`), then — after `pthread_join`, i.e. after whatever the thread still did — the
  close, the reset of the session bookkeeping and the purge. -/

/-- `rtr_stop`, up to `pthread_join`: the stop request -/
def stopBegin (st : St) : St := st.change .shutdown

/-- `rtr_stop`, after `pthread_join` -/
def stopFinish (st : St) : St :=
  let st := trClose st
  { st with t := st.t.purge, n := { st.n with threaded := false },
            ss := { st.ss with reqSession := true, serial := 0, lastUpdate := 0 },
            c := { st.c with state := .closed } }

/-! ## `tr_send_all` on a transport whose write calls take time

  The send script above answers every write at once.  The loop of `tr_send_all` reads the clock
  before every call and hands the transport the time left until its deadline
  (`end_time - cur_time`, negative once the deadline has passed); it ends only when everything is
  written or a call fails — it never gives up by itself, so a return value ≥ 0 is the full length.
  `SendStep.dt` is the time that passes inside one write call. -/

structure SendStep where
  dt : Nat
  ev : SendEv
deriving Repr

/-- one `tr_send(bytes, timeout)` call at clock `now`: return code, rest of the script, clock at
    return, trace line.  An exhausted script accepts everything at once. -/
def trSendT (q : List SendStep) (now : Int) (bytes : List Nat) (timeout : Int) : Int × List SendStep × Int × String :=
  let len := bytes.length
  match q with
  | [] => (len, [], now, s!"V {len} {timeout} -> {len} {hex bytes}")
  | s :: q =>
    match s.ev with
    | .err => (-1, q, now + s.dt, s!"V {len} {timeout} -> -1")
    | .block => (-2, q, now + s.dt, s!"V {len} {timeout} -> -2")
    | .part k =>
      let m := if min k len = 0 then 1 else min k len
      (m, q, now + s.dt, s!"V {len} {timeout} -> {m} {hex (bytes.take m)}")
    | .all => (len, q, now + s.dt, s!"V {len} {timeout} -> {len} {hex bytes}")

/-- result of `tr_send_all`: return value, clock, the bytes the transport accepted (ghost), trace -/
structure SendAllRes where
  rc : Int
  now : Int
  handed : List Nat
  lines : List String

/-- the loop of `tr_send_all(bytes, timeout)` with `end_time = endTime` -/
def sendAllTLoop (endTime : Int) : Nat → List SendStep → Int → List Nat → Nat → List Nat → List String → SendAllRes
  | 0, _, now, _, total, handed, lines => ⟨total, now, handed, lines⟩
  | fuel + 1, q, now, rest, total, handed, lines =>
    if rest.isEmpty then ⟨total, now, handed, lines⟩
    else
      match trSendT q now rest (endTime - now) with
      | (rc, q', now', line) =>
        if rc < 0 then ⟨rc, now', handed, lines ++ [line]⟩
        else sendAllTLoop endTime fuel q' now' (rest.drop rc.toNat) (total + rc.toNat)
               (handed ++ rest.take rc.toNat) (lines ++ [line])

def sendAllT (q : List SendStep) (now : Int) (bytes : List Nat) (timeout : Int) : SendAllRes :=
  sendAllTLoop (now + timeout) (bytes.length + 1) q now bytes 0 [] []

end P
end Rtr
