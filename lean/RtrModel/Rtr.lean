/-
  Rtr: executable model of rtrlib/rtr/packets.c, rtrlib/rtr/rtr.c and the two loops of
  rtrlib/transport/transport.c — the RTR protocol client: PDU reception and checking, error
  reports, the synchronisation (`rtr_sync`), the state machine (`rtr_fsm_start`), `rtr_stop`.

  * The transport is a script: an input tape (byte chunks, transport errors, time passing), a queue
    of send outcomes and a queue of open outcomes; the clock is a counter.  Every transport call,
    sleep and state callback is appended to `trace`, in exactly the format the C harness prints.
  * The prefix table and the router-key table are the abstract sets justified by the refinement
    theorems of C02 and C10 (`List` without duplicates, order irrelevant; dumps are sorted).
  * A received PDU is kept as the list of its bytes as received (`raw`); fields are read from it
    big-endian.  The C code converts the buffer to host byte order in place and back before echoing
    it in an Error Report; `encodeDecode` (RtrProofs/Pdu) shows that this round trip is the identity
    on every PDU that passed the size check, so "echo the bytes as received" is what the code does.
  * Thread cancellation is not modelled (the script ends by a stop request observed in recv).
-/
import RtrModel.PfxTable
import RtrModel.Proto
import RtrModel.Generated.Constants
import RtrModel.Generated.PduLayout

namespace Rtr
namespace P

/-! ## basic types -/

/-- `enum rtr_socket_state` -/
inductive SState where
  | connecting | established | reset | sync | fastReconnect | errNoData | errNoIncr | errFatal
  | errTransport | shutdown | closed
deriving DecidableEq, Repr, Inhabited

def SState.name : SState → String
  | .connecting => "CONNECTING" | .established => "ESTABLISHED" | .reset => "RESET" | .sync => "SYNC"
  | .fastReconnect => "FAST_RECONNECT" | .errNoData => "ERROR_NO_DATA_AVAIL"
  | .errNoIncr => "ERROR_NO_INCR_UPDATE_AVAIL" | .errFatal => "ERROR_FATAL"
  | .errTransport => "ERROR_TRANSPORT" | .shutdown => "SHUTDOWN" | .closed => "CLOSED"

def SState.ofCode : Nat → Option SState
  | 0 => some .connecting | 1 => some .established | 2 => some .reset | 3 => some .sync
  | 4 => some .fastReconnect | 5 => some .errNoData | 6 => some .errNoIncr | 7 => some .errFatal
  | 8 => some .errTransport | 9 => some .shutdown | 10 => some .closed | _ => none

/-- `enum rtr_interval_mode` -/
inductive IvMode where
  | ignoreAny | acceptAny | defaultMinMax | ignoreOnFailure
deriving DecidableEq, Repr, Inhabited

def IvMode.ofCode : Nat → Option IvMode
  | 0 => some .ignoreAny | 1 => some .acceptAny | 2 => some .defaultMinMax | 3 => some .ignoreOnFailure | _ => none

/-- the fields of `struct rtr_socket` the protocol code reads and writes -/
structure Sock where
  state : SState := .closed
  version : Nat := Gen.RTR_PROTOCOL_MAX_SUPPORTED_VERSION
  session : Nat := 0
  serial : Nat := 0
  reqSession : Bool := true
  lastUpdate : Int := 0
  isResetting : Bool := false
  hasReceived : Bool := false
  refresh : Nat := 3600
  retry : Nat := 600
  expire : Nat := 7200
  ivMode : IvMode := .acceptAny
deriving Repr, Inhabited

/-- `struct spki_record` with `src` for the socket -/
structure KeyRec where
  asn : Nat
  ski : List Nat
  spki : List Nat
  src : Nat
deriving DecidableEq, Repr

/-- the shadow tables of a full reload (copies of the live tables without this socket's records) -/
structure Upd where
  pt : List Rec
  kt : List KeyRec
deriving Inhabited

inductive TapeEv where
  | rx (bytes : List Nat)
  | err | block | intr | closed
  | dt (n : Nat)
deriving Repr

inductive SendEv where
  | all | part (n : Nat) | err | block
deriving Repr

/-- socket + environment (transport script, clock, tables, trace) -/
structure St where
  s : Sock := {}
  tape : List TapeEv := []
  sendQ : List SendEv := []
  openQ : List Int := []
  now : Int := 1000
  trace : List String := []          -- most recent first
  pt : List Rec := []                -- prefix table: records of all sources (`src` 0 = this socket)
  kt : List KeyRec := []             -- router-key table
  shadow : Option Upd := none        -- shadow tables while a reload is being applied
  threaded : Bool := false
deriving Inhabited

def St.emit (st : St) (line : String) : St := { st with trace := line :: st.trace }

/-! ## tables as sets -/

def ptAdd (t : List Rec) (r : Rec) : List Rec × PfxRc := if r ∈ t then (t, .duplicate) else (r :: t, .success)
def ptRemove (t : List Rec) (r : Rec) : List Rec × PfxRc := if r ∈ t then (t.erase r, .success) else (t, .notFound)
def ptSrcRemove (t : List Rec) (src : Nat) : List Rec := t.filter fun r => r.src != src
def ktAdd (t : List KeyRec) (r : KeyRec) : List KeyRec × PfxRc := if r ∈ t then (t, .duplicate) else (r :: t, .success)
def ktRemove (t : List KeyRec) (r : KeyRec) : List KeyRec × PfxRc := if r ∈ t then (t.erase r, .success) else (t, .notFound)
def ktSrcRemove (t : List KeyRec) (src : Nat) : List KeyRec := t.filter fun r => r.src != src

/-! ## bytes -/

def be16 (b : List Nat) (off : Nat) : Nat := b.getD off 0 * 256 + b.getD (off+1) 0
def be32 (b : List Nat) (off : Nat) : Nat :=
  ((b.getD off 0 * 256 + b.getD (off+1) 0) * 256 + b.getD (off+2) 0) * 256 + b.getD (off+3) 0
def toBE16 (n : Nat) : List Nat := [(n / 256) % 256, n % 256]
def toBE32 (n : Nat) : List Nat := [(n / 16777216) % 256, (n / 65536) % 256, (n / 256) % 256, n % 256]
def be128 (b : List Nat) (off : Nat) : Nat :=
  ((be32 b off * 4294967296 + be32 b (off+4)) * 4294967296 + be32 b (off+8)) * 4294967296 + be32 b (off+12)

def strBytes (s : String) : List Nat := s.toUTF8.toList.map (·.toNat)
/-- `sizeof(txt)` of a string literal: the characters and the terminating NUL -/
def cstr (s : String) : List Nat := strBytes s ++ [0]

def hex (b : List Nat) : String := Proto.bytesToHex b

/-! ## state changes -/

/-- `rtr_change_socket_state` -/
def changeState (st : St) (n : SState) : St :=
  if st.s.state = n then st
  else if st.s.state = .shutdown then st
  else ({ st with s := { st.s with state := n } }).emit
    s!"S {n.name} {st.now} {(st.pt.filter (fun (r : Rec) => r.src == 0)).length + (st.kt.filter (fun (r : KeyRec) => r.src == 0)).length}"

/-! ## scripted transport -/

/-- one `tr_recv(len, timeout)` call: result code (bytes delivered, or a negative tr_rtvals),
    the bytes, the new state -/
def trRecv (st : St) (len : Nat) (timeout : Int) : Int × List Nat × St :=
  let rec go (tape : List TapeEv) (now : Int) : Int × List Nat × St :=
    match tape with
    | [] =>
      let st' := ({ st with tape := [], now := now }).emit s!"R {len} {timeout} -> eof"
      -- end of script: a stop request is observed (threaded runs), the call fails
      (-1, [], if st.threaded then { st' with s := { st'.s with state := .shutdown } } else st')
    | .dt n :: rest => go rest (now + n)
    | .rx bytes :: rest =>
      let n := min bytes.length len
      let got := bytes.take n
      let left := bytes.drop n
      let tape' := if left.isEmpty then rest else .rx left :: rest
      (n, got, ({ st with tape := tape', now := now }).emit s!"R {len} {timeout} -> {n} {hex got}")
    | .err :: rest => (-1, [], ({ st with tape := rest, now := now }).emit s!"R {len} {timeout} -> -1")
    | .block :: rest =>
      (-2, [], ({ st with tape := rest, now := if timeout > 0 then now + timeout else now }).emit s!"R {len} {timeout} -> -2")
    | .intr :: rest => (-3, [], ({ st with tape := rest, now := now }).emit s!"R {len} {timeout} -> -3")
    | .closed :: rest => (-4, [], ({ st with tape := rest, now := now }).emit s!"R {len} {timeout} -> -4")
  go st.tape st.now

/-- `tr_recv_all(len, timeout)`: the negative code of the first failing call, or `len` -/
def recvAll (st : St) (len : Nat) (timeout : Int) : Int × List Nat × St :=
  let endTime := st.now + timeout
  let rec loop (fuel : Nat) (st : St) (acc : List Nat) : Int × List Nat × St :=
    match fuel with
    | 0 => (acc.length, acc, st)
    | fuel + 1 =>
      if acc.length < len then
        let (rc, got, st') := trRecv st (len - acc.length) (endTime - st.now)
        if rc < 0 then (rc, acc, st') else loop fuel st' (acc ++ got)
      else (acc.length, acc, st)
  loop (len + 1) st []

/-- one `tr_send(len)` call -/
def trSend (st : St) (bytes : List Nat) : Int × St :=
  let len := bytes.length
  match st.sendQ with
  | .err :: q => (-1, ({ st with sendQ := q }).emit s!"W {len} -> -1")
  | .block :: q => (-2, ({ st with sendQ := q }).emit s!"W {len} -> -2")
  | .part k :: q =>
    let n := if min k len = 0 then 1 else min k len
    (n, ({ st with sendQ := q }).emit s!"W {len} -> {n} {hex (bytes.take n)}")
  | .all :: q => (len, ({ st with sendQ := q }).emit s!"W {len} -> {len} {hex bytes}")
  | [] => (len, st.emit s!"W {len} -> {len} {hex bytes}")

/-- `tr_send_all` -/
def sendAll (st : St) (bytes : List Nat) : Int × St :=
  let rec loop (fuel : Nat) (st : St) (rest : List Nat) (total : Nat) : Int × St :=
    match fuel with
    | 0 => (total, st)
    | fuel + 1 =>
      if rest.isEmpty then (total, st)
      else
        let (rc, st') := trSend st rest
        if rc < 0 then (rc, st') else loop fuel st' (rest.drop rc.toNat) (total + rc.toNat)
  loop (bytes.length + 1) st bytes 0

/-- `rtr_send_pdu` (the argument is already in network byte order): `true` = RTR_SUCCESS -/
def sendPdu (st : St) (bytes : List Nat) : Bool × St :=
  if st.s.state = .shutdown then (false, st)
  else
    let (rc, st') := sendAll st bytes
    (decide (rc > 0), st')

/-! ## Error Reports -/

/-- `rtr_send_error_pdu`: `enc` = the erroneous PDU in network byte order -/
def sendErrorPdu (st : St) (enc : List Nat) (code : Nat) (text : List Nat) : Bool × St :=
  if enc.length ≥ 2 ∧ enc.getD 1 0 = 10 then (true, st)        -- never answer an Error Report
  else
    let len := 16 + enc.length + text.length
    let pdu := [st.s.version % 256, 10] ++ toBE16 code ++ toBE32 len ++ toBE32 enc.length ++ enc ++
      toBE32 text.length ++ text
    sendPdu st pdu

/-- `rtr_send_error_pdu_from_host(pdu, len)`: `raw` = the bytes of the PDU as received (see the
    file header), `k` = `erroneous_pdu_len` -/
def sendErrorFromHost (st : St) (raw : List Nat) (k : Nat) (code : Nat) (text : List Nat) : Bool × St :=
  if k = 0 then sendErrorPdu st [] code text
  else if k < 8 then (false, st)
  else sendErrorPdu st (raw.take k) code text

/-! ## PDU checks -/

def typeOf (raw : List Nat) : Nat := raw.getD 1 0
def verOf (raw : List Nat) : Nat := raw.getD 0 0
def lenOf (raw : List Nat) : Nat := be32 raw 4

/-- `rtr_pdu_check_size` on a complete PDU (`raw.length = lenOf raw`) -/
def checkSize (raw : List Nat) : Bool :=
  let len := lenOf raw
  match typeOf raw with
  | 0 => len == Gen.sizeof_pdu_serial_notify
  | 1 => len == Gen.sizeof_pdu_serial_query
  | 2 => len == Gen.sizeof_pdu_reset_query
  | 3 => len == Gen.sizeof_pdu_cache_response
  | 4 => len == Gen.sizeof_pdu_ipv4
  | 6 => len == Gen.sizeof_pdu_ipv6
  | 7 => (verOf raw == 0 && len == Gen.sizeof_pdu_end_of_data_v0) || (verOf raw == 1 && len == Gen.sizeof_pdu_end_of_data_v1)
  | 8 => len == Gen.sizeof_pdu_header
  | 9 => len == Gen.sizeof_pdu_router_key
  | 10 =>
    if len < 4 + Gen.sizeof_pdu_error then false
    else
      let encLen := be32 raw 8
      if len < 4 + Gen.sizeof_pdu_error + encLen then false
      else
        let txtLen := be32 raw (12 + encLen)
        len == 4 + Gen.sizeof_pdu_error + encLen + txtLen
  | _ => false

/-- result of `rtr_receive_pdu` -/
inductive RecvRes where
  | ok (raw : List Nat)
  | rc (code : Int)       -- RTR_ERROR (-1), TR_WOULDBLOCK (-2), TR_INTR (-3), TR_CLOSED (-4)
deriving Repr

def txtCorrupt : List Nat := cstr "corrupt data received, length value in PDU is too small"
def txtTooBig : List Nat := cstr s!"PDU too big, max. PDU size is: {Gen.RTR_MAX_PDU_LEN} bytes"

/-- the `error:` label of `rtr_receive_pdu` for a negative transport code -/
def recvTransportError (st : St) (code : Int) : RecvRes × St :=
  if code = -1 then (.rc (-1), changeState st .errTransport)
  else if code = -2 then (.rc (-2), st)
  else if code = -3 then (.rc (-3), st)
  else if code = -4 then (.rc (-4), changeState st .errFatal)      -- TR_CLOSED is handed to the caller
  else (.rc (-1), changeState st .errFatal)

/-- `rtr_receive_pdu(timeout)` -/
def receivePdu (st : St) (timeout : Int) : RecvRes × St :=
  if st.s.state = .shutdown then (.rc (-1), st)
  else
    let (rc, hdr, st) := recvAll st 8 timeout
    if rc < 0 then recvTransportError st rc
    else
      let len := lenOf hdr
      if len < 8 then
        let (_, st) := sendErrorPdu st hdr 0 txtCorrupt
        (.rc (-1), changeState st .errFatal)
      else if len > Gen.RTR_MAX_PDU_LEN then
        let (_, st) := sendErrorPdu st hdr 0 txtTooBig
        (.rc (-1), changeState st .errFatal)
      else
        -- live downgrade on the first PDU of a connection
        let st :=
          if !st.s.hasReceived then
            let v := if st.s.version = 1 ∧ verOf hdr = 0 ∧ typeOf hdr ≠ 10 then 0 else st.s.version
            { st with s := { st.s with version := v, hasReceived := true } }
          else st
        if verOf hdr ≠ st.s.version ∧ typeOf hdr ≠ 10 then
          let (_, st) := sendErrorPdu st hdr 8 []
          (.rc (-1), st)                                    -- no state change
        else
          let remaining := len - 8
          let (rc2, body, st) :=
            if remaining > 0 then
              if st.s.state = .shutdown then ((-100 : Int), ([] : List Nat), st)
              else recvAll st remaining Gen.RTR_RECV_TIMEOUT
            else ((0 : Int), ([] : List Nat), st)
          if rc2 = -100 then (.rc (-1), st)
          else if rc2 < 0 then recvTransportError st rc2
          else
            let raw := hdr ++ body
            if !checkSize raw then
              let (_, st) := sendErrorPdu st hdr 0 txtCorrupt
              (.rc (-1), changeState st .errFatal)
            else (.ok raw, st)

/-! ## handlers -/

/-- `rtr_handle_error_pdu` -/
def handleErrorPdu (st : St) (raw : List Nat) : St :=
  let code := be16 raw 2
  if code = 2 then changeState st .errNoData
  else if code = 4 then
    let v := verOf raw
    if v ≤ Gen.RTR_PROTOCOL_MAX_SUPPORTED_VERSION ∧ v ≥ Gen.RTR_PROTOCOL_MIN_SUPPORTED_VERSION ∧ v < st.s.version then
      changeState { st with s := { st.s with version := v } } .fastReconnect
    else changeState st .errFatal
  else changeState st .errFatal

def txtWrongSession : List Nat := cstr "Wrong session_id in Cache Response PDU"

/-- `rtr_handle_cache_response_pdu`: `true` = RTR_SUCCESS -/
def handleCacheResponse (st : St) (raw : List Nat) : Bool × St :=
  let sess := be16 raw 2
  if st.s.reqSession then
    let s := if st.s.lastUpdate ≠ 0 then { st.s with isResetting := true } else st.s
    (true, { st with s := { s with session := sess } })
  else if st.s.session ≠ sess then
    let (_, st) := sendErrorFromHost st [] 0 0 txtWrongSession
    (false, changeState st .errFatal)
  else (true, st)

/-- `rtr_prefix_pdu_2_pfx_record` (source 0 = this socket) -/
def pfxRecOf (raw : List Nat) : Rec :=
  if typeOf raw = 4 then ⟨false, be32 raw 12, raw.getD 9 0, raw.getD 10 0, be32 raw 16, 0⟩
  else ⟨true, be128 raw 12, raw.getD 9 0, raw.getD 10 0, be32 raw 28, 0⟩

def keyRecOf (raw : List Nat) : KeyRec :=
  ⟨be32 raw 28, (raw.drop 8).take 20, (raw.drop 32).take 91, 0⟩

def flagsOf (raw : List Nat) : Nat := if typeOf raw = 9 then raw.getD 2 0 else raw.getD 8 0

def txtBadFlagsPfx : List Nat := cstr "Prefix PDU with invalid flags value received"
def txtBadLenPfx : List Nat := cstr "Prefix PDU with invalid length value received"
def txtBadFlagsKey : List Nat := cstr "Router Key PDU with invalid flags value received"
def txtPfxTable : List Nat := cstr "PFX_TABLE Error"

/-- the tables a synchronisation writes to: the shadow ones during a reload, else the live ones -/
def St.upd (st : St) : Upd := match st.shadow with | some u => u | none => ⟨st.pt, st.kt⟩
def St.setUpd (st : St) (u : Upd) : St :=
  match st.shadow with | some _ => { st with shadow := some u } | none => { st with pt := u.pt, kt := u.kt }

/-- `rtr_update_pfx_table`: `true` = success -/
def updatePfx (st : St) (raw : List Nat) : Bool × St :=
  let r := pfxRecOf raw
  let maxBits := if r.v6 then 128 else 32
  if r.len > maxBits ∨ r.maxLen > maxBits then
    let (_, st) := sendErrorFromHost st raw raw.length 0 txtBadLenPfx
    (false, st)
  else if flagsOf raw ≠ 0 ∧ flagsOf raw ≠ 1 then
    let (_, st) := sendErrorFromHost st raw raw.length 0 txtBadFlagsPfx
    (false, st)
  else
    let u := st.upd
    let (pt', rc) := if flagsOf raw = 1 then ptAdd u.pt r else ptRemove u.pt r
    match rc with
    | .duplicate =>
      let (_, st) := sendErrorFromHost st raw raw.length 7 []
      (false, changeState st .errFatal)
    | .notFound =>
      let (_, st) := sendErrorFromHost st raw raw.length 6 []
      (false, changeState st .errFatal)
    | .error => (false, st)
    | .success => (true, st.setUpd { u with pt := pt' })

/-- `rtr_update_spki_table` -/
def updateKey (st : St) (raw : List Nat) : Bool × St :=
  let r := keyRecOf raw
  if flagsOf raw ≠ 0 ∧ flagsOf raw ≠ 1 then
    let (_, st) := sendErrorFromHost st raw raw.length 0 txtBadFlagsKey
    (false, st)
  else
    let u := st.upd
    let (kt', rc) := if flagsOf raw = 1 then ktAdd u.kt r else ktRemove u.kt r
    match rc with
    | .duplicate =>
      let (_, st) := sendErrorFromHost st raw raw.length 7 []
      (false, changeState st .errFatal)
    | .notFound =>
      let (_, st) := sendErrorFromHost st raw raw.length 6 []
      (false, changeState st .errFatal)
    | .error => (false, st)
    | .success => (true, st.setUpd { u with kt := kt' })

/-- `rtr_undo_update_pfx_table`: the inverse operation; `true` = PFX_SUCCESS -/
def undoPfx (st : St) (raw : List Nat) : Bool × St :=
  let r := pfxRecOf raw
  let u := st.upd
  let (pt', rc) := if flagsOf raw = 1 then ptRemove u.pt r else ptAdd u.pt r
  if rc == .success then (true, st.setUpd { u with pt := pt' }) else (false, st)

def undoKey (st : St) (raw : List Nat) : Bool × St :=
  let r := keyRecOf raw
  let u := st.upd
  let (kt', rc) := if flagsOf raw = 1 then ktRemove u.kt r else ktAdd u.kt r
  if rc == .success then (true, st.setUpd { u with kt := kt' }) else (false, st)

/-- forward-order undo of a list of PDUs, stopping at the first failure: `true` = all undone -/
def undoAllPfx (st : St) : List (List Nat) → Bool × St
  | [] => (true, st)
  | p :: ps => let (ok, st') := undoPfx st p; if ok then undoAllPfx st' ps else (false, st')

def undoAllKey (st : St) : List (List Nat) → Bool × St
  | [] => (true, st)
  | p :: ps => let (ok, st') := undoKey st p; if ok then undoAllKey st' ps else (false, st')

/-- apply a list of PDUs in order; on the first failure return the PDUs applied so far -/
def applyPfx (st : St) : List (List Nat) → List (List Nat) → Bool × St × List (List Nat)
  | [], done => (true, st, done)
  | p :: ps, done =>
    let (ok, st') := updatePfx st p
    if ok then applyPfx st' ps (done ++ [p]) else (false, st', done)

def applyKey (st : St) : List (List Nat) → List (List Nat) → Bool × St × List (List Nat)
  | [], done => (true, st, done)
  | p :: ps, done =>
    let (ok, st') := updateKey st p
    if ok then applyKey st' ps (done ++ [p]) else (false, st', done)

/-! ## intervals (End of Data, protocol version 1) -/

def applyIv (mode : IvMode) (cur val lo hi : Nat) : Nat :=
  if (lo ≤ val ∧ val ≤ hi) ∨ mode = .acceptAny then val
  else if mode = .defaultMinMax then (if val < lo then lo else hi)
  else cur

def applyEodIntervals (s : Sock) (raw : List Nat) : Sock :=
  if verOf raw = 1 ∧ s.ivMode ≠ .ignoreAny then
    let s := { s with expire := applyIv s.ivMode s.expire (be32 raw 20) Gen.RTR_EXPIRATION_MIN Gen.RTR_EXPIRATION_MAX }
    let s := { s with refresh := applyIv s.ivMode s.refresh (be32 raw 12) Gen.RTR_REFRESH_MIN Gen.RTR_REFRESH_MAX }
    { s with retry := applyIv s.ivMode s.retry (be32 raw 16) Gen.RTR_RETRY_MIN Gen.RTR_RETRY_MAX }
  else s

/-! ## rtr_sync_receive_and_store_pdus -/

def txtEodSession (exp got : Nat) : List Nat :=
  -- char txt[67]; snprintf(...); strlen(txt) + 1
  let s := strBytes s!"Expected session_id: {exp}, received session_id. {got} in EOD PDU"
  s.take 66 ++ [0]

def txtUnexpectedSync : List Nat := cstr "Unexpected PDU received during data synchronisation"
def txtUnexpectedSync2 : List Nat := cstr "Unexpected PDU received in data synchronisation"

/-- what the End of Data branch does once the PDUs are buffered: returns success and the new state -/
def applyBuffered (st : St) (eod : List Nat) (v4 v6 keys : List (List Nat)) : Bool × St :=
  let st := { st with s := applyEodIntervals st.s eod }
  -- shadow tables: copies without this socket's records
  let st := if st.s.isResetting then { st with shadow := some ⟨ptSrcRemove st.pt 0, ktSrcRemove st.kt 0⟩ } else st
  -- failure after an undo that did not restore: purge this socket's records from the live tables
  let purge := fun (st : St) => { st with pt := ptSrcRemove st.pt 0, kt := ktSrcRemove st.kt 0,
                                          s := { st.s with reqSession := true } }
  let (ok4, st, done4) := applyPfx st v4 []
  if !ok4 then
    let (undone, st) := undoAllPfx st done4
    let st := if undone then st else purge st
    (false, changeState st .errFatal)
  else
    let (ok6, st, done6) := applyPfx st v6 []
    if !ok6 then
      let (un4, st) := undoAllPfx st v4
      let (un6, st) := if un4 then undoAllPfx st done6 else (false, st)
      let st := if un4 && un6 then st else purge st
      (false, changeState st .errFatal)
    else
      let (okk, st, donek) := applyKey st keys []
      if !okk then
        let (un4, st) := undoAllPfx st v4
        let (un6, st) := if un4 then undoAllPfx st v6 else (false, st)
        let (unk, st) := if un4 && un6 then undoAllKey st donek else (false, st)
        let st := if un4 && un6 && unk then st else purge st
        (false, changeState st .errFatal)
      else
        -- success: a reload swaps the shadow tables in
        let st := match st.shadow with
          | some u => { st with pt := u.pt, kt := u.kt, shadow := none }
          | none => st
        (true, { st with s := { st.s with serial := be32 eod 8 } })

/-- the receive loop of `rtr_sync_receive_and_store_pdus`; `true` = RTR_SUCCESS.
    `fuel` bounds the number of PDUs (every iteration consumes at least 8 bytes of tape or ends). -/
def recvAndStore (fuel : Nat) (st : St) (v4 v6 keys : List (List Nat)) : Bool × St :=
  match fuel with
  | 0 => (false, st)
  | fuel + 1 =>
    let cleanup := fun (r : Bool × St) => (r.1, { r.2 with shadow := none, s := { r.2.s with isResetting := false } })
    match receivePdu st Gen.RTR_RECV_TIMEOUT with
    | (.rc code, st) =>
      if code = -2 then cleanup (false, changeState st .errTransport) else cleanup (false, st)
    | (.ok raw, st) =>
      match typeOf raw with
      | 4 => recvAndStore fuel st (v4 ++ [raw]) v6 keys
      | 6 => recvAndStore fuel st v4 (v6 ++ [raw]) keys
      | 9 => recvAndStore fuel st v4 v6 (keys ++ [raw])
      | 7 =>
        if be16 raw 2 ≠ st.s.session then
          let (_, st) := sendErrorFromHost st raw raw.length 0 (txtEodSession st.s.session (be16 raw 2))
          cleanup (false, changeState st .errFatal)
        else cleanup (applyBuffered st raw v4 v6 keys)
      | 10 => cleanup (false, handleErrorPdu st raw)
      | 0 => recvAndStore fuel st v4 v6 keys                    -- Serial Notify is ignored
      | _ =>
        let (_, st) := sendErrorFromHost st raw 8 0 txtUnexpectedSync
        cleanup (false, st)

/-- `rtr_sync`; `true` = RTR_SUCCESS -/
def sync (fuel : Nat) (st : St) : Bool × St :=
  let rec first (fuel : Nat) (st : St) : Option (List Nat) × St :=
    match fuel with
    | 0 => (none, st)
    | fuel + 1 =>
      match receivePdu st Gen.RTR_RECV_TIMEOUT with
      | (.rc code, st) =>
        if code = -4 ∧ st.s.reqSession ∧ st.s.version > Gen.RTR_PROTOCOL_MIN_SUPPORTED_VERSION then
          (none, changeState { st with s := { st.s with version := st.s.version - 1 } } .fastReconnect)
        else if code = -2 then (none, changeState st .errTransport)
        else (none, st)
      | (.ok raw, st) => if typeOf raw = 0 then first fuel st else (some raw, st)
  match first fuel st with
  | (none, st) => (false, st)
  | (some raw, st) =>
    match typeOf raw with
    | 10 => (false, handleErrorPdu st raw)
    | 8 => (false, changeState st .errNoIncr)
    | 3 =>
      let (ok, st) := handleCacheResponse st raw
      if !ok then (false, st)
      else
        let (ok, st) := recvAndStore fuel st [] [] []
        if !ok then (false, st)
        else (true, { st with s := { st.s with reqSession := false, lastUpdate := st.now } })
    | _ =>
      let (_, st) := sendErrorFromHost st raw 8 0 txtUnexpectedSync2
      (false, st)

/-- `rtr_wait_for_sync`; `true` = RTR_SUCCESS -/
def waitForSync (st : St) : Bool × St :=
  let wait := (st.s.lastUpdate + st.s.refresh) - st.now
  let wait := if wait < 0 then 0 else wait
  match receivePdu st wait with
  | (.ok raw, st) => (typeOf raw = 0, st)
  | (.rc code, st) => (code = -2, st)

/-! ## queries -/

def sendSerialQuery (st : St) : Bool × St :=
  let pdu := [st.s.version % 256, 1] ++ toBE16 st.s.session ++ toBE32 12 ++ toBE32 st.s.serial
  let (ok, st) := sendPdu st pdu
  if ok then (true, st) else (false, changeState st .errTransport)

def sendResetQuery (st : St) : Bool × St :=
  let pdu := [st.s.version % 256, 2, 0, 0] ++ toBE32 8
  let (ok, st) := sendPdu st pdu
  if ok then (true, st) else (false, changeState st .errTransport)

/-! ## the state machine -/

/-- `rtr_purge_outdated_records` -/
def purgeOutdated (st : St) : St :=
  if st.s.lastUpdate = 0 then st
  else if st.s.lastUpdate + st.s.expire < st.now then
    { st with pt := ptSrcRemove st.pt 0, kt := ktSrcRemove st.kt 0,
              s := { st.s with reqSession := true, serial := 0, lastUpdate := 0, isResetting := true } }
  else st

def sortStrings (l : List String) : List String := l.mergeSort (fun a b => decide (a ≤ b))

def addrHex (v6 : Bool) (a : Nat) : String := if v6 then Proto.toHex 32 a else Proto.toHex 8 a
def recStr (r : Rec) : String :=
  s!"{if r.v6 then 6 else 4}:{addrHex r.v6 r.addr}/{r.len}-{r.maxLen}:{r.asn}:{r.src}"
def keyStr (k : KeyRec) : String := s!"{k.asn}:{hex k.ski}:{hex k.spki}:{k.src}"

def dumpLines (tag : String) (st : St) : List String :=
  [" ".intercalate ((tag ++ " pfx") :: sortStrings (st.pt.map recStr)),
   " ".intercalate ((tag ++ " keys") :: sortStrings (st.kt.map keyStr))]

/-- `tr_open` on the scripted transport -/
def trOpen (st : St) : Int × St :=
  let (rc, q) := match st.openQ with | [] => ((0 : Int), []) | x :: q => (x, q)
  let st := { st with openQ := q }
  let st := (dumpLines "T" st).foldl (fun st l => st.emit l) st
  (rc, st.emit s!"O {rc} {st.now} {st.s.expire}")

def trClose (st : St) : St := st.emit "C"

/-- number of 8-byte units on the tape: a bound on the number of PDUs a run can still receive -/
def tapeFuel (st : St) : Nat :=
  st.tape.foldl (fun n ev => match ev with | .rx b => n + b.length / 8 + 1 | _ => n + 1) 10

/-- route-origin validation over the abstract prefix table (RFC 6811; by C01/C02 this is what
    pfx_table_validate answers on the concrete table) -/
def validate (st : St) (v6 : Bool) (asn : Nat) (q : Nat) (n : Nat) : String :=
  let w := if v6 then 128 else 32
  let cov := st.pt.filter fun r => r.v6 == v6 && decide (r.len ≤ n) && prefixEq w r.addr q r.len
  if cov.any (fun r => r.asn != 0 && r.asn == asn && decide (n ≤ r.maxLen)) then "VALID"
  else if cov.isEmpty then "NOTFOUND" else "INVALID"
def doSleep (st : St) (n : Nat) : St := ({ st with now := st.now + n }).emit s!"Z {n}"

/-- one iteration of the `while (1)` loop of `rtr_fsm_start`; `none` = the thread exits -/
def fsmStep (fuel : Nat) (st : St) : Option St :=
  match st.s.state with
  | .connecting =>
    let st := { st with s := { st.s with hasReceived := false } }
    let st := purgeOutdated st
    let (rc, st) := trOpen st
    if rc = -1 then some (changeState st .errTransport)
    else if st.s.reqSession then some (changeState st .reset)
    else
      let (ok, st) := sendSerialQuery st
      if ok then some (changeState st .sync) else some (changeState st .errFatal)
  | .reset =>
    let (ok, st) := sendResetQuery st
    if ok then some (changeState st .sync) else some st
  | .sync =>
    let (ok, st) := sync fuel st
    if ok then some (changeState st .established) else some st
  | .established =>
    let (ok, st) := waitForSync st
    if ok then
      let (ok2, st) := sendSerialQuery st
      if ok2 then some (changeState st .sync) else some st
    else some st
  | .fastReconnect => some (changeState (trClose st) .connecting)
  | .errNoData =>
    let st := { st with s := { st.s with reqSession := true, serial := 0 } }
    let st := changeState st .reset
    some (purgeOutdated (doSleep st st.s.retry))
  | .errNoIncr =>
    let st := { st with s := { st.s with reqSession := true, serial := 0 } }
    some (purgeOutdated (changeState st .reset))
  | .errTransport =>
    let st := changeState (trClose st) .connecting
    some (doSleep st st.s.retry)
  | .errFatal =>
    let st := changeState (trClose st) .connecting
    some (doSleep st st.s.retry)
  | .shutdown => none
  | .closed => some st      -- not a state of the running machine; the C loop spins here

/-- `rtr_fsm_start` run to the end of the script -/
def fsmRun (steps fuel : Nat) (st : St) : St :=
  match steps with
  | 0 => st.emit "fuel-exhausted"
  | steps + 1 =>
    match fsmStep fuel st with
    | none => st
    | some st' => fsmRun steps fuel st'

def fsmStart (steps fuel : Nat) (st : St) : St :=
  if st.s.state = .shutdown then st
  else fsmRun steps fuel { st with s := { st.s with state := .connecting }, threaded := true }

/-- `rtr_stop` after the state machine thread has ended -/
def stop (st : St) : St :=
  let st := changeState st .shutdown
  let st := trClose st
  { st with pt := ptSrcRemove st.pt 0, kt := ktSrcRemove st.kt 0, threaded := false,
            s := { st.s with reqSession := true, serial := 0, lastUpdate := 0, state := .closed } }

end P
end Rtr
