/-
  Hashlin: executable, literal model of third-party/tommyds/tommyhashlin.c/.h (tommy_hashlin,
  a linear hash table that grows/shrinks one bucket at a time) and of tommy_inthash_u32.

  What is modelled literally
   * the fields `bucket_bit bucket_max bucket_mask low_max low_mask split count state`;
   * `tommy_hashlin_bucket_ref` (mask arithmetic with `&&&`, the `pos < split` test);
   * `tommy_hashlin_insert` + `hashlin_grow_step`, `tommy_hashlin_remove` /
     `tommy_hashlin_remove_existing` + `hashlin_shrink_step`, statement by statement, including
     the state flips "continue with the already set up shrink/grow one in backward direction";
   * the order of the nodes inside a bucket (tommy_list: insert_tail = append, the flush loop of a
     grow step = two order-preserving filters, tommy_list_concat = append, remove_existing =
     erase); a bucket that is not re-initialised by the C code keeps its (stale) content here too.

  What is abstracted (trusted base, see DESIGN §3)
   * `bucket[bsr][pos]` (segment pointer arithmetic of tommy_hashlin_pos) is flattened to the
     index `pos`; buckets are a total function `Nat → List node`, so allocation / release of
     segments is invisible (C18 handles the allocator);
   * `tommy_count_t` / `tommy_hash_t` are `uint32_t` in C and `Nat` here: the two agree as long as
     `2 * count` and `8 * count` do not wrap, i.e. `count < 2^29` (and `bucket_bit < 32`);
   * a node is the pair (key, data); C identifies nodes by address.  `removeExisting` erases
     the first node equal to its argument, which is the same thing whenever nodes are pairwise
     distinct (part of the router-key table invariant).
-/
namespace Rtr

/-- `tommy_inthash_u32` (Robert Jenkins' 4-byte integer hash), `uint32_t` arithmetic -/
def inthashU32 (key : UInt32) : UInt32 :=
  let key := key - (key <<< 6)
  let key := key ^^^ (key >>> 17)
  let key := key - (key <<< 9)
  let key := key ^^^ (key <<< 4)
  let key := key - (key <<< 3)
  let key := key ^^^ (key <<< 10)
  let key := key ^^^ (key >>> 15)
  key

/-- the hash as a natural number (argument taken modulo 2^32 like a C `uint32_t` parameter) -/
def inthash (n : Nat) : Nat := (inthashU32 (UInt32.ofNat n)).toNat

/-- `TOMMY_HASHLIN_BIT` -/
def hashlinBit : Nat := 6

/-- `TOMMY_HASHLIN_STATE_*` -/
inductive HlState where
  | stable | grow | shrink
deriving DecidableEq, Repr, Inhabited

def HlState.toNat : HlState → Nat
  | .stable => 0 | .grow => 1 | .shrink => 2

/-- `tommy_hashlin_node` = `tommy_node`: the fields that carry information (`key`, `data`);
    `next`/`prev` are the position in the bucket list -/
structure HNode (α : Type) where
  key : Nat
  data : α
deriving DecidableEq, Repr

/-- pointwise update of the flattened bucket vector -/
def upd {β : Type} (b : Nat → β) (i : Nat) (v : β) : Nat → β := fun j => if j = i then v else b j

/-- `struct tommy_hashlin_struct` -/
structure Hashlin (α : Type) where
  bucket : Nat → List (HNode α)
  bucketBit : Nat
  bucketMax : Nat
  bucketMask : Nat
  lowMax : Nat
  lowMask : Nat
  split : Nat
  count : Nat
  state : HlState

namespace Hashlin
variable {α : Type}

/-- `tommy_hashlin_stable` -/
def stable (h : Hashlin α) : Hashlin α :=
  { h with state := .stable, lowMax := h.bucketMax, lowMask := h.bucketMask, split := 0 }

/-- `tommy_hashlin_init` (the `calloc`ed first segment is all empty lists) -/
def init : Hashlin α :=
  stable { bucket := fun _ => [], bucketBit := hashlinBit, bucketMax := 1 <<< hashlinBit,
           bucketMask := (1 <<< hashlinBit) - 1, lowMax := 0, lowMask := 0, split := 0, count := 0,
           state := .stable }

instance : Inhabited (Hashlin α) := ⟨init⟩

/-- the flattened position computed by `tommy_hashlin_bucket_ref` -/
def bucketPos (h : Hashlin α) (hash : Nat) : Nat :=
  let pos := hash &&& h.lowMask
  let highPos := hash &&& h.bucketMask
  if pos < h.split then highPos else pos

/-- `tommy_hashlin_bucket` -/
def bucketOf (h : Hashlin α) (hash : Nat) : List (HNode α) := h.bucket (h.bucketPos hash)

/-- `tommy_hashlin_search`: first node of the bucket with that key on which `cmp` returns 0 -/
def search (h : Hashlin α) (cmp : α → Bool) (hash : Nat) : Option α :=
  ((h.bucketOf hash).find? fun n => n.key == hash && cmp n.data).map (·.data)

/-- body of the `while` loop of `hashlin_grow_step` without the final `split == low_max` test:
    bucket `split` is flushed, by the bit `low_max` of the key, into `split` and `split + low_max`
    (both re-initialised first; each node appended at the tail, so both halves keep their order) -/
def growOne (h : Hashlin α) : Hashlin α :=
  let j := h.bucket h.split
  let lo := j.filter fun n => (n.key &&& h.lowMax) == 0
  let hi := j.filter fun n => (n.key &&& h.lowMax) != 0
  { h with bucket := upd (upd h.bucket h.split lo) (h.split + h.lowMax) hi, split := h.split + 1 }

/-- the `while (split + low_max < split_target)` loop.  Every iteration increments `split`, so
    `fuel = split_target` iterations always suffice: the fuel never runs out before the loop
    condition fails. -/
def growLoop : Nat → Nat → Hashlin α → Hashlin α
  | 0, _, h => h
  | fuel + 1, target, h =>
    if h.split + h.lowMax < target then
      let h1 := h.growOne
      if h1.split == h1.lowMax then h1.stable else growLoop fuel target h1
    else h

/-- first `if` of `hashlin_grow_step`: enter the grow state -/
def growSetup (h : Hashlin α) : Hashlin α :=
  if h.state != .grow && decide (h.count > h.bucketMax / 2) then
    let h1 :=
      if h.state == .stable then
        -- a new segment of `low_max` uninitialised buckets is allocated at [low_max, 2*low_max)
        let bit := h.bucketBit + 1
        { h with lowMax := h.bucketMax, lowMask := h.bucketMask, bucketBit := bit,
                 bucketMax := 1 <<< bit, bucketMask := (1 <<< bit) - 1, split := 0 }
      else h
    { h1 with state := .grow }
  else h

/-- `hashlin_grow_step` -/
def growStep (h : Hashlin α) : Hashlin α :=
  let h1 := h.growSetup
  if h1.state == .grow then growLoop (2 * h1.count) (2 * h1.count) h1 else h1

/-- body of the `while` loop of `hashlin_shrink_step` up to the `split == 0` test:
    `--split`, then `tommy_list_concat(bucket[split], bucket[split + low_max])`
    (the high bucket keeps its stale head pointer) -/
def shrinkOne (h : Hashlin α) : Hashlin α :=
  let s := h.split - 1
  { h with split := s, bucket := upd h.bucket s (h.bucket s ++ h.bucket (s + h.lowMax)) }

/-- the `split == 0` branch: drop the last segment and go stable -/
def shrinkFinish (h : Hashlin α) : Hashlin α :=
  let bit := h.bucketBit - 1
  stable { h with bucketBit := bit, bucketMax := 1 <<< bit, bucketMask := (1 <<< bit) - 1 }

/-- the `while (split + low_max > split_target)` loop; every iteration decrements `split` and
    the loop is left at `split == 0`, so `fuel = split` iterations suffice (the C code would
    wrap `split` around if it were entered with `split == 0`; the invariant excludes that). -/
def shrinkLoop : Nat → Nat → Hashlin α → Hashlin α
  | 0, _, h => h
  | fuel + 1, target, h =>
    if h.split + h.lowMax > target then
      let h1 := h.shrinkOne
      if h1.split == 0 then h1.shrinkFinish else shrinkLoop fuel target h1
    else h

/-- first `if` of `hashlin_shrink_step` -/
def shrinkSetup (h : Hashlin α) : Hashlin α :=
  if h.state != .shrink && decide (h.count < h.bucketMax / 8) then
    if h.bucketBit > hashlinBit then
      let h1 :=
        if h.state == .stable then
          { h with lowMax := h.bucketMax / 2, lowMask := h.bucketMask / 2, split := h.bucketMax / 2 }
        else h
      { h1 with state := .shrink }
    else h
  else h

/-- `hashlin_shrink_step` -/
def shrinkStep (h : Hashlin α) : Hashlin α :=
  let h1 := h.shrinkSetup
  if h1.state == .shrink then shrinkLoop h1.split (8 * h1.count) h1 else h1

/-- `tommy_hashlin_insert` -/
def insert (h : Hashlin α) (data : α) (hash : Nat) : Hashlin α :=
  let p := h.bucketPos hash
  growStep { h with bucket := upd h.bucket p (h.bucket p ++ [⟨hash, data⟩]), count := h.count + 1 }

/-- `tommy_hashlin_remove`: unlink the first node of the bucket with that key on which `cmp`
    returns 0, then run a shrink step; `none` (C: 0) when there is no such node -/
def remove (h : Hashlin α) (cmp : α → Bool) (hash : Nat) : Hashlin α × Option α :=
  let p := h.bucketPos hash
  let f := fun (n : HNode α) => n.key == hash && cmp n.data
  match (h.bucket p).find? f with
  | none => (h, none)
  | some n =>
    (shrinkStep { h with bucket := upd h.bucket p ((h.bucket p).eraseP f), count := h.count - 1 },
     some n.data)

/-- `tommy_hashlin_remove_existing` (the node is known to be stored) -/
def removeExisting [DecidableEq α] (h : Hashlin α) (n : HNode α) : Hashlin α :=
  let p := h.bucketPos n.key
  shrinkStep { h with bucket := upd h.bucket p ((h.bucket p).erase n), count := h.count - 1 }

/-- number of valid buckets (`tommy_hashlin_foreach`: `low_max + split`) -/
def valid (h : Hashlin α) : Nat := h.lowMax + h.split

/-- the valid buckets in index order (what `tommy_hashlin_foreach` walks) -/
def buckets (h : Hashlin α) : List (List (HNode α)) := (List.range h.valid).map h.bucket

end Hashlin
end Rtr
