/-
  Bits: literal models of `lrtr_get_bits` (rtrlib/lib/utils.c), `lrtr_ipv6_get_bits`
  (rtrlib/lib/ipv6.c), `lrtr_ip_addr_is_zero`, `lrtr_ip_addr_equal` (rtrlib/lib/ip.c) and the
  abstract bit view (`bitAt`) that the trie model is written against.

  Core Lean only (no Mathlib) so that the drivers link natively.
-/
namespace Rtr

/-- an address of either family as a natural number below `2^w` (w = 32 / 128), host byte order,
    bit 0 of the *prefix* is the most significant bit -/
abbrev Addr := Nat

/-- bit `i` (0 = most significant) of a `w`-bit address; `false` at and beyond the width.
    This is what `is_left_child` computes: `lrtr_ip_addr_is_zero(lrtr_ip_addr_get_bits(a, i, 1))`
    is `!bitAt w a i` (theorem `isLeftChildC_eq` in RtrProofs/Bits). -/
def bitAt (w : Nat) (a : Addr) (i : Nat) : Bool := decide (i < w) && a.testBit (w - 1 - i)

/-! ## `lrtr_get_bits` as written

```c
uint32_t lrtr_get_bits(const uint32_t val, const uint8_t from, const uint8_t number)
{
	assert(number < 33);
	uint32_t mask = ~0;
	if (number == 0 || from > 31) return 0;   // (fix for F1/F2)
	if (number != 32)
		mask = ~(mask >> number);
	mask >>= from;
	return (mask & val);
}
```
`Defined32 from number` is the condition under which the C text has defined behaviour and passes
its own assertion.
-/

def Defined32 (_from number : Nat) : Prop := number ≤ 32

instance (f n : Nat) : Decidable (Defined32 f n) := by unfold Defined32; exact inferInstance

def getBits32 (val : BitVec 32) (frm number : Nat) : BitVec 32 :=
  if number = 0 ∨ frm > 31 then 0#32 else
  let mask0 : BitVec 32 := BitVec.allOnes 32
  let mask1 := if number != 32 then ~~~ (mask0 >>> number) else mask0
  let mask2 := mask1 >>> frm
  mask2 &&& val

/-- an IPv6 address as the four host-order words `addr[0..3]` -/
structure V6 where
  w0 : BitVec 32
  w1 : BitVec 32
  w2 : BitVec 32
  w3 : BitVec 32
deriving DecidableEq, Repr

def V6.toNat (a : V6) : Nat := ((a.w0.toNat * 2^32 + a.w1.toNat) * 2^32 + a.w2.toNat) * 2^32 + a.w3.toNat

def V6.ofNat (n : Nat) : V6 :=
  { w0 := BitVec.ofNat 32 (n / 2^96), w1 := BitVec.ofNat 32 (n / 2^64),
    w2 := BitVec.ofNat 32 (n / 2^32), w3 := BitVec.ofNat 32 n }

/-- `lrtr_ipv6_get_bits` as written: the four-word cascade with `uint8_t bits_left`.
    `DefinedV6` is the conjunction of its assertions and of `Defined32` for the inner calls
    it makes from a well-formed position. -/
def DefinedV6 (first quantity : Nat) : Prop := quantity ≤ 128 ∧ (first ≤ 127 → first + quantity ≤ 128)

instance (f n : Nat) : Decidable (DefinedV6 f n) := by unfold DefinedV6; exact inferInstance

def ipv6GetBits (a : V6) (first quantity : Nat) : V6 :=
  -- every intermediate is a uint8_t in C; the values stay below 256 under `DefinedV6`
  let left0 := quantity
  let (r0, left1) :=
    if first ≤ 31 then
      let q := if quantity > 32 then 32 else quantity
      (getBits32 a.w0 first q, left0 - q)
    else (0#32, left0)
  let (r1, left2) :=
    if first ≤ 63 ∧ first + quantity > 32 then
      let fr := if first < 32 then 0 else first - 32
      let q := if left1 > 32 then 32 else left1
      (getBits32 a.w1 fr q, left1 - q)
    else (0#32, left1)
  let (r2, left3) :=
    if first ≤ 95 ∧ first + quantity > 64 then
      let fr := if first < 64 then 0 else first - 64
      let q := if left2 > 32 then 32 else left2
      (getBits32 a.w2 fr q, left2 - q)
    else (0#32, left2)
  let r3 :=
    if first ≤ 127 ∧ first + quantity > 96 then
      let fr := if first < 96 then 0 else first - 96
      let q := if left3 > 32 then 32 else left3
      getBits32 a.w3 fr q
    else 0#32
  { w0 := r0, w1 := r1, w2 := r2, w3 := r3 }

def V6.isZero (a : V6) : Bool := a.w0 == 0 && a.w1 == 0 && a.w2 == 0 && a.w3 == 0

/-- `is_left_child` of trie.c for the two families, literally -/
def isLeftChildC4 (a : BitVec 32) (lvl : Nat) : Bool := getBits32 a lvl 1 == 0
def isLeftChildC6 (a : V6) (lvl : Nat) : Bool := (ipv6GetBits a lvl 1).isZero

/-- the covering test of `trie_lookup`, literally -/
def coversC4 (p : BitVec 32) (len : Nat) (q : BitVec 32) : Bool := getBits32 p 0 len == getBits32 q 0 len
def coversC6 (p : V6) (len : Nat) (q : V6) : Bool := ipv6GetBits p 0 len == ipv6GetBits q 0 len

end Rtr
