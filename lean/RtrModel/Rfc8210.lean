/-
  Rfc8210: the FIXED specification literals (RFC 6810 / RFC 8210 and the public 0.8 API of rtrlib).
  Nothing here is generated.  What the code declares is regenerated into `RtrModel/Generated/*` on
  every run; the property files prove the two equal (`by decide`), so that a drifting constant is a
  failed proof and not a silently re-parameterised theorem.
-/
namespace Rtr.Rfc8210

/-! ### timing parameters (RFC 8210 section 6), seconds -/
def refreshMin : Nat := 1
def refreshMax : Nat := 86400
def refreshDefault : Nat := 3600
def retryMin : Nat := 1
def retryMax : Nat := 7200
def retryDefault : Nat := 600
def expireMin : Nat := 600
def expireMax : Nat := 172800
def expireDefault : Nat := 7200

/-! ### protocol versions -/
def version0 : Nat := 0
def version1 : Nat := 1

/-! ### PDU types (RFC 8210 section 5) and their exact lengths in bytes -/
def pduSerialNotify : Nat := 0
def pduSerialQuery : Nat := 1
def pduResetQuery : Nat := 2
def pduCacheResponse : Nat := 3
def pduIpv4Prefix : Nat := 4
def pduIpv6Prefix : Nat := 6
def pduEndOfData : Nat := 7
def pduCacheReset : Nat := 8
def pduRouterKey : Nat := 9
def pduErrorReport : Nat := 10

def lenHeader : Nat := 8
def lenSerialNotify : Nat := 12
def lenSerialQuery : Nat := 12
def lenResetQuery : Nat := 8
def lenCacheResponse : Nat := 8
def lenIpv4Prefix : Nat := 20
def lenIpv6Prefix : Nat := 32
def lenEndOfDataV0 : Nat := 12
def lenEndOfDataV1 : Nat := 24
def lenCacheReset : Nat := 8
def lenRouterKey : Nat := 123

/-! ### error codes (RFC 8210 section 12) -/
def errCorruptData : Nat := 0
def errInternalError : Nat := 1
def errNoDataAvailable : Nat := 2
def errInvalidRequest : Nat := 3
def errUnsupportedVersion : Nat := 4
def errUnsupportedPduType : Nat := 5
def errWithdrawalOfUnknown : Nat := 6
def errDuplicateAnnouncement : Nat := 7
def errUnexpectedVersion : Nat := 8

/-! ### public enumerators of the rtrlib API (rtr.h, rtr_mgr.h) whose names the to-string
    functions must return; values are ABI -/
def socketStates : List (String × Int) :=
  [("RTR_CONNECTING", 0), ("RTR_ESTABLISHED", 1), ("RTR_RESET", 2), ("RTR_SYNC", 3),
   ("RTR_FAST_RECONNECT", 4), ("RTR_ERROR_NO_DATA_AVAIL", 5), ("RTR_ERROR_NO_INCR_UPDATE_AVAIL", 6),
   ("RTR_ERROR_FATAL", 7), ("RTR_ERROR_TRANSPORT", 8), ("RTR_SHUTDOWN", 9), ("RTR_CLOSED", 10)]

def mgrStatus : List (String × Int) :=
  [("RTR_MGR_CLOSED", 0), ("RTR_MGR_CONNECTING", 1), ("RTR_MGR_ESTABLISHED", 2), ("RTR_MGR_ERROR", 3)]

/-- the state a socket has after `rtr_init` (not started yet) -/
def initialState : String := "RTR_CLOSED"

/-- interval modes of the public API: what happens to a received interval value -/
def intervalModes : List (String × Int) :=
  [("RTR_INTERVAL_MODE_IGNORE_ANY", 0), ("RTR_INTERVAL_MODE_ACCEPT_ANY", 1),
   ("RTR_INTERVAL_MODE_DEFAULT_MIN_MAX", 2), ("RTR_INTERVAL_MODE_IGNORE_ON_FAILURE", 3)]

end Rtr.Rfc8210
