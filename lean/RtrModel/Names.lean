/-
  Names: executable model of `rtr_state_to_str` (rtrlib/rtr/rtr.c) and `rtr_mgr_status_to_str`
  (rtrlib/rtr_mgr.c) -- the extracted function bodies (`Generated.Names`, IR in `NamesIR`) run on the
  extracted name tables.  Nothing is assumed about the bodies: an unchecked index reads outside
  the table (`oob`) exactly where the C code does.
-/
import RtrModel.NamesIR
import RtrModel.Generated.Names

namespace Rtr.Names
open Rtr.NamesIR

/-- `rtr_state_to_str((enum rtr_socket_state)i)` -/
def stateToStr (i : Int) : Outcome := Gen.stateToStrFn.run Gen.socketStrStates i

/-- `rtr_mgr_status_to_str((enum rtr_mgr_status)i)` -/
def mgrStatusToStr (i : Int) : Outcome := Gen.mgrStatusToStrFn.run Gen.mgrStrStatus i

/-- the table entry with index `v` : `none` outside the table, `some none` a NULL entry -/
def tableAt (tbl : List (Option String)) (v : Int) : Option (Option String) :=
  if v < 0 then none else tbl[v.toNat]?

/-- the conversion the call applies to its integer argument -/
def stateArg (i : Int) : Int := Gen.stateToStrFn.paramTy.wrap i
def mgrArg (i : Int) : Int := Gen.mgrStatusToStrFn.paramTy.wrap i

def _root_.Rtr.NamesIR.Outcome.render : Outcome → String
  | .ok (some s) => "str " ++ s
  | .ok none => "null"
  | .oob => "oob"
  | .unknown => "unknown"

end Rtr.Names
