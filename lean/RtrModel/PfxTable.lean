/-
  PfxTable: executable model of the public functions of rtrlib/pfx/trie/trie-pfx.c
  (`struct pfx_table` = two tries + update callback).  Locks are not modelled here (C16).
-/
import RtrModel.Trie

namespace Rtr

/-- `struct pfx_record` -/
structure Rec where
  v6 : Bool
  addr : Addr
  len : Nat
  maxLen : Nat
  asn : Nat
  src : Nat
deriving DecidableEq, Repr

def Rec.elem (r : Rec) : Elem := ⟨r.asn, r.maxLen, r.src⟩
def Rec.width (r : Rec) : Nat := if r.v6 then 128 else 32

def mkRec (v6 : Bool) (addr : Addr) (len : Nat) (e : Elem) : Rec :=
  ⟨v6, addr, len, e.maxLen, e.asn, e.src⟩

/-- `enum pfx_rtvals` -/
inductive PfxRc where
  | success | error | duplicate | notFound
deriving DecidableEq, Repr

/-- `struct pfx_table`: the two roots, whether `update_fp` is set, and the ghost log of
    `update_fp` invocations (`true` = added) -/
structure PfxTable where
  v4 : Trie := .nil
  t6 : Trie := .nil
  hasCb : Bool := true
  log : List (Bool × Rec) := []
deriving Repr, Inhabited

namespace PfxTable

def root (T : PfxTable) (v6 : Bool) : Trie := if v6 then T.t6 else T.v4
def setRoot (T : PfxTable) (v6 : Bool) (t : Trie) : PfxTable := if v6 then { T with t6 := t } else { T with v4 := t }

/-- `pfx_table_notify_clients` -/
def notify (T : PfxTable) (added : Bool) (r : Rec) : PfxTable :=
  if T.hasCb then { T with log := T.log ++ [(added, r)] } else T

def notifyAll (T : PfxTable) (added : Bool) (rs : List Rec) : PfxTable :=
  rs.foldl (fun T r => T.notify added r) T

/-- records of one trie in enumeration order (`pfx_table_for_each_rec`) -/
def trieRecs (v6 : Bool) (t : Trie) : List Rec :=
  t.nodes.flatMap fun c => c.data.map fun e => mkRec v6 c.addr c.len e

def recs4 (T : PfxTable) : List Rec := trieRecs false T.v4
def recs6 (T : PfxTable) : List Rec := trieRecs true T.t6
/-- all records, IPv4 first -/
def recs (T : PfxTable) : List Rec := T.recs4 ++ T.recs6

/-- `pfx_table_add` on the trie of the record's family: new trie and return code -/
def addTrie (w : Nat) (t : Trie) (addr : Addr) (len : Nat) (e : Elem) : Trie × PfxRc :=
  match t with
  | .nil => (.node ⟨addr, len, [e]⟩ .nil .nil, .success)
  | _ =>
    match lookupExact w addr len t 0 with
    | .up => (t, .error)                             -- cannot happen at lvl 0
    | .at p true =>
      match t.subAt p with
      | .node c _ _ =>
        if (findElem c.data e).isSome then (t, .duplicate)
        else (t.modifyAt p (fun s => match s with
                | .node c l r => .node { c with data := c.data ++ [e] } l r
                | .nil => .nil), .success)
      | .nil => (t, .error)
    | .at p false =>
      (t.modifyAt p (fun s => insert w s ⟨addr, len, [e]⟩ p.length), .success)

def add (T : PfxTable) (r : Rec) : PfxTable × PfxRc :=
  let (t', rc) := addTrie r.width (T.root r.v6) r.addr r.len r.elem
  let T' := T.setRoot r.v6 t'
  if rc = .success then (T'.notify true r, rc) else (T', rc)

/-- `pfx_table_remove` on one trie -/
def removeTrie (w : Nat) (t : Trie) (addr : Addr) (len : Nat) (e : Elem) : Trie × PfxRc :=
  match lookupExact w addr len t 0 with
  | .at p true =>
    match t.subAt p with
    | .node c _ _ =>
      match findElem c.data e with
      | none => (t, .notFound)
      | some i =>
        let d := delElem c.data i
        if d.isEmpty then
          (t.modifyAt p (fun s => match s with
            | .node c l r => removeRoot (.node { c with data := [] } l r)
            | .nil => .nil), .success)
        else
          (t.modifyAt p (fun s => match s with
            | .node c l r => .node { c with data := d } l r
            | .nil => .nil), .success)
    | .nil => (t, .notFound)
  | _ => (t, .notFound)

def remove (T : PfxTable) (r : Rec) : PfxTable × PfxRc :=
  let (t', rc) := removeTrie r.width (T.root r.v6) r.addr r.len r.elem
  let T' := T.setRoot r.v6 t'
  if rc = .success then (T'.notify false r, rc) else (T', rc)

/-- `pfx_table_src_remove` (allocation failures are modelled in Alloc) -/
def srcRemove (T : PfxTable) (src : Nat) : PfxTable :=
  let (a, la) := removeId src T.v4
  let T1 := ({ T with v4 := a }).notifyAll false (la.map fun (ad, ln, e) => mkRec false ad ln e)
  let (b, lb) := removeId src T1.t6
  ({ T1 with t6 := b }).notifyAll false (lb.map fun (ad, ln, e) => mkRec true ad ln e)

/-- `pfx_table_validate_r`: state and reason records in the order the C code stores them -/
def validate (T : PfxTable) (v6 : Bool) (asn : Nat) (q : Addr) (n : Nat) : PfxvState × List Rec :=
  let w := if v6 then 128 else 32
  let (st, ns) := validateR w q n asn (T.root v6)
  match st with
  | .notFound => (st, [])
  | _ => (st, ns.flatMap fun c => c.data.map fun e => mkRec v6 c.addr c.len e)

/-- `pfx_table_free`: notifications for every record, both roots cleared -/
def free (T : PfxTable) : PfxTable :=
  let T1 := ({ T with v4 := .nil }).notifyAll false ((freeLog T.v4).map fun (ad, ln, e) => mkRec false ad ln e)
  ({ T1 with t6 := .nil }).notifyAll false ((freeLog T.t6).map fun (ad, ln, e) => mkRec true ad ln e)

/-- `pfx_table_copy_except_socket(src, dst, socket)`: returns dst and the return code.
    The IPv4 pass runs to completion even after a failed add; the IPv6 pass is skipped then. -/
def copyExcept (S D : PfxTable) (src : Nat) : PfxTable × PfxRc :=
  let pass := fun (D : PfxTable × Bool) (rs : List Rec) =>
    rs.foldl (fun (acc : PfxTable × Bool) r =>
      if r.src != src then
        let (D', rc) := acc.1.add r
        (D', acc.2 || rc != .success)
      else acc) D
  let (D1, e1) := pass (D, false) S.recs4
  if e1 then (D1, .error) else
  let (D2, e2) := pass (D1, false) S.recs6
  if e2 then (D2, .error) else (D2, .success)

/-- `pfx_table_swap`: the roots change places, callbacks and logs stay -/
def swap (A B : PfxTable) : PfxTable × PfxTable :=
  ({ A with v4 := B.v4, t6 := B.t6 }, { B with v4 := A.v4, t6 := A.t6 })

/-- `pfx_table_notify_diff(new, old, socket)`: returns (new, old).  `old` has its callback
    disabled for the duration and loses every record of `socket` that `new` also holds. -/
def notifyDiff (N O : PfxTable) (src : Nat) : PfxTable × PfxTable :=
  let O0 := { O with hasCb := false }
  let pass := fun (st : PfxTable × PfxTable) (rs : List Rec) =>
    rs.foldl (fun (st : PfxTable × PfxTable) r =>
      if r.src == src then
        let (O', rc) := st.2.remove r
        if rc != .success then (st.1.notify true r, O') else (st.1, O')
      else st) st
  -- the enumeration of `new` is not disturbed by removals from `old`
  let st1 := pass (N, O0) N.recs4
  let st2 := pass st1 N.recs6
  let N2 := st2.1
  let O2 := st2.2
  let N3 := (O2.recs4.filter (fun r => r.src == src)).foldl (fun N r => N.notify false r) N2
  let N4 := (O2.recs6.filter (fun r => r.src == src)).foldl (fun N r => N.notify false r) N3
  (N4, { O2 with hasCb := O.hasCb })

end PfxTable
end Rtr
