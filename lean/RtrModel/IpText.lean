/-
  IpText: literal models of the address <-> text conversions of rtrlib
  (rtrlib/lib/ipv4.c, ipv6.c, ip.c) over character lists.

    fmt4 / fmt4Str   lrtr_ipv4_addr_to_str   snprintf(str, len, "%hhu.%hhu.%hhu.%hhu", ...)
    parse4           lrtr_ipv4_str_to_addr   sscanf(str, "%3hhu.%3hhu.%3hhu.%3hhu", ...) == 4
    fmt6 / fmt6Str   lrtr_ipv6_addr_to_str   zero-run compression, embedded IPv4 forms
    parse6Core       lrtr_ipv6_str_to_addr   `::` expansion over `words : List (Option Nat)`
                                             (a slot is `none` until the C code has written it;
                                              reading `none` is the outcome `PRes.uninit`)
    ipToStr / ipStrToAddr / ipStrCmp         the dispatchers of ip.c

  and a *stated model of what the platform's `inet_pton` accepts* (RFC 4291 section 2.2 text forms as
  a grammar of `Render`s, `pton4`/`pton6`), validated differentially against the real `inet_pton`
  by tools/ipcheck.py.

  A byte of a C string is a `Char` with the same code (0..255); strings never contain NUL.
  libc behaviour that is modelled, not verified: `printf("%x")` of a 16-bit value (`hex16`),
  `printf("%hhu"/"%d")` of a value < 256 (`dec8`), `snprintf` truncation, `sscanf("%3hhu")`
  (`scanU3`: leading white space skipped, optional sign counted in the field width, at most three
  characters, value reduced modulo 256, nothing after the last conversion is looked at).

  Core Lean only (no Mathlib): the driver links natively.
-/
namespace Rtr.IpText

abbrev Str := List Char

/-! ## digits -/

/-- lower-case hexadecimal digit of `d < 16` (what `%x` prints) -/
def hexChar (d : Nat) : Char :=
  match d with
  | 0 => '0' | 1 => '1' | 2 => '2' | 3 => '3' | 4 => '4' | 5 => '5' | 6 => '6' | 7 => '7'
  | 8 => '8' | 9 => '9' | 10 => 'a' | 11 => 'b' | 12 => 'c' | 13 => 'd' | 14 => 'e' | _ => 'f'

/-- decimal digit of `d < 10` -/
def decChar (d : Nat) : Char :=
  match d with
  | 0 => '0' | 1 => '1' | 2 => '2' | 3 => '3' | 4 => '4' | 5 => '5' | 6 => '6' | 7 => '7'
  | 8 => '8' | _ => '9'

/-- `sprintf(b, "%x", w)` for a 16-bit `w` -/
def hex16 (w : Nat) : Str :=
  if w < 16 then [hexChar w]
  else if w < 256 then [hexChar (w / 16), hexChar (w % 16)]
  else if w < 4096 then [hexChar (w / 256), hexChar (w / 16 % 16), hexChar (w % 16)]
  else [hexChar (w / 4096 % 16), hexChar (w / 256 % 16), hexChar (w / 16 % 16), hexChar (w % 16)]

/-- `printf("%hhu")` / `printf("%d")` of a value below 256 (correct below 1000) -/
def dec8 (n : Nat) : Str :=
  if n < 10 then [decChar n]
  else if n < 100 then [decChar (n / 10), decChar (n % 10)]
  else [decChar (n / 100 % 10), decChar (n / 10 % 10), decChar (n % 10)]

/-- the digit test of the inner loop of `lrtr_ipv6_str_to_addr`:
    `'0'..'9'`, `'A'..'F'`, `'a'..'f'`, in this order -/
def hexVal? (c : Char) : Option Nat :=
  if 48 ≤ c.toNat ∧ c.toNat ≤ 57 then some (c.toNat - 48)
  else if 65 ≤ c.toNat ∧ c.toNat ≤ 70 then some (c.toNat - 65 + 10)
  else if 97 ≤ c.toNat ∧ c.toNat ≤ 102 then some (c.toNat - 97 + 10)
  else none

def isDigit (c : Char) : Bool := decide (48 ≤ c.toNat ∧ c.toNat ≤ 57)

/-- `isspace` in the C locale: space, \t \n \v \f \r -/
def isSpace (c : Char) : Bool := decide (c.toNat = 32 ∨ (9 ≤ c.toNat ∧ c.toNat ≤ 13))

/-! ## IPv4 -/

/-- the four bytes `buff[0..3]` of `lrtr_ipv4_addr_to_str` -/
def octets (a : Nat) : Nat × Nat × Nat × Nat :=
  (a / 16777216 % 256, a / 65536 % 256, a / 256 % 256, a % 256)

def quadStr (q : Nat × Nat × Nat × Nat) : Str :=
  dec8 q.1 ++ '.' :: (dec8 q.2.1 ++ '.' :: (dec8 q.2.2.1 ++ '.' :: dec8 q.2.2.2))

/-- the complete text `"%hhu.%hhu.%hhu.%hhu"` produces for the 32-bit address `a` -/
def fmt4Str (a : Nat) : Str := quadStr (octets a)

/-- what a `to_str` call does to the caller's buffer: return code and the bytes written,
    starting at offset 0 (the terminating NUL is the character with code 0) -/
structure FmtOut where
  rc : Int
  written : Str
deriving DecidableEq, Repr

def nul : Char := Char.ofNat 0

/-- `snprintf(str, len, ...)` with the complete text `s`: at most `len - 1` characters and a NUL;
    nothing at all when `len = 0` -/
def snprintfWritten (s : Str) (len : Nat) : Str :=
  if len = 0 then [] else s.take (len - 1) ++ [nul]

/-- `lrtr_ipv4_addr_to_str(ip, str, len)`; `snprintf` never fails here, so the result is 0 -/
def fmt4 (a : Nat) (len : Nat) : FmtOut := ⟨0, snprintfWritten (fmt4Str a) len⟩

def skipWs : Str → Str
  | [] => []
  | c :: cs => if isSpace c then skipWs cs else c :: cs

/-- read at most `width` decimal digits: (value, number of digits, rest) -/
def takeDigits : Nat → Str → Nat → Nat → Nat × Nat × Str
  | 0, s, acc, n => (acc, n, s)
  | _ + 1, [], acc, n => (acc, n, [])
  | w + 1, c :: cs, acc, n =>
    if isDigit c then takeDigits w cs (acc * 10 + (c.toNat - 48)) (n + 1) else (acc, n, c :: cs)

/-- one `%3hhu` conversion of glibc's `sscanf`: skip white space, optional `+`/`-` (counts towards
    the field width of 3), at least one digit, value converted as by `strtoul` and stored into an
    `unsigned char` (i.e. modulo 256; a minus sign negates modulo 256). -/
def scanU3 (s : Str) : Option (Nat × Str) :=
  match skipWs s with
  | [] => none
  | c :: cs =>
    let neg := c = '-'
    let signed := c = '-' ∨ c = '+'
    let r := if signed then takeDigits 2 cs 0 0 else takeDigits 3 (c :: cs) 0 0
    if r.2.1 = 0 then none
    else some (if neg then (256 - r.1 % 256) % 256 else r.1 % 256, r.2.2)

/-- the literal `.` of the format: must be the next character (no white space skipped) -/
def expectDot : Str → Option Str
  | '.' :: cs => some cs
  | _ => none

/-- `lrtr_ipv4_str_to_addr`: `none` is the return value -1, `some a` is 0 with `ip->addr = a`.
    Whatever follows the fourth number is ignored, as `sscanf` does. -/
def parse4 (s : Str) : Option Nat :=
  match scanU3 s with
  | none => none
  | some (a, s) =>
  match expectDot s with
  | none => none
  | some s =>
  match scanU3 s with
  | none => none
  | some (b, s) =>
  match expectDot s with
  | none => none
  | some s =>
  match scanU3 s with
  | none => none
  | some (c, s) =>
  match expectDot s with
  | none => none
  | some s =>
  match scanU3 s with
  | none => none
  | some (d, _) => some (a * 16777216 + b * 65536 + c * 256 + d)

/-! ## IPv6 formatter

An IPv6 address is the list of its eight 16-bit words, most significant first
(`words[i] = ((i % 2) ? a[i/2] : a[i/2] >> 16) & 0xffff`). -/

/-- one step of the zero-run scan; state = (bestpos, bestlen, curpos, curlen) -/
def scanStep (st : Nat × Nat × Nat × Nat) (i : Nat) (isZero : Bool) : Nat × Nat × Nat × Nat :=
  let (bestpos, bestlen, curpos, curlen) := st
  if !isZero then (bestpos, bestlen, curpos, 0)
  else
    let curpos := if curlen = 0 then i else curpos
    let curlen := curlen + 1
    if curlen > bestlen then (curpos, curlen, curpos, curlen) else (bestpos, bestlen, curpos, curlen)

def scanFrom : Nat → List Bool → Nat × Nat × Nat × Nat → Nat × Nat × Nat × Nat
  | _, [], st => st
  | i, z :: zs, st => scanFrom (i + 1) zs (scanStep st i z)

/-- (bestpos, bestlen) after the first loop, before the `bestlen < 2` adjustment -/
def zeroRunB (zs : List Bool) : Nat × Nat :=
  let r := scanFrom 0 zs (0, 0, 0, 0)
  (r.1, r.2.1)

def zeroRun (ws : List Nat) : Nat × Nat := zeroRunB (ws.map (fun w => w == 0))

/-- the "normal formatting" loop; `bestpos = none` is the C value -1 -/
def fmtLoop (ws : List Nat) (bestpos : Option Nat) (bestlen : Nat) : Nat → Nat → Str
  | 0, _ => []
  | fuel + 1, i =>
    if i ≥ 8 then []
    else if bestpos = some i then
      let i' := i + bestlen - 1
      ':' :: ((if i' = 7 then [':'] else []) ++ fmtLoop ws bestpos bestlen fuel (i' + 1))
    else
      (if i ≠ 0 then [':'] else []) ++ (hex16 (ws.getD i 0) ++ fmtLoop ws bestpos bestlen fuel (i + 1))

/-- the text for given scan result `(bestpos, bestlen)` -/
def fmt6Body (ws : List Nat) (run : Nat × Nat) : Str :=
  let bestlen := run.2
  let bestpos : Option Nat := if bestlen < 2 then none else some run.1
  let a2 := ws.getD 4 0 * 65536 + ws.getD 5 0
  let x := ws.getD 6 0 * 65536 + ws.getD 7 0
  if bestpos = some 0 ∧ ((bestlen = 5 ∧ a2 = 65535) ∨ bestlen = 6) then
    -- sprintf(b, "::%s%d.%d.%d.%d", a[2] ? "ffff:" : "", ...)
    ':' :: ':' :: ((if a2 ≠ 0 then ['f', 'f', 'f', 'f', ':'] else []) ++
      quadStr (x / 16777216 % 256, x / 65536 % 256, x / 256 % 256, x % 256))
  else fmtLoop ws bestpos bestlen 8 0

/-- complete text produced by `lrtr_ipv6_addr_to_str` for the eight words `ws` -/
def fmt6Str (ws : List Nat) : Str := fmt6Body ws (zeroRun ws)

/-- `lrtr_ipv6_addr_to_str(ip, b, len)`: refuses (writing nothing) unless `len >= INET6_ADDRSTRLEN` -/
def fmt6 (ws : List Nat) (len : Nat) : FmtOut :=
  if len < 46 then ⟨-1, []⟩ else ⟨0, fmt6Str ws ++ [nul]⟩

/-! ## IPv6 parser -/

structure PSt where
  i : Nat
  hfil : Option Nat            -- C: `hfil = -1` is `none`
  words : List (Option Nat)    -- `uint16_t words[8]`, `none` = never written
deriving Repr

inductive PRes where
  | ok (ws : List Nat)         -- return 0, the eight words stored into `ip->addr`
  | reject                     -- return -1
  | uninit                     -- the C code reads a `words[]` slot it has never written
deriving DecidableEq, Repr

/-- inner `for (;;)` loop: hex digits, at most four (`j >= 0x10000 || ++l > 4` fails);
    `some (j, rest)` with `rest` starting at the first non-digit -/
def scanHex : Str → Nat → Nat → Option (Nat × Str)
  | [], j, _ => some (j, [])
  | c :: cs, j, l =>
    match hexVal? c with
    | none => some (j, c :: cs)
    | some k =>
      let j' := j * 16 + k
      if j' ≥ 65536 ∨ l + 1 > 4 then none else scanHex cs j' (l + 1)

/-- `for (i = 7; i - j >= hfil; i--) words[i] = words[i - j];`  with `i1 = i + 1`.
    `none`: a never-written slot was read. Otherwise the new words and the final `i + 1`. -/
def moveLoop (j hfil : Nat) : Nat → List (Option Nat) → Option (List (Option Nat) × Nat)
  | 0, w => some (w, 0)
  | i + 1, w =>
    if hfil + j ≤ i then
      match w.getD (i - j) none with
      | some v => moveLoop j hfil i (w.set i (some v))
      | none => none
    else some (w, i + 1)

/-- `for (; i >= hfil; i--) words[i] = 0;` with `i1 = i + 1` -/
def zeroLoop (hfil : Nat) : Nat → List (Option Nat) → List (Option Nat)
  | 0, w => w
  | i + 1, w => if hfil ≤ i then zeroLoop hfil i (w.set i (some 0)) else w

/-- the final loop `o[i] = (words[2*i] << 16) | words[2*i+1]` reads all eight slots -/
def readAll : List (Option Nat) → Option (List Nat)
  | [] => some []
  | some v :: r => (readAll r).map (v :: ·)
  | none :: _ => none

def out (w : List (Option Nat)) : PRes :=
  match readAll w with
  | some ws => .ok ws
  | none => .uninit

/-- everything after the `while (*a)` loop.  `chk = true` is the repaired code
    (`else if (i != 8) return -1;`), `chk = false` the code as found (defect F17). -/
def finish (chk : Bool) (st : PSt) : PRes :=
  match st.hfil with
  | some h =>
    match moveLoop (8 - st.i) h 8 st.words with
    | none => .uninit
    | some (w, i1) => out (zeroLoop h i1 w)
  | none => if chk && st.i != 8 then .reject else out st.words

def push (st : PSt) (v : Nat) : PSt := { st with i := st.i + 1, words := st.words.set st.i (some v) }

/-- the `while (*a)` loop; one unit of fuel per iteration (every iteration consumes a character,
    `parse6Core` supplies `length + 1`) -/
def loop (chk : Bool) : Nat → Str → PSt → PRes
  | 0, _, _ => .reject
  | _ + 1, [], st => finish chk st
  | f + 1, c :: cs, st =>
    if c = ':' then
      if st.hfil.isSome then .reject else loop chk f cs { st with hfil := some st.i }
    else
      match scanHex (c :: cs) 0 0 with
      | none => .reject
      | some (j, rest) =>
        match rest with
        | [] => if st.i ≥ 8 then .reject else finish chk (push st j)
        | d :: ds =>
          if d = ':' ∧ ds ≠ [] then
            if st.i ≥ 8 then .reject else loop chk f ds (push st j)
          else if d = '.' ∧ (st.i = 6 ∨ (st.i < 6 ∧ st.hfil.isSome)) then
            match parse4 (c :: cs) with
            | none => .reject
            | some a => finish chk (push (push st (a / 65536 % 65536)) (a % 65536))
          else .reject

def initSt : PSt := ⟨0, none, List.replicate 8 none⟩

/-- `lrtr_ipv6_str_to_addr` -/
def parse6Core (chk : Bool) (s : Str) : PRes :=
  match s with
  | ':' :: rest =>
    (match rest with
     | ':' :: _ => loop chk (s.length + 1) rest initSt
     | _ => .reject)
  | _ => loop chk (s.length + 1) s initSt

/-- the parser of the repaired tree -/
def parse6 (s : Str) : PRes := parse6Core true s
/-- the parser as found in the snapshot (F17) -/
def parse6Orig (s : Str) : PRes := parse6Core false s

/-! ## ip.c dispatchers -/

inductive Ip where
  | v4 (a : Nat)
  | v6 (ws : List Nat)
deriving DecidableEq, Repr

inductive IpRes where
  | ok (a : Ip) | reject | uninit
deriving DecidableEq, Repr

def ipToStr (a : Ip) (len : Nat) : FmtOut :=
  match a with
  | .v4 x => fmt4 x len
  | .v6 ws => fmt6 ws len

/-- `lrtr_ip_str_to_addr`: `strchr(str, ':')` decides the family -/
def ipStrToAddr (s : Str) : IpRes :=
  if ':' ∈ s then
    match parse6 s with
    | .ok ws => .ok (.v6 ws)
    | .reject => .reject
    | .uninit => .uninit
  else
    match parse4 s with
    | some a => .ok (.v4 a)
    | none => .reject

/-- `lrtr_ip_str_cmp` -/
def ipStrCmp (a : Ip) (s : Str) : Option Bool :=
  match ipStrToAddr s with
  | .ok b => some (decide (a = b))
  | .reject => some false
  | .uninit => none

/-! ## The text language (RFC 4291 section 2.2) as a grammar of renders

`pre` groups, an optional `::`, `post` groups, an optional trailing dotted quad.  This is the
stated model of what `inet_pton(AF_INET6, ..)` accepts (glibc: one to four hex digits per group,
either case; at most one `::`, which must stand for at least one group; a dotted quad of four
canonical decimal numbers (no leading zeros) may replace the last two groups). -/

structure Render where
  pre : List Str
  gap : Bool
  post : List Str
  quad : Option (Nat × Nat × Nat × Nat)
deriving DecidableEq, Repr

def groupOk (g : Str) : Bool := decide (1 ≤ g.length) && decide (g.length ≤ 4) && g.all (fun c => (hexVal? c).isSome)

def groupVal (g : Str) : Nat := g.foldl (fun acc c => acc * 16 + (hexVal? c).getD 0) 0

def quadOk (q : Nat × Nat × Nat × Nat) : Bool :=
  decide (q.1 < 256) && decide (q.2.1 < 256) && decide (q.2.2.1 < 256) && decide (q.2.2.2 < 256)

def quadWords (q : Nat × Nat × Nat × Nat) : List Nat := [q.1 * 256 + q.2.1, q.2.2.1 * 256 + q.2.2.2]

/-- `g1:g2:...:gn` -/
def joinC : List Str → Str
  | [] => []
  | [g] => g
  | g :: gs => g ++ ':' :: joinC gs

namespace Render

def quadItems (r : Render) : List Str := match r.quad with | some q => [quadStr q] | none => []
def quadVals (r : Render) : List Nat := match r.quad with | some q => quadWords q | none => []

/-- number of 16-bit words written explicitly -/
def count (r : Render) : Nat := r.pre.length + r.post.length + r.quadVals.length

def wfB (r : Render) : Bool :=
  r.pre.all groupOk && r.post.all groupOk &&
  (match r.quad with | some q => quadOk q | none => true) &&
  (if r.gap then decide (r.count ≤ 7) else decide (r.post = []) && decide (r.count = 8))

/-- well-formed render = a string of the language -/
def WF (r : Render) : Prop := r.wfB = true

instance (r : Render) : Decidable r.WF := by unfold WF; exact inferInstance

def toString (r : Render) : Str :=
  if r.gap then joinC r.pre ++ ':' :: ':' :: joinC (r.post ++ r.quadItems)
  else joinC (r.pre ++ r.quadItems)

/-- the address denoted -/
def value (r : Render) : List Nat :=
  if r.gap then r.pre.map groupVal ++ List.replicate (8 - r.count) 0 ++ (r.post.map groupVal ++ r.quadVals)
  else r.pre.map groupVal ++ r.quadVals

end Render

/-! ### recognisers (executable model of `inet_pton`), sound by construction -/

def splitOn (sep : Char) : Str → List Str
  | [] => [[]]
  | c :: cs =>
    match splitOn sep cs with
    | [] => [[]]          -- unreachable
    | h :: t => if c = sep then [] :: h :: t else (c :: h) :: t

/-- split at the first `::` -/
def findGap : Str → Option (Str × Str)
  | [] => none
  | [_] => none
  | a :: b :: cs =>
    if a = ':' ∧ b = ':' then some ([], cs)
    else match findGap (b :: cs) with
      | some (l, r) => some (a :: l, r)
      | none => none

def decVal? (s : Str) : Option Nat :=
  if s.isEmpty ∨ s.length > 3 ∨ !(s.all isDigit) then none
  else
    let v := s.foldl (fun acc c => acc * 10 + (c.toNat - 48)) 0
    if v < 256 ∧ dec8 v = s then some v else none

def quad? (s : Str) : Option (Nat × Nat × Nat × Nat) :=
  match splitOn '.' s with
  | [a, b, c, d] =>
    match decVal? a, decVal? b, decVal? c, decVal? d with
    | some a, some b, some c, some d => some (a, b, c, d)
    | _, _, _, _ => none
  | _ => none

/-- model of `inet_pton(AF_INET, s)` -/
def pton4 (s : Str) : Option Nat :=
  match quad? s with
  | some q => if quadStr q = s then some (q.1 * 16777216 + q.2.1 * 65536 + q.2.2.1 * 256 + q.2.2.2) else none
  | none => none

def items (s : Str) : List Str := if s.isEmpty then [] else splitOn ':' s

/-- peel a trailing dotted quad off a list of items -/
def peelQuad (l : List Str) : List Str × Option (Nat × Nat × Nat × Nat) :=
  match l.getLast? with
  | some last => if '.' ∈ last then (l.dropLast, quad? last) else (l, none)
  | none => (l, none)

/-- the only render that could have `s` as its text -/
def candidate (s : Str) : Render :=
  match findGap s with
  | some (l, r) => let (post, q) := peelQuad (items r); ⟨items l, true, post, q⟩
  | none => let (pre, q) := peelQuad (items s); ⟨pre, false, [], q⟩

def recognise6 (s : Str) : Option Render :=
  if (candidate s).wfB = true ∧ (candidate s).toString = s then some (candidate s) else none

/-- model of `inet_pton(AF_INET6, s)` -/
def pton6 (s : Str) : Option (List Nat) := (recognise6 s).map Render.value

end Rtr.IpText
