/-
  Proto: helpers for the line protocol shared by the model drivers (hex, decimal, words).
-/
namespace Rtr.Proto

def hexDigit? (c : Char) : Option Nat :=
  if '0' ≤ c ∧ c ≤ '9' then some (c.toNat - '0'.toNat)
  else if 'a' ≤ c ∧ c ≤ 'f' then some (c.toNat - 'a'.toNat + 10)
  else if 'A' ≤ c ∧ c ≤ 'F' then some (c.toNat - 'A'.toNat + 10)
  else none

def hexToNat? (s : String) : Option Nat :=
  if s.isEmpty then none else
  s.toList.foldl (fun acc c => match acc, hexDigit? c with
    | some a, some d => some (a * 16 + d)
    | _, _ => none) (some 0)

def hexChar (d : Nat) : Char :=
  if d < 10 then Char.ofNat ('0'.toNat + d) else Char.ofNat ('a'.toNat + d - 10)

/-- fixed-width lowercase hex -/
def toHex (digits : Nat) (n : Nat) : String :=
  String.ofList ((List.range digits).reverse.map fun i => hexChar ((n / 16 ^ i) % 16))

def words (line : String) : List String :=
  (line.trimAscii.toString.splitOn " ").filter (· ≠ "")

def bytesToHex (bs : List Nat) : String := String.join (bs.map (toHex 2))

def hexToBytes? (s : String) : Option (List Nat) :=
  let cs := s.toList
  if cs.length % 2 ≠ 0 then none else
  let rec go : List Char → Option (List Nat)
    | a :: b :: rest => do
      let x ← hexDigit? a
      let y ← hexDigit? b
      let r ← go rest
      pure ((x * 16 + y) :: r)
    | [] => some []
    | _ => none
  go cs

/-- run `step` over stdin lines, printing one reply per line -/
partial def loop {σ : Type} (h : IO.FS.Stream) (out : IO.FS.Stream) (step : σ → String → σ × String) (s : σ) : IO Unit := do
  let line ← h.getLine
  if line.isEmpty then
    out.flush
    return ()
  let (s', o) := step s line
  out.putStrLn o
  loop h out step s'

end Rtr.Proto
