/-
  Mgr: executable model of rtrlib's cache-group manager (rtrlib/rtr_mgr.c) together with the parts
  of rtr_start / rtr_stop / rtr_change_socket_state (rtrlib/rtr/rtr.c, packets.c) it relies on.

  * `config->groups` (a tommy_list kept sorted by preference) is a `List Group` in list order.
  * a socket is what the manager can see of a `struct rtr_socket`: its `state`, whether
    `last_update != 0` (`synced`) and whether `thread_id != 0` (`thread`).
  * group identity (the C code compares `struct rtr_mgr_group *`) is the preference value; the
    theorem `sorted_inv` shows preferences are pairwise distinct in every reachable configuration,
    so the two notions coincide there.
  * the observable effects are a log `List Ev`: every invocation of the status callback
    (`set_status` always calls it, also when the status does not change) and every call of
    `rtr_start` / `rtr_stop`.
  * rtr_mgr_init is modelled *as fixed* (finding F13): on the error path it returns RTR_ERROR and
    produces no configuration (the unfixed code frees an uninitialised pointer there).

  * a group also carries the three timing intervals of its `sockets[0]` (`ivs`): `rtr_mgr_add_group`
    copies them from the existing groups to the sockets of the new one and `rtr_init` range-checks
    them, so an add can fail *after* the duplicate-preference check (the sockets' intervals are
    cache-controlled through End of Data when a socket runs in RTR_INTERVAL_MODE_ACCEPT_ANY: op
    `setiv`).  The two allocations of `rtr_mgr_add_group` may be refused as well (`failAt`).

  Core Lean only (the driver links natively).
-/
import RtrModel.Generated.Constants

namespace Rtr.Mgr

/-- `enum rtr_socket_state`, in declaration order (values 0 … 10). -/
inductive SockState
  | connecting | established | reset | sync | fastReconnect | errNoData | errNoIncr
  | errFatal | errTransport | shutdown | closed
  deriving DecidableEq, Repr, Inhabited

def SockState.toNat : SockState → Nat
  | .connecting => 0 | .established => 1 | .reset => 2 | .sync => 3 | .fastReconnect => 4
  | .errNoData => 5 | .errNoIncr => 6 | .errFatal => 7 | .errTransport => 8 | .shutdown => 9
  | .closed => 10

def SockState.ofNat? : Nat → Option SockState
  | 0 => some .connecting | 1 => some .established | 2 => some .reset | 3 => some .sync
  | 4 => some .fastReconnect | 5 => some .errNoData | 6 => some .errNoIncr | 7 => some .errFatal
  | 8 => some .errTransport | 9 => some .shutdown | 10 => some .closed | _ => none

/-- the three states `rtr_mgr_cb` routes to `_rtr_mgr_cb_state_error` -/
def SockState.isError : SockState → Bool
  | .errFatal | .errTransport | .errNoData => true
  | _ => false

/-- `enum rtr_mgr_status` -/
inductive Status
  | closed | connecting | established | error
  deriving DecidableEq, Repr, Inhabited

structure Sock where
  state : SockState := .closed      -- after rtr_init
  synced : Bool := false            -- last_update != 0
  thread : Bool := false            -- thread_id != 0
  deriving DecidableEq, Repr, Inhabited

/-- `(refresh_interval, expire_interval, retry_interval)`; what `rtr_mgr_init` is called with in the
    line protocol (and the defaults of `rtr_mgr_add_group`) -/
def defaultIvs : Nat × Nat × Nat := (3600, 7200, 600)

structure Group where
  pref : Nat
  status : Status := .closed
  socks : List Sock
  /-- refresh / expire / retry interval of `sockets[0]` -/
  ivs : Nat × Nat × Nat := (3600, 7200, 600)
  deriving DecidableEq, Repr, Inhabited

/-- observable effects -/
inductive Ev
  /-- `conf->status_fp(group, status, sock, …)`; `sock` = (preference of its group, index) or NULL -/
  | status (pref : Nat) (st : Status) (sock : Option (Nat × Nat))
  /-- `rtr_start(group.sockets[idx])` and whether it returned RTR_SUCCESS -/
  | start (pref idx : Nat) (ok : Bool)
  /-- `rtr_stop(group.sockets[idx])` -/
  | stop (pref idx : Nat)
  deriving DecidableEq, Repr

/-! ### group-local pieces -/

/-- one socket's contribution to `rtr_mgr_config_status_is_synced` -/
def Sock.syncOk (s : Sock) : Bool :=
  s.synced && (s.state == .established || s.state == .reset || s.state == .sync)

/-- `rtr_mgr_config_status_is_synced` -/
def Group.isSynced (g : Group) : Bool := g.socks.all Sock.syncOk

/-- the socket after `rtr_stop` returned: a joined thread leaves it RTR_CLOSED with
    `last_update = 0`; without a thread it simply stays RTR_SHUTDOWN -/
def Sock.stopped (s : Sock) : Sock :=
  if s.thread then { state := .closed, synced := false, thread := false }
  else { s with state := .shutdown }

/-- `for (j …) rtr_stop(group->sockets[j])` from socket `done.length` on, with the nested
    RTR_SHUTDOWN callback (`rtr_change_socket_state` → `rtr_mgr_cb` → `_rtr_mgr_cb_state_shutdown`)
    that each `rtr_stop` triggers unless the socket already is RTR_SHUTDOWN.  The nested callback
    only touches the group the socket belongs to, so the loop is local to one group:
    `st` is the group's status, `done` the sockets already stopped. -/
def stopGo (pref : Nat) (st : Status) (done : List Sock) : List Sock → Status × List Sock × List Ev
  | [] => (st, done, [])
  | s :: rest =>
    let i := done.length
    let r1 : Status × List Ev :=
      if s.state = .shutdown then (st, [])
      else
        let allDown := (done ++ { s with state := .shutdown } :: rest).all (fun x => x.state == .shutdown)
        let st' := if allDown then Status.closed else st
        (st', [Ev.status pref st' (some (pref, i))])
    let r2 := stopGo pref r1.1 (done ++ [s.stopped]) rest
    (r2.1, r2.2.1, Ev.stop pref i :: (r1.2 ++ r2.2.2))

/-- all sockets of a group are stopped -/
def Group.stopAll (g : Group) : Group × List Ev :=
  let r := stopGo g.pref g.status [] g.socks
  ({ g with status := r.1, socks := r.2.1 }, r.2.2)

/-- `rtr_start`: fails when the socket already has a thread; otherwise a thread is created whose
    first action is `state = RTR_CONNECTING` (no callback) unless the socket is RTR_SHUTDOWN, in
    which case the thread returns at once (and `thread_id` stays set). -/
def startSocks (pref : Nat) : Nat → List Sock → List Sock × List Ev × Bool
  | _, [] => ([], [], true)
  | i, s :: t =>
    if s.thread then (s :: t, [Ev.start pref i false], false)
    else
      let s' : Sock := { s with thread := true, state := if s.state = .shutdown then .shutdown else .connecting }
      let r := startSocks pref (i + 1) t
      (s' :: r.1, Ev.start pref i true :: r.2.1, r.2.2)

/-- `rtr_mgr_start_sockets`: status becomes CONNECTING only when every `rtr_start` succeeded -/
def Group.startSockets (g : Group) : Group × List Ev × Bool :=
  let r := startSocks g.pref 0 g.socks
  ({ g with socks := r.1, status := if r.2.2 then .connecting else g.status }, r.2.1, r.2.2)

/-! ### list-level pieces -/

def findG (gs : List Group) (p : Nat) : Option Group := gs.find? (fun g => g.pref == p)

/-- apply `f` to the group with preference `p` -/
def modG (gs : List Group) (p : Nat) (f : Group → Group) : List Group :=
  gs.map fun g => if g.pref = p then f g else g

def setStatus (gs : List Group) (p : Nat) (st : Status) : List Group :=
  modG gs p fun g => { g with status := st }

/-- body of the loop of `rtr_mgr_close_less_preferable_groups` for one list node -/
def closeOne (p : Nat) (sock : Option (Nat × Nat)) (g : Group) : Group × List Ev :=
  if g.status ≠ .closed ∧ g.pref ≠ p ∧ g.pref > p then
    let r := g.stopAll
    ({ r.1 with status := .closed }, r.2 ++ [Ev.status g.pref .closed sock])
  else (g, [])

/-- `rtr_mgr_close_less_preferable_groups(sock, config, group)` with `group.pref = p` -/
def closeLess (p : Nat) (sock : Option (Nat × Nat)) : List Group → List Group × List Ev
  | [] => ([], [])
  | g :: t =>
    let r := closeOne p sock g
    let r' := closeLess p sock t
    (r.1 :: r'.1, r.2 ++ r'.2)

/-- `is_some_rtr_mgr_group_established` -/
def someEstablished (gs : List Group) : Bool := gs.any fun g => g.status == .established

/-- `get_best_inactive_rtr_mgr_group(config, group)` followed by `rtr_mgr_start_sockets` on the
    result: the first group in list order that is not `group` and is CLOSED -/
def startBest (p : Nat) : List Group → List Group × List Ev
  | [] => ([], [])
  | c :: t =>
    if c.pref ≠ p ∧ c.status = .closed then
      let r := c.startSockets
      (r.1 :: t, r.2.1)
    else
      let r := startBest p t
      (c :: r.1, r.2)

/-- the test in the ERROR branch of `_rtr_mgr_cb_state_established`: no more preferable group is
    in a state other than ERROR / CLOSED -/
def allErrorBefore (gs : List Group) (p : Nat) : Bool :=
  gs.all fun c => !(c.pref != p && c.status != .error && c.status != .closed && decide (c.pref < p))

/-! ### `rtr_mgr_cb` -/

def cbShutdown (gs : List Group) (g : Group) (i : Nat) : List Group × List Ev :=
  let allDown := g.socks.all fun x => x.state == .shutdown
  let st := if allDown then Status.closed else g.status
  (setStatus gs g.pref st, [Ev.status g.pref st (some (g.pref, i))])

def becomeEstablished (gs : List Group) (p i : Nat) : List Group × List Ev :=
  let sock := some (p, i)
  let r := closeLess p sock (setStatus gs p .established)
  (r.1, Ev.status p .established sock :: r.2)

def cbEstablished (gs : List Group) (g : Group) (i : Nat) : List Group × List Ev :=
  let p := g.pref
  let sock := some (p, i)
  if g.status = .connecting then
    if g.isSynced then becomeEstablished gs p i
    else (setStatus gs p .connecting, [Ev.status p .connecting sock])
  else if g.status = .error then
    if allErrorBefore gs p ∧ g.isSynced then becomeEstablished gs p i
    else (setStatus gs p .error, [Ev.status p .error sock])
  else (gs, [])

def cbConnecting (gs : List Group) (g : Group) (i : Nat) : List Group × List Ev :=
  let st := if g.status = .error then Status.error else Status.connecting
  (setStatus gs g.pref st, [Ev.status g.pref st (some (g.pref, i))])

def cbError (gs : List Group) (g : Group) (i : Nat) : List Group × List Ev :=
  let gs1 := setStatus gs g.pref .error
  let l1 := [Ev.status g.pref .error (some (g.pref, i))]
  if someEstablished gs1 then (gs1, l1)
  else
    let r := startBest g.pref gs1
    (r.1, l1 ++ r.2)

/-- `rtr_mgr_cb(sock, state, config, group)`; `g` is the group as it is in `gs` now -/
def mgrCb (gs : List Group) (g : Group) (i : Nat) (st : SockState) : List Group × List Ev :=
  match st with
  | .shutdown => cbShutdown gs g i
  | .established => cbEstablished gs g i
  | .connecting => cbConnecting gs g i
  | .errFatal | .errTransport | .errNoData => cbError gs g i
  | _ => (setStatus gs g.pref g.status, [Ev.status g.pref g.status (some (g.pref, i))])

/-- a socket state change arriving at the manager:
    `sock->last_update = synced ? now : 0; rtr_change_socket_state(sock, st)`.
    `none` when the socket does not exist. -/
def event (gs : List Group) (p i : Nat) (st : SockState) (synced : Bool) : Option (List Group × List Ev) :=
  match findG gs p with
  | none => none
  | some g =>
    match g.socks[i]? with
    | none => none
    | some s =>
      let s1 : Sock := { s with synced := synced }
      if s1.state = st ∨ s1.state = .shutdown then
        some (modG gs p (fun g => { g with socks := g.socks.set i s1 }), [])
      else
        let g2 : Group := { g with socks := g.socks.set i { s1 with state := st } }
        some (mgrCb (modG gs p fun _ => g2) g2 i st)

/-! ### the API -/

/-- ordered insertion / insertion sort by preference (what `qsort` + `tommy_list_sort` compute;
    for pairwise distinct keys the result does not depend on the algorithm) -/
def insertG (g : Group) : List Group → List Group
  | [] => [g]
  | h :: t => if g.pref ≤ h.pref then g :: h :: t else h :: insertG g t

def sortG : List Group → List Group
  | [] => []
  | h :: t => insertG h (sortG t)

/-- the check loop of `rtr_mgr_init` over the sorted array: `last` is `last_preference`
    (`none` for `i = 0`) -/
def initCheck : Option Nat → List Group → Bool
  | _, [] => true
  | last, g :: t =>
    if last = some g.pref then false
    else if g.socks.length = 0 then false
    else initCheck (some g.pref) t

def mkGroup (pref nsocks : Nat) : Group :=
  { pref := pref, status := .closed, socks := List.replicate nsocks {} }

/-- a group as `rtr_mgr_add_group` creates it: CLOSED, sockets fresh from `rtr_init` called with `iv` -/
def mkGroupIv (pref nsocks : Nat) (iv : Nat × Nat × Nat) : Group :=
  { pref := pref, status := .closed, socks := List.replicate nsocks {}, ivs := iv }

/-- `rtr_mgr_init` (as fixed): `none` = RTR_ERROR and no configuration -/
def init (specs : List (Nat × Nat)) : Option (List Group) :=
  if specs.isEmpty then none
  else
    let sorted := sortG (specs.map fun s => mkGroup s.1 s.2)
    if initCheck none sorted then some (sortG sorted) else none

/-- start the most preferable group if it is CLOSED (tail of add_group / remove_group) -/
def startFirstIfClosed : List Group → List Group × List Ev
  | [] => ([], [])
  | b :: t => if b.status = .closed then let r := b.startSockets; (r.1 :: t, r.2.1) else (b :: t, [])

/-- the interval loop of `rtr_mgr_add_group`: start from 3600 / 7200 / 600 and let every group, in
    list order, override each component for which its `sockets[0]` holds a non-zero value -/
def pickIvs : Nat × Nat × Nat → List Group → Nat × Nat × Nat
  | acc, [] => acc
  | acc, g :: t =>
    pickIvs (if g.ivs.1 ≠ 0 then g.ivs.1 else acc.1,
             if g.ivs.2.1 ≠ 0 then g.ivs.2.1 else acc.2.1,
             if g.ivs.2.2 ≠ 0 then g.ivs.2.2 else acc.2.2) t

/-- the range check of `rtr_init` (`rtr_check_interval_range(..) == RTR_INSIDE_INTERVAL_RANGE` for
    refresh, expire and retry) -/
def ivsOk (iv : Nat × Nat × Nat) : Bool :=
  decide (Gen.RTR_REFRESH_MIN ≤ iv.1) && decide (iv.1 ≤ Gen.RTR_REFRESH_MAX) &&
  decide (Gen.RTR_EXPIRATION_MIN ≤ iv.2.1) && decide (iv.2.1 ≤ Gen.RTR_EXPIRATION_MAX) &&
  decide (Gen.RTR_RETRY_MIN ≤ iv.2.2) && decide (iv.2.2 ≤ Gen.RTR_RETRY_MAX)

/-- Why `rtr_mgr_add_group` fails, in the order of the C function: the preference is in use
    (RTR_INVALID_PARAM = -2); the allocation of the group is refused (RTR_ERROR = -1);
    `rtr_mgr_init_sockets` → `rtr_init` rejects the copied intervals (RTR_INVALID_PARAM);
    the allocation of the list node is refused (RTR_ERROR — as fixed; the unfixed code
    returns the RTR_SUCCESS left in `err_code` by `rtr_mgr_init_sockets`).
    `failAt = k > 0`: the k-th `lrtr_malloc` of this call returns NULL.  `none` = the add succeeds. -/
def addRefusal (gs : List Group) (pref failAt : Nat) : Option Int :=
  if gs.any (fun g => g.pref == pref) then some (-2)
  else if failAt = 1 then some (-1)
  else if ivsOk (pickIvs defaultIvs gs) = false then some (-2)
  else if failAt = 2 then some (-1)
  else none

/-- `rtr_mgr_add_group`; return code -2 = RTR_INVALID_PARAM, -1 = RTR_ERROR.  A refused add leaves
    the configuration as it is and has no effects.  The sockets of the new group are initialised
    with the picked intervals.
    (The C function does not check `sockets_len`; a socket-less group makes the *next* add_group
    dereference `sockets[0]` of an empty array, so the line protocol only offers `nsocks ≥ 1`.) -/
def add (gs : List Group) (pref nsocks : Nat) (failAt : Nat := 0) : List Group × List Ev × Int :=
  match addRefusal gs pref failAt with
  | some rc => (gs, [], rc)
  | none =>
    let r := startFirstIfClosed (sortG (gs ++ [mkGroupIv pref nsocks (pickIvs defaultIvs gs)]))
    (r.1, r.2, 0)

/-- what an End of Data PDU does to `sockets[0]` of group `p` when that socket is in
    RTR_INTERVAL_MODE_ACCEPT_ANY: the three announced values are stored as they are -/
def setIvs (gs : List Group) (p : Nat) (iv : Nat × Nat × Nat) : List Group :=
  modG gs p fun g => { g with ivs := iv }

/-- the list without its first group of preference `p` (`tommy_list_remove_existing`) -/
def eraseG (p : Nat) : List Group → List Group
  | [] => []
  | g :: t => if g.pref = p then t else g :: eraseG p t

/-- `rtr_mgr_remove_group` -/
def remove (gs : List Group) (pref : Nat) : List Group × List Ev × Int :=
  if gs.length = 1 then (gs, [], -1)
  else match findG gs pref with
    | none => (gs, [], -1)
    | some g =>
      let l1 : List Ev :=
        if g.status ≠ .closed then g.stopAll.2 ++ [Ev.status pref .closed none] else []
      let r := startFirstIfClosed (eraseG pref gs)
      (r.1, l1 ++ r.2, 0)

/-- `rtr_mgr_start`: start the first group whatever its status -/
def start : List Group → List Group × List Ev × Int
  | [] => ([], [], -1)
  | b :: t => let r := b.startSockets; (r.1 :: t, r.2.1, if r.2.2 then 0 else -1)

/-- `rtr_mgr_stop` -/
def stop : List Group → List Group × List Ev
  | [] => ([], [])
  | g :: t => let r := g.stopAll; let r' := stop t; (r.1 :: r'.1, r.2 ++ r'.2)

/-- `rtr_mgr_get_first_group` -/
def firstGroup (gs : List Group) : Option Group := gs.head?

/-- `rtr_mgr_for_each_group` visits the groups in list order -/
def forEachGroup (gs : List Group) : List Group := gs

/-! ### histories -/

inductive Op
  | ev (p i : Nat) (st : SockState) (synced : Bool)
  /-- `failAt = k > 0`: the k-th allocation inside this `rtr_mgr_add_group` call is refused -/
  | add (pref nsocks : Nat) (failAt : Nat := 0)
  /-- End of Data with these refresh / expire / retry values on `sockets[0]` (ACCEPT_ANY mode) of group `pref` -/
  | setiv (pref refresh expire retry : Nat)
  | remove (pref : Nat)
  | start
  | stop
  deriving DecidableEq, Repr

/-- one operation: new configuration, effects of this operation, return code -/
def step (gs : List Group) : Op → List Group × List Ev × Int
  | .ev p i st sy => match event gs p i st sy with
    | some r => (r.1, r.2, 0)
    | none => (gs, [], 0)
  | .add p n k => add gs p n k
  | .setiv p a b c => (setIvs gs p (a, b, c), [], 0)
  | .remove p => remove gs p
  | .start => start gs
  | .stop => let r := stop gs; (r.1, r.2, 0)

def run (gs : List Group) : List Op → List Group
  | [] => gs
  | o :: os => run (step gs o).1 os

/-- the effects of a whole history, in order -/
def runLog (gs : List Group) : List Op → List Ev
  | [] => []
  | o :: os => (step gs o).2.1 ++ runLog (step gs o).1 os

end Rtr.Mgr
